(* C01 -- source tie: _index_strides as translated from ca_functions.py on this run (gen/GenFuns_C01.v), applied to
   arange(N) with window_size = 2r+1, is index_strides N r of Model/Evolve1D.v.  The ring-index theorem restated on
   the source-derived definition. *)
From Coq Require Import ZArith List Arith Lia.
From CPL Require Import Model.Base Model.Evolve1D Proofs.Evolve1DProofs gen.GenFuns_C01 GenProps.GenFunsEquivC01.
Import ListNotations.

Theorem C01_source_translation_agrees : forall N r : nat,
  src_index_strides (src_range 0 (Z.of_nat N)) (Z.of_nat (2 * r + 1)) =
  let len := length (ext_idx N r) in
  if len + 1 <? 2 * r + 1 then Raise ValueError
  else if len + 1 =? 2 * r + 1 then Ok []
  else Ok (map (map Z.of_nat) (index_strides N r)).
Proof. exact src_index_strides_agrees. Qed.

(* C01_strides_spec on the source-derived definition: for 1 <= r <= N the call succeeds and window c holds the ring
   positions (c - r + k) mod N *)
Theorem C01_src_strides_spec : forall N r c k, 1 <= r <= N -> c < N -> k < 2 * r + 1 ->
  exists rows, src_index_strides (src_range 0 (Z.of_nat N)) (Z.of_nat (2 * r + 1)) = Ok rows /\
               nth k (nth c rows []) 0%Z = Z.of_nat ((c + k + N - r) mod N).
Proof.
  intros N r c k Hr Hc Hk. rewrite C01_source_translation_agrees. cbv zeta.
  rewrite ext_idx_length by exact Hr.
  destruct (N + 2 * r + 1 <? 2 * r + 1) eqn:E1; [apply Nat.ltb_lt in E1; lia|].
  destruct (N + 2 * r + 1 =? 2 * r + 1) eqn:E2; [apply Nat.eqb_eq in E2; lia|].
  eexists. split; [reflexivity|].
  rewrite (nth_indep _ [] (map Z.of_nat [])) by (rewrite map_length, strides_length by lia; exact Hc).
  rewrite map_nth.
  rewrite (nth_indep _ 0%Z (Z.of_nat 0)) by (rewrite map_length, strides_row_length by lia; exact Hk).
  rewrite map_nth. f_equal. now apply strides_spec.
Qed.
