(* C03 -- two fragments of the recursive memoised engine as regenerated from ca_functions.py (gen/GenFuns_C03.v):
   the key of _update_state (start = indices[0], end = indices[-1], range(start - r, end + 1 + r),
   take(.., mode='wrap')) against wrap_take of Model/Memo1D.v, and the split of _step (mid = len // 2, the two
   slices) against the two halves split_with recurses on.  The index list is the contiguous block
   [start, start + len) the engine passes (np.arange(N) and its slices).  The recursion, the cache and the writes
   stay the hand-written model's. *)
From Coq Require Import ZArith List Bool Arith Lia ZifyBool ZifyNat.
From CPL Require Import Model.Base Model.Memo1D Proofs.Evolve1DProofs gen.GenFuns_C03.
Import ListNotations.
Ltac Zify.zify_post_hook ::= Z.div_mod_to_equations.

Definition block_idx (start len : nat) : list Z := map Z.of_nat (seq start len).

Lemma py_get_block : forall start len k, k < len -> py_get (block_idx start len) (Z.of_nat k) = Ok (Z.of_nat (start + k)).
Proof.
  intros start len k H. unfold py_get, py_index, block_idx. rewrite map_length, seq_length.
  destruct ((0 <=? Z.of_nat k)%Z && (Z.of_nat k <? Z.of_nat len)%Z) eqn:E; [|lia].
  rewrite Nat2Z.id, nth_error_map, (nth_error_nth' (seq start len) 0) by (rewrite seq_length; exact H).
  now rewrite seq_nth by exact H.
Qed.
Lemma py_get_block_last : forall start len, 1 <= len -> py_get (block_idx start len) (-1) = Ok (Z.of_nat (start + (len - 1))).
Proof.
  intros start len H. unfold py_get, py_index, block_idx. rewrite map_length, seq_length.
  destruct ((0 <=? -1)%Z && (-1 <? Z.of_nat len)%Z) eqn:E1; [lia|].
  destruct ((- Z.of_nat len <=? -1)%Z && (-1 <? 0)%Z) eqn:E2; [|lia].
  replace (Z.to_nat (-1 + Z.of_nat len)) with (len - 1) by lia.
  rewrite nth_error_map, (nth_error_nth' (seq start len) 0) by (rewrite seq_length; lia).
  now rewrite seq_nth by lia.
Qed.

Theorem src_memo_key_agrees : forall (curr : list Z) (r start len : nat), 1 <= len -> 1 <= length curr ->
  src_memo_key (block_idx start len) curr (Z.of_nat r)
  = Ok (Z.of_nat start, wrap_take curr (Z.of_nat start - Z.of_nat r) (len + 2 * r)).
Proof.
  intros curr r start len Hl Hc. cbv beta zeta delta [src_memo_key].
  change 0%Z with (Z.of_nat 0). rewrite (py_get_block start len 0) by lia. cbn [bind].
  rewrite (py_get_block_last start len Hl). cbn [bind]. rewrite Nat.add_0_r.
  unfold src_take_wrap. destruct (length curr =? 0) eqn:E; [apply Nat.eqb_eq in E; lia|]. cbn [andb bind].
  f_equal. f_equal. unfold wrap_take, src_range.
  match goal with |- context [Z.to_nat ?e] => replace (Z.to_nat e) with (len + 2 * r) by lia end.
  rewrite map_map. apply map_ext. intros i. reflexivity.
Qed.

Theorem src_memo_split_agrees : forall start len : nat,
  src_memo_split (block_idx start len)
  = (block_idx start (len / 2), block_idx (start + len / 2) (len - len / 2)).
Proof.
  intros start len. cbv beta zeta delta [src_memo_split]. unfold block_idx. rewrite map_length, seq_length.
  replace (Z.to_nat (Z.of_nat len / 2)) with (len / 2) by lia.
  rewrite firstn_map, skipn_map. f_equal; f_equal.
  - rewrite firstn_seq; [reflexivity|]. pose proof (Nat.div_le_upper_bound len 2 len). lia.
  - now rewrite skipn_seq.
Qed.

(* ------------------------------------------------------------------ _get_memoized (memoize=True)
   The source-derived state-passing function (table = association list, key = n.tobytes() abstracted as the cell
   values, rule = a threaded state machine) against get_memoized of Model/Memo1D.v; the model's call log is the
   state of the LOGGED rule. *)
From CPL Require Import Model.Rules GenProps.GenFunsMemo.

Lemma lookup1_eq03 : forall k (d : list (list Z * Z)), src_dict_lookup k d = Memo1D.lookup k d.
Proof. intros k d. induction d as [|[k' v] d IH]; [reflexivity|]. cbn. now rewrite IH. Qed.

Theorem src_get_memoized_agrees : forall (St : Type) (rule : rule1 St) (s : St) (cache : list (list Z * Z))
  (lg : list call1) (n : list Z) (c t : nat),
  get_memoized rule (s, cache, lg) n c t =
  (let '((sl, cache'), v) := src_get_memoized (fun n => n) (logged1 rule) (s, lg) n c t cache in
   ((fst sl, cache', snd sl), v)).
Proof.
  intros St rule s cache lg n c t. cbv beta zeta delta [get_memoized src_get_memoized logged1].
  autounfold with src_helpers. rewrite <- lookup1_eq03.
  repeat match goal with
         | |- context [match ?x with Some _ => _ | None => _ end] => destruct x eqn:?
         | |- context [let '(_, _) := ?r in _] => destruct r eqn:?
         | |- context [if ?c then _ else _] => destruct c eqn:?
         end;
  rewrite ?dict_set_absent by assumption; reflexivity.
Qed.
