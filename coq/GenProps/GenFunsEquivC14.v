(* C14 -- src_sandpile_is_in_boundary and src_sandpile_call (regenerated from sandpile.py into gen/GenFuns.v)
   equal the hand-written models in_boundary / sandpile_call of Model/Sandpile.v for ALL inputs of the model.
   The model indexes cells, sizes and timesteps by nat; the source-derived definitions are over Z, so the
   statement injects the model's inputs (Z.of_nat; the scheduled additions elementwise). *)
From Coq Require Import ZArith List Bool Lia ZifyBool ZifyNat.
From CPL Require Import Model.Base Model.Rules Model.Sandpile gen.GenFuns_C14.
Import ListNotations.
Local Open Scope Z_scope.

Definition zcell (c : nat * nat) : Z * Z := (Z.of_nat (fst c), Z.of_nat (snd c)).
Definition zaddition (a : addition) : (Z * Z) * Z := (zcell (fst a), Z.of_nat (snd a)).

Ltac split_ifs := repeat match goal with |- context [if ?b then _ else _] => destruct b eqn:? end.
Ltac leaf := first [reflexivity | exfalso; lia | lia].

Theorem src_sandpile_is_in_boundary_agrees : forall (rows cols : nat) (c : nat * nat),
  src_sandpile_is_in_boundary (Z.of_nat rows) (Z.of_nat cols) (zcell c) = in_boundary rows cols c.
Proof.
  intros rows cols [i j].
  cbv beta zeta delta [src_sandpile_is_in_boundary in_boundary zcell fst snd].
  cbv beta iota. lia.
Qed.

(* the scan over self._grain_additions *)
Lemma scan_agrees : forall (F : (Z * Z) * Z -> bool) (G : addition -> bool),
  (forall a, F (zaddition a) = G a) -> forall adds, existsb F (map zaddition adds) = existsb G adds.
Proof.
  intros F G H adds. induction adds as [|a adds IH]; [reflexivity|].
  cbn [map existsb]. now rewrite IH, H.
Qed.

Theorem src_sandpile_call_agrees :
  forall (rows cols : nat) (closed : bool) (adds : list addition) (n : nbhd2) (c : nat * nat) (t : nat),
  src_sandpile_call (Z.of_nat rows) (Z.of_nat cols) closed (map zaddition adds) (nb_vals n) (zcell c) (Z.of_nat t)
  = sandpile_call rows cols closed adds n c t.
Proof.
  intros rows cols closed adds n c t.
  cbv beta zeta delta [src_sandpile_call sandpile_call scheduled]. autounfold with src_helpers. cbv beta zeta.
  rewrite src_sandpile_is_in_boundary_agrees.
  match goal with |- context [existsb ?F (map zaddition adds)] =>
    rewrite (scan_agrees F (fun a : addition => (t =? snd a)%nat && cell_eqb c (fst a)))
  end.
  2: { intros [[i j] s]. destruct c as [ci cj].
       cbv beta zeta delta [zaddition zcell src_cell_eqb cell_eqb fst snd]. cbv beta iota. lia. }
  cbv beta iota zeta delta [topple_in fold_left K src_nb nb_at].
  generalize (nth 1 (nth 1 (nb_vals n) []) 0) (nth 1 (nth 0 (nb_vals n) []) 0) (nth 0 (nth 1 (nb_vals n) []) 0)
             (nth 2 (nth 1 (nb_vals n) []) 0) (nth 1 (nth 2 (nb_vals n) []) 0).
  intros x a b d e.
  split_ifs; leaf.
Qed.
