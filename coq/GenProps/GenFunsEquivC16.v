(* C16 -- the exact layer of entropy.py as regenerated from the source (gen/GenFuns_C16.v), fragment by fragment,
   against Model/EntropyExact.v: the symbols and their counts in shannon_entropy, the pair indicator of
   joint_shannon_entropy, the guard and the two slices of average_mutual_information.  Symbols are any type with
   decidable equality.  The real-valued layer (float division, log, sums, np.mean) stays with the hand-written model.
   `set(X)` iterates in an unspecified order and the loop structure is NOT translated: the hand-written model
   enumerates keys X x keys Y.  What the loop appends per pair -- the indicator list -- is translated here.  That the
   value does not depend on the enumeration order is commutativity of the real sum; the development has no separate
   permutation lemma for it: C16_joint_is_definition characterises the model's value as the sum over the duplicate-free
   list of the pairs that occur (NoDup, membership <-> occurrence), which is an order-free description, and the
   correspondence compares the float result with a tolerance. *)
From Coq Require Import ZArith List Bool Arith Lia ZifyBool ZifyNat.
From CPL Require Import Model.Base Model.EntropyExact gen.GenFuns_C16.
Import ListNotations.

Theorem src_shannon_symbols_agrees : forall (A : Type) (dec : forall a b : A, {a = b} + {a <> b}) (s : list A),
  src_shannon_symbols dec s = keys dec s.
Proof. reflexivity. Qed.

(* the numerators of symbol_probabilities, in the order of `symbols`, are the model's count_list *)
Theorem src_shannon_count_agrees : forall (A : Type) (dec : forall a b : A, {a = b} + {a <> b}) (s : list A),
  map (src_shannon_count dec s) (src_shannon_symbols dec s) = map Z.of_nat (count_list dec s).
Proof.
  intros A dec s. unfold count_list, counts. rewrite !map_map. apply map_ext. intros x. reflexivity.
Qed.

(* np.mean of the indicator list is (number of True) / len: the number of True is the joint count of the pair *)
Theorem src_joint_indicator_agrees : forall (A B : Type) (eqA : forall a b : A, {a = b} + {a <> b})
  (eqB : forall a b : B, {a = b} + {a <> b}) (X : list A) (Y : list B) (x : A) (y : B),
  length (src_joint_indicator eqA eqB X Y x y) = length (combine X Y) /\
  count_occ bool_dec (src_joint_indicator eqA eqB X Y x y) true = count_occ (pair_dec eqA eqB) (combine X Y) (x, y).
Proof.
  intros A B eqA eqB X Y x y. unfold src_joint_indicator. split; [apply map_length|].
  induction (combine X Y) as [|[a b] l IH]; [reflexivity|].
  cbn [map count_occ]. rewrite <- IH.
  destruct (eqA a x) as [->|Na]; destruct (eqB b y) as [->|Nb]; cbn [andb];
    destruct (pair_dec eqA eqB _ _) as [E|N]; destruct (bool_dec _ true) as [E2|N2];
    try reflexivity; try congruence; try (exfalso; apply N; reflexivity).
Qed.

Theorem src_ami_guard_agrees : forall (d : Z) (T : nat), src_ami_guard d (Z.of_nat T) = ami_guard d T.
Proof. intros d T. unfold src_ami_guard, ami_guard. lia. Qed.

(* under the guard (0 < d) the two arguments of mutual_information are the model's pairing (s[:-d], s[d:]) *)
Theorem src_ami_pair_agrees : forall (A : Type) (s : list A) (d : Z), (0 < d)%Z ->
  (src_ami_left s d, src_ami_right s d) = pair_d (Z.to_nat d) s.
Proof. intros A s d H. reflexivity. Qed.
