(* C20 -- source tie: HopfieldNet._rule as translated from hopfield_net.py on this run (gen/GenFuns.v) is the
   hand-written hopfield_rule of Model/Hopfield.v, and HopfieldNet.train (the triple loop with raising element
   accesses) is train_loop, hence `train`.  The field theorem and the Hebbian theorem restated on the source-derived
   definitions. *)
From Coq Require Import ZArith List.
From CPL Require Import Model.Base Model.Rules Model.Engine Model.Evolve1D Model.Hopfield Proofs.HopfieldProofs.
From CPL Require Import gen.GenFuns_C20 GenProps.GenFunsEquivC20.
Import ListNotations.
Local Open Scope Z_scope.

Theorem C20_source_translation_agrees :
  (forall (W : list (list Z)) (r : nat) (n : list Z) (c : nat),
     src_hopfield_rule W (Z.of_nat r) n (Z.of_nat c) = hopfield_rule W r n c) /\
  (forall P : list (list Z), src_hopfield_train P = train P).
Proof.
  split; [exact src_hopfield_rule_agrees|]. intros P. rewrite src_hopfield_train_agrees. apply train_loop_eq.
Qed.

(* C20_hopfield_field on the source-derived rule: on a ring of N = 2r+1 cells with an N x N weight matrix, the rule
   applied to the ring neighbourhood of cell c returns the sign (>= 0 -> 1, else -1) of the weighted input of c from
   all OTHER cells *)
Theorem C20_src_hopfield_field : forall r W s c, let N := (2 * r + 1)%nat in
  shape N W -> length s = N -> (c < N)%nat ->
  src_hopfield_rule W (Z.of_nat r) (ring_nbhd s c r) (Z.of_nat c) = Ok (hop (field_excl W s c)).
Proof.
  intros r W s c N Hs Hl Hc. rewrite (proj1 C20_source_translation_agrees). unfold hopfield_rule.
  rewrite (hopfield_field r W s c Hs Hl Hc). reflexivity.
Qed.

(* C20_train_hebbian on the source-derived train: for patterns of one length N the call succeeds and the matrix is
   N x N, symmetric, zero on the diagonal, and off the diagonal the Hebbian sum over the patterns *)
Theorem C20_src_train_hebbian : forall N p0 P, Forall (fun p => length p = N) (p0 :: P) ->
  exists W, src_hopfield_train (p0 :: P) = Ok W /\ shape N W /\
    (forall i j, (i < N)%nat -> (j < N)%nat ->
       mget W i j = if (i =? j)%nat then 0 else hebb (p0 :: P) i j) /\
    wsym N W /\ wdiag N W.
Proof. intros N p0 P H. rewrite (proj2 C20_source_translation_agrees). now apply train_hebbian. Qed.
