(* C03 -- source tie (fragments): the cache key of _update_state and the split of _step as translated from
   ca_functions.py on this run (gen/GenFuns_C03.v) are wrap_take and the two halves of split_with of
   Model/Memo1D.v, on the contiguous index blocks the engine passes.  The recursion, the cache dict and the writes
   into next_state stay the hand-written model's (and the correspondence's). *)
From Coq Require Import ZArith List Arith Lia.
From CPL Require Import Model.Base Model.Rules Model.Evolve1D Model.Memo1D gen.GenFuns_C03 GenProps.GenFunsEquivC03.
Import ListNotations.

Theorem C03_source_translation_agrees :
  (forall (curr : list Z) (r start len : nat), 1 <= len -> 1 <= length curr ->
     src_memo_key (block_idx start len) curr (Z.of_nat r)
     = Ok (Z.of_nat start, wrap_take curr (Z.of_nat start - Z.of_nat r) (len + 2 * r))) /\
  (forall start len : nat,
     src_memo_split (block_idx start len)
     = (block_idx start (len / 2), block_idx (start + len / 2) (len - len / 2))) /\
  (forall (St : Type) (rule : rule1 St) (s : St) (cache : list (list Z * Z)) (lg : list call1) (n : list Z) (c t : nat),
     get_memoized rule (s, cache, lg) n c t =
     (let '((sl, cache'), v) := src_get_memoized (fun n => n) (logged1 rule) (s, lg) n c t cache in
      ((fst sl, cache', snd sl), v))).
Proof. split; [exact src_memo_key_agrees | split; [exact src_memo_split_agrees | exact src_get_memoized_agrees]]. Qed.

(* the key read by the source for a block is the ring window of the property: entry i is
   curr[(start - r + i) mod N] (what the memoisation theorems of C03 are stated on), and the two halves of the split
   are adjacent, non-overlapping and cover the block *)
Theorem C03_src_key_is_ring_window : forall (curr : list Z) (r start len i : nat),
  1 <= len -> 1 <= length curr -> i < len + 2 * r ->
  exists key, src_memo_key (block_idx start len) curr (Z.of_nat r) = Ok (Z.of_nat start, key) /\
    length key = len + 2 * r /\
    nth i key 0%Z = nth (Z.to_nat ((Z.of_nat start - Z.of_nat r + Z.of_nat i) mod Z.of_nat (length curr))) curr 0%Z.
Proof.
  intros curr r start len i Hl Hc Hi. rewrite (proj1 C03_source_translation_agrees) by assumption.
  eexists. split; [reflexivity|]. unfold wrap_take. split; [now rewrite map_length, seq_length|].
  rewrite (nth_indep _ 0%Z ((fun k => nth (Z.to_nat ((Z.of_nat start - Z.of_nat r + Z.of_nat k) mod Z.of_nat (length curr))) curr 0%Z) 0))
    by (rewrite map_length, seq_length; exact Hi).
  rewrite (map_nth (fun k => nth (Z.to_nat ((Z.of_nat start - Z.of_nat r + Z.of_nat k) mod Z.of_nat (length curr))) curr 0%Z)).
  now rewrite seq_nth by exact Hi.
Qed.

Theorem C03_src_split_covers : forall start len : nat,
  fst (src_memo_split (block_idx start len)) ++ snd (src_memo_split (block_idx start len)) = block_idx start len.
Proof.
  intros start len. rewrite (proj1 (proj2 C03_source_translation_agrees)). cbn [fst snd]. unfold block_idx.
  rewrite <- map_app, <- seq_app. f_equal. f_equal. pose proof (Nat.div_le_upper_bound len 2 len). lia.
Qed.
