(* C16 -- source tie: the exact layer of entropy.py (symbols and counts of shannon_entropy, the pair indicator of
   joint_shannon_entropy, the guard and the slices of average_mutual_information) as translated from the source on
   this run (gen/GenFuns_C16.v) is the exact layer of Model/EntropyExact.v. *)
From Coq Require Import ZArith List Bool.
From CPL Require Import Model.Base Model.EntropyExact gen.GenFuns_C16 GenProps.GenFunsEquivC16.
Import ListNotations.

Theorem C16_source_translation_agrees :
  (forall (A : Type) (dec : forall a b : A, {a = b} + {a <> b}) (s : list A),
     src_shannon_symbols dec s = keys dec s /\
     map (src_shannon_count dec s) (src_shannon_symbols dec s) = map Z.of_nat (count_list dec s)) /\
  (forall (A B : Type) (eqA : forall a b : A, {a = b} + {a <> b}) (eqB : forall a b : B, {a = b} + {a <> b})
          (X : list A) (Y : list B) (x : A) (y : B),
     length (src_joint_indicator eqA eqB X Y x y) = length (combine X Y) /\
     count_occ bool_dec (src_joint_indicator eqA eqB X Y x y) true
       = count_occ (pair_dec eqA eqB) (combine X Y) (x, y)) /\
  (forall (d : Z) (T : nat), src_ami_guard d (Z.of_nat T) = ami_guard d T) /\
  (forall (A : Type) (s : list A) (d : Z), (0 < d)%Z ->
     (src_ami_left s d, src_ami_right s d) = pair_d (Z.to_nat d) s).
Proof.
  split; [intros A dec s; split; [apply src_shannon_symbols_agrees | apply src_shannon_count_agrees]|].
  split; [exact src_joint_indicator_agrees|]. split; [exact src_ami_guard_agrees | exact src_ami_pair_agrees].
Qed.

(* the per-cell data of average_mutual_information (ami_cells) written with the source-derived guard and slices:
   ValueError exactly when the source-derived guard fails, otherwise the count lists of the source-derived pair *)
Theorem C16_src_ami_cells : forall (rows : list (list Z)) (d : Z),
  ami_cells rows d =
  if src_ami_guard d (Z.of_nat (nrows rows)) then
    Ok (map (fun i => mi_counts String.string_dec String.string_dec
                        (src_ami_left (cell_series rows i) d) (src_ami_right (cell_series rows i) d))
            (seq 0 (ncols rows)))
  else Raise ValueError.
Proof.
  intros rows d. unfold ami_cells. rewrite (proj1 (proj2 (proj2 C16_source_translation_agrees))).
  destruct (ami_guard d (nrows rows)); reflexivity.
Qed.
