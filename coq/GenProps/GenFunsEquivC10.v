(* C10 -- the construction of block_indices_odd / block_indices_even in evolve_block (the comprehension over
   range(0, N, block_size) and the rotation [cell_indices[-1]] + cell_indices[:-1]) as regenerated from
   ca_functions.py (gen/GenFuns_C10.v), against blocks_odd / blocks_even of Model/Block.v, for every block size
   b >= 1 and every N = m * b (the code raises before for other N); N = 0 raises IndexError at cell_indices[-1]. *)
From Coq Require Import ZArith List Bool Arith Lia ZifyBool ZifyNat.
From CPL Require Import Model.Base Model.Block Proofs.BlockProofs gen.GenFuns_C10.
Import ListNotations.

(* a list built by appending in a loop is the comprehension *)
Lemma fold_append_map : forall {A B} (g : A -> B) (l : list A) (acc : list B),
  fold_left (fun acc x => acc ++ [g x]) l acc = acc ++ map g l.
Proof.
  intros A B g l. induction l as [|x l IH]; intros acc; cbn; [now rewrite app_nil_r|].
  rewrite IH, <- app_assoc. reflexivity.
Qed.

Lemma chunks_as_map : forall {A} (b m : nat) (l : list A), 1 <= b -> length l = m * b ->
  chunks b l = map (fun j => firstn b (skipn (j * b) l)) (seq 0 m).
Proof.
  intros A b m l Hb Hl. apply (nth_ext _ _ [] []).
  - rewrite map_length, seq_length. now apply chunks_length.
  - intros j Hj. rewrite (chunks_length b m l Hb Hl) in Hj. rewrite chunks_nth by exact Hb.
    rewrite (nth_indep _ [] (firstn b (skipn (0 * b) l))) by (rewrite map_length, seq_length; exact Hj).
    rewrite (map_nth (fun j => firstn b (skipn (j * b) l)) (seq 0 m) 0 j), seq_nth by exact Hj. reflexivity.
Qed.

Lemma step_count : forall b m : nat, 1 <= b ->
  Z.to_nat ((Z.of_nat (m * b) - 0 + Z.of_nat b - 1) / Z.of_nat b) = m.
Proof.
  intros b m Hb.
  replace (Z.of_nat (m * b) - 0 + Z.of_nat b - 1)%Z with (Z.of_nat m * Z.of_nat b + (Z.of_nat b - 1))%Z
    by (rewrite Nat2Z.inj_mul; lia).
  rewrite Z.div_add_l by lia. rewrite Z.div_small by lia. lia.
Qed.

Lemma comp_chunks : forall (b m : nat) (l : list nat) (G : Z -> list Z), 1 <= b -> length l = m * b ->
  (forall j : nat, G (0 + Z.of_nat b * Z.of_nat j)%Z = firstn b (skipn (j * b) (map Z.of_nat l))) ->
  map G (src_range_step 0 (Z.of_nat (length (map Z.of_nat l))) (Z.of_nat b)) = map (map Z.of_nat) (chunks b l).
Proof.
  intros b m l G Hb Hl HG. unfold src_range_step. rewrite map_length, Hl, step_count by exact Hb.
  rewrite (chunks_as_map b m l Hb Hl), !map_map. apply map_ext. intros j.
  rewrite HG. now rewrite skipn_map, firstn_map.
Qed.

(* the slice cell_indices[i : i + b] at i = b * j *)
Ltac slice_at_block b j :=
  intros j; cbv beta;
  repeat match goal with
         | |- context [Z.to_nat ?e] =>
             lazymatch e with
             | context [Z.of_nat j] =>
                 first [ replace (Z.to_nat e) with (j * b) by nia
                       | replace (Z.to_nat e) with (j * b + b) by nia ]
             end
         end;
  replace (j * b + b - j * b) with b by lia; reflexivity.

Theorem src_block_indices_agrees : forall (init : list Z) (b m : nat), 1 <= b -> length init = m * b ->
  src_block_indices init (Z.of_nat b) =
  if m =? 0 then Raise IndexError
  else Ok (map (map Z.of_nat) (blocks_odd (m * b) b), map (map Z.of_nat) (blocks_even (m * b) b)).
Proof.
  intros init b m Hb Hl. cbv beta zeta delta [src_block_indices]. autounfold with src_helpers. cbv beta zeta.
  rewrite ?fold_append_map, ?app_nil_l.
  set (N := m * b).
  assert (Hr : src_range 0 (Z.of_nat (length init)) = map Z.of_nat (seq 0 N)).
  { unfold src_range. rewrite Z.sub_0_r, Nat2Z.id, Hl. apply map_ext. intros k. lia. }
  rewrite Hr. clear Hr.
  destruct (m =? 0) eqn:Em.
  - apply Nat.eqb_eq in Em. subst m. cbn. reflexivity.
  - assert (HN : N = S (N - 1)) by (unfold N; apply Nat.eqb_neq in Em; nia).
    assert (Hg : py_get (map Z.of_nat (seq 0 N)) (-1) = Ok (Z.of_nat (N - 1))).
    { unfold py_get, py_index. rewrite map_length, seq_length.
      destruct ((0 <=? -1)%Z && (-1 <? Z.of_nat N)%Z) eqn:E1; [lia|].
      destruct ((- Z.of_nat N <=? -1)%Z && (-1 <? 0)%Z) eqn:E2; [|lia].
      replace (Z.to_nat (-1 + Z.of_nat N)) with (N - 1) by lia.
      rewrite nth_error_map, (nth_error_nth' (seq 0 N) 0) by (rewrite seq_length; lia).
      rewrite seq_nth by lia. reflexivity. }
    rewrite Hg. cbn [bind]. rewrite ?fold_append_map, ?app_nil_l. f_equal. f_equal.
    + unfold blocks_odd. apply (comp_chunks b m (seq 0 N)); [exact Hb | apply seq_length | slice_at_block b j].
    + assert (Hrot : [Z.of_nat (N - 1)] ++ removelast (map Z.of_nat (seq 0 N)) = map Z.of_nat (rotated N)).
      { unfold rotated. rewrite HN at 2 3. replace (S (N - 1)) with ((N - 1) + 1) by lia.
        rewrite seq_app, map_app. cbn [seq map Nat.add]. rewrite removelast_last.
        destruct (N - 1 + 1) eqn:E; [lia|]. replace n with (N - 1) by lia. reflexivity. }
      rewrite Hrot. unfold blocks_even. apply (comp_chunks b m (rotated N)); [exact Hb| |slice_at_block b j].
      unfold rotated. rewrite HN. cbn [length]. rewrite seq_length. lia.
Qed.
