(* Static helper of the source tie: the engines of Model/Engine.v, Model/Evolve1D.v, Model/Evolve2D.v depend on
   the rule / the step / the stopping predicate only through their values (pointwise equal arguments give equal
   runs).  Used by GenProps/CxxSrc.v to transfer a theorem about a hand-written rule to the definition
   regenerated from the source, without functional extensionality. *)
From Coq Require Import ZArith List.
From CPL Require Import Model.Base Model.Rules Model.Engine Model.Evolve1D Model.Evolve2D.
Import ListNotations.

Lemma apply_all_ext : forall St (f g : rule1 St) store, (forall s n c t, f s n c t = g s n c t) ->
  forall nbs s c t, apply_all f store s c nbs t = apply_all g store s c nbs t.
Proof.
  intros St f g store H nbs. induction nbs as [|n nbs IH]; intros s c t; [reflexivity|].
  cbn [apply_all]. rewrite H. destruct (g s n c t) as [s1 v]. rewrite IH. reflexivity.
Qed.

Lemma step_plain_ext : forall St (f g : rule1 St) store r, (forall s n c t, f s n c t = g s n c t) ->
  forall s cells t, step_plain f store r s cells t = step_plain g store r s cells t.
Proof. intros St f g store r H s cells t. unfold step_plain. now apply apply_all_ext. Qed.

Lemma apply_cols_ext : forall St (f g : rule2 St) store, (forall s n c t, f s n c t = g s n c t) ->
  forall cols s gr R C r ty row t, apply_cols f store s gr R C r ty row cols t = apply_cols g store s gr R C r ty row cols t.
Proof.
  intros St f g store H cols. induction cols as [|col cols IH]; intros s gr R C r ty row t; [reflexivity|].
  cbn [apply_cols]. rewrite H. destruct (g s _ (row, col) t) as [s1 v]. rewrite IH. reflexivity.
Qed.

Lemma apply_rows_ext : forall St (f g : rule2 St) store, (forall s n c t, f s n c t = g s n c t) ->
  forall rows s gr R C r ty t, apply_rows f store s gr R C r ty rows t = apply_rows g store s gr R C r ty rows t.
Proof.
  intros St f g store H rows. induction rows as [|row rows IH]; intros s gr R C r ty t; [reflexivity|].
  cbn [apply_rows]. rewrite (apply_cols_ext St f g store H). destruct (apply_cols g store s gr R C r ty row (seq 0 C) t) as [s1 vs].
  rewrite IH. reflexivity.
Qed.

Lemma step_plain2d_ext : forall St (f g : rule2 St) store r ty, (forall s n c t, f s n c t = g s n c t) ->
  forall s gr t, step_plain2d f store r ty s gr t = step_plain2d g store r ty s gr t.
Proof. intros St f g store r ty H s gr t. unfold step_plain2d. now apply apply_rows_ext. Qed.

Lemma iter_steps_ext : forall X C (f g : X -> C -> nat -> X * C), (forall x c t, f x c t = g x c t) ->
  forall n x cur t, iter_steps f n x cur t = iter_steps g n x cur t.
Proof.
  intros X C f g H n. induction n as [|n IH]; intros x cur t; [reflexivity|].
  cbn [iter_steps]. rewrite H. destruct (g x cur t) as [x1 nxt]. rewrite IH. reflexivity.
Qed.

Lemma dynamic_loop_ext_pred : forall X P C (dflt : C) (step : X -> C -> nat -> X * C)
  (p q : P -> list C -> nat -> P * bool), (forall u s t, p u s t = q u s t) ->
  forall fuel u x states t plog,
  dynamic_loop dflt step p fuel u x states t plog = dynamic_loop dflt step q fuel u x states t plog.
Proof.
  intros X P C dflt step p q H fuel. induction fuel as [|fuel IH]; intros u x states t plog; [reflexivity|].
  cbn [dynamic_loop]. rewrite H. destruct (q u states t) as [u1 go]. destruct go; [|reflexivity].
  destruct (step x (last states dflt) t) as [x1 nxt]. apply IH.
Qed.

Lemma evolve_dynamic_ext_pred : forall X P C (dflt : C) (step : X -> C -> nat -> X * C)
  (p q : P -> list C -> nat -> P * bool), (forall u s t, p u s t = q u s t) ->
  forall fuel u x hist, evolve_dynamic dflt step p fuel u x hist = evolve_dynamic dflt step q fuel u x hist.
Proof. intros X P C dflt step p q H fuel u x hist. unfold evolve_dynamic. now rewrite (dynamic_loop_ext_pred X P C dflt step p q H). Qed.
