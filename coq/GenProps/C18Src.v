(* C18 -- source tie: binary_derivative (loop with the early break) and cyclic_binary_derivative as translated
   from bien.py on this run (gen/GenFuns.v) are the hand-written loops of Model/BienExact.v and never raise.
   The closed forms restated on the source-derived definitions. *)
From Coq Require Import List Bool.
From CPL Require Import Model.Base Model.BienExact Proofs.BienExactProofs gen.GenFuns_C18 GenProps.GenFunsEquivC18.
Import ListNotations.

Theorem C18_source_translation_agrees :
  (forall s : list bool, src_binary_derivative s = Ok (binary_derivative s)) /\
  (forall s : list bool, src_cyclic_binary_derivative s = Ok (cyclic_binary_derivative s)).
Proof. split; [exact src_binary_derivative_agrees | exact src_cyclic_binary_derivative_agrees]. Qed.

(* C18_derivative_loops_closed_form on the source-derived loops: adjacent xor, and adjacent xor including the pair
   (last, first), for every binary string *)
Theorem C18_src_derivative_loops_closed_form : forall s : list bool,
  src_binary_derivative s = Ok (xor_adjacent s) /\ src_cyclic_binary_derivative s = Ok (xor_adjacent_cyclic s).
Proof.
  intros s. rewrite (proj1 C18_source_translation_agrees), (proj2 C18_source_translation_agrees).
  now rewrite binary_derivative_spec, cyclic_binary_derivative_spec.
Qed.
