(* C09 -- _get_memoized of ca_functions.py and of ca_functions2d.py as regenerated from the source
   (gen/GenFuns_C09.v: state-passing over an association-list table; the rule is a state machine whose state is
   threaded; the cache key n.tobytes() is the parameter nb_key) against get_memoized (Model/Memo1D.v) and get_memoized2
   (Model/Memo2D.v), for every rule, rule state, table, neighbourhood, cell and step.
   1D: the model logs the rule calls; the source-derived function is instantiated with the LOGGED rule (Model/Rules.v
   logged1), so the log is the rule's own state.  nb_key = the identity (1D) / memo_key (2D). *)
From Coq Require Import ZArith List Bool.
From CPL Require Import Model.Base Model.Rules Model.Evolve1D Model.Evolve2D Model.Memo1D Model.Memo2D.
From CPL Require Import gen.GenFuns_C09 GenProps.GenFunsMemo.
Import ListNotations.

Lemma lookup1_eq : forall k (d : list (list Z * Z)), src_dict_lookup k d = Memo1D.lookup k d.
Proof. intros k d. induction d as [|[k' v] d IH]; [reflexivity|]. cbn. now rewrite IH. Qed.
Lemma lookup2_eq : forall k (d : memo_table), src_dict_lookup k d = memo_lookup k d.
Proof. intros k d. induction d as [|[k' v] d IH]; [reflexivity|]. cbn. now rewrite IH. Qed.

(* every shape of the body: split on the lookup, on the rule's result and on any further test; a store that is
   skipped on some path makes the table differ from the model's and the proof fail *)
Ltac memo_cases :=
  repeat match goal with
         | |- context [match ?x with Some _ => _ | None => _ end] => destruct x eqn:?
         | |- context [let '(_, _) := ?r in _] => destruct r eqn:?
         | |- context [if ?c then _ else _] => destruct c eqn:?
         end;
  rewrite ?dict_set_absent by assumption; try reflexivity.

Theorem src_get_memoized_agrees : forall (St : Type) (rule : rule1 St) (s : St) (cache : list (list Z * Z))
  (lg : list call1) (n : list Z) (c t : nat),
  get_memoized rule (s, cache, lg) n c t =
  (let '((sl, cache'), v) := src_get_memoized (fun n => n) (logged1 rule) (s, lg) n c t cache in
   ((fst sl, cache', snd sl), v)).
Proof.
  intros St rule s cache lg n c t. cbv beta zeta delta [get_memoized src_get_memoized logged1].
  autounfold with src_helpers. rewrite <- lookup1_eq. memo_cases.
Qed.

Theorem src_get_memoized2d_agrees : forall (St : Type) (rule : rule2 St) (s : St) (m : memo_table)
  (n : nbhd2) (c : nat * nat) (t : nat),
  get_memoized2 rule (s, m) n c t = src_get_memoized2d memo_key rule s n c t m.
Proof.
  intros St rule s m n c t. cbv beta zeta delta [get_memoized2 src_get_memoized2d].
  autounfold with src_helpers. rewrite <- lookup2_eq. memo_cases.
Qed.
