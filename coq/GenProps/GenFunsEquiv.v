(* The equivalence theorems  src_<name>_agrees : forall inputs, src_<name> inputs = <hand-written model> inputs
   for every function regenerated from the Python source into gen/GenFuns.v.  They are kept in one file per
   property (so that a change of sandpile.py cannot fail the obligations of C11, and so on); this file gathers them.

     GenFunsEquivC11   src_game_of_life_rule_agrees
     GenFunsEquivC14   src_sandpile_is_in_boundary_agrees, src_sandpile_call_agrees
     GenFunsEquivC15   src_sdsr_is_in_tube_agrees, src_sdsr_default_agrees, src_evoloop_default_agrees,
                       src_sdsr_call_agrees, src_evoloop_call_agrees, src_ctrbl_call_agrees
     GenFunsEquivC13   src_reversible_call_agrees, src_reversible_call_agrees_pure
     GenFunsEquivC06   src_until_fixed_point_timesteps_agrees
     GenFunsEquivC12   src_async_call_agrees, src_async_current_cell_value_1d_agrees, .._2d_agrees
     GenFunsEquivC07   src_bits_to_int_agrees, src_int_to_bits_agrees, src_binary_rule_agrees
     GenFunsEquivC18   src_binary_derivative_agrees, src_cyclic_binary_derivative_agrees
     GenFunsEquivC20   src_hopfield_rule_agrees, src_hopfield_train_agrees
     GenFunsEquivC08   src_totalistic_rule_agrees, src_totalistic_rule_call_agrees(_masked)
     GenFunsEquivC19   src_apen_maximum_distance_agrees, src_apen_windows_agrees, src_apen_count_agrees
     GenFunsEquivC01   src_index_strides_agrees
     GenFunsEquivC02   src_vn_mask_agrees, src_axis_indices_agrees
     GenFunsEquivC10   src_block_indices_agrees
     GenFunsEquivC03   src_memo_key_agrees, src_memo_split_agrees
     GenFunsEquivC16   src_shannon_symbols_agrees, src_shannon_count_agrees, src_joint_indicator_agrees,
                       src_ami_guard_agrees, src_ami_pair_agrees
   Each property's chain imports only its own gen/GenFuns_Cxx.v; this file (and gen/GenFuns.v) is a convenience. *)
From CPL Require Export gen.GenFuns.
From CPL Require Export GenProps.GenFunsEquivC11 GenProps.GenFunsEquivC14 GenProps.GenFunsEquivC15
                        GenProps.GenFunsEquivC13 GenProps.GenFunsEquivC06 GenProps.GenFunsEquivC12
                        GenProps.GenFunsEquivC07 GenProps.GenFunsEquivC18 GenProps.GenFunsEquivC20
                        GenProps.GenFunsEquivC08 GenProps.GenFunsEquivC19 GenProps.GenFunsEquivC16
                        GenProps.GenFunsEquivC01 GenProps.GenFunsEquivC02 GenProps.GenFunsEquivC10 GenProps.GenFunsEquivC03
                        GenProps.GenFunsEquivC09 GenProps.GenFunsEquivC17.

Print Assumptions src_game_of_life_rule_agrees.
Print Assumptions src_sandpile_is_in_boundary_agrees.
Print Assumptions src_sandpile_call_agrees.
Print Assumptions src_sdsr_is_in_tube_agrees.
Print Assumptions src_sdsr_default_agrees.
Print Assumptions src_evoloop_default_agrees.
Print Assumptions src_sdsr_call_agrees.
Print Assumptions src_evoloop_call_agrees.
Print Assumptions src_ctrbl_call_agrees.
Print Assumptions src_reversible_call_agrees.
Print Assumptions src_reversible_call_agrees_pure.
Print Assumptions src_until_fixed_point_timesteps_agrees.
Print Assumptions src_async_call_agrees.
Print Assumptions src_binary_rule_agrees.
Print Assumptions src_binary_derivative_agrees.
Print Assumptions src_cyclic_binary_derivative_agrees.
Print Assumptions src_hopfield_rule_agrees.
Print Assumptions src_hopfield_train_agrees.
Print Assumptions src_totalistic_rule_agrees.
Print Assumptions src_apen_windows_agrees.
Print Assumptions src_apen_count_agrees.
Print Assumptions src_joint_indicator_agrees.
Print Assumptions src_ami_pair_agrees.
Print Assumptions src_index_strides_agrees.
Print Assumptions src_vn_mask_agrees.
Print Assumptions src_axis_indices_agrees.
Print Assumptions src_block_indices_agrees.
Print Assumptions src_memo_key_agrees.
Print Assumptions src_memo_split_agrees.
