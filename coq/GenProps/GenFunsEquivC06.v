(* C06 -- src_until_fixed_point_timesteps (regenerated from the inner _timesteps of until_fixed_point,
   ca_functions.py, into gen/GenFuns.v) equals the hand-written predicate until_fixed_point of Model/Engine.v
   on EVERY list of states, for any state type and any comparison: it never raises (the guard len(ca) > 1
   protects ca[-2]) and answers the same boolean. *)
From Coq Require Import ZArith List Bool Lia ZifyBool ZifyNat.
From CPL Require Import Model.Base Model.Engine gen.GenFuns_C06.
Import ListNotations.
Local Open Scope Z_scope.

Lemma py_get_last : forall {A} (l : list A) (b a : A), py_get (l ++ [b; a]) (-1) = Ok a.
Proof.
  intros A l b a. unfold py_get, py_index. rewrite app_length. cbn [length].
  destruct ((0 <=? -1) && (-1 <? Z.of_nat (length l + 2))) eqn:H1; [lia|].
  destruct ((- Z.of_nat (length l + 2) <=? -1) && (-1 <? 0)) eqn:H2; [|lia].
  replace (Z.to_nat (-1 + Z.of_nat (length l + 2))) with (length l + 1)%nat by lia.
  rewrite nth_error_app2 by lia. replace (length l + 1 - length l)%nat with 1%nat by lia. reflexivity.
Qed.

Lemma py_get_last2 : forall {A} (l : list A) (b a : A), py_get (l ++ [b; a]) (-2) = Ok b.
Proof.
  intros A l b a. unfold py_get, py_index. rewrite app_length. cbn [length].
  destruct ((0 <=? -2) && (-2 <? Z.of_nat (length l + 2))) eqn:H1; [lia|].
  destruct ((- Z.of_nat (length l + 2) <=? -2) && (-2 <? 0)) eqn:H2; [|lia].
  replace (Z.to_nat (-2 + Z.of_nat (length l + 2))) with (length l + 0)%nat by lia.
  rewrite nth_error_app2 by lia. replace (length l + 0 - length l)%nat with 0%nat by lia. reflexivity.
Qed.

Theorem src_until_fixed_point_timesteps_agrees :
  forall (C : Type) (eqb : C -> C -> bool) (states : list C) (t : nat),
  src_until_fixed_point_timesteps eqb states = Ok (snd (until_fixed_point eqb tt states t)).
Proof.
  intros C eqb states t.
  cbv beta zeta delta [src_until_fixed_point_timesteps until_fixed_point].
  destruct (rev states) as [|a [|b r]] eqn:E;
    apply (f_equal (@rev C)) in E; rewrite rev_involutive in E.
  - subst states. reflexivity.
  - subst states. reflexivity.
  - cbn [rev] in E. rewrite <- app_assoc in E. cbn [app] in E. subst states.
    rewrite ?py_get_last, ?py_get_last2, ?app_length. cbn [length snd bind].
    repeat match goal with |- context [if ?c then _ else _] => destruct c eqn:? end;
      cbn [bind negb]; first [reflexivity | exfalso; lia].
Qed.
