(* C13 -- source tie: ReversibleRule.__call__ as translated from ca_functions.py on this run (gen/GenFuns.v) is
   the hand-written reversible_call (heap instance) and reversible_rule1 (list instance).  The second-order law
   of a whole run restated for the rule object built from the source-derived __call__. *)
From Coq Require Import List Arith ZArith NArith Lia.
From CPL Require Import Model.Base Model.Numbering Model.Rules Model.Engine Model.Evolve1D Model.Reversible.
From CPL Require Import Proofs.NumberingProofs Proofs.ReversibleProofs.
From CPL Require Import gen.GenFuns_C13 GenProps.GenFunsEquivC13 GenProps.GenFunsExt.
Import ListNotations.

Theorem C13_source_translation_agrees :
  (forall (o : rev_obj) (h : heap) (n : list Z) (c t : nat),
     reversible_call o (h, None) n c t =
     match src_reversible_call (heap_read o) (heap_write o) (rule_no o) h n c with
     | Ok (h', v) => ((h', None), v)
     | Raise e => ((h, Some e), 0%Z)
     end) /\
  (forall (R : N) (prev n : list Z) (c t : nat),
     reversible_rule1 R prev n c t =
     match src_reversible_call (@nth_error Z) (fun s k v => set_nth k v s) R prev n c with
     | Ok (prev', v) => (prev', v)
     | Raise _ => (prev, 0%Z)
     end).
Proof. split; [exact src_reversible_call_agrees | exact src_reversible_call_agrees_pure]. Qed.

(* the rule object whose __call__ is the source-derived definition, reading and writing the heap through the
   reference it holds; after an exception no further call happens (the state is left alone), as in the model *)
Definition src_reversible_rule (o : rev_obj) : rule1 (heap * option exc) :=
  fun st n c t =>
    match snd st with
    | Some _ => (st, 0%Z)
    | None =>
        match src_reversible_call (heap_read o) (heap_write o) (rule_no o) (fst st) n c with
        | Ok (h', v) => ((h', None), v)
        | Raise e => ((fst st, Some e), 0%Z)
        end
    end.

(* evolve(ca, T, rule, r) on the heap, as Model/Reversible.v has it, with that rule object *)
Definition src_evolve_heap (h : heap) (ca_id : nat) (T : nat) (o : rev_obj) (r : nat) : res (heap * list (list Z)) :=
  match T with
  | O => Raise IndexError
  | S k =>
      let init := last (h_get h ca_id) [] in
      let '((h', err), rows) := iter_steps (step_plain (src_reversible_rule o) (fun z => z) r) k (h, None) init 1 in
      match err with Some e => Raise e | None => Ok (h', h_get h' ca_id ++ rows) end
  end.
Definition src_run_reversible (h : heap) (ca_id : nat) (a : init_arg) (R : N) (T r : nat) :=
  let '(h1, o) := mk_reversible h a R in src_evolve_heap h1 ca_id T o r.

Lemma src_reversible_rule_agrees : forall o st n c t, src_reversible_rule o st n c t = reversible_call o st n c t.
Proof.
  intros o [h [e|]] n c t; [reflexivity|].
  unfold src_reversible_rule. cbn [fst snd]. now rewrite (proj1 C13_source_translation_agrees).
Qed.

Lemma src_run_reversible_agrees : forall h ca_id a R T r, src_run_reversible h ca_id a R T r = run_reversible h ca_id a R T r.
Proof.
  intros h ca_id a R T r. unfold src_run_reversible, run_reversible.
  destruct (mk_reversible h a R) as [h1 o]. unfold src_evolve_heap, evolve_heap. destruct T as [|k]; [reflexivity|].
  rewrite (iter_steps_ext _ _ (step_plain (src_reversible_rule o) (fun z => z) r) (step_plain (reversible_call o) (fun z => z) r)).
  - reflexivity.
  - intros x c t. apply step_plain_ext. apply src_reversible_rule_agrees.
Qed.

(* C13_reversible_second_order on the source-derived rule: with init_state = prev handed over in any of the three
   ways and a private copy made by the constructor, evolve returns the automaton followed by s_1 .. s_{T-1} of the
   second-order recurrence, and the rule's private vector ends up holding s_{T-2} *)
Theorem C13_src_reversible_second_order : forall h ca_id arg R T,
  (R < 256)%N -> 1 <= length (last (h_get h ca_id) []) ->
  length (h_row h (arg_ref arg)) = length (last (h_get h ca_id) []) -> 1 <= T ->
  src_run_reversible h ca_id arg R T 1 =
    Ok (h ++ [[so_before R (h_row h (arg_ref arg)) (last (h_get h ca_id) []) (T - 1)]],
        h_get h ca_id ++ map (so_row R (h_row h (arg_ref arg)) (last (h_get h ca_id) [])) (seq 1 (T - 1))).
Proof. intros h ca_id arg R T HR HN Hp HT. rewrite src_run_reversible_agrees. now apply reversible_second_order. Qed.
