(* C04 -- _get_memoized of ca_functions2d.py as regenerated from the source (gen/GenFuns_C04.v: state-passing over
   an association-list table, the rule a threaded state machine, the cache key n.tobytes() the parameter nb_key)
   against get_memoized2 of Model/Memo2D.v with nb_key = memo_key (the flat contents with the masked cells filled). *)
From Coq Require Import ZArith List Bool.
From CPL Require Import Model.Base Model.Rules Model.Evolve2D Model.Memo2D gen.GenFuns_C04 GenProps.GenFunsMemo.
Import ListNotations.

Lemma lookup2_eq04 : forall k (d : memo_table), src_dict_lookup k d = memo_lookup k d.
Proof. intros k d. induction d as [|[k' v] d IH]; [reflexivity|]. cbn. now rewrite IH. Qed.

Theorem src_get_memoized_agrees : forall (St : Type) (rule : rule2 St) (s : St) (m : memo_table)
  (n : nbhd2) (c : nat * nat) (t : nat),
  get_memoized2 rule (s, m) n c t = src_get_memoized memo_key rule s n c t m.
Proof.
  intros St rule s m n c t. cbv beta zeta delta [get_memoized2 src_get_memoized].
  autounfold with src_helpers. rewrite <- lookup2_eq04.
  repeat match goal with
         | |- context [match ?x with Some _ => _ | None => _ end] => destruct x eqn:?
         | |- context [let '(_, _) := ?r in _] => destruct r eqn:?
         | |- context [if ?c then _ else _] => destruct c eqn:?
         end;
  rewrite ?dict_set_absent by assumption; reflexivity.
Qed.
