(* C14 -- source tie: Sandpile.__call__ / _is_in_boundary as translated from sandpile.py on this run
   (gen/GenFuns.v) are the hand-written models of Model/Sandpile.v.  The conservation step restated on the
   source-derived rule. *)
From Coq Require Import ZArith List Bool Lia.
From CPL Require Import Model.Base Model.Rules Model.Engine Model.Evolve2D Model.Sandpile Proofs.Evolve2DProofs Proofs.SandpileProofs.
From CPL Require Import gen.GenFuns_C14 GenProps.GenFunsEquivC14 GenProps.GenFunsExt.
Import ListNotations.
Local Open Scope Z_scope.

Theorem C14_source_translation_agrees :
  (forall (rows cols : nat) (c : nat * nat),
     src_sandpile_is_in_boundary (Z.of_nat rows) (Z.of_nat cols) (zcell c) = in_boundary rows cols c) /\
  (forall (rows cols : nat) (closed : bool) (adds : list addition) (n : nbhd2) (c : nat * nat) (t : nat),
     src_sandpile_call (Z.of_nat rows) (Z.of_nat cols) closed (map zaddition adds) (nb_vals n) (zcell c) (Z.of_nat t)
     = sandpile_call rows cols closed adds n c t).
Proof. split; [exact src_sandpile_is_in_boundary_agrees | exact src_sandpile_call_agrees]. Qed.

(* the rule object built from the source-derived __call__ *)
Definition src_sandpile_rule (rows cols : nat) (closed : bool) (adds : list addition) : rule2 unit :=
  fun u n c t => (u, src_sandpile_call (Z.of_nat rows) (Z.of_nat cols) closed (map zaddition adds)
                                       (nb_vals n) (zcell c) (Z.of_nat t)).

(* C14_sandpile_conserves on the source-derived rule: one open-boundary step without a scheduled addition keeps
   the total number of grains, on every well-shaped torus, for every neighbourhood type handed over *)
Theorem C14_src_sandpile_conserves : forall rows cols adds ty g R C t u,
  wf_grid R C g -> (1 <= R)%nat -> (1 <= C)%nat -> no_addition_at adds t ->
  gsum (snd (step_plain2d (src_sandpile_rule rows cols false adds) store_id 1 ty u g t)) = gsum g.
Proof.
  intros rows cols adds ty g R C t u Hwf HR HC Hna.
  rewrite (step_plain2d_ext unit (src_sandpile_rule rows cols false adds) (sandpile_rule rows cols false adds)).
  - exact (sandpile_conserves rows cols adds ty g R C t u Hwf HR HC Hna).
  - intros s n c t'. unfold src_sandpile_rule, sandpile_rule. now rewrite (proj2 C14_source_translation_agrees).
Qed.
