(* C04 -- source tie: _get_memoized of ca_functions2d.py as translated on this run (gen/GenFuns_C04.v) is
   get_memoized2 of Model/Memo2D.v.  One step of memoize=True restated with the source-derived callable. *)
From Coq Require Import ZArith List Bool.
From CPL Require Import Model.Base Model.Rules Model.Engine Model.Evolve2D Model.Memo2D.
From CPL Require Import gen.GenFuns_C04 GenProps.GenFunsEquivC04 GenProps.GenFunsExt.
Import ListNotations.

Theorem C04_source_translation_agrees : forall (St : Type) (rule : rule2 St) (s : St) (m : memo_table)
  (n : nbhd2) (c : nat * nat) (t : nat),
  get_memoized2 rule (s, m) n c t = src_get_memoized memo_key rule s n c t m.
Proof. exact src_get_memoized_agrees. Qed.

(* the callable the True mode hands to the double loop, built from the source-derived function *)
Definition src_memo_rule2 {St} (rule : rule2 St) : rule2 (St * memo_table) :=
  fun x n c t => src_get_memoized memo_key rule (fst x) n c t (snd x).

(* step_memo2d (what the transparency theorems of C04 are stated on) is the plain double loop with that callable *)
Theorem C04_src_step_memo2d : forall (St : Type) (rule : rule2 St) (store : Z -> Z) (r : nat) (ty : nbhd_type)
  (x : St * memo_table) (g : grid) (t : nat),
  step_memo2d rule store r ty x g t = step_plain2d (src_memo_rule2 rule) store r ty x g t.
Proof.
  intros St rule store r ty x g t. unfold step_memo2d. apply step_plain2d_ext.
  intros [s m] n c t'. unfold src_memo_rule2. cbn [fst snd]. apply C04_source_translation_agrees.
Qed.
