(* Static part of the C15 source tie (does not depend on gen/GenFuns.v): the `clamp` argument used by
   GenProps/GenFunsEquivC15.v, and the clamp-invariance of the hand-written models of Model/Loops.v.

   How "for all integers" is proved without looking at the shape of a function's text:
   (1) the function is invariant under `clamp` in every argument (clamp x = -1 for x < 0, 9 for x > 8, x
       otherwise): by case analysis on the binary representation of the argument (0, negative, the positive
       numbers 1..15, and the sixteen patterns q~b3~b2~b1~b0 >= 16), each case closed by conversion alone --
       this succeeds exactly when the function inspects its argument only through comparisons with constants
       below 16, and fails (fail closed) otherwise;
   (2) on the 11^5 clamped arguments two such functions are compared by vm_compute (nested forallb). *)
From Coq Require Import ZArith List Bool Lia.
From CPL Require Import Model.Base Model.CTRBL Model.Loops.
Import ListNotations.
Local Open Scope Z_scope.

Definition clamp (x : Z) : Z := if x <? 0 then -1 else if 8 <? x then 9 else x.
Definition dom11 : list Z := [-1; 0; 1; 2; 3; 4; 5; 6; 7; 8; 9].

Lemma clamp_in : forall x, In (clamp x) dom11.
Proof.
  intros x. unfold clamp, dom11. destruct (x <? 0) eqn:H1; [simpl; tauto|].
  destruct (8 <? x) eqn:H2; [simpl; tauto|].
  assert (H : x = 0 \/ x = 1 \/ x = 2 \/ x = 3 \/ x = 4 \/ x = 5 \/ x = 6 \/ x = 7 \/ x = 8) by lia.
  simpl. intuition.
Qed.

Ltac dpos p n := match n with O => idtac | S ?m => destruct p as [p|p|]; [dpos p m | dpos p m | idtac] end.
Ltac clamp_cases x := destruct x as [|x|x]; [ | dpos x 4%nat | ].
(* goal: forall x .., f .. x .. = f .. (clamp x) .. *)
Ltac clamp_inv := let x := fresh "x" in intros x; clamp_cases x; intros; reflexivity.

Section Clamp5.
  Context {A : Type} (eqb : A -> A -> bool) (eqb_ok : forall a b, eqb a b = true -> a = b).
  Variables f g : Z -> Z -> Z -> Z -> Z -> A.

  Definition sweep11 : bool :=
    forallb (fun c => forallb (fun t => forallb (fun r => forallb (fun b => forallb (fun l =>
      eqb (f c t r b l) (g c t r b l)) dom11) dom11) dom11) dom11) dom11.

  Definition clamp_invariant (h : Z -> Z -> Z -> Z -> Z -> A) : Prop :=
    (forall x t r b l, h x t r b l = h (clamp x) t r b l) /\
    (forall x c r b l, h c x r b l = h c (clamp x) r b l) /\
    (forall x c t b l, h c t x b l = h c t (clamp x) b l) /\
    (forall x c t r l, h c t r x l = h c t r (clamp x) l) /\
    (forall x c t r b, h c t r b x = h c t r b (clamp x)).

  Lemma clamp_all : forall h, clamp_invariant h ->
    forall c t r b l, h c t r b l = h (clamp c) (clamp t) (clamp r) (clamp b) (clamp l).
  Proof.
    intros h (H1 & H2 & H3 & H4 & H5) c t r b l.
    etransitivity; [apply H1|]. etransitivity; [apply H2|]. etransitivity; [apply H3|].
    etransitivity; [apply H4|]. apply H5.
  Qed.

  Lemma clamp5_agree : clamp_invariant f -> clamp_invariant g -> sweep11 = true ->
    forall c t r b l, f c t r b l = g c t r b l.
  Proof.
    intros Hf Hg Hs c t r b l.
    rewrite (clamp_all f Hf c t r b l), (clamp_all g Hg c t r b l).
    apply eqb_ok. unfold sweep11 in Hs.
    rewrite forallb_forall in Hs. specialize (Hs _ (clamp_in c)).
    rewrite forallb_forall in Hs. specialize (Hs _ (clamp_in t)).
    rewrite forallb_forall in Hs. specialize (Hs _ (clamp_in r)).
    rewrite forallb_forall in Hs. specialize (Hs _ (clamp_in b)).
    rewrite forallb_forall in Hs. exact (Hs _ (clamp_in l)).
  Qed.
End Clamp5.

Ltac clamp_invariance := unfold clamp_invariant; repeat split; clamp_inv.

Lemma opt_eqb_ok : forall a b, opt_eqb a b = true -> a = b.
Proof. intros [x|] [y|]; simpl; try discriminate; [|reflexivity]. intros H. apply Z.eqb_eq in H. now subst. Qed.
Lemma bool_eqb_ok : forall a b, Bool.eqb a b = true -> a = b.
Proof. intros a b H. now apply Bool.eqb_prop. Qed.


(* ------------------------------------------------------------------ the hand-written models are clamp-invariant *)
Lemma is_in_tube_clamp_invariant : clamp_invariant (fun _ : Z => is_in_tube).
Proof. clamp_invariance. Qed.
Lemma sdsr_default_clamp_invariant : clamp_invariant sdsr_default.
Proof. clamp_invariance. Qed.
Lemma evoloop_default_clamp_invariant : clamp_invariant evoloop_default.
Proof. clamp_invariance. Qed.
