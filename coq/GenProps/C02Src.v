(* C02 -- source tie: the construction of von_neumann_mask in evolve2d and the per-cell index lists of
   _get_neighbourhood_indices as translated from ca_functions2d.py on this run (gen/GenFuns_C02.v) are vn_mask and
   axis_indices of Model/Evolve2D.v.  The Manhattan-diamond theorem and the index theorem restated on the
   source-derived definitions. *)
From Coq Require Import ZArith List Arith Lia.
From CPL Require Import Model.Base Model.Rules Model.Evolve2D Proofs.Evolve2DProofs gen.GenFuns_C02 GenProps.GenFunsEquivC02.
Import ListNotations.

Theorem C02_source_translation_agrees :
  (forall r : nat, src_vn_mask (Z.of_nat r) = Ok (vn_mask r)) /\
  (forall R C x y r : nat,
     src_axis_indices (Z.of_nat x) (Z.of_nat y) (Z.of_nat r) (Z.of_nat R) (Z.of_nat C)
     = (axis_indices R x r, axis_indices C y r)).
Proof. split; [exact src_vn_mask_agrees | exact src_axis_indices_agrees]. Qed.

(* C02_vn_mask_spec on the source: the mask the code builds is the Manhattan diamond, for every radius *)
Theorem C02_src_vn_mask_spec : forall r : nat, src_vn_mask (Z.of_nat r) = Ok (manhattan_mask r).
Proof. intros r. rewrite (proj1 C02_source_translation_agrees). now rewrite vn_mask_spec. Qed.

(* axis_index_spec on the source: the k-th row index of cell (x, y), resolved the way NumPy resolves it, is
   (x - r + k) mod R *)
Theorem C02_src_axis_index_spec : forall (A : Type) (d : A) (l : list A) R C x y r k,
  length l = R -> x < R -> k <= 2 * r -> r <= R ->
  get_axis d l (nth k (fst (src_axis_indices (Z.of_nat x) (Z.of_nat y) (Z.of_nat r) (Z.of_nat R) (Z.of_nat C))) 0%Z)
  = nth ((x + k + R - r) mod R) l d.
Proof.
  intros A d l R C x y r k Hl Hx Hk Hr. rewrite (proj2 C02_source_translation_agrees). cbn [fst].
  exact (proj1 (axis_index_spec A d l R x r k Hl Hx Hk Hr)).
Qed.
