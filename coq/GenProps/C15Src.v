(* C15 -- source tie: SDSRLoop.__call__ (with its default branch and _is_in_tube), Evoloop.__call__ and
   CTRBLRule.__call__ as translated from sdsr_loop.py, evoloop.py, ctrbl_rule.py on this run (gen/GenFuns.v) are
   the hand-written models of Model/Loops.v and Model/CTRBL.v, for all integer states and every table (the dict
   self._rule_table is the partial map `lookup tbl`).  Together with the regenerated tables (gen/GenTables.v):
   outside the tables the source answers Sayama's default rules. *)
From Coq Require Import ZArith List.
From CPL Require Import Model.Base Model.CTRBL Model.Loops Model.SayamaSpec Proofs.CTRBLProofs.
From CPL Require Import gen.GenTables GenProps.C15Tables gen.GenFuns_C15 GenProps.GenFunsEquivC15.
Import ListNotations.
Local Open Scope Z_scope.

Theorem C15_source_translation_agrees :
  (forall top right bottom left : Z, src_sdsr_is_in_tube top right bottom left = is_in_tube top right bottom left) /\
  (forall c t r b l : Z, src_sdsr_default c t r b l = sdsr_default c t r b l) /\
  (forall c t r b l : Z, src_evoloop_default c t r b l = evoloop_default c t r b l) /\
  (forall (tbl : table) (n : list (list Z)), src_sdsr_call (lookup tbl) n = SDSRLoop_call tbl n) /\
  (forall (tbl : table) (n : list (list Z)), src_evoloop_call (lookup tbl) n = Evoloop_call tbl n) /\
  (forall (tbl : table) (n : list (list Z)), src_ctrbl_call (lookup tbl) n = CTRBLRule_call tbl n).
Proof.
  split; [exact src_sdsr_is_in_tube_agrees|]. split; [exact src_sdsr_default_agrees|].
  split; [exact src_evoloop_default_agrees|]. split; [exact src_sdsr_call_agrees|].
  split; [exact src_evoloop_call_agrees | exact src_ctrbl_call_agrees].
Qed.

(* C15_sdsr_defaults / C15_evoloop_defaults on the source-derived __call__ with the tables the code has now:
   all 9^5 combinations (the four corner cells arbitrary), outside the table: Sayama's default rule *)
Theorem C15_src_loop_defaults : forall c t r b l a0 a2 a6 a8,
  0 <= c < 9 -> 0 <= t < 9 -> 0 <= r < 9 -> 0 <= b < 9 -> 0 <= l < 9 ->
  let n := [[a0; t; a2]; [l; c; r]; [a6; b; a8]] in
  (dict_get (c, t, r, b, l) sdsr_table = None ->
   src_sdsr_call (lookup sdsr_table) n = Some (sayama_default SDSR c t r b l)) /\
  (dict_get (c, t, r, b, l) evoloop_table = None ->
   src_evoloop_call (lookup evoloop_table) n = Some (sayama_default EVOLOOP c t r b l)).
Proof.
  intros c t r b l a0 a2 a6 a8 Hc Ht Hr Hb Hl n. split; intros Hk.
  - rewrite (proj1 (proj2 (proj2 (proj2 C15_source_translation_agrees)))).
    exact (sdsr_defaults c t r b l Hc Ht Hr Hb Hl Hk).
  - rewrite (proj1 (proj2 (proj2 (proj2 (proj2 C15_source_translation_agrees))))).
    exact (evoloop_defaults c t r b l Hc Ht Hr Hb Hl Hk).
Qed.
