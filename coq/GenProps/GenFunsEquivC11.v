(* C11 -- src_game_of_life_rule (regenerated from ca_functions2d.py into gen/GenFuns.v) equals the hand-written
   model gol_rule of Model/Life.v on EVERY neighbourhood (any list of lists of integers).
   Method: both are functions of (centre, total); one case split per `if`, the leaves by lia. *)
From Coq Require Import ZArith List Bool Lia ZifyBool.
From CPL Require Import Model.Base Model.Life gen.GenFuns_C11.
Import ListNotations.
Local Open Scope Z_scope.

Ltac split_ifs := repeat match goal with |- context [if ?b then _ else _] => destruct b eqn:? end.
Ltac leaf := first [reflexivity | exfalso; lia | f_equal; lia].

Theorem src_game_of_life_rule_agrees : forall n : list (list Z), src_game_of_life_rule n = gol_rule n.
Proof.
  intros n.
  cbv beta zeta delta [src_game_of_life_rule gol_rule gol_case gol_centre gol_total src_nb].
  generalize (nth 1 (nth 1 n []) 0) (zsum (concat n)). intros centre total.
  split_ifs; leaf.
Qed.
