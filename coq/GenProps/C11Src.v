(* C11 -- source tie: game_of_life_rule as translated from ca_functions2d.py on this run (gen/GenFuns.v) is the
   hand-written model gol_rule, hence every theorem of Properties/C11.v about gol_rule is a theorem about the
   source as it reads now.  One headline theorem restated on the source-derived definition. *)
From Coq Require Import ZArith List Bool.
From CPL Require Import Model.Base Model.Life Proofs.LifeProofs gen.GenFuns_C11 GenProps.GenFunsEquivC11.
Import ListNotations.
Local Open Scope Z_scope.

Theorem C11_source_translation_agrees : forall n : list (list Z), src_game_of_life_rule n = gol_rule n.
Proof. exact src_game_of_life_rule_agrees. Qed.

(* C11_gol_blocks512 on the source-derived definition: on each of the 512 binary 3x3 blocks the source returns
   B3/S23 of (centre, number of live cells among the other eight) and does not fall through *)
Theorem C11_src_gol_blocks512 : length blocks512 = 512%nat /\
  forall n, In n blocks512 ->
    src_game_of_life_rule n = Some (b3s23 (gol_centre n) (gol_total n - gol_centre n)).
Proof.
  split; [exact (proj1 gol_is_b3s23_blocks)|].
  intros n Hn. rewrite C11_source_translation_agrees. exact (proj2 gol_is_b3s23_blocks n Hn).
Qed.

(* and the implicit `return None` of the source is dead for every integer neighbourhood *)
Theorem C11_src_gol_never_falls_through : forall n : list (list Z), src_game_of_life_rule n <> None.
Proof. intros n. rewrite C11_source_translation_agrees. apply gol_never_none. Qed.
