(* C06 -- source tie: the inner _timesteps of until_fixed_point as translated from ca_functions.py on this run
   (gen/GenFuns.v) is the hand-written predicate until_fixed_point of Model/Engine.v (and never raises).
   The soundness theorem of a terminating call restated for the source-derived predicate. *)
From Coq Require Import ZArith List Bool Lia.
From CPL Require Import Model.Base Model.Engine Proofs.EngineProofs.
From CPL Require Import gen.GenFuns_C06 GenProps.GenFunsEquivC06 GenProps.GenFunsExt.
Import ListNotations.

Theorem C06_source_translation_agrees :
  forall (C : Type) (eqb : C -> C -> bool) (states : list C) (t : nat),
  src_until_fixed_point_timesteps eqb states = Ok (snd (until_fixed_point eqb tt states t)).
Proof. exact src_until_fixed_point_timesteps_agrees. Qed.

(* the stopping predicate built from the source-derived definition (an exception would stop the evolution; the
   theorem above shows there is none) *)
Definition src_until_fixed_point {C} (eqb : C -> C -> bool) (u : unit) (states : list C) (t : nat) : unit * bool :=
  (u, match src_until_fixed_point_timesteps eqb states with Ok b => b | Raise _ => false end).

Lemma src_until_fixed_point_agrees : forall C (eqb : C -> C -> bool) u states t,
  src_until_fixed_point eqb u states t = until_fixed_point eqb u states t.
Proof.
  intros C eqb [] states t. unfold src_until_fixed_point. rewrite (C06_source_translation_agrees C eqb states t).
  unfold until_fixed_point. destruct (rev states) as [|a [|b r]]; reflexivity.
Qed.

(* C06_until_fixed_point_sound on the source-derived predicate: whatever a terminating call returns is at least
   one step, ends with two equal states, and no earlier consecutive pair of states of this call is equal *)
Theorem C06_src_until_fixed_point_sound :
  forall (X C : Type) (dflt : C) (step : X -> C -> nat -> X * C) (eqb : C -> C -> bool),
  (forall a b, eqb a b = true <-> a = b) ->
  forall fuel x0 hist p x out plog,
  hist <> [] ->
  evolve_dynamic dflt step (src_until_fixed_point eqb) fuel tt x0 hist = Some (p, x, out, plog) ->
  exists k rows, 1 <= k < fuel /\ iter_steps step k x0 (last hist dflt) 1 = (x, rows) /\
    out = hist ++ rows /\
    nth k (last hist dflt :: rows) dflt = nth (k - 1) (last hist dflt :: rows) dflt /\
    (forall j, 1 <= j < k -> nth j (last hist dflt :: rows) dflt <> nth (j - 1) (last hist dflt :: rows) dflt).
Proof.
  intros X C dflt step eqb Heq fuel x0 hist p x out plog Hne H.
  rewrite (evolve_dynamic_ext_pred X unit C dflt step (src_until_fixed_point eqb) (until_fixed_point eqb)
             (src_until_fixed_point_agrees C eqb)) in H.
  exact (until_fixed_point_sound X C dflt step eqb Heq fuel x0 hist p x out plog Hne H).
Qed.
