(* C18 -- binary_derivative (the loop with the early break) and cyclic_binary_derivative as regenerated from
   bien.py (gen/GenFuns.v) against the hand-written models of Model/BienExact.v, for EVERY binary string (list of
   bits): the source-derived definitions index the string with Python semantics (IndexError modelled) and never
   raise; they return the same string. *)
From Coq Require Import ZArith List Bool Arith Lia ZifyBool ZifyNat.
From CPL Require Import Model.Base Model.BienExact gen.GenFuns_C18.
Import ListNotations.

Lemma py_get_nat_b : forall (s : list bool) k, k < length s -> py_get s (Z.of_nat k) = Ok (nth k s false).
Proof.
  intros s k H. unfold py_get, py_index.
  destruct ((0 <=? Z.of_nat k)%Z && (Z.of_nat k <? Z.of_nat (length s))%Z) eqn:E; [|lia].
  rewrite Nat2Z.id. rewrite (nth_error_nth' s false H). reflexivity.
Qed.

Lemma skipn_next : forall (s : list bool) k d rest, skipn k s = d :: rest -> skipn (S k) s = rest.
Proof.
  intros s k. revert s. induction k as [|k IH]; intros s d rest H.
  - cbn in H. subst s. reflexivity.
  - destruct s as [|a s]; [discriminate|]. cbn [skipn] in H. exact (IH s d rest H).
Qed.


(* the body of a regenerated loop at index k < length s: resolve the (in-range) string reads, split the tests *)
Ltac solve_body s k Hk :=
  let H0 := fresh "H0" in
  pose proof (py_get_nat_b s 0) as H0; cbn [Z.of_nat] in H0;
  replace (Z.of_nat k + 1)%Z with (Z.of_nat (k + 1)) by lia;
  repeat first
    [ rewrite (py_get_nat_b s k) by lia; cbn [bind]
    | rewrite (py_get_nat_b s (k + 1)) by lia; cbn [bind]
    | rewrite H0 by lia; cbn [bind]
    | match goal with |- context [if ?c then _ else _] => destruct c eqn:? end ];
  first [reflexivity | exfalso; lia].

Section BD.
  Variable s : list bool.
  Variable f : list bool -> Z * bool -> res (src_ctl (list bool)).

  (* the loop body of binary_derivative, as a hypothesis about the regenerated lambda *)
  Hypothesis body_bd : forall res k d, k < length s ->
    f res (Z.of_nat k, d) =
    if (Z.of_nat k - 1 =? Z.of_nat (length s) - 2)%Z then Ok (Break res)
    else Ok (Next (res ++ [xorb (nth k s false) (nth (k + 1) s false)])).

  Lemma bd_from : forall m k res, k + m = length s ->
    src_for f (combine (map Z.of_nat (seq k m)) (skipn k s)) res = Ok (bd_loop s (seq k m) res).
  Proof.
    induction m as [|m IH]; intros k res H; [reflexivity|].
    assert (Hk : k < length s) by lia.
    destruct (skipn k s) as [|d rest] eqn:E.
    { assert (Hl : length (skipn k s) = length s - k) by apply skipn_length. rewrite E in Hl. cbn in Hl. lia. }
    cbn [seq map combine src_for bd_loop]. rewrite (body_bd res k d Hk).
    destruct (Z.of_nat k - 1 =? Z.of_nat (length s) - 2)%Z; [reflexivity|].
    replace rest with (skipn (S k) s) by (exact (skipn_next s k d rest E)).
    apply IH. lia.
  Qed.
End BD.

Theorem src_binary_derivative_agrees : forall s : list bool, src_binary_derivative s = Ok (binary_derivative s).
Proof.
  intros s. cbv beta zeta delta [src_binary_derivative binary_derivative src_enumerate].
  match goal with |- bind (src_for ?f _ _) _ = _ =>
    assert (Hb : forall res k d, k < length s -> f res (Z.of_nat k, d) =
      if (Z.of_nat k - 1 =? Z.of_nat (length s) - 2)%Z then Ok (Break res)
      else Ok (Next (res ++ [xorb (nth k s false) (nth (k + 1) s false)])));
    [|pose proof (bd_from s f Hb (length s) 0 [] eq_refl) as H; cbn [skipn] in H; rewrite H; reflexivity] end.
  intros res k d Hk. cbv beta iota. solve_body s k Hk.
Qed.

Section CBD.
  Variable s : list bool.
  Variable f : list bool -> Z * bool -> res (src_ctl (list bool)).
  Definition cbd_bit (i : nat) : bool :=
    xorb (nth i s false)
         (if (Z.of_nat i =? Z.of_nat (length s) - 1)%Z then nth 0 s false else nth (i + 1) s false).
  Hypothesis body_cbd : forall res k d, k < length s -> f res (Z.of_nat k, d) = Ok (Next (res ++ [cbd_bit k])).

  Lemma cbd_from : forall m k res, k + m = length s ->
    src_for f (combine (map Z.of_nat (seq k m)) (skipn k s)) res = Ok (res ++ map cbd_bit (seq k m)).
  Proof.
    induction m as [|m IH]; intros k res H; [cbn; now rewrite app_nil_r|].
    assert (Hk : k < length s) by lia.
    destruct (skipn k s) as [|d rest] eqn:E.
    { assert (Hl : length (skipn k s) = length s - k) by apply skipn_length. rewrite E in Hl. cbn in Hl. lia. }
    cbn [seq map combine src_for]. rewrite (body_cbd res k d Hk).
    replace rest with (skipn (S k) s) by (exact (skipn_next s k d rest E)).
    rewrite IH by lia. now rewrite <- app_assoc.
  Qed.
End CBD.

Theorem src_cyclic_binary_derivative_agrees : forall s : list bool,
  src_cyclic_binary_derivative s = Ok (cyclic_binary_derivative s).
Proof.
  intros s. cbv beta zeta delta [src_cyclic_binary_derivative cyclic_binary_derivative src_enumerate].
  match goal with |- bind (src_for ?f _ _) _ = _ =>
    assert (Hb : forall res k d, k < length s -> f res (Z.of_nat k, d) = Ok (Next (res ++ [cbd_bit s k])));
    [|pose proof (cbd_from s f Hb (length s) 0 [] eq_refl) as H; cbn [skipn] in H; rewrite H; reflexivity] end.
  intros res k d Hk. cbv beta iota. unfold cbd_bit. solve_body s k Hk.
Qed.
