(* C02 -- the construction of von_neumann_mask in evolve2d (np.zeros + the loop with the two slice assignments) and
   the body of _get_neighbourhood_indices for one (row, col), as regenerated from ca_functions2d.py
   (gen/GenFuns_C02.v), against vn_mask and axis_indices of Model/Evolve2D.v, for every radius r >= 0 and all
   sizes / positions. *)
From Coq Require Import ZArith List Bool Arith Lia ZifyBool ZifyNat.
From CPL Require Import Model.Base Model.Evolve2D gen.GenFuns_C02.
Import ListNotations.

(* ------------------------------------------------------------------ axis indices *)
Lemma src_range_from : forall (a : Z) (n : nat),
  src_range a (a + Z.of_nat n)%Z = map (fun k => (a + Z.of_nat k)%Z) (seq 0 n).
Proof. intros a n. unfold src_range. replace (Z.to_nat (a + Z.of_nat n - a)) with n by lia. reflexivity. Qed.

(* a list built by appending in a loop (one append per branch) is the comprehension *)
Lemma fold_append_map2 : forall {A B} (g : A -> B) (l : list A) (acc : list B),
  fold_left (fun acc x => acc ++ [g x]) l acc = acc ++ map g l.
Proof.
  intros A B g l. induction l as [|x l IH]; intros acc; cbn; [now rewrite app_nil_r|].
  rewrite IH, <- app_assoc. reflexivity.
Qed.
Lemma fold_append_if : forall {A B} (c : A -> bool) (a b : A -> B) (l : list A) (acc : list B),
  fold_left (fun acc x => if c x then acc ++ [a x] else acc ++ [b x]) l acc
  = acc ++ map (fun x => if c x then a x else b x) l.
Proof.
  intros A B c a b l. induction l as [|x l IH]; intros acc; cbn; [now rewrite app_nil_r|].
  rewrite IH. destruct (c x); rewrite <- app_assoc; reflexivity.
Qed.

Theorem src_axis_indices_agrees : forall (R C x y r : nat),
  src_axis_indices (Z.of_nat x) (Z.of_nat y) (Z.of_nat r) (Z.of_nat R) (Z.of_nat C)
  = (axis_indices R x r, axis_indices C y r).
Proof.
  intros R C x y r. cbv beta zeta delta [src_axis_indices axis_indices]. autounfold with src_helpers. cbv beta zeta.
  rewrite ?fold_append_if, ?fold_append_map2, ?app_nil_l.
  replace (Z.of_nat x + Z.of_nat r + 1)%Z with (Z.of_nat x - Z.of_nat r + Z.of_nat (2 * r + 1))%Z by lia.
  replace (Z.of_nat y + Z.of_nat r + 1)%Z with (Z.of_nat y - Z.of_nat r + Z.of_nat (2 * r + 1))%Z by lia.
  rewrite !src_range_from, !map_map.
  f_equal; apply map_ext; intros k; cbv beta zeta;
    repeat match goal with |- context [if ?c then _ else _] => destruct c eqn:? end; lia.
Qed.

(* ------------------------------------------------------------------ the mask *)
Lemma map_const_repeat : forall {A B} (f : A -> B) (v : B) (l : list A),
  (forall x, In x l -> f x = v) -> map f l = repeat v (length l).
Proof.
  intros A B f v l H. induction l as [|x l IH]; [reflexivity|]. cbn [map length repeat].
  rewrite (H x (or_introl eq_refl)), IH; [reflexivity|]. intros y Hy. apply H. now right.
Qed.

(* a mask row in three blocks *)
Lemma vn_row_blocks : forall (w m : nat), 2 * m <= w ->
  map (fun j => (j <? m) || (w - m <=? j)) (seq 0 w) = repeat true m ++ repeat false (w - 2 * m) ++ repeat true m.
Proof.
  intros w m H.
  assert (Hs : seq 0 w = seq 0 m ++ seq m (w - 2 * m) ++ seq (w - m) m).
  { pose proof (seq_app m ((w - 2 * m) + m) 0) as H1. cbn [Nat.add] in H1.
    pose proof (seq_app (w - 2 * m) m m) as H2.
    replace (m + (w - 2 * m + m)) with w in H1 by lia. replace (m + (w - 2 * m)) with (w - m) in H2 by lia.
    rewrite H1, H2. reflexivity. }
  rewrite Hs at 1. rewrite !map_app.
  rewrite (map_const_repeat _ true (seq 0 m)) by (intros j Hj; apply in_seq in Hj; lia).
  rewrite (map_const_repeat _ false (seq m (w - 2 * m))) by (intros j Hj; apply in_seq in Hj; lia).
  rewrite (map_const_repeat _ true (seq (w - m) m)) by (intros j Hj; apply in_seq in Hj; lia).
  now rewrite !seq_length.
Qed.

Lemma firstn_repeat_app : forall {A} (v : A) n k l, firstn (n + k) (repeat v n ++ l) = repeat v n ++ firstn k l.
Proof. intros A v n k l. induction n as [|n IH]; [reflexivity|]. cbn. now rewrite IH. Qed.
Lemma skipn_repeat_app : forall {A} (v : A) n l, skipn n (repeat v n ++ l) = l.
Proof. intros A v n l. induction n as [|n IH]; [reflexivity|]. exact IH. Qed.
Lemma skipn_repeat : forall {A} (v : A) m w, skipn m (repeat v w) = repeat v (w - m).
Proof. intros A v m. induction m as [|m IH]; intros [|w]; cbn; try reflexivity. apply IH. Qed.
Lemma firstn_repeat : forall {A} (v : A) k w, k <= w -> firstn k (repeat v w) = repeat v k.
Proof. intros A v k. induction k as [|k IH]; intros [|w] H; cbn; try reflexivity; [lia|]. rewrite IH by lia. reflexivity. Qed.

Definition fill2 (m : nat) (row : list bool) : list bool :=
  let row1 := src_fill_slice row None (Some (Z.of_nat m)) true in
  if m =? 0 then row1 else src_fill_slice row1 (Some (- Z.of_nat m)%Z) None true.

Lemma fill2_zero_row : forall (w m : nat), 2 * m < w ->
  fill2 m (repeat false w) = map (fun j => (j <? m) || (w - m <=? j)) (seq 0 w).
Proof.
  intros w m H. rewrite vn_row_blocks by lia. unfold fill2.
  assert (H1 : src_fill_slice (repeat false w) None (Some (Z.of_nat m)) true = repeat true m ++ repeat false (w - m)).
  { unfold src_fill_slice, src_clip. rewrite repeat_length.
    destruct (Z.of_nat m <? 0)%Z eqn:E0; [lia|]. rewrite Nat2Z.id, Nat.min_l by lia.
    destruct (m <=? 0) eqn:E1.
    - assert (m = 0) by lia. subst m. cbn. now rewrite Nat.sub_0_r.
    - cbn [firstn app]. now rewrite Nat.sub_0_r, skipn_repeat. }
  rewrite H1. destruct (m =? 0) eqn:Em.
  - apply Nat.eqb_eq in Em. subst m. cbn [repeat app]. now rewrite !Nat.sub_0_r, app_nil_r.
  - unfold src_fill_slice, src_clip. rewrite app_length, !repeat_length.
    replace (m + (w - m)) with w by lia.
    destruct (- Z.of_nat m <? 0)%Z eqn:E0; [|lia].
    replace (Z.to_nat (Z.max (- Z.of_nat m + Z.of_nat w) 0)) with (w - m) by lia.
    destruct (w <=? w - m) eqn:E1; [lia|].
    replace (w - m) with (m + (w - 2 * m)) at 1 by lia. rewrite firstn_repeat_app.
    rewrite firstn_repeat by lia.
    replace (w - (w - m)) with m by lia.
    rewrite skipn_all2 by (rewrite app_length, !repeat_length; lia).
    now rewrite app_nil_r, <- app_assoc.
Qed.

(* ---- rows of a matrix updated in place, one after the other *)
Lemma upd_length : forall {A} (l : list A) k f, length (src_upd_nth l k f) = length l.
Proof. intros A l. induction l as [|x l IH]; intros [|k] f; cbn; try reflexivity. now rewrite IH. Qed.
Lemma upd_upd : forall {A} (l : list A) k f g, src_upd_nth (src_upd_nth l k f) k g = src_upd_nth l k (fun x => g (f x)).
Proof. intros A l. induction l as [|x l IH]; intros [|k] f g; cbn; try reflexivity. now rewrite IH. Qed.
Lemma upd_split : forall {A} (l : list A) k f d, k < length l ->
  src_upd_nth l k f = firstn k l ++ f (nth k l d) :: skipn (S k) l.
Proof.
  intros A l. induction l as [|x l IH]; intros [|k] f d H; cbn in *; try lia; [reflexivity|].
  rewrite (IH k f d) by lia. reflexivity.
Qed.

Lemma row_upd_nat : forall {A} (M : list (list A)) k f, k < length M ->
  src_row_upd M (Z.of_nat k) f = Ok (src_upd_nth M k f).
Proof.
  intros A M k f H. unfold src_row_upd, py_index.
  destruct ((0 <=? Z.of_nat k)%Z && (Z.of_nat k <? Z.of_nat (length M))%Z) eqn:E; [|lia].
  now rewrite Nat2Z.id.
Qed.

Lemma upd_firstn_S : forall {A} (l : list A) a f d, a < length l ->
  firstn (S a) (src_upd_nth l a f) = firstn a l ++ [f (nth a l d)].
Proof.
  intros A l. induction l as [|x l IH]; intros [|a] f d H; cbn in *; try lia; [reflexivity|].
  f_equal. apply IH. lia.
Qed.
Lemma upd_nth_other : forall {A} (l : list A) a f k d, k <> a -> nth k (src_upd_nth l a f) d = nth k l d.
Proof.
  intros A l. induction l as [|x l IH]; intros [|a] f [|k] d H; cbn; try reflexivity; try lia.
  apply IH. lia.
Qed.

Lemma nth_repeat_in : forall {A} (v d : A) n k, k < n -> nth k (repeat v n) d = v.
Proof. intros A v d n. induction n as [|n IH]; intros [|k] H; cbn; try lia; [reflexivity|]. apply IH. lia. Qed.

Section RowLoop.
  Context {A : Type}.
  Variable f : list (list A) -> Z -> res (src_ctl (list (list A))).
  Variable h : nat -> list A -> list A.
  Hypothesis body : forall M k, k < length M -> f M (Z.of_nat k) = Ok (Next (src_upd_nth M k (h k))).

  Lemma row_loop : forall n a M, length M = a + n ->
    src_for f (map Z.of_nat (seq a n)) M = Ok (firstn a M ++ map (fun k => h k (nth k M [])) (seq a n)).
  Proof.
    induction n as [|n IH]; intros a M HL.
    - cbn. rewrite Nat.add_0_r in HL. rewrite <- HL, firstn_all, app_nil_r. reflexivity.
    - cbn [seq map src_for]. rewrite body by lia.
      rewrite (IH (S a)) by (rewrite upd_length; lia). f_equal.
      rewrite (upd_firstn_S M a (h a) []) by lia. rewrite <- app_assoc. cbn [app]. f_equal. f_equal.
      apply map_ext_in. intros k Hk. apply in_seq in Hk. f_equal. apply upd_nth_other. lia.
  Qed.
End RowLoop.

Theorem src_vn_mask_agrees : forall r : nat, src_vn_mask (Z.of_nat r) = Ok (vn_mask r).
Proof.
  intros r. cbv beta zeta delta [src_vn_mask]. autounfold with src_helpers. cbv beta zeta.
  replace (Z.to_nat (2 * Z.of_nat r + 1)) with (2 * r + 1) by lia.
  set (w := 2 * r + 1). rewrite repeat_length.
  assert (Hr : src_range 0 (Z.of_nat w) = map Z.of_nat (seq 0 w)).
  { unfold src_range. rewrite Z.sub_0_r, Nat2Z.id. apply map_ext. intros k. lia. }
  rewrite Hr. clear Hr.
  set (m := fun k : nat => if k <=? r then r - k else k - r).
  match goal with |- context [src_for ?F _ _] =>
    rewrite (row_loop F (fun k => fill2 (m k))) with (a := 0) (n := w) end.
  - cbn [bind firstn app]. f_equal. unfold vn_mask. apply map_ext_in. intros k Hk. apply in_seq in Hk.
    rewrite nth_repeat_in by lia. unfold vn_mask_row. fold w. unfold m.
    rewrite fill2_zero_row; [reflexivity|]. unfold w. destruct (k <=? r) eqn:E; lia.
  - intros M k Hk. cbv beta.
    match goal with |- context [Z.abs ?e] =>
      replace (Z.abs e) with (Z.of_nat (m k)) by (unfold m; destruct (k <=? r) eqn:E; lia) end.
    assert (Ez : (Z.of_nat (m k) =? 0)%Z = (m k =? 0)) by (destruct (m k =? 0) eqn:E; lia).
    rewrite ?Ez.
    (* whatever the order of the test and the second store: split on the test, resolve the row updates *)
    destruct (m k =? 0) eqn:E; cbn [negb];
      repeat (rewrite row_upd_nat by (rewrite ?upd_length; exact Hk); cbn [bind negb]; rewrite ?Ez, ?E);
      rewrite ?upd_upd; do 3 f_equal; unfold fill2; now rewrite E.
  - rewrite repeat_length. reflexivity.
Qed.
