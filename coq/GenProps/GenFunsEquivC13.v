(* C13 -- src_reversible_call (regenerated from ReversibleRule.__call__ of ca_functions.py into gen/GenFuns.v)
   against the hand-written models of Model/Reversible.v.
   The source-derived definition is generic in the vector self._previous_state: a store S with
   vec_read : S -> nat -> option Z (None = IndexError) and vec_write : S -> nat -> Z -> S.  Instantiated with the
   heap (reads and writes go through the reference the object holds) it is reversible_call; instantiated with a
   plain list it is reversible_rule1 (under the guard of that definition). *)
From Coq Require Import ZArith List Bool Lia.
From CPL Require Import Model.Base Model.Numbering Model.Rules Model.Engine Model.Evolve1D Model.Reversible gen.GenFuns_C13.
Import ListNotations.
Local Open Scope Z_scope.

Definition heap_read (o : rev_obj) (h : heap) (c : nat) : option Z := nth_error (h_row h (prev_ref o)) c.
Definition heap_write (o : rev_obj) (h : heap) (c : nat) (v : Z) : heap := h_write h (prev_ref o) c v.

Ltac open_rev :=
  cbv beta zeta delta [reversible_call reversible_rule1 src_reversible_call bind src_index heap_read heap_write].

(* one call on a state without a pending exception: same new heap, same value, same exception *)
Theorem src_reversible_call_agrees : forall (o : rev_obj) (h : heap) (n : list Z) (c t : nat),
  reversible_call o (h, None) n c t =
  match src_reversible_call (heap_read o) (heap_write o) (rule_no o) h n c with
  | Ok (h', v) => ((h', None), v)
  | Raise e => ((h, Some e), 0)
  end.
Proof.
  intros o h n c t. open_rev.
  destruct (nks_rule n (rule_no o)) as [regular|e]; [|reflexivity].
  destruct (nth_error (h_row h (prev_ref o)) c) as [p|]; first [reflexivity | rewrite Z.lxor_comm; reflexivity].
Qed.

(* the heap-free form: the store is the previous row itself *)
Theorem src_reversible_call_agrees_pure : forall (R : N) (prev n : list Z) (c t : nat),
  reversible_rule1 R prev n c t =
  match src_reversible_call (@nth_error Z) (fun s k v => set_nth k v s) R prev n c with
  | Ok (prev', v) => (prev', v)
  | Raise _ => (prev, 0)
  end.
Proof.
  intros R prev n c t. open_rev.
  destruct (nks_rule n R) as [regular|e]; [|reflexivity].
  destruct (nth_error prev c) as [p|]; first [reflexivity | rewrite Z.lxor_comm; reflexivity].
Qed.
