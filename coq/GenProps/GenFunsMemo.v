(* Static part of the source tie of _get_memoized (C03, C04, C09): facts about the association-list dict of the
   translation templates (gen/GenFuns_Prelude.v) that do not depend on the regenerated text. *)
From Coq Require Import ZArith List Bool.
From CPL Require Import Model.Base gen.GenFuns_Prelude.
Import ListNotations.

Lemma dict_set_absent : forall k v d, src_dict_lookup k d = None -> src_dict_set k v d = (k, v) :: d.
Proof. intros k v d H. unfold src_dict_set. now rewrite H. Qed.

Lemma zlist_eqb_refl : forall k : list Z, list_eqb Z.eqb k k = true.
Proof. induction k as [|x k IH]; [reflexivity|]. cbn. now rewrite Z.eqb_refl, IH. Qed.

Lemma zlist_eqb_true : forall k k' : list Z, list_eqb Z.eqb k k' = true -> k = k'.
Proof.
  induction k as [|x k IH]; intros [|y k'] H; cbn in H; try discriminate; [reflexivity|].
  apply andb_true_iff in H. destruct H as [H1 H2]. apply Z.eqb_eq in H1. subst y. f_equal. now apply IH.
Qed.

Lemma dict_lookup_replace_same : forall k v d w, src_dict_lookup k d = Some w -> src_dict_lookup k (src_dict_replace k v d) = Some v.
Proof.
  intros k v d. induction d as [|[k' v'] d IH]; intros w H; [discriminate|]. cbn in *.
  destruct (list_eqb Z.eqb k k') eqn:E; cbn; rewrite E; [reflexivity | now apply (IH w)].
Qed.

Lemma dict_lookup_replace_other : forall k v d k2, list_eqb Z.eqb k2 k = false ->
  src_dict_lookup k2 (src_dict_replace k v d) = src_dict_lookup k2 d.
Proof.
  intros k v d k2 H. induction d as [|[k' v'] d IH]; [reflexivity|]. cbn.
  destruct (list_eqb Z.eqb k k') eqn:E; cbn.
  - apply zlist_eqb_true in E. subst k'. now rewrite H.
  - destruct (list_eqb Z.eqb k2 k'); [reflexivity | exact IH].
Qed.

(* d[k] = v: afterwards k is bound to v and every other key is as before *)
Lemma dict_set_same : forall k v d, src_dict_lookup k (src_dict_set k v d) = Some v.
Proof.
  intros k v d. unfold src_dict_set. destruct (src_dict_lookup k d) as [w|] eqn:E.
  - now apply (dict_lookup_replace_same k v d w).
  - cbn. now rewrite zlist_eqb_refl.
Qed.
Lemma dict_set_other : forall k v d k2, list_eqb Z.eqb k2 k = false ->
  src_dict_lookup k2 (src_dict_set k v d) = src_dict_lookup k2 d.
Proof.
  intros k v d k2 H. unfold src_dict_set. destruct (src_dict_lookup k d) eqn:E.
  - now apply dict_lookup_replace_other.
  - cbn. now rewrite H.
Qed.
