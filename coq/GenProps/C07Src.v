(* C07 -- source tie: bits_to_int, int_to_bits (padding and length test; bin() stays the model's bin_digits) and
   binary_rule (powers_of_two None / given, rule given as an int or as an array, scheme, index expressions) as
   translated from ca_functions.py on this run (gen/GenFuns.v) are the hand-written models of Model/Numbering.v.
   The NKS numbering theorem restated on the source-derived binary_rule. *)
From Coq Require Import ZArith NArith List.
From CPL Require Import Model.Base Model.Numbering Proofs.NumberingProofs gen.GenFuns_C07 GenProps.GenFunsEquivC07.
Import ListNotations.

Theorem C07_source_translation_agrees :
  (forall bits : list Z, src_bits_to_int bits = Z.of_N (bits_to_int bits)) /\
  (forall (num : N) (num_digits : nat), src_int_to_bits num (Z.of_nat num_digits) = int_to_bits num num_digits) /\
  (forall (nb : list Z) (rule : rule_form) (sch : scheme) (pows : option (list Z)),
     src_binary_rule nb rule sch pows = binary_rule nb rule sch pows).
Proof.
  split; [exact src_bits_to_int_agrees|]. split; [exact src_int_to_bits_agrees | exact src_binary_rule_agrees].
Qed.

(* C07_nks_bit on the source-derived definition: for every neighbourhood length and every rule number below
   2^(2^len), binary_rule(nb, R, scheme='nks') is bit number bits_to_int(nb) of R *)
Theorem C07_src_nks_bit : forall (nb : list Z) (R : N), (R < 2 ^ N.of_nat (2 ^ length nb))%N ->
  src_binary_rule nb (RInt R) SNks None = Ok (b2z (N.testbit R (bits_to_int nb))).
Proof. intros nb R H. rewrite (proj2 (proj2 C07_source_translation_agrees)). now apply nks_bit. Qed.
