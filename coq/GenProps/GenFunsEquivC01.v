(* C01 -- _index_strides as regenerated from ca_functions.py (gen/GenFuns_C01.v) against index_strides of
   Model/Evolve1D.v, for ALL N and r (also r = 0 and r > N, where the slices saturate), applied to arange(N) with
   window_size = 2r+1.  The source-derived definition reports what NumPy does when the extended array is shorter
   than a window (as_strided with a negative count: ValueError; with count 0: no window); the hand-written model is
   total there (nat subtraction), which is outside the guard 1 <= r <= N of every theorem about it. *)
From Coq Require Import ZArith List Bool Arith Lia ZifyBool ZifyNat.
From CPL Require Import Model.Base Model.Evolve1D gen.GenFuns_C01.
Import ListNotations.
Ltac Zify.zify_post_hook ::= Z.div_mod_to_equations.

Lemma slice_last : forall {A} (l : list A) (r : nat), src_slice l (Some (- Z.of_nat r)%Z) None = py_last r l.
Proof.
  intros A l r. unfold src_slice, src_clip, py_last.
  destruct (- Z.of_nat r <? 0)%Z eqn:E.
  - destruct (r =? 0) eqn:E0; [lia|]. cbn [orb].
    destruct (length l <? r) eqn:E1.
    + replace (Z.to_nat (Z.max (- Z.of_nat r + Z.of_nat (length l)) 0)) with 0 by lia.
      cbn [skipn]. rewrite Nat.sub_0_r. apply firstn_all.
    + replace (Z.to_nat (Z.max (- Z.of_nat r + Z.of_nat (length l)) 0)) with (length l - r) by lia.
      rewrite <- (skipn_length (length l - r) l). apply firstn_all.
  - assert (r = 0) by lia. subst r. cbn [Nat.eqb orb Z.of_nat Z.opp Z.to_nat Nat.min skipn].
    rewrite Nat.sub_0_r. apply firstn_all.
Qed.

Lemma slice_first : forall {A} (l : list A) (r : nat), src_slice l None (Some (Z.of_nat r)) = firstn r l.
Proof.
  intros A l r. unfold src_slice, src_clip.
  destruct (Z.of_nat r <? 0)%Z eqn:E; [lia|]. rewrite Nat2Z.id, Nat.sub_0_r. cbn [skipn].
  destruct (Nat.le_ge_cases r (length l)) as [H|H].
  - now rewrite Nat.min_l.
  - rewrite Nat.min_r by exact H. rewrite firstn_all. symmetry. now apply firstn_all2.
Qed.

Lemma py_last_map : forall {A B} (f : A -> B) r (l : list A), py_last r (map f l) = map f (py_last r l).
Proof.
  intros A B f r l. unfold py_last. rewrite map_length.
  destruct ((r =? 0) || (length l <? r)); [reflexivity|]. apply skipn_map.
Qed.

Lemma windows_map : forall {A B} (f : A -> B) (w : nat) (l : list A) (n : nat),
  map (fun i => firstn w (skipn i (map f l))) (seq 0 n) = map (map f) (map (fun i => firstn w (skipn i l)) (seq 0 n)).
Proof. intros A B f w l n. rewrite map_map. apply map_ext. intros i. now rewrite skipn_map, firstn_map. Qed.

Theorem src_index_strides_agrees : forall N r : nat,
  src_index_strides (src_range 0 (Z.of_nat N)) (Z.of_nat (2 * r + 1)) =
  let len := length (ext_idx N r) in
  if len + 1 <? 2 * r + 1 then Raise ValueError
  else if len + 1 =? 2 * r + 1 then Ok []
  else Ok (map (map Z.of_nat) (index_strides N r)).
Proof.
  intros N r. cbv beta zeta delta [src_index_strides].
  assert (Hr : src_range 0 (Z.of_nat N) = map Z.of_nat (seq 0 N)).
  { unfold src_range. rewrite Z.sub_0_r, Nat2Z.id. apply map_ext. intros k. lia. }
  rewrite Hr. clear Hr.
  repeat match goal with
         | |- context [src_slice _ (Some ?e) None] =>
             lazymatch e with (- Z.of_nat r)%Z => fail | _ => replace e with (- Z.of_nat r)%Z by lia end
         | |- context [src_slice _ None (Some ?e)] =>
             lazymatch e with Z.of_nat r => fail | _ => replace e with (Z.of_nat r) by lia end
         end.
  rewrite slice_last, slice_first, py_last_map, firstn_map, <- !map_app.
  change (py_last r (seq 0 N) ++ seq 0 N ++ firstn r (seq 0 N)) with (ext_idx N r).
  set (L := ext_idx N r). unfold src_as_strided_windows. rewrite map_length.
  destruct (length L + 1 <? 2 * r + 1) eqn:E1.
  - destruct ((Z.of_nat (2 * r + 1) <? 0)%Z || (Z.of_nat (length L) - Z.of_nat (2 * r + 1) + 1 <? 0)%Z) eqn:E; [reflexivity|lia].
  - destruct ((Z.of_nat (2 * r + 1) <? 0)%Z || (Z.of_nat (length L) - Z.of_nat (2 * r + 1) + 1 <? 0)%Z) eqn:E; [lia|].
    cbn [bind]. rewrite Nat2Z.id.
    destruct (length L + 1 =? 2 * r + 1) eqn:E2.
    + replace (Z.to_nat (Z.of_nat (length L) - Z.of_nat (2 * r + 1) + 1)) with 0 by lia. reflexivity.
    + replace (Z.to_nat (Z.of_nat (length L) - Z.of_nat (2 * r + 1) + 1)) with (length L - (2 * r + 1) + 1) by lia.
      rewrite windows_map. reflexivity.
Qed.
