(* C15 -- the definitions regenerated from the Python source (gen/GenFuns.v: src_sdsr_is_in_tube,
   src_sdsr_default, src_sdsr_call, src_evoloop_default, src_evoloop_call, src_ctrbl_call) are equal, for ALL
   integer inputs, to the hand-written models of Model/Loops.v and Model/CTRBL.v.
   Method: GenProps/GenFunsClamp.v (clamp-invariance by conversion, then 11^5 arguments by vm_compute). *)
From Coq Require Import ZArith List Bool Lia.
From CPL Require Import Model.Base Model.CTRBL Model.Loops gen.GenFuns_C15 GenProps.GenFunsClamp.
Import ListNotations.
Local Open Scope Z_scope.

(* ------------------------------------------------------------------ SDSRLoop._is_in_tube *)
Theorem src_sdsr_is_in_tube_agrees : forall top right bottom left : Z,
  src_sdsr_is_in_tube top right bottom left = is_in_tube top right bottom left.
Proof.
  intros t r b l.
  refine (clamp5_agree Bool.eqb bool_eqb_ok (fun _ => src_sdsr_is_in_tube) (fun _ => is_in_tube) _ _ _ 0 t r b l).
  - clamp_invariance.
  - exact is_in_tube_clamp_invariant.
  - vm_compute. reflexivity.
Qed.

(* ------------------------------------------------------------------ the default branches *)
Theorem src_sdsr_default_agrees : forall current_activity top right bottom left : Z,
  src_sdsr_default current_activity top right bottom left = sdsr_default current_activity top right bottom left.
Proof.
  apply (clamp5_agree opt_eqb opt_eqb_ok).
  - clamp_invariance.
  - exact sdsr_default_clamp_invariant.
  - vm_compute. reflexivity.
Qed.

Theorem src_evoloop_default_agrees : forall current_activity top right bottom left : Z,
  src_evoloop_default current_activity top right bottom left = evoloop_default current_activity top right bottom left.
Proof.
  apply (clamp5_agree opt_eqb opt_eqb_ok).
  - clamp_invariance.
  - exact evoloop_default_clamp_invariant.
  - vm_compute. reflexivity.
Qed.

(* ------------------------------------------------------------------ __call__: key construction and table lookup.
   The dict self._rule_table is the partial map k |-> dict_get k tbl. *)
Definition lookup (tbl : table) : Z * Z * Z * Z * Z -> option Z := fun k => dict_get k tbl.

Ltac open_call :=
  cbv beta zeta delta [src_sdsr_call src_evoloop_call src_ctrbl_call SDSRLoop_call Evoloop_call CTRBLRule_call
                       sdsr_call evoloop_call ctrbl_call key_of_nbhd src_nb nb_at lookup];
  match goal with |- context [dict_get ?k ?t] => destruct (dict_get k t) end.

Theorem src_sdsr_call_agrees : forall (tbl : table) (n : list (list Z)),
  src_sdsr_call (lookup tbl) n = SDSRLoop_call tbl n.
Proof. intros tbl n. open_call; [reflexivity | apply src_sdsr_default_agrees]. Qed.

Theorem src_evoloop_call_agrees : forall (tbl : table) (n : list (list Z)),
  src_evoloop_call (lookup tbl) n = Evoloop_call tbl n.
Proof. intros tbl n. open_call; [reflexivity | apply src_evoloop_default_agrees]. Qed.

Theorem src_ctrbl_call_agrees : forall (tbl : table) (n : list (list Z)),
  src_ctrbl_call (lookup tbl) n = CTRBLRule_call tbl n.
Proof. intros tbl n. open_call; reflexivity. Qed.
