(* C07 -- bits_to_int, int_to_bits and binary_rule as regenerated from ca_functions.py (gen/GenFuns.v) against
   the hand-written models of Model/Numbering.v, for ALL inputs.  The source-derived definitions compute in Z (the
   model of bits_to_int in N); `bin(num)[2:]` stays the model's bin_digits, `a.dot(b)` the model's dot. *)
From Coq Require Import ZArith NArith List Bool Arith Lia ZifyBool ZifyNat.
From CPL Require Import Model.Base Model.Numbering gen.GenFuns_C07.
Import ListNotations.
Local Open Scope Z_scope.

Lemma shiftl_1_nat : forall k : nat, Z.shiftl 1 (Z.of_nat k) = Z.of_N (N.shiftl 1 (N.of_nat k)).
Proof.
  intros k. rewrite Z.shiftl_1_l, N.shiftl_1_l, N2Z.inj_pow. f_equal. now rewrite nat_N_Z.
Qed.

Lemma enumerate_fold_from : forall (f : Z -> Z * Z -> Z) (l : list Z) (k : nat) (total : N),
  (forall (t : N) (i : nat) (j : Z),
     f (Z.of_N t) (Z.of_nat i, j) = Z.of_N (if truthy j then (t + N.shiftl 1 (N.of_nat i))%N else t)) ->
  fold_left f (combine (map Z.of_nat (seq k (length l))) l) (Z.of_N total) = Z.of_N (b2i_loop l (N.of_nat k) total).
Proof.
  intros f l. induction l as [|j l IH]; intros k total Hf; [reflexivity|].
  cbn [length seq map combine fold_left b2i_loop]. rewrite Hf.
  rewrite (IH (S k)) by exact Hf. now rewrite Nat2N.inj_succ.
Qed.

Theorem src_bits_to_int_agrees : forall bits : list Z, src_bits_to_int bits = Z.of_N (bits_to_int bits).
Proof.
  intros bits. cbv beta zeta delta [src_bits_to_int bits_to_int src_enumerate].
  apply (enumerate_fold_from _ (rev bits) 0 0%N).
  intros t i j. cbv beta iota. unfold truthy.
  destruct (negb (j =? 0)); [|reflexivity].
  rewrite N2Z.inj_add, shiftl_1_nat. reflexivity.
Qed.

Lemma bind_ok_id : forall {A} (m : res A), bind m (fun r => Ok r) = m.
Proof. intros A [a|e]; reflexivity. Qed.

Theorem src_int_to_bits_agrees : forall (num : N) (num_digits : nat),
  src_int_to_bits num (Z.of_nat num_digits) = int_to_bits num num_digits.
Proof.
  intros num d. cbv beta zeta delta [src_int_to_bits int_to_bits src_pad_left]. rewrite ?bind_ok_id.
  destruct (d <? length (bin_digits num))%nat eqn:E1;
    destruct (Z.of_nat d - Z.of_nat (length (bin_digits num)) <? 0) eqn:E2; try lia; [reflexivity|].
  replace (Z.to_nat (Z.of_nat d - Z.of_nat (length (bin_digits num)))) with (d - length (bin_digits num))%nat by lia.
  reflexivity.
Qed.

Lemma zeqb_nat : forall a b : nat, (Z.of_nat a =? Z.of_nat b) = (a =? b)%nat.
Proof. intros a b. destruct (a =? b)%nat eqn:E; lia. Qed.

Theorem src_binary_rule_agrees : forall (nb : list Z) (rule : rule_form) (sch : scheme) (pows : option (list Z)),
  src_binary_rule nb rule sch pows = binary_rule nb rule sch pows.
Proof.
  intros nb rule sch pows. cbv beta zeta delta [src_binary_rule binary_rule].
  replace (Z.pow 2 (Z.of_nat (length nb))) with (Z.of_nat (Nat.pow 2 (length nb)))
    by (rewrite Nat2Z.inj_pow; reflexivity).
  destruct pows as [p|]; rewrite ?src_bits_to_int_agrees, ?zeqb_nat; [destruct (length p =? length nb)%nat|];
    destruct rule as [r|l]; cbn [bind]; rewrite ?src_int_to_bits_agrees, ?zeqb_nat;
    try (destruct (int_to_bits r (2 ^ length nb)) as [arr|e]; cbn [bind]);
    try (destruct (length l =? 2 ^ length nb)%nat; cbn [bind]);
    destruct sch; rewrite ?bind_ok_id;
    first [reflexivity | cbv beta iota delta [negb]; f_equal; lia].
Qed.
