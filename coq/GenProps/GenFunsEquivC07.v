(* C07 -- bits_to_int, int_to_bits and binary_rule as regenerated from ca_functions.py (gen/GenFuns.v) against
   the hand-written models of Model/Numbering.v, for ALL inputs.  The source-derived definitions compute in Z (the
   model of bits_to_int in N); `bin(num)[2:]` stays the model's bin_digits, `a.dot(b)` the model's dot. *)
From Coq Require Import ZArith NArith List Bool Arith Lia ZifyBool ZifyNat.
From CPL Require Import Model.Base Model.Numbering gen.GenFuns_C07.
Import ListNotations.
Local Open Scope Z_scope.

Lemma shiftl_1_nat : forall k : nat, Z.shiftl 1 (Z.of_nat k) = Z.of_N (N.shiftl 1 (N.of_nat k)).
Proof.
  intros k. rewrite Z.shiftl_1_l, N.shiftl_1_l, N2Z.inj_pow. f_equal. now rewrite nat_N_Z.
Qed.

Lemma enumerate_fold_from : forall (f : Z -> Z * Z -> Z) (l : list Z) (k : nat) (total : N),
  (forall (t : N) (i : nat) (j : Z),
     f (Z.of_N t) (Z.of_nat i, j) = Z.of_N (if truthy j then (t + N.shiftl 1 (N.of_nat i))%N else t)) ->
  fold_left f (combine (map Z.of_nat (seq k (length l))) l) (Z.of_N total) = Z.of_N (b2i_loop l (N.of_nat k) total).
Proof.
  intros f l. induction l as [|j l IH]; intros k total Hf; [reflexivity|].
  cbn [length seq map combine fold_left b2i_loop]. rewrite Hf.
  rewrite (IH (S k)) by exact Hf. now rewrite Nat2N.inj_succ.
Qed.

(* the other way of writing the loop: a running place value that is doubled each step and OR-ed into the total *)
Lemma lor_pow2 : forall x k, 0 <= x < 2 ^ k -> 0 <= k -> Z.lor x (2 ^ k) = x + 2 ^ k.
Proof.
  intros x k Hx Hk.
  assert (HL : Z.land x (2 ^ k) = 0).
  { apply Z.bits_inj'. intros n Hn. rewrite Z.land_spec, Z.bits_0, Z.pow2_bits_eqb by exact Hk.
    destruct (k =? n) eqn:E; [|apply andb_false_r]. apply Z.eqb_eq in E. subst n.
    assert (Ht : Z.testbit x k = false)
      by (apply Z.testbit_false; [exact Hk | rewrite Z.div_small by exact Hx; reflexivity]).
    now rewrite Ht. }
  rewrite <- (Z.lxor_lor _ _ HL). symmetry. now apply Z.add_nocarry_lxor.
Qed.

Lemma running_fold : forall (f : Z * Z -> Z -> Z * Z) (l : list Z) (k : nat) (t : N),
  (forall (t : N) (k : nat) (j : Z), (t < 2 ^ N.of_nat k)%N ->
     f (Z.of_N t, 2 ^ Z.of_nat k) j =
     (Z.of_N (if truthy j then (t + N.shiftl 1 (N.of_nat k))%N else t), 2 ^ Z.of_nat (S k))) ->
  (t < 2 ^ N.of_nat k)%N ->
  fst (fold_left f l (Z.of_N t, 2 ^ Z.of_nat k)) = Z.of_N (b2i_loop l (N.of_nat k) t).
Proof.
  intros f l. induction l as [|j l IH]; intros k t Hf Ht; [reflexivity|].
  cbn [fold_left b2i_loop]. rewrite Hf by exact Ht. rewrite <- Nat2N.inj_succ. apply IH; [exact Hf|].
  rewrite N.shiftl_1_l, Nat2N.inj_succ, N.pow_succ_r'. destruct (truthy j); lia.
Qed.

Theorem src_bits_to_int_agrees : forall bits : list Z, src_bits_to_int bits = Z.of_N (bits_to_int bits).
Proof.
  intros bits. cbv beta zeta delta [src_bits_to_int bits_to_int src_enumerate].
  first
  [ (* enumerate + 1 << shift *)
    apply (enumerate_fold_from _ (rev bits) 0 0%N);
    intros t i j; cbv beta iota; unfold truthy;
    repeat match goal with |- context [if ?c then _ else _] => destruct c eqn:? end;
    rewrite ?N2Z.inj_add, ?shiftl_1_nat; first [reflexivity | lia]
  | (* running place value *)
    match goal with |- (let '(a, _) := fold_left ?f _ _ in a) = _ =>
      change (fst (fold_left f (rev bits) (Z.of_N 0, 2 ^ Z.of_nat 0)) = Z.of_N (b2i_loop (rev bits) (N.of_nat 0) 0)) end;
    apply running_fold; [|reflexivity];
    intros t k j Ht; cbv beta iota; unfold truthy;
    assert (Hp : 2 ^ Z.of_nat k + 2 ^ Z.of_nat k = 2 ^ Z.of_nat (S k))
      by (rewrite Nat2Z.inj_succ, Z.pow_succ_r by lia; lia);
    (* the place value doubled as pv + pv, pv * 2, 2 * pv or pv << 1 *)
    assert (Hs : Z.shiftl (2 ^ Z.of_nat k) 1 = 2 ^ Z.of_nat (S k))
      by (rewrite Z.shiftl_mul_pow2 by lia; rewrite Nat2Z.inj_succ, Z.pow_succ_r by lia; lia);
    assert (Hm : 2 ^ Z.of_nat k * 2 = 2 ^ Z.of_nat (S k))
      by (rewrite Nat2Z.inj_succ, Z.pow_succ_r by lia; lia);
    assert (Hm' : 2 * 2 ^ Z.of_nat k = 2 ^ Z.of_nat (S k))
      by (rewrite Nat2Z.inj_succ, Z.pow_succ_r by lia; lia);
    assert (Hl : Z.lor (Z.of_N t) (2 ^ Z.of_nat k) = Z.of_N t + 2 ^ Z.of_nat k)
      by (apply lor_pow2; [|lia]; split; [lia|];
          change 2 with (Z.of_N 2); rewrite <- nat_N_Z, <- N2Z.inj_pow; lia);
    repeat match goal with |- context [if ?c then _ else _] => destruct c eqn:? end;
    rewrite ?Hl, ?Hp, ?Hs, ?Hm, ?Hm', ?N2Z.inj_add, ?N.shiftl_1_l, ?N2Z.inj_pow, ?nat_N_Z; first [reflexivity | congruence | (f_equal; lia)] ].
Qed.

Lemma bind_ok_id : forall {A} (m : res A), bind m (fun r => Ok r) = m.
Proof. intros A [a|e]; reflexivity. Qed.

Theorem src_int_to_bits_agrees : forall (num : N) (num_digits : nat),
  src_int_to_bits num (Z.of_nat num_digits) = int_to_bits num num_digits.
Proof.
  intros num d. cbv beta zeta delta [src_int_to_bits int_to_bits src_pad_left]. rewrite ?bind_ok_id.
  destruct (d <? length (bin_digits num))%nat eqn:E1;
    destruct (Z.of_nat d - Z.of_nat (length (bin_digits num)) <? 0) eqn:E2; try lia; [reflexivity|].
  replace (Z.to_nat (Z.of_nat d - Z.of_nat (length (bin_digits num)))) with (d - length (bin_digits num))%nat by lia.
  reflexivity.
Qed.

Lemma zeqb_nat : forall a b : nat, (Z.of_nat a =? Z.of_nat b) = (a =? b)%nat.
Proof. intros a b. destruct (a =? b)%nat eqn:E; lia. Qed.

Theorem src_binary_rule_agrees : forall (nb : list Z) (rule : rule_form) (sch : scheme) (pows : option (list Z)),
  src_binary_rule nb rule sch pows = binary_rule nb rule sch pows.
Proof.
  intros nb rule sch pows. cbv beta zeta delta [src_binary_rule binary_rule].
  autounfold with src_helpers. cbv beta zeta.
  (* the table size, written 2 ** len(..) or 1 << len(..) *)
  rewrite ?Z.shiftl_1_l.
  replace (Z.pow 2 (Z.of_nat (length nb))) with (Z.of_nat (Nat.pow 2 (length nb)))
    by (rewrite Nat2Z.inj_pow; reflexivity).
  (* every shape of the control flow: split on the tagged arguments and on every test, resolve the calls *)
  destruct pows as [p|]; destruct rule as [r|l]; destruct sch; cbn [bind];
    rewrite ?src_bits_to_int_agrees, ?src_int_to_bits_agrees, ?zeqb_nat;
    repeat (match goal with
            | |- context [int_to_bits ?a ?b] => destruct (int_to_bits a b) eqn:?
            | |- context [if ?c then _ else _] => destruct c eqn:?
            end; cbn [bind negb]; rewrite ?src_int_to_bits_agrees, ?zeqb_nat);
    rewrite ?bind_ok_id;
    first [reflexivity | congruence | (f_equal; lia) | (exfalso; lia)].
Qed.
