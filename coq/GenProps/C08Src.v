(* C08 -- source tie: totalistic_rule and TotalisticRule.__call__ as translated from ca_functions.py on this run
   (gen/GenFuns_C08.v) are the hand-written totalistic_ns / TotalisticRule_call of Model/Totalistic.v (signed
   arithmetic).  The digit theorem restated on the source-derived function. *)
From Coq Require Import ZArith NArith List.
From CPL Require Import Model.Base Model.Totalistic Proofs.TotalisticProofs gen.GenFuns_C08 GenProps.GenFunsEquivC08.
Import ListNotations.

Theorem C08_source_translation_agrees :
  (forall (n : nat) (s : Z) (k rule : N), src_totalistic_rule (Z.of_nat n) s k rule = totalistic_ns false n s k rule) /\
  (forall (k rule : N) (cells : list Z) (c : Z) (t : nat),
     src_totalistic_rule_call k rule (Z.of_nat (length cells)) (zsum cells) = TotalisticRule_call k rule false cells c t) /\
  (forall (k rule : N) (cells : list Z) (mask : list bool) (c : Z) (t : nat),
     src_totalistic_rule_call k rule (Z.of_nat (length cells)) (zsum (unmasked cells mask))
     = TotalisticRule_call_masked k rule false cells mask c t).
Proof.
  split; [exact src_totalistic_rule_agrees|].
  split; [exact src_totalistic_rule_call_agrees | exact src_totalistic_rule_call_agrees_masked].
Qed.

(* C08_totalistic_digit on the source-derived function: in range, the result is the base-k digit of the rule number
   with place value k^s (s the sum of the neighbourhood) *)
Theorem C08_src_totalistic_digit : forall (n : nat) (s : Z) (k rule : N),
  (2 <= k <= 36)%N -> (0 <= s <= Z.of_nat n * (Z.of_N k - 1))%Z ->
  (rule < k ^ (N.of_nat n * (k - 1) + 1))%N ->
  src_totalistic_rule (Z.of_nat n) s k rule = Ok ((rule / k ^ Z.to_N s) mod k)%N.
Proof.
  intros n s k rule Hk Hs Hr. rewrite (proj1 C08_source_translation_agrees).
  exact (proj1 (totalistic_digit false n s k rule Hk Hs Hr)).
Qed.
