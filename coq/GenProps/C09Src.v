(* C09 -- source tie: _get_memoized (1D and 2D) as translated from ca_functions.py / ca_functions2d.py on this run
   (gen/GenFuns_C09.v) is get_memoized / get_memoized2 of the models, for all inputs.  Two sentences of the property
   stated directly on the source-derived definition: a neighbourhood whose key is in the table is answered from the
   table without calling the rule; after any call the key of the neighbourhood is bound to the returned value and
   nothing that was in the table is lost (the table only grows). *)
From Coq Require Import ZArith List Bool.
From CPL Require Import Model.Base Model.Rules Model.Evolve1D Model.Evolve2D Model.Memo1D Model.Memo2D.
From CPL Require Import gen.GenFuns_C09 GenProps.GenFunsMemo GenProps.GenFunsEquivC09.
Import ListNotations.

Theorem C09_source_translation_agrees :
  (forall (St : Type) (rule : rule1 St) (s : St) (cache : list (list Z * Z)) (lg : list call1) (n : list Z) (c t : nat),
     get_memoized rule (s, cache, lg) n c t =
     (let '((sl, cache'), v) := src_get_memoized (fun n => n) (logged1 rule) (s, lg) n c t cache in
      ((fst sl, cache', snd sl), v))) /\
  (forall (St : Type) (rule : rule2 St) (s : St) (m : memo_table) (n : nbhd2) (c : nat * nat) (t : nat),
     get_memoized2 rule (s, m) n c t = src_get_memoized2d memo_key rule s n c t m).
Proof. split; [exact src_get_memoized_agrees | exact src_get_memoized2d_agrees]. Qed.

Section OnSource.
  Context {NB cell St : Type} (nb_key : NB -> list Z) (rule : St -> NB -> cell -> nat -> St * Z).

  (* a second lookup of the same key never calls the rule: the rule's state and the table are returned unchanged *)
  Theorem C09_src_hit_does_not_call_the_rule : forall rs n c t tbl v,
    src_dict_lookup (nb_key n) tbl = Some v ->
    src_get_memoized nb_key rule rs n c t tbl = ((rs, tbl), v) /\
    src_get_memoized2d nb_key rule rs n c t tbl = ((rs, tbl), v).
  Proof.
    intros rs n c t tbl v H. cbv beta zeta delta [src_get_memoized src_get_memoized2d].
    autounfold with src_helpers. rewrite H. split; reflexivity.
  Qed.

  (* the table only grows, and the answer is stored under the key of the neighbourhood *)
  Theorem C09_src_table_only_grows : forall rs n c t tbl,
    (let '((_, tbl'), v) := src_get_memoized nb_key rule rs n c t tbl in
     src_dict_lookup (nb_key n) tbl' = Some v /\
     forall k w, src_dict_lookup k tbl = Some w -> src_dict_lookup k tbl' = Some w) /\
    (let '((_, tbl'), v) := src_get_memoized2d nb_key rule rs n c t tbl in
     src_dict_lookup (nb_key n) tbl' = Some v /\
     forall k w, src_dict_lookup k tbl = Some w -> src_dict_lookup k tbl' = Some w).
  Proof.
    intros rs n c t tbl. cbv beta zeta delta [src_get_memoized src_get_memoized2d].
    autounfold with src_helpers.
    split; destruct (src_dict_lookup (nb_key n) tbl) as [v0|] eqn:E;
      try (split; [exact E | intros k w Hk; exact Hk]);
      destruct (rule rs n c t) as [rs' v];
      repeat match goal with |- context [if ?b then _ else _] => destruct b eqn:? end;
      (split; [apply dict_set_same |
               intros k w Hk; destruct (list_eqb Z.eqb k (nb_key n)) eqn:Ek;
               [apply zlist_eqb_true in Ek; subst k; congruence | rewrite dict_set_other by exact Ek; exact Hk]]).
  Qed.
End OnSource.
