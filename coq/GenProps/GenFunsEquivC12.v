(* C12 -- the methods of AsynchronousRule regenerated from ca_functions.py (gen/GenFuns.v, section src_async:
   the object is the record src_async_state, __call__ is  state -> n -> c -> t -> res (state * value)) against the
   hand-written state machine async_call of Model/Async.v, for every cell type, comparison, wrapped rule, shuffle
   oracle, neighbourhood type and EVERY object state whose _curr indexes its update order (the only states the
   constructor and __call__ produce for a non-empty order; outside it the real code raises IndexError at
   self._update_order[self._curr], which the source-derived definition reports and the model totalises). *)
From Coq Require Import ZArith List Bool Arith Lia ZifyBool ZifyNat.
From CPL Require Import Model.Base Model.Rules Model.Async gen.GenFuns_C12.
Import ListNotations.
Ltac Zify.zify_post_hook ::= Z.div_mod_to_equations.

Section Agree.
  Variables (cell NB St : Type) (ceq : cell -> cell -> bool) (dc : cell) (centre : NB -> Z).
  Variable inner : St -> NB -> cell -> nat -> St * Z.
  Variable sh : nat -> list cell -> list cell.

  (* the object of the model as the record of the source-derived definitions *)
  Definition inj (a : astate cell St) : src_async_state cell St :=
    src_async_mk cell St (a_order a) (Z.of_nat (a_curr a)) (Z.of_nat (a_napp a)) (a_nsh a) (a_inner a).

  Lemma py_get_nat : forall (l : list cell) k, k < length l -> py_get l (Z.of_nat k) = Ok (nth k l dc).
  Proof.
    intros l k H. unfold py_get, py_index.
    destruct ((0 <=? Z.of_nat k)%Z && (Z.of_nat k <? Z.of_nat (length l))%Z) eqn:E; [|lia].
    rewrite Nat2Z.id. rewrite (nth_error_nth' l dc H). reflexivity.
  Qed.

  Lemma src_async_in_update_order_agrees : forall a c n,
    src_async_in_update_order cell NB St ceq (inj a) c n = cmem cell ceq c (a_order a).
  Proof. reflexivity. Qed.

  Lemma src_async_should_update_agrees : forall a c n, a_curr a < length (a_order a) ->
    src_async_should_update cell NB St ceq (inj a) c n = Ok (ceq c (nth (a_curr a) (a_order a) dc)).
  Proof.
    intros a c n H. unfold src_async_should_update, inj. cbn [src_async_get_update_order src_async_get_curr].
    rewrite (py_get_nat _ _ H). reflexivity.
  Qed.

  Lemma src_async_check_for_end_of_cycle_agrees : forall a, a_curr a < length (a_order a) ->
    src_async_check_for_end_of_cycle cell St sh (a_rand a) (inj a) = Ok (inj (end_cycle cell St sh a)).
  Proof.
    intros [o k m rd j s] H. cbn [a_curr a_order] in H.
    unfold src_async_check_for_end_of_cycle, end_cycle, inj, src_mod, bind, src_async_shuffle, shuffle_order,
      src_async_set_curr, src_async_set_num_applied, src_async_set_shuffles, src_async_set_update_order.
    cbn [a_order a_curr a_napp a_rand a_nsh a_inner src_async_get_update_order src_async_get_curr
         src_async_get_num_applied src_async_get_shuffles src_async_get_apply_rule].
    destruct (m =? length o) eqn:E1;
      destruct (Z.of_nat m =? Z.of_nat (length o))%Z eqn:E2; try lia; cbn [negb]; [|reflexivity].
    destruct (Z.of_nat (length o) =? 0)%Z eqn:E3; [lia|]. cbn [bind].
    replace ((Z.of_nat k + 1) mod Z.of_nat (length o))%Z with (Z.of_nat ((k + 1) mod length o)) by lia.
    destruct rd; reflexivity.
  Qed.

  Theorem src_async_call_agrees : forall (a : astate cell St) (n : NB) (c : cell) (t : nat),
    a_curr a < length (a_order a) ->
    src_async_call cell NB St ceq inner sh centre (a_rand a) (inj a) n c t =
    Ok (inj (fst (async_call cell ceq dc NB centre St inner sh a n c t)),
        snd (async_call cell ceq dc NB centre St inner sh a n c t)).
  Proof.
    intros a n c t H. unfold src_async_call, async_call.
    rewrite src_async_in_update_order_agrees.
    set (a1 := if cmem cell ceq c (a_order a)
               then mkA (a_order a) (a_curr a) (a_napp a + 1) (a_rand a) (a_nsh a) (a_inner a) else a).
    assert (E1 : (if cmem cell ceq c (a_order a)
                  then src_async_set_num_applied cell St (inj a) (src_async_get_num_applied cell St (inj a) + 1)
                  else inj a) = inj a1).
    { unfold a1. destruct (cmem cell ceq c (a_order a)); [|reflexivity].
      unfold inj, src_async_set_num_applied. cbn. f_equal. lia. }
    rewrite E1.
    assert (H1 : a_curr a1 < length (a_order a1)) by (unfold a1; destruct (cmem cell ceq c (a_order a)); exact H).
    assert (R1 : a_rand a = a_rand a1) by (unfold a1; destruct (cmem cell ceq c (a_order a)); reflexivity).
    rewrite R1.
    rewrite (src_async_should_update_agrees a1 c n H1). cbn [bind].
    rewrite (src_async_check_for_end_of_cycle_agrees a1 H1). cbn [bind].
    destruct (ceq c (nth (a_curr a1) (a_order a1) dc)); cbn [negb].
    - unfold inj at 1. cbn [src_async_get_apply_rule].
      destruct (inner (a_inner (end_cycle cell St sh a1)) n c t) as [s' v]. reflexivity.
    - reflexivity.
  Qed.
End Agree.

(* the two neighbourhood forms of _current_cell_value *)
Theorem src_async_current_cell_value_1d_agrees : forall n : list Z, src_async_current_cell_value_1d n = centre1 n.
Proof. reflexivity. Qed.
Theorem src_async_current_cell_value_2d_agrees : forall n : nbhd2, src_async_current_cell_value_2d (nb_vals n) = centre2 n.
Proof. reflexivity. Qed.
