(* C12 -- source tie: AsynchronousRule.__call__ with _in_update_order, _should_update, _check_for_end_of_cycle,
   _current_cell_value (1D and 2D form) as translated from ca_functions.py on this run (gen/GenFuns.v) are the
   hand-written state machine of Model/Async.v; np.random.shuffle is the same oracle hook on both sides. *)
From Coq Require Import ZArith List Bool Arith Lia.
From CPL Require Import Model.Base Model.Rules Model.Async gen.GenFuns_C12 GenProps.GenFunsEquivC12.
Import ListNotations.

Theorem C12_source_translation_agrees :
  (forall (cell NB St : Type) (ceq : cell -> cell -> bool) (dc : cell) (centre : NB -> Z)
          (inner : St -> NB -> cell -> nat -> St * Z) (sh : nat -> list cell -> list cell)
          (a : astate cell St) (n : NB) (c : cell) (t : nat),
     a_curr a < length (a_order a) ->
     src_async_call cell NB St ceq inner sh centre (a_rand a) (inj cell St a) n c t =
     Ok (inj cell St (fst (async_call cell ceq dc NB centre St inner sh a n c t)),
         snd (async_call cell ceq dc NB centre St inner sh a n c t))) /\
  (forall n : list Z, src_async_current_cell_value_1d n = centre1 n) /\
  (forall n : nbhd2, src_async_current_cell_value_2d (nb_vals n) = centre2 n).
Proof.
  split; [exact src_async_call_agrees|].
  split; [exact src_async_current_cell_value_1d_agrees | exact src_async_current_cell_value_2d_agrees].
Qed.

(* the sentence of the property for ONE call of the source-derived __call__ (1D form of the centre): it does not
   raise; on the scheduled cell order[curr] it returns the wrapped rule's value and advances the wrapped rule by
   exactly that call; on any other cell it returns the centre of the neighbourhood and leaves the wrapped rule
   alone *)
Theorem C12_src_call_updates_scheduled_cell_only :
  forall (St : Type) (inner : rule1 St) (sh : nat -> list nat -> list nat) (a : astate nat St) (n : list Z) (c t : nat),
  a_curr a < length (a_order a) ->
  exists st' v,
    src_async_call nat (list Z) St Nat.eqb inner sh src_async_current_cell_value_1d (a_rand a) (inj nat St a) n c t
      = Ok (st', v) /\
    (c = nth (a_curr a) (a_order a) 0 ->
       v = snd (inner (a_inner a) n c t) /\ src_async_get_apply_rule nat St st' = fst (inner (a_inner a) n c t)) /\
    (c <> nth (a_curr a) (a_order a) 0 ->
       v = nth (length n / 2) n 0%Z /\ src_async_get_apply_rule nat St st' = a_inner a).
Proof.
  intros St inner sh a n c t H.
  rewrite (proj1 C12_source_translation_agrees nat (list Z) St Nat.eqb 0 src_async_current_cell_value_1d inner sh a n c t H).
  eexists. eexists. split; [reflexivity|].
  unfold async_call.
  set (a1 := if cmem nat Nat.eqb c (a_order a) then _ else a).
  assert (E : a_curr a1 = a_curr a /\ a_order a1 = a_order a /\ a_inner a1 = a_inner a)
    by (unfold a1; destruct (cmem nat Nat.eqb c (a_order a)); repeat split; reflexivity).
  destruct E as (Ec & Eo & Ei). rewrite Ec, Eo.
  assert (Ee : a_inner (end_cycle nat St sh a1) = a_inner a).
  { rewrite <- Ei. unfold end_cycle. destruct (a_napp a1 =? length (a_order a1)); [|reflexivity].
    destruct (a_rand a1); reflexivity. }
  split; intros Hc.
  - rewrite <- Hc, Nat.eqb_refl. rewrite Ee.
    destruct (inner (a_inner a) n c t) as [s' v]. cbn. split; reflexivity.
  - apply Nat.eqb_neq in Hc. rewrite Hc. cbn [fst snd]. split; [reflexivity|].
    unfold inj. cbn [src_async_get_apply_rule]. exact Ee.
Qed.
