(* C17 -- table_rule as regenerated from rule_tables.py (gen/GenFuns_C17.v) against table_rule of
   Model/RuleTables.v, for every neighbourhood of non-negative ints and every table.  The key
   ''.join(str(x) for x in neighbourhood) is the model's state_repr (decimal digits of the cells, concatenated);
   the dict is the model's association list with its lookup.  random_rule_table and table_walk_through are not
   translated (notes/agents/TRANSLATOR.md). *)
From Coq Require Import ZArith List Bool.
From CPL Require Import Model.Base Model.RuleTables gen.GenFuns_C17.
Import ListNotations.

Theorem src_table_rule_agrees : forall (nb : list nat) (t : table), src_table_rule nb t = table_rule nb t.
Proof.
  intros nb t. cbv beta zeta delta [src_table_rule table_rule]. autounfold with src_helpers.
  repeat match goal with
         | |- context [match ?x with Some _ => _ | None => _ end] => destruct x eqn:?
         | |- context [if ?c then _ else _] => destruct c eqn:?
         end; reflexivity.
Qed.
