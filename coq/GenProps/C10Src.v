(* C10 -- source tie: the block index lists of evolve_block as translated from ca_functions.py on this run
   (gen/GenFuns_C10.v) are blocks_odd / blocks_even of Model/Block.v.  The partition theorem restated on the
   source-derived lists.  (The 2D index loops of evolve2d_block are not translated: notes/agents/TRANSLATOR.md.) *)
From Coq Require Import ZArith List Arith Lia Permutation.
From CPL Require Import Model.Base Model.Block Proofs.BlockProofs gen.GenFuns_C10 GenProps.GenFunsEquivC10.
Import ListNotations.

Theorem C10_source_translation_agrees : forall (init : list Z) (b m : nat), 1 <= b -> length init = m * b ->
  src_block_indices init (Z.of_nat b) =
  if m =? 0 then Raise IndexError
  else Ok (map (map Z.of_nat) (blocks_odd (m * b) b), map (map Z.of_nat) (blocks_even (m * b) b)).
Proof. exact src_block_indices_agrees. Qed.

(* C10_blocks_partition_1d on the source: both index lists the code builds partition the cells 0 .. N-1 *)
Theorem C10_src_blocks_partition_1d : forall (init : list Z) (b m : nat), 1 <= b -> 1 <= m -> length init = m * b ->
  exists odd even, src_block_indices init (Z.of_nat b) = Ok (odd, even) /\
    Permutation (concat odd) (map Z.of_nat (seq 0 (m * b))) /\
    Permutation (concat even) (map Z.of_nat (seq 0 (m * b))).
Proof.
  intros init b m Hb Hm Hl. rewrite (C10_source_translation_agrees init b m Hb Hl).
  destruct (m =? 0) eqn:E; [apply Nat.eqb_eq in E; lia|].
  eexists. eexists. split; [reflexivity|].
  rewrite <- !concat_map. split; apply Permutation_map.
  - exact (blocks_at_perm (m * b) b 1 Hb).
  - exact (blocks_at_perm (m * b) b 0 Hb).
Qed.
