(* C15 — the theorems that depend on the REGENERATED rule tables (gen/GenTables.v, re-exported from the
   cellpylib working tree on every run by harness/gen_tables.py). Each is one instance of a table-independent
   lemma of Proofs/CTRBLProofs.v whose premise is a closed boolean sweep, decided here by the kernel's
   vm_compute on the tables the code has now. If a table changes so that a statement no longer holds,
   this file stops compiling; harness/props/c15.py then searches a witness key with the same checkers. *)
From Coq Require Import ZArith Lia.
From CPL Require Import Model.Base Model.CTRBL Model.Loops Model.SayamaSpec Proofs.CTRBLProofs gen.GenTables.
Local Open Scope Z_scope.

(* ---- the exported rule_table is what the modelled constructor builds from the literal in the source *)
Lemma langton_table_is_closure : forall k,
  dict_get k (loop_new langton_literal langton_add_rotations) = dict_get k langton_table.
Proof. apply table_eqb_spec. vm_compute. reflexivity. Qed.

Lemma evoloop_table_is_closure : forall k,
  dict_get k (loop_new evoloop_literal evoloop_add_rotations) = dict_get k evoloop_table.
Proof. apply table_eqb_spec. vm_compute. reflexivity. Qed.

Lemma sdsr_table_is_closure : forall k,
  dict_get k (sdsr_new sdsr_base_literal sdsr_base_add_rotations sdsr_extra) = dict_get k sdsr_table.
Proof. apply table_eqb_spec. vm_compute. reflexivity. Qed.

(* ---- Langton's loop: 8^5 combinations, same answer or same ValueError on all four turns *)
Lemma langton_orientation_free : forall c t r b l,
  0 <= c < 8 -> 0 <= t < 8 -> 0 <= r < 8 -> 0 <= b < 8 -> 0 <= l < 8 ->
  ctrbl_call langton_table (c, l, t, r, b) = ctrbl_call langton_table (c, t, r, b, l) /\
  ctrbl_call langton_table (c, b, l, t, r) = ctrbl_call langton_table (c, t, r, b, l) /\
  ctrbl_call langton_table (c, r, b, l, t) = ctrbl_call langton_table (c, t, r, b, l).
Proof. apply (ctrbl_orientation_gen langton_table 8); [lia | vm_compute; reflexivity]. Qed.

(* ... and for every integer state, not only 0..7 *)
Lemma langton_orientation_free_all_states : forall k,
  ctrbl_call langton_table (rot k) = ctrbl_call langton_table k.
Proof. apply ctrbl_orientation_all. vm_compute. reflexivity. Qed.

(* ---- SDSR loop: 9^5 combinations *)
Lemma sdsr_total_range : forall c t r b l,
  0 <= c < 9 -> 0 <= t < 9 -> 0 <= r < 9 -> 0 <= b < 9 -> 0 <= l < 9 ->
  exists v, sdsr_call sdsr_table (c, t, r, b, l) = Some v /\ 0 <= v <= 8.
Proof.
  apply (loop_total_range_gen sdsr_table 9 ltac:(lia) sdsr_call fast_sdsr (fast_sdsr_correct sdsr_table)).
  vm_compute. reflexivity.
Qed.

Lemma sdsr_orientation_free : forall c t r b l,
  0 <= c < 9 -> 0 <= t < 9 -> 0 <= r < 9 -> 0 <= b < 9 -> 0 <= l < 9 ->
  sdsr_call sdsr_table (c, l, t, r, b) = sdsr_call sdsr_table (c, t, r, b, l) /\
  sdsr_call sdsr_table (c, b, l, t, r) = sdsr_call sdsr_table (c, t, r, b, l) /\
  sdsr_call sdsr_table (c, r, b, l, t) = sdsr_call sdsr_table (c, t, r, b, l).
Proof.
  apply (loop_orientation_gen sdsr_table 9 ltac:(lia) sdsr_call fast_sdsr (fast_sdsr_correct sdsr_table)).
  vm_compute. reflexivity.
Qed.

Lemma sdsr_orientation_free_all_states : forall k, sdsr_call sdsr_table (rot k) = sdsr_call sdsr_table k.
Proof. apply sdsr_orientation_all. vm_compute. reflexivity. Qed.

Lemma sdsr_defaults : forall c t r b l,
  0 <= c < 9 -> 0 <= t < 9 -> 0 <= r < 9 -> 0 <= b < 9 -> 0 <= l < 9 ->
  dict_get (c, t, r, b, l) sdsr_table = None ->
  sdsr_call sdsr_table (c, t, r, b, l) = Some (sayama_default SDSR c t r b l).
Proof.
  apply (loop_defaults_gen sdsr_table 9 ltac:(lia) sdsr_call fast_sdsr (fast_sdsr_correct sdsr_table) sayama_sdsr).
  vm_compute. reflexivity.
Qed.

(* ---- Evoloop: 9^5 combinations *)
Lemma evoloop_total_range : forall c t r b l,
  0 <= c < 9 -> 0 <= t < 9 -> 0 <= r < 9 -> 0 <= b < 9 -> 0 <= l < 9 ->
  exists v, evoloop_call evoloop_table (c, t, r, b, l) = Some v /\ 0 <= v <= 8.
Proof.
  apply (loop_total_range_gen evoloop_table 9 ltac:(lia) evoloop_call fast_evoloop (fast_evoloop_correct evoloop_table)).
  vm_compute. reflexivity.
Qed.

Lemma evoloop_orientation_free : forall c t r b l,
  0 <= c < 9 -> 0 <= t < 9 -> 0 <= r < 9 -> 0 <= b < 9 -> 0 <= l < 9 ->
  evoloop_call evoloop_table (c, l, t, r, b) = evoloop_call evoloop_table (c, t, r, b, l) /\
  evoloop_call evoloop_table (c, b, l, t, r) = evoloop_call evoloop_table (c, t, r, b, l) /\
  evoloop_call evoloop_table (c, r, b, l, t) = evoloop_call evoloop_table (c, t, r, b, l).
Proof.
  apply (loop_orientation_gen evoloop_table 9 ltac:(lia) evoloop_call fast_evoloop (fast_evoloop_correct evoloop_table)).
  vm_compute. reflexivity.
Qed.

Lemma evoloop_orientation_free_all_states : forall k,
  evoloop_call evoloop_table (rot k) = evoloop_call evoloop_table k.
Proof. apply evoloop_orientation_all. vm_compute. reflexivity. Qed.

Lemma evoloop_defaults : forall c t r b l,
  0 <= c < 9 -> 0 <= t < 9 -> 0 <= r < 9 -> 0 <= b < 9 -> 0 <= l < 9 ->
  dict_get (c, t, r, b, l) evoloop_table = None ->
  evoloop_call evoloop_table (c, t, r, b, l) = Some (sayama_default EVOLOOP c t r b l).
Proof.
  apply (loop_defaults_gen evoloop_table 9 ltac:(lia) evoloop_call fast_evoloop (fast_evoloop_correct evoloop_table)
           sayama_evoloop).
  vm_compute. reflexivity.
Qed.

(* ================================================================== one statement per clause of the property's
   parenthesis (Proofs/CTRBLClauses.v); "undefined" = outside the regenerated table *)
From CPL Require Import Proofs.CTRBLClauses.

(* "8 always becomes 0": all 9^4 neighbour combinations, table entry or default (no hypothesis on the table:
   an added entry with centre 8 and another image breaks this theorem) *)
Lemma eight_always_zero : forall t r b l,
  0 <= t < 9 -> 0 <= r < 9 -> 0 <= b < 9 -> 0 <= l < 9 ->
  sdsr_call sdsr_table (8, t, r, b, l) = Some 0 /\ evoloop_call evoloop_table (8, t, r, b, l) = Some 0.
Proof.
  intros t r b l Ht Hr Hb Hl. split.
  - apply (eight_always_zero_gen sdsr_table sdsr_call fast_sdsr (fast_sdsr_correct sdsr_table)); try assumption.
    vm_compute. reflexivity.
  - apply (eight_always_zero_gen evoloop_table evoloop_call fast_evoloop (fast_evoloop_correct evoloop_table));
      try assumption.
    vm_compute. reflexivity.
Qed.

(* "the 8-neighbour rules" *)
Lemma eight_neighbour_rules : forall c t r b l,
  0 <= c < 8 -> 0 <= t < 9 -> 0 <= r < 9 -> 0 <= b < 9 -> 0 <= l < 9 ->
  next_to 8 [t; r; b; l] = true ->
  let image := if member c [0; 1]
               then (if existsb (fun s => next_to s [t; r; b; l]) [2; 3; 4; 5; 6; 7] then 8 else c)
               else if member c [2; 3; 5] then 0 else 1 in
  (dict_get (c, t, r, b, l) sdsr_table = None -> sdsr_call sdsr_table (c, t, r, b, l) = Some image) /\
  (dict_get (c, t, r, b, l) evoloop_table = None -> evoloop_call evoloop_table (c, t, r, b, l) = Some image).
Proof.
  intros c t r b l Hc Ht Hr Hb Hl H8 image. unfold image. split; intros Habs.
  - rewrite sdsr_defaults by (assumption || lia). rewrite sayama_eight_neighbour by (assumption || lia). reflexivity.
  - rewrite evoloop_defaults by (assumption || lia). rewrite sayama_eight_neighbour by (assumption || lia). reflexivity.
Qed.

(* "the tube rules" (SDSR) *)
Lemma sdsr_tube_rules : forall c t r b l image,
  0 <= c < 8 -> 0 <= t < 9 -> 0 <= r < 9 -> 0 <= b < 9 -> 0 <= l < 9 ->
  next_to 8 [t; r; b; l] = false -> dict_get (c, t, r, b, l) sdsr_table = None ->
  tube_rule c [t; r; b; l] = Some image ->
  sdsr_call sdsr_table (c, t, r, b, l) = Some image.
Proof.
  intros c t r b l image Hc Ht Hr Hb Hl H8 Habs Htube.
  rewrite sdsr_defaults by (assumption || lia). rewrite (sayama_tube c t r b l image) by (assumption || lia). reflexivity.
Qed.

(* "undefined 0 stays 0" *)
Lemma undefined_zero_stays_zero : forall t r b l,
  0 <= t < 9 -> 0 <= r < 9 -> 0 <= b < 9 -> 0 <= l < 9 ->
  next_to 8 [t; r; b; l] = false ->
  (dict_get (0, t, r, b, l) sdsr_table = None -> in_tube [t; r; b; l] && next_to 1 [t; r; b; l] = false ->
   sdsr_call sdsr_table (0, t, r, b, l) = Some 0) /\
  (dict_get (0, t, r, b, l) evoloop_table = None -> evoloop_call evoloop_table (0, t, r, b, l) = Some 0).
Proof.
  intros t r b l Ht Hr Hb Hl H8. split.
  - intros Habs Htube. rewrite sdsr_defaults by (assumption || lia). rewrite sayama_zero_sdsr by assumption.
    rewrite Htube. reflexivity.
  - intros Habs. rewrite evoloop_defaults by (assumption || lia).
    rewrite sayama_undefined_evoloop by (assumption || lia). reflexivity.
Qed.

(* "undefined 1-7 become 8" *)
Lemma undefined_1_7_become_eight : forall c t r b l,
  1 <= c <= 7 -> 0 <= t < 9 -> 0 <= r < 9 -> 0 <= b < 9 -> 0 <= l < 9 ->
  next_to 8 [t; r; b; l] = false ->
  (dict_get (c, t, r, b, l) sdsr_table = None -> tube_rule c [t; r; b; l] = None ->
   sdsr_call sdsr_table (c, t, r, b, l) = Some 8) /\
  (dict_get (c, t, r, b, l) evoloop_table = None -> evoloop_call evoloop_table (c, t, r, b, l) = Some 8).
Proof.
  intros c t r b l Hc Ht Hr Hb Hl H8.
  assert ((c =? 0) = false) as E0 by lia.
  split.
  - intros Habs Htube. rewrite sdsr_defaults by (assumption || lia).
    rewrite sayama_undefined_sdsr by (assumption || lia). rewrite E0. reflexivity.
  - intros Habs. rewrite evoloop_defaults by (assumption || lia).
    rewrite sayama_undefined_evoloop by (assumption || lia). rewrite E0. reflexivity.
Qed.
