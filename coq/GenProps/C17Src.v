(* C17 -- source tie: table_rule as translated from rule_tables.py on this run (gen/GenFuns_C17.v) is table_rule of
   Model/RuleTables.v.  The lookup theorem restated on the source-derived definition. *)
From Coq Require Import ZArith List Bool.
From CPL Require Import Model.Base Model.RuleTables Proofs.RuleTablesProofs gen.GenFuns_C17 GenProps.GenFunsEquivC17.
Import ListNotations.

Theorem C17_source_translation_agrees : forall (nb : list nat) (t : table), src_table_rule nb t = table_rule nb t.
Proof. exact src_table_rule_agrees. Qed.

(* C17_table_rule_lookup on the source: the value stored at the concatenated decimal renderings of the cells;
   ValueError exactly when that key is absent; no other exception *)
Theorem C17_src_table_rule_lookup : forall nb t,
  (forall v, src_table_rule nb t = Ok v <-> lookup (concat (map (fun x => base_repr x 10) nb)) t = Some v) /\
  (src_table_rule nb t = Raise ValueError <-> ~ In (concat (map (fun x => base_repr x 10) nb)) (map fst t)) /\
  (forall e, src_table_rule nb t = Raise e -> e = ValueError).
Proof. intros nb t. rewrite C17_source_translation_agrees. apply table_rule_lookup. Qed.
