(* C19 -- source tie: the exact layer of apen() (the closure maximum_distance, the window list of phi(m), the match
   count of one window) as translated from apen.py on this run (gen/GenFuns_C19.v) is max_dist / xwindows /
   match_count of Model/Apen.v.  The real-valued layer (np.log, the sums, abs) and the input normalisation stay with
   the hand-written model and the correspondence. *)
From Coq Require Import ZArith List Arith Lia.
From CPL Require Import Model.Base Model.Apen Proofs.ApenExact gen.GenFuns_C19 GenProps.GenFunsEquivC19.
Import ListNotations.

Theorem C19_source_translation_agrees :
  (forall x y : list Z,
     src_apen_maximum_distance x y = match combine x y with [] => Raise ValueError | _ => Ok (max_dist x y) end) /\
  (forall (U : list Z) (m : nat), src_apen_windows U (Z.of_nat (length U)) (Z.of_nat m) = Ok (xwindows m U)) /\
  (forall (xs : list (list Z)) (xi : list Z) (r : Z), Forall (fun xj => combine xi xj <> []) xs ->
     src_apen_count xs xi r = Ok (Z.of_nat (match_count r xs xi))).
Proof.
  split; [exact src_apen_maximum_distance_agrees|].
  split; [exact src_apen_windows_agrees | exact src_apen_count_agrees].
Qed.

(* the numerators of C computed by the source-derived pieces are the model's Cs, hence (C19_counts_are_pincus)
   Pincus' counts: for m >= 1, window i of the source-derived window list, counted by the source-derived count
   against that list, gives Cs[i], and nothing raises *)
Theorem C19_src_counts : forall (m : nat) (r : Z) (U : list Z) (i : nat), 1 <= m -> i < nwin m U ->
  src_apen_windows U (Z.of_nat (length U)) (Z.of_nat m) = Ok (xwindows m U) /\
  src_apen_count (xwindows m U) (nth i (xwindows m U) []) r = Ok (Z.of_nat (nth i (Cs m r U) 0)).
Proof.
  intros m r U i Hm Hi. split; [apply (proj1 (proj2 C19_source_translation_agrees))|].
  assert (Hw : forall k, k < nwin m U -> length (window m U k) = m) by (intros k Hk; now apply window_length).
  assert (Hn : forall k, k < nwin m U -> nth k (xwindows m U) [] = window m U k).
  { intros k Hk. unfold xwindows. rewrite (nth_indep _ [] (window m U 0)) by (rewrite map_length, seq_length; exact Hk).
    rewrite (map_nth (window m U) (seq 0 (nwin m U)) 0 k), seq_nth by exact Hk. reflexivity. }
  rewrite (proj2 (proj2 C19_source_translation_agrees)).
  - f_equal. f_equal. unfold Cs. cbv zeta.
    rewrite (nth_indep _ 0 (match_count r (xwindows m U) [])) by (rewrite map_length; unfold xwindows; rewrite map_length, seq_length; exact Hi).
    now rewrite (map_nth (match_count r (xwindows m U)) (xwindows m U) [] i).
  - apply Forall_forall. intros xj Hj. unfold xwindows in Hj. apply in_map_iff in Hj.
    destruct Hj as (k & <- & Hk). apply in_seq in Hk. rewrite (Hn i Hi).
    pose proof (Hw i Hi) as L1. pose proof (Hw k ltac:(lia)) as L2.
    destruct (window m U i) as [|a la]; [cbn in L1; lia|]. destruct (window m U k) as [|b lb]; [cbn in L2; lia|].
    discriminate.
Qed.
