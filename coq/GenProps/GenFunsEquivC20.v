(* C20 -- HopfieldNet._rule as regenerated from hopfield_net.py (gen/GenFuns.v) against the hand-written
   hopfield_rule of Model/Hopfield.v, for EVERY weight matrix, radius, neighbourhood and cell index: the same
   value or the same exception (the negative row index c - r + j and the row (c + j + 1) % len(n) are resolved
   with NumPy semantics on both sides). *)
From Coq Require Import ZArith List Bool Arith Lia ZifyBool ZifyNat.
From CPL Require Import Model.Base Model.Hopfield gen.GenFuns_C20.
Import ListNotations.
Local Open Scope Z_scope.
Ltac Zify.zify_post_hook ::= Z.div_mod_to_equations.

Lemma src_mat_get_agrees : forall (W : list (list Z)) (a : Z) (c : nat), src_mat_get W a (Z.of_nat c) = mget_py W a c.
Proof.
  intros W a c. unfold src_mat_get, mget_py, py_get.
  destruct (py_index (length W) a) as [k|]; [|reflexivity].
  destruct (nth_error W k) as [row|]; [|reflexivity]. cbn [bind]. unfold py_index.
  destruct ((0 <=? Z.of_nat c) && (Z.of_nat c <? Z.of_nat (length row))) eqn:E.
  - rewrite Nat2Z.id. reflexivity.
  - destruct ((- Z.of_nat (length row) <=? Z.of_nat c) && (Z.of_nat c <? 0)) eqn:E2; [lia|].
    destruct (nth_error row c) eqn:E3; [|reflexivity].
    assert (c < length row)%nat by (apply nth_error_Some; congruence). lia.
Qed.

(* a regenerated accumulation loop over enumerate(vs), whose body reads row (rowidx j) *)
Lemma acc_loop_agrees : forall (W : list (list Z)) (rowidx : nat -> Z) (c : nat)
  (f : Z -> Z * Z -> res (src_ctl Z)) (vs : list Z),
  (vs <> [] -> forall V j x, f V (Z.of_nat j, x) = bind (mget_py W (rowidx j) c) (fun w => Ok (Next (V + w * x)))) ->
  forall k V, src_for f (combine (map Z.of_nat (seq k (length vs))) vs) V = hop_acc W rowidx c k vs V.
Proof.
  intros W rowidx c f vs H. destruct vs as [|x0 vs0]; [reflexivity|].
  assert (Hf := H ltac:(discriminate)). clear H. generalize (x0 :: vs0). clear x0 vs0.
  intros vs. induction vs as [|x vs IH]; intros k V; [reflexivity|].
  cbn [length seq map combine src_for hop_acc]. rewrite Hf.
  destruct (mget_py W (rowidx k) c) as [w|e]; cbn [bind]; [apply IH | reflexivity].
Qed.

Theorem src_hopfield_rule_agrees : forall (W : list (list Z)) (r : nat) (n : list Z) (c : nat),
  src_hopfield_rule W (Z.of_nat r) n (Z.of_nat c) = hopfield_rule W r n c.
Proof.
  intros W r n c. cbv beta zeta delta [src_hopfield_rule hopfield_rule hopfield_V src_enumerate].
  try (replace (Z.to_nat (Z.of_nat (length n) / 2) - Z.to_nat 0)%nat with (length n / 2)%nat by lia).
  try (replace (Z.to_nat (Z.of_nat (length n) / 2)) with (length n / 2)%nat by lia).
  try (change (skipn (Z.to_nat 0) n) with n).
  try (replace (Z.to_nat (Z.of_nat (length n) / 2 + 1)) with (length n / 2 + 1)%nat by lia).
  rewrite (acc_loop_agrees W (fun j => Z.of_nat c - Z.of_nat r + Z.of_nat j) c).
  2: { intros _ V j x. cbv beta iota. rewrite src_mat_get_agrees. destruct (mget_py _ _ _); reflexivity. }
  destruct (hop_acc W _ c 0 (firstn (length n / 2) n) 0) as [V1|e]; cbn [bind]; [|reflexivity].
  rewrite (acc_loop_agrees W (fun j => Z.of_nat ((c + j + 1) mod length n)) c).
  2: { intros Hne V j x. cbv beta iota. unfold src_mod.
       assert (Hn : length n <> 0%nat) by (intros E; apply Hne; destruct n; [destruct (_ + 1)%nat; reflexivity|discriminate]).
       destruct (Z.of_nat (length n) =? 0) eqn:E0; [lia|]. cbn [bind].
       replace ((Z.of_nat c + Z.of_nat j + 1) mod Z.of_nat (length n)) with (Z.of_nat ((c + j + 1) mod length n))
         by lia.
       rewrite src_mat_get_agrees. destruct (mget_py _ _ _); reflexivity. }
  destruct (hop_acc W _ c 0 (skipn (length n / 2 + 1) n) V1) as [V2|e]; cbn [bind]; [|reflexivity].
  unfold hop. repeat match goal with |- context [if ?b then _ else _] => destruct b eqn:? end;
    first [reflexivity | exfalso; lia].
Qed.

(* ------------------------------------------------------------------ HopfieldNet.train
   The source-derived definition is the triple loop with raising element reads and writes; the hand-written
   train_loop (Model/Hopfield.v) is its statement-by-statement model, proved equal to `train` in
   Proofs/HopfieldProofs.v (train_loop_eq). *)
Lemma src_upd_nth_eq : forall {A} (l : list A) k f, src_upd_nth l k f = upd_nth l k f.
Proof. intros A l. induction l as [|x l IH]; intros [|k] f; cbn; try reflexivity; try (now rewrite IH). Qed.

Lemma py_index_nat : forall n k, py_index n (Z.of_nat k) = if (k <? n)%nat then Some k else None.
Proof.
  intros n k. unfold py_index.
  destruct (k <? n)%nat eqn:E.
  - destruct ((0 <=? Z.of_nat k) && (Z.of_nat k <? Z.of_nat n)) eqn:E1; [now rewrite Nat2Z.id | lia].
  - destruct ((0 <=? Z.of_nat k) && (Z.of_nat k <? Z.of_nat n)) eqn:E1; [lia|].
    destruct ((- Z.of_nat n <=? Z.of_nat k) && (Z.of_nat k <? 0)) eqn:E2; [lia | reflexivity].
Qed.

Lemma src_mat_upd_agrees : forall (W : list (list Z)) (i j : nat) (f : Z -> Z),
  src_mat_upd W (Z.of_nat i) (Z.of_nat j) f = mset_py W i j f.
Proof.
  intros W i j f. unfold src_mat_upd, mset_py, mupd. rewrite py_index_nat.
  destruct (i <? length W)%nat eqn:E.
  - destruct (nth_error W i) as [row|] eqn:E1; [|reflexivity]. rewrite py_index_nat.
    destruct (j <? length row)%nat eqn:E2.
    + destruct (nth_error row j) eqn:E3.
      * reflexivity.
      * apply nth_error_None in E3. lia.
    + destruct (nth_error row j) eqn:E3; [|reflexivity].
      assert (j < length row)%nat by (apply nth_error_Some; congruence). lia.
  - destruct (nth_error W i) eqn:E1; [|reflexivity].
    assert (i < length W)%nat by (apply nth_error_Some; congruence). lia.
Qed.

Lemma src_for_for_res : forall {A B} (f : A -> B -> res (src_ctl A)) (g : A -> B -> res A) (l : list B),
  (forall a x, f a x = bind (g a x) (fun a' => Ok (Next a'))) ->
  forall a, src_for f l a = for_res g l a.
Proof.
  intros A B f g l H. induction l as [|x l IH]; intros a; [reflexivity|].
  cbn [src_for for_res]. rewrite H. destruct (g a x) as [a'|e]; cbn [bind]; [apply IH | reflexivity].
Qed.

Lemma src_for_for_res_nat : forall {A} (f : A -> Z -> res (src_ctl A)) (g : A -> nat -> res A) (l : list nat),
  (forall a k, f a (Z.of_nat k) = bind (g a k) (fun a' => Ok (Next a'))) ->
  forall a, src_for f (map Z.of_nat l) a = for_res g l a.
Proof.
  intros A f g l H. induction l as [|x l IH]; intros a; [reflexivity|].
  cbn [map src_for for_res]. rewrite H. destruct (g a x) as [a'|e]; cbn [bind]; [apply IH | reflexivity].
Qed.

Lemma src_range_0 : forall n : nat, src_range 0 (Z.of_nat n) = map Z.of_nat (seq 0 n).
Proof. intros n. unfold src_range. rewrite Z.sub_0_r, Nat2Z.id. apply map_ext. intros k. lia. Qed.

Lemma zeqb_nat20 : forall a b : nat, (Z.of_nat a =? Z.of_nat b) = (a =? b)%nat.
Proof. intros a b. destruct (a =? b)%nat eqn:E; lia. Qed.

Lemma py_get_exc : forall {A} (l : list A) k e, py_get l k = Raise e -> e = IndexError.
Proof.
  intros A l k e. unfold py_get. destruct (py_index (length l) k) as [n|]; [|congruence].
  destruct (nth_error l n); congruence.
Qed.

Lemma upd_nth_ext : forall {A} (l : list A) k (f g : A -> A), (forall x, f x = g x) -> upd_nth l k f = upd_nth l k g.
Proof. intros A l. induction l as [|x l IH]; intros [|k] f g H; cbn; try reflexivity; [now rewrite H | now rewrite (IH k f g H)]. Qed.

Lemma mset_py_ext : forall W i j (f g : Z -> Z), (forall w, f w = g w) -> mset_py W i j f = mset_py W i j g.
Proof.
  intros W i j f g H. unfold mset_py, mupd. destruct (nth_error W i) as [row|]; [|reflexivity].
  destruct (nth_error row j); [|reflexivity]. f_equal. apply upd_nth_ext. intros r. now apply upd_nth_ext.
Qed.

Theorem src_hopfield_train_agrees : forall P : list (list Z), src_hopfield_train P = train_loop P.
Proof.
  intros P. cbv beta zeta delta [src_hopfield_train train_loop].
  destruct (py_get P 0) as [p0|e]; cbn [bind]; [|reflexivity].
  rewrite ?Nat2Z.id. change (repeat (repeat 0 (length p0)) (length p0)) with (zeros (length p0) (length p0)).
  match goal with |- bind (src_for ?f _ _) _ = _ => rewrite (src_for_for_res f train_pattern_m) end.
  { destruct (for_res train_pattern_m P (zeros (length p0) (length p0))); reflexivity. }
  intros W p. unfold train_pattern_m. rewrite src_range_0.
  match goal with |- bind (src_for ?f _ _) _ = _ =>
    rewrite (src_for_for_res_nat f (fun W1 i => for_res (fun W2 j => train_cell_m p W2 i j) (seq 0 (length p)) W1)) end.
  { reflexivity. }
  intros W1 i.
  match goal with |- bind (src_for ?f _ _) _ = _ =>
    rewrite (src_for_for_res_nat f (fun W2 j => train_cell_m p W2 i j)) end.
  { reflexivity. }
  intros W2 j. unfold train_cell_m. rewrite ?zeqb_nat20.
  destruct (i =? j)%nat; cbv beta iota delta [negb];
    repeat match goal with
           | |- context [py_get p ?k] =>
               let H := fresh "H" in destruct (py_get p k) eqn:H; [|apply py_get_exc in H; subst]; cbn [bind]
           end;
    rewrite ?src_mat_upd_agrees; try reflexivity;
    try (match goal with |- bind (mset_py _ _ _ ?f) _ = bind (mset_py _ _ _ ?g) _ =>
           rewrite (mset_py_ext W2 i j f g) by (intros; lia) end);
    match goal with |- context [mset_py ?a ?b ?c ?d] => destruct (mset_py a b c d) end; reflexivity.
Qed.
