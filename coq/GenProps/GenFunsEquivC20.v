(* C20 -- HopfieldNet._rule as regenerated from hopfield_net.py (gen/GenFuns.v) against the hand-written
   hopfield_rule of Model/Hopfield.v, for EVERY weight matrix, radius, neighbourhood and cell index: the same
   value or the same exception (the negative row index c - r + j and the row (c + j + 1) % len(n) are resolved
   with NumPy semantics on both sides). *)
From Coq Require Import ZArith List Bool Arith Lia ZifyBool ZifyNat.
From CPL Require Import Model.Base Model.Hopfield gen.GenFuns_C20.
Import ListNotations.
Local Open Scope Z_scope.
Ltac Zify.zify_post_hook ::= Z.div_mod_to_equations.

Lemma src_mat_get_agrees : forall (W : list (list Z)) (a : Z) (c : nat), src_mat_get W a (Z.of_nat c) = mget_py W a c.
Proof.
  intros W a c. unfold src_mat_get, mget_py, py_get.
  destruct (py_index (length W) a) as [k|]; [|reflexivity].
  destruct (nth_error W k) as [row|]; [|reflexivity]. cbn [bind]. unfold py_index.
  destruct ((0 <=? Z.of_nat c) && (Z.of_nat c <? Z.of_nat (length row))) eqn:E.
  - rewrite Nat2Z.id. reflexivity.
  - destruct ((- Z.of_nat (length row) <=? Z.of_nat c) && (Z.of_nat c <? 0)) eqn:E2; [lia|].
    destruct (nth_error row c) eqn:E3; [|reflexivity].
    assert (c < length row)%nat by (apply nth_error_Some; congruence). lia.
Qed.

(* a regenerated accumulation loop over enumerate(vs), whose body reads row (rowidx j) *)
Lemma acc_loop_agrees : forall (W : list (list Z)) (rowidx : nat -> Z) (c : nat)
  (f : Z -> Z * Z -> res (src_ctl Z)) (vs : list Z),
  (vs <> [] -> forall V j x, f V (Z.of_nat j, x) = bind (mget_py W (rowidx j) c) (fun w => Ok (Next (V + w * x)))) ->
  forall k V, src_for f (combine (map Z.of_nat (seq k (length vs))) vs) V = hop_acc W rowidx c k vs V.
Proof.
  intros W rowidx c f vs H. destruct vs as [|x0 vs0]; [reflexivity|].
  assert (Hf := H ltac:(discriminate)). clear H. generalize (x0 :: vs0). clear x0 vs0.
  intros vs. induction vs as [|x vs IH]; intros k V; [reflexivity|].
  cbn [length seq map combine src_for hop_acc]. rewrite Hf.
  destruct (mget_py W (rowidx k) c) as [w|e]; cbn [bind]; [apply IH | reflexivity].
Qed.

Theorem src_hopfield_rule_agrees : forall (W : list (list Z)) (r : nat) (n : list Z) (c : nat),
  src_hopfield_rule W (Z.of_nat r) n (Z.of_nat c) = hopfield_rule W r n c.
Proof.
  intros W r n c. cbv beta zeta delta [src_hopfield_rule hopfield_rule hopfield_V src_enumerate].
  try (replace (Z.to_nat (Z.of_nat (length n) / 2) - Z.to_nat 0)%nat with (length n / 2)%nat by lia).
  try (replace (Z.to_nat (Z.of_nat (length n) / 2)) with (length n / 2)%nat by lia).
  try (change (skipn (Z.to_nat 0) n) with n).
  try (replace (Z.to_nat (Z.of_nat (length n) / 2 + 1)) with (length n / 2 + 1)%nat by lia).
  rewrite (acc_loop_agrees W (fun j => Z.of_nat c - Z.of_nat r + Z.of_nat j) c).
  2: { intros _ V j x. cbv beta iota. rewrite src_mat_get_agrees. destruct (mget_py _ _ _); reflexivity. }
  destruct (hop_acc W _ c 0 (firstn (length n / 2) n) 0) as [V1|e]; cbn [bind]; [|reflexivity].
  rewrite (acc_loop_agrees W (fun j => Z.of_nat ((c + j + 1) mod length n)) c).
  2: { intros Hne V j x. cbv beta iota. unfold src_mod.
       assert (Hn : length n <> 0%nat) by (intros E; apply Hne; destruct n; [destruct (_ + 1)%nat; reflexivity|discriminate]).
       destruct (Z.of_nat (length n) =? 0) eqn:E0; [lia|]. cbn [bind].
       replace ((Z.of_nat c + Z.of_nat j + 1) mod Z.of_nat (length n)) with (Z.of_nat ((c + j + 1) mod length n))
         by lia.
       rewrite src_mat_get_agrees. destruct (mget_py _ _ _); reflexivity. }
  destruct (hop_acc W _ c 0 (skipn (length n / 2 + 1) n) V1) as [V2|e]; cbn [bind]; [|reflexivity].
  unfold hop. repeat match goal with |- context [if ?b then _ else _] => destruct b eqn:? end;
    first [reflexivity | exfalso; lia].
Qed.
