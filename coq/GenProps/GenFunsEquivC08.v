(* C08 -- totalistic_rule and TotalisticRule.__call__ as regenerated from ca_functions.py (gen/GenFuns_C08.v)
   against the hand-written totalistic_ns / totalistic_rule of Model/Totalistic.v (signed arithmetic: the case
   unsigned = false; the uint64 wrap-around of unsigned arrays is the model's other case and stays with the
   correspondence).  The array is seen through .size and np.sum; np.base_repr / zfill / int(ch, k) are the model's. *)
From Coq Require Import ZArith NArith List Bool Lia ZifyBool.
From CPL Require Import Model.Base Model.Totalistic gen.GenFuns_C08.
Import ListNotations.
Local Open Scope Z_scope.

Lemma bind_ok_id8 : forall {A} (m : res A), bind m (fun r => Ok r) = m.
Proof. intros A [a|e]; reflexivity. Qed.

Theorem src_totalistic_rule_agrees : forall (n : nat) (s : Z) (k rule : N),
  src_totalistic_rule (Z.of_nat n) s k rule = totalistic_ns false n s k rule.
Proof.
  intros n s k rule. cbv beta zeta delta [src_totalistic_rule totalistic_ns].
  destruct (base_repr rule k) as [str|e]; cbn [bind andb]; [|reflexivity].
  set (top := Z.of_nat n * (Z.of_N k - 1)). set (rs := zfill (top + 1) str). clearbody rs.
  repeat match goal with |- context [if ?c then _ else _] => destruct c eqn:? end;
    try reflexivity; try (exfalso; lia).
  match goal with |- bind (py_get ?l ?i) _ = bind (py_get ?l ?j) _ => replace i with j by lia end.
  destruct (py_get rs (top - s)) as [ch|e]; cbn [bind]; [|reflexivity]. apply bind_ok_id8.
Qed.

Theorem src_totalistic_rule_call_agrees : forall (k rule : N) (cells : list Z) (c : Z) (t : nat),
  src_totalistic_rule_call k rule (Z.of_nat (length cells)) (zsum cells) = TotalisticRule_call k rule false cells c t.
Proof.
  intros k rule cells c t. cbv beta zeta delta [src_totalistic_rule_call TotalisticRule_call totalistic_rule].
  rewrite ?bind_ok_id8. apply src_totalistic_rule_agrees.
Qed.

(* the masked form (np.sum skips the masked entries, .size does not) *)
Theorem src_totalistic_rule_call_agrees_masked : forall (k rule : N) (cells : list Z) (mask : list bool) (c : Z) (t : nat),
  src_totalistic_rule_call k rule (Z.of_nat (length cells)) (zsum (unmasked cells mask))
  = TotalisticRule_call_masked k rule false cells mask c t.
Proof.
  intros k rule cells mask c t.
  cbv beta zeta delta [src_totalistic_rule_call TotalisticRule_call_masked totalistic_rule_masked].
  rewrite ?bind_ok_id8. apply src_totalistic_rule_agrees.
Qed.
