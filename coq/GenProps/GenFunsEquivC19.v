(* C19 -- the exact layer of apen() as regenerated from apen.py (gen/GenFuns_C19.v): the closure
   maximum_distance, the window list x of phi(m), and the match count of one window, against max_dist, xwindows and
   match_count of Model/Apen.v.  The source-derived definitions index U with Python semantics and call max() on a
   list (ValueError when empty): the theorems show they do not raise on the inputs phi builds. *)
From Coq Require Import ZArith List Bool Arith Lia ZifyBool ZifyNat.
From CPL Require Import Model.Base gen.GenFuns_C19.
From CPL Require Model.Apen.
Import ListNotations.
Local Open Scope Z_scope.

Notation max_dist := Apen.max_dist.
Notation xwindows := Apen.xwindows.
Notation match_count := Apen.match_count.

(* ---- max over a non-empty list whose first element is >= 0 *)
Lemma fold_right_max_push : forall l a x, fold_right Z.max (Z.max a x) l = Z.max x (fold_right Z.max a l).
Proof. induction l as [|y l IH]; intros a x; cbn; [lia|]. rewrite IH. lia. Qed.
Lemma fold_left_right_max : forall l a, fold_left Z.max l a = fold_right Z.max a l.
Proof. induction l as [|x l IH]; intros a; cbn; [reflexivity|]. rewrite IH. apply fold_right_max_push. Qed.
Lemma fold_right_max_0 : forall l a, 0 <= a -> fold_right Z.max a l = Z.max a (fold_right Z.max 0 l).
Proof. induction l as [|x l IH]; intros a H; cbn; [lia|]. rewrite (IH a H). lia. Qed.

Lemma bind_ok_id19 : forall {A} (m : res A), bind m (fun r => Ok r) = m.
Proof. intros A [a|e]; reflexivity. Qed.

Theorem src_apen_maximum_distance_agrees : forall x y : list Z,
  src_apen_maximum_distance x y = match combine x y with [] => Raise ValueError | _ => Ok (max_dist x y) end.
Proof.
  intros x y. cbv beta zeta delta [src_apen_maximum_distance Apen.max_dist]. rewrite ?bind_ok_id19.
  match goal with |- context [map ?f (combine x y)] =>
    rewrite (map_ext f (fun p => Z.abs (fst p - snd p))) by (intros [u v]; cbn [fst snd]; lia) end.
  destruct (combine x y) as [|[a b] l]; [reflexivity|].
  cbn [map src_max_list fold_right fst snd]. f_equal.
  rewrite fold_left_right_max, fold_right_max_0 by lia. reflexivity.
Qed.

(* ---- comprehensions that cannot raise on their inputs *)
Lemma src_mapm_ok : forall {A B} (f : A -> res B) (g : A -> B) (l : list A),
  (forall x, In x l -> f x = Ok (g x)) -> src_mapm f l = Ok (map g l).
Proof.
  intros A B f g l. induction l as [|x l IH]; intros H; [reflexivity|].
  cbn [src_mapm map]. rewrite (H x (or_introl eq_refl)). cbn [bind].
  rewrite IH by (intros y Hy; apply H; now right). reflexivity.
Qed.
Lemma src_filterm_ok : forall {A} (f : A -> res bool) (g : A -> bool) (l : list A),
  (forall x, In x l -> f x = Ok (g x)) -> src_filterm f l = Ok (filter g l).
Proof.
  intros A f g l. induction l as [|x l IH]; intros H; [reflexivity|].
  cbn [src_filterm filter]. rewrite (H x (or_introl eq_refl)). cbn [bind].
  rewrite IH by (intros y Hy; apply H; now right). reflexivity.
Qed.

Lemma range_shift : forall (k m a : nat),
  map (fun t => Z.of_nat k + Z.of_nat t) (seq a m) = map Z.of_nat (seq (k + a) m).
Proof.
  intros k m. induction m as [|m IH]; intros a; [reflexivity|].
  cbn [seq map]. f_equal; [lia|]. rewrite IH. now rewrite Nat.add_succ_r.
Qed.
Lemma src_range_nat : forall k m : nat, src_range (Z.of_nat k) (Z.of_nat (k + m)) = map Z.of_nat (seq k m).
Proof.
  intros k m. unfold src_range. replace (Z.to_nat (Z.of_nat (k + m) - Z.of_nat k)) with m by lia.
  rewrite range_shift. now rewrite Nat.add_0_r.
Qed.

Lemma py_get_nat19 : forall (U : list Z) k, (k < length U)%nat -> py_get U (Z.of_nat k) = Ok (nth k U 0).
Proof.
  intros U k H. unfold py_get, py_index.
  destruct ((0 <=? Z.of_nat k) && (Z.of_nat k <? Z.of_nat (length U))) eqn:E; [|lia].
  rewrite Nat2Z.id. rewrite (nth_error_nth' U 0 H). reflexivity.
Qed.

Lemma skipn_cons_nth : forall (U : list Z) k, (k < length U)%nat -> skipn k U = nth k U 0 :: skipn (S k) U.
Proof.
  intros U. induction U as [|u U IH]; intros k H; [cbn in H; lia|].
  destruct k as [|k]; [reflexivity|]. cbn [skipn nth]. apply IH. cbn in H. lia.
Qed.

Lemma window_reads : forall (U : list Z) m k, (k + m <= length U)%nat ->
  map (fun j => nth j U 0) (seq k m) = firstn m (skipn k U).
Proof.
  intros U m. induction m as [|m IH]; intros k H; [reflexivity|].
  cbn [seq map]. rewrite (skipn_cons_nth U k) by lia. cbn [firstn]. f_equal. apply IH. lia.
Qed.

Theorem src_apen_windows_agrees : forall (U : list Z) (m : nat),
  src_apen_windows U (Z.of_nat (length U)) (Z.of_nat m) = Ok (xwindows m U).
Proof.
  intros U m. cbv beta zeta delta [src_apen_windows Apen.xwindows Apen.nwin Apen.window]. rewrite ?bind_ok_id19.
  match goal with |- context [src_range 0 ?b] =>
    assert (Hr : src_range 0 b = map Z.of_nat (seq 0 (length U + 1 - m)));
    [unfold src_range; replace (Z.to_nat (b - 0)) with (length U + 1 - m)%nat by lia;
     apply map_ext; intros t; lia | rewrite Hr; clear Hr] end.
  set (F := fun i : Z => _).
  rewrite (src_mapm_ok F (fun i => firstn m (skipn (Z.to_nat i) U))).
  - f_equal. rewrite map_map. apply map_ext. intros k. now rewrite Nat2Z.id.
  - intros i Hi. apply in_map_iff in Hi. destruct Hi as (k & <- & Hk). apply in_seq in Hk.
    unfold F. rewrite ?bind_ok_id19.
    match goal with |- context [src_range (Z.of_nat k) ?b] => replace b with (Z.of_nat (k + m)) by lia end.
    rewrite src_range_nat.
    rewrite (src_mapm_ok _ (fun j => nth (Z.to_nat j) U 0)).
    + rewrite map_map, Nat2Z.id. f_equal.
      rewrite <- (window_reads U m k) by lia. apply map_ext. intros j. now rewrite Nat2Z.id.
    + intros j Hj. apply in_map_iff in Hj. destruct Hj as (t & <- & Ht). apply in_seq in Ht.
      rewrite ?bind_ok_id19, Nat2Z.id. apply py_get_nat19. lia.
Qed.

Theorem src_apen_count_agrees : forall (xs : list (list Z)) (xi : list Z) (r : Z),
  Forall (fun xj => combine xi xj <> []) xs ->
  src_apen_count xs xi r = Ok (Z.of_nat (match_count r xs xi)).
Proof.
  intros xs xi r H. cbv beta zeta delta [src_apen_count Apen.match_count].
  rewrite (src_filterm_ok _ (fun xj => max_dist xi xj <=? r)).
  - cbn [bind]. now rewrite ?map_length.
  - intros xj Hj. rewrite src_apen_maximum_distance_agrees.
    rewrite Forall_forall in H. specialize (H xj Hj). destruct (combine xi xj); [congruence|].
    cbn [bind]. first [reflexivity | f_equal; lia].
Qed.
