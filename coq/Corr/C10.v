(* Correspondence for C10: the model of evolve_block / evolve2d_block against what /repo returned
   on the same inputs: the returned array and the (block contents, t) argument log of the rule. *)
From CPL Require Import Model.Base Model.Engine Model.Block.

(* observation of a successful run: returned history, argument log of the block rule *)
Definition obs1 := (list (list Z) * list (list Z * nat))%type.
Definition obs2 := (list grid2 * list (grid2 * nat))%type.

Inductive case :=
| CBlock1 (hist : list (list Z)) (b T : nat) (rule : brule_spec) (obs : res obs1)
| CBlock2 (hist : list grid2) (b1 b2 T : nat) (rule : brule2_spec) (obs : res obs2).

Definition model1 (hist : list (list Z)) (b T : nat) (rule : brule_spec) : res obs1 :=
  match evolve_block (logged_b (spec_brule rule)) id_store b (0, []) hist T with
  | Ok ((_, lg), rows) => Ok (rows, lg)
  | Raise e => Raise e
  end.

Definition model2 (hist : list grid2) (b1 b2 T : nat) (rule : brule2_spec) : res obs2 :=
  match evolve2d_block (logged_b2 (spec_brule2 rule)) id_store b1 b2 (0, []) hist T with
  | Ok ((_, lg), gs) => Ok (gs, lg)
  | Raise e => Raise e
  end.

(* printable, uniform: 1D rows and blocks are shown as one-row grids *)
Definition lift1 (o : obs1) : obs2 :=
  (map (fun r => [r]) (fst o), map (fun c : list Z * nat => ([fst c], snd c)) (snd o)).

Definition model_out (c : case) : res obs2 :=
  match c with
  | CBlock1 hist b T rule _ => bind (model1 hist b T rule) (fun o => Ok (lift1 o))
  | CBlock2 hist b1 b2 T rule _ => model2 hist b1 b2 T rule
  end.

Definition observed (c : case) : res obs2 :=
  match c with
  | CBlock1 _ _ _ _ o => bind o (fun o => Ok (lift1 o))
  | CBlock2 _ _ _ _ _ o => o
  end.

Definition call2_eqb (a b : grid2 * nat) : bool := zgrid_eqb (fst a) (fst b) && (snd a =? snd b).
Definition obs2_eqb (a b : obs2) : bool :=
  zhist_eqb (fst a) (fst b) && list_eqb call2_eqb (snd a) (snd b).

(* C10 says "rejected" without naming a class: any exception on both sides agrees *)
Definition check_case (c : case) : bool := res_eqb_anyexc obs2_eqb (model_out c) (observed c).
