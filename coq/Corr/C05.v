(* Correspondence for C05: evolve / evolve2d / evolve_block / evolve2d_block extend the given history.
   One call (the CExt and CBlk cases): the returned array is compared in full with the model (given rows first,
   then the T-1 new ones), the caller's array after the call must equal the pre-call copy, the dtype
   must be the input's and the result must be a fresh array.
   Two successive calls (the Split cases): evolve(evolve(h, T1), T2) with the rule object handed on, and
   evolve(h, T1+T2-1) with a fresh rule object; each is compared with the model of the same calls.
   Memoised runs are made with pure rules and compared with the plain-engine model. *)
From CPL Require Import Model.Base Model.Rules Model.Engine Model.Evolve1D Model.Evolve2D Model.Block.

Inductive case :=
| CExt1 (sp : rule_spec) (r : nat) (hist : list (list Z)) (T : nat)
        (after : list (list Z)) (dtype_ok fresh : bool) (obs : res (list (list Z)))
| CExt2 (sp : rule_spec) (r : nat) (ty : nbhd_type) (hist : list grid) (T : nat)
        (after : list grid) (dtype_ok fresh : bool) (obs : res (list grid))
| CBlk1 (sp : brule_spec) (b : nat) (hist : list (list Z)) (T : nat)
        (after : list (list Z)) (dtype_ok fresh : bool) (obs : res (list (list Z)))
| CBlk2 (sp : brule2_spec) (b1 b2 : nat) (hist : list grid2) (T : nat)
        (after : list grid2) (dtype_ok fresh : bool) (obs : res (list grid2))
| CSplit1 (sp : rule_spec) (r : nat) (hist : list (list Z)) (T1 T2 : nat)
          (obs_split obs_whole : res (list (list Z)))
| CSplit2 (sp : rule_spec) (r : nat) (ty : nbhd_type) (hist : list grid) (T1 T2 : nat)
          (obs_split obs_whole : res (list grid))
| CBlkSplit1 (sp : brule_spec) (b : nat) (hist : list (list Z)) (T1 T2 : nat)
             (obs_split obs_whole : res (list (list Z)))
| CBlkSplit2 (sp : brule2_spec) (b1 b2 : nat) (hist : list grid2) (T1 T2 : nat)
             (obs_split obs_whole : res (list grid2))
(* checked on the implementation only (rule objects of the library that have no model here, e.g. a
   ReversibleRule built from a view of the caller's array): nothing is compared in Coq *)
| CSkip5.

Definition drop_state {S A} (x : res (S * A)) : res A := bind x (fun p => Ok (snd p)).

Definition m_ext1 sp r hist T := evolve_plain (spec_rule1 sp) store_id r 0 hist T.
Definition m_ext2 sp r ty hist T := evolve2d_plain (spec_rule2 sp) store_id r ty 0 hist T.
Definition m_blk1 sp b hist T := evolve_block (spec_brule sp) id_store b 0 hist T.
Definition m_blk2 sp b1 b2 hist T := evolve2d_block (spec_brule2 sp) id_store b1 b2 0 hist T.

(* two successive calls, the rule's state handed on *)
Definition m_split1 sp r hist T1 T2 :=
  bind (m_ext1 sp r hist T1) (fun p => evolve_plain (spec_rule1 sp) store_id r (fst p) (snd p) T2).
Definition m_split2 sp r ty hist T1 T2 :=
  bind (m_ext2 sp r ty hist T1) (fun p => evolve2d_plain (spec_rule2 sp) store_id r ty (fst p) (snd p) T2).
Definition m_bsplit1 sp b hist T1 T2 :=
  bind (m_blk1 sp b hist T1) (fun p => evolve_block (spec_brule sp) id_store b (fst p) (snd p) T2).
Definition m_bsplit2 sp b1 b2 hist T1 T2 :=
  bind (m_blk2 sp b1 b2 hist T1) (fun p => evolve2d_block (spec_brule2 sp) id_store b1 b2 (fst p) (snd p) T2).

Definition rows_as_grids (x : res (list (list Z))) : res (list grid) := bind x (fun l => Ok (map (fun row => [row]) l)).

(* printable: what the model returns for the (last) call, and for split cases also the unsplit run *)
Definition model_out (c : case) : res (list grid) * res (list grid) :=
  match c with
  | CExt1 sp r hist T _ _ _ _ => (rows_as_grids (drop_state (m_ext1 sp r hist T)), Ok [])
  | CExt2 sp r ty hist T _ _ _ _ => (drop_state (m_ext2 sp r ty hist T), Ok [])
  | CBlk1 sp b hist T _ _ _ _ => (rows_as_grids (drop_state (m_blk1 sp b hist T)), Ok [])
  | CBlk2 sp b1 b2 hist T _ _ _ _ => (drop_state (m_blk2 sp b1 b2 hist T), Ok [])
  | CSplit1 sp r hist T1 T2 _ _ =>
      (rows_as_grids (drop_state (m_split1 sp r hist T1 T2)), rows_as_grids (drop_state (m_ext1 sp r hist (T1 + T2 - 1))))
  | CSplit2 sp r ty hist T1 T2 _ _ =>
      (drop_state (m_split2 sp r ty hist T1 T2), drop_state (m_ext2 sp r ty hist (T1 + T2 - 1)))
  | CBlkSplit1 sp b hist T1 T2 _ _ =>
      (rows_as_grids (drop_state (m_bsplit1 sp b hist T1 T2)), rows_as_grids (drop_state (m_blk1 sp b hist (T1 + T2 - 1))))
  | CBlkSplit2 sp b1 b2 hist T1 T2 _ _ =>
      (drop_state (m_bsplit2 sp b1 b2 hist T1 T2), drop_state (m_blk2 sp b1 b2 hist (T1 + T2 - 1)))
  | CSkip5 => (Ok [], Ok [])
  end.

Definition hist1_eqb := list_eqb zlist_eqb.
Definition hist2_eqb := list_eqb zgrid_eqb.

(* exceptions: the property does not name a class; the generators produce accepted inputs only, so an
   exception on either side alone is a disagreement, on both sides an agreement *)
Definition check_case (c : case) : bool :=
  match c with
  | CExt1 sp r hist T after dt fresh obs =>
      res_eqb_anyexc hist1_eqb (drop_state (m_ext1 sp r hist T)) obs && hist1_eqb hist after && dt && fresh
  | CExt2 sp r ty hist T after dt fresh obs =>
      res_eqb_anyexc hist2_eqb (drop_state (m_ext2 sp r ty hist T)) obs && hist2_eqb hist after && dt && fresh
  | CBlk1 sp b hist T after dt fresh obs =>
      res_eqb_anyexc hist1_eqb (drop_state (m_blk1 sp b hist T)) obs && hist1_eqb hist after && dt && fresh
  | CBlk2 sp b1 b2 hist T after dt fresh obs =>
      res_eqb_anyexc hist2_eqb (drop_state (m_blk2 sp b1 b2 hist T)) obs && hist2_eqb hist after && dt && fresh
  | CSplit1 sp r hist T1 T2 os ow =>
      res_eqb_anyexc hist1_eqb (drop_state (m_split1 sp r hist T1 T2)) os
      && res_eqb_anyexc hist1_eqb (drop_state (m_ext1 sp r hist (T1 + T2 - 1))) ow
  | CSplit2 sp r ty hist T1 T2 os ow =>
      res_eqb_anyexc hist2_eqb (drop_state (m_split2 sp r ty hist T1 T2)) os
      && res_eqb_anyexc hist2_eqb (drop_state (m_ext2 sp r ty hist (T1 + T2 - 1))) ow
  | CBlkSplit1 sp b hist T1 T2 os ow =>
      res_eqb_anyexc hist1_eqb (drop_state (m_bsplit1 sp b hist T1 T2)) os
      && res_eqb_anyexc hist1_eqb (drop_state (m_blk1 sp b hist (T1 + T2 - 1))) ow
  | CBlkSplit2 sp b1 b2 hist T1 T2 os ow =>
      res_eqb_anyexc hist2_eqb (drop_state (m_bsplit2 sp b1 b2 hist T1 T2)) os
      && res_eqb_anyexc hist2_eqb (drop_state (m_blk2 sp b1 b2 hist (T1 + T2 - 1))) ow
  | CSkip5 => true
  end.
