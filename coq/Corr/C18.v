(* Correspondence for C18: compare the model with what /repo returned on the same inputs.
   Binary strings are lists of booleans ('1' = true).  A returned string is transported as the list of
   its digits (Z), a returned double exactly as (m, e) with value m * 2^e (from float.hex()). *)
From CPL Require Import Model.Base Model.BienExact Model.Bien Model.BienLong.

Inductive fn := FBien | FTbien | FKtbien.

Inductive case :=
| CDeriv (s : list bool) (obs_plain obs_cyclic : res (list Z))   (* binary_derivative, cyclic_binary_derivative *)
| CValue (f : fn) (s : list bool) (obs : res (Z * Z)).           (* bien / tbien / ktbien *)

Inductive mout :=
| MStrings (plain cyclic : list Z)
| MEnclosure (guard_ok : bool) (enc : I.type).     (* verified enclosure of the model's real value *)

Definition digits (s : list bool) : list Z := map b2z s.

(* up to 301 digits: the twin of Model/Bien.v (80 bits, fixed logarithm table 1..301);
   longer strings: the twin of Model/BienLong.v (64 bits, a table ln 1 .. ln (n+1) built for the string) *)
Definition enclosure (f : fn) (s : list bool) : I.type :=
  if (length s <=? 301)%nat then
    match f with FBien => bienI s | FTbien => tbienI s | FKtbien => ktbienI s end
  else
    match f with FBien => bienIL prec_long s | FTbien => tbienIL prec_long s | FKtbien => ktbienIL prec_long s end.

Definition model_out (c : case) : mout :=
  match c with
  | CDeriv s _ _ => MStrings (digits (binary_derivative s)) (digits (cyclic_binary_derivative s))
  | CValue f s _ => MEnclosure (2 <=? length s)%nat (enclosure f s)
  end.

(* derivatives: exact agreement.  values: the guard n >= 2 holds, the call returned a double, and the
   double is within 2^-30 of every point of the enclosure (Proofs.BienProofs.within_ok) *)
Definition check_case (c : case) : bool :=
  match c with
  | CDeriv s op oc =>
      res_eqb zlist_eqb (Ok (digits (binary_derivative s))) op &&
      res_eqb zlist_eqb (Ok (digits (cyclic_binary_derivative s))) oc
  | CValue f s obs =>
      match obs with
      | Ok (m, e) => (2 <=? length s)%nat && within (enclosure f s) m e
      | Raise _ => false
      end
  end.
