(* Correspondence for C06: the callable-timesteps loop of evolve / evolve2d.
   The real library is run with a logging predicate; the model (plain engine under the generic
   evolve_dynamic, fuel 64) is evaluated on the same inputs and compared on exactly the two
   observables the property names: the returned array and the (ca, t) arguments of every
   consultation of the predicate.  Memoised runs with pure rules are compared against the same
   plain-engine model (the memo engines' transparency is C03/C04). *)
From CPL Require Import Model.Base Model.Rules Model.Engine Model.Evolve1D Model.Evolve2D.

(* stopping predicates that exist on both sides; one state type (the consultation counter) for all *)
Inductive pred_spec := PLt (k : nat) | PScript (bs : list bool) | PUfp.

Definition spec_pred {C} (eqb : C -> C -> bool) (pd : pred_spec) : nat -> list C -> nat -> nat * bool :=
  match pd with
  | PLt k => fun i s t => (S i, snd (pred_lt k tt s t))
  | PScript bs => pred_script bs
  | PUfp => fun i s t => (S i, snd (until_fixed_point eqb tt s t))
  end.

(* rule families of this check: those of Model/Rules.v, and one more pure family that creeps to a
   ceiling - every cell becomes min(max(neighbourhood, 0) + 1, cap) - used for the float automata whose
   states are base + j * 2^-40 (the model works on the integers j; the rescaling is injective) *)
(* RAffC a b: a * (centre cell) + b - with a store that divides by a scale, the rule "centre + b/scale" *)
Inductive rspec := RS (sp : rule_spec) | RCap (cap : Z) | RAffC (a b : Z).
Definition centre1 (n : list Z) : Z := nth (length n / 2) n 0%Z.
Definition centre2 (n : nbhd2) : Z := nth (length (nb_vals n) / 2) (nth (length (nb_vals n) / 2) (nb_vals n) []) 0%Z.
Definition capinc (cap : Z) (vals : list Z) : Z := Z.min (fold_right Z.max 0%Z vals + 1)%Z cap.
Definition rspec_rule1 (rs : rspec) : rule1 nat :=
  match rs with RS sp => spec_rule1 sp | RCap cap => fun i n c t => (S i, capinc cap n)
  | RAffC a b => fun i n c t => (S i, (a * centre1 n + b)%Z) end.
Definition rspec_rule2 (rs : rspec) : rule2 nat :=
  match rs with RS sp => spec_rule2 sp | RCap cap => fun i n c t => (S i, capinc cap (unmasked n))
  | RAffC a b => fun i n c t => (S i, (a * centre2 n + b)%Z) end.

(* dtype casts of the cases in which the rule's result is not a value of the dtype: a float result
   (numerator over `scale`) stored into an integer automaton truncates toward zero; any result stored
   into a bool automaton becomes "is non-zero" *)
Inductive store_spec := StId | StQuot (scale : Z) | StBool.
Definition store_of (st : store_spec) : Z -> Z :=
  match st with StId => store_id | StQuot s => fun z => Z.quot z s | StBool => fun z => if (z =? 0)%Z then 0%Z else 1%Z end.

Definition plog1 := list (list (list Z) * nat).
Definition plog2 := list (list grid * nat).

Inductive case :=
| C1 (sp : rspec) (r : nat) (hist : list (list Z)) (pd : pred_spec)
     (obs : res (list (list Z) * plog1))
| C2 (sp : rspec) (r : nat) (ty : nbhd_type) (hist : list grid) (pd : pred_spec)
     (obs : res (list grid * plog2))
(* cases of the open finding cast-path: nothing is compared here (the model has one dtype cast `store`,
   the code has a different NumPy cast on the fixed and on the callable path for out-of-range results) *)
| CSkip
(* cpl.until_fixed_point() handed over directly (no logging wrapper): only the array is observable *)
| C1D (sp : rspec) (st : store_spec) (r : nat) (hist : list (list Z)) (obs : res (list (list Z)))
| C2D (sp : rspec) (st : store_spec) (r : nat) (ty : nbhd_type) (hist : list grid) (obs : res (list grid)).

Definition fuel := 64.

Definition model1 (sp : rspec) (r : nat) (hist : list (list Z)) (pd : pred_spec) : option (list (list Z) * plog1) :=
  match evolve_plain_dynamic (rspec_rule1 sp) store_id (spec_pred zlist_eqb pd) r fuel 0 0 hist with
  | Some (_, _, out, plog) => Some (out, plog)
  | None => None
  end.

Definition model2 (sp : rspec) (r : nat) (ty : nbhd_type) (hist : list grid) (pd : pred_spec) : option (list grid * plog2) :=
  match evolve2d_plain_dynamic (rspec_rule2 sp) store_id (spec_pred zgrid_eqb pd) r ty fuel 0 0 hist with
  | Some (_, _, out, plog) => Some (out, plog)
  | None => None
  end.

Definition model1d sp st r hist : option (list (list Z)) :=
  match evolve_plain_dynamic (rspec_rule1 sp) (store_of st) (spec_pred zlist_eqb PUfp) r fuel 0 0 hist with
  | Some (_, _, out, _) => Some out
  | None => None
  end.
Definition model2d sp st r ty hist : option (list grid) :=
  match evolve2d_plain_dynamic (rspec_rule2 sp) (store_of st) (spec_pred zgrid_eqb PUfp) r ty fuel 0 0 hist with
  | Some (_, _, out, _) => Some out
  | None => None
  end.

(* printable model output; 1D rows are shown as one-row grids *)
Definition model_out (c : case) : option (list grid * plog2) :=
  match c with
  | C1 sp r hist pd _ =>
      match model1 sp r hist pd with
      | Some (out, plog) => Some (map (fun row => [row]) out,
                                  map (fun e : list (list Z) * nat => (map (fun row => [row]) (fst e), snd e)) plog)
      | None => None
      end
  | C2 sp r ty hist pd _ => model2 sp r ty hist pd
  | CSkip => None
  | C1D sp st r hist _ => match model1d sp st r hist with Some out => Some (map (fun row => [row]) out, []) | None => None end
  | C2D sp st r ty hist _ => match model2d sp st r ty hist with Some out => Some (out, []) | None => None end
  end.

Definition plog_eqb {A} (eq : A -> A -> bool) (a b : list (list A * nat)) : bool :=
  list_eqb (fun x y => list_eqb eq (fst x) (fst y) && Nat.eqb (snd x) (snd y)) a b.

(* the model never raises on the inputs generated (non-empty history); an exception observed on
   /repo, or a model run out of fuel, is a disagreement *)
Definition check_case (c : case) : bool :=
  match c with
  | C1 sp r hist pd (Ok (out, plog)) =>
      match model1 sp r hist pd with
      | Some (mout, mplog) => list_eqb zlist_eqb mout out && plog_eqb zlist_eqb mplog plog
      | None => false
      end
  | C2 sp r ty hist pd (Ok (out, plog)) =>
      match model2 sp r ty hist pd with
      | Some (mout, mplog) => list_eqb zgrid_eqb mout out && plog_eqb zgrid_eqb mplog plog
      | None => false
      end
  | CSkip => true
  | C1D sp st r hist (Ok out) =>
      match model1d sp st r hist with Some mout => list_eqb zlist_eqb mout out | None => false end
  | C2D sp st r ty hist (Ok out) =>
      match model2d sp st r ty hist with Some mout => list_eqb zgrid_eqb mout out | None => false end
  | _ => false
  end.
