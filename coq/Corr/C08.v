(* Correspondence for C08: compare the model with what /repo returned on the same inputs. *)
From CPL Require Import Model.Base Model.Rules Model.Engine Model.Evolve1D Model.Evolve2D Model.Totalistic.

(* one neighbourhood: unsigned = the dtype is an unsigned integer type (np.sum gives uint64; every signed type
   and bool give int64), cells = the array flattened row-major, mask = None for a plain ndarray / Some m for
   np.ma.masked_array(cells, m), vn = Some r when the mask was built like evolve2d builds the von Neumann mask
   of radius r (the model's von_neumann_mask r must equal the mask given); c, t = the other two arguments of a
   class call (ignored by the model, as by the code) *)
Inductive item :=
  Item (unsigned : bool) (cells : list Z) (mask : option (list bool)) (vn : option nat) (c : Z) (t : nat).

Inductive case :=
(* one call: cls = through a fresh TotalisticRule(k, rule)(n, c, t) instead of totalistic_rule(n, k, rule) *)
| CTot (cls : bool) (k rule : N) (it : item) (obs : res Z)
(* ONE TotalisticRule(k, rule) object called on the items in order; obs = what each call returned *)
| CSeq (k rule : N) (items : list item) (obs : list (res Z))
(* cpl.evolve(init, timesteps=T, apply_rule=TotalisticRule(k, rule), r=r): obs = the whole history *)
| CEvolve1 (k rule : N) (r : nat) (init : list Z) (T : nat) (obs : res (list (list Z)))
(* cpl.evolve2d(init, timesteps=T, apply_rule=TotalisticRule(k, rule), r=r, neighbourhood=...) *)
| CEvolve2 (k rule : N) (r : nat) (vonneumann : bool) (init : list (list Z)) (T : nat)
           (obs : res (list (list (list Z)))).

Definition item_nb (it : item) : nbhd :=
  match it with
  | Item u cells None _ _ _ => Plain u cells
  | Item u cells (Some m) _ _ _ => Masked u cells m
  end.
Definition item_mask_ok (it : item) : bool :=
  match it with
  | Item _ _ (Some m) (Some r) _ _ => list_eqb Bool.eqb m (von_neumann_mask r)
  | _ => true
  end.
Definition item_in_domain (k : N) (it : item) : bool :=
  match it with Item _ cells _ _ _ _ => forallb (fun x => (0 <=? x)%Z && (x <=? Z.of_N k - 1)%Z) cells end.
Definition item_ct (it : item) : Z * nat := match it with Item _ _ _ _ c t => (c, t) end.

Definition to_z (r : res N) : res Z := bind r (fun d => Ok (Z.of_N d)).

Definition seq_calls (items : list item) : list (nbhd * Z * nat) :=
  map (fun it => (item_nb it, fst (item_ct it), snd (item_ct it))) items.
Definition seq_model (k rule : N) (items : list item) : list (res Z) :=
  map to_z (TotalisticRule_seq k rule (seq_calls items)).

(* the class as a rule of the engine models (Model/Rules.v): the engines' rules return values, so a raise
   (impossible for contents in 0..k-1 and a rule number in range) is mapped to -1, which no run can contain *)
Definition val_or_m1 (r : res N) : Z := match r with Ok d => Z.of_N d | Raise _ => (-1)%Z end.
Definition tot_rule1 (k rule : N) : rule1 unit :=
  fun s n c t => (s, val_or_m1 (TotalisticRule_call k rule false n (Z.of_nat c) t)).
Definition tot_rule2 (k rule : N) : rule2 unit :=
  fun s n c t => (s, val_or_m1 (TotalisticRule_call_masked k rule false (concat (nb_vals n)) (concat (nb_mask n))
                                                              (Z.of_nat (fst c)) t)).

Definition flat1 (r : res (unit * list (list Z))) : list (res Z) :=
  match r with Ok (_, h) => map Ok (concat h) | Raise e => [Raise e] end.
Definition flat2 (r : res (unit * list (list (list Z)))) : list (res Z) :=
  match r with Ok (_, h) => map Ok (concat (concat h)) | Raise e => [Raise e] end.

(* what the model computes, call by call / cell by cell *)
Definition model_out (c : case) : list (res Z) :=
  match c with
  | CTot cls k rule it _ =>
      [to_z (if cls then TotalisticRule_call_nb k rule (item_nb it) (fst (item_ct it)) (snd (item_ct it))
             else totalistic_nb k rule (item_nb it))]
  | CSeq k rule items _ => seq_model k rule items
  | CEvolve1 k rule r init T _ => flat1 (evolve_plain (tot_rule1 k rule) store_id r tt [init] T)
  | CEvolve2 k rule r vn init T _ =>
      flat2 (evolve2d_plain (tot_rule2 k rule) store_id r (if vn then VonNeumann else Moore) tt [init] T)
  end.

Definition observed (c : case) : list (res Z) :=
  match c with
  | CTot _ _ _ _ obs => [obs]
  | CSeq _ _ _ obs => obs
  | CEvolve1 _ _ _ _ _ obs => match obs with Ok h => map Ok (concat h) | Raise e => [Raise e] end
  | CEvolve2 _ _ _ _ _ _ obs => match obs with Ok h => map Ok (concat (concat h)) | Raise e => [Raise e] end
  end.

(* the model's flat von Neumann mask is the engine model's mask (Model/Evolve2D.v), for the radii used *)
Definition masks_consistent : bool :=
  forallb (fun r => list_eqb Bool.eqb (von_neumann_mask r) (concat (vn_mask r))) [0; 1; 2; 3; 4].

Definition mask_ok (c : case) : bool :=
  match c with
  | CTot _ _ _ it _ => item_mask_ok it
  | CSeq _ _ items _ => forallb item_mask_ok items
  | CEvolve1 _ _ _ _ _ _ => true
  | CEvolve2 _ _ r _ _ _ _ => list_eqb Bool.eqb (von_neumann_mask r) (concat (vn_mask r))
  end.

(* ValueError is the class the property names: it must be raised by both or by neither.
   Other exception classes (IndexError for contents outside 0..k-1) only count as "an exception". *)
Definition is_value_error (e : exc) : bool := match e with ValueError => true | _ => false end.
Definition res_agree (a b : res Z) : bool :=
  match a, b with
  | Ok x, Ok y => Z.eqb x y
  | Raise e, Raise f => Bool.eqb (is_value_error e) (is_value_error f)
  | _, _ => false
  end.

(* the domain the property quantifies over: 2 <= k <= 36 and contents in 0..k-1 (any rule number).
   Outside it (generator buckets "ood/...") the model still computes what numpy does (model_out),
   but the property constrains nothing there, so such cases are not compared. *)
Definition k_ok (k : N) : bool := (2 <=? k)%N && (k <=? 36)%N.
Definition cells_ok (k : N) (cells : list Z) : bool :=
  forallb (fun x => (0 <=? x)%Z && (x <=? Z.of_N k - 1)%Z) cells.
Definition in_domain (c : case) : bool :=
  match c with
  | CTot _ k _ it _ => k_ok k && item_in_domain k it
  | CSeq k _ items _ => k_ok k && forallb (item_in_domain k) items
  | CEvolve1 k _ _ init _ _ => k_ok k && cells_ok k init
  | CEvolve2 k _ _ _ init _ _ => k_ok k && forallb (cells_ok k) init
  end.

(* every call / cell must agree, and there must be as many answers as the model has *)
Definition all_agree (c : case) : bool := list_eqb res_agree (model_out c) (observed c).

Definition check_case (c : case) : bool := mask_ok c && (if in_domain c then all_agree c else true).

(* strict variant, also outside the domain (VERIF_C08_STRICT=1, see notes/agents/C08.md) *)
Definition check_case_strict (c : case) : bool := all_agree c && mask_ok c.
