(* Correspondence for C08: compare the model with what /repo returned on the same inputs. *)
From CPL Require Import Model.Base Model.Totalistic.

(* cls: called through TotalisticRule(k, rule)(n, c, t) instead of totalistic_rule(n, k, rule);
   unsigned: the array dtype is uint8; cells: the array flattened row-major;
   mask: None for a plain ndarray, Some m for np.ma.masked_array(cells, m) (flattened);
   vn: Some r = the mask was built like evolve2d builds the von Neumann mask of radius r
   (the model's von_neumann_mask r must equal the mask given) *)
(* one neighbourhood of a sequence: dtype flag, flattened cells, mask (None = plain ndarray), von Neumann radius *)
Inductive item := Item (unsigned : bool) (cells : list Z) (mask : option (list bool)) (vn : option nat).

(* CSeq: ONE TotalisticRule(k, rule) object called on the items in order (c = the position, t = 1);
   obs = what each call returned *)
Inductive case :=
| CTot (cls unsigned : bool) (cells : list Z) (mask : option (list bool)) (vn : option nat)
       (k rule : N) (obs : res Z)
| CSeq (k rule : N) (items : list item) (obs : list (res Z)).

Definition item_nb (it : item) : nbhd :=
  match it with
  | Item u cells None _ => Plain u cells
  | Item u cells (Some m) _ => Masked u cells m
  end.
Definition item_mask_ok (it : item) : bool :=
  match it with
  | Item _ _ (Some m) (Some r) => list_eqb Bool.eqb m (von_neumann_mask r)
  | _ => true
  end.
Definition item_in_domain (k : N) (it : item) : bool :=
  match it with Item _ cells _ _ => forallb (fun x => (0 <=? x)%Z && (x <=? Z.of_N k - 1)%Z) cells end.
Definition seq_calls (items : list item) : list (nbhd * Z * nat) :=
  map (fun p => (item_nb (snd p), Z.of_nat (fst p), 1)) (combine (seq 0 (length items)) items).
Definition seq_model (k rule : N) (items : list item) : list (res Z) :=
  map (fun r => bind r (fun d => Ok (Z.of_N d))) (TotalisticRule_seq k rule (seq_calls items)).

Definition model_one (c : case) : res Z :=
  match c with
  | CTot cls u cells mask _ k rule _ =>
      bind (match mask with
            | None => if cls then TotalisticRule_call k rule u cells 0%Z 1 else totalistic_rule u cells k rule
            | Some m => if cls then TotalisticRule_call_masked k rule u cells m 0%Z 1
                        else totalistic_rule_masked u cells m k rule
            end) (fun d => Ok (Z.of_N d))
  | CSeq _ _ _ _ => Raise OtherError
  end.

(* what the model computes, call by call (one entry for CTot) *)
Definition model_out (c : case) : list (res Z) :=
  match c with
  | CTot _ _ _ _ _ _ _ _ => [model_one c]
  | CSeq k rule items _ => seq_model k rule items
  end.

Definition mask_ok (c : case) : bool :=
  match c with
  | CTot _ _ _ (Some m) (Some r) _ _ _ => list_eqb Bool.eqb m (von_neumann_mask r)
  | CTot _ _ _ _ _ _ _ _ => true
  | CSeq _ _ items _ => forallb item_mask_ok items
  end.

(* ValueError is the class the property names: it must be raised by both or by neither.
   Other exception classes (IndexError for contents outside 0..k-1) only count as "an exception". *)
Definition is_value_error (e : exc) : bool := match e with ValueError => true | _ => false end.
Definition res_agree (a b : res Z) : bool :=
  match a, b with
  | Ok x, Ok y => Z.eqb x y
  | Raise e, Raise f => Bool.eqb (is_value_error e) (is_value_error f)
  | _, _ => false
  end.

(* the domain the property quantifies over: 2 <= k <= 36 and contents in 0..k-1 (any rule number).
   Outside it (generator bucket "ood/...") the model still computes what numpy does (model_out),
   but the property constrains nothing there, so such cases are not compared. *)
Definition in_domain (c : case) : bool :=
  match c with
  | CTot _ _ cells _ _ k _ _ =>
      (2 <=? k)%N && (k <=? 36)%N && forallb (fun x => (0 <=? x)%Z && (x <=? Z.of_N k - 1)%Z) cells
  | CSeq k _ items _ => (2 <=? k)%N && (k <=? 36)%N && forallb (item_in_domain k) items
  end.

Definition observed (c : case) : list (res Z) :=
  match c with CTot _ _ _ _ _ _ _ obs => [obs] | CSeq _ _ _ obs => obs end.

(* every call of a sequence must agree, and there must be as many answers as calls *)
Definition all_agree (c : case) : bool := list_eqb res_agree (model_out c) (observed c).

Definition check_case (c : case) : bool := mask_ok c && (if in_domain c then all_agree c else true).

(* strict variant, also outside the domain (VERIF_C08_STRICT=1, see notes/agents/C08.md) *)
Definition check_case_strict (c : case) : bool := all_agree c && mask_ok c.
