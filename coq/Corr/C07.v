(* Correspondence for C07: compare the model with what /repo returned on the same inputs. *)
From CPL Require Import Model.Base Model.Numbering.

Inductive case :=
| CBitsToInt (bits : list Z) (obs : res Z)
| CIntToBits (num : N) (d : nat) (obs : res (list Z))
| CBinaryRule (cls : bool) (nb : list Z) (rule : rule_form) (sch : scheme) (pows : option (list Z)) (obs : res Z)
| CNks (cls : bool) (nb : list Z) (R : N) (obs : res Z)
(* one class object (NKSRule if nksclass, else BinaryRule) called on several neighbourhoods *)
| CClassReuse (nksclass : bool) (R : N) (sch : scheme) (pows : option (list Z)) (nbs : list (list Z)) (obs : res (list Z)).

(* model output, uniformly as a list so that a replay can print it *)
Definition model_out (c : case) : res (list Z) :=
  match c with
  | CBitsToInt bits _ => Ok [Z.of_N (bits_to_int bits)]
  | CIntToBits num d _ => int_to_bits num d
  | CBinaryRule cls nb rule sch pows _ =>
      bind (if cls then BinaryRule_call rule sch pows nb 0%Z 1 else binary_rule nb rule sch pows) (fun z => Ok [z])
  | CNks cls nb R _ => bind (if cls then NKSRule_call R nb 0%Z 1 else nks_rule nb R) (fun z => Ok [z])
  | CClassReuse nksclass R sch pows nbs _ =>
      fold_right (fun nb acc => bind (if nksclass then NKSRule_call R nb 0%Z 1 else BinaryRule_call (RInt R) sch pows nb 0%Z 1)
                                     (fun z => bind acc (fun l => Ok (z :: l)))) (Ok []) nbs
  end.

Definition observed (c : case) : res (list Z) :=
  match c with
  | CBitsToInt _ o | CBinaryRule _ _ _ _ _ o | CNks _ _ _ o => bind o (fun z => Ok [z])
  | CIntToBits _ _ o => o
  | CClassReuse _ _ _ _ _ o => o
  end.

(* error classes are not part of C07: any exception on both sides agrees *)
Definition check_case (c : case) : bool := res_eqb_anyexc zlist_eqb (model_out c) (observed c).
