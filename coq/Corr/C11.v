(* Correspondence for C11: compare the model with what /repo returned on the same inputs. *)
From CPL Require Import Model.Base Model.Rules Model.Engine Model.Evolve2D Model.Life Model.LifePatterns.
Local Open Scope Z_scope.

Inductive pat := PGlider | PBlock | PBlinker
  | PStill (cells : list (Z * Z))        (* any still life, given by its cells *)
  | PBlinkerV                            (* the blinker started in its vertical phase *)
  | PGliderDir (d k : nat).              (* the glider of direction d in phase k (Model/LifePatterns.gl) *)

Definition pat_cells (p : pat) : list (Z * Z) :=
  match p with
  | PGlider => G0 | PBlock => BLK | PBlinker => BH | PStill cells => cells | PBlinkerV => BV | PGliderDir d k => gl d k
  end.

(* one cpl.evolve2d(hist, timesteps=T, apply_rule=cpl.game_of_life_rule, neighbourhood=ty, memoize=memo) call
   inside a sequence of calls made back to back in one process with the same function object *)
Inductive seq_call := SeqCall (ty : nbhd_type) (hist : list grid) (T memo : nat) (obs : res (list grid)).

Inductive case :=
(* cpl.game_of_life_rule(block, (1, 1), 1) on a 3x3 block; masked = wrapped in a MaskedArray with an
   all-False mask.  The observation is None (Python returned None) or the returned integer. *)
| CRule (vals : grid) (masked : bool) (obs : res (option Z))
(* cpl.evolve2d(hist, timesteps=T, apply_rule=cpl.game_of_life_rule, r=1, 'Moore', memoize=...);
   memo: 0 = False, 1 = True, 2 = 'recursive' (the model is the same: the result may not depend on it) *)
| CEvolve (hist : list grid) (T : nat) (memo : nat) (obs : res (list grid))
(* a pattern placed by the harness with its origin at (a, b) on an R x C torus (g0 = the grid the
   harness built), evolved for T timesteps *)
| CPattern (p : pat) (R C : nat) (a b : Z) (g0 : grid) (T : nat) (memo : nat) (obs : res (list grid))
(* np.roll(g, (da, db), axis=(0, 1)) *)
| CRoll (g : grid) (da db : Z) (obs : grid)
(* 2-4 evolve2d calls in one process, same rule object, mixed neighbourhood types and memoize modes:
   what an earlier call did must not change what a later one returns *)
| CSequence (calls : list seq_call).

(* what the theorems say the k-th grid of the evolution of a placed pattern is (k <= 4 for the glider) *)
Definition pattern_at (p : pat) (R C : nat) (a b : Z) (k : nat) : grid :=
  match p with
  | PGlider =>
      match k with
      | 0%nat => pattern_grid R C a b G0
      | 1%nat => pattern_grid R C (a + 1) b G1
      | 2%nat => pattern_grid R C (a + 1) b G2
      | 3%nat => pattern_grid R C (a + 1) (b + 1) G3
      | _ => pattern_grid R C (a + 1) (b + 1) G0
      end
  | PBlock => pattern_grid R C a b BLK
  | PBlinker => if Nat.even k then pattern_grid R C a b BH else pattern_grid R C (a - 1) (b + 1) BV
  | PStill cells => pattern_grid R C a b cells
  | PBlinkerV => if Nat.even k then pattern_grid R C a b BV else pattern_grid R C (a + 1) (b - 1) BH
  | PGliderDir d ph =>     (* the theorems fix steps 0 and 4; in between: what the engine model says *)
      match k with
      | 0%nat => pattern_grid R C a b (gl d ph)
      | 4%nat => pattern_grid R C (a + fst (gdir d)) (b + snd (gdir d)) (gl d ph)
      | _ => nth k (match life_evolve [pattern_grid R C a b (gl d ph)] 5 with Ok (_, l) => l | Raise _ => [] end) []
      end
  end.

Definition drop_state {A B} (r : res (A * B)) : res B := bind r (fun p => Ok (snd p)).

Inductive out := ORule (r : res (option Z)) | OGrids (r : res (list grid)) | OGrid (g : grid)
                 | OSeq (rs : list (res (list grid))).

(* a call of a sequence, on the memoize=False engine.  For 'von Neumann' the neighbourhood object is
   masked: np.sum adds the five unmasked entries, the centre n[1][1] is unmasked (gol_rule_nb). *)
Definition seq_model (c : seq_call) : res (list grid) :=
  match c with SeqCall ty hist T _ _ => drop_state (evolve2d_plain gol_as_rule2 store_id 1 ty tt hist T) end.

(* model output, printable *)
Definition model_out (c : case) : out :=
  match c with
  | CRule vals _ _ => ORule (Ok (gol_rule_nb {| nb_vals := vals; nb_mask := no_mask 1 |}))
  | CEvolve hist T _ _ => OGrids (drop_state (life_evolve hist T))
  | CPattern p R C a b g0 T _ _ => OGrids (drop_state (life_evolve [g0] T))
  | CRoll g da db _ => OGrid (roll_grid da db g)
  | CSequence calls => OSeq (map seq_model calls)
  end.

Definition optz_eqb (a b : option Z) : bool :=
  match a, b with Some x, Some y => x =? y | None, None => true | _, _ => false end.

Definition check_case (c : case) : bool :=
  match c with
  | CRule vals _ obs =>
      (* the model's answer, and Conway's rule in closed form *)
      res_eqb_anyexc optz_eqb (Ok (gol_rule_nb {| nb_vals := vals; nb_mask := no_mask 1 |})) obs
      && res_eqb_anyexc optz_eqb (Ok (Some (b3s23 (gol_centre vals) (gol_total vals - gol_centre vals)))) obs
  | CEvolve hist T _ obs => res_eqb_anyexc zhist_eqb (drop_state (life_evolve hist T)) obs
  | CPattern p R C a b g0 T _ obs =>
      (* the harness placed the pattern where the model places it; the engine agrees with /repo;
         and /repo's history is the one the pattern theorems state *)
      zgrid_eqb g0 (pattern_grid R C a b (pat_cells p))
      && res_eqb_anyexc zhist_eqb (drop_state (life_evolve [g0] T)) obs
      && res_eqb_anyexc zhist_eqb (Ok (map (pattern_at p R C a b) (seq 0 T))) obs
  | CRoll g da db obs => zgrid_eqb (roll_grid da db g) obs
  | CSequence calls =>
      (* the property speaks about Life = the Moore calls; the von Neumann calls are only there to have
         happened before *)
      forallb (fun c => match c with
                        | SeqCall Moore _ _ _ obs => res_eqb_anyexc zhist_eqb (seq_model c) obs
                        | SeqCall VonNeumann _ _ _ _ => true
                        end) calls
  end.
