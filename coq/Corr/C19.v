(* Correspondence for C19: compare the apen model with what /repo returned on the same inputs.
   Observables: the exception class (TypeError is named by the property and compared exactly),
   the returned double (transported exactly as mantissa * 2^exponent and required to lie within
   2^-30 of the verified enclosure of the model's real value), and — when the harness could observe
   them through np.log's argument — the exact match counts C_i(m+1), C_i(m). *)
From Coq Require Import String.
From CPL Require Import Model.Base Model.Apen.

Inductive dbl := Dbl (mant ex : Z) | NonFinite.

Inductive case :=
| CApen (inp : seq_input) (m : nat) (r : Z)
        (obs : res dbl)                              (* what apen returned / raised *)
        (counts : option (list nat * list nat)).     (* numerators of C for m+1 and for m, if observed *)

Definition nlist_eqb := list_eqb Nat.eqb.

(* what the model computes, printable: enclosure of the value, counts for m+1 and m *)
Definition model_out (c : case) : res (I.type * (list nat * list nat)) :=
  match c with
  | CApen inp m r _ _ =>
      bind (apen_twin inp m r) (fun xi =>
      bind (normalise inp) (fun U => Ok (xi, (Cs (S m) r U, Cs m r U))))
  end.

Definition check_case (c : case) : bool :=
  match c with
  | CApen inp m r obs counts =>
      match model_out c, obs with
      | Raise TypeError, Raise TypeError => true
      | Raise TypeError, _ => false
      | Raise _, Raise _ => true          (* outside the property: only "rejected" on both sides *)
      | Ok (xi, (c1, c0)), Ok (Dbl mant ex) =>
          I.subset (I.sub prec (doubleI mant ex) xi) tolI
          && match counts with
             | None => true
             | Some (o1, o0) => nlist_eqb o1 c1 && nlist_eqb o0 c0
             end
      | _, _ => false
      end
  end.
