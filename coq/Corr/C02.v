(* Correspondence for C02: the model of evolve2d (memoize=False) against what /repo returned on the
   same inputs: the returned array (values; the nested lists carry the shape) and the complete call
   log of the rule: block contents, mask pattern (np.ma.getmaskarray), (row, col) and t. *)
From CPL Require Import Model.Base Model.Rules Model.Engine Model.Evolve2D Model.Evolve2DChecked.
Local Open Scope Z_scope.

(* one observed call: block values, mask, (row, col), t *)
Definition call_obs := (list (list Z) * list (list bool) * (nat * nat) * nat)%type.

Inductive case :=
(* evolve2d(hist, timesteps=T, Logged2(rule), r, neighbourhood, memoize=False) *)
| CEvolve2D (ty : nbhd_type) (r : nat) (hist : list grid) (T : nat) (rule : rule_spec)
            (obs : res (list grid * list call_obs))
(* evolve2d(hist, timesteps=lambda ca, t: t < k, ...) *)
| CEvolve2DDyn (ty : nbhd_type) (r : nat) (hist : list grid) (k : nat) (rule : rule_spec)
               (obs : res (list grid * list call_obs)).

Definition flat_call (c : call2) : call_obs :=
  let '(n, rc, t) := c in (nb_vals n, nb_mask n, rc, t).

(* what the model computes: the returned grids and the call log *)
Definition model_out (c : case) : res (list grid * list call_obs) :=
  match c with
  | CEvolve2D ty r hist T rule _ =>
      bind (evolve2d_checked (logged2 (spec_rule2 rule)) store_id r ty (0%nat, []) hist T)
           (fun out => let '((_, lg), grids) := out in Ok (grids, map flat_call lg))
  | CEvolve2DDyn ty r hist k rule _ =>
      match evolve2d_plain_dynamic (logged2 (spec_rule2 rule)) store_id (pred_lt k) r ty (S k) tt
                                   (0%nat, []) hist with
      | Some (_, (_, lg), grids, _) => Ok (grids, map flat_call lg)
      | None => Raise OtherError
      end
  end.

Definition observed (c : case) : res (list grid * list call_obs) :=
  match c with CEvolve2D _ _ _ _ _ o | CEvolve2DDyn _ _ _ _ _ o => o end.

Definition bgrid_eqb := list_eqb (list_eqb Bool.eqb).
Definition call_eqb (a b : call_obs) : bool :=
  let '(v1, m1, (r1, c1), t1) := a in
  let '(v2, m2, (r2, c2), t2) := b in
  zgrid_eqb v1 v2 && bgrid_eqb m1 m2 && Nat.eqb r1 r2 && Nat.eqb c1 c2 && Nat.eqb t1 t2.
Definition out_eqb (a b : list grid * list call_obs) : bool :=
  zhist_eqb (fst a) (fst b) && list_eqb call_eqb (snd a) (snd b).

(* no exception class is named by the property (and none occurs inside its domain): any exception on
   both sides agrees *)
Definition check_case (c : case) : bool := res_eqb_anyexc out_eqb (model_out c) (observed c).
