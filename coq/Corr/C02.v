(* Correspondence for C02: the model of evolve2d (memoize=False) against what /repo returned on the
   same inputs: the returned array (values; the nested lists carry the shape; the dtype by name) and the complete call
   log of the rule: block contents, mask pattern (np.ma.getmaskarray), (row, col) and t. *)
From CPL Require Import Model.Base Model.Rules Model.Engine Model.Evolve2D Model.Evolve2DChecked.
Local Open Scope Z_scope.

(* the rule's return value is value/scale (scale = 1: an integer, possibly wrapped as a float or a NumPy scalar of
   the same value; scale = 4: a Python float with two binary places).  2D stores by SCALAR assignment
   array[t][row][col] = v, which truncates a float towards zero when the automaton has an integer dtype. *)
Definition store_of (scale : Z) : Z -> Z := if scale =? 1 then store_id else fun q => Z.quot q scale.

(* the dtype of an array, by name; DOther = anything else (never equal to anything).  DObject: cells are Python ints
   or None; None is carried as one fixed sentinel integer on both sides (harness/props/c02.py NONE_Z) *)
Inductive dtype := DBool | DInt32 | DInt64 | DUInt8 | DUInt64 | DFloat64 | DObject | DOther.
Definition dtype_eqb (a b : dtype) : bool :=
  match a, b with
  | DBool, DBool | DInt32, DInt32 | DInt64, DInt64 | DUInt8, DUInt8 | DUInt64, DUInt64 | DFloat64, DFloat64
  | DObject, DObject => true
  | _, _ => false
  end.

(* one observed call: block values, mask, (row, col), t *)
Definition call_obs := (list (list Z) * list (list bool) * (nat * nat) * nat)%type.

(* returned grids, call log, dtype of the returned array *)
Definition outcome := (list grid * list call_obs * dtype)%type.

Inductive case :=
(* evolve2d(hist as an array of dtype dt, timesteps=T, Logged2(rule / scale), r, neighbourhood, memoize=False) *)
| CEvolve2D (ty : nbhd_type) (r : nat) (scale : Z) (dt : dtype) (hist : list grid) (T : nat) (rule : rule_spec)
            (obs : res outcome)
(* evolve2d(hist, timesteps=lambda ca, t: t < k, ...) *)
| CEvolve2DDyn (ty : nbhd_type) (r : nat) (scale : Z) (dt : dtype) (hist : list grid) (k : nat) (rule : rule_spec)
               (obs : res outcome).

Definition flat_call (c : call2) : call_obs :=
  let '(n, rc, t) := c in (nb_vals n, nb_mask n, rc, t).

(* what the model computes: the returned grids, the call log, and the dtype (that of the automaton passed in) *)
Definition model_out (c : case) : res outcome :=
  match c with
  | CEvolve2D ty r scale dt hist T rule _ =>
      bind (evolve2d_checked (logged2 (spec_rule2 rule)) (store_of scale) r ty (0%nat, []) hist T)
           (fun out => let '((_, lg), grids) := out in Ok (grids, map flat_call lg, dt))
  | CEvolve2DDyn ty r scale dt hist k rule _ =>
      match evolve2d_plain_dynamic (logged2 (spec_rule2 rule)) (store_of scale) (pred_lt k) r ty (S k) tt
                                   (0%nat, []) hist with
      | Some (_, (_, lg), grids, _) => Ok (grids, map flat_call lg, dt)
      | None => Raise OtherError
      end
  end.

Definition observed (c : case) : res outcome :=
  match c with CEvolve2D _ _ _ _ _ _ _ o | CEvolve2DDyn _ _ _ _ _ _ _ o => o end.

Definition bgrid_eqb := list_eqb (list_eqb Bool.eqb).
Definition call_eqb (a b : call_obs) : bool :=
  let '(v1, m1, (r1, c1), t1) := a in
  let '(v2, m2, (r2, c2), t2) := b in
  zgrid_eqb v1 v2 && bgrid_eqb m1 m2 && Nat.eqb r1 r2 && Nat.eqb c1 c2 && Nat.eqb t1 t2.
Definition out_eqb (a b : outcome) : bool :=
  let '(g1, l1, d1) := a in
  let '(g2, l2, d2) := b in
  zhist_eqb g1 g2 && list_eqb call_eqb l1 l2 && dtype_eqb d1 d2.

(* no exception class is named by the property (and none occurs inside its domain): any exception on
   both sides agrees *)
Definition check_case (c : case) : bool := res_eqb_anyexc out_eqb (model_out c) (observed c).
