(* Correspondence for C12: run the model of cpl.evolve / cpl.evolve2d with an AsynchronousRule object on the
   inputs of a case and compare with what /repo returned: the arrays and the (c, t) log of the wrapped rule. *)
From CPL Require Import Model.Base Model.Rules Model.Engine Model.Evolve1D Model.Evolve2D Model.Async.

Inductive case :=
(* cpl.evolve(hist, T, AsynchronousRule(Logged(rule), update_order=order | num_cells=N, randomize_each_cycle=rand), r)
   ps = the scripted outcomes of np.random.shuffle, in the order they are drawn *)
| C1D (sp : rule_spec) (order : option (list nat)) (rand : bool) (ps : list (list nat)) (r : nat)
      (hist : list (list Z)) (T : nat) (obs : res (list (list Z) * list (list nat)))
(* cpl.evolve2d(hist, T, AsynchronousRule(...), r, neighbourhood) ; vn = 'von Neumann' *)
| C2D (sp : rule_spec) (order : option (list (nat * nat))) (rand : bool) (ps : list (list nat)) (r : nat) (vn : bool)
      (hist : list grid) (T : nat) (obs : res (list grid * list (list nat))).

(* uniform printable output: the history as a list of grids (a 1D row is a one-row grid) and the log of
   the wrapped rule as [c; t] (1D) or [row; col; t] (2D) *)
Definition model_out (c : case) : res (list grid * list (list nat)) :=
  match c with
  | C1D sp o rand ps r hist T _ =>
      bind (async_evolve1d sp o rand ps r hist T)
           (fun rl => Ok (map (fun row => [row]) (fst rl),
                          map (fun e : call1 => [snd (fst e); snd e]) (snd rl)))
  | C2D sp o rand ps r vn hist T _ =>
      bind (async_evolve2d sp o rand ps r (if vn then VonNeumann else Moore) hist T)
           (fun gl => Ok (fst gl,
                          map (fun e : call2 => [fst (snd (fst e)); snd (snd (fst e)); snd e]) (snd gl)))
  end.

Definition observed (c : case) : res (list grid * list (list nat)) :=
  match c with
  | C1D _ _ _ _ _ _ _ o => bind o (fun rl => Ok (map (fun row => [row]) (fst rl), snd rl))
  | C2D _ _ _ _ _ _ _ _ o => o
  end.

Definition out_eqb (a b : list grid * list (list nat)) : bool :=
  zhist_eqb (fst a) (fst b) && list_eqb (list_eqb Nat.eqb) (snd a) (snd b).

(* the property does not name an exception class (empty order): any exception on both sides agrees *)
Definition check_case (c : case) : bool := res_eqb_anyexc out_eqb (model_out c) (observed c).
