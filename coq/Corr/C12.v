(* Correspondence for C12: run the model of cpl.evolve / cpl.evolve2d with an AsynchronousRule object on the
   inputs of a case and compare with what /repo returned: the arrays and the (c, t) log of the wrapped rule. *)
From CPL Require Import Model.Base Model.Rules Model.Engine Model.Evolve1D Model.Evolve2D Model.Async.

Inductive case :=
(* cpl.evolve(hist, T, AsynchronousRule(Logged(rule), update_order=order | num_cells=N, randomize_each_cycle=rand), r)
   ps = the scripted outcomes of np.random.shuffle, in the order they are drawn *)
| C1D (sp : rule_spec) (order : option (list nat)) (rand : bool) (ps : list (list nat)) (r : nat)
      (hist : list (list Z)) (T : nat) (obs : res (list (list Z) * list (list nat)))
(* cpl.evolve2d(hist, T, AsynchronousRule(...), r, neighbourhood) ; vn = 'von Neumann' *)
| C2D (sp : rule_spec) (order : option (list (nat * nat))) (rand : bool) (ps : list (list nat)) (r : nat) (vn : bool)
      (hist : list grid) (T : nat) (obs : res (list grid * list (list nat)))
(* reuse: ONE AsynchronousRule object through two consecutive evolve / evolve2d calls; obs = (history returned by
   the first call ++ [[]] ++ history returned by the second call as grids, the log over both calls) *)
| C1DR (sp : rule_spec) (order : option (list nat)) (rand : bool) (ps : list (list nat)) (r : nat)
       (hist1 : list (list Z)) (T1 : nat) (hist2 : list (list Z)) (T2 : nat)
       (obs : res (list (list Z) * list (list Z) * list (list nat)))
| C2DR (sp : rule_spec) (order : option (list (nat * nat))) (rand : bool) (ps : list (list nat)) (r : nat) (vn : bool)
       (hist1 : list grid) (T1 : nat) (hist2 : list grid) (T2 : nat)
       (obs : res (list grid * list grid * list (list nat)))
(* continue: ONE object through a list of successive calls [(history given, timesteps)]; obs = (the history each
   call returned, the log over all calls) *)
| C1DS (sp : rule_spec) (order : option (list nat)) (rand : bool) (ps : list (list nat)) (r : nat)
       (calls : list (list (list Z) * nat)) (obs : res (list (list (list Z)) * list (list nat)))
| C2DS (sp : rule_spec) (order : option (list (nat * nat))) (rand : bool) (ps : list (list nat)) (r : nat) (vn : bool)
       (calls : list (list grid * nat)) (obs : res (list (list grid) * list (list nat))).

(* uniform printable output: the history as a list of grids (a 1D row is a one-row grid) and the log of
   the wrapped rule as [c; t] (1D) or [row; col; t] (2D) *)
Definition model_out (c : case) : res (list grid * list (list nat)) :=
  match c with
  | C1D sp o rand ps r hist T _ =>
      bind (async_evolve1d sp o rand ps r hist T)
           (fun rl => Ok (map (fun row => [row]) (fst rl),
                          map (fun e : call1 => [snd (fst e); snd e]) (snd rl)))
  | C2D sp o rand ps r vn hist T _ =>
      bind (async_evolve2d sp o rand ps r (if vn then VonNeumann else Moore) hist T)
           (fun gl => Ok (fst gl,
                          map (fun e : call2 => [fst (snd (fst e)); snd (snd (fst e)); snd e]) (snd gl)))
  | C1DR sp o rand ps r h1 T1 h2 T2 _ =>
      bind (async_evolve1d_twice sp o rand ps r h1 T1 h2 T2)
           (fun x => Ok (map (fun row => [row]) (fst (fst x)) ++ [[]] ++ map (fun row => [row]) (snd (fst x)),
                         map (fun e : call1 => [snd (fst e); snd e]) (snd x)))
  | C2DR sp o rand ps r vn h1 T1 h2 T2 _ =>
      bind (async_evolve2d_twice sp o rand ps r (if vn then VonNeumann else Moore) h1 T1 h2 T2)
           (fun x => Ok (fst (fst x) ++ [[]] ++ snd (fst x),
                         map (fun e : call2 => [fst (snd (fst e)); snd (snd (fst e)); snd e]) (snd x)))
  | C1DS sp o rand ps r calls _ =>
      bind (async_evolve1d_seq sp o rand ps r calls)
           (fun x => Ok (flat_map (fun rows => map (fun row => [row]) rows ++ [[]]) (fst x),
                         map (fun e : call1 => [snd (fst e); snd e]) (snd x)))
  | C2DS sp o rand ps r vn calls _ =>
      bind (async_evolve2d_seq sp o rand ps r (if vn then VonNeumann else Moore) calls)
           (fun x => Ok (flat_map (fun gs : list grid => gs ++ [[]]) (fst x),
                         map (fun e : call2 => [fst (snd (fst e)); snd (snd (fst e)); snd e]) (snd x)))
  end.

Definition observed (c : case) : res (list grid * list (list nat)) :=
  match c with
  | C1D _ _ _ _ _ _ _ o => bind o (fun rl => Ok (map (fun row => [row]) (fst rl), snd rl))
  | C2D _ _ _ _ _ _ _ _ o => o
  | C1DR _ _ _ _ _ _ _ _ _ o =>
      bind o (fun x => Ok (map (fun row => [row]) (fst (fst x)) ++ [[]] ++ map (fun row => [row]) (snd (fst x)), snd x))
  | C2DR _ _ _ _ _ _ _ _ _ _ o => bind o (fun x => Ok (fst (fst x) ++ [[]] ++ snd (fst x), snd x))
  | C1DS _ _ _ _ _ _ o =>
      bind o (fun x => Ok (flat_map (fun rows => map (fun row => [row]) rows ++ [[]]) (fst x), snd x))
  | C2DS _ _ _ _ _ _ _ o => bind o (fun x => Ok (flat_map (fun gs : list grid => gs ++ [[]]) (fst x), snd x))
  end.

Definition out_eqb (a b : list grid * list (list nat)) : bool :=
  zhist_eqb (fst a) (fst b) && list_eqb (list_eqb Nat.eqb) (snd a) (snd b).

(* the property does not name an exception class (empty order): any exception on both sides agrees *)
Definition check_case (c : case) : bool := res_eqb_anyexc out_eqb (model_out c) (observed c).
