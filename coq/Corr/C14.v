(* Correspondence for C14: compare the model with what /repo returned on the same inputs.
   One case = one call
     s = cpl.Sandpile(rows, cols, is_closed_boundary); s.add_grain(cell, t) for each addition (in order);
     cpl.evolve2d(np.array([init]), T, s, r=1, neighbourhood='von Neumann', memoize=...)
   and the observable is the returned array (all T grids).  The memoize option is not part of the case:
   the harness uses True / 'recursive' only where the rule is pure (open boundary, no additions), and the
   answer must then be the one of the plain loop. *)
From CPL Require Import Model.Base Model.Rules Model.Engine Model.Evolve2D Model.Sandpile.

Inductive case :=
| CEvolve (rows cols : nat) (closed : bool) (adds : list addition) (init : grid) (T : nat)
          (obs : res (list grid)).

Definition model_out (c : case) : res (list grid) :=
  match c with
  | CEvolve rows cols closed adds init T _ =>
      bind (evolve2d_plain (sandpile_rule rows cols closed adds) store_id 1 VonNeumann tt [init] T)
           (fun p => Ok (snd p))
  end.

Definition observed (c : case) : res (list grid) :=
  match c with CEvolve _ _ _ _ _ _ o => o end.

(* error classes are not part of C14 *)
Definition check_case (c : case) : bool := res_eqb_anyexc zhist_eqb (model_out c) (observed c).
