(* Correspondence for C14: compare the model with what /repo returned on the same inputs.
   CEvolve = one call
     s = cpl.Sandpile(rows, cols, is_closed_boundary); s.add_grain(cell, t) for each addition (in order);
     cpl.evolve2d(np.array([init], dtype=...), T, s, r=1, neighbourhood=ty, memoize=...)
   and the observable is the returned array (all T grids).  The memoize option and the dtype are not part
   of the case: the harness uses memoize True / 'recursive' only where the rule is pure (open boundary, no
   additions), and only dtypes in which all counts of the run are representable (store = identity).
   CReuse = the SAME Sandpile object (same schedule) used for two consecutive evolve2d calls: the rule
   object of the model is stateless, so the second call sees the full schedule. *)
From CPL Require Import Model.Base Model.Rules Model.Engine Model.Evolve2D Model.Sandpile.

Inductive case :=
| CEvolve (rows cols : nat) (closed : bool) (adds : list addition) (ty : nbhd_type) (init : grid) (T : nat)
          (obs : res (list grid))
| CReuse (rows cols : nat) (closed : bool) (adds : list addition) (ty : nbhd_type)
         (init1 : grid) (T1 : nat) (obs1 : res (list grid))
         (init2 : grid) (T2 : nat) (obs2 : res (list grid)).

Definition run (rows cols : nat) (closed : bool) (adds : list addition) (ty : nbhd_type) (init : grid) (T : nat)
  : res (list grid) :=
  bind (evolve2d_plain (sandpile_rule rows cols closed adds) store_id 1 ty tt [init] T) (fun p => Ok (snd p)).

Definition model_out (c : case) : list (res (list grid)) :=
  match c with
  | CEvolve rows cols closed adds ty init T _ => [run rows cols closed adds ty init T]
  | CReuse rows cols closed adds ty init1 T1 _ init2 T2 _ =>
      [run rows cols closed adds ty init1 T1; run rows cols closed adds ty init2 T2]
  end.

Definition observed (c : case) : list (res (list grid)) :=
  match c with
  | CEvolve _ _ _ _ _ _ _ o => [o]
  | CReuse _ _ _ _ _ _ _ o1 _ _ o2 => [o1; o2]
  end.

(* error classes are not part of C14 *)
Definition check_case (c : case) : bool :=
  list_eqb (res_eqb_anyexc zhist_eqb) (model_out c) (observed c).
