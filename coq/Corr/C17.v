(* Correspondence for C17: compare the model with what /repo returned on the same inputs and
   the same scripted randomness. *)
From CPL Require Import Model.Base Model.RuleTables.
From Coq Require Import QArith.

(* choice indices are transported in binary (a unary numeral of size ~1000 per draw would dominate the
   generated files) and converted here *)
Definition idx (cs : list N) : list nat := map N.to_nat cs.

(* lambda is transported as an exact fraction (numerator, denominator); the harness recovers the
   numerator as round(lambda * k^n) and sends denominator 0 if that is not exact *)
Definition lam_obs := (Z * Z)%type.

Inductive case :=
| CRrt (k r : nat) (lam : option Q) (qo : option Z) (sq iso : bool)
       (us : list Q) (cs : list N) (ri : Z) (obs : res (table * lam_obs * Z))
| CTwt (t : table) (lam : Q) (k r : nat) (q : Z) (sq iso : bool) (cs : list N) (obs : res (table * lam_obs))
| CTableRule (nb : list nat) (t : table) (obs : res Z)
(* tables of > 10^5 entries ('large/near_target/*'): decided by the Python property oracle alone;
   evaluating the association-list model on them is too slow, so no model output is compared *)
| CNoModel
(* 'paramtypes/*': a neighbourhood whose elements do not render as decimal numerals (float64 1.0 -> '1.0', bool -> 'True'):
   the harness renders the string itself; the library must look up exactly that string, ValueError when absent *)
| CTableLookup (s : key) (t : table) (obs : res Z)
(* 'paramtypes/*': the table is a read-only mapping (MappingProxyType): the walk returns normally iff it performs no
   perturbation (the model returns the table unchanged), otherwise the first assignment raises *)
| CTwtReadOnly (t : table) (lam : Q) (k r : nat) (q : Z) (sq iso : bool) (cs : list N) (obs : res (table * lam_obs)).

Definition entry_eqb (a b : key * Z) : bool := key_eqb (fst a) (fst b) && (snd a =? snd b)%Z.
Definition table_eqb : table -> table -> bool := list_eqb entry_eqb.

(* model output in one printable shape: table, lambda, q (or the looked-up value) *)
Definition model_out (c : case) : res (table * Q * Z) :=
  match c with
  | CRrt k r lam qo sq iso us cs ri _ =>
      random_rule_table k r lam qo sq iso {| o_rand := us; o_choice := idx cs; o_randint := ri |}
  | CTwt t lam k r q sq iso cs _ =>
      bind (table_walk_through t lam k r q sq iso (idx cs)) (fun o =>
        match o with Some (t', l) => Ok (t', l, q) | None => Raise OtherError end)
  | CTableRule nb t _ => bind (table_rule nb t) (fun v => Ok ([], 0%Q, v))
  | CNoModel => Ok ([], 0%Q, 0%Z)
  | CTableLookup s t _ => match lookup s t with Some v => Ok ([], 0%Q, v) | None => Raise ValueError end
  | CTwtReadOnly t lam k r q sq iso cs _ =>
      bind (table_walk_through t lam k r q sq iso (idx cs)) (fun o =>
        match o with
        | Some (t', l) => if table_eqb t' t then Ok (t', l, q) else Raise TypeError
        | None => Raise OtherError
        end)
  end.

Definition lam_eqb (l : Q) (o : lam_obs) : bool :=
  (0 <? snd o)%Z && Qeq_bool l (fst o # Z.to_pos (snd o)).

Definition check_case (c : case) : bool :=
  match c with
  | CRrt _ _ _ _ _ _ _ _ _ obs =>
      (* exception classes of random_rule_table are not named by the property *)
      match model_out c, obs with
      | Ok (t, l, q), Ok (t', l', q') => table_eqb t t' && lam_eqb l l' && (q =? q')%Z
      | Raise _, Raise _ => true
      | _, _ => false
      end
  | CTwt _ _ _ _ _ _ _ _ obs =>
      match model_out c, obs with
      | Ok (t, l, _), Ok (t', l') => table_eqb t t' && lam_eqb l l'
      | Raise _, Raise _ => true
      | _, _ => false
      end
  | CTableRule _ _ obs =>
      (* ValueError is named by the property: classes compared exactly *)
      res_eqb Z.eqb (bind (model_out c) (fun x => Ok (snd x))) obs
  | CNoModel => true
  | CTableLookup _ _ obs => res_eqb Z.eqb (bind (model_out c) (fun x => Ok (snd x))) obs
  | CTwtReadOnly _ _ _ _ _ _ _ _ obs =>
      match model_out c, obs with
      | Ok (t, l, _), Ok (t', l') => table_eqb t t' && lam_eqb l l'
      | Raise _, Raise _ => true
      | _, _ => false
      end
  end.
