(* Correspondence for C03: compare the arrays the 1D engines of /repo returned (per mode, per
   option value, per call of a back-to-back sequence) with the model of THAT call alone. *)
From CPL Require Import Model.Base Model.Rules Model.Engine Model.Evolve1D Model.Memo1D.

Inductive case :=
(* one evolve call; obs = the returned array or the exception *)
| CEvolve (c : call) (obs : res (list (list Z)))
(* several evolve calls made back to back in one process; one observation per call *)
| CHistory (calls : list call) (obs : list (res (list (list Z))))
(* a case outside the model's assumptions (rule results not representable in the dtype: open finding
   'cast-path'); nothing is compared here, the Python oracle speaks about it *)
| CNotCompared.

Definition arr_result (r : call_result) : res (list (list Z)) :=
  match r with Ok (_, a) => Ok a | Raise e => Raise e end.

(* what the model computes: the array of every call, each evaluated on its own *)
Definition model_out (c : case) : list (res (list (list Z))) :=
  match c with
  | CEvolve cl _ => [arr_result (run_call cl)]
  | CHistory calls _ => map arr_result (run_process calls)
  | CNotCompared => []
  end.

Definition observed (c : case) : list (res (list (list Z))) :=
  match c with
  | CEvolve _ o => [o]
  | CHistory _ os => os
  | CNotCompared => []
  end.

(* the property only says an unsupported option is rejected: any exception class agrees *)
Definition check_case (c : case) : bool :=
  list_eqb (res_eqb_anyexc zgrid_eqb) (model_out c) (observed c).
