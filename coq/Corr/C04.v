(* Correspondence for C04: a case is a process = evolve2d calls made back to back in one Python
   process; compared per call: the returned array (or "an exception was raised"). *)
From Coq Require String.
From CPL Require Import Model.Base Model.Rules Model.Engine Model.Evolve2D Model.Memo2D.

Inductive case := CProc (calls : list call2d) (obs : list (res (list grid))).

Definition arr_of_result (r : call2d_result) : res (list grid) :=
  match r with Ok (_, a) => Ok a | Raise e => Raise e end.

(* what the model computes for each call of the process: the model of the call's own mode *)
Definition model_out (c : case) : list (res (list grid)) :=
  match c with CProc calls _ => map arr_of_result (run_process2d calls) end.

Definition observed (c : case) : list (res (list grid)) := match c with CProc _ o => o end.

(* the property names no exception class ("the mode is selected by the option's value"): any
   exception on both sides agrees *)
Definition check_case (c : case) : bool :=
  list_eqb (res_eqb_anyexc zhist_eqb) (model_out c) (observed c).
