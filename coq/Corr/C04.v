(* Correspondence for C04: a case is a process = evolve2d calls made back to back in one Python
   process; compared per call: the returned array (or "an exception was raised"). *)
From Coq Require String.
From CPL Require Import Model.Base Model.Rules Model.Engine Model.Evolve2D Model.Memo2D.
Local Open Scope Z_scope.

(* CProc: the rule callables are the families of Model/Rules.v, their results are integers of the dtype.
   CProcNeg: the `floatret/neg` stream.  The Python rule returns the NON-INTEGRAL float  -(q) - frac  (0 < frac < 1,
   q >= 0 the value of the Lin/Aff family member named in the call) into an INTEGER automaton; every engine writes
   it with NumPy's truncating cast (toward zero), i.e. stores -q (the memoize=True table keeps the float and the cast
   happens at the same assignment).  So the arrays are those of the rule "negated family member" with store = identity.
   (The `floatret/pos` stream returns q + frac, stored as q: it is a plain CProc.) *)
Inductive case :=
| CProc (calls : list call2d) (obs : list (res (list grid)))
| CProcNeg (calls : list call2d) (obs : list (res (list grid))).

Definition arr_of_result (r : call2d_result) : res (list grid) :=
  match r with Ok (_, a) => Ok a | Raise e => Raise e end.

Definition neg_rule (rule : rule2 nat) : rule2 nat :=
  fun s n c t => let '(s', v) := rule s n c t in (s', - v).

(* run_call2d of Model/Memo2D.v with the negated rule *)
Definition run_call2d_neg (c : call2d) : call2d_result :=
  let rule := logged2 (neg_rule (spec_rule2 (c2_rule c))) in
  match c2_ts c with
  | TFixed T =>
      match evolve2d_fixed rule store_id (c2_memo c) (c2_r c) (c2_ty c) (0%nat, []) (c2_hist c) T with
      | Ok ((_, lg), a) => Ok (lg, a)
      | Raise e => Raise e
      end
  | TLt k =>
      dyn_result (evolve2d_dynamic rule store_id (pred_lt k) (c2_memo c) (c2_r c) (c2_ty c) (k + 2) tt (0%nat, []) (c2_hist c))
  | TScript bs =>
      dyn_result (evolve2d_dynamic rule store_id (pred_script bs) (c2_memo c) (c2_r c) (c2_ty c) (length bs + 2) 0%nat (0%nat, []) (c2_hist c))
  | TUntilFixedLt k =>
      dyn_result (evolve2d_dynamic rule store_id (pred_ufp_lt k) (c2_memo c) (c2_r c) (c2_ty c) (k + 2) tt (0%nat, []) (c2_hist c))
  end.

(* what the model computes for each call of the process: the model of the call's own mode *)
Definition model_out (c : case) : list (res (list grid)) :=
  match c with
  | CProc calls _ => map arr_of_result (run_process2d calls)
  | CProcNeg calls _ => map (fun cl => arr_of_result (run_call2d_neg cl)) calls
  end.

Definition observed (c : case) : list (res (list grid)) :=
  match c with CProc _ o | CProcNeg _ o => o end.

(* the property names no exception class ("the mode is selected by the option's value"): any
   exception on both sides agrees *)
Definition check_case (c : case) : bool :=
  list_eqb (res_eqb_anyexc zhist_eqb) (model_out c) (observed c).
