(* Correspondence for C15: compare the model with what /repo returned on the same inputs.
   Depends on gen/GenTables.v (regenerated every run), so harness/props/c15.py recompiles this file when the
   tables changed.

   Answers are transported as codes (one hex digit each):
     0..8  the returned int        9  ValueError        10 (A)  None
     11 (B) another exception      12 (C) any other return value (int outside 0..8, non-int)
   A stream packs a list of codes into one N numeral: first answer = least significant hex digit, and a
   leading digit 1 above the last answer (so that leading zeros are not lost). *)
From Coq Require Import ZArith NArith.
From CPL Require Import Model.Base Model.CTRBL Model.Loops Model.SayamaSpec gen.GenTables.
Local Open Scope Z_scope.

Inductive loop := LLangton | LSdsr | LEvoloop.

Definition code_of_opt (o : option Z) (absent : Z) : Z :=
  match o with
  | Some v => if (0 <=? v) && (v <=? 8) then v else 12
  | None => absent
  end.

(* compiled once, when this file is compiled *)
Definition langton_fast : fast_table := Eval vm_compute in compile langton_table.
Definition sdsr_fast : fast_table := Eval vm_compute in compile sdsr_table.
Definition evoloop_fast : fast_table := Eval vm_compute in compile evoloop_table.

Definition loop_table (w : loop) : table :=
  match w with LLangton => langton_table | LSdsr => sdsr_table | LEvoloop => evoloop_table end.

(* the model's answer, as a code; small keys go through the trie (Proofs: fast_get_correct), others through the list *)
Definition loop_code (w : loop) (k : key) : Z :=
  if key_small k then
    match w with
    | LLangton => code_of_opt (fast_ctrbl langton_fast k) 9
    | LSdsr => code_of_opt (fast_sdsr sdsr_fast k) 10
    | LEvoloop => code_of_opt (fast_evoloop evoloop_fast k) 10
    end
  else
    match w with
    | LLangton => code_of_opt (dict_get k langton_table) 9
    | LSdsr => code_of_opt (sdsr_call sdsr_table k) 10
    | LEvoloop => code_of_opt (evoloop_call evoloop_table k) 10
    end.

Definition ctrbl_code (t : table) (k : key) : Z :=
  match ctrbl_call t k with Ok v => code_of_opt (Some v) 9 | Raise ValueError => 9 | Raise _ => 11 end.

(* unpack `cnt` hex digits, least significant first; the rest must be the leading 1 *)
Fixpoint unpack (cnt : nat) (n : N) : list Z * N :=
  match cnt with
  | O => ([], n)
  | S c => let '(l, rest) := unpack c (N.shiftr n 4) in (Z.of_N (N.land n 15) :: l, rest)
  end.

Definition stream_ok (codes : list Z) (packed : N) : bool :=
  let '(l, rest) := unpack (length codes) packed in
  zlist_eqb l codes && (rest =? 1)%N.

(* keys of one chunk: fixed (C,T), all (R,B,L) in dom^3, L fastest *)
Definition chunk_keys (dom : list Z) (c t : Z) : list key :=
  flat_map (fun r => flat_map (fun b => map (fun l => (c, t, r, b, l)) dom) dom) dom.
(* all keys of dom^5, lexicographic *)
Definition all_keys (dom : list Z) : list key :=
  flat_map (fun c => flat_map (fun t => chunk_keys dom c t) dom) dom.

(* consecutive pieces of at most 729 codes, one numeral each *)
Fixpoint streams_ok (fuel : nat) (codes : list Z) (packed : list N) : bool :=
  match fuel with
  | O => false
  | S f =>
    match codes, packed with
    | [], [] => true
    | _ :: _, p :: ps => stream_ok (firstn 729 codes) p && streams_ok f (skipn 729 codes) ps
    | _, _ => false
    end
  end.

(* torus von Neumann neighbourhood of cell (i,j) as evolve2d hands it to the rule (C02 proves the engine; here
   only the tie "the loop rules read centre/top/right/bottom/left of that block") *)
Definition grid_at (g : list (list Z)) (i j : Z) : Z :=
  let R := Z.of_nat (length g) in
  let row := nth (Z.to_nat (i mod R)) g [] in
  let C := Z.of_nat (length row) in
  nth (Z.to_nat (j mod C)) row 0.
Definition grid_key (g : list (list Z)) (i j : Z) : key :=
  (grid_at g i j, grid_at g (i - 1) j, grid_at g i (j + 1), grid_at g (i + 1) j, grid_at g i (j - 1)).
Definition grid_step_codes (w : loop) (g : list (list Z)) : list (list Z) :=
  map (fun i => map (fun j => loop_code w (grid_key g (Z.of_nat i) (Z.of_nat j)))
                    (seq 0 (length (nth 0 g []))))
      (seq 0 (length g)).

Inductive case :=
(* complete streams: loop w, fixed (C,T), the 9^3 answers of the real __call__ for all (R,B,L) *)
| CStream (w : loop) (c t : Z) (packed : N)
(* the public rule_table property of a fresh object, as (key, image) items *)
| CRuleTable (w : loop) (items : table)
(* one explicit 3x3 block (all nine cells arbitrary) through a loop's __call__ *)
| CBlock (w : loop) (n : list (list Z)) (obs : Z)
(* one evolve2d step of a loop rule with the von Neumann neighbourhood, r = 1: observed next grid as codes
   ([[9]] when the step raised ValueError, [[11]] for another exception) *)
| CGrid (w : loop) (g : list (list Z)) (obs : list (list Z))
(* user table through cpl.CTRBLRule: items of the dict, add_rotations, the observed rule_table, and the
   answers on all keys of {0..ns-1}^5 *)
| CUser (items : table) (add_rot : bool) (ns : nat) (obs_table : table) (packed : list N)
(* no aliasing: as CUser, but the caller's dict was EDITED after the rule had been constructed (`edits`: (key, new
   image), image -1 = the key was deleted) and only then the rule was queried and its rule_table read. The rule
   must still answer with the table it was constructed with: the model ignores `edits` (a functional model has no
   "later"; the content of this check is in the observation) *)
| CAlias (items : table) (add_rot : bool) (ns : nat) (edits : table) (obs_table : table) (packed : list N)
(* user table with arbitrary integer states and an explicit list of 3x3 blocks *)
| CUserQ (items : table) (add_rot : bool) (obs_table : table) (queries : list (list (list Z) * res Z))
(* one evolve2d step (von Neumann, r = 1, torus) of a USER CTRBLRule on a grid; states and images are carried
   scaled by a common factor (x4 for tables over quarter-integral float states), so keys stay integers and
   key equality is the library's (2.0 == 2). obs = Ok next grid | Raise ValueError when some cell's key is absent *)
| CUserGrid (items : table) (add_rot : bool) (g : list (list Z)) (obs : res (list (list Z)))
(* random sample of keys through a loop's __call__ with the 3x3 block in another dtype (uint8, int8, int32,
   float64, bool): answers packed as in CStream, at most 729 per numeral *)
| CSample (w : loop) (keys : list key) (packed : list N)
(* replay of a witness of a failed finite theorem: the answers of the real __call__ on the key and its three
   successive quarter-turns; checked against the PROPERTY (not against the tables' model) *)
| CWitness (w : loop) (k : key) (obs4 : list Z).

Definition st9 := states 9.

Definition model_codes (c : case) : list Z :=
  match c with
  | CStream w cc t _ => map (loop_code w) (chunk_keys st9 cc t)
  | CRuleTable w _ => map snd (loop_table w)
  | CBlock w n _ => [loop_code w (key_of_nbhd n)]
  | CGrid w g _ => concat (grid_step_codes w g)
  | CUser items ar ns _ _ => map (ctrbl_code (ctrbl_new items ar)) (all_keys (states ns))
  | CAlias items ar ns _ _ _ => map (ctrbl_code (ctrbl_new items ar)) (all_keys (states ns))
  | CUserQ items ar _ qs =>
      map (fun q => ctrbl_code (ctrbl_new items ar) (key_of_nbhd (fst q))) qs
  | CUserGrid items ar g _ =>
      concat (map (fun i => map (fun j => ctrbl_code (ctrbl_new items ar) (grid_key g (Z.of_nat i) (Z.of_nat j)))
                               (seq 0 (length (nth 0 g [])))) (seq 0 (length g)))
  | CSample w keys _ => map (loop_code w) keys
  | CWitness w k _ => [loop_code w k; loop_code w (rot k); loop_code w (rot (rot k)); loop_code w (rot (rot (rot k)))]
  end.

(* what the model computes, printable in a replay *)
Definition model_out (c : case) : list Z := model_codes c.

Definition res_code (r : res Z) : Z :=
  match r with Ok v => code_of_opt (Some v) 9 | Raise ValueError => 9 | Raise _ => 11 end.

Definition spec_of (w : loop) (k : key) : Z :=
  match w with LLangton => 9 | LSdsr => sayama_sdsr k | LEvoloop => sayama_evoloop k end.

Definition witness_ok (w : loop) (k : key) (obs4 : list Z) : bool :=
  match obs4 with
  | [a; b; c; d] =>
      (a =? b) && (a =? c) && (a =? d) &&                                 (* orientation *)
      match w with
      | LLangton => true                                                   (* nothing else is claimed *)
      | _ => (a <=? 8) &&                                                  (* total, in range *)
             (let '(cc, _, _, _, _) := k in if cc =? 8 then a =? 0 else true) &&   (* 8 always becomes 0 *)
             match dict_get k (loop_table w) with
             | Some _ => true
             | None => a =? spec_of w k                                    (* default rules *)
             end
      end
  | _ => false
  end.

Definition check_case (c : case) : bool :=
  match c with
  | CStream _ _ _ packed => stream_ok (model_codes c) packed
  | CRuleTable w items =>
      table_eqb items (loop_table w) &&
      table_eqb items (match w with
                       | LLangton => loop_new langton_literal langton_add_rotations
                       | LSdsr => sdsr_new sdsr_base_literal sdsr_base_add_rotations sdsr_extra
                       | LEvoloop => loop_new evoloop_literal evoloop_add_rotations
                       end)
  | CBlock _ _ obs => zlist_eqb (model_codes c) [obs]
  | CGrid w g obs =>
      let m := grid_step_codes w g in
      (* a ValueError anywhere aborts the step: observed as [[9]] *)
      if existsb (existsb (Z.eqb 9)) m then zgrid_eqb obs [[9]] else zgrid_eqb m obs
  | CUser items ar ns obs_table packed =>
      table_eqb (ctrbl_new items ar) obs_table &&
      streams_ok (S (length packed)) (model_codes c) packed
  | CAlias items ar ns _ obs_table packed =>
      table_eqb (ctrbl_new items ar) obs_table &&
      streams_ok (S (length packed)) (model_codes c) packed
  | CUserQ items ar obs_table qs =>
      table_eqb (ctrbl_new items ar) obs_table &&
      (* exact values and exact exception class (the property names ValueError) *)
      list_eqb (res_eqb Z.eqb) (map (fun q => CTRBLRule_call (ctrbl_new items ar) (fst q)) qs) (map snd qs)
  | CUserGrid items ar g obs =>
      let T := ctrbl_new items ar in
      let cells := map (fun i => map (fun j => ctrbl_call T (grid_key g (Z.of_nat i) (Z.of_nat j)))
                                     (seq 0 (length (nth 0 g [])))) (seq 0 (length g)) in
      let bad := existsb (existsb (fun r => match r with Ok _ => false | Raise _ => true end)) cells in
      match obs with
      | Ok o => negb bad && zgrid_eqb o (map (map (fun r => match r with Ok v => v | Raise _ => 0 end)) cells)
      | Raise ValueError => bad
      | Raise _ => false
      end
  | CSample _ _ packed => streams_ok (S (length packed)) (model_codes c) packed
  | CWitness w k obs4 => witness_ok w k obs4
  end.
