(* Correspondence for C09: the number of rule invocations of one evolve / evolve2d call and the
   sorted multiset of the neighbourhood contents the rule was given, against the call log of the
   model.  Sorted on both sides by the same function, so an equally economical order of calls does
   not alarm.  Sections: 1D (this file, now) / 2D (appended by the C04 builder). *)
From CPL Require Import Model.Base Model.Rules Model.Engine Model.Evolve1D Model.Memo1D.
(* 2D: required but NOT imported (TFixed, TLt, ... exist in both models): 2D names are written qualified *)
From CPL Require Model.Evolve2D Model.Memo2D.
Local Open Scope Z_scope.

(* ------------------------------------------------------------------ shared: sorting of contents *)
(* lexicographic order on lists of integers, a proper prefix first *)
Fixpoint zlist_leb (a b : list Z) : bool :=
  match a, b with
  | [], _ => true
  | _ :: _, [] => false
  | x :: a', y :: b' => if x <? y then true else if y <? x then false else zlist_leb a' b'
  end.
Fixpoint insert_sorted (x : list Z) (l : list (list Z)) : list (list Z) :=
  match l with
  | [] => [x]
  | y :: l' => if zlist_leb x y then x :: l else y :: insert_sorted x l'
  end.
Definition sort_contents (l : list (list Z)) : list (list Z) := fold_right insert_sorted [] l.

(* ------------------------------------------------------------------ 1D *)
(* what is observed of one call: how often the rule callable was entered, and with which
   neighbourhood contents *)
Definition calls_obs := (nat * list (list Z))%type.

Definition calls_of_log1 (lg : list call1) : calls_obs :=
  (length lg, sort_contents (map call_key lg)).

Definition model_calls1 (c : call) : res calls_obs :=
  match run_call c with Ok (lg, _) => Ok (calls_of_log1 lg) | Raise e => Raise e end.

Definition calls_obs_eqb (a b : calls_obs) : bool :=
  Nat.eqb (fst a) (fst b) && zgrid_eqb (snd a) (sort_contents (snd b)).

(* ------------------------------------------------------------------ 2D: added by the C04 builder *)
(* contents of a 2D rule call = the neighbourhood flattened row-major with masked cells filled with 0
   (what MaskedArray.tobytes() hashes: masked cells do not count); for 'Moore' the plain contents *)
Definition calls_of_log2 (lg : list call2) : calls_obs :=
  (length lg, sort_contents (map Memo2D.call2_key lg)).

Definition model_calls2 (c : Memo2D.call2d) : res calls_obs :=
  match Memo2D.run_call2d c with Ok (lg, _) => Ok (calls_of_log2 lg) | Raise e => Raise e end.

(* ------------------------------------------------------------------ cases *)
Inductive case :=
| CCalls1 (c : call) (obs : res calls_obs)
| CCalls2 (c : Memo2D.call2d) (obs : res calls_obs).

Definition model_out (c : case) : res calls_obs :=
  match c with
  | CCalls1 cl _ => model_calls1 cl
  | CCalls2 cl _ => model_calls2 cl
  end.

Definition check_case (c : case) : bool :=
  match c with
  | CCalls1 cl obs => res_eqb_anyexc calls_obs_eqb (model_calls1 cl) obs
  | CCalls2 cl obs => res_eqb_anyexc calls_obs_eqb (model_calls2 cl) obs
  end.
