(* Correspondence for C13: compare the heap model of ReversibleRule + evolve with what /repo did on
   the same inputs.  Observables (exactly what the property constrains): the returned array, every
   object the caller held (the automaton, the list / tuple / array / other array passed as
   init_state) as it is AFTER the call -- observed also when the call raised -- and, for runs that
   are continued with the SAME rule object, the rule's own previous-state vector between and after
   the runs (the state the second-order theorem says it holds). *)
From CPL Require Import Model.Base Model.Reversible.

Inductive case :=
(* rule = ReversibleRule(<arg>, R); out = evolve(<array at ca_id>, T, rule, r=1);
   obs = out (or the exception), after = the caller's objects after the call, in heap order.
   lenient = the input is outside the property's domain (float-valued init_state, on which `^`
   raises TypeError): then an exception is accepted, but the caller's objects must be intact and a
   returned array must still be the model's. *)
| CRun (lenient : bool) (h : heap) (ca_id : nat) (arg : init_arg) (R : N) (T : nat)
       (obs : res (list (list Z))) (after : heap)
(* forward: out1 = evolve([init], T, ReversibleRule(prev, R)); backward: out2 =
   evolve([out1[-2]], T, ReversibleRule(out1[-1], R));  obs = (out1, out2) *)
| CRetrace (prev init : list Z) (R : N) (T : nat)
           (obs : res (list (list Z) * list (list Z)))
(* rule = ReversibleRule(<arg>, R); out1 = evolve(ca, T1, rule); p1 = rule._previous_state;
   out2 = evolve(out1, T2, rule)  -- the SAME object --; p2 = rule._previous_state;
   obs = ((out1, p1), (out2, p2)), after = the caller's objects after both calls *)
| CContinue (h : heap) (ca_id : nat) (arg : init_arg) (R : N) (T1 T2 : nat)
            (obs : res ((list (list Z) * list Z) * (list (list Z) * list Z))) (after : heap).

Definition model_run (h : heap) (ca_id : nat) (arg : init_arg) (R : N) (T : nat)
  : res (list (list Z) * heap) :=
  bind (run_reversible h ca_id arg R T 1)
       (fun r => Ok (snd r, firstn (length h) (fst r))).

Definition model_retrace (prev init : list Z) (R : N) (T : nat)
  : res (list (list Z) * list (list Z)) :=
  bind (run_reversible [[init]; [prev]] 0 (ArgList 1) R T 1) (fun r1 =>
  let out1 := snd r1 in
  bind (run_reversible [[nth (T - 2) out1 []]; [nth (T - 1) out1 []]] 0 (ArgArray 1) R T 1) (fun r2 =>
  Ok (out1, snd r2))).

(* the rule object's state is threaded: the second evolve runs on the heap the first one left,
   extended with the array the first one returned (a new object), with the same rev_obj *)
Definition model_continue (h : heap) (ca_id : nat) (arg : init_arg) (R : N) (T1 T2 : nat)
  : res (((list (list Z) * list Z) * (list (list Z) * list Z)) * heap) :=
  let '(h1, o) := mk_reversible h arg R in
  bind (evolve_heap h1 ca_id T1 o 1) (fun r1 =>
  let '(h2, out1) := r1 in
  let '(h3, id1) := h_alloc h2 out1 in
  bind (evolve_heap h3 id1 T2 o 1) (fun r2 =>
  let '(h4, out2) := r2 in
  Ok (((out1, h_row h2 (prev_ref o)), (out2, h_row h4 (prev_ref o))), firstn (length h) h4))).

(* what the model computes, printable in a replay: (the array returned last, [other arrays;
   private vectors as one-row arrays; the caller's objects]) *)
Definition model_out (c : case) : res (list (list Z) * list (list (list Z))) :=
  match c with
  | CRun _ h ca_id arg R T _ _ => model_run h ca_id arg R T
  | CRetrace prev init R T _ => bind (model_retrace prev init R T) (fun p => Ok (fst p, [snd p]))
  | CContinue h ca_id arg R T1 T2 _ _ =>
      bind (model_continue h ca_id arg R T1 T2) (fun p =>
      let '(((out1, p1), (out2, p2)), aft) := p in Ok (out2, [out1; [p1]; [p2]] ++ aft))
  end.

Definition pair_eqb {A B} (ea : A -> A -> bool) (eb : B -> B -> bool) (x y : A * B) : bool :=
  ea (fst x) (fst y) && eb (snd x) (snd y).

Definition check_case (c : case) : bool :=
  match c with
  | CRun lenient h ca_id arg R T obs after =>
      match model_run h ca_id arg R T with
      | Ok (out, aft) =>
          zhist_eqb aft after &&
          match obs with Ok o => zgrid_eqb out o | Raise _ => lenient end
      | Raise _ => match obs with Raise _ => zhist_eqb h after | Ok _ => false end
      end
  | CRetrace prev init R T obs =>
      res_eqb_anyexc (pair_eqb zgrid_eqb zgrid_eqb) (model_retrace prev init R T) obs
      (* and the theorem's conclusion on the observed arrays themselves *)
      && match obs with
         | Ok (out1, out2) => zgrid_eqb out2 (rev (removelast out1) ++ [prev])
         | Raise _ => true
         end
  | CContinue h ca_id arg R T1 T2 obs after =>
      match model_continue h ca_id arg R T1 T2, obs with
      | Ok (m, aft), Ok o =>
          pair_eqb (pair_eqb zgrid_eqb zlist_eqb) (pair_eqb zgrid_eqb zlist_eqb) m o && zhist_eqb aft after
      | Raise _, Raise _ => zhist_eqb h after
      | _, _ => false
      end
  end.
