(* Correspondence for C13: compare the heap model of ReversibleRule + evolve with what /repo did on
   the same inputs.  Observables (exactly what the property constrains): the returned array, and
   every object the caller held (the automaton, the list / array / other array passed as
   init_state) as it is AFTER the call. *)
From CPL Require Import Model.Base Model.Reversible.

Inductive case :=
(* rule = ReversibleRule(<arg>, R); out = evolve(<array at ca_id>, T, rule, r=1);
   obs = (out, the caller's objects after the call, in heap order) *)
| CRun (h : heap) (ca_id : nat) (arg : init_arg) (R : N) (T : nat)
       (obs : res (list (list Z) * heap))
(* forward: out1 = evolve([init], T, ReversibleRule(prev, R)); backward: out2 =
   evolve([out1[-2]], T, ReversibleRule(out1[-1], R));  obs = (out1, out2) *)
| CRetrace (prev init : list Z) (R : N) (T : nat)
           (obs : res (list (list Z) * list (list Z))).

Definition model_run (h : heap) (ca_id : nat) (arg : init_arg) (R : N) (T : nat)
  : res (list (list Z) * heap) :=
  bind (run_reversible h ca_id arg R T 1)
       (fun r => Ok (snd r, firstn (length h) (fst r))).

Definition model_retrace (prev init : list Z) (R : N) (T : nat)
  : res (list (list Z) * list (list Z)) :=
  bind (run_reversible [[init]; [prev]] 0 (ArgList 1) R T 1) (fun r1 =>
  let out1 := snd r1 in
  bind (run_reversible [[nth (T - 2) out1 []]; [nth (T - 1) out1 []]] 0 (ArgArray 1) R T 1) (fun r2 =>
  Ok (out1, snd r2))).

(* what the model computes, printable in a replay: (first array, second array or the caller's
   objects flattened to their rows) *)
Definition model_out (c : case) : res (list (list Z) * list (list (list Z))) :=
  match c with
  | CRun h ca_id arg R T _ => model_run h ca_id arg R T
  | CRetrace prev init R T _ => bind (model_retrace prev init R T) (fun p => Ok (fst p, [snd p]))
  end.

Definition pair_eqb {A B} (ea : A -> A -> bool) (eb : B -> B -> bool) (x y : A * B) : bool :=
  ea (fst x) (fst y) && eb (snd x) (snd y).

Definition check_case (c : case) : bool :=
  match c with
  | CRun h ca_id arg R T obs =>
      res_eqb_anyexc (pair_eqb zgrid_eqb zhist_eqb) (model_run h ca_id arg R T) obs
  | CRetrace prev init R T obs =>
      res_eqb_anyexc (pair_eqb zgrid_eqb zgrid_eqb) (model_retrace prev init R T) obs
      (* and the theorem's conclusion on the observed arrays themselves *)
      && match obs with
         | Ok (out1, out2) => zgrid_eqb out2 (rev (removelast out1) ++ [prev])
         | Raise _ => true
         end
  end.
