(* Correspondence for C20: HopfieldNet(num_cells=N) with the constructor's shuffle scripted,
   train(P), then one or more cpl.evolve(initial, timesteps=T, apply_rule=net.apply_rule, r=net.r) on the
   SAME net (the AsynchronousRule object keeps _curr between the calls).
   The model that is compared is the full engine model: evolve_plain (Model/Evolve1D.v) driving
   async_rule1 (Model/Async.v, scripted shuffle oracle) wrapping hopfield_rule1 (Model/Hopfield.v),
   i.e. exactly the object of Proofs/HopfieldAsync.v, its state threaded from one evolve to the next.
   The direct schedule model ("cell order[curr] is updated to _rule, curr advances") is evaluated as well
   and has to agree. *)
From CPL Require Import Model.Base Model.Rules Model.Engine Model.Evolve1D Model.Async Model.Hopfield.
Local Open Scope Z_scope.

Inductive case :=
| CHop (N : nat)                      (* num_cells *)
       (P : list (list Z))            (* training patterns (of the LAST train call) *)
       (perm : list nat)              (* outcome of the constructor's np.random.shuffle on arange(N) *)
       (pre : list (list Z * nat))    (* earlier evolutions on the same net: (initial row, timesteps) *)
       (s : list Z)                   (* initial row of the last evolution *)
       (T : nat)                      (* its timesteps *)
       (obs_r : res nat)              (* net.r *)
       (obs_W : res (list (list Z)))  (* net.W after train *)
       (obs_pre : list (res (list (list Z))))   (* the arrays of the earlier evolutions *)
       (obs_rows : res (list (list Z)))   (* the array of the last evolution *)
       (obs_E2 : list Z).             (* 2E of every row of the last evolution, computed in Python from net.W *)

Definition sh_of (perm : list nat) : nat -> list nat -> list nat := script_sh 0%nat [perm].

(* consecutive evolutions on one rule object; the script stops at the first exception *)
Fixpoint evolve_seq (W : list (list Z)) (r : nat) (sh : nat -> list nat -> list nat) (a : astate nat unit)
         (runs : list (list Z * nat)) : list (res (list (list Z))) :=
  match runs with
  | [] => []
  | (s, T) :: rest =>
      match evolve_plain (async_rule1 (hopfield_rule1 W r) sh) store_id r a [s] T with
      | Ok (a', rows) => Ok rows :: evolve_seq W r sh a' rest
      | Raise e => [Raise e]
      end
  end.
Fixpoint evolve_seq_direct (W : list (list Z)) (r : nat) (order : list nat) (k : nat)
         (runs : list (list Z * nat)) : list (res (list (list Z))) :=
  match runs with
  | [] => []
  | (s, T) :: rest =>
      match evolve_fixed [] (sched_step W r order) k [s] T with
      | Ok (k', rows) => Ok rows :: evolve_seq_direct W r order k' rest
      | Raise e => [Raise e]
      end
  end.

Definition model_W (c : case) : res (list (list Z)) := match c with CHop _ P _ _ _ _ _ _ _ _ _ => train P end.
Definition model_r (c : case) : nat := match c with CHop N _ _ _ _ _ _ _ _ _ _ => hopfield_r N end.

(* through the engine and the AsynchronousRule model: the arrays of all evolutions, the last one last *)
Definition model_runs (c : case) : res (list (res (list (list Z)))) :=
  match c with
  | CHop N P perm pre s T _ _ _ _ _ =>
      bind (train P) (fun W =>
        Ok (evolve_seq W (hopfield_r N) (sh_of perm)
              (async_init_cells (sh_of perm) (init_order1 N) false tt) (pre ++ [(s, T)])))
  end.
Definition model_runs_direct (c : case) : res (list (res (list (list Z)))) :=
  match c with
  | CHop N P perm pre s T _ _ _ _ _ =>
      bind (train P) (fun W => Ok (evolve_seq_direct W (hopfield_r N) perm 0%nat (pre ++ [(s, T)])))
  end.
Definition model_rows (c : case) : res (list (list Z)) :=
  bind (model_runs c) (fun l => last l (Raise OtherError)).
Definition model_E2 (c : case) : res (list Z) :=
  bind (model_W c) (fun W => bind (model_rows c) (fun rows => Ok (map (energy2 W) rows))).

Definition model_out (c : case) := (model_r c, model_W c, model_runs c, model_E2 c).

Definition runs_eqb := list_eqb (res_eqb_anyexc zgrid_eqb).

(* every model component is evaluated once (vm_compute is call-by-value: the lets are shared) *)
Definition check_case (c : case) : bool :=
  match c with
  | CHop N P perm pre s T obs_r obs_W obs_pre obs_rows obs_E2 =>
      let mW := train P in
      let r := hopfield_r N in
      let runs := pre ++ [(s, T)] in
      let mruns := bind mW (fun W => Ok (evolve_seq W r (sh_of perm)
                                           (async_init_cells (sh_of perm) (init_order1 N) false tt) runs)) in
      let mdirect := bind mW (fun W => Ok (evolve_seq_direct W r perm 0%nat runs)) in
      let mrows := bind mruns (fun l => last l (Raise OtherError)) in
      let mE2 := bind mW (fun W => bind mrows (fun rows => Ok (map (energy2 W) rows))) in
      res_eqb Nat.eqb (Ok r) obs_r
      && res_eqb_anyexc zgrid_eqb mW obs_W
      && res_eqb_anyexc runs_eqb mruns (bind obs_W (fun _ => Ok (obs_pre ++ [obs_rows])))
      && res_eqb_anyexc runs_eqb mdirect mruns
      && res_eqb_anyexc zlist_eqb mE2 (bind obs_rows (fun _ => Ok obs_E2))
  end.

(* check_case is model_out compared component-wise with the observations *)
Lemma check_case_model_out : forall c,
  check_case c =
  match c with
  | CHop _ _ _ _ _ _ obs_r obs_W obs_pre obs_rows obs_E2 =>
      res_eqb Nat.eqb (Ok (model_r c)) obs_r
      && res_eqb_anyexc zgrid_eqb (model_W c) obs_W
      && res_eqb_anyexc runs_eqb (model_runs c) (bind obs_W (fun _ => Ok (obs_pre ++ [obs_rows])))
      && res_eqb_anyexc runs_eqb (model_runs_direct c) (model_runs c)
      && res_eqb_anyexc zlist_eqb (model_E2 c) (bind obs_rows (fun _ => Ok obs_E2))
  end.
Proof. intros [N P perm pre s T o1 o2 o3 o4 o5]. reflexivity. Qed.
