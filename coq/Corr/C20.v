(* Correspondence for C20: HopfieldNet(num_cells=N) with the constructor's shuffle scripted,
   train(P), cpl.evolve(initial, timesteps=T, apply_rule=net.apply_rule, r=net.r).
   The model that is compared is the full engine model: evolve_plain (Model/Evolve1D.v) driving
   async_rule1 (Model/Async.v, scripted shuffle oracle) wrapping hopfield_rule1 (Model/Hopfield.v),
   i.e. exactly the object of Proofs/HopfieldAsync.v.  The direct schedule model hop_evolve
   ("cell order[(t-1) mod N] is updated to _rule") is evaluated as well and has to agree. *)
From CPL Require Import Model.Base Model.Rules Model.Engine Model.Evolve1D Model.Async Model.Hopfield.
Local Open Scope Z_scope.

Inductive case :=
| CHop (N : nat)                      (* num_cells *)
       (P : list (list Z))            (* training patterns *)
       (perm : list nat)              (* outcome of the constructor's np.random.shuffle on arange(N) *)
       (s : list Z)                   (* initial row *)
       (T : nat)                      (* timesteps *)
       (obs_r : res nat)              (* net.r *)
       (obs_W : res (list (list Z)))  (* net.W after train *)
       (obs_rows : res (list (list Z)))   (* the evolved array *)
       (obs_E2 : list Z).             (* 2E of every returned row, computed in Python from net.W *)

Definition sh_of (perm : list nat) : nat -> list nat -> list nat := script_sh 0%nat [perm].

Definition model_W (c : case) : res (list (list Z)) := match c with CHop _ P _ _ _ _ _ _ _ => train P end.
Definition model_r (c : case) : nat := match c with CHop N _ _ _ _ _ _ _ _ => hopfield_r N end.

(* through the engine and the AsynchronousRule model *)
Definition model_rows (c : case) : res (list (list Z)) :=
  match c with
  | CHop N P perm s T _ _ _ _ =>
      bind (train P) (fun W =>
        let r := hopfield_r N in
        bind (evolve_plain (async_rule1 (hopfield_rule1 W r) (sh_of perm)) store_id r
                (async_init_cells (sh_of perm) (init_order1 N) false tt) [s] T)
             (fun xr => Ok (snd xr)))
  end.

(* the direct schedule model *)
Definition model_rows_direct (c : case) : res (list (list Z)) :=
  match c with
  | CHop N P perm s T _ _ _ _ =>
      bind (train P) (fun W => bind (hop_evolve W (hopfield_r N) perm s T) (fun kr => Ok (snd kr)))
  end.

Definition model_E2 (c : case) : res (list Z) :=
  bind (model_W c) (fun W => bind (model_rows c) (fun rows => Ok (map (energy2 W) rows))).

Definition model_out (c : case) := (model_r c, model_W c, model_rows c, model_E2 c).

(* every model component is evaluated once (vm_compute is call-by-value: the lets are shared) *)
Definition check_case (c : case) : bool :=
  match c with
  | CHop N P perm s T obs_r obs_W obs_rows obs_E2 =>
      let mW := train P in
      let r := hopfield_r N in
      let mrows := bind mW (fun W =>
                     bind (evolve_plain (async_rule1 (hopfield_rule1 W r) (sh_of perm)) store_id r
                             (async_init_cells (sh_of perm) (init_order1 N) false tt) [s] T)
                          (fun xr => Ok (snd xr))) in
      let mdirect := bind mW (fun W => bind (hop_evolve W r perm s T) (fun kr => Ok (snd kr))) in
      let mE2 := bind mW (fun W => bind mrows (fun rows => Ok (map (energy2 W) rows))) in
      res_eqb Nat.eqb (Ok r) obs_r
      && res_eqb_anyexc zgrid_eqb mW obs_W
      && res_eqb_anyexc zgrid_eqb mrows obs_rows
      && res_eqb_anyexc zgrid_eqb mdirect mrows
      && res_eqb_anyexc zlist_eqb mE2 (bind obs_rows (fun _ => Ok obs_E2))
  end.

(* check_case is model_out compared component-wise with the observations *)
Lemma check_case_model_out : forall c,
  check_case c =
  match c with
  | CHop _ _ _ _ _ obs_r obs_W obs_rows obs_E2 =>
      res_eqb Nat.eqb (Ok (model_r c)) obs_r
      && res_eqb_anyexc zgrid_eqb (model_W c) obs_W
      && res_eqb_anyexc zgrid_eqb (model_rows c) obs_rows
      && res_eqb_anyexc zgrid_eqb (model_rows_direct c) (model_rows c)
      && res_eqb_anyexc zlist_eqb (model_E2 c) (bind obs_rows (fun _ => Ok obs_E2))
  end.
Proof. intros [N P perm s T o1 o2 o3 o4]. reflexivity. Qed.
