(* Correspondence for C16: the doubles returned by /repo (transported exactly as mantissa * 2^exponent)
   must lie within 2^-30 of the real value of the model, decided through the verified 80-bit enclosure
   (Model/EntropyI.v: within_sound); the exact layer (symbol counts in the order of the code, the
   verdict of the temporal-distance guard) is compared exactly. *)
From Coq Require Import ZArith List.
From CPL Require Import Model.Base Model.EntropyExact Model.EntropyI.
Import ListNotations.

(* a symbol = the code points of its str (one character of a Python string, or one element of a list) *)
Definition sym := list Z.
Definition sym_dec : forall a b : sym, {a = b} + {a <> b} := list_eq_dec Z.eq_dec.

Definition dbl := option (Z * Z).           (* Some (m, e) = m * 2^e ; None = nan or infinity *)
Definition cell := (list nat * list nat * list nat * nat)%type.   (* cX, cY, cXY, n *)

(* ref = the exact layer as RECOVERED FROM /repo during the call (the arguments of math.log / np.log2 spied by the
   harness, turned back into multiplicities), one cell per entropy-bearing unit; None when the code did not
   compute it through those calls (then only the double is compared) *)
Definition refs := option (list cell).

(* one call of a sequence on ONE array object that is modified in place between the calls:
   rows = the contents of the array AT THE TIME of that call *)
Inductive step :=
| SAce (rows : list (list Z)) (ref : refs) (obs : res dbl)
| SAmi (rows : list (list Z)) (d : Z) (ref : refs) (obs : res dbl).

Inductive case :=
| CShannon (s : list sym) (ref : refs) (obs : res dbl)
| CJoint (X Y : list sym) (ref : refs) (obs : res dbl)
| CMI (X Y : list sym) (ref : refs) (obs : res dbl)
| CACE (rows : list (list Z)) (ref : refs) (obs : res dbl)
| CAMI (rows : list (list Z)) (d : Z) (ref : refs) (obs : res dbl)
| CSeq (steps : list step).

Definition step_case (s : step) : case :=
  match s with SAce r f o => CACE r f o | SAmi r d f o => CAMI r d f o end.

(* what the model computes: the exact layer as cells, and the enclosure of the real value *)
Definition model_out1 (c : case) : res (list cell * I.type) :=
  match c with
  | CShannon s _ _ => Ok ([(count_list sym_dec s, [], [], length s)], shannonI prec80 sym_dec tab80 s)
  | CJoint X Y _ _ => Ok ([([], [], joint_count_list sym_dec sym_dec X Y, length X)], jointI prec80 sym_dec sym_dec tab80 X Y)
  | CMI X Y _ _ => Ok ([mi_counts sym_dec sym_dec X Y], miI prec80 sym_dec sym_dec tab80 X Y)
  | CACE rows _ _ => Ok (map (fun cn => (fst cn, [], [], snd cn)) (ace_cells rows), aceI prec80 tab80 rows)
  | CAMI rows d _ _ =>
      match ami_cells rows d with      (* = amiI prec80 tab80 rows d, with the cells computed once *)
      | Ok cells => Ok (cells, amiI_of_cells prec80 tab80 rows d cells)
      | Raise e => Raise e
      end
  | CSeq _ => Ok ([], I.nai)
  end.

Definition reference (c : case) : refs :=
  match c with
  | CShannon _ ref _ | CJoint _ _ ref _ | CMI _ _ ref _ | CACE _ ref _ | CAMI _ _ ref _ => ref
  | CSeq _ => None
  end.

Definition observed (c : case) : res dbl :=
  match c with
  | CShannon _ _ o | CJoint _ _ _ o | CMI _ _ _ o | CACE _ _ o | CAMI _ _ _ o => o
  | CSeq _ => Ok None
  end.

(* equality up to order (the order in which the code visits symbols, pairs or cells is incidental) *)
Fixpoint remove_first {A} (eqb : A -> A -> bool) (x : A) (l : list A) : option (list A) :=
  match l with
  | [] => None
  | y :: t => if eqb x y then Some t else option_map (cons y) (remove_first eqb x t)
  end.
Fixpoint perm_eqb {A} (eqb : A -> A -> bool) (a b : list A) : bool :=
  match a with
  | [] => match b with [] => true | _ => false end
  | x :: a' => match remove_first eqb x b with Some b' => perm_eqb eqb a' b' | None => false end
  end.
Definition natbag_eqb := perm_eqb Nat.eqb.
Definition cell_eqb (a b : cell) : bool :=
  let '(a1, a2, a3, a4) := a in let '(b1, b2, b3, b4) := b in
  natbag_eqb a1 b1 && natbag_eqb a2 b2 && natbag_eqb a3 b3 && Nat.eqb a4 b4.
Definition exact_agrees (cells : list cell) (r : refs) : bool :=
  match r with None => true | Some l => perm_eqb cell_eqb cells l end.

(* agreement: same verdict (the class ValueError is part of the property); when accepted, the exact layer
   equals (up to order) the multiplicities recovered from the call and the double is finite and within 2^-30 of the enclosed real value *)
Definition check1 (c : case) : bool :=
  match model_out1 c, observed c with
  | Ok (cells, iv), Ok (Some (m, e)) => exact_agrees cells (reference c) && within prec80 iv m e
  | Raise e, Raise f => exc_eqb e f
  | _, _ => false
  end.

(* a sequence agrees when every call agrees with the model ON THE CONTENTS AT THAT TIME *)
Definition check_case (c : case) : bool :=
  match c with
  | CSeq steps => forallb (fun s => check1 (step_case s)) steps
  | _ => check1 c
  end.

(* printable model output; for a sequence: of the first call that disagrees (of the last call when all agree) *)
Definition model_out (c : case) : res (list cell * I.type) :=
  match c with
  | CSeq steps =>
      match filter (fun s => negb (check1 (step_case s))) steps with
      | s :: _ => model_out1 (step_case s)
      | [] => model_out1 (step_case (last steps (SAce [] None (Ok None))))
      end
  | _ => model_out1 c
  end.
