(* Correspondence for C01: compare the model of evolve(ca, T | pred, rule, r, memoize=False) with what
   /repo returned on the same inputs: the array (values and shape) and, when recorded, the exact
   (n, c, t) argument log of the rule. *)
From CPL Require Import Model.Base Model.Rules Model.Engine Model.Evolve1D.
Local Open Scope Z_scope.

(* the rule's return value is value/scale (scale = 1: an integer; scale = 4: a float with two
   binary places); assigning it into an integer automaton truncates toward zero *)
Definition store_of (scale : Z) : Z -> Z := if scale =? 1 then store_id else fun q => Z.quot q scale.

Definition observation := (list (list Z) * option (list call1))%type.

Inductive case :=
| CEvolve (dyn : bool)                 (* timesteps = (lambda ca, t: t < T) instead of T *)
          (scale : Z) (hist : list (list Z)) (T r : nat) (sp : rule_spec)
          (obs : res observation).

Definition model_run (dyn : bool) (scale : Z) (hist : list (list Z)) (T r : nat) (sp : rule_spec)
  : res (list (list Z) * list call1) :=
  let rule := logged1 (spec_rule1 sp) in
  if dyn then
    match evolve_plain_dynamic rule (store_of scale) (pred_lt T) r (S T) tt (0%nat, []) hist with
    | Some (_, (_, lg), out, _) => Ok (out, lg)
    | None => Raise OtherError
    end
  else
    match evolve_plain rule (store_of scale) r (0%nat, []) hist T with
    | Ok ((_, lg), out) => Ok (out, lg)
    | Raise e => Raise e
    end.

Definition model_out (c : case) : res (list (list Z) * list call1) :=
  match c with CEvolve dyn scale hist T r sp _ => model_run dyn scale hist T r sp end.

Definition call_eqb (a b : call1) : bool :=
  let '(n, c, t) := a in let '(n', c', t') := b in zlist_eqb n n' && Nat.eqb c c' && Nat.eqb t t'.

Definition obs_eqb (m : list (list Z) * list call1) (o : observation) : bool :=
  zgrid_eqb (fst m) (fst o) &&
  match snd o with Some lg => list_eqb call_eqb (snd m) lg | None => true end.

Definition check_case (c : case) : bool :=
  match c with
  | CEvolve dyn scale hist T r sp obs =>
      match model_run dyn scale hist T r sp, obs with
      | Ok m, Ok o => obs_eqb m o
      | Raise _, Raise _ => true
      | _, _ => false
      end
  end.
