(* Correspondence for C01: compare the model of evolve(ca, T | pred, rule, r, memoize=False) with what
   /repo returned on the same inputs: the array (values, shape, dtype name), when recorded the exact
   (n, c, t) argument log of the rule, and when recorded the caller's array after the call. *)
From CPL Require Import Model.Base Model.Rules Model.Engine Model.Evolve1D.
Local Open Scope Z_scope.

(* the rule's return value is value/scale (scale = 1: an integer; scale = 4: a float with two
   binary places); assigning it into an integer automaton truncates toward zero *)
Definition store_of (scale : Z) : Z -> Z := if scale =? 1 then store_id else fun q => Z.quot q scale.

(* the dtype of an array, by name; DOther = anything else (never equal to anything) *)
Inductive dtype := DInt32 | DInt64 | DUInt8 | DUInt64 | DFloat64 | DOther.
Definition dtype_eqb (a b : dtype) : bool :=
  match a, b with
  | DInt32, DInt32 | DInt64, DInt64 | DUInt8, DUInt8 | DUInt64, DUInt64 | DFloat64, DFloat64 => true
  | _, _ => false
  end.

(* what /repo returned: the array, the rule's argument log (when recorded), the dtype of the array, and
   (when recorded) the caller's array after the call *)
Record observation := MkObs {
  o_array : list (list Z);
  o_log : option (list call1);
  o_dtype : dtype;
  o_after : option (list (list Z)) }.

Inductive case :=
| CEvolve (dyn : bool)                 (* timesteps = (lambda ca, t: t < T) instead of T *)
          (scale : Z) (dt : dtype)      (* dtype of the automaton passed in *)
          (hist : list (list Z)) (T r : nat) (sp : rule_spec)
          (obs : res observation)
(* cases outside the Z-valued model (float overflow to inf, signed zeros): decided by the Python oracle
   against an independent reference ring update; they agree trivially here *)
| CNoModel.

Definition model_run (dyn : bool) (scale : Z) (hist : list (list Z)) (T r : nat) (sp : rule_spec)
  : res (list (list Z) * list call1) :=
  let rule := logged1 (spec_rule1 sp) in
  if dyn then
    match evolve_plain_dynamic rule (store_of scale) (pred_lt T) r (S T) tt (0%nat, []) hist with
    | Some (_, (_, lg), out, _) => Ok (out, lg)
    | None => Raise OtherError
    end
  else
    match evolve_plain rule (store_of scale) r (0%nat, []) hist T with
    | Ok ((_, lg), out) => Ok (out, lg)
    | Raise e => Raise e
    end.

(* array, log, dtype of the result (= the automaton's), the caller's array afterwards (= unchanged) *)
Definition model_out (c : case) : res (list (list Z) * list call1 * dtype * list (list Z)) :=
  match c with
  | CEvolve dyn scale dt hist T r sp _ =>
      match model_run dyn scale hist T r sp with
      | Ok (out, lg) => Ok (out, lg, dt, hist)
      | Raise e => Raise e
      end
  | CNoModel => Ok ([], [], DOther, [])
  end.

Definition call_eqb (a b : call1) : bool :=
  let '(n, c, t) := a in let '(n', c', t') := b in zlist_eqb n n' && Nat.eqb c c' && Nat.eqb t t'.

Definition obs_eqb (m : list (list Z) * list call1 * dtype * list (list Z)) (o : observation) : bool :=
  let '(out, lg, dt, after) := m in
  zgrid_eqb out (o_array o) &&
  match o_log o with Some l => list_eqb call_eqb lg l | None => true end &&
  dtype_eqb dt (o_dtype o) &&
  match o_after o with Some a => zgrid_eqb after a | None => true end.

Definition check_case (c : case) : bool :=
  match c with
  | CEvolve dyn scale dt hist T r sp obs =>
      match model_out c, obs with
      | Ok m, Ok o => obs_eqb m o
      | Raise _, Raise _ => true
      | _, _ => false
      end
  | CNoModel => true
  end.
