(* C04 — 2D memoization is transparent (memoize=True and memoize="recursive" equal memoize=False).
   Property theorems only: each is closed by `exact` of a lemma proved in Proofs/Memo2DProofs.v.
   Model: Model/Memo2D.v (the code after the committed fixes: `memoize == "recursive"`, margin r). *)
From Coq Require Import String.
From CPL Require Import Model.Base Model.Rules Model.Engine Model.Evolve2D Model.Memo2D Proofs.Memo2DProofs.
Local Open Scope nat_scope.

(* memoize=True, fixed number of timesteps: for every R x C grid (R, C >= 1), every radius 0 <= r <= min(R, C),
   both neighbourhood types, every history, every T, every dtype cast `store`, and every pure rule f
   whose result depends only on the unmasked entries of the neighbourhood, the returned array (or the
   exception) is that of memoize=False. *)
Theorem C04_memo2d_true_transparent :
  forall (f : nbhd2 -> Z) (store : Z -> Z) (r : nat) (ty : nbhd_type) (R C : nat) (hist : list grid) (T : nat),
  (forall n n', nb_mask n = nb_mask n' -> unmasked n = unmasked n' -> f n = f n') ->
  1 <= R -> 1 <= C -> r <= Nat.min R C ->
  length (last hist []) = R /\ Forall (fun row => length row = C) (last hist []) ->
  arr2_of (evolve2d_mode_fixed (pure_rule2 f) store Memo r ty tt hist T)
  = arr2_of (evolve2d_mode_fixed (pure_rule2 f) store Plain r ty tt hist T).
Proof.
  intros f store r ty R C hist T Hum.
  exact (memo2d_true_fixed unit (pure_rule2 f) store f (answers_pure f) Hum r ty R C hist T tt).
Qed.

(* memoize=True, callable timesteps: any stopping predicate (with any state of its own); the array AND the
   log of the predicate's arguments are those of memoize=False (None = out of fuel on both sides) *)
Theorem C04_memo2d_true_transparent_callable :
  forall (f : nbhd2 -> Z) (store : Z -> Z) (r : nat) (ty : nbhd_type) (R C : nat) (hist : list grid)
         (P : Type) (pred : P -> list grid -> nat -> P * bool) (fuel : nat) (p0 : P),
  (forall n n', nb_mask n = nb_mask n' -> unmasked n = unmasked n' -> f n = f n') ->
  1 <= R -> 1 <= C -> r <= Nat.min R C ->
  length (last hist []) = R /\ Forall (fun row => length row = C) (last hist []) ->
  dyn_arr2_of (evolve2d_mode_dynamic (pure_rule2 f) store pred Memo r ty fuel p0 tt hist)
  = dyn_arr2_of (evolve2d_mode_dynamic (pure_rule2 f) store pred Plain r ty fuel p0 tt hist).
Proof.
  intros f store r ty R C hist P pred fuel p0 Hum.
  exact (memo2d_true_dynamic unit (pure_rule2 f) store f (answers_pure f) Hum r ty pred R C hist fuel p0 tt).
Qed.

(* The same, with the hypothesis on the rule restricted to the neighbourhoods the engine actually builds: f need
   only be mask-respecting on _get_neighbourhood(g, row, col) of well-shaped R x C grids g and cells row < R, col < C
   (values = the torus block of the cell, mask = the mask of the neighbourhood type and radius) — nothing is asked
   about ragged blocks or blocks carrying another mask.  This is the form real rules satisfy (Game of Life and the
   sandpile read n[r][r] from the data); C04_memo2d_true_transparent above is its corollary. *)
Theorem C04_memo2d_true_transparent_on_built_neighbourhoods :
  forall (f : nbhd2 -> Z) (store : Z -> Z) (r : nat) (ty : nbhd_type) (R C : nat) (hist : list grid) (T : nat),
  (forall g g' row col row' col',
     (length g = R /\ Forall (fun x => length x = C) g) -> (length g' = R /\ Forall (fun x => length x = C) g') ->
     row < R -> col < C -> row' < R -> col' < C ->
     nb_mask (get_neighbourhood g R C r row col ty) = nb_mask (get_neighbourhood g' R C r row' col' ty) ->
     unmasked (get_neighbourhood g R C r row col ty) = unmasked (get_neighbourhood g' R C r row' col' ty) ->
     f (get_neighbourhood g R C r row col ty) = f (get_neighbourhood g' R C r row' col' ty)) ->
  1 <= R -> 1 <= C -> r <= Nat.min R C ->
  length (last hist []) = R /\ Forall (fun row => length row = C) (last hist []) ->
  arr2_of (evolve2d_mode_fixed (pure_rule2 f) store Memo r ty tt hist T)
  = arr2_of (evolve2d_mode_fixed (pure_rule2 f) store Plain r ty tt hist T).
Proof.
  intros f store r ty R C hist T Hum.
  apply (memo2d_true_fixed_built unit (pure_rule2 f) store f r ty R C (answers_pure f)).
  intros n n' (g & row & col & Hg & Hr & Hc & ->) (g' & row' & col' & Hg' & Hr' & Hc' & ->).
  exact (Hum g g' row col row' col' Hg Hg' Hr Hc Hr' Hc').
Qed.

Theorem C04_memo2d_true_transparent_on_built_neighbourhoods_callable :
  forall (f : nbhd2 -> Z) (store : Z -> Z) (r : nat) (ty : nbhd_type) (R C : nat) (hist : list grid)
         (P : Type) (pred : P -> list grid -> nat -> P * bool) (fuel : nat) (p0 : P),
  (forall g g' row col row' col',
     (length g = R /\ Forall (fun x => length x = C) g) -> (length g' = R /\ Forall (fun x => length x = C) g') ->
     row < R -> col < C -> row' < R -> col' < C ->
     nb_mask (get_neighbourhood g R C r row col ty) = nb_mask (get_neighbourhood g' R C r row' col' ty) ->
     unmasked (get_neighbourhood g R C r row col ty) = unmasked (get_neighbourhood g' R C r row' col' ty) ->
     f (get_neighbourhood g R C r row col ty) = f (get_neighbourhood g' R C r row' col' ty)) ->
  1 <= R -> 1 <= C -> r <= Nat.min R C ->
  length (last hist []) = R /\ Forall (fun row => length row = C) (last hist []) ->
  dyn_arr2_of (evolve2d_mode_dynamic (pure_rule2 f) store pred Memo r ty fuel p0 tt hist)
  = dyn_arr2_of (evolve2d_mode_dynamic (pure_rule2 f) store pred Plain r ty fuel p0 tt hist).
Proof.
  intros f store r ty R C hist P pred fuel p0 Hum HR HC Hr Hwf.
  apply (memo2d_true_dynamic_built unit (pure_rule2 f) store f r ty R C (answers_pure f)); try assumption.
  intros n n' (g & row & col & Hg & Hr1 & Hc1 & ->) (g' & row' & col' & Hg' & Hr' & Hc' & ->).
  exact (Hum g g' row col row' col' Hg Hg' Hr1 Hc1 Hr' Hc').
Qed.

(* _MemoizationCache: for ANY sequence of puts of rectangular arrays, `a in cache` followed by cache[a]
   returns without error the value of a put whose key array has the flat contents AND the shape of a,
   i.e. (arrays being rectangular) IS a: a 3x4 and a 4x3 array with equal bytes are never confused,
   although get() skips the shape comparison when a single entry is stored under the bytes.
   And `a in cache` is True whenever a was put. *)
Theorem C04_cache2d_sound : forall (puts : list (grid * grid)) (a : grid),
  Forall (fun row => length row = length (hd [] a)) a ->
  Forall (fun av : grid * grid => Forall (fun row => length row = length (hd [] (fst av))) (fst av)) puts ->
  (cache_contains a (cache_of_puts puts) = true ->
     exists v, cache_get a (cache_of_puts puts) = Ok v /\ In (a, v) puts) /\
  ((exists v, In (a, v) puts) -> cache_contains a (cache_of_puts puts) = true).
Proof. exact cache2d_sound. Qed.

(* memoize="recursive", fixed number of timesteps: the quad-tree engine (any shape: square or not, not only
   powers of two; uneven and empty quadrants; any radius 0 <= r <= min(R, C); the literal byte+shape cache
   persisting across the steps of the call) returns the array of memoize=False.  Needs only that the rule
   is a function of the neighbourhood (for von Neumann the single-cell call passes the masked block). *)
Theorem C04_memo2d_recursive_transparent :
  forall (f : nbhd2 -> Z) (store : Z -> Z) (r : nat) (ty : nbhd_type) (R C : nat) (hist : list grid) (T : nat),
  1 <= R -> 1 <= C -> r <= Nat.min R C ->
  length (last hist []) = R /\ Forall (fun row => length row = C) (last hist []) ->
  arr2_of (evolve2d_mode_fixed (pure_rule2 f) store Recursive r ty tt hist T)
  = arr2_of (evolve2d_mode_fixed (pure_rule2 f) store Plain r ty tt hist T).
Proof.
  intros f store r ty R C hist T.
  exact (memo2d_recursive_fixed unit (pure_rule2 f) store f (answers_pure f) r ty R C hist T tt).
Qed.

Theorem C04_memo2d_recursive_transparent_callable :
  forall (f : nbhd2 -> Z) (store : Z -> Z) (r : nat) (ty : nbhd_type) (R C : nat) (hist : list grid)
         (P : Type) (pred : P -> list grid -> nat -> P * bool) (fuel : nat) (p0 : P),
  1 <= R -> 1 <= C -> r <= Nat.min R C ->
  length (last hist []) = R /\ Forall (fun row => length row = C) (last hist []) ->
  dyn_arr2_of (evolve2d_mode_dynamic (pure_rule2 f) store pred Recursive r ty fuel p0 tt hist)
  = dyn_arr2_of (evolve2d_mode_dynamic (pure_rule2 f) store pred Plain r ty fuel p0 tt hist).
Proof.
  intros f store r ty R C hist P pred fuel p0.
  exact (memo2d_recursive_dynamic unit (pure_rule2 f) store f (answers_pure f) r ty pred R C hist fuel p0 tt).
Qed.

(* The property speaks of "any rule whose result depends only on the neighbourhood contents": that includes
   STATEFUL callables (loggers, counters, rules caching things of their own) as long as the value they return
   is a function f of the neighbourhood.  `rule : rule2 St` is an arbitrary state machine over an arbitrary state
   type St, started in an arbitrary state s0; the memoized runs call it fewer times (so its final state
   differs), the returned arrays do not.
   `built R C r ty n` (Proofs/Memo2DProofs.v) := exists g row col, g is a well-shaped R x C grid, row < R, col < C and
   n = get_neighbourhood g R C r row col ty  (spelled out in C04_memo2d_true_transparent_on_built_neighbourhoods). *)
Theorem C04_memo2d_true_transparent_answering :
  forall (St : Type) (rule : rule2 St) (f : nbhd2 -> Z) (s0 : St)
         (store : Z -> Z) (r : nat) (ty : nbhd_type) (R C : nat) (hist : list grid) (T : nat),
  (forall s n c t, snd (rule s n c t) = f n) ->
  (forall n n', built R C r ty n -> built R C r ty n' ->
                nb_mask n = nb_mask n' -> unmasked n = unmasked n' -> f n = f n') ->
  1 <= R -> 1 <= C -> r <= Nat.min R C ->
  length (last hist []) = R /\ Forall (fun row => length row = C) (last hist []) ->
  arr2_of (evolve2d_mode_fixed rule store Memo r ty s0 hist T)
  = arr2_of (evolve2d_mode_fixed rule store Plain r ty s0 hist T).
Proof.
  intros St rule f s0 store r ty R C hist T Hf Hum.
  exact (memo2d_true_fixed_built St rule store f r ty R C Hf Hum hist T s0).
Qed.

Theorem C04_memo2d_true_transparent_answering_callable :
  forall (St : Type) (rule : rule2 St) (f : nbhd2 -> Z) (s0 : St)
         (store : Z -> Z) (r : nat) (ty : nbhd_type) (R C : nat) (hist : list grid)
         (P : Type) (pred : P -> list grid -> nat -> P * bool) (fuel : nat) (p0 : P),
  (forall s n c t, snd (rule s n c t) = f n) ->
  (forall n n', built R C r ty n -> built R C r ty n' ->
                nb_mask n = nb_mask n' -> unmasked n = unmasked n' -> f n = f n') ->
  1 <= R -> 1 <= C -> r <= Nat.min R C ->
  length (last hist []) = R /\ Forall (fun row => length row = C) (last hist []) ->
  dyn_arr2_of (evolve2d_mode_dynamic rule store pred Memo r ty fuel p0 s0 hist)
  = dyn_arr2_of (evolve2d_mode_dynamic rule store pred Plain r ty fuel p0 s0 hist).
Proof.
  intros St rule f s0 store r ty R C hist P pred fuel p0 Hf Hum.
  exact (memo2d_true_dynamic_built St rule store f r ty R C Hf Hum pred hist fuel p0 s0).
Qed.

Theorem C04_memo2d_recursive_transparent_answering :
  forall (St : Type) (rule : rule2 St) (f : nbhd2 -> Z) (s0 : St)
         (store : Z -> Z) (r : nat) (ty : nbhd_type) (R C : nat) (hist : list grid) (T : nat),
  (forall s n c t, snd (rule s n c t) = f n) ->
  1 <= R -> 1 <= C -> r <= Nat.min R C ->
  length (last hist []) = R /\ Forall (fun row => length row = C) (last hist []) ->
  arr2_of (evolve2d_mode_fixed rule store Recursive r ty s0 hist T)
  = arr2_of (evolve2d_mode_fixed rule store Plain r ty s0 hist T).
Proof.
  intros St rule f s0 store r ty R C hist T Hf.
  exact (memo2d_recursive_fixed St rule store f Hf r ty R C hist T s0).
Qed.

Theorem C04_memo2d_recursive_transparent_answering_callable :
  forall (St : Type) (rule : rule2 St) (f : nbhd2 -> Z) (s0 : St)
         (store : Z -> Z) (r : nat) (ty : nbhd_type) (R C : nat) (hist : list grid)
         (P : Type) (pred : P -> list grid -> nat -> P * bool) (fuel : nat) (p0 : P),
  (forall s n c t, snd (rule s n c t) = f n) ->
  1 <= R -> 1 <= C -> r <= Nat.min R C ->
  length (last hist []) = R /\ Forall (fun row => length row = C) (last hist []) ->
  dyn_arr2_of (evolve2d_mode_dynamic rule store pred Recursive r ty fuel p0 s0 hist)
  = dyn_arr2_of (evolve2d_mode_dynamic rule store pred Plain r ty fuel p0 s0 hist).
Proof.
  intros St rule f s0 store r ty R C hist P pred fuel p0 Hf.
  exact (memo2d_recursive_dynamic St rule store f Hf r ty pred R C hist fuel p0 s0).
Qed.

(* one step of the quad-tree engine started from ANY cache whose entries hold, for their key, the rule
   applied to every (2r+1)^2 window of the key: it returns the plain next grid and such a cache *)
Theorem C04_recursive_step_any_cache :
  forall (St : Type) (rule : rule2 St) (f : nbhd2 -> Z) (store : Z -> Z) (r : nat) (ty : nbhd_type) (R C : nat)
         (g : grid) (t : nat) (s : St) (cache : cache2d),
  (forall s n c t, snd (rule s n c t) = f n) ->
  CInv store f r ty cache -> 1 <= R -> length g = R /\ Forall (fun row => length row = C) g ->
  CInv store f r ty (snd (fst (step_rec2d rule store r ty (s, cache) g t))) /\
  snd (step_rec2d rule store r ty (s, cache) g t) = snd (step_plain2d rule store r ty s g t).
Proof.
  intros St rule f store r ty R C g t s cache Hf HI HR Hwf.
  destruct (rec_step_transparent St rule store f Hf r ty R C g t (s, cache) HI HR Hwf) as [H1 H2].
  split; [exact H1|]. rewrite H2. symmetry. exact (plain_step_spec rule store f R C r ty g t s Hf HR Hwf).
Qed.

(* the mode is selected by the option's VALUE: any str equal to "recursive", the bool True, the bool False;
   ints, None and other strings are unsupported (the call raises once a cell is visited) *)
Theorem C04_dispatch2d_by_value :
  (forall s, dispatch2d (PStr s) = if String.eqb s "recursive" then Some Recursive else None) /\
  dispatch2d (PBool true) = Some Memo /\ dispatch2d (PBool false) = Some Plain /\
  (forall z, dispatch2d (PInt z) = None) /\ dispatch2d PNone = None.
Proof. exact dispatch2d_by_value. Qed.

Theorem C04_evolve2d_dispatch :
  forall (St : Type) (rule : rule2 St) (store : Z -> Z) (v : PyVal) (m : mode) r ty s0 hist T,
  dispatch2d v = Some m ->
  evolve2d_fixed rule store v r ty s0 hist T = evolve2d_mode_fixed rule store m r ty s0 hist T.
Proof. intros St rule store v m r ty s0 hist T. exact (evolve2d_fixed_dispatch rule store v m r ty s0 hist T). Qed.

(* nothing cached during one call can influence another call: in a process (evolve2d calls back to back)
   the result of each call is the result of that call alone *)
Theorem C04_calls2d_independent : forall calls,
  run_process2d calls = map run_call2d calls /\
  forall before c after, nth (length before) (run_process2d (before ++ c :: after)) (Raise OtherError)
                         = run_call2d c.
Proof. exact calls2d_independent. Qed.

(* ------------------------------------------------------------------ non-vacuity *)
Local Open Scope Z_scope.
(* a striped 3 x 4 grid (not square, not a power of two), r = 1 and r = 2, both neighbourhood types,
   the totalistic Lin2 rule mod 2 (it meets the hypothesis on f): the memoized modes return the plain
   array, which is not constant in time, and they do so WITH cache hits: the rule is entered 8
   times instead of 36 *)
Definition ex_f : nbhd2 -> Z := fun n => snd (lin2 [1;1;1;1;1;1;1;1;1] 2 tt n (0%nat, 0%nat) 0%nat).
Definition ex_g : grid := [[0;1;0;1];[1;0;1;0];[0;1;0;1]].
Definition ex_out : list grid :=
  [[[0;1;0;1];[1;0;1;0];[0;1;0;1]]; [[1;0;1;0];[1;0;1;0];[1;0;1;0]];
   [[1;0;1;0];[1;0;1;0];[1;0;1;0]]; [[1;0;1;0];[1;0;1;0];[1;0;1;0]]].
Example C04_nonvacuous :
  (forall n n', nb_mask n = nb_mask n' -> unmasked n = unmasked n' -> ex_f n = ex_f n') /\
  (length (last [ex_g] []) = 3%nat /\ Forall (fun row => length row = 4%nat) (last [ex_g] [])) /\
  arr2_of (evolve2d_mode_fixed (pure_rule2 ex_f) store_id Plain 1 Moore tt [ex_g] 4) = Ok ex_out /\
  arr2_of (evolve2d_mode_fixed (pure_rule2 ex_f) store_id Memo 1 Moore tt [ex_g] 4) = Ok ex_out /\
  arr2_of (evolve2d_mode_fixed (pure_rule2 ex_f) store_id Recursive 1 Moore tt [ex_g] 4) = Ok ex_out /\
  map (fun m => length (log2_of (evolve2d_mode_fixed (logged2 (pure_rule2 ex_f)) store_id m 1 Moore (tt, []) [ex_g] 4)))
      [Plain; Memo; Recursive] = [36; 8; 8]%nat /\
  (* r = 2 = the margin the pre-fix code got wrong, von Neumann, callable timesteps *)
  dyn_arr2_of (evolve2d_mode_dynamic (pure_rule2 ex_f) store_id (pred_lt 3) Recursive 2 VonNeumann 5 tt tt [ex_g])
  = dyn_arr2_of (evolve2d_mode_dynamic (pure_rule2 ex_f) store_id (pred_lt 3) Plain 2 VonNeumann 5 tt tt [ex_g]) /\
  dyn_arr2_of (evolve2d_mode_dynamic (pure_rule2 ex_f) store_id (pred_lt 3) Plain 2 VonNeumann 5 tt tt [ex_g]) <> None.
Proof.
  split; [exact (lin2_reads_unmasked [1;1;1;1;1;1;1;1;1] 2)|].
  split; [split; [reflexivity|repeat constructor]|].
  split; [vm_compute; reflexivity|]. split; [vm_compute; reflexivity|]. split; [vm_compute; reflexivity|].
  split; [vm_compute; reflexivity|]. split; [vm_compute; reflexivity|]. vm_compute. discriminate.
Qed.

(* non-vacuity of the stateful form: a rule that COUNTS its own invocations (state nat) and logs its arguments *)
Example C04_answering_nonvacuous :
  let rule : rule2 nat := fun i n c t => (S i, ex_f n) in
  (forall s n c t, snd (rule s n c t) = ex_f n) /\
  (* same arrays, different final states: 36 calls unmemoized, 8 memoized *)
  evolve2d_mode_fixed rule store_id Plain 1 Moore 0%nat [ex_g] 4 = Ok (36%nat, ex_out) /\
  evolve2d_mode_fixed rule store_id Memo 1 Moore 0%nat [ex_g] 4 = Ok (8%nat, ex_out) /\
  evolve2d_mode_fixed rule store_id Recursive 1 Moore 0%nat [ex_g] 4 = Ok (8%nat, ex_out).
Proof. split; [intros; reflexivity|]. repeat (split; [vm_compute; reflexivity|]). vm_compute; reflexivity. Qed.

(* 3x4 and 4x3 arrays with the same bytes: both stored, each read back with its own value; and the shortcut
   of get() alone WOULD confuse them (last conjunct) — it is __contains__ that prevents it *)
Definition ex_a34 : grid := [[1;2;3;4];[5;6;7;8];[9;10;11;12]].
Definition ex_a43 : grid := [[1;2;3];[4;5;6];[7;8;9];[10;11;12]].
Example C04_cache_nonvacuous :
  concat ex_a34 = concat ex_a43 /\
  cache_get ex_a34 (cache_of_puts [(ex_a34, [[1]]); (ex_a43, [[2]])]) = Ok [[1]] /\
  cache_get ex_a43 (cache_of_puts [(ex_a34, [[1]]); (ex_a43, [[2]])]) = Ok [[2]] /\
  cache_contains ex_a43 (cache_of_puts [(ex_a34, [[1]])]) = false /\
  cache_get ex_a43 (cache_of_puts [(ex_a34, [[1]])]) = Ok [[1]].
Proof. repeat (split; [vm_compute; reflexivity|]). vm_compute; reflexivity. Qed.

Print Assumptions C04_memo2d_true_transparent.
Print Assumptions C04_memo2d_true_transparent_callable.
Print Assumptions C04_cache2d_sound.
Print Assumptions C04_memo2d_recursive_transparent.
Print Assumptions C04_memo2d_recursive_transparent_callable.
Print Assumptions C04_recursive_step_any_cache.
Print Assumptions C04_dispatch2d_by_value.
Print Assumptions C04_evolve2d_dispatch.
Print Assumptions C04_calls2d_independent.
Print Assumptions C04_memo2d_true_transparent_on_built_neighbourhoods.
Print Assumptions C04_memo2d_true_transparent_on_built_neighbourhoods_callable.
Print Assumptions C04_memo2d_true_transparent_answering.
Print Assumptions C04_memo2d_true_transparent_answering_callable.
Print Assumptions C04_memo2d_recursive_transparent_answering.
Print Assumptions C04_memo2d_recursive_transparent_answering_callable.
From CPL Require Import gen.GenFuns_C04 GenProps.GenFunsEquivC04 GenProps.C04Src. (* source tie: gen/GenFuns_C04.v is regenerated from ca_functions2d.py on every run *)
Theorem C04_source_tie : forall (St : Type) (rule : rule2 St) (s : St) (m : memo_table) (n : nbhd2) (c : (nat * nat)%type) (t : nat), get_memoized2 rule (s, m) n c t = src_get_memoized memo_key rule s n c t m. Proof. exact C04_source_translation_agrees. Qed. Print Assumptions C04_source_tie.
