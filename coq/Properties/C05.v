(* C05 - Evolution extends the given history and never modifies it; split law.
   Property theorems only.  evolve, evolve2d, evolve_block and evolve2d_block share one outer loop,
   Model/Engine.v's evolve_fixed (array[0] = cellular_automaton[-1]; T-1 steps numbered 1..;
   np.concatenate((cellular_automaton, array[1:]))), generic in the step.  The theorems are proved once
   for every step function (Proofs/EngineProofs.v) and read here for the four engines.

   "The caller's array is not modified": at this level the caller's array is a value the function
   only reads, so the statement is that the given rows come back unchanged and in order as the prefix
   of the result (firstn (length hist) out = hist); the correspondence check compares the caller's
   array after the call with a private copy.  A rule that itself holds a reference into the caller's
   array is the aliasing case of C13 and is not modelled here (no heap is needed at this level).

   Split law, deliberate reading of the consequence clause: it is proved for every split point for
   steps that ignore t (evolve, evolve2d with rules ignoring t), and for the block engines - whose
   partition alternates with the parity of the call-local step number - for every split whose first
   part has an odd T1 (the continued call then starts on the partition the unsplit run would use).
   For even T1 the law is false for the block engines: theorem C05_block_split_even_refuted (witness
   shown by Example C05_block_split_even_counterexample); the odd-T1 theorems carry the suffix _partial. *)
From CPL Require Import Model.Base Model.Rules Model.Engine Model.Evolve1D Model.Evolve2D Model.Block
     Proofs.EngineProofs Proofs.C05Proofs.
From Coq Require Import Lia.

(* ---- all four engines at once (any step function) *)
Theorem C05_evolve_extends :
  forall (X C : Type) (dflt : C) (step : X -> C -> nat -> X * C) x hist T x' out,
  evolve_fixed dflt step x hist T = Ok (x', out) ->
  exists rows, out = hist ++ rows /\ length rows = T - 1.
Proof. intros X C. exact (evolve_extends X C). Qed.

(* the new rows depend on the history only through its last row *)
Theorem C05_evolve_rows_depend_on_last :
  forall (X C : Type) (dflt : C) (step : X -> C -> nat -> X * C) x h1 h2 T x1 o1 x2 o2,
  last h1 dflt = last h2 dflt ->
  evolve_fixed dflt step x h1 T = Ok (x1, o1) -> evolve_fixed dflt step x h2 T = Ok (x2, o2) ->
  x1 = x2 /\ exists rows, o1 = h1 ++ rows /\ o2 = h2 ++ rows /\ length rows = T - 1.
Proof. intros X C. exact (evolve_rows_depend_on_last X C). Qed.

Theorem C05_evolve_input_unchanged :
  forall (X C : Type) (dflt : C) (step : X -> C -> nat -> X * C) x hist T x' out,
  evolve_fixed dflt step x hist T = Ok (x', out) -> firstn (length hist) out = hist.
Proof. intros X C. exact (evolve_input_unchanged X C). Qed.

(* every T >= 1 succeeds; T = 0 raises (array[0] = ... on an empty array) *)
Theorem C05_evolve_defined :
  forall (X C : Type) (dflt : C) (step : X -> C -> nat -> X * C) x hist,
  evolve_fixed dflt step x hist 0 = Raise IndexError /\
  forall T, 1 <= T -> exists x' rows, evolve_fixed dflt step x hist T = Ok (x', hist ++ rows) /\ length rows = T - 1.
Proof. intros X C dflt step x hist. split; [reflexivity|]. exact (evolve_fixed_ok X C dflt step x hist). Qed.

(* ---- evolve(ca, T, rule, r, memoize=False): given rows first, T-1 new rows of the input's width
   (for the radii the engine is defined on), new rows a function of the last given row only *)
Theorem C05_evolve_extends_1d :
  forall (St : Type) (rule : rule1 St) (store : Z -> Z) r s0 (hist : list (list Z)) T s' out,
  evolve_plain rule store r s0 hist T = Ok (s', out) ->
  exists rows, out = hist ++ rows /\ length rows = T - 1 /\ firstn (length hist) out = hist /\
    (1 <= r <= length (last hist []) -> Forall (fun row => length row = length (last hist [])) rows) /\
    (forall hist', last hist' [] = last hist [] -> evolve_plain rule store r s0 hist' T = Ok (s', hist' ++ rows)).
Proof. exact evolve_plain_extends. Qed.

(* ---- evolve2d(ca, T, rule, r, neighbourhood, memoize=False), grids of shape R x C *)
Theorem C05_evolve_extends_2d :
  forall (St : Type) (rule : rule2 St) (store : Z -> Z) r ty s0 (hist : list grid) T s' out R C,
  evolve2d_plain rule store r ty s0 hist T = Ok (s', out) ->
  (R = 0 -> C = 0) ->
  exists rows, out = hist ++ rows /\ length rows = T - 1 /\ firstn (length hist) out = hist /\
    (length (last hist []) = R /\ Forall (fun row => length row = C) (last hist []) ->
     Forall (fun g => length g = R /\ Forall (fun row => length row = C) g) rows) /\
    (forall hist', last hist' [] = last hist [] -> evolve2d_plain rule store r ty s0 hist' T = Ok (s', hist' ++ rows)).
Proof. exact evolve2d_plain_extends. Qed.

(* ---- the block engines *)
Theorem C05_evolve_block_extends :
  forall (St : Type) (rule : block_rule St) (store : Z -> Z) b s0 (hist : list (list Z)) T s' out,
  evolve_block rule store b s0 hist T = Ok (s', out) ->
  exists rows, out = hist ++ rows /\ length rows = T - 1 /\
    forall hist', hist' <> [] -> last hist' [] = last hist [] ->
      evolve_block rule store b s0 hist' T = Ok (s', hist' ++ rows).
Proof. exact evolve_block_extends. Qed.

Theorem C05_evolve2d_block_extends :
  forall (St : Type) (rule : block_rule2 St) (store : Z -> Z) b1 b2 s0 (hist : list grid2) T s' out,
  evolve2d_block rule store b1 b2 s0 hist T = Ok (s', out) ->
  exists rows, out = hist ++ rows /\ length rows = T - 1.
Proof. exact evolve2d_block_extends. Qed.

(* ---- split law: any step that ignores t; the threaded state (rule state, caches) is handed on *)
Theorem C05_evolve_split :
  forall (X C : Type) (dflt : C) (step : X -> C -> nat -> X * C),
  (forall x c t t', step x c t = step x c t') ->
  forall x0 hist T1 T2 x1 out1 x2 out2,
  hist <> [] -> 1 <= T1 -> 1 <= T2 ->
  evolve_fixed dflt step x0 hist T1 = Ok (x1, out1) ->
  evolve_fixed dflt step x1 out1 T2 = Ok (x2, out2) ->
  evolve_fixed dflt step x0 hist (T1 + T2 - 1) = Ok (x2, out2).
Proof. intros X C. exact (evolve_split X C). Qed.

Theorem C05_evolve_split_1d :
  forall (St : Type) (rule : rule1 St) (store : Z -> Z),
  (forall s n c t t', rule s n c t = rule s n c t') ->
  forall r s0 (hist : list (list Z)) T1 T2 s1 out1 s2 out2,
  hist <> [] -> 1 <= T1 -> 1 <= T2 ->
  evolve_plain rule store r s0 hist T1 = Ok (s1, out1) ->
  evolve_plain rule store r s1 out1 T2 = Ok (s2, out2) ->
  evolve_plain rule store r s0 hist (T1 + T2 - 1) = Ok (s2, out2).
Proof. exact evolve_plain_split. Qed.

Theorem C05_evolve_split_2d :
  forall (St : Type) (rule : rule2 St) (store : Z -> Z),
  (forall s n c t t', rule s n c t = rule s n c t') ->
  forall r ty s0 (hist : list grid) T1 T2 s1 out1 s2 out2,
  hist <> [] -> 1 <= T1 -> 1 <= T2 ->
  evolve2d_plain rule store r ty s0 hist T1 = Ok (s1, out1) ->
  evolve2d_plain rule store r ty s1 out1 T2 = Ok (s2, out2) ->
  evolve2d_plain rule store r ty s0 hist (T1 + T2 - 1) = Ok (s2, out2).
Proof. exact evolve2d_plain_split. Qed.

(* ---- split law when the step depends on t through its parity only: T1 odd *)
Theorem C05_evolve_split_parity :
  forall (X C : Type) (dflt : C) (step : X -> C -> nat -> X * C),
  (forall x c t, step x c (S (S t)) = step x c t) ->
  forall x0 hist T1 T2 x1 out1 x2 out2,
  hist <> [] -> Nat.odd T1 = true -> 1 <= T2 ->
  evolve_fixed dflt step x0 hist T1 = Ok (x1, out1) ->
  evolve_fixed dflt step x1 out1 T2 = Ok (x2, out2) ->
  evolve_fixed dflt step x0 hist (T1 + T2 - 1) = Ok (x2, out2).
Proof. intros X C. exact (evolve_split_parity X C). Qed.

(* FULL STATEMENT (the property's consequence clause read literally for evolve_block), NOT provable:
     forall rule ignoring t, b, s0, hist, T1 >= 1, T2 >= 1,
       evolve_block b s0 hist T1 = Ok (s1, out1) -> evolve_block b s1 out1 T2 = Ok (s2, out2) ->
       evolve_block b s0 hist (T1 + T2 - 1) = Ok (s2, out2).
   It is REFUTED for even T1 (C05_block_split_even_refuted below; open finding "block-split-even" on
   /repo): the partition alternates with the call-local step number, so a continued call restarts on
   the aligned partition.  What is proved is the part with the extra hypothesis `Nat.odd T1 = true`;
   missing = every even T1. *)
Theorem C05_evolve_block_split_partial :
  forall (St : Type) (rule : block_rule St) (store : Z -> Z),
  (forall s blk t t', rule s blk t = rule s blk t') ->
  forall b s0 (hist : list (list Z)) T1 T2 s1 out1 s2 out2,
  Nat.odd T1 = true -> 1 <= T2 ->
  evolve_block rule store b s0 hist T1 = Ok (s1, out1) ->
  evolve_block rule store b s1 out1 T2 = Ok (s2, out2) ->
  evolve_block rule store b s0 hist (T1 + T2 - 1) = Ok (s2, out2).
Proof. exact evolve_block_split. Qed.

(* the same for evolve2d_block: full statement refuted for even T1 in the same way (the 2D partition
   shifts by (1, 1) on even call-local steps); proved under `Nat.odd T1 = true` *)
Theorem C05_evolve2d_block_split_partial :
  forall (St : Type) (rule : block_rule2 St) (store : Z -> Z),
  (forall s blk t t', rule s blk t = rule s blk t') ->
  forall b1 b2 s0 (hist : list grid2) T1 T2 s1 out1 s2 out2,
  Nat.odd T1 = true -> 1 <= T2 ->
  evolve2d_block rule store b1 b2 s0 hist T1 = Ok (s1, out1) ->
  evolve2d_block rule store b1 b2 s1 out1 T2 = Ok (s2, out2) ->
  evolve2d_block rule store b1 b2 s0 hist (T1 + T2 - 1) = Ok (s2, out2).
Proof. exact evolve2d_block_split. Qed.

(* ---- scope: with an even T1 the block engines do NOT satisfy the split law (pair reversal, b = 2:
   the continued call starts again on the aligned partition, the unsplit run is on the offset one) *)
Local Open Scope Z_scope.

Example C05_block_split_even_counterexample :
  evolve_block (spec_brule BRev) id_store 2 0%nat [[1; 2; 3; 4]] 2 = Ok (2%nat, [[1; 2; 3; 4]; [2; 1; 4; 3]]) /\
  evolve_block (spec_brule BRev) id_store 2 2%nat [[1; 2; 3; 4]; [2; 1; 4; 3]] 2
  = Ok (4%nat, [[1; 2; 3; 4]; [2; 1; 4; 3]; [1; 2; 3; 4]]) /\
  evolve_block (spec_brule BRev) id_store 2 0%nat [[1; 2; 3; 4]] 3
  = Ok (4%nat, [[1; 2; 3; 4]; [2; 1; 4; 3]; [3; 4; 1; 2]]).
Proof. split; [vm_compute; reflexivity|]. split; vm_compute; reflexivity. Qed.

(* the same on the generic engine with an alternating step *)
Example C05_split_even_counterexample_generic :
  evolve_fixed 0%nat alt_step tt [1%nat] 2 = Ok (tt, [1; 2]%nat) /\
  evolve_fixed 0%nat alt_step tt [1; 2]%nat 2 = Ok (tt, [1; 2; 4]%nat) /\
  evolve_fixed 0%nat alt_step tt [1%nat] 3 = Ok (tt, [1; 2; 3]%nat) /\
  (forall x c t, alt_step x c (S (S t)) = alt_step x c t).
Proof. split; [|split; [|split]]; reflexivity. Qed.

(* ---- non-vacuity *)
(* rule 150 (sum mod 2, ignores t), a 2-row history, T1 = 3 then T2 = 2 = T 4 at once;
   the first two rows of the result are the given ones *)
Example C05_nonvacuous_split_1d :
  let rule := lin1 [1; 1; 1] 2 in
  let hist := [[7; 7; 7; 7; 7]; [0; 0; 1; 0; 0]] in
  evolve_plain rule store_id 1 tt hist 3
  = Ok (tt, hist ++ [[0; 1; 1; 1; 0]; [1; 0; 1; 0; 1]]) /\
  evolve_plain rule store_id 1 tt (hist ++ [[0; 1; 1; 1; 0]; [1; 0; 1; 0; 1]]) 2
  = Ok (tt, hist ++ [[0; 1; 1; 1; 0]; [1; 0; 1; 0; 1]; [0; 0; 1; 0; 0]]) /\
  evolve_plain rule store_id 1 tt hist 4
  = Ok (tt, hist ++ [[0; 1; 1; 1; 0]; [1; 0; 1; 0; 1]; [0; 0; 1; 0; 0]]) /\
  (forall s n c t t', rule s n c t = rule s n c t') /\ hist <> [].
Proof.
  cbv zeta. split; [vm_compute; reflexivity|]. split; [vm_compute; reflexivity|]. split; [vm_compute; reflexivity|].
  split; [intros; reflexivity|discriminate].
Qed.

Example C05_nonvacuous_extends_2d :
  let g := [[1; 0; 0]; [0; 1; 0]] in
  exists rows,
    evolve2d_plain (lin2 [1; 1; 1; 1; 1; 1; 1; 1; 1] 3) store_id 1 Moore tt [g; g] 3 = Ok (tt, [g; g] ++ rows) /\
    length rows = 2%nat /\ rows <> [g; g].
Proof. eexists. split; [vm_compute; reflexivity|]. split; [reflexivity|discriminate]. Qed.

(* block engine, odd T1 = 3: the law holds on the instance whose even split fails above *)
Example C05_nonvacuous_block_split_odd :
  evolve_block (spec_brule BRev) id_store 2 0%nat [[1; 2; 3; 4]] 3
  = Ok (4%nat, [[1; 2; 3; 4]; [2; 1; 4; 3]; [3; 4; 1; 2]]) /\
  evolve_block (spec_brule BRev) id_store 2 4%nat [[1; 2; 3; 4]; [2; 1; 4; 3]; [3; 4; 1; 2]] 2
  = evolve_block (spec_brule BRev) id_store 2 0%nat [[1; 2; 3; 4]] 4 /\
  (forall s blk t t', spec_brule BRev s blk t = spec_brule BRev s blk t').
Proof. split; [vm_compute; reflexivity|]. split; [vm_compute; reflexivity|]. intros; reflexivity. Qed.

Print Assumptions C05_evolve_extends.
Print Assumptions C05_evolve_rows_depend_on_last.
Print Assumptions C05_evolve_input_unchanged.
Print Assumptions C05_evolve_defined.
Print Assumptions C05_evolve_extends_1d.
Print Assumptions C05_evolve_extends_2d.
Print Assumptions C05_evolve_block_extends.
Print Assumptions C05_evolve2d_block_extends.
Print Assumptions C05_evolve_split.
Print Assumptions C05_evolve_split_1d.
Print Assumptions C05_evolve_split_2d.
Print Assumptions C05_evolve_split_parity.
Print Assumptions C05_evolve_block_split_partial.
Print Assumptions C05_evolve2d_block_split_partial.

(* ================================================================== every memoize mode (pure rules)
   The memoised engines are Model/Memo1D.v and Model/Memo2D.v (C03, C04).  For a pure rule every mode
   returns the array of the plain engine (C03/C04 transparency), and the model of a call starts with
   an empty cache, as `memo_table = {}` / `_MemoizationCache()` at the top of every call: so the
   second call of a split is an ordinary call and the plain split law carries over.
   1D: `memo` is the value of the memoize option and `dispatch memo = Some m` says it selects a mode
   (False, True, "recursive"); `pure1 f` is a rule without state that ignores c and t; `arr_of`
   projects the returned array.  2D: `m` is the mode, `pure_rule2 f` likewise, `arr2_of` projects the
   array; memoize=True additionally needs f not to read masked cells (its cache key fills them in). *)
From CPL Require Import Model.Memo1D Model.Memo2D Proofs.C0506MemoProofs.
Local Close Scope Z_scope.

Theorem C05_all_modes_extends_1d :
  forall (f : list Z -> Z) (store : Z -> Z) (r : nat) (memo : PyVal) (m : mode) (hist : list (list Z)) (T : nat) out,
  dispatch memo = Some m ->
  1 <= r <= length (last hist []) ->
  arr_of (evolve1d_fixed (pure1 f) store memo r tt hist T) = Ok out ->
  exists rows, out = hist ++ rows /\ length rows = T - 1 /\ firstn (length hist) out = hist /\
    Forall (fun row => length row = length (last hist [])) rows /\
    (forall hist', last hist' [] = last hist [] ->
       arr_of (evolve1d_fixed (pure1 f) store memo r tt hist' T) = Ok (hist' ++ rows)).
Proof. intros f store r memo m hist T out. exact (memo1d_extends f store r memo m hist T out). Qed.

Theorem C05_all_modes_split_1d :
  forall (f : list Z -> Z) (store : Z -> Z) (r : nat) (memo : PyVal) (m : mode) (hist : list (list Z)) T1 T2 out1 out2,
  dispatch memo = Some m ->
  1 <= r <= length (last hist []) -> 1 <= T1 -> 1 <= T2 ->
  arr_of (evolve1d_fixed (pure1 f) store memo r tt hist T1) = Ok out1 ->
  arr_of (evolve1d_fixed (pure1 f) store memo r tt out1 T2) = Ok out2 ->
  arr_of (evolve1d_fixed (pure1 f) store memo r tt hist (T1 + T2 - 1)) = Ok out2.
Proof. intros f store r memo m hist T1 T2 out1 out2. exact (memo1d_split f store r memo m hist T1 T2 out1 out2). Qed.

Theorem C05_all_modes_extends_2d :
  forall (f : nbhd2 -> Z) (store : Z -> Z) (r : nat) (ty : nbhd_type) (R C : nat),
  1 <= R -> 1 <= C -> r <= Nat.min R C ->
  forall (m : mode) (hist : list grid) (T : nat) out,
  (m = Memo -> forall n n', nb_mask n = nb_mask n' -> unmasked n = unmasked n' -> f n = f n') ->
  length (last hist []) = R /\ Forall (fun row => length row = C) (last hist []) ->
  arr2_of (evolve2d_mode_fixed (pure_rule2 f) store m r ty tt hist T) = Ok out ->
  exists rows, out = hist ++ rows /\ length rows = T - 1 /\ firstn (length hist) out = hist /\
    Forall (fun g => length g = R /\ Forall (fun row => length row = C) g) rows /\
    (forall hist', last hist' [] = last hist [] ->
       arr2_of (evolve2d_mode_fixed (pure_rule2 f) store m r ty tt hist' T) = Ok (hist' ++ rows)).
Proof. exact memo2d_extends. Qed.

Theorem C05_all_modes_split_2d :
  forall (f : nbhd2 -> Z) (store : Z -> Z) (r : nat) (ty : nbhd_type) (R C : nat),
  1 <= R -> 1 <= C -> r <= Nat.min R C ->
  forall (m : mode) (hist : list grid) T1 T2 out1 out2,
  (m = Memo -> forall n n', nb_mask n = nb_mask n' -> unmasked n = unmasked n' -> f n = f n') ->
  length (last hist []) = R /\ Forall (fun row => length row = C) (last hist []) ->
  1 <= T1 -> 1 <= T2 ->
  arr2_of (evolve2d_mode_fixed (pure_rule2 f) store m r ty tt hist T1) = Ok out1 ->
  arr2_of (evolve2d_mode_fixed (pure_rule2 f) store m r ty tt out1 T2) = Ok out2 ->
  arr2_of (evolve2d_mode_fixed (pure_rule2 f) store m r ty tt hist (T1 + T2 - 1)) = Ok out2.
Proof. exact memo2d_split. Qed.

(* non-vacuity: rule 150 on a ring of 6, the recursive engine, T1 = 3 then T2 = 2 equals T = 4; and a
   3 x 4 grid under memoize=True *)
Example C05_nonvacuous_all_modes :
  let f := fun n : list Z => (lin_dot [1; 1; 1] n mod 2)%Z in
  let h := [[0; 0; 1; 0; 0; 0]]%Z in
  dispatch (PStr StrLit.recursive_lit) = Some Recursive /\
  arr_of (evolve1d_fixed (pure1 f) store_id (PStr StrLit.recursive_lit) 1 tt h 3)
  = Ok [[0; 0; 1; 0; 0; 0]; [0; 1; 1; 1; 0; 0]; [1; 0; 1; 0; 1; 0]]%Z /\
  arr_of (evolve1d_fixed (pure1 f) store_id (PStr StrLit.recursive_lit) 1 tt
            [[0; 0; 1; 0; 0; 0]; [0; 1; 1; 1; 0; 0]; [1; 0; 1; 0; 1; 0]]%Z 2)
  = arr_of (evolve1d_fixed (pure1 f) store_id (PStr StrLit.recursive_lit) 1 tt h 4) /\
  arr_of (evolve1d_fixed (pure1 f) store_id (PStr StrLit.recursive_lit) 1 tt h 4)
  = Ok [[0; 0; 1; 0; 0; 0]; [0; 1; 1; 1; 0; 0]; [1; 0; 1; 0; 1; 0]; [1; 0; 1; 0; 1; 0]]%Z /\
  let g := [[0; 1; 0; 1]; [1; 0; 1; 0]; [0; 1; 0; 1]]%Z in
  let f2 := fun n : nbhd2 => (lin_dot [1; 1; 1; 1; 1; 1; 1; 1; 1] (unmasked n) mod 2)%Z in
  (exists a b, arr2_of (evolve2d_mode_fixed (pure_rule2 f2) store_id Memo 1 Moore tt [g] 3) = Ok [g; a; b] /\ a <> g).
Proof.
  cbv zeta. split; [vm_compute; reflexivity|]. split; [vm_compute; reflexivity|]. split; [vm_compute; reflexivity|].
  split; [vm_compute; reflexivity|]. do 2 eexists. split; [vm_compute; reflexivity|discriminate].
Qed.

Print Assumptions C05_all_modes_extends_1d.
Print Assumptions C05_all_modes_split_1d.
Print Assumptions C05_all_modes_extends_2d.
Print Assumptions C05_all_modes_split_2d.

(* ================================================================== additions after review
   the consequence clause, read literally, is refuted on the block engines: pair reversal (a rule that
   ignores t), b = 2, hist = [[1;2;3;4]], T1 = 2, T2 = 2: the two-call result differs from the single call *)
Theorem C05_block_split_even_refuted :
  exists (b : nat) (hist : list (list Z)) (T1 T2 : nat) s1 out1 s2 out2 s3 out3,
    Nat.even T1 = true /\ 1 <= T2 /\
    (forall s blk t t', spec_brule BRev s blk t = spec_brule BRev s blk t') /\
    evolve_block (spec_brule BRev) id_store b 0 hist T1 = Ok (s1, out1) /\
    evolve_block (spec_brule BRev) id_store b s1 out1 T2 = Ok (s2, out2) /\
    evolve_block (spec_brule BRev) id_store b 0 hist (T1 + T2 - 1) = Ok (s3, out3) /\
    out2 <> out3.
Proof. exact block_split_even_refuted. Qed.

(* the block engines keep the cell shape, whatever the block rule returns *)
Theorem C05_evolve_block_shape :
  forall (St : Type) (rule : block_rule St) (store : Z -> Z) b s0 (hist : list (list Z)) T s' out,
  evolve_block rule store b s0 hist T = Ok (s', out) ->
  exists rows, out = hist ++ rows /\ length rows = T - 1 /\
    Forall (fun row => length row = length (last hist [])) rows.
Proof. exact evolve_block_shape. Qed.

(* ... and for evolve2d_block, with the dependence on the last grid only *)
Theorem C05_evolve2d_block_shape :
  forall (St : Type) (rule : block_rule2 St) (store : Z -> Z) b1 b2 s0 (hist : list grid2) T s' out R C,
  evolve2d_block rule store b1 b2 s0 hist T = Ok (s', out) ->
  length (last hist []) = R /\ Forall (fun row => length row = C) (last hist []) ->
  exists rows, out = hist ++ rows /\ length rows = T - 1 /\
    Forall (fun g => length g = R /\ Forall (fun row => length row = C) g) rows /\
    (forall hist' : list grid2, hist' <> [] -> @last grid2 hist' [] = last hist [] ->
       evolve2d_block rule store b1 b2 s0 hist' T = Ok (s', hist' ++ rows)).
Proof. exact evolve2d_block_shape. Qed.

(* the callable-timesteps form (any engine, any predicate): the result is the given rows followed by one
   new row per consultation but the last; the new rows depend on the history through its last row only *)
Theorem C05_evolve_dynamic_extends :
  forall (X P C : Type) (dflt : C) (step : X -> C -> nat -> X * C) (pred : P -> list C -> nat -> P * bool)
         fuel p0 x0 hist p x out plog,
  hist <> [] ->
  evolve_dynamic dflt step pred fuel p0 x0 hist = Some (p, x, out, plog) ->
  exists rows, out = hist ++ rows /\ length rows = length plog - 1 /\ firstn (length hist) out = hist /\
    (forall hist', hist' <> [] -> last hist' dflt = last hist dflt ->
       evolve_dynamic dflt step pred fuel p0 x0 hist' = Some (p, x, hist' ++ rows, plog)).
Proof. exact evolve_dynamic_extends. Qed.

Print Assumptions C05_block_split_even_refuted.
Print Assumptions C05_evolve_block_shape.
Print Assumptions C05_evolve2d_block_shape.
Print Assumptions C05_evolve_dynamic_extends.

(* ================================================================== the array operations, over an explicit heap
   Model/HeapEngine.v models what the engines DO with arrays: allocate the work array (fresh id), copy the
   caller's last row into it, write every new row into it, and finally allocate the result, whose prefix is
   READ from the caller's id in the heap as the steps left it (dynamic form: a list of row references whose
   first element is a view into the caller's object; the predicate receives a fresh copy).  The step may
   read and write the heap.  Two aliasing engines are separate models (heap_evolve_inplace,
   heap_evolve_returns_view), so the statements below are not true by construction.
   W is the set of objects the step (the predicate) may write to: objects that existed before the call,
   other than the caller's array.  h_get h id is the contents of object id. *)
From CPL Require Import Model.HeapEngine Proofs.HeapEngineProofs.

Theorem C05_heap_input_unchanged :
  forall (X C : Type) (dflt : C) (step : X -> heap C -> C -> nat -> X * heap C * C) (W : nat -> Prop)
         (h0 : heap C) (ca : nat),
  ca < length h0 -> ~ W ca -> (forall id, W id -> id < length h0) ->
  step_writes_only step W ->
  forall k x0 x hr rid,
  heap_evolve_fixed dflt step h0 ca x0 (S k) = Ok (x, hr, rid) ->
  exists rows, length rows = k /\
    h_get hr rid = h_get h0 ca ++ rows /\          (* the result holds the given rows, then T-1 new ones *)
    h_get hr ca = h_get h0 ca /\                   (* the caller's object is unchanged *)
    rid = S (length h0) /\                         (* the result is a new object: not an id of the initial heap *)
    (forall id, id < length h0 -> ~ W id -> h_get hr id = h_get h0 id).
Proof. intros X C dflt step W h0 ca. exact (heap_fixed_frame X C dflt step W h0 ca). Qed.

Theorem C05_heap_input_unchanged_dynamic :
  forall (X P C : Type) (dflt : C) (step : X -> heap C -> C -> nat -> X * heap C * C)
         (pred : P -> heap C -> nat -> nat -> P * heap C * bool) (W : nat -> Prop) (h0 : heap C) (ca : nat),
  ca < length h0 -> ~ W ca -> (forall id, W id -> id < length h0) ->
  step_writes_only step W -> pred_writes_only pred W ->
  forall fuel p0 x0 p x hr rid plog,
  h_get h0 ca <> [] ->
  heap_evolve_dynamic dflt step pred fuel h0 ca p0 x0 = Some (p, x, hr, rid, plog) ->
  exists rows, length rows = length plog - 1 /\
    h_get hr rid = h_get h0 ca ++ rows /\
    h_get hr ca = h_get h0 ca /\
    length h0 <= rid /\ rid <> ca /\
    (forall id, id < length h0 -> ~ W id -> h_get hr id = h_get h0 id).
Proof. intros X P C dflt step pred W h0 ca. exact (heap_dynamic_frame X P C dflt step pred W h0 ca). Qed.

(* steps that get values (lift_step): the heap engine computes exactly Engine.evolve_fixed, in a heap that is the
   initial one plus the work array and the result - so every theorem above about evolve_fixed transfers *)
Theorem C05_heap_refines_engine :
  forall (X C : Type) (dflt : C) (ps : X -> C -> nat -> X * C) (h0 : heap C) (ca : nat),
  ca < length h0 ->
  forall x0 T,
  match evolve_fixed dflt ps x0 (h_get h0 ca) T with
  | Ok (x', out) => exists w, heap_evolve_fixed dflt (lift_step ps) h0 ca x0 T = Ok (x', h0 ++ [w; out], S (length h0))
  | Raise e => heap_evolve_fixed dflt (lift_step ps) h0 ca x0 T = Raise e
  end.
Proof. intros X C dflt ps h0 ca. exact (heap_fixed_refines X C dflt ps h0 ca). Qed.

Theorem C05_heap_refines_engine_dynamic :
  forall (X P C : Type) (dflt : C) (ps : X -> C -> nat -> X * C) (pp : P -> list C -> nat -> P * bool)
         (h0 : heap C) (ca : nat),
  ca < length h0 ->
  forall fuel p0 x0, h_get h0 ca <> [] ->
  match evolve_dynamic dflt ps pp fuel p0 x0 (h_get h0 ca) with
  | Some (p, x, out, plog) =>
      exists hr rid, heap_evolve_dynamic dflt (lift_step ps) (lift_pred pp) fuel h0 ca p0 x0 = Some (p, x, hr, rid, plog) /\
                     h_get hr rid = out /\ h_get hr ca = h_get h0 ca /\ length h0 <= rid
  | None => heap_evolve_dynamic dflt (lift_step ps) (lift_pred pp) fuel h0 ca p0 x0 = None
  end.
Proof. intros X P C dflt ps pp h0 ca. exact (heap_dynamic_refines X P C dflt ps pp h0 ca). Qed.

(* the engines of this development hand their rules values (copies), not references *)
Theorem C05_heap_plain_1d :
  forall (St : Type) (rule : rule1 St) (store : Z -> Z) (r : nat) (h0 : heap (list Z)) (ca : nat),
  ca < length h0 ->
  step_writes_only (lift_step (step_plain rule store r)) (fun _ => False) /\
  forall s0 T,
  match evolve_plain rule store r s0 (h_get h0 ca) T with
  | Ok (s', out) => exists w, heap_evolve_fixed [] (lift_step (step_plain rule store r)) h0 ca s0 T
                              = Ok (s', h0 ++ [w; out], S (length h0))
  | Raise e => heap_evolve_fixed [] (lift_step (step_plain rule store r)) h0 ca s0 T = Raise e
  end.
Proof.
  intros St rule store r h0 ca Hca. split; [apply lift_step_writes_nothing|].
  exact (heap_fixed_refines St (list Z) [] (step_plain rule store r) h0 ca Hca).
Qed.

Theorem C05_heap_plain_2d :
  forall (St : Type) (rule : rule2 St) (store : Z -> Z) (r : nat) (ty : nbhd_type) (h0 : heap grid) (ca : nat),
  ca < length h0 ->
  step_writes_only (lift_step (step_plain2d rule store r ty)) (fun _ => False) /\
  forall s0 T,
  match evolve2d_plain rule store r ty s0 (h_get h0 ca) T with
  | Ok (s', out) => exists w, heap_evolve_fixed [] (lift_step (step_plain2d rule store r ty)) h0 ca s0 T
                              = Ok (s', h0 ++ [w; out], S (length h0))
  | Raise e => heap_evolve_fixed [] (lift_step (step_plain2d rule store r ty)) h0 ca s0 T = Raise e
  end.
Proof.
  intros St rule store r ty h0 ca Hca. split; [apply lift_step_writes_nothing|].
  exact (heap_fixed_refines St grid [] (step_plain2d rule store r ty) h0 ca Hca).
Qed.

Theorem C05_heap_block_steps :
  forall (St : Type) (rule : block_rule St) (rule2 : block_rule2 St) (store : Z -> Z) (b b1 b2 : nat),
  step_writes_only (lift_step (step_block rule store b)) (fun _ => False) /\
  step_writes_only (lift_step (step_block2d rule2 store b1 b2)) (fun _ => False) /\
  (forall (h0 : heap (list Z)) ca, ca < length h0 -> forall s0 T,
     match evolve_fixed [] (step_block rule store b) s0 (h_get h0 ca) T with
     | Ok (s', out) => exists w, heap_evolve_fixed [] (lift_step (step_block rule store b)) h0 ca s0 T
                                 = Ok (s', h0 ++ [w; out], S (length h0))
     | Raise e => heap_evolve_fixed [] (lift_step (step_block rule store b)) h0 ca s0 T = Raise e
     end) /\
  (forall (h0 : heap grid2) ca, ca < length h0 -> forall s0 T,
     match evolve_fixed [] (step_block2d rule2 store b1 b2) s0 (h_get h0 ca) T with
     | Ok (s', out) => exists w, heap_evolve_fixed [] (lift_step (step_block2d rule2 store b1 b2)) h0 ca s0 T
                                 = Ok (s', h0 ++ [w; out], S (length h0))
     | Raise e => heap_evolve_fixed [] (lift_step (step_block2d rule2 store b1 b2)) h0 ca s0 T = Raise e
     end).
Proof.
  intros St rule rule2 store b b1 b2. split; [apply lift_step_writes_nothing|]. split; [apply lift_step_writes_nothing|].
  split.
  - intros h0 ca Hca. exact (heap_fixed_refines St (list Z) [] (step_block rule store b) h0 ca Hca).
  - intros h0 ca Hca. exact (heap_fixed_refines (St * bool) grid2 [] (step_block2d rule2 store b1 b2) h0 ca Hca).
Qed.

(* the aliasing engines violate the statements (steps that write nowhere): *)
(* `array = cellular_automaton`: the caller's object has changed after the call *)
Theorem C05_heap_inplace_refuted :
  exists (h0 : heap nat) (ca : nat) x hr rid,
    step_writes_only (lift_step inc_step) (fun _ => False) /\
    heap_evolve_inplace 0 (lift_step inc_step) h0 ca tt 3 = Ok (x, hr, rid) /\
    h_get hr ca <> h_get h0 ca.
Proof. exact inplace_refuted. Qed.

(* the result is the caller's object itself: not a new object *)
Theorem C05_heap_view_refuted :
  exists (h0 : heap nat) (ca : nat) x hr rid,
    step_writes_only (lift_step inc_step) (fun _ => False) /\
    heap_evolve_returns_view 0 (lift_step inc_step) h0 ca tt 3 = Ok (x, hr, rid) /\
    rid = ca /\ rid < length h0 /\ h_get hr ca <> h_get h0 ca.
Proof. exact returns_view_refuted. Qed.

(* non-vacuity: a rule object that holds a reference to ANOTHER array (id 1) and writes into it at every call,
   like ReversibleRule's previous-state vector: the frame condition holds with W = {1}; after the call object 1
   has changed, the caller's object (id 0) is intact and the result is the new object 3 *)
Example C05_nonvacuous_heap :
  let h0 : heap (list Z) := [[[7; 7; 7; 7; 7]; [0; 0; 1; 0; 0]]; [[9; 9; 9; 9; 9]]]%Z in
  let step := ref_step (remember_rule 1 [1; 1; 1]%Z 2%Z) store_id 1 in
  step_writes_only step (fun id => id = 1) /\ 0 < length h0 /\ ~ (0 = 1) /\
  exists hr,
    heap_evolve_fixed [] step h0 0 tt 3 = Ok (tt, hr, 3) /\
    h_get hr 0 = h_get h0 0 /\
    h_get hr 1 = [[0; 1; 1; 1; 0]]%Z /\ h_get hr 1 <> h_get h0 1 /\
    h_get hr 3 = (h_get h0 0 ++ [[0; 1; 1; 1; 0]; [1; 0; 1; 0; 1]])%Z.
Proof.
  cbv zeta. split; [apply ref_step_frame; apply remember_rule_frame|]. split; [cbn; lia|]. split; [discriminate|].
  eexists. split; [vm_compute; reflexivity|]. split; [reflexivity|]. split; [reflexivity|]. split; [discriminate|reflexivity].
Qed.

Print Assumptions C05_heap_input_unchanged.
Print Assumptions C05_heap_input_unchanged_dynamic.
Print Assumptions C05_heap_refines_engine.
Print Assumptions C05_heap_refines_engine_dynamic.
Print Assumptions C05_heap_plain_1d.
Print Assumptions C05_heap_plain_2d.
Print Assumptions C05_heap_block_steps.
Print Assumptions C05_heap_inplace_refuted.
Print Assumptions C05_heap_view_refuted.
