(* C09 — memoisation invokes the rule at most once per distinct neighbourhood.
   Property theorems only.  Sections: 1D (Proofs/Memo1DProofs.v) / 2D (appended by the C04 builder).
   `log_of` / `dyn_log_of` project the rule-call log (n, c, t) of a call; `call_key` is the
   neighbourhood contents n of a logged call. *)
From Coq Require String.
From Coq Require Import Lia.
From CPL Require Import Model.Base Model.Rules Model.Engine Model.Evolve1D Model.Memo1D Proofs.Memo1DProofs.

(* ================================================================== 1D *)
(* `rule` is ANY state machine whose returned value is f of the neighbourhood contents
   (`forall s n c t, snd (rule s n c t) = f n`: stateless pure rules, counters, loggers, ...). *)

(* memoize=True, exactly once each: the call returns (no exception), what it returns is the
   trajectory of the unmemoised engine of C01, no two rule calls have equal contents, and the
   contents the rule sees are exactly the ring neighbourhoods (cells c-r..c+r mod N) of the rows
   0..T-2 of that trajectory *)
Theorem C09_memo_true_once : forall (St : Type) (rule : rule1 St) (f : list Z -> Z) (store : Z -> Z) (r : nat) (s0 : St)
    (hist : list (list Z)) (T : nat),
  (forall s n c t, snd (rule s n c t) = f n) -> 1 <= r <= length (last hist []) -> 1 <= T ->
  exists s' rows,
    evolve_plain rule store r s0 hist T = Ok (s', hist ++ rows) /\
    arr_of (evolve1d_fixed rule store (PBool true) r s0 hist T) = Ok (hist ++ rows) /\
    NoDup (map call_key (log_of (evolve1d_fixed rule store (PBool true) r s0 hist T))) /\
    forall k, In k (map call_key (log_of (evolve1d_fixed rule store (PBool true) r s0 hist T))) <->
      exists t c, 1 <= t < T /\ c < length (last hist []) /\
                  k = ring_nbhd (nth (t - 1) (last hist [] :: rows) []) c r.
Proof. intros St rule f store r s0 hist T Ha H HT. exact (memo_true_once_trajectory_ans St rule f store r hist Ha H s0 T HT). Qed.

(* callable timesteps: whenever the memoised call returns (p, (state, log, array), predicate log), the
   unmemoised call returns the same array, predicate state and predicate log; the memoised log has
   pairwise distinct contents and the same set of contents as the unmemoised run's rule calls (one
   per cell and step, C01) *)
Theorem C09_memo_true_once_callable : forall (St : Type) (rule : rule1 St) (f : list Z -> Z) (store : Z -> Z) (r : nat) (s0 : St)
    (hist : list (list Z)) (P : Type) (pred : P -> list (list Z) -> nat -> P * bool) (fuel : nat) (p0 p : P)
    (sa : St) (la : list call1) (a : list (list Z)) (plog : list (list (list Z) * nat)),
  (forall s n c t, snd (rule s n c t) = f n) -> 1 <= r <= length (last hist []) ->
  evolve1d_dynamic rule store pred (PBool true) r fuel p0 s0 hist = Some (Ok (p, (sa, la, a), plog)) ->
  exists sb lb,
    evolve1d_dynamic rule store pred (PBool false) r fuel p0 s0 hist = Some (Ok (p, (sb, lb, a), plog)) /\
    NoDup (map call_key la) /\ forall k, In k (map call_key la) <-> In k (map call_key lb).
Proof.
  intros St rule f store r s0 hist P pred fuel p0 p sa la a plog Ha H.
  exact (memo_true_dynamic_ok St rule f store r hist Ha H P pred fuel p0 s0 p sa la a plog).
Qed.

(* memoize="recursive": the call returns the array the unmemoised call returns (neither raises), no
   two rule calls have equal (single-cell block) keys, and there are never more calls than in the
   unmemoised evolution, which makes N*(T-1) *)
Theorem C09_memo_recursive_at_most_once : forall (St : Type) (rule : rule1 St) (f : list Z -> Z) (store : Z -> Z) (r : nat)
    (s0 : St) (hist : list (list Z)) (T : nat),
  (forall s n c t, snd (rule s n c t) = f n) -> 1 <= r <= length (last hist []) -> 1 <= T ->
  exists rows,
    arr_of (evolve1d_fixed rule store (PStr StrLit.recursive_lit) r s0 hist T) = Ok (hist ++ rows) /\
    arr_of (evolve1d_fixed rule store (PBool false) r s0 hist T) = Ok (hist ++ rows) /\
    length rows = T - 1 /\
    NoDup (map call_key (log_of (evolve1d_fixed rule store (PStr StrLit.recursive_lit) r s0 hist T))) /\
    length (log_of (evolve1d_fixed rule store (PStr StrLit.recursive_lit) r s0 hist T)) <=
      length (log_of (evolve1d_fixed rule store (PBool false) r s0 hist T)) /\
    length (log_of (evolve1d_fixed rule store (PBool false) r s0 hist T)) = length (last hist []) * (T - 1).
Proof. intros St rule f store r s0 hist T Ha H HT. exact (memo_recursive_fixed_ok St rule f store r hist Ha H s0 T HT). Qed.

Theorem C09_memo_recursive_at_most_once_callable : forall (St : Type) (rule : rule1 St) (f : list Z -> Z) (store : Z -> Z)
    (r : nat) (s0 : St) (hist : list (list Z)) (P : Type) (pred : P -> list (list Z) -> nat -> P * bool) (fuel : nat)
    (p0 p : P) (sa : St) (la : list call1) (a : list (list Z)) (plog : list (list (list Z) * nat)),
  (forall s n c t, snd (rule s n c t) = f n) -> 1 <= r <= length (last hist []) ->
  evolve1d_dynamic rule store pred (PStr StrLit.recursive_lit) r fuel p0 s0 hist = Some (Ok (p, (sa, la, a), plog)) ->
  exists sb lb,
    evolve1d_dynamic rule store pred (PBool false) r fuel p0 s0 hist = Some (Ok (p, (sb, lb, a), plog)) /\
    NoDup (map call_key la) /\ length la <= length lb.
Proof.
  intros St rule f store r s0 hist P pred fuel p0 p sa la a plog Ha H.
  exact (memo_recursive_dynamic_ok St rule f store r hist Ha H P pred fuel p0 s0 p sa la a plog).
Qed.

(* for ANY rule state machine (no purity assumption), any radius, any rows: within one call no two
   rule invocations receive equal contents, in both memoised modes, fixed and callable timesteps
   (a rule call happens only on a cache miss and is followed by the insertion of its key) *)
Theorem C09_memo_no_repeated_contents_any_rule : forall (St : Type) (rule : rule1 St) (store : Z -> Z) (r : nat)
    (memo : PyVal) (s0 : St) (hist : list (list Z)) (T : nat) (s' : St) (lg : list call1) (a : list (list Z)),
  memo = PBool true \/ memo = PStr StrLit.recursive_lit ->
  evolve1d_fixed rule store memo r s0 hist T = Ok (s', lg, a) ->
  NoDup (map call_key lg).
Proof.
  intros St rule store r memo s0 hist T s' lg a Hm E.
  pose proof (memo_nodup_fixed_any St rule store r memo s0 hist T Hm) as H. rewrite E in H. exact H.
Qed.

Theorem C09_memo_no_repeated_contents_any_rule_callable : forall (St : Type) (rule : rule1 St) (store : Z -> Z) (r : nat)
    (memo : PyVal) (s0 : St) (hist : list (list Z)) (P : Type) (pred : P -> list (list Z) -> nat -> P * bool) (fuel : nat)
    (p0 p : P) (s' : St) (lg : list call1) (a : list (list Z)) (plog : list (list (list Z) * nat)),
  memo = PBool true \/ memo = PStr StrLit.recursive_lit ->
  evolve1d_dynamic rule store pred memo r fuel p0 s0 hist = Some (Ok (p, (s', lg, a), plog)) ->
  NoDup (map call_key lg).
Proof.
  intros St rule store r memo s0 hist P pred fuel p0 p s' lg a plog Hm E.
  pose proof (memo_nodup_dynamic_any St rule store r pred memo fuel p0 s0 hist Hm) as H. rewrite E in H. exact H.
Qed.

(* non-vacuity (1D): rule 90-like sum on a ring of 7 (uneven splits 3|4, 1|2, 2|2) from a single
   seed: the guard holds, 28 cells are computed, memoize=True calls the rule 7 times (the 7
   distinct neighbourhoods of the trajectory, in order of first occurrence), "recursive" 7 times *)
Example C09_nonvacuous_1d :
  let f := fun n : list Z => (lin_dot [1; 0; 1] n mod 2)%Z in
  let h := [[0; 0; 0; 1; 0; 0; 0]]%Z in
  1 <= 1 <= length (last h []) /\
  length (log_of (evolve1d_fixed (pure1 f) store_id (PBool false) 1 tt h 5)) = 28 /\
  map call_key (log_of (evolve1d_fixed (pure1 f) store_id (PBool true) 1 tt h 5)) =
    [[0; 0; 0]; [0; 0; 1]; [0; 1; 0]; [1; 0; 0]; [1; 0; 1]; [1; 1; 0]; [0; 1; 1]]%Z /\
  length (log_of (evolve1d_fixed (pure1 f) store_id (PStr StrLit.recursive_lit) 1 tt h 5)) = 7.
Proof. vm_compute. repeat match goal with |- _ /\ _ => split end; try reflexivity; lia. Qed.

(* ================================================================== 2D *)
(* Model/Memo2D.v, Proofs/Memo2DProofs.v (C04 builder).  `log2_of` projects the rule-call log of an evolve2d
   call made with the logging callable `logged2 rule`; `call2_key` is the neighbourhood contents with masked
   cells filled (what MaskedArray.tobytes() hashes: masked cells do not count), `call2_vals` the raw block.
   These hold for ANY rule callable (state machine), pure or not: they are facts about the caches. *)
From CPL Require Import Model.Evolve2D Model.Memo2D Proofs.Memo2DProofs.

(* memoize=True: no two rule calls of one evolve2d call have equal (masked-filled) contents, and the rule is
   entered at most R*C*(T-1) times, the number of calls of the unmemoised evolution *)
Theorem C09_memo2d_true_once :
  forall (S0 : Type) (rule : rule2 S0) (store : Z -> Z) (r : nat) (ty : nbhd_type) (R C : nat)
         (hist : list grid) (T : nat) (s0 : S0),
  1 <= R -> length (last hist []) = R /\ Forall (fun row => length row = C) (last hist []) ->
  NoDup (map call2_key (log2_of (evolve2d_mode_fixed (logged2 rule) store Memo r ty (s0, []) hist T))) /\
  length (log2_of (evolve2d_mode_fixed (logged2 rule) store Memo r ty (s0, []) hist T)) <= (T - 1) * (R * C).
Proof. intros S0 rule store r ty R C hist T s0. exact (memo2d_true_once_fixed S0 rule store r ty R C hist T s0). Qed.

(* exactly once per distinct content that occurs: after any step of the call (from any state reachable in
   it), the key of EVERY neighbourhood of the step's grid occurs exactly once among the keys of the calls
   logged so far *)
Theorem C09_memo2d_true_exactly_once_per_step :
  forall (S0 : Type) (rule : rule2 S0) (store : Z -> Z) (r : nat) (ty : nbhd_type) (R C : nat)
         (x : (S0 * list call2) * memo_table) (g : grid) (t row col : nat),
  1 <= R -> length g = R /\ Forall (fun row => length row = C) g ->
  TInv S0 x -> row < R -> col < C ->
  count_occ (list_eq_dec Z.eq_dec)
            (map call2_key (tlog S0 (fst (step_memo2d (logged2 rule) store r ty x g t))))
            (memo_key (get_neighbourhood g R C r row col ty)) = 1.
Proof.
  intros S0 rule store r ty R C x g t row col.
  exact (memo2d_true_step_covers S0 rule store r ty R C x g t row col).
Qed.

Theorem C09_memo2d_true_once_callable :
  forall (S0 : Type) (rule : rule2 S0) (store : Z -> Z) (r : nat) (ty : nbhd_type) (R C : nat) (hist : list grid)
         (P : Type) (pred : P -> list grid -> nat -> P * bool) (fuel : nat) (p0 : P) (s0 : S0)
         p' s lg out plog,
  1 <= R -> hist <> [] -> length (last hist []) = R /\ Forall (fun row => length row = C) (last hist []) ->
  evolve2d_mode_dynamic (logged2 rule) store pred Memo r ty fuel p0 (s0, []) hist = Some (p', (s, lg), out, plog) ->
  NoDup (map call2_key lg) /\ length lg + length hist * (R * C) <= length out * (R * C).
Proof.
  intros S0 rule store r ty R C hist P pred fuel p0 s0 p' s lg out plog.
  exact (memo2d_true_once_dynamic S0 rule store r ty pred R C hist fuel p0 s0 p' s lg out plog).
Qed.

(* memoize="recursive": no two rule calls with equal single-cell block contents (the rule is entered only on
   a cache miss of a 1x1 block, whose key is put right after; the cache only grows), and at most R*C*(T-1)
   calls *)
Theorem C09_memo2d_recursive_at_most_once :
  forall (S0 : Type) (rule : rule2 S0) (store : Z -> Z) (r : nat) (ty : nbhd_type) (R C : nat)
         (hist : list grid) (T : nat) (s0 : S0),
  1 <= R -> length (last hist []) = R /\ Forall (fun row => length row = C) (last hist []) ->
  NoDup (map call2_vals (log2_of (evolve2d_mode_fixed (logged2 rule) store Recursive r ty (s0, []) hist T))) /\
  length (log2_of (evolve2d_mode_fixed (logged2 rule) store Recursive r ty (s0, []) hist T)) <= (T - 1) * (R * C).
Proof.
  intros S0 rule store r ty R C hist T s0.
  exact (memo2d_recursive_at_most_once_fixed S0 rule store r ty R C hist T s0).
Qed.

Theorem C09_memo2d_recursive_at_most_once_callable :
  forall (S0 : Type) (rule : rule2 S0) (store : Z -> Z) (r : nat) (ty : nbhd_type) (R C : nat) (hist : list grid)
         (P : Type) (pred : P -> list grid -> nat -> P * bool) (fuel : nat) (p0 : P) (s0 : S0)
         p' s lg out plog,
  1 <= R -> hist <> [] -> length (last hist []) = R /\ Forall (fun row => length row = C) (last hist []) ->
  evolve2d_mode_dynamic (logged2 rule) store pred Recursive r ty fuel p0 (s0, []) hist = Some (p', (s, lg), out, plog) ->
  NoDup (map call2_vals lg) /\ length lg + length hist * (R * C) <= length out * (R * C).
Proof.
  intros S0 rule store r ty R C hist P pred fuel p0 s0 p' s lg out plog.
  exact (memo2d_recursive_at_most_once_dynamic S0 rule store r ty pred R C hist fuel p0 s0 p' s lg out plog).
Qed.

(* `built R C r ty n` (Proofs/Memo2DProofs.v) := exists g row col, g is a well-shaped R x C grid, row < R, col < C and
   n = get_neighbourhood g R C r row col ty. *)
(* memoize=True, exactly once each, at the level of the whole call (the 2D analogue of C09_memo_true_once): for a
   pure rule that reads only the unmasked entries of the neighbourhoods the engine builds, there are rows with
   plain array = memoised array = hist ++ rows, the (masked-filled) keys of the logged rule calls are pairwise
   distinct, and a key is logged IFF it is the key of the neighbourhood of some cell of some grid among rows
   0..T-2 of that (plain) trajectory *)
Theorem C09_memo2d_true_once_trajectory :
  forall (f : nbhd2 -> Z) (store : Z -> Z) (r : nat) (ty : nbhd_type) (R C : nat) (hist : list grid) (T : nat),
  (forall n n', built R C r ty n -> built R C r ty n' ->
                nb_mask n = nb_mask n' -> unmasked n = unmasked n' -> f n = f n') ->
  1 <= R -> 1 <= C -> r <= Nat.min R C ->
  length (last hist []) = R /\ Forall (fun row => length row = C) (last hist []) -> 1 <= T ->
  exists rows,
    arr2_of (evolve2d_mode_fixed (logged2 (pure_rule2 f)) store Plain r ty (tt, []) hist T) = Ok (hist ++ rows) /\
    arr2_of (evolve2d_mode_fixed (logged2 (pure_rule2 f)) store Memo r ty (tt, []) hist T) = Ok (hist ++ rows) /\
    NoDup (map call2_key (log2_of (evolve2d_mode_fixed (logged2 (pure_rule2 f)) store Memo r ty (tt, []) hist T))) /\
    forall k, In k (map call2_key (log2_of (evolve2d_mode_fixed (logged2 (pure_rule2 f)) store Memo r ty (tt, []) hist T))) <->
      exists t row col, 1 <= t < T /\ row < R /\ col < C /\
        k = memo_key (get_neighbourhood (nth (t - 1) (last hist [] :: rows) []) R C r row col ty).
Proof.
  intros f store r ty R C hist T Hum.
  exact (memo2d_true_once_trajectory unit (pure_rule2 f) store r ty f R C hist T tt (answers_pure f) Hum).
Qed.

(* callable timesteps: `states` = the grids of this call (the starting grid and the ones produced); the rule is
   entered exactly once for each distinct key among the neighbourhoods of all of them but the last *)
Theorem C09_memo2d_true_once_trajectory_callable :
  forall (f : nbhd2 -> Z) (store : Z -> Z) (r : nat) (ty : nbhd_type) (R C : nat) (hist : list grid)
         (P : Type) (pred : P -> list grid -> nat -> P * bool) (fuel : nat) (p0 : P) p' s lg out plog,
  (forall n n', built R C r ty n -> built R C r ty n' ->
                nb_mask n = nb_mask n' -> unmasked n = unmasked n' -> f n = f n') ->
  1 <= R -> 1 <= C -> r <= Nat.min R C ->
  length (last hist []) = R /\ Forall (fun row => length row = C) (last hist []) ->
  evolve2d_mode_dynamic (logged2 (pure_rule2 f)) store pred Memo r ty fuel p0 (tt, []) hist = Some (p', (s, lg), out, plog) ->
  exists states,
    out = removelast hist ++ states /\
    dyn_arr2_of (evolve2d_mode_dynamic (logged2 (pure_rule2 f)) store pred Plain r ty fuel p0 (tt, []) hist) = Some (out, plog) /\
    NoDup (map call2_key lg) /\
    forall k, In k (map call2_key lg) <->
      exists j row col, j < length states - 1 /\ row < R /\ col < C /\
        k = memo_key (get_neighbourhood (nth j states []) R C r row col ty).
Proof.
  intros f store r ty R C hist P pred fuel p0 p' s lg out plog Hum HR HC Hr Hwf H.
  exact (memo2d_true_once_trajectory_dynamic unit (pure_rule2 f) store r ty R C P pred HR f hist fuel p0 tt p' s lg out plog
           (answers_pure f) Hum HC Hr Hwf H).
Qed.

(* never more often than the unmemoised evolution, which enters the rule exactly R*C*(T-1) times *)
Theorem C09_memo2d_never_more_than_plain :
  forall (S0 : Type) (rule : rule2 S0) (store : Z -> Z) (r : nat) (ty : nbhd_type) (R C : nat)
         (hist : list grid) (T : nat) (s0 : S0),
  1 <= R -> 1 <= T -> length (last hist []) = R /\ Forall (fun row => length row = C) (last hist []) ->
  length (log2_of (evolve2d_mode_fixed (logged2 rule) store Plain r ty (s0, []) hist T)) = (T - 1) * (R * C) /\
  length (log2_of (evolve2d_mode_fixed (logged2 rule) store Memo r ty (s0, []) hist T))
    <= length (log2_of (evolve2d_mode_fixed (logged2 rule) store Plain r ty (s0, []) hist T)) /\
  length (log2_of (evolve2d_mode_fixed (logged2 rule) store Recursive r ty (s0, []) hist T))
    <= length (log2_of (evolve2d_mode_fixed (logged2 rule) store Plain r ty (s0, []) hist T)).
Proof.
  intros S0 rule store r ty R C hist T s0 HR HT Hwf.
  rewrite (plain_log2_length S0 rule store r ty R C hist T s0 HR HT Hwf).
  split; [reflexivity|]. split.
  - exact (proj2 (memo2d_true_once_fixed S0 rule store r ty R C hist T s0 HR Hwf)).
  - exact (proj2 (memo2d_recursive_at_most_once_fixed S0 rule store r ty R C hist T s0 HR Hwf)).
Qed.

(* non-vacuity (2D): the striped 3 x 4 grid of C04, totalistic Lin2 mod 2, r = 1, Moore, T = 4: 36 cell
   updates; memoize=True enters the rule 8 times (8 distinct contents), "recursive" 8 times; with the
   von Neumann neighbourhood of radius 2 6 calls each for 24 updates *)
Example C09_nonvacuous_2d :
  let f := fun n : nbhd2 => (lin_dot [1;1;1;1;1;1;1;1;1;1;1;1;1] (unmasked n) mod 2)%Z in
  let g := [[0;1;0;1];[1;0;1;0];[0;1;0;1]]%Z in
  (length (last [g] []) = 3 /\ Forall (fun row => length row = 4) (last [g] [])) /\
  map (fun m => length (log2_of (evolve2d_mode_fixed (logged2 (pure_rule2 f)) store_id m 1 Moore (tt, []) [g] 4)))
      [Plain; Memo; Recursive] = [36; 8; 8] /\
  map (fun m => length (log2_of (evolve2d_mode_fixed (logged2 (pure_rule2 f)) store_id m 2 VonNeumann (tt, []) [g] 3)))
      [Plain; Memo; Recursive] = [24; 6; 6].
Proof.
  split; [split; [reflexivity|repeat constructor]|]. split; vm_compute; reflexivity.
Qed.


Print Assumptions C09_memo_true_once.
Print Assumptions C09_memo_true_once_callable.
Print Assumptions C09_memo_recursive_at_most_once.
Print Assumptions C09_memo_recursive_at_most_once_callable.
Print Assumptions C09_memo_no_repeated_contents_any_rule.
Print Assumptions C09_memo_no_repeated_contents_any_rule_callable.
Print Assumptions C09_memo2d_true_once.
Print Assumptions C09_memo2d_true_exactly_once_per_step.
Print Assumptions C09_memo2d_true_once_callable.
Print Assumptions C09_memo2d_recursive_at_most_once.
Print Assumptions C09_memo2d_recursive_at_most_once_callable.
Print Assumptions C09_memo2d_never_more_than_plain.
Print Assumptions C09_memo2d_true_once_trajectory.
Print Assumptions C09_memo2d_true_once_trajectory_callable.
From CPL Require Import gen.GenFuns_C09 GenProps.GenFunsEquivC09 GenProps.C09Src. (* source tie: gen/GenFuns_C09.v is regenerated from ca_functions.py, ca_functions2d.py on every run *)
Theorem C09_source_tie : (forall (St : Type) (rule : rule1 St) (s : St) (cache : list (list Z * Z)) (lg : list call1) (n : list Z) (c t : nat), get_memoized rule (s, cache, lg) n c t = (let '((sl, cache'), v) := src_get_memoized (fun n => n) (logged1 rule) (s, lg) n c t cache in ((fst sl, cache', snd sl), v))) /\ (forall (St : Type) (rule : rule2 St) (s : St) (m : memo_table) (n : nbhd2) (c : (nat * nat)%type) (t : nat), get_memoized2 rule (s, m) n c t = src_get_memoized2d memo_key rule s n c t m). Proof. exact C09_source_translation_agrees. Qed. Print Assumptions C09_source_tie.
