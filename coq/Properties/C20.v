(* C20 — Hopfield network: Hebbian weights and energy descent.
   Property theorems only: each is closed by `exact` of a lemma proved in Proofs/HopfieldProofs.v or
   Proofs/HopfieldAsync.v.  Weights are Z in the model (the code's int32 overflow is ignored). *)
From Coq Require Import Permutation.
From CPL Require Import Model.Base Model.Rules Model.Engine Model.Evolve1D Model.Async Model.Hopfield.
From CPL Require Import Proofs.AsyncProofs Proofs.HopfieldProofs Proofs.HopfieldAsync.
Local Open Scope Z_scope.

(* train_hebbian: for every non-empty set of patterns of one length N, train succeeds, W is N x N,
   W[i][j] = sum_p p_i p_j off the diagonal and 0 on it; hence W is symmetric with zero diagonal.
   (hebb P i j = sum over p in P of p_i * p_j.) *)
Theorem C20_train_hebbian : forall N p0 P, Forall (fun p => length p = N) (p0 :: P) ->
  exists W, train (p0 :: P) = Ok W /\ shape N W /\
    (forall i j, (i < N)%nat -> (j < N)%nat ->
       mget W i j = if (i =? j)%nat then 0 else hebb (p0 :: P) i j) /\
    wsym N W /\ wdiag N W.
Proof. exact train_hebbian. Qed.

(* the inputs train rejects, as the code does *)
Theorem C20_train_rejects : train [] = Raise IndexError /\
  forall p0 P, Exists (fun p => (length p0 < length p)%nat) (p0 :: P) -> train (p0 :: P) = Raise IndexError.
Proof. split; [exact train_empty|exact train_too_long]. Qed.

(* r = num_cells // 2 is the radius whose window is the whole ring, exactly for odd sizes *)
Theorem C20_radius : forall N, Nat.odd N = true -> (N = 2 * hopfield_r N + 1)%nat.
Proof. exact hopfield_r_odd. Qed.

(* hopfield_field: on an odd ring N = 2r+1 (any r, so any odd N), with n the ring neighbourhood of
   cell c of radius r (C01), the V accumulated by _rule -- left rows c - r + j through NumPy negative
   indexing, right rows (c + j + 1) % len(n) -- is the weighted input of c from every other cell,
   each exactly once:  V = sum_{i <> c} W[i][c] * s_i.  No IndexError under this guard. *)
Theorem C20_hopfield_field : forall r W s c, let N := (2 * r + 1)%nat in
  shape N W -> length s = N -> (c < N)%nat ->
  hopfield_V W r (ring_nbhd s c r) c = Ok (field_excl W s c).
Proof. exact hopfield_field. Qed.

(* hopfield_update: _rule returns +1 iff V >= 0, else -1 *)
Theorem C20_hopfield_update : forall r W s c, let N := (2 * r + 1)%nat in
  shape N W -> length s = N -> (c < N)%nat ->
  hopfield_rule W r (ring_nbhd s c r) c = Ok (hop (field_excl W s c)) /\
  (0 <= field_excl W s c -> hop (field_excl W s c) = 1) /\
  (field_excl W s c < 0 -> hop (field_excl W s c) = -1).
Proof. exact hopfield_update. Qed.

(* energy identity: for symmetric W with zero diagonal, setting cell c to ANY value v changes
   2E = - sum_ij W[i][j] s_i s_j by -2 (v - s_c) V *)
Theorem C20_energy_identity : forall N W s c v, wsym N W -> wdiag N W -> length s = N -> (c < N)%nat ->
  energy2 W (upd_list s c v) - energy2 W s = - 2 * (v - nth c s 0) * field_excl W s c.
Proof. exact energy_identity. Qed.

(* energy_descent: the Hopfield update of one bipolar cell never increases 2E *)
Theorem C20_energy_descent : forall N W s c, wsym N W -> wdiag N W -> length s = N -> (c < N)%nat ->
  (nth c s 0 = 1 \/ nth c s 0 = -1) ->
  energy2 W (hop_update W s c) - energy2 W s
    = - 2 * (hop (field_excl W s c) - nth c s 0) * field_excl W s c /\
  energy2 W (hop_update W s c) <= energy2 W s.
Proof. exact energy_descent. Qed.

(* ... hence along ANY sequence of single-cell updates (any order, repetitions allowed): the list of
   2E values of the trajectory never increases from one entry to the next, all states stay bipolar *)
Theorem C20_energy_descent_seq : forall N W cs s, wsym N W -> wdiag N W -> length s = N -> bipolar s ->
  Forall (fun c => (c < N)%nat) cs ->
  nonincreasing (map (energy2 W) (trajectory W s cs)) /\
  Forall (fun row => length row = N /\ bipolar row) (trajectory W s cs) /\
  last (trajectory W s cs) [] = run_updates W s cs /\
  energy2 W (run_updates W s cs) <= energy2 W s.
Proof. exact energy_descent_seq. Qed.

Theorem C20_nonincreasing_meaning : forall l, nonincreasing l ->
  forall i j, (i <= j < length l)%nat -> nth j l 0 <= nth i l 0.
Proof. exact nonincreasing_nth. Qed.

(* stored_fixed: one stored bipolar pattern p, N >= 2: p and -p are fixed points of every single-cell
   update, hence of every update sequence *)
Theorem C20_stored_fixed : forall N p W c, (2 <= N)%nat -> length p = N -> bipolar p -> train [p] = Ok W ->
  (c < N)%nat ->
  hop_update W p c = p /\ hop_update W (map Z.opp p) c = map Z.opp p.
Proof. exact stored_fixed. Qed.

Theorem C20_stored_fixed_seq : forall N p W cs, (2 <= N)%nat -> length p = N -> bipolar p -> train [p] = Ok W ->
  Forall (fun c => (c < N)%nat) cs ->
  run_updates W p cs = p /\ run_updates W (map Z.opp p) cs = map Z.opp p.
Proof. exact stored_fixed_seq. Qed.

(* hopfield_step / composition, abstract form: ANY evolution step (engine state X, invariant, schedule)
   that rewrites exactly the scheduled cell to _rule's value on that cell's ring neighbourhood performs
   the Hopfield update of that cell, and whole evolutions built from it by the engine's evolve_fixed
   have non-increasing 2E *)
Theorem C20_hopfield_step : forall r W, shape (2 * r + 1) W ->
  forall (X : Type) (step : X -> list Z -> nat -> X * list Z) (Inv : X -> Prop) (sched : X -> nat),
  (forall x s t, Inv x -> length s = (2 * r + 1)%nat ->
     (sched x < 2 * r + 1)%nat /\ Inv (fst (step x s t)) /\
     snd (step x s t) = upd_list s (sched x) (snd (hopfield_rule1 W r tt (ring_nbhd s (sched x) r) (sched x) t))) ->
  forall x s t, Inv x -> length s = (2 * r + 1)%nat ->
    snd (step x s t) = hop_update W s (sched x) /\ (sched x < 2 * r + 1)%nat /\ Inv (fst (step x s t)).
Proof. exact hopfield_step. Qed.

(* TOTALITY of such an evolution, with the schedule by name: for every T >= 1 it returns; its rows are the
   trajectory of the Hopfield updates of exactly the scheduled cells cs (sched_cells = the cell `sched x` of each
   successive engine state), and no call of _rule raises.  No symmetry, no bipolarity. *)
Theorem C20_evolve_total_abstract : forall r W, shape (2 * r + 1) W ->
  forall (X : Type) (step : X -> list Z -> nat -> X * list Z) (Inv : X -> Prop) (sched : X -> nat),
  (forall x s t, Inv x -> length s = (2 * r + 1)%nat ->
     (sched x < 2 * r + 1)%nat /\ Inv (fst (step x s t)) /\
     snd (step x s t) = upd_list s (sched x) (snd (hopfield_rule1 W r tt (ring_nbhd s (sched x) r) (sched x) t))) ->
  forall T x0 s, (1 <= T)%nat -> Inv x0 -> length s = (2 * r + 1)%nat ->
    let cs := sched_cells X step sched (T - 1) x0 s 1 in
    let rows := trajectory W s cs in
    (exists x, evolve_fixed [] step x0 [s] T = Ok (x, rows)) /\
    length cs = (T - 1)%nat /\ Forall (fun c => (c < 2 * r + 1)%nat) cs /\ length rows = T /\
    Forall (fun row => length row = (2 * r + 1)%nat) rows /\
    forall i, (i < T - 1)%nat ->
      hopfield_rule W r (ring_nbhd (nth i rows []) (nth i cs 0%nat) r) (nth i cs 0%nat)
      = Ok (nth (nth i cs 0%nat) (nth (S i) rows []) 0).
Proof. exact evolve_total. Qed.

Theorem C20_evolve_energy_abstract : forall r W, shape (2 * r + 1) W ->
  forall (X : Type) (step : X -> list Z -> nat -> X * list Z) (Inv : X -> Prop) (sched : X -> nat),
  (forall x s t, Inv x -> length s = (2 * r + 1)%nat ->
     (sched x < 2 * r + 1)%nat /\ Inv (fst (step x s t)) /\
     snd (step x s t) = upd_list s (sched x) (snd (hopfield_rule1 W r tt (ring_nbhd s (sched x) r) (sched x) t))) ->
  forall T x0 s, (1 <= T)%nat -> wsym (2 * r + 1) W -> wdiag (2 * r + 1) W ->
    Inv x0 -> length s = (2 * r + 1)%nat -> bipolar s ->
    let cs := sched_cells X step sched (T - 1) x0 s 1 in
    let rows := trajectory W s cs in
    (exists x, evolve_fixed [] step x0 [s] T = Ok (x, rows)) /\
    length rows = T /\ Forall (fun c => (c < 2 * r + 1)%nat) cs /\
    nonincreasing (map (energy2 W) rows) /\
    Forall (fun row => length row = (2 * r + 1)%nat /\ bipolar row) rows.
Proof. exact evolve_energy. Qed.

(* the same for the direct schedule model: step t (1-based) updates cell order[(t-1) mod len order] *)
Theorem C20_direct_model_energy : forall r W order T s, let N := (2 * r + 1)%nat in
  (1 <= T)%nat -> shape N W -> wsym N W -> wdiag N W ->
  order <> [] -> Forall (fun c => (c < N)%nat) order ->
  length s = N -> bipolar s ->
  let cs := map (fun i => nth (i mod length order) order 0%nat) (seq 0 (T - 1)) in
  let rows := trajectory W s cs in
  (exists k, hop_evolve W r order s T = Ok (k, rows)) /\
  length rows = T /\ Forall (fun c => (c < N)%nat) cs /\
  nonincreasing (map (energy2 W) rows) /\
  Forall (fun row => length row = N /\ bipolar row) rows.
Proof. exact hop_evolve_energy. Qed.

(* END TO END (C01 + C12 + C20), TOTALITY: cpl.evolve(initial, T, AsynchronousRule(_rule, ...), r) as modelled by
   evolve_plain + async_rule1, on an odd ring N = 2r+1 >= 3, returns for every T >= 1, every N x N matrix W, every
   start of length N, every shuffle oracle returning permutations and every admissible AsynchronousRule state
   (any duplicate-free update order over the cells, any curr, randomize_each_cycle or not -- so also a second
   evolve on the same rule object).  Its rows are the trajectory of the Hopfield updates of exactly the cells
   cs = sched_trace ... (Model/Async.v: cell order[curr] of the current, possibly reshuffled, update order, curr
   advancing cyclically), and no call of _rule raises: each returns the value the next row holds. *)
Theorem C20_evolve_total : forall r W sh a0 s T, (1 <= r)%nat -> (1 <= T)%nat ->
  shape (2 * r + 1) W -> (forall i l, Permutation l (sh i l)) ->
  ainv1 unit (2 * r + 1) a0 -> length s = (2 * r + 1)%nat ->
  let cs := sched_trace nat 0%nat sh (T - 1) (a_rand a0) (a_order a0) (a_curr a0) (a_nsh a0) in
  let rows := trajectory W s cs in
  (exists a, evolve_plain (async_rule1 (hopfield_rule1 W r) sh) store_id r a0 [s] T = Ok (a, rows)) /\
  length cs = (T - 1)%nat /\ Forall (fun c => (c < 2 * r + 1)%nat) cs /\ length rows = T /\
  Forall (fun row => length row = (2 * r + 1)%nat) rows /\
  forall i, (i < T - 1)%nat ->
    hopfield_rule W r (ring_nbhd (nth i rows []) (nth i cs 0%nat) r) (nth i cs 0%nat)
    = Ok (nth (nth i cs 0%nat) (nth (S i) rows []) 0).
Proof. exact hopfield_async_total. Qed.

(* ... ENERGY: for symmetric zero-diagonal W and a bipolar start, 2E never increases and all rows are bipolar *)
Theorem C20_evolve_energy : forall r W sh a0 s T, (1 <= r)%nat -> (1 <= T)%nat ->
  shape (2 * r + 1) W -> wsym (2 * r + 1) W -> wdiag (2 * r + 1) W ->
  (forall i l, Permutation l (sh i l)) ->
  ainv1 unit (2 * r + 1) a0 -> length s = (2 * r + 1)%nat -> bipolar s ->
  let cs := sched_trace nat 0%nat sh (T - 1) (a_rand a0) (a_order a0) (a_curr a0) (a_nsh a0) in
  let rows := trajectory W s cs in
  (exists a, evolve_plain (async_rule1 (hopfield_rule1 W r) sh) store_id r a0 [s] T = Ok (a, rows)) /\
  length rows = T /\ Forall (fun c => (c < 2 * r + 1)%nat) cs /\
  nonincreasing (map (energy2 W) rows) /\
  Forall (fun row => length row = (2 * r + 1)%nat /\ bipolar row) rows.
Proof. exact hopfield_async_energy. Qed.

(* ... for the net as HopfieldNet builds it: odd N >= 3, W = train(P), r = N // 2, update order = all cells
   shuffled once by the constructor (sh 0 (seq 0 N), any permutation): totality for every start of length N *)
Theorem C20_net_total : forall N p0 P W sh rand s T,
  Nat.odd N = true -> (3 <= N)%nat -> (1 <= T)%nat ->
  Forall (fun p => length p = N) (p0 :: P) -> train (p0 :: P) = Ok W ->
  (forall i l, Permutation l (sh i l)) -> length s = N ->
  let cs := sched_trace nat 0%nat sh (T - 1) rand (sh 0%nat (seq 0 N)) 0 1 in
  let rows := trajectory W s cs in
  (exists a, evolve_plain (async_rule1 (hopfield_rule1 W (hopfield_r N)) sh) store_id (hopfield_r N)
               (async_init_cells sh (init_order1 N) rand tt) [s] T = Ok (a, rows)) /\
  length cs = (T - 1)%nat /\ Forall (fun c => (c < N)%nat) cs /\ length rows = T /\
  Forall (fun row => length row = N) rows /\
  forall i, (i < T - 1)%nat ->
    hopfield_rule W (hopfield_r N) (ring_nbhd (nth i rows []) (nth i cs 0%nat) (hopfield_r N)) (nth i cs 0%nat)
    = Ok (nth (nth i cs 0%nat) (nth (S i) rows []) 0).
Proof. exact hopfield_net_total. Qed.

(* ... and energy descent for every bipolar start *)
Theorem C20_net_energy : forall N p0 P W sh rand s T,
  Nat.odd N = true -> (3 <= N)%nat -> (1 <= T)%nat ->
  Forall (fun p => length p = N) (p0 :: P) -> train (p0 :: P) = Ok W ->
  (forall i l, Permutation l (sh i l)) ->
  length s = N -> bipolar s ->
  let cs := sched_trace nat 0%nat sh (T - 1) rand (sh 0%nat (seq 0 N)) 0 1 in
  let rows := trajectory W s cs in
  (exists a, evolve_plain (async_rule1 (hopfield_rule1 W (hopfield_r N)) sh) store_id (hopfield_r N)
               (async_init_cells sh (init_order1 N) rand tt) [s] T = Ok (a, rows)) /\
  length rows = T /\ Forall (fun c => (c < N)%nat) cs /\
  nonincreasing (map (energy2 W) rows) /\
  Forall (fun row => length row = N /\ bipolar row) rows.
Proof. exact hopfield_net_energy. Qed.

(* the schedule in closed form (randomize_each_cycle = False, what HopfieldNet uses): the i-th step (0-based)
   updates cell order[i mod N], order = the constructor's shuffle of 0..N-1 *)
Theorem C20_net_schedule : forall N sh T i, (1 <= N)%nat -> (forall i l, Permutation l (sh i l)) -> (i < T - 1)%nat ->
  nth i (sched_trace nat 0%nat sh (T - 1) false (sh 0%nat (seq 0 N)) 0 1) 0%nat
  = nth (i mod N) (sh 0%nat (seq 0 N)) 0%nat.
Proof. exact hopfield_net_schedule. Qed.

(* ... and a single stored pattern and its negation are fixed points of that evolution: every row is p (-p) *)
Theorem C20_net_stored_fixed : forall N p W sh rand T,
  Nat.odd N = true -> (3 <= N)%nat -> (1 <= T)%nat -> length p = N -> bipolar p -> train [p] = Ok W ->
  (forall i l, Permutation l (sh i l)) ->
  (exists a, evolve_plain (async_rule1 (hopfield_rule1 W (hopfield_r N)) sh) store_id (hopfield_r N)
               (async_init_cells sh (init_order1 N) rand tt) [p] T = Ok (a, repeat p T)) /\
  (exists a, evolve_plain (async_rule1 (hopfield_rule1 W (hopfield_r N)) sh) store_id (hopfield_r N)
               (async_init_cells sh (init_order1 N) rand tt) [map Z.opp p] T = Ok (a, repeat (map Z.opp p) T)).
Proof. exact hopfield_net_stored_fixed. Qed.

(* train as the three loops with element accesses that raise (the translator's target) is the same function as
   the pre-checked fold `train` the theorems above are about: same W or same exception, for EVERY input *)
Theorem C20_train_loop : forall P, train_loop P = train P.
Proof. exact train_loop_eq. Qed.

(* ---- non-vacuity: N = 5, two patterns, a scripted shuffle; the hypotheses are met, the evolution
   moves, and 2E strictly drops twice (8, 8, 8, 8, 0, 0, -16, -16) ---- *)
Definition ex_P : list (list Z) := [[1; -1; 1; -1; 1]; [1; 1; -1; -1; 1]].
Definition ex_W : list (list Z) :=
  [[0; 0; 0; -2; 2]; [0; 0; -2; 0; 0]; [0; -2; 0; 0; 0]; [-2; 0; 0; 0; -2]; [2; 0; 0; -2; 0]].
Definition ex_sh := script_sh 0%nat [[3; 0; 4; 1; 2]%nat].
Definition ex_s : list Z := [-1; -1; -1; 1; 1].

Example C20_nonvacuous_train : train ex_P = Ok ex_W /\ Forall (fun p => length p = 5%nat) ex_P.
Proof. split; [vm_compute; reflexivity|repeat constructor]. Qed.

Example C20_nonvacuous_evolve :
  exists a,
  evolve_plain (async_rule1 (hopfield_rule1 ex_W (hopfield_r 5)) ex_sh) store_id (hopfield_r 5)
               (async_init_cells ex_sh (init_order1 5) false tt) [ex_s] 8
  = Ok (a, [[-1; -1; -1; 1; 1]; [-1; -1; -1; 1; 1]; [1; -1; -1; 1; 1]; [1; -1; -1; 1; 1];
            [1; 1; -1; 1; 1]; [1; 1; -1; 1; 1]; [1; 1; -1; -1; 1]; [1; 1; -1; -1; 1]]) /\
  map (energy2 ex_W) [[-1; -1; -1; 1; 1]; [1; -1; -1; 1; 1]; [1; 1; -1; 1; 1]; [1; 1; -1; -1; 1]]
  = [8; 8; 0; -16] /\
  Nat.odd 5 = true /\ bipolar ex_s /\ length ex_s = 5%nat /\
  a_order (async_init_cells ex_sh (init_order1 5) false tt) = [3; 0; 4; 1; 2]%nat.
Proof.
  eexists. split; [vm_compute; reflexivity|]. split; [vm_compute; reflexivity|].
  split; [reflexivity|]. split; [|split; reflexivity].
  repeat (apply Forall_cons; [solve [left; reflexivity | right; reflexivity]|]). apply Forall_nil.
Qed.

(* the index arithmetic on a cell whose left neighbours wrap (c = 0: rows -2, -1 -> 3, 4) and on one
   whose right neighbours wrap (c = 4), with a tie V = 0 resolved to +1 *)
Example C20_nonvacuous_field :
  hopfield_V ex_W 2 (ring_nbhd ex_s 0 2) 0 = Ok 0 /\ field_excl ex_W ex_s 0 = 0 /\
  hopfield_rule ex_W 2 (ring_nbhd ex_s 0 2) 0 = Ok 1 /\
  hopfield_V ex_W 2 (ring_nbhd ex_s 4 2) 4 = Ok (-4) /\ field_excl ex_W ex_s 4 = -4 /\
  ring_nbhd ex_s 0 2 = [1; 1; -1; -1; -1].
Proof. repeat (split; [vm_compute; reflexivity|]). vm_compute; reflexivity. Qed.

(* a stored pattern stays put; the shuffle oracle of the example is a permutation-valued script *)
Example C20_nonvacuous_stored :
  exists W a, train [[1; -1; 1; -1; 1]] = Ok W /\
  evolve_plain (async_rule1 (hopfield_rule1 W 2) ex_sh) store_id 2
               (async_init_cells ex_sh (init_order1 5) false tt) [[-1; 1; -1; 1; -1]] 4
  = Ok (a, [[-1; 1; -1; 1; -1]; [-1; 1; -1; 1; -1]; [-1; 1; -1; 1; -1]; [-1; 1; -1; 1; -1]]).
Proof. eexists. eexists. split; vm_compute; reflexivity. Qed.

(* bipolarity of the state is a necessary hypothesis of energy descent, not an artefact: with one stored
   pattern [1;1;1] and the non-bipolar state [5;1;1], updating cell 0 raises 2E from -22 to -6 *)
Example C20_bipolar_needed :
  train [[1; 1; 1]] = Ok [[0; 1; 1]; [1; 0; 1]; [1; 1; 0]] /\
  energy2 [[0; 1; 1]; [1; 0; 1]; [1; 1; 0]] [5; 1; 1] = -22 /\
  hop_update [[0; 1; 1]; [1; 0; 1]; [1; 1; 0]] [5; 1; 1] 0 = [1; 1; 1] /\
  energy2 [[0; 1; 1]; [1; 0; 1]; [1; 1; 0]] [1; 1; 1] = -6.
Proof. repeat (split; [vm_compute; reflexivity|]). vm_compute; reflexivity. Qed.

(* train_loop raises inside the loop exactly where train's pre-check says so *)
Example C20_nonvacuous_train_loop :
  train_loop ex_P = Ok ex_W /\ train_loop [[1; -1]; [1; -1; 1]] = Raise IndexError /\ train_loop [] = Raise IndexError /\
  train_loop [[1; -1; 1]; [1; -1]] = Ok [[0; -2; 1]; [-2; 0; -1]; [1; -1; 0]].
Proof. repeat (split; [vm_compute; reflexivity|]). vm_compute; reflexivity. Qed.

Print Assumptions C20_train_hebbian.
Print Assumptions C20_train_rejects.
Print Assumptions C20_radius.
Print Assumptions C20_hopfield_field.
Print Assumptions C20_hopfield_update.
Print Assumptions C20_energy_identity.
Print Assumptions C20_energy_descent.
Print Assumptions C20_energy_descent_seq.
Print Assumptions C20_nonincreasing_meaning.
Print Assumptions C20_stored_fixed.
Print Assumptions C20_stored_fixed_seq.
Print Assumptions C20_hopfield_step.
Print Assumptions C20_evolve_total_abstract.
Print Assumptions C20_evolve_energy_abstract.
Print Assumptions C20_direct_model_energy.
Print Assumptions C20_evolve_total.
Print Assumptions C20_evolve_energy.
Print Assumptions C20_net_total.
Print Assumptions C20_net_energy.
Print Assumptions C20_net_schedule.
Print Assumptions C20_net_stored_fixed.
Print Assumptions C20_train_loop.
From CPL Require Import gen.GenFuns_C20 GenProps.GenFunsEquivC20 GenProps.C20Src. (* source tie: gen/GenFuns_C20.v is regenerated from hopfield_net.py on every run *)
Theorem C20_source_tie : (forall (W : list (list Z)) (r : nat) (n : list Z) (c : nat), src_hopfield_rule W (Z.of_nat r) n (Z.of_nat c) = hopfield_rule W r n c) /\ (forall P : list (list Z), src_hopfield_train P = train P). Proof. exact C20_source_translation_agrees. Qed. Print Assumptions C20_source_tie.
