(* C16 — Shannon, joint and mutual information measures match their definitions.
   Property theorems only: each is closed by a lemma of Proofs/EntropyBounds.v, Proofs/EntropyProofs.v,
   Proofs/EntropyCorrProofs.v or of the shared layers Model/EntropyR.v, Model/EntropyI.v.
   Symbols are any type with decidable equality; sequences are lists.  The theorems are over Coq's
   real numbers, so they rest on the real-number axioms of the standard library (printed at the end). *)
From Coq Require Import Reals List ZArith.
From Interval Require Import Interval Xreal.
From CPL Require Import Model.Base Model.EntropyExact Proofs.EntropyBounds Model.EntropyR Model.EntropyI
  Proofs.EntropyProofs Corr.C16 Proofs.EntropyCorrProofs.
Import ListNotations.
Local Open Scope R_scope.

(* ---- the definitions: what the three functions return ---- *)

(* shannon_entropy: minus the sum of p log2 p over the distinct symbols, p = multiplicity / length;
   the key list of the code (dict.fromkeys) lists every occurring symbol exactly once *)
Theorem C16_shannon_is_definition : forall (A : Type) (eq_dec : forall a b : A, {a = b} + {a <> b}) (s : list A),
  shannonR eq_dec s
  = - Rsum (fun x => INR (count_occ eq_dec s x) / INR (length s) * log2 (INR (count_occ eq_dec s x) / INR (length s)))
           (keys eq_dec s)
  /\ NoDup (keys eq_dec s) /\ (forall x, In x (keys eq_dec s) <-> In x s).
Proof. intros. split; [apply shannonR_H|apply keys_symbols_of]. Qed.

(* joint_shannon_entropy: the same over the aligned pairs that occur (zero-probability pairs of the
   product set(X) x set(Y) are skipped by the `if p != 0` of the code) *)
Theorem C16_joint_is_definition : forall (A B : Type) (eqA : forall a b : A, {a = b} + {a <> b})
  (eqB : forall a b : B, {a = b} + {a <> b}) (X : list A) (Y : list B), length X = length Y ->
  let l := combine X Y in let pd := pair_dec eqA eqB in
  jointR eqA eqB X Y
  = - Rsum (fun q => INR (count_occ pd l q) / INR (length l) * log2 (INR (count_occ pd l q) / INR (length l)))
           (joint_keys eqA eqB X Y)
  /\ NoDup (joint_keys eqA eqB X Y) /\ (forall q, In q (joint_keys eqA eqB X Y) <-> In q l).
Proof. intros A B eqA eqB X Y Hlen. split; [apply jointR_H; exact Hlen|apply joint_keys_symbols_of]. Qed.

(* mutual_information: H(X) + H(Y) - H(X, Y) *)
Theorem C16_mi_is_combination : forall (A B : Type) (eqA : forall a b : A, {a = b} + {a <> b})
  (eqB : forall a b : B, {a = b} + {a <> b}) (X : list A) (Y : list B), length X = length Y ->
  miR eqA eqB X Y = shannonR eqA X + shannonR eqB Y - jointR eqA eqB X Y.
Proof. exact @miR_unfold. Qed.

(* ---- the laws ---- *)

Theorem C16_H_nonneg : forall (A : Type) (eq_dec : forall a b : A, {a = b} + {a <> b}) (s : list A),
  0 <= shannonR eq_dec s.
Proof. exact @shannon_nonneg. Qed.

(* at most K distinct symbols: H <= log2 K *)
Theorem C16_H_le_log2_card : forall (A : Type) (eq_dec : forall a b : A, {a = b} + {a <> b}) (s : list A) (K : nat),
  s <> [] -> (length (keys eq_dec s) <= K)%nat -> shannonR eq_dec s <= log2 (INR K).
Proof. exact @shannon_le_log2_card. Qed.

(* H = 0 exactly when a single distinct symbol occurs (both directions) *)
Theorem C16_H_zero_iff_constant : forall (A : Type) (eq_dec : forall a b : A, {a = b} + {a <> b}) (s : list A),
  s <> [] -> (shannonR eq_dec s = 0 <-> length (keys eq_dec s) = 1%nat).
Proof. exact @shannon_zero_iff_constant. Qed.

(* H(X, Y) >= H(X) and H(X, Y) >= H(Y) *)
Theorem C16_HJ_ge_marginals : forall (A B : Type) (eqA : forall a b : A, {a = b} + {a <> b})
  (eqB : forall a b : B, {a = b} + {a <> b}) (X : list A) (Y : list B), X <> [] -> length X = length Y ->
  shannonR eqA X <= jointR eqA eqB X Y /\ shannonR eqB Y <= jointR eqA eqB X Y.
Proof. intros A B eqA eqB X Y Hne Hlen. split; [apply joint_ge_left|apply joint_ge_right]; assumption. Qed.

Theorem C16_MI_symm : forall (A B : Type) (eqA : forall a b : A, {a = b} + {a <> b})
  (eqB : forall a b : B, {a = b} + {a <> b}) (X : list A) (Y : list B), length X = length Y ->
  miR eqA eqB X Y = miR eqB eqA Y X.
Proof. exact @mi_symm. Qed.

Theorem C16_MI_self : forall (A : Type) (eqA : forall a b : A, {a = b} + {a <> b}) (X : list A),
  miR eqA eqA X X = shannonR eqA X.
Proof. exact @mi_self. Qed.

(* Gibbs' inequality *)
Theorem C16_MI_nonneg : forall (A B : Type) (eqA : forall a b : A, {a = b} + {a <> b})
  (eqB : forall a b : B, {a = b} + {a <> b}) (X : list A) (Y : list B), X <> [] -> length X = length Y ->
  0 <= miR eqA eqB X Y.
Proof. exact @mi_nonneg. Qed.

(* ---- automata ---- *)

(* str(x) is injective on integers, so counting renderings is counting states, whatever their printed width *)
Theorem C16_py_str_injective : forall z1 z2 : Z, py_str z1 = py_str z2 -> z1 = z2.
Proof. exact py_str_inj. Qed.

(* average_cell_entropy: the per-cell series are the states as symbols, and the value is the mean over
   cells of the Shannon entropy of each cell's time series of states *)
Theorem C16_avg_entropy_symbols : forall rows : list (list Z),
  ace_cells rows = map (fun i => (count_list Z.eq_dec (column 0%Z i rows), nrows rows)) (seq 0 (ncols rows))
  /\ aceR rows = meanR (map (fun i => shannonR Z.eq_dec (column 0%Z i rows)) (seq 0 (ncols rows))).
Proof. intros rows. split; [apply ace_cells_states|apply aceR_mean]. Qed.

(* average_mutual_information, when accepted: per cell the counts of the states paired with the state
   d steps later, and the value is the mean over cells of their mutual information *)
Theorem C16_avg_mi_symbols : forall (rows : list (list Z)) (d : Z), (0 < d < Z.of_nat (nrows rows))%Z ->
  ami_cells rows d
  = Ok (map (fun i => let s := column 0%Z i rows in
                      mi_counts Z.eq_dec Z.eq_dec (firstn (nrows rows - Z.to_nat d) s) (skipn (Z.to_nat d) s))
            (seq 0 (ncols rows)))
  /\ amiR rows d
  = Ok (meanR (map (fun i => let s := column 0%Z i rows in
                      miR Z.eq_dec Z.eq_dec (firstn (nrows rows - Z.to_nat d) s) (skipn (Z.to_nat d) s))
            (seq 0 (ncols rows)))).
Proof.
  intros rows d Hd. split; [|apply amiR_mean; exact Hd].
  rewrite ami_cells_states. apply ami_guard_spec in Hd. rewrite Hd. reflexivity.
Qed.

(* the temporal distance is accepted exactly when 0 < d < T, T the number of rows (timesteps);
   otherwise the call is rejected with ValueError *)
Theorem C16_ami_guard : forall (rows : list (list Z)) (d : Z),
  ((exists cells, ami_cells rows d = Ok cells) <-> (0 < d < Z.of_nat (nrows rows))%Z)
  /\ (~ (0 < d < Z.of_nat (nrows rows))%Z -> ami_cells rows d = Raise ValueError /\ amiR rows d = Raise ValueError).
Proof. intros rows d. split; [apply ami_accepts_iff|apply ami_rejects_ValueError]. Qed.

(* ---- enclosures: the executable interval twins contain the real values ---- *)

Theorem C16_enclosure_H : forall (prec : F.precision) (tab : list I.type) (cs : list nat) (n : nat),
  tab_ok tab -> (0 < n)%nat -> (forall c, In c cs -> (0 < c)%nat) ->
  contains (I.convert (HI prec tab cs n)) (Xreal (HR cs n)).
Proof. intros prec tab cs n Ht. apply HI_ok. exact Ht. Qed.

Theorem C16_enclosure_shannon : forall (prec : F.precision) (tab : list I.type) (A : Type)
  (eqA : forall a b : A, {a = b} + {a <> b}) (s : list A), tab_ok tab -> s <> [] ->
  contains (I.convert (shannonI prec eqA tab s)) (Xreal (shannonR eqA s)).
Proof. intros prec tab A eqA s Ht. apply shannonI_ok. exact Ht. Qed.

Theorem C16_enclosure_joint : forall (prec : F.precision) (tab : list I.type) (A B : Type)
  (eqA : forall a b : A, {a = b} + {a <> b}) (eqB : forall a b : B, {a = b} + {a <> b}) (X : list A) (Y : list B),
  tab_ok tab -> X <> [] -> length X = length Y ->
  contains (I.convert (jointI prec eqA eqB tab X Y)) (Xreal (jointR eqA eqB X Y)).
Proof. intros prec tab A B eqA eqB X Y Ht. apply jointI_ok. exact Ht. Qed.

Theorem C16_enclosure_mi : forall (prec : F.precision) (tab : list I.type) (A B : Type)
  (eqA : forall a b : A, {a = b} + {a <> b}) (eqB : forall a b : B, {a = b} + {a <> b}) (X : list A) (Y : list B),
  tab_ok tab -> X <> [] -> length X = length Y ->
  contains (I.convert (miI prec eqA eqB tab X Y)) (Xreal (miR eqA eqB X Y)).
Proof. intros prec tab A B eqA eqB X Y Ht. apply miI_ok. exact Ht. Qed.

Theorem C16_enclosure_ace : forall (prec : F.precision) (tab : list I.type) (rows : list (list Z)),
  tab_ok tab -> (0 < nrows rows)%nat -> (0 < ncols rows)%nat ->
  contains (I.convert (aceI prec tab rows)) (Xreal (aceR rows)).
Proof. intros prec tab rows Ht. apply aceI_ok. exact Ht. Qed.

(* same verdict of the guard on the interval side, and containment when accepted *)
Theorem C16_enclosure_ami : forall (prec : F.precision) (tab : list I.type) (rows : list (list Z)) (d : Z),
  tab_ok tab -> (0 < ncols rows)%nat ->
  match amiI prec tab rows d, amiR rows d with
  | Ok i, Ok x => contains (I.convert i) (Xreal x)
  | Raise e, Raise e' => e = e'
  | _, _ => False
  end.
Proof. intros prec tab rows d Ht. apply amiI_ok. exact Ht. Qed.

(* the table of logarithms used by the correspondence is sound *)
Theorem C16_table_sound : tab_ok tab80.
Proof. exact tab80_ok. Qed.

(* the comparison of a double m * 2^e with an enclosure: success means the enclosed real is within 2^-30 *)
Theorem C16_within_sound : forall (prec : F.precision) (iv : I.type) (m e : Z) (x : R),
  contains (I.convert iv) (Xreal x) -> within prec iv m e = true -> Rabs (x - dblR m e) <= / IZR (2 ^ 30).
Proof. exact within_sound. Qed.

(* what one passing correspondence case establishes about the real-valued model *)
Theorem C16_check_case_sound : forall c : case, wf c -> check_case c = true ->
  match observed c, real_value c with
  | Ok (Some (m, e)), Ok x => Rabs (x - dblR m e) <= / IZR (2 ^ 30)
  | Raise e, Raise e' => e = e'
  | _, _ => False
  end.
Proof. exact check_case_sound. Qed.

(* sequences of calls on ONE array object modified in place between the calls (case kind sequence/inplace):
   a passing sequence establishes the same for EVERY call, each against the contents at the time of that call *)
Theorem C16_check_seq_sound : forall steps : list step,
  Forall (fun s => wf (step_case s)) steps -> check_case (CSeq steps) = true ->
  Forall (fun s => match observed (step_case s), real_value (step_case s) with
                   | Ok (Some (m, e)), Ok x => Rabs (x - dblR m e) <= / IZR (2 ^ 30)
                   | Raise e, Raise e' => e = e'
                   | _, _ => False
                   end) steps.
Proof. exact check_seq_sound. Qed.

(* about the DOUBLES: the laws above are theorems about the real-valued definitions; the returned doubles can break
   each of them in the last place (mutual_information('1000101011','0122111022') = -4.4e-16) and are shown only to
   lie within 2^-30 of the reals.  What passing cases give for the doubles themselves: *)
Theorem C16_mi_double_lower : forall (X Y : list sym) (ref : refs) (m e : Z), X <> [] -> length X = length Y ->
  check_case (CMI X Y ref (Ok (Some (m, e)))) = true -> - / IZR (2 ^ 30) <= dblR m e.
Proof. exact mi_double_lower. Qed.

Theorem C16_mi_double_symm : forall (X Y : list sym) (r1 r2 : refs) (m e m' e' : Z), X <> [] -> length X = length Y ->
  check_case (CMI X Y r1 (Ok (Some (m, e)))) = true -> check_case (CMI Y X r2 (Ok (Some (m', e')))) = true ->
  Rabs (dblR m e - dblR m' e') <= 2 * / IZR (2 ^ 30).
Proof. exact mi_double_symm. Qed.

(* ---- non-vacuity ---- *)

(* the exact layer on concrete inputs: multi-character and negative states stay whole symbols;
   a 4 x 2 automaton (T = 4 rows) accepts d = 1, 2, 3 and rejects 0, 4, -1 *)
Example C16_nonvacuous_exact :
  count_list Z.eq_dec [3; 1; 3; 2; 1; 3]%Z = [3; 2; 1]%nat
  /\ mi_counts Z.eq_dec Z.eq_dec [3; 1; 3; 2; 1; 3]%Z [0; 0; 1; 1; 0; 0]%Z = ([3; 2; 1], [4; 2], [2; 1; 2; 1], 6)%nat
  /\ ace_cells [[10; 1]; [1; 10]; [10; 1]; [0; -1]]%Z = [([2; 1; 1], 4); ([2; 1; 1], 4)]%nat
  /\ map (fun d => ami_guard d 4) [-1; 0; 1; 2; 3; 4; 5]%Z = [false; false; true; true; true; false; false]
  /\ ami_cells [[10; 1]; [1; 10]; [10; 1]; [0; -1]]%Z 3 = Ok [([1], [1], [1], 1); ([1], [1], [1], 1)]%nat
  /\ ami_cells [[10; 1]; [1; 10]; [10; 1]; [0; -1]]%Z 4 = Raise ValueError.
Proof. vm_compute. repeat (split; [reflexivity|]). reflexivity. Qed.

Section Rendering.
Import String.
Example C16_nonvacuous_str : py_str (-10) = "-10"%string /\ py_str 0 = "0"%string /\ py_str 1000000007 = "1000000007"%string.
Proof. vm_compute. repeat (split; [reflexivity|]). reflexivity. Qed.
End Rendering.

(* the real layer on a concrete non-trivial input: the entropy of "0011" is exactly 1 bit, the
   hypotheses of the laws are met by it, and its mutual information with itself is 1 bit *)
Example C16_nonvacuous_real :
  shannonR Z.eq_dec [0; 0; 1; 1]%Z = 1 /\ [0; 0; 1; 1]%Z <> [] /\ length (keys Z.eq_dec [0; 0; 1; 1]%Z) = 2%nat
  /\ miR Z.eq_dec Z.eq_dec [0; 0; 1; 1]%Z [0; 0; 1; 1]%Z = 1.
Proof. exact shannon_0011. Qed.

(* the interval layer computes: the enclosure of H("0011") contains 1 and the double 1.0 passes the
   comparison, the double 1.0 + 2^-29 does not *)
Example C16_nonvacuous_interval :
  within prec80 (shannonI prec80 Z.eq_dec tab80 [0; 0; 1; 1]%Z) 1 0 = true
  /\ within prec80 (shannonI prec80 Z.eq_dec tab80 [0; 0; 1; 1]%Z) (2 ^ 29 + 1) (-29) = false
  /\ check_case (CAMI [[10; 1]; [1; 10]; [10; 1]; [0; -1]]%Z 4 None (Raise ValueError)) = true
  /\ check_case (CShannon [[48]; [48]; [49]; [49]]%Z (Some [([2; 2], [], [], 4)]%nat) (Ok (Some (1, 0)%Z))) = true.
Proof. vm_compute. repeat (split; [reflexivity|]). reflexivity. Qed.

Print Assumptions C16_shannon_is_definition.
Print Assumptions C16_joint_is_definition.
Print Assumptions C16_mi_is_combination.
Print Assumptions C16_H_nonneg.
Print Assumptions C16_H_le_log2_card.
Print Assumptions C16_H_zero_iff_constant.
Print Assumptions C16_HJ_ge_marginals.
Print Assumptions C16_MI_symm.
Print Assumptions C16_MI_self.
Print Assumptions C16_MI_nonneg.
Print Assumptions C16_py_str_injective.
Print Assumptions C16_avg_entropy_symbols.
Print Assumptions C16_avg_mi_symbols.
Print Assumptions C16_ami_guard.
Print Assumptions C16_enclosure_H.
Print Assumptions C16_enclosure_shannon.
Print Assumptions C16_enclosure_joint.
Print Assumptions C16_enclosure_mi.
Print Assumptions C16_enclosure_ace.
Print Assumptions C16_enclosure_ami.
Print Assumptions C16_table_sound.
Print Assumptions C16_within_sound.
Print Assumptions C16_check_case_sound.
Print Assumptions C16_check_seq_sound.
Print Assumptions C16_mi_double_lower.
Print Assumptions C16_mi_double_symm.
From CPL Require Import gen.GenFuns_C16 GenProps.GenFunsEquivC16 GenProps.C16Src. (* source tie: gen/GenFuns_C16.v is regenerated from entropy.py on every run *)
Theorem C16_source_tie : (forall (A : Type) (dec : forall a b : A, {a = b} + {a <> b}) (s : list A), src_shannon_symbols dec s = keys dec s /\ map (src_shannon_count dec s) (src_shannon_symbols dec s) = map Z.of_nat (count_list dec s)) /\ (forall (A B : Type) (eqA : forall a b : A, {a = b} + {a <> b}) (eqB : forall a b : B, {a = b} + {a <> b}) (X : list A) (Y : list B) (x : A) (y : B), length (src_joint_indicator eqA eqB X Y x y) = length (combine X Y) /\ count_occ Bool.bool_dec (src_joint_indicator eqA eqB X Y x y) true = count_occ (pair_dec eqA eqB) (combine X Y) (x, y)) /\ (forall (d : Z) (T : nat), src_ami_guard d (Z.of_nat T) = ami_guard d T) /\ (forall (A : Type) (s : list A) (d : Z), (0 < d)%Z -> (src_ami_left s d, src_ami_right s d) = pair_d (Z.to_nat d) s). Proof. exact C16_source_translation_agrees. Qed. Print Assumptions C16_source_tie.
