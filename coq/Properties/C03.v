(* C03 — 1D memoisation is transparent (memoize=True and memoize="recursive" equal memoize=False),
   the mode is selected by the option's value, and calls are independent.
   Property theorems only: each is closed by a lemma of Proofs/Memo1DProofs.v.
   `pure1 f` is a rule without state that ignores the cell index and the step number;
   `store` is the cast into the automaton's dtype; `arr_of` projects the returned array (or the
   exception); for callable timesteps `dyn_arr_of` projects the array together with the stopping
   predicate's final state and argument log (None = out of fuel on both sides). *)
From Coq Require String.
From Coq Require Import Lia.
From CPL Require Import Model.Base Model.Rules Model.Engine Model.Evolve1D Model.Memo1D Proofs.Memo1DProofs.

(* memoize=True: for every ring size N >= 1, radius 1 <= r <= N, history, number of steps, pure rule, dtype *)
Theorem C03_memo_true_transparent : forall (f : list Z -> Z) (store : Z -> Z) (r : nat) (hist : list (list Z)) (T : nat),
  1 <= r <= length (last hist []) ->
  arr_of (evolve1d_fixed (pure1 f) store (PBool true) r tt hist T) =
  arr_of (evolve1d_fixed (pure1 f) store (PBool false) r tt hist T).
Proof. intros f store r hist T H. exact (proj1 (memo_true_fixed f store r hist H T)). Qed.

(* ... and with callable timesteps (any stopping predicate, with any state of its own) *)
Theorem C03_memo_true_transparent_callable : forall (f : list Z -> Z) (store : Z -> Z) (r : nat) (hist : list (list Z))
    (P : Type) (pred : P -> list (list Z) -> nat -> P * bool) (fuel : nat) (p0 : P),
  1 <= r <= length (last hist []) ->
  dyn_arr_of (evolve1d_dynamic (pure1 f) store pred (PBool true) r fuel p0 tt hist) =
  dyn_arr_of (evolve1d_dynamic (pure1 f) store pred (PBool false) r fuel p0 tt hist).
Proof. intros f store r hist P pred fuel p0 H. exact (proj1 (memo_true_dynamic f store r hist H P pred fuel p0)). Qed.

(* memoize="recursive": every ring size (not only powers of two: uneven halves, N = 1, blocks wider
   than the ring when r is large), radius 1 <= r <= N, history, number of steps, pure rule, dtype *)
Theorem C03_memo_recursive_transparent : forall (f : list Z -> Z) (store : Z -> Z) (r : nat) (hist : list (list Z)) (T : nat),
  1 <= r <= length (last hist []) ->
  arr_of (evolve1d_fixed (pure1 f) store (PStr StrLit.recursive_lit) r tt hist T) =
  arr_of (evolve1d_fixed (pure1 f) store (PBool false) r tt hist T).
Proof. intros f store r hist T H. exact (proj1 (memo_recursive_fixed f store r hist H T)). Qed.

Theorem C03_memo_recursive_transparent_callable : forall (f : list Z -> Z) (store : Z -> Z) (r : nat) (hist : list (list Z))
    (P : Type) (pred : P -> list (list Z) -> nat -> P * bool) (fuel : nat) (p0 : P),
  1 <= r <= length (last hist []) ->
  dyn_arr_of (evolve1d_dynamic (pure1 f) store pred (PStr StrLit.recursive_lit) r fuel p0 tt hist) =
  dyn_arr_of (evolve1d_dynamic (pure1 f) store pred (PBool false) r fuel p0 tt hist).
Proof. intros f store r hist P pred fuel p0 H. exact (proj1 (memo_recursive_dynamic f store r hist H P pred fuel p0)). Qed.

(* ------------------------------------------------------------------ stateful rules that answer by contents *)
(* "any rule whose result depends only on the neighbourhood contents": ANY state machine `rule` (a
   counter, a logger, ...) whose returned value is f of the contents, whatever its state, the cell
   index and the step number (`answers rule f := forall s n c t, snd (rule s n c t) = f n`).  The
   arrays are equal; nothing is said about the final rule state, which legitimately differs (the
   memoised runs enter the rule less often). *)
Theorem C03_memo_true_transparent_answering : forall (St : Type) (rule : rule1 St) (f : list Z -> Z) (store : Z -> Z)
    (r : nat) (s0 : St) (hist : list (list Z)) (T : nat),
  (forall s n c t, snd (rule s n c t) = f n) -> 1 <= r <= length (last hist []) ->
  arr_of (evolve1d_fixed rule store (PBool true) r s0 hist T) =
  arr_of (evolve1d_fixed rule store (PBool false) r s0 hist T).
Proof. intros St rule f store r s0 hist T Ha H. exact (proj1 (memo_true_fixed_ans St rule f store r hist Ha H s0 T)). Qed.

Theorem C03_memo_true_transparent_answering_callable : forall (St : Type) (rule : rule1 St) (f : list Z -> Z) (store : Z -> Z)
    (r : nat) (s0 : St) (hist : list (list Z)) (P : Type) (pred : P -> list (list Z) -> nat -> P * bool) (fuel : nat) (p0 : P),
  (forall s n c t, snd (rule s n c t) = f n) -> 1 <= r <= length (last hist []) ->
  dyn_arr_of (evolve1d_dynamic rule store pred (PBool true) r fuel p0 s0 hist) =
  dyn_arr_of (evolve1d_dynamic rule store pred (PBool false) r fuel p0 s0 hist).
Proof.
  intros St rule f store r s0 hist P pred fuel p0 Ha H.
  exact (proj1 (memo_true_dynamic_ans St rule f store r hist Ha H P pred fuel p0 s0)).
Qed.

Theorem C03_memo_recursive_transparent_answering : forall (St : Type) (rule : rule1 St) (f : list Z -> Z) (store : Z -> Z)
    (r : nat) (s0 : St) (hist : list (list Z)) (T : nat),
  (forall s n c t, snd (rule s n c t) = f n) -> 1 <= r <= length (last hist []) ->
  arr_of (evolve1d_fixed rule store (PStr StrLit.recursive_lit) r s0 hist T) =
  arr_of (evolve1d_fixed rule store (PBool false) r s0 hist T).
Proof. intros St rule f store r s0 hist T Ha H. exact (proj1 (memo_recursive_fixed_ans St rule f store r hist Ha H s0 T)). Qed.

Theorem C03_memo_recursive_transparent_answering_callable : forall (St : Type) (rule : rule1 St) (f : list Z -> Z)
    (store : Z -> Z) (r : nat) (s0 : St) (hist : list (list Z)) (P : Type) (pred : P -> list (list Z) -> nat -> P * bool)
    (fuel : nat) (p0 : P),
  (forall s n c t, snd (rule s n c t) = f n) -> 1 <= r <= length (last hist []) ->
  dyn_arr_of (evolve1d_dynamic rule store pred (PStr StrLit.recursive_lit) r fuel p0 s0 hist) =
  dyn_arr_of (evolve1d_dynamic rule store pred (PBool false) r fuel p0 s0 hist).
Proof.
  intros St rule f store r s0 hist P pred fuel p0 Ha H.
  exact (proj1 (memo_recursive_dynamic_ans St rule f store r hist Ha H P pred fuel p0 s0)).
Qed.

(* non-vacuity: a rule that counts its own invocations (state = nat) and answers n0+n1+n2 mod 2: the
   hypothesis holds, the arrays agree, the final counters differ (18 against 2) *)
Example C03_nonvacuous_answering :
  let rule : rule1 nat := fun i n _ _ => (S i, (lin_dot [1; 1; 1] n mod 2)%Z) in
  let h1 := [[0; 1; 0; 1; 0; 1]]%Z in
  (forall s n c t, snd (rule s n c t) = (lin_dot [1; 1; 1] n mod 2)%Z) /\
  arr_of (evolve1d_fixed rule store_id (PBool true) 1 0 h1 4) = arr_of (evolve1d_fixed rule store_id (PBool false) 1 0 h1 4) /\
  (exists a lg, evolve1d_fixed rule store_id (PBool false) 1 0 h1 4 = Ok (18, lg, a)) /\
  (exists a lg, evolve1d_fixed rule store_id (PBool true) 1 0 h1 4 = Ok (2, lg, a)) /\
  (exists a lg, evolve1d_fixed rule store_id (PStr StrLit.recursive_lit) 1 0 h1 4 = Ok (2, lg, a)).
Proof.
  split; [intros; reflexivity|]. split; [vm_compute; reflexivity|].
  split; [eexists; eexists; vm_compute; reflexivity|]. split; eexists; eexists; vm_compute; reflexivity.
Qed.

(* the one-step core (lifted from the design spike): from ANY cache whose entries (key, vals) satisfy
   length key = length vals + 2r and vals = map (store o f) (windows (2r+1) key), one step of the
   recursive engine writes exactly the plain next row and leaves such a cache (r <= N suffices) *)
Theorem C03_recursive_step_any_sound_cache : forall (f : list Z -> Z) (store : Z -> Z) (r : nat) (cells : list Z) (t : nat)
    (cache : cacheR) (lg : list call1),
  1 <= length cells -> r <= length cells ->
  (forall k v, In (k, v) cache ->
     length k = length v + 2 * r /\ v = map (fun n => store (f n)) (windows (2 * r + 1) k)) ->
  NoDup (map call_key lg) -> (forall k, In k (map call_key lg) -> In k (map fst cache)) ->
  snd (step_recursive (pure1 f) store r (tt, cache, lg) cells t) =
    map (fun c => store (f (ring_nbhd cells c r))) (seq 0 (length cells)) /\
  (forall k v, In (k, v) (snd (fst (fst (step_recursive (pure1 f) store r (tt, cache, lg) cells t)))) ->
     length k = length v + 2 * r /\ v = map (fun n => store (f n)) (windows (2 * r + 1) k)).
Proof.
  intros f store r cells t cache lg HN Hr HI HD HK.
  destruct (step_recursive_ok unit (pure1 f) f store r (pure1_answers f) cells t (tt, cache, lg) HN Hr HI (conj HD HK)) as (H1 & H2 & _).
  split; [exact H1|exact H2].
Qed.

(* memoize=False of this model is C01's engine (any rule state machine): the right-hand sides above
   are what C01 characterises *)
Theorem C03_plain_mode_is_C01_engine : forall (St : Type) (rule : rule1 St) (store : Z -> Z) (r : nat) (s0 : St)
    (hist : list (list Z)) (T : nat),
  1 <= r <= length (last hist []) ->
  arr_of (evolve1d_fixed rule store (PBool false) r s0 hist T) =
    match evolve_plain rule store r s0 hist T with Ok (_, a) => Ok a | Raise e => Raise e end.
Proof. intros St rule store r s0 hist T H. exact (plain_mode_is_evolve_plain rule store r s0 hist T H). Qed.

(* the mode is selected by the option's VALUE: there is no object identity in the model; a string
   selects the recursive engine iff its characters are "recursive"; ints (memoize=1: `1 is True` is
   False) and None select nothing (the call raises as soon as a step is attempted) *)
Theorem C03_dispatch_by_value :
  dispatch (PStr StrLit.recursive_lit) = Some Recursive /\
  dispatch (PBool true) = Some Memo /\
  dispatch (PBool false) = Some Plain /\
  (forall s, s <> StrLit.recursive_lit -> dispatch (PStr s) = None) /\
  (forall z, dispatch (PInt z) = None) /\
  dispatch PNone = None.
Proof. exact dispatch_by_value. Qed.

(* call i of a process returns what that call returns alone (true by construction of the model: the
   fold over the calls carries nothing but the results; the correspondence over call sequences is
   what ties this to /repo) *)
Theorem C03_calls_independent : forall (calls : list call) (i : nat) (c : call),
  nth_error calls i = Some c ->
  nth_error (run_process calls) i = Some (run_call c) /\ run_process [c] = [run_call c].
Proof. exact calls_independent. Qed.

(* non-vacuity: the literal is the nine characters r e c u r s i v e; a period-2 row on a ring of 6
   (even split) and a rotation rule on a ring of 5 with r = 5 and a history of two rows (uneven
   split 2|3, every block wider than the ring): the guards hold, the modes agree, and the memoised
   runs really hit their caches (2 resp. 5 rule calls instead of 18 resp. 20) *)
Example C03_nonvacuous :
  let f := fun n : list Z => (lin_dot [1; 1; 1] n mod 2)%Z in
  let g := fun n : list Z => (lin_dot [0; 1; 0; 0; 0; 0; 0; 0; 0; 0; 0] n mod 3)%Z in
  let h1 := [[0; 1; 0; 1; 0; 1]]%Z in
  let h2 := [[1; 1; 1; 1; 1]; [0; 1; 2; 0; 0]]%Z in
  String.list_ascii_of_string StrLit.recursive_lit = map Ascii.ascii_of_nat [114; 101; 99; 117; 114; 115; 105; 118; 101] /\
  1 <= 1 <= length (last h1 []) /\
  arr_of (evolve1d_fixed (pure1 f) store_id (PBool false) 1 tt h1 4) =
    Ok [[0; 1; 0; 1; 0; 1]; [0; 1; 0; 1; 0; 1]; [0; 1; 0; 1; 0; 1]; [0; 1; 0; 1; 0; 1]]%Z /\
  arr_of (evolve1d_fixed (pure1 f) store_id (PBool true) 1 tt h1 4) =
    Ok [[0; 1; 0; 1; 0; 1]; [0; 1; 0; 1; 0; 1]; [0; 1; 0; 1; 0; 1]; [0; 1; 0; 1; 0; 1]]%Z /\
  length (log_of (evolve1d_fixed (pure1 f) store_id (PBool false) 1 tt h1 4)) = 18 /\
  length (log_of (evolve1d_fixed (pure1 f) store_id (PBool true) 1 tt h1 4)) = 2 /\
  length (log_of (evolve1d_fixed (pure1 f) store_id (PStr StrLit.recursive_lit) 1 tt h1 4)) = 2 /\
  1 <= 5 <= length (last h2 []) /\
  arr_of (evolve1d_fixed (pure1 g) store_id (PStr StrLit.recursive_lit) 5 tt h2 5) =
    Ok [[1; 1; 1; 1; 1]; [0; 1; 2; 0; 0]; [1; 2; 0; 0; 0]; [2; 0; 0; 0; 1]; [0; 0; 0; 1; 2]; [0; 0; 1; 2; 0]]%Z /\
  arr_of (evolve1d_fixed (pure1 g) store_id (PBool false) 5 tt h2 5) =
    Ok [[1; 1; 1; 1; 1]; [0; 1; 2; 0; 0]; [1; 2; 0; 0; 0]; [2; 0; 0; 0; 1]; [0; 0; 0; 1; 2]; [0; 0; 1; 2; 0]]%Z /\
  length (log_of (evolve1d_fixed (pure1 g) store_id (PStr StrLit.recursive_lit) 5 tt h2 5)) = 5 /\
  length (log_of (evolve1d_fixed (pure1 g) store_id (PBool false) 5 tt h2 5)) = 20 /\
  (* an unsupported value is rejected once a step is attempted, and only then *)
  arr_of (evolve1d_fixed (pure1 f) store_id (PInt 1) 1 tt h1 4) = Raise OtherError /\
  arr_of (evolve1d_fixed (pure1 f) store_id (PInt 1) 1 tt h1 1) = Ok h1.
Proof. vm_compute. repeat match goal with |- _ /\ _ => split end; try reflexivity; lia. Qed.

Print Assumptions C03_memo_true_transparent.
Print Assumptions C03_memo_true_transparent_callable.
Print Assumptions C03_memo_recursive_transparent.
Print Assumptions C03_memo_recursive_transparent_callable.
Print Assumptions C03_memo_true_transparent_answering.
Print Assumptions C03_memo_true_transparent_answering_callable.
Print Assumptions C03_memo_recursive_transparent_answering.
Print Assumptions C03_memo_recursive_transparent_answering_callable.
Print Assumptions C03_recursive_step_any_sound_cache.
Print Assumptions C03_plain_mode_is_C01_engine.
Print Assumptions C03_dispatch_by_value.
Print Assumptions C03_calls_independent.
From CPL Require Import gen.GenFuns_C03 GenProps.GenFunsEquivC03 GenProps.C03Src. (* source tie: gen/GenFuns_C03.v is regenerated from ca_functions.py on every run *)
Theorem C03_source_tie : (forall (curr : list Z) (r start len : nat), (1 <= len)%nat -> (1 <= length curr)%nat -> src_memo_key (block_idx start len) curr (Z.of_nat r) = Ok (Z.of_nat start, wrap_take curr (Z.of_nat start - Z.of_nat r)%Z (len + 2 * r)%nat)) /\ (forall start len : nat, src_memo_split (block_idx start len) = (block_idx start (len / 2)%nat, block_idx (start + len / 2)%nat (len - len / 2)%nat)) /\ (forall (St : Type) (rule : rule1 St) (s : St) (cache : list (list Z * Z)) (lg : list call1) (n : list Z) (c t : nat), get_memoized rule (s, cache, lg) n c t = (let '((sl, cache'), v) := src_get_memoized (fun n => n) (logged1 rule) (s, lg) n c t cache in ((fst sl, cache', snd sl), v))). Proof. exact C03_source_translation_agrees. Qed. Print Assumptions C03_source_tie.
