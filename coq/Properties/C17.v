(* C17 — Langton rule tables: complete, constrained, and lambda is reported truthfully.
   Property theorems only: each is closed by `exact` of a lemma proved in Proofs/RuleTablesProofs.v.
   Every statement holds for ALL oracles (every outcome of random.random / random.choice /
   np.random.randint), all radii r, all flag combinations and all rational lambdas.
   `random_rule_table ... = Ok (t, l, q)` already implies 2 <= k <= 36 and 0 <= q < k (C17_rrt_defined:
   the call returns exactly on those arguments; np.base_repr rejects every other k). *)
From CPL Require Import Model.Base Model.RuleTables Proofs.RuleTablesProofs.
From Coq Require Import QArith.
Close Scope Q_scope.
Local Open Scope nat_scope.

(* the call returns iff 2 <= k <= 36 and the quiescent state (given, or drawn by randint) is in 0..k-1 *)
Theorem C17_rrt_defined : forall k r lam qo sq iso o,
  (exists t l q, random_rule_table k r lam qo sq iso o = Ok (t, l, q)) <->
  (2 <= k <= 36 /\ (0 <= match qo with Some q => q | None => o_randint o end < Z.of_nat k)%Z).
Proof. exact rrt_defined. Qed.

(* complete: the keys are exactly the k^(2r+1) base-k strings, in numeric order, without duplicates *)
Theorem C17_rrt_keys : forall k r lam qo sq iso o t l q,
  random_rule_table k r lam qo sq iso o = Ok (t, l, q) ->
  map fst t = states k (2 * r + 1) /\ NoDup (map fst t) /\ length t = k ^ (2 * r + 1) /\
  (forall s, In s (map fst t) <-> (length s = 2 * r + 1 /\ Forall (fun d => d < k) s)).
Proof. exact rrt_keys. Qed.

(* every value is a state 0..k-1, and every neighbourhood string has one *)
Theorem C17_rrt_range : forall k r lam qo sq iso o t l q,
  random_rule_table k r lam qo sq iso o = Ok (t, l, q) ->
  Forall (fun v => (0 <= v < Z.of_nat k)%Z) (map snd t) /\
  (forall s, length s = 2 * r + 1 /\ Forall (fun d => d < k) s ->
     exists v, lookup s t = Some v /\ (0 <= v < Z.of_nat k)%Z).
Proof. exact rrt_range. Qed.

(* strong quiescence: the uniform neighbourhood d...d maps to d *)
Theorem C17_rrt_strong_quiescence : forall k r lam qo iso o t l q,
  random_rule_table k r lam qo true iso o = Ok (t, l, q) ->
  forall d, d < k -> lookup (repeat d (2 * r + 1)) t = Some (Z.of_nat d).
Proof. exact rrt_strong_quiescence. Qed.

(* isotropy: a string and its mirror image map alike *)
Theorem C17_rrt_isotropic : forall k r lam qo sq o t l q,
  random_rule_table k r lam qo sq true o = Ok (t, l, q) ->
  forall s, length s = 2 * r + 1 /\ Forall (fun d => d < k) s -> lookup (rev s) t = lookup s t.
Proof. exact rrt_isotropic. Qed.

(* the reported lambda is (k^n - #{s | table[s] = q}) / k^n of the returned table, and the reported
   quiescent state is the one given (or drawn) *)
Theorem C17_rrt_lambda_true : forall k r lam qo sq iso o t l q,
  random_rule_table k r lam qo sq iso o = Ok (t, l, q) ->
  l = Qmake (Z.of_nat (k ^ (2 * r + 1)) - Z.of_nat (length (filter (fun kv => (snd kv =? q)%Z) t))) (Pos.of_nat (k ^ (2 * r + 1))) /\
  q = match qo with Some q => q | None => o_randint o end.
Proof. exact rrt_lambda_true. Qed.

(* ---- table_walk_through.  Hypotheses on the table: its keys are distinct (it is a dict) and are exactly the
   k-colour strings of length 2r+1 - the key SET, in ANY order (Proofs/RuleTablesProofs.v proves the same
   statements from even less: `closed_keys`, i.e. distinct keys and, with the isotropic flag only, closure
   of the key set under reversal).  C17_states_full_keys: what random_rule_table returns is one instance. *)
Theorem C17_states_full_keys : forall k r (t : table), 2 <= k -> map fst t = states k (2 * r + 1) ->
  NoDup (map fst t) /\ (forall s, In s (map fst t) <-> (length s = 2 * r + 1 /\ Forall (fun d => d < k) s)).
Proof. exact states_full_keys. Qed.

(* always terminates normally - the loop's own bound `attempts < len(rule_table)` is sufficient fuel *)
Theorem C17_twt_terminates : forall t lam k r q sq iso cs, 2 <= k -> NoDup (map fst t) ->
  (forall s, In s (map fst t) <-> (length s = 2 * r + 1 /\ Forall (fun d => d < k) s)) ->
  exists t' l', table_walk_through t lam k r q sq iso cs = Ok (Some (t', l')).
Proof. exact twt_terminates_full. Qed.

(* keeps the key list (hence the key set and its order), the value range, and - given on entry, flag on - both constraints *)
Theorem C17_twt_preserves : forall t lam k r q sq iso cs, 2 <= k -> NoDup (map fst t) ->
  (forall s, In s (map fst t) <-> (length s = 2 * r + 1 /\ Forall (fun d => d < k) s)) ->
  forall t' l', table_walk_through t lam k r q sq iso cs = Ok (Some (t', l')) ->
  map fst t' = map fst t /\
  ((0 <= q < Z.of_nat k)%Z -> Forall (fun v => (0 <= v < Z.of_nat k)%Z) (map snd t) ->
     Forall (fun v => (0 <= v < Z.of_nat k)%Z) (map snd t')) /\
  (sq = true ->
     (forall s, In s (map fst t) -> uniform s = true -> lookup s t = Some (Z.of_nat (hd 0 s))) ->
     (forall s, In s (map fst t') -> uniform s = true -> lookup s t' = Some (Z.of_nat (hd 0 s)))) /\
  (iso = true ->
     (forall s, In s (map fst t) -> In (rev s) (map fst t) -> lookup (rev s) t = lookup s t) ->
     (forall s, In s (map fst t') -> In (rev s) (map fst t') -> lookup (rev s) t' = lookup s t')).
Proof. exact twt_preserves_full. Qed.

(* lambda never moves away from the target: from above it only decreases, from below it only increases *)
Theorem C17_twt_monotone : forall t lam k r q sq iso cs, 2 <= k -> NoDup (map fst t) ->
  (forall s, In s (map fst t) <-> (length s = 2 * r + 1 /\ Forall (fun d => d < k) s)) ->
  forall t' l', table_walk_through t lam k r q sq iso cs = Ok (Some (t', l')) ->
  ((lam <= actual_lambda k r q t)%Q ->
     qcount q t <= qcount q t' /\ (actual_lambda k r q t' <= actual_lambda k r q t)%Q) /\
  ((actual_lambda k r q t <= lam)%Q ->
     qcount q t' <= qcount q t /\ (actual_lambda k r q t <= actual_lambda k r q t')%Q).
Proof. exact twt_monotone_full. Qed.

(* and every single perturbation changes the quiescent count strictly in the loop's direction (any dict) *)
Theorem C17_twt_step_monotone : forall (t : table) k q sq iso cs t' cs', NoDup (map fst t) ->
  (dec_body q sq iso t cs = Ok (Cont t' cs') -> qcount q t < qcount q t') /\
  (inc_body k q sq iso t cs = Ok (Cont t' cs') -> qcount q t' < qcount q t).
Proof. exact twt_step_monotone. Qed.

(* on exit lambda has reached or crossed the target - and had not before the last perturbation - or
   no admissible entry remains; the `attempts` bound never binds first (when it binds, no admissible
   entry is left).  On target at entry: nothing changes. *)
Theorem C17_twt_stop : forall t lam k r q sq iso cs, 2 <= k -> NoDup (map fst t) ->
  (forall s, In s (map fst t) <-> (length s = 2 * r + 1 /\ Forall (fun d => d < k) s)) ->
  forall t' l', table_walk_through t lam k r q sq iso cs = Ok (Some (t', l')) ->
  ((actual_lambda k r q t == lam)%Q -> t' = t) /\
  ((lam < actual_lambda k r q t)%Q ->
     ((actual_lambda k r q t' <= lam)%Q \/ adm_dec q sq t' = []) /\
     (t' = t \/ exists tp cs0 cs1, (lam < actual_lambda k r q tp)%Q /\ dec_body q sq iso tp cs0 = Ok (Cont t' cs1))) /\
  ((actual_lambda k r q t < lam)%Q ->
     ((lam <= actual_lambda k r q t')%Q \/ adm_inc q sq t' = []) /\
     (t' = t \/ exists tp cs0 cs1, (actual_lambda k r q tp < lam)%Q /\ inc_body k q sq iso tp cs0 = Ok (Cont t' cs1))).
Proof. exact twt_stop_full. Qed.

(* the same for a table in the canonical order of random_rule_table (corollary; first version of this file) *)
Theorem C17_twt_preserves_canonical : forall t lam k r q sq iso cs t' l', 2 <= k -> map fst t = states k (2 * r + 1) ->
  table_walk_through t lam k r q sq iso cs = Ok (Some (t', l')) ->
  map fst t' = states k (2 * r + 1) /\
  ((0 <= q < Z.of_nat k)%Z -> Forall (fun v => (0 <= v < Z.of_nat k)%Z) (map snd t) ->
     Forall (fun v => (0 <= v < Z.of_nat k)%Z) (map snd t')) /\
  (sq = true ->
     (forall s, In s (map fst t) -> uniform s = true -> lookup s t = Some (Z.of_nat (hd 0 s))) ->
     (forall s, In s (map fst t') -> uniform s = true -> lookup s t' = Some (Z.of_nat (hd 0 s)))) /\
  (iso = true ->
     (forall s, In s (map fst t) -> In (rev s) (map fst t) -> lookup (rev s) t = lookup s t) ->
     (forall s, In s (map fst t') -> In (rev s) (map fst t') -> lookup (rev s) t' = lookup s t')).
Proof. exact twt_preserves_canonical. Qed.

(* doubles vs rationals: the code compares the double fl((K-c)/K) with the double target x, the model the
   rational (K-c)/K with lam.  For every monotone rounding fl that fixes x, reading lam := exact value of x
   gives the same three-way comparison whenever x is not the double of that grid point ... *)
Theorem C17_double_reading_offgrid : forall (fl : Q -> Q), (forall a b, (a <= b)%Q -> (fl a <= fl b)%Q) ->
  forall a x, (fl x == x)%Q -> ~ (fl a == x)%Q -> (a ?= x)%Q = (fl a ?= x)%Q.
Proof. exact reading_offgrid. Qed.

(* ... and when x = fl(b) for a grid point b = c0/K, reading lam := b is right as soon as fl is strictly
   monotone on the two grid points compared (K < 2^52: neighbouring grid points are more than an ulp apart) *)
Theorem C17_double_reading_ongrid : forall (fl : Q -> Q) a b,
  ((a < b)%Q -> (fl a < fl b)%Q) -> ((b < a)%Q -> (fl b < fl a)%Q) -> (forall c d, (c == d)%Q -> (fl c == fl d)%Q) ->
  (a ?= b)%Q = (fl a ?= fl b)%Q.
Proof. exact reading_ongrid. Qed.

(* the reported lambda is the returned table's lambda (any table, any k) *)
Theorem C17_twt_lambda_true : forall t lam k r q sq iso cs t' l',
  table_walk_through t lam k r q sq iso cs = Ok (Some (t', l')) ->
  l' = Qmake (Z.of_nat (k ^ (2 * r + 1)) - Z.of_nat (length (filter (fun kv => (snd kv =? q)%Z) t'))) (Pos.of_nat (k ^ (2 * r + 1))).
Proof. exact twt_lambda_true. Qed.

(* table_rule: the value stored at the concatenated decimal renderings; ValueError iff absent *)
Theorem C17_table_rule_lookup : forall nb t,
  (forall v, table_rule nb t = Ok v <-> lookup (concat (map (fun x => base_repr x 10) nb)) t = Some v) /\
  (table_rule nb t = Raise ValueError <-> ~ In (concat (map (fun x => base_repr x 10) nb)) (map fst t)) /\
  (forall e, table_rule nb t = Raise e -> e = ValueError).
Proof. exact table_rule_lookup. Qed.

(* base_repr x 10 is the decimal numeral of x (val reads digits least significant first) *)
Theorem C17_decimal_rendering : forall x b, 2 <= b -> val b (rev (base_repr x b)) = x.
Proof. exact base_repr_value. Qed.

(* for k <= 10 the table built by random_rule_table answers every k-colour neighbourhood, in range *)
Theorem C17_rrt_table_rule : forall k r lam qo sq iso o t l q nb,
  random_rule_table k r lam qo sq iso o = Ok (t, l, q) -> k <= 10 ->
  length nb = 2 * r + 1 /\ Forall (fun d => d < k) nb ->
  exists v, table_rule nb t = Ok v /\ (0 <= v < Z.of_nat k)%Z /\ lookup nb t = Some v.
Proof. exact rrt_table_rule. Qed.

(* ------------------------------------------------------------------ non-vacuity *)
Definition ex_oracle : oracle :=
  {| o_rand := [(1 # 4); (3 # 4); (3 # 4); (1 # 8); (7 # 8); (1 # 2); (5 # 8); (0 # 1)]%Q;
     o_choice := [0; 1; 2; 1; 0]; o_randint := 1%Z |}.

(* k = 3, r = 1, both flags, q drawn by randint: the call returns, 27 keys, lambda 10/27, constraints visible *)
Example C17_nonvacuous_rrt :
  exists t, random_rule_table 3 1 (Some (1 # 2)%Q) None true true ex_oracle = Ok (t, (10 # 27)%Q, 1%Z) /\
    length t = 27 /\ qcount 1%Z t = 17 /\
    lookup [2; 2; 2] t = Some 2%Z /\ lookup [0; 1; 2] t = lookup [2; 1; 0] t /\ lookup [0; 1; 2] t = Some 0%Z.
Proof. eexists. vm_compute. repeat split. Qed.

(* a walk-through that really walks: from lambda 10/27 down across 1/3 (to 8/27: the mirror image moves too) and up to 8/9, flags on *)
Definition ex_table : table :=
  match random_rule_table 3 1 (Some (1 # 2)%Q) None true true ex_oracle with Ok (t, _, _) => t | Raise _ => [] end.

Example C17_nonvacuous_twt :
  map fst ex_table = states 3 3 /\
  (exists t', table_walk_through ex_table (1 # 3)%Q 3 1 1%Z true true [0; 5; 2; 7; 1; 1; 4; 3; 2; 6; 0; 0] = Ok (Some (t', (8 # 27)%Q))
     /\ t' <> ex_table /\ qcount 1%Z t' = 19) /\
  (exists t', table_walk_through ex_table (8 # 9)%Q 3 1 1%Z true true [0; 5; 2; 7; 1; 1; 4; 3; 2; 6; 0; 0] = Ok (Some (t', (24 # 27)%Q))
     /\ qcount 1%Z t' = 3) /\
  (* target below what strong quiescence allows: stops with no admissible entry, lambda 2/27 > 0 *)
  (exists t', table_walk_through ex_table (0 # 1)%Q 3 1 1%Z true true [] = Ok (Some (t', (2 # 27)%Q))
     /\ adm_dec 1%Z true t' = []).
Proof.
  split; [vm_compute; reflexivity|].
  split; [eexists; split; [vm_compute; reflexivity|]; split; [vm_compute; discriminate | vm_compute; reflexivity]|].
  split; [eexists; split; [vm_compute; reflexivity | vm_compute; reflexivity]|].
  eexists; split; vm_compute; reflexivity.
Qed.

(* the example table of the docstrings, {'101': 1, '111': 0, '011': 0, '110': 1, '000': 0, '100': 0, '010': 0, '001': 1}:
   NOT in canonical order, meets the hypotheses of the walk-through theorems, and is really walked (5/8 -> 3/8 -> ...) *)
Definition doc_table : table :=
  [([1;0;1], 1%Z); ([1;1;1], 0%Z); ([0;1;1], 0%Z); ([1;1;0], 1%Z); ([0;0;0], 0%Z); ([1;0;0], 0%Z); ([0;1;0], 0%Z); ([0;0;1], 1%Z)].

Example C17_nonvacuous_any_order :
  map fst doc_table <> states 2 3 /\ NoDup (map fst doc_table) /\
  (forall s, In s (map fst doc_table) <-> (length s = 2 * 1 + 1 /\ Forall (fun d => d < 2) s)) /\
  (exists t', table_walk_through doc_table (7 # 8)%Q 2 1 0%Z false true [3; 0; 1; 0; 2; 0] = Ok (Some (t', (7 # 8)%Q))
     /\ map fst t' = map fst doc_table /\ t' <> doc_table).
Proof.
  split; [vm_compute; discriminate|].
  assert (ND : NoDup (map fst doc_table)).
  { cbn [doc_table map fst]. repeat (constructor; [simpl; intuition discriminate|]). constructor. }
  split; [exact ND|]. split.
  - intros s. rewrite <- (states_in 2 3 s) by (repeat constructor). vm_compute. tauto.
  - eexists. split; [vm_compute; reflexivity|]. split; [vm_compute; reflexivity | vm_compute; discriminate].
Qed.

Example C17_nonvacuous_table_rule :
  table_rule [1; 0; 1] [([1; 0; 1], 7%Z)] = Ok 7%Z /\
  table_rule [10; 1] [([1; 0; 1], 7%Z)] = Ok 7%Z /\          (* multi-digit state rendered in decimal *)
  table_rule [1; 1; 1] [([1; 0; 1], 7%Z)] = Raise ValueError /\
  random_rule_table 1 1 None None false false ex_oracle = Raise ValueError /\
  random_rule_table 3 1 None (Some 3%Z) false false ex_oracle = Raise ValueError.
Proof. repeat split; vm_compute; reflexivity. Qed.

Print Assumptions C17_rrt_defined.
Print Assumptions C17_rrt_keys.
Print Assumptions C17_rrt_range.
Print Assumptions C17_rrt_strong_quiescence.
Print Assumptions C17_rrt_isotropic.
Print Assumptions C17_rrt_lambda_true.
Print Assumptions C17_states_full_keys.
Print Assumptions C17_twt_terminates.
Print Assumptions C17_twt_preserves.
Print Assumptions C17_twt_monotone.
Print Assumptions C17_twt_step_monotone.
Print Assumptions C17_twt_stop.
Print Assumptions C17_twt_preserves_canonical.
Print Assumptions C17_double_reading_offgrid.
Print Assumptions C17_double_reading_ongrid.
Print Assumptions C17_twt_lambda_true.
Print Assumptions C17_table_rule_lookup.
Print Assumptions C17_decimal_rendering.
Print Assumptions C17_rrt_table_rule.
From CPL Require Import gen.GenFuns_C17 GenProps.GenFunsEquivC17 GenProps.C17Src. (* source tie: gen/GenFuns_C17.v is regenerated from rule_tables.py on every run *)
Theorem C17_source_tie : forall (nb : list nat) (t : table), src_table_rule nb t = table_rule nb t. Proof. exact C17_source_translation_agrees. Qed. Print Assumptions C17_source_tie.
