(* C10 — Block automata: exact alternating partition, one rule call per block.
   Property theorems only: each is closed by a lemma of Proofs/BlockProofs.v.
   Model: Model/Block.v (evolve_block / evolve2d_block over the shared outer loop Model/Engine.v).

   Vocabulary (defined in Proofs/BlockProofs.v):
     shape h w v  :=  length v = h /\ Forall (fun row => length row = w) v     (v is an h x w nested list)
     rev180 x     :=  rev (map rev x)                                          (only used in the examples)
   step_block2d threads (rule state, flag); the flag is true after a result that NumPy could not
   broadcast into the block (ValueError), and stays false for rules that return the block's shape. *)
From Coq Require Import List ZArith Arith Permutation.
From CPL Require Import Model.Base Model.Engine Model.Block Proofs.BlockProofs.
Import ListNotations.

(* ------------------------------------------------------------------ blocks_partition *)

(* 1D: at every step t the blocks, concatenated, are a permutation of all cells 0..N-1: every cell is in
   exactly one block.  Holds for every N (in particular N = m*b). *)
Theorem C10_blocks_partition_1d : forall N b t, 1 <= b ->
  Permutation (concat (blocks_at N b t)) (seq 0 N).
Proof. exact blocks_at_perm. Qed.

(* 2D: the cells addressed by np.ix_ of all blocks are a permutation of all R x C cells *)
Theorem C10_blocks_partition_2d : forall b1 b2 m1 m2 t, 1 <= b1 -> 1 <= b2 ->
  Permutation (flat_map block_cells (blocks2_at (m1 * b1) (m2 * b2) b1 b2 t))
              (list_prod (seq 0 (m1 * b1)) (seq 0 (m2 * b2))).
Proof. exact blocks2_at_perm. Qed.

(* ------------------------------------------------------------------ blocks_shape *)

(* 1D, N = m*b: m blocks; odd-step block j is cells j*b .. j*b+b-1; even-step block j is cells
   (j*b - 1 + i) mod N, i = 0..b-1 (the partition is moved one cell to the LEFT: block 0 starts at N-1) *)
Theorem C10_blocks_shape_1d : forall b m, 1 <= b ->
  length (blocks_odd (m * b) b) = m /\ length (blocks_even (m * b) b) = m /\
  forall j, j < m ->
    nth j (blocks_odd (m * b) b) [] = seq (j * b) b /\
    nth j (blocks_even (m * b) b) [] = map (fun i => (j * b + i + m * b - 1) mod (m * b)) (seq 0 b).
Proof.
  intros b m Hb. split; [apply blocks_odd_length; exact Hb|]. split; [apply blocks_even_length; exact Hb|].
  intros j Hj. split; [apply blocks_odd_nth|apply blocks_even_nth]; assumption.
Qed.

(* 2D, R = m1*b1, C = m2*b2: m1*m2 blocks in row-major order; odd-step block (j1, j2) is the rectangle at
   (j1*b1, j2*b2); even-step block (j1, j2) has rows (j1*b1 + 1 + i) mod R and columns (j2*b2 + 1 + i) mod C
   (the partition is moved one cell DOWN/RIGHT: the opposite direction to the 1D function) *)
Theorem C10_blocks_shape_2d : forall b1 b2 m1 m2, 1 <= b1 -> 1 <= b2 ->
  length (blocks2_odd (m1 * b1) (m2 * b2) b1 b2) = m1 * m2 /\
  length (blocks2_even (m1 * b1) (m2 * b2) b1 b2) = m1 * m2 /\
  forall j1 j2, j1 < m1 -> j2 < m2 ->
    nth (j1 * m2 + j2) (blocks2_odd (m1 * b1) (m2 * b2) b1 b2) ([], []) = (seq (j1 * b1) b1, seq (j2 * b2) b2) /\
    nth (j1 * m2 + j2) (blocks2_even (m1 * b1) (m2 * b2) b1 b2) ([], []) =
      (map (fun i => (j1 * b1 + 1 + i) mod (m1 * b1)) (seq 0 b1),
       map (fun i => (j2 * b2 + 1 + i) mod (m2 * b2)) (seq 0 b2)).
Proof.
  intros b1 b2 m1 m2 H1 H2. split; [apply blocks2_odd_length; assumption|]. split; [apply blocks2_even_length; assumption|].
  intros j1 j2 Hj1 Hj2. split; [apply blocks2_odd_nth|apply blocks2_even_nth]; assumption.
Qed.

(* ------------------------------------------------------------------ block_calls *)

(* 1D: one step calls the rule exactly once per block, in block order, with (that block's states, t);
   any rule state machine, any dtype cast, any row *)
Theorem C10_block_calls_1d : forall St (rule : block_rule St) store b s lg cells t,
  snd (fst (step_block (logged_b rule) store b (s, lg) cells t)) =
  lg ++ map (fun blk => (gather cells blk, t)) (blocks_at (length cells) b t).
Proof. exact block_calls_1d. Qed.

(* 2D: the same; if a result has a shape NumPy cannot broadcast the loop stops there (flag true) and the
   log is the prefix of blocks reached; with the flag false it is one call per block *)
Theorem C10_block_calls_2d : forall St (rule : block_rule2 St) store b1 b2 s lg g t,
  let r := step_block2d (logged_b2 rule) store b1 b2 ((s, lg), false) g t in
  let blocks := blocks2_at (rows_of g) (cols_of g) b1 b2 t in
  exists k, k <= length blocks /\
    snd (fst (fst r)) = lg ++ map (fun rc => (gather2 g rc, t)) (firstn k blocks) /\
    (snd (fst r) = false -> k = length blocks).
Proof. exact block_calls_2d. Qed.

(* ------------------------------------------------------------------ block_calls over a whole run *)

(* evolve_block passes the step numbers 1 .. T-1; step t reads row t-1 of the evolution (row 0 = the last
   row of the given history); the call log of the run is the concatenation of the per-step logs: one
   (contents, t) per block in block order, the partitions alternating from the aligned one at t = 1 *)
Theorem C10_evolve_block_calls : forall St (rule : block_rule St) store b s0 lg0 hist T s lg rows,
  evolve_block (logged_b rule) store b (s0, lg0) hist T = Ok ((s, lg), hist ++ rows) ->
  length rows = T - 1 /\
  lg = lg0 ++ flat_map (fun t => map (fun blk => (gather (nth (t - 1) (last hist [] :: rows) []) blk, t))
                                     (blocks_at (length (last hist [])) b t)) (seq 1 (T - 1)).
Proof. exact evolve_block_calls. Qed.

Theorem C10_evolve2d_block_calls : forall St (rule : block_rule2 St) store b1 b2 s0 lg0 (hist : list grid2) T s lg grids,
  evolve2d_block (logged_b2 rule) store b1 b2 (s0, lg0) hist T = Ok ((s, lg), hist ++ grids) ->
  length grids = T - 1 /\
  lg = lg0 ++ flat_map (fun t => map (fun rc => (gather2 (nth (t - 1) (last hist [] :: grids) []) rc, t))
                                     (blocks2_at (rows_of (last hist [])) (cols_of (last hist [])) b1 b2 t))
                       (seq 1 (T - 1)).
Proof. exact evolve2d_block_calls. Qed.

(* ------------------------------------------------------------------ write-back to the same cells *)

(* the new row/grid, read through a block of step t, is what the (pure) rule returned for that block's
   previous contents; the rule only has to keep the size of blocks of the automaton's block size.
   (General state machines and casts: BlockProofs.step_block_gather / step_block2d_gather.) *)
Theorem C10_block_writeback_1d : forall h b m cells t blk, 1 <= b -> length cells = m * b ->
  (forall x t, length x = b -> length (h x t) = b) -> In blk (blocks_at (length cells) b t) ->
  gather (snd (step_block (pure_b h) id_store b tt cells t)) blk = h (gather cells blk) t.
Proof. exact step_pure_gather'. Qed.

Theorem C10_block_writeback_2d : forall h b1 b2 m1 m2 g t rc,
  1 <= b1 -> 1 <= b2 -> 1 <= m1 -> 1 <= m2 -> shape (m1 * b1) (m2 * b2) g ->
  (forall x t, shape b1 b2 x -> shape b1 b2 (h x t)) ->
  In rc (blocks2_at (m1 * b1) (m2 * b2) b1 b2 t) ->
  gather2 (snd (step_block2d (pure_b2 h) id_store b1 b2 (tt, false) g t)) rc = h (gather2 g rc) t.
Proof. exact step_pure_gather2'. Qed.

(* ------------------------------------------------------------------ block_conserves
   The hypotheses speak only about blocks of the automaton's block size (a rule written for exactly b cells,
   e.g. fun x => match x with [a; b] => [b; a] | _ => [] end, qualifies). *)

(* 1D, N = m*b: a rule (any state machine) that returns a permutation of every b-cell block it is given makes
   the new row a permutation of the old one *)
Theorem C10_block_conserves_1d : forall St (rule : block_rule St) b m s cells t,
  1 <= b -> length cells = m * b ->
  (forall s x t, length x = b -> Permutation (snd (rule s x t)) x) ->
  Permutation (snd (step_block rule id_store b s cells t)) cells.
Proof. exact block_conserves_1d'. Qed.

(* variant: every row length N (the last block may be shorter), rule permuting every list *)
Theorem C10_block_conserves_1d_anyN : forall St (rule : block_rule St) b s cells t, 1 <= b ->
  (forall s x t, Permutation (snd (rule s x t)) x) ->
  Permutation (snd (step_block rule id_store b s cells t)) cells.
Proof. exact block_conserves_1d. Qed.

(* ... hence every new row of evolve_block is a permutation of the row it started from *)
Theorem C10_evolve_block_conserves : forall St (rule : block_rule St) b m s0 hist T s rows, 1 <= b ->
  length (last hist []) = m * b ->
  (forall s x t, length x = b -> Permutation (snd (rule s x t)) x) ->
  evolve_block rule id_store b s0 hist T = Ok (s, rows) ->
  exists news, rows = hist ++ news /\ length news = T - 1 /\ Forall (fun r => Permutation r (last hist [])) news.
Proof. exact evolve_block_conserves'. Qed.

(* 2D: R = m1*b1, C = m2*b2; the rule returns, for every b1 x b2 block, a b1 x b2 block whose states are a
   permutation of the given ones: no ValueError, the new grid is R x C and a permutation of the old one *)
Theorem C10_block_conserves_2d : forall St (rule : block_rule2 St) b1 b2 m1 m2 s g t,
  1 <= b1 -> 1 <= b2 -> 1 <= m1 -> 1 <= m2 -> shape (m1 * b1) (m2 * b2) g ->
  (forall s x t, shape b1 b2 x -> shape b1 b2 (snd (rule s x t))) ->
  (forall s x t, shape b1 b2 x -> Permutation (concat (snd (rule s x t))) (concat x)) ->
  let r := step_block2d rule id_store b1 b2 (s, false) g t in
  snd (fst r) = false /\ shape (m1 * b1) (m2 * b2) (snd r) /\ Permutation (concat (snd r)) (concat g).
Proof. exact block_conserves_2d'. Qed.

Theorem C10_evolve2d_block_conserves : forall St (rule : block_rule2 St) b1 b2 m1 m2 s0 hist T,
  1 <= b1 -> 1 <= b2 -> 1 <= m1 -> 1 <= m2 -> 1 <= T -> hist <> [] ->
  shape (m1 * b1) (m2 * b2) (last hist []) ->
  (forall s x t, shape b1 b2 x -> shape b1 b2 (snd (rule s x t))) ->
  (forall s x t, shape b1 b2 x -> Permutation (concat (snd (rule s x t))) (concat x)) ->
  exists s news, evolve2d_block rule id_store b1 b2 s0 hist T = Ok (s, hist ++ news) /\ length news = T - 1 /\
    Forall (fun g' => shape (m1 * b1) (m2 * b2) g' /\ Permutation (concat g') (concat (last hist []))) news.
Proof. exact evolve2d_block_conserves'. Qed.

(* ------------------------------------------------------------------ block_reversible *)

(* 1D, N = m*b: if g undoes f on every b-cell block at the same step number, one step with g at step number t
   undoes one step with f at step number t (same parity = same partition) *)
Theorem C10_block_reversible_1d : forall (f g : list Z -> nat -> list Z) b m cells t,
  1 <= b -> length cells = m * b ->
  (forall x t, length x = b -> length (f x t) = b) -> (forall x t, length x = b -> length (g x t) = b) ->
  (forall x t, length x = b -> g (f x t) t = x) ->
  snd (step_block (pure_b g) id_store b tt (snd (step_block (pure_b f) id_store b tt cells t)) t) = cells.
Proof. exact block_reversible_1d'. Qed.

(* variant: every row length, f and g length-preserving and inverse on every list *)
Theorem C10_block_reversible_1d_anyN : forall (f g : list Z -> nat -> list Z) b cells t, 1 <= b ->
  (forall x t, length (f x t) = length x) -> (forall x t, length (g x t) = length x) ->
  (forall x t, g (f x t) t = x) ->
  snd (step_block (pure_b g) id_store b tt (snd (step_block (pure_b f) id_store b tt cells t)) t) = cells.
Proof. exact block_reversible_1d. Qed.

Theorem C10_block_reversible_2d : forall (f g : grid2 -> nat -> grid2) b1 b2 m1 m2 g0 t,
  1 <= b1 -> 1 <= b2 -> 1 <= m1 -> 1 <= m2 -> shape (m1 * b1) (m2 * b2) g0 ->
  (forall x t, shape b1 b2 x -> shape b1 b2 (f x t)) ->
  (forall x t, shape b1 b2 x -> shape b1 b2 (g x t)) ->
  (forall x t, shape b1 b2 x -> g (f x t) t = x) ->
  snd (step_block2d (pure_b2 g) id_store b1 b2 (tt, false)
        (snd (step_block2d (pure_b2 f) id_store b1 b2 (tt, false) g0 t)) t) = g0.
Proof. exact block_reversible_2d'. Qed.

(* the whole evolution is reversible: with an invertible block rule the T-step map on rows (grids) is
   injective — two runs of the same length that end in the same row started from the same row *)
Theorem C10_evolve_block_injective : forall (f g : list Z -> nat -> list Z) b T h1 h2 r1 r2, 1 <= b ->
  (forall x t, length x = b -> length (f x t) = b) -> (forall x t, length x = b -> length (g x t) = b) ->
  (forall x t, length x = b -> g (f x t) t = x) ->
  evolve_block (pure_b f) id_store b tt h1 T = Ok (tt, r1) ->
  evolve_block (pure_b f) id_store b tt h2 T = Ok (tt, r2) ->
  last r1 [] = last r2 [] -> last h1 [] = last h2 [].
Proof. exact evolve_block_injective. Qed.

Theorem C10_evolve2d_block_injective : forall (f g : grid2 -> nat -> grid2) b1 b2 m1 m2 T (h1 h2 r1 r2 : list grid2),
  1 <= b1 -> 1 <= b2 -> 1 <= m1 -> 1 <= m2 ->
  (forall x t, shape b1 b2 x -> shape b1 b2 (f x t)) -> (forall x t, shape b1 b2 x -> shape b1 b2 (g x t)) ->
  (forall x t, shape b1 b2 x -> g (f x t) t = x) ->
  shape (m1 * b1) (m2 * b2) (last h1 []) -> shape (m1 * b1) (m2 * b2) (last h2 []) ->
  evolve2d_block (pure_b2 f) id_store b1 b2 tt h1 T = Ok (tt, r1) ->
  evolve2d_block (pure_b2 f) id_store b1 b2 tt h2 T = Ok (tt, r2) ->
  last r1 [] = last r2 [] -> last h1 [] = last h2 [].
Proof. exact evolve2d_block_injective. Qed.

(* ------------------------------------------------------------------ block_rejects *)

(* a size that is not a multiple of the block size raises; a multiple (>= 1 cell, >= 1 time step) does not *)
Theorem C10_block_rejects_1d : forall St (rule : block_rule St) store b s0 hist T,
  hist <> [] -> 1 <= b ->
  (length (last hist []) mod b <> 0 -> evolve_block rule store b s0 hist T = Raise OtherError) /\
  (1 <= T -> 1 <= length (last hist []) -> length (last hist []) mod b = 0 ->
   exists r, evolve_block rule store b s0 hist T = Ok r).
Proof. exact block_rejects_1d. Qed.

Theorem C10_block_rejects_2d : forall St (rule : block_rule2 St) store b1 b2 s0 hist T,
  hist <> [] -> 1 <= b1 -> 1 <= b2 -> 1 <= T ->
  (rows_of (last hist []) mod b1 <> 0 \/ cols_of (last hist []) mod b2 <> 0 ->
   evolve2d_block rule store b1 b2 s0 hist T = Raise OtherError) /\
  (rows_of (last hist []) mod b1 = 0 -> cols_of (last hist []) mod b2 = 0 ->
   (forall s x t h w, shape h w x -> shape h w (snd (rule s x t))) ->
   exists r, evolve2d_block rule store b1 b2 s0 hist T = Ok r).
Proof. exact block_rejects_2d. Qed.

(* ------------------------------------------------------------------ non-vacuity *)
Local Open Scope Z_scope.

(* 1D, N = 6, b = 3, block reversal: satisfies the hypotheses of conserves and reversible; the odd step
   reverses cells 0-2 and 3-5, the even step reverses the wrapped blocks (5,0,1) and (2,3,4); a
   non-multiple is rejected *)
Example C10_nonvacuous_1d :
  (forall (s : unit) x t, Permutation (snd (pure_b (fun x _ => rev x) s x t)) x) /\
  (forall (x : list Z) (t : nat), length (rev x) = length x) /\
  (forall (x : list Z) (t : nat), rev (rev x) = x) /\
  blocks_at 6 3 1 = [[0; 1; 2]; [3; 4; 5]]%nat /\ blocks_at 6 3 2 = [[5; 0; 1]; [2; 3; 4]]%nat /\
  snd (step_block (pure_b (fun x _ => rev x)) id_store 3 tt [1; 2; 3; 4; 5; 6] 1) = [3; 2; 1; 6; 5; 4] /\
  snd (step_block (pure_b (fun x _ => rev x)) id_store 3 tt [1; 2; 3; 4; 5; 6] 2) = [1; 6; 5; 4; 3; 2] /\
  evolve_block (logged_b (pure_b (fun x _ => rev x))) id_store 3 (tt, []) [[1; 2; 3; 4; 5; 6]] 3 =
    Ok ((tt, [([1; 2; 3], 1%nat); ([4; 5; 6], 1%nat); ([4; 3; 2], 2%nat); ([1; 6; 5], 2%nat)]),
        [[1; 2; 3; 4; 5; 6]; [3; 2; 1; 6; 5; 4]; [3; 4; 5; 6; 1; 2]]) /\
  evolve_block (pure_b (fun x _ => rev x)) id_store 4 tt [[1; 2; 3; 4; 5; 6]] 3 = Raise OtherError.
Proof.
  split; [intros s x t; apply Permutation_sym, Permutation_rev|].
  split; [intros x t; apply rev_length|]. split; [intros x t; apply rev_involutive|].
  repeat (split; [vm_compute; reflexivity|]). vm_compute; reflexivity.
Qed.

(* 2D, 4 x 4 grid, 2 x 2 blocks, rotation of every block by 180 degrees *)
Example C10_nonvacuous_2d :
  (forall (s : unit) x t h w, shape h w x -> shape h w (snd (pure_b2 (fun x _ => rev180 x) s x t))) /\
  (forall (s : unit) x t, Permutation (concat (snd (pure_b2 (fun x _ => rev180 x) s x t))) (concat x)) /\
  (forall x, rev180 (rev180 x) = x) /\
  shape (2 * 2) (2 * 2) [[1; 2; 3; 4]; [5; 6; 7; 8]; [9; 10; 11; 12]; [13; 14; 15; 16]] /\
  blocks2_at 4 4 2 2 2 = [([1; 2], [1; 2]); ([1; 2], [3; 0]); ([3; 0], [1; 2]); ([3; 0], [3; 0])]%nat /\
  snd (step_block2d (pure_b2 (fun x _ => rev180 x)) id_store 2 2 (tt, false)
         [[1; 2; 3; 4]; [5; 6; 7; 8]; [9; 10; 11; 12]; [13; 14; 15; 16]] 2) =
    [[16; 15; 14; 13]; [12; 11; 10; 9]; [8; 7; 6; 5]; [4; 3; 2; 1]] /\
  evolve2d_block (pure_b2 (fun x _ => rev180 x)) id_store 3 2 tt
         [[[1; 2; 3; 4]; [5; 6; 7; 8]; [9; 10; 11; 12]; [13; 14; 15; 16]]] 2 = Raise OtherError.
Proof.
  split; [intros s x t h w H; apply rev180_shape; exact H|].
  split; [intros s x t; apply rev180_perm|]. split; [exact rev180_involutive|].
  split; [split; [reflexivity|repeat constructor]|].
  repeat (split; [vm_compute; reflexivity|]). vm_compute; reflexivity.
Qed.

(* a rule written for exactly b = 2 cells (it returns () for any other size) meets the size-restricted
   hypotheses of conserves / reversible / injective, and does something *)
Example C10_nonvacuous_sized :
  (forall x t, length x = 2%nat -> length (swap2 x t) = 2%nat) /\
  (forall x t, length x = 2%nat -> swap2 (swap2 x t) t = x) /\
  (forall (s : unit) x t, length x = 2%nat -> Permutation (snd (pure_b swap2 s x t)) x) /\
  swap2 [1; 2; 3] 0%nat = [] /\
  evolve_block (pure_b swap2) id_store 2 tt [[1; 2; 3; 4]] 3 = Ok (tt, [[1; 2; 3; 4]; [2; 1; 4; 3]; [3; 4; 1; 2]]).
Proof.
  destruct swap2_props as [H1 [H2 H3]]. split; [exact H1|]. split; [exact H2|]. split; [exact H3|].
  split; vm_compute; reflexivity.
Qed.

Print Assumptions C10_blocks_partition_1d.
Print Assumptions C10_blocks_partition_2d.
Print Assumptions C10_blocks_shape_1d.
Print Assumptions C10_blocks_shape_2d.
Print Assumptions C10_block_calls_1d.
Print Assumptions C10_block_calls_2d.
Print Assumptions C10_evolve_block_calls.
Print Assumptions C10_evolve2d_block_calls.
Print Assumptions C10_block_writeback_1d.
Print Assumptions C10_block_writeback_2d.
Print Assumptions C10_block_conserves_1d.
Print Assumptions C10_block_conserves_1d_anyN.
Print Assumptions C10_evolve_block_conserves.
Print Assumptions C10_block_conserves_2d.
Print Assumptions C10_evolve2d_block_conserves.
Print Assumptions C10_block_reversible_1d.
Print Assumptions C10_block_reversible_1d_anyN.
Print Assumptions C10_block_reversible_2d.
Print Assumptions C10_evolve_block_injective.
Print Assumptions C10_evolve2d_block_injective.
Print Assumptions C10_block_rejects_1d.
Print Assumptions C10_block_rejects_2d.
From CPL Require Import gen.GenFuns_C10 GenProps.GenFunsEquivC10 GenProps.C10Src. (* source tie: gen/GenFuns_C10.v is regenerated from ca_functions.py on every run *)
Theorem C10_source_tie : forall (init : list Z) (b m : nat), (1 <= b)%nat -> length init = (m * b)%nat -> src_block_indices init (Z.of_nat b) = (if (m =? 0)%nat then Raise IndexError else Ok (map (map Z.of_nat) (blocks_odd (m * b) b), map (map Z.of_nat) (blocks_even (m * b) b))). Proof. exact C10_source_translation_agrees. Qed. Print Assumptions C10_source_tie.
