(* C01 — 1D evolution (memoize=False) is the synchronous update of a ring.
   Property theorems only: each is closed by `exact` of a lemma proved in Proofs/Evolve1DProofs.v.
   Model: Model/Evolve1D.v (index_strides, neighbourhoods, apply_all, step_plain, evolve_plain,
   evolve_plain_dynamic) over Model/Engine.v.  Specification: ring_nbhd (Model/Evolve1D.v) and
   spec_fold / spec_step / spec_run / evolve_calls (Proofs/Evolve1DProofs.v), which never mention
   the index table.  Guard everywhere: 1 <= r <= N (for r = 0 or r > N the slices of
   _index_strides saturate and the real code builds malformed windows, as the model does). *)
From CPL Require Import Model.Base Model.Rules Model.Engine Model.Evolve1D Proofs.Evolve1DProofs.

(* window c of _index_strides(arange(N), 2r+1) holds the ring positions c-r .. c+r modulo N *)
Theorem C01_strides_spec : forall N r c k, 1 <= r <= N -> c < N -> k < 2 * r + 1 ->
  nth k (nth c (index_strides N r) []) 0 = (c + k + N - r) mod N.
Proof. exact strides_spec. Qed.

(* ... and (c + k + N - r) mod N over nat is (c - r + k) mod N over the integers *)
Theorem C01_ring_index_Z : forall N r c k, 1 <= N -> r <= N ->
  Z.of_nat ((c + k + N - r) mod N) = ((Z.of_nat c - Z.of_nat r + Z.of_nat k) mod Z.of_nat N)%Z.
Proof. exact ring_index_Z. Qed.

(* one window per cell, each of width 2r+1 *)
Theorem C01_strides_length : forall N r, 1 <= r <= N ->
  length (index_strides N r) = N /\ forall c, c < N -> length (nth c (index_strides N r) []) = 2 * r + 1.
Proof. intros N r H; split; [apply strides_length; exact H | intros c Hc; apply strides_row_length; assumption]. Qed.

(* cells[strides]: neighbourhood c is the ring neighbourhood of cell c *)
Theorem C01_neighbourhoods_spec : forall cells r, 1 <= r <= length cells ->
  length (neighbourhoods cells r) = length cells /\
  forall c, c < length cells -> nth c (neighbourhoods cells r) [] = ring_nbhd cells c r.
Proof. exact neighbourhoods_spec. Qed.

(* the ring neighbourhood has 2r+1 entries, entry k is the state at (c-r+k) mod N, the cell itself in the middle *)
Theorem C01_ring_nbhd_shape : forall cells c r,
  length (ring_nbhd cells c r) = 2 * r + 1 /\
  (forall k, k < 2 * r + 1 ->
     nth k (ring_nbhd cells c r) 0%Z = nth ((c + k + length cells - r) mod length cells) cells 0%Z) /\
  (r <= length cells -> c < length cells -> nth r (ring_nbhd cells c r) 0%Z = nth c cells 0%Z).
Proof.
  intros cells c r; split; [apply ring_nbhd_length|split; [intros k; apply ring_nbhd_nth|apply ring_nbhd_centre]].
Qed.

(* one step of the model is the specification fold over the explicit call list
   [(ring_nbhd cells c r, c) | c = 0 .. N-1]: any rule state machine, any dtype cast *)
Theorem C01_step_plain_spec : forall (St : Type) (rule : rule1 St) (store : Z -> Z) r s cells t,
  1 <= r <= length cells ->
  step_plain rule store r s cells t
  = spec_fold rule store s (map (fun c => (ring_nbhd cells c r, c)) (seq 0 (length cells))) t.
Proof. exact step_plain_spec. Qed.

(* the call log of one step: every cell exactly once, ascending, with its ring neighbourhood, its
   index and t; logging changes neither the row nor the rule's own state *)
Theorem C01_step_call_log : forall (St : Type) (rule : rule1 St) (store : Z -> Z) r s lg cells t,
  1 <= r <= length cells ->
  step_plain (logged1 rule) store r (s, lg) cells t =
    ((fst (step_plain rule store r s cells t),
      lg ++ map (fun c => (ring_nbhd cells c r, c, t)) (seq 0 (length cells))),
     snd (step_plain rule store r s cells t)).
Proof. exact step_plain_logged. Qed.

(* the new row has N entries; entry c is `store` of what the rule returned when consulted on cell c,
   the rule being then in the state left by the consultations of cells 0 .. c-1 of this step *)
Theorem C01_step_row : forall (St : Type) (rule : rule1 St) (store : Z -> Z) r s cells t,
  1 <= r <= length cells ->
  length (snd (step_plain rule store r s cells t)) = length cells /\
  fst (step_plain rule store r s cells t) = state_before rule store r s cells t (length cells) /\
  forall c d, c < length cells ->
    nth c (snd (step_plain rule store r s cells t)) d =
    store (snd (rule (state_before rule store r s cells t c) (ring_nbhd cells c r) c t)).
Proof. exact step_plain_row. Qed.

Theorem C01_state_before : forall (St : Type) (rule : rule1 St) (store : Z -> Z) r s cells t,
  state_before rule store r s cells t 0 = s /\
  forall c, state_before rule store r s cells t (S c)
            = fst (rule (state_before rule store r s cells t c) (ring_nbhd cells c r) c t).
Proof. intros; split; [apply state_before_0 | intros c; apply state_before_S]. Qed.

(* pure rules (the form other properties import) *)
Theorem C01_step_plain_pure : forall (store : Z -> Z) (f : list Z -> Z) r cells t, 1 <= r <= length cells ->
  snd (step_plain (fun u n c t => (u, f n)) store r tt cells t) =
    map (fun c => store (f (ring_nbhd cells c r))) (seq 0 (length cells)).
Proof. exact step_plain_pure. Qed.

(* evolve(ca, T, rule, r, memoize=False), T >= 1: the history followed by the T-1 rows of the
   specification run (steps numbered 1 .. T-1, each reading the row written by the previous one) *)
Theorem C01_evolve_plain_spec : forall (St : Type) (rule : rule1 St) (store : Z -> Z) r s0 hist T,
  1 <= r <= length (last hist []) -> 1 <= T ->
  evolve_plain rule store r s0 hist T =
    Ok (fst (spec_run rule store r (T - 1) s0 (last hist []) 1),
        hist ++ snd (spec_run rule store r (T - 1) s0 (last hist []) 1)).
Proof. exact evolve_plain_spec. Qed.

(* shape and exact call log of evolve: T-1 new rows of N cells; the rule is consulted
   for t = 1 .. T-1 ascending, within a step for c = 0 .. N-1 ascending, each once, on the ring
   neighbourhood of cell c in row t-1 (row 0 = the last row of the given history) *)
Theorem C01_evolve_call_log : forall (St : Type) (rule : rule1 St) (store : Z -> Z) r s0 lg hist T,
  1 <= r <= length (last hist []) -> 1 <= T ->
  exists s' rows,
    evolve_plain rule store r s0 hist T = Ok (s', hist ++ rows) /\
    length rows = T - 1 /\
    (forall row, In row rows -> length row = length (last hist [])) /\
    evolve_plain (logged1 rule) store r (s0, lg) hist T =
      Ok ((s', lg ++ flat_map (fun t => map (fun c => (ring_nbhd (nth (t - 1) (last hist [] :: rows) []) c r, c, t))
                                            (seq 0 (length (last hist []))))
                              (seq 1 (T - 1))),
          hist ++ rows).
Proof. exact evolve_plain_logged. Qed.

(* stateless rules that may read n, c, t: every appended row is the synchronous ring update of the row before *)
Theorem C01_evolve_pure : forall (store : Z -> Z) (f : list Z -> nat -> nat -> Z) r hist T,
  1 <= r <= length (last hist []) -> 1 <= T ->
  exists rows,
    evolve_plain (fun u n c t => (u, f n c t)) store r tt hist T = Ok (tt, hist ++ rows) /\
    length rows = T - 1 /\
    forall t, 1 <= t < T ->
      nth (t - 1) rows [] =
        map (fun c => store (f (ring_nbhd (nth (t - 1) (last hist [] :: rows) []) c r) c t))
            (seq 0 (length (last hist []))).
Proof. exact evolve_plain_pure. Qed.

(* T = 0 is rejected (array[0] = ... on an empty array) *)
Theorem C01_evolve_zero_rejected : forall (St : Type) (rule : rule1 St) (store : Z -> Z) r s0 hist,
  evolve_plain rule store r s0 hist 0 = Raise IndexError.
Proof. exact evolve_plain_zero. Qed.

(* callable timesteps: a run that consulted the predicate k+1 times (k acceptances, one refusal)
   returns what evolve(ca, k+1, ...) returns and leaves the rule in the same state; hence the three
   theorems above describe it with T = number of consultations (C06 treats the predicate itself) *)
Theorem C01_evolve_dynamic_spec : forall (St : Type) (rule : rule1 St) (store : Z -> Z) (P : Type)
    (pred : P -> list (list Z) -> nat -> P * bool) r fuel p0 s0 hist p s out plog,
  1 <= r <= length (last hist []) -> hist <> [] ->
  evolve_plain_dynamic rule store pred r fuel p0 s0 hist = Some (p, s, out, plog) ->
  1 <= length plog /\ evolve_plain rule store r s0 hist (length plog) = Ok (s, out).
Proof. exact evolve_plain_dynamic_spec. Qed.

(* ---- non-vacuity (nat literals are bare, integer lists carry %Z) *)

(* N = 3, r = 3: the window is wider than the ring twice over *)
Example C01_nonvacuous_wide :
  1 <= 3 <= length [10; 20; 30]%Z /\
  index_strides 3 3 = [[0;1;2;0;1;2;0]; [1;2;0;1;2;0;1]; [2;0;1;2;0;1;2]] /\
  neighbourhoods [10; 20; 30]%Z 3
    = [[10;20;30;10;20;30;10]; [20;30;10;20;30;10;20]; [30;10;20;30;10;20;30]]%Z /\
  ring_nbhd [10; 20; 30]%Z 1 3 = [20;30;10;20;30;10;20]%Z /\
  evolve_plain (logged1 (lin1 [1;0;0;0;0;0;2]%Z 7%Z)) store_id 3 (tt, []) [[1; 2; 3]%Z] 3
  = Ok ((tt, [([1;2;3;1;2;3;1]%Z, 0, 1); ([2;3;1;2;3;1;2]%Z, 1, 1); ([3;1;2;3;1;2;3]%Z, 2, 1);
              ([3;6;2;3;6;2;3]%Z, 0, 2); ([6;2;3;6;2;3;6]%Z, 1, 2); ([2;3;6;2;3;6;2]%Z, 2, 2)]),
        [[1; 2; 3]; [3; 6; 2]; [2; 4; 6]]%Z).
Proof.
  split; [cbn; split; repeat constructor|].
  split; [vm_compute; reflexivity|]. split; [vm_compute; reflexivity|].
  split; vm_compute; reflexivity.
Qed.

(* N = 5, r = 2 with a Script rule (the general stateful rule), history of two rows, T = 3 *)
Example C01_nonvacuous_script :
  1 <= 2 <= length (last [[9;9;9;9;9]; [1;2;3;4;5]]%Z []) /\
  evolve_plain (logged1 (script1 [11;12;13;14;15;21;22;23;24;25]%Z)) store_id 2 (0, [])
               [[9;9;9;9;9]; [1;2;3;4;5]]%Z 3
  = Ok ((10, [([4;5;1;2;3]%Z, 0, 1); ([5;1;2;3;4]%Z, 1, 1); ([1;2;3;4;5]%Z, 2, 1); ([2;3;4;5;1]%Z, 3, 1);
              ([3;4;5;1;2]%Z, 4, 1);
              ([14;15;11;12;13]%Z, 0, 2); ([15;11;12;13;14]%Z, 1, 2); ([11;12;13;14;15]%Z, 2, 2);
              ([12;13;14;15;11]%Z, 3, 2); ([13;14;15;11;12]%Z, 4, 2)]),
        [[9;9;9;9;9]; [1;2;3;4;5]; [11;12;13;14;15]; [21;22;23;24;25]]%Z) /\
  (* the callable-timesteps form: t < 3 is accepted twice and refused once *)
  evolve_plain_dynamic (script1 [11;12;13;14;15;21;22;23;24;25]%Z) store_id (pred_lt 3) 2 10 tt 0
                       [[9;9;9;9;9]; [1;2;3;4;5]]%Z
  = Some (tt, 10, [[9;9;9;9;9]; [1;2;3;4;5]; [11;12;13;14;15]; [21;22;23;24;25]]%Z,
          [([[1;2;3;4;5]]%Z, 1); ([[1;2;3;4;5]; [11;12;13;14;15]]%Z, 2);
           ([[1;2;3;4;5]; [11;12;13;14;15]; [21;22;23;24;25]]%Z, 3)]).
Proof.
  split; [cbn; split; repeat constructor|].
  split; vm_compute; reflexivity.
Qed.

(* the guard matters: r = 0 and r > N give malformed index tables, as the real code does *)
Example C01_guard_needed :
  index_strides 3 0 = [[0];[1];[2];[0];[1];[2]] /\ length (index_strides 3 4) = 1.
Proof. split; vm_compute; reflexivity. Qed.

Print Assumptions C01_strides_spec.
Print Assumptions C01_ring_index_Z.
Print Assumptions C01_strides_length.
Print Assumptions C01_neighbourhoods_spec.
Print Assumptions C01_ring_nbhd_shape.
Print Assumptions C01_step_plain_spec.
Print Assumptions C01_step_call_log.
Print Assumptions C01_step_row.
Print Assumptions C01_state_before.
Print Assumptions C01_step_plain_pure.
Print Assumptions C01_evolve_plain_spec.
Print Assumptions C01_evolve_call_log.
Print Assumptions C01_evolve_pure.
Print Assumptions C01_evolve_zero_rejected.
Print Assumptions C01_evolve_dynamic_spec.
From CPL Require Import gen.GenFuns_C01 GenProps.GenFunsEquivC01 GenProps.C01Src. (* source tie: gen/GenFuns_C01.v is regenerated from ca_functions.py on every run *)
Theorem C01_source_tie : forall N r : nat, src_index_strides (src_range 0 (Z.of_nat N)) (Z.of_nat (2 * r + 1)) = (let len := length (ext_idx N r) in if len + 1 <? 2 * r + 1 then Raise ValueError else if len + 1 =? 2 * r + 1 then Ok nil else Ok (map (map Z.of_nat) (index_strides N r))). Proof. exact C01_source_translation_agrees. Qed. Print Assumptions C01_source_tie.
