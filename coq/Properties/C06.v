(* C06 - Callable timesteps gate every step; until_fixed_point halts at the fixed point.
   Property theorems only.  The outer loop `while timesteps(np.array(array), t)` of
   _evolve_dynamic / _evolve2d_dynamic is Model/Engine.v's evolve_dynamic, generic in the step; the
   theorems are proved once for every step function in Proofs/EngineProofs.v and read here for
   evolve (evolve_plain_dynamic) and evolve2d (evolve2d_plain_dynamic).

   Reading of the statement.  The predicate is a state machine `pred : P -> states -> t -> P * bool`
   (it may count its consultations); `ps j` is its state before the (j+1)-th consultation.
   "It says yes k times and then no" is: for j < k the (j+1)-th consultation - which receives the
   starting state followed by the first j new rows, and t = j+1 - answers true, and the (k+1)-th
   answers false.  Then exactly k steps are performed (the rows are those of iter_steps k, numbered
   1..k), the call returns the history followed by them, which is what the fixed-count evolution with
   timesteps = k+1 returns, and the argument log is [(first j states of this call, j) | j = 1..k+1]:
   consultation j sees j-1 new rows, i.e. it happens after step j-1 and before step j.
   Fuel: the model's loop has explicit fuel; fuel > k is enough, exhaustion (None) is the model's
   value for a call that has not terminated and is excluded by that hypothesis. *)
From CPL Require Import Model.Base Model.Rules Model.Engine Model.Evolve1D Model.Evolve2D Proofs.EngineProofs.
From Coq Require Import Lia.

(* ---- all engines at once (any step function: plain, memoised, block) *)
Theorem C06_dynamic_spec :
  forall (X P C : Type) (dflt : C) (step : X -> C -> nat -> X * C) (pred : P -> list C -> nat -> P * bool)
         k fuel p0 x0 hist (ps : nat -> P) xk rows pk,
  hist <> [] ->
  iter_steps step k x0 (last hist dflt) 1 = (xk, rows) ->
  ps 0 = p0 ->
  (forall j, j < k -> pred (ps j) (last hist dflt :: firstn j rows) (S j) = (ps (S j), true)) ->
  pred (ps k) (last hist dflt :: rows) (S k) = (pk, false) ->
  k < fuel ->
  evolve_dynamic dflt step pred fuel p0 x0 hist
  = Some (pk, xk, removelast hist ++ last hist dflt :: rows,
          map (fun j => (last hist dflt :: firstn (j - 1) rows, j)) (seq 1 (S k)))
  /\ removelast hist ++ last hist dflt :: rows = hist ++ rows
  /\ evolve_fixed dflt step x0 hist (S k) = Ok (xk, hist ++ rows).
Proof. exact dynamic_spec. Qed.

(* every terminating call is of that form (so the hypothesis above describes all of them) *)
Theorem C06_dynamic_complete :
  forall (X P C : Type) (dflt : C) (step : X -> C -> nat -> X * C) (pred : P -> list C -> nat -> P * bool)
         fuel p0 x0 hist p' x' out plog,
  evolve_dynamic dflt step pred fuel p0 x0 hist = Some (p', x', out, plog) ->
  exists k (ps : nat -> P) rows,
    k < fuel /\ iter_steps step k x0 (last hist dflt) 1 = (x', rows) /\ ps 0 = p0 /\
    (forall j, j < k -> pred (ps j) (last hist dflt :: firstn j rows) (S j) = (ps (S j), true)) /\
    pred (ps k) (last hist dflt :: rows) (S k) = (p', false) /\
    out = removelast hist ++ last hist dflt :: rows /\
    plog = map (fun j => (last hist dflt :: firstn (j - 1) rows, j)) (seq 1 (S k)).
Proof. exact dynamic_complete. Qed.

(* ---- evolve(ca, timesteps=<callable>, rule, r, memoize=False) *)
Theorem C06_dynamic_spec_1d :
  forall (St P : Type) (rule : rule1 St) (store : Z -> Z) (pred : P -> list (list Z) -> nat -> P * bool) (r : nat)
         k fuel p0 s0 (hist : list (list Z)) (ps : nat -> P) sk rows pk,
  hist <> [] ->
  iter_steps (step_plain rule store r) k s0 (last hist []) 1 = (sk, rows) ->
  ps 0 = p0 ->
  (forall j, j < k -> pred (ps j) (last hist [] :: firstn j rows) (S j) = (ps (S j), true)) ->
  pred (ps k) (last hist [] :: rows) (S k) = (pk, false) ->
  k < fuel ->
  evolve_plain_dynamic rule store pred r fuel p0 s0 hist
  = Some (pk, sk, removelast hist ++ last hist [] :: rows,
          map (fun j => (last hist [] :: firstn (j - 1) rows, j)) (seq 1 (S k)))
  /\ removelast hist ++ last hist [] :: rows = hist ++ rows
  /\ evolve_plain rule store r s0 hist (S k) = Ok (sk, hist ++ rows).
Proof. intros St P rule store pred r. exact (dynamic_spec St P (list Z) [] (step_plain rule store r) pred). Qed.

(* ---- evolve2d(ca, timesteps=<callable>, rule, r, neighbourhood, memoize=False) *)
Theorem C06_dynamic_spec_2d :
  forall (St P : Type) (rule : rule2 St) (store : Z -> Z) (pred : P -> list grid -> nat -> P * bool)
         (r : nat) (ty : nbhd_type)
         k fuel p0 s0 (hist : list grid) (ps : nat -> P) sk rows pk,
  hist <> [] ->
  iter_steps (step_plain2d rule store r ty) k s0 (last hist []) 1 = (sk, rows) ->
  ps 0 = p0 ->
  (forall j, j < k -> pred (ps j) (last hist [] :: firstn j rows) (S j) = (ps (S j), true)) ->
  pred (ps k) (last hist [] :: rows) (S k) = (pk, false) ->
  k < fuel ->
  evolve2d_plain_dynamic rule store pred r ty fuel p0 s0 hist
  = Some (pk, sk, removelast hist ++ last hist [] :: rows,
          map (fun j => (last hist [] :: firstn (j - 1) rows, j)) (seq 1 (S k)))
  /\ removelast hist ++ last hist [] :: rows = hist ++ rows
  /\ evolve2d_plain rule store r ty s0 hist (S k) = Ok (sk, hist ++ rows).
Proof. intros St P rule store pred r ty. exact (dynamic_spec St P grid [] (step_plain2d rule store r ty) pred). Qed.

(* ---- the predicate declines at once: no rule call, the given history (any length >= 1) is returned *)
Theorem C06_dynamic_zero_steps :
  forall (X P C : Type) (dflt : C) (step : X -> C -> nat -> X * C) (pred : P -> list C -> nat -> P * bool)
         fuel p0 x0 hist p1,
  hist <> [] -> 1 <= fuel ->
  pred p0 [last hist dflt] 1 = (p1, false) ->
  evolve_dynamic dflt step pred fuel p0 x0 hist = Some (p1, x0, hist, [([last hist dflt], 1)]).
Proof. exact dynamic_zero_steps. Qed.

Theorem C06_dynamic_zero_steps_1d :
  forall (St P : Type) (rule : rule1 St) (store : Z -> Z) (pred : P -> list (list Z) -> nat -> P * bool) (r : nat)
         fuel p0 s0 (hist : list (list Z)) p1,
  hist <> [] -> 1 <= fuel ->
  pred p0 [last hist []] 1 = (p1, false) ->
  evolve_plain_dynamic rule store pred r fuel p0 s0 hist = Some (p1, s0, hist, [([last hist []], 1)]).
Proof. intros St P rule store pred r. exact (dynamic_zero_steps St P (list Z) [] (step_plain rule store r) pred). Qed.

Theorem C06_dynamic_zero_steps_2d :
  forall (St P : Type) (rule : rule2 St) (store : Z -> Z) (pred : P -> list grid -> nat -> P * bool)
         (r : nat) (ty : nbhd_type) fuel p0 s0 (hist : list grid) p1,
  hist <> [] -> 1 <= fuel ->
  pred p0 [last hist []] 1 = (p1, false) ->
  evolve2d_plain_dynamic rule store pred r ty fuel p0 s0 hist = Some (p1, s0, hist, [([last hist []], 1)]).
Proof. intros St P rule store pred r ty. exact (dynamic_zero_steps St P grid [] (step_plain2d rule store r ty) pred). Qed.

(* ---- until_fixed_point(): for any step and any decidable equality eqb that reflects =.
   Write traj = cur :: rows for the states of this call.  If traj repeats for the first time at step
   k >= 1 (traj[k] = traj[k-1], no earlier consecutive pair equal), the call performs exactly k steps:
   the last two rows of the result are equal and no earlier pair of consecutive states of this call is. *)
Theorem C06_until_fixed_point_halts :
  forall (X C : Type) (dflt : C) (step : X -> C -> nat -> X * C) (eqb : C -> C -> bool),
  (forall a b, eqb a b = true <-> a = b) ->
  forall k fuel x0 hist xk rows,
  hist <> [] -> 1 <= k ->
  iter_steps step k x0 (last hist dflt) 1 = (xk, rows) ->
  nth k (last hist dflt :: rows) dflt = nth (k - 1) (last hist dflt :: rows) dflt ->
  (forall j, 1 <= j < k -> nth j (last hist dflt :: rows) dflt <> nth (j - 1) (last hist dflt :: rows) dflt) ->
  k < fuel ->
  evolve_dynamic dflt step (until_fixed_point eqb) fuel tt x0 hist
  = Some (tt, xk, hist ++ rows,
          map (fun j => (last hist dflt :: firstn (j - 1) rows, j)) (seq 1 (S k))).
Proof. exact until_fixed_point_halts. Qed.

(* and whatever a terminating call with until_fixed_point returns has that shape: at least one step,
   last two states equal, no earlier consecutive pair equal.  (No repeat within the fuel: None.) *)
Theorem C06_until_fixed_point_sound :
  forall (X C : Type) (dflt : C) (step : X -> C -> nat -> X * C) (eqb : C -> C -> bool),
  (forall a b, eqb a b = true <-> a = b) ->
  forall fuel x0 hist p x out plog,
  hist <> [] ->
  evolve_dynamic dflt step (until_fixed_point eqb) fuel tt x0 hist = Some (p, x, out, plog) ->
  exists k rows, 1 <= k < fuel /\ iter_steps step k x0 (last hist dflt) 1 = (x, rows) /\
    out = hist ++ rows /\
    nth k (last hist dflt :: rows) dflt = nth (k - 1) (last hist dflt :: rows) dflt /\
    (forall j, 1 <= j < k -> nth j (last hist dflt :: rows) dflt <> nth (j - 1) (last hist dflt :: rows) dflt).
Proof. exact until_fixed_point_sound. Qed.

(* the readings for evolve and evolve2d with the array comparison (ca[-2] == ca[-1]).all() *)
Theorem C06_until_fixed_point_1d :
  forall (St : Type) (rule : rule1 St) (store : Z -> Z) (r : nat) fuel s0 (hist : list (list Z)) p s out plog,
  hist <> [] ->
  evolve_plain_dynamic rule store (until_fixed_point zlist_eqb) r fuel tt s0 hist = Some (p, s, out, plog) ->
  exists k rows, 1 <= k < fuel /\ iter_steps (step_plain rule store r) k s0 (last hist []) 1 = (s, rows) /\
    out = hist ++ rows /\
    nth k (last hist [] :: rows) [] = nth (k - 1) (last hist [] :: rows) [] /\
    (forall j, 1 <= j < k -> nth j (last hist [] :: rows) [] <> nth (j - 1) (last hist [] :: rows) []).
Proof.
  intros St rule store r.
  exact (until_fixed_point_sound St (list Z) [] (step_plain rule store r) zlist_eqb zlist_eqb_spec).
Qed.

Theorem C06_until_fixed_point_2d :
  forall (St : Type) (rule : rule2 St) (store : Z -> Z) (r : nat) (ty : nbhd_type) fuel s0 (hist : list grid) p s out plog,
  hist <> [] ->
  evolve2d_plain_dynamic rule store (until_fixed_point zgrid_eqb) r ty fuel tt s0 hist = Some (p, s, out, plog) ->
  exists k rows, 1 <= k < fuel /\ iter_steps (step_plain2d rule store r ty) k s0 (last hist []) 1 = (s, rows) /\
    out = hist ++ rows /\
    nth k (last hist [] :: rows) [] = nth (k - 1) (last hist [] :: rows) [] /\
    (forall j, 1 <= j < k -> nth j (last hist [] :: rows) [] <> nth (j - 1) (last hist [] :: rows) []).
Proof.
  intros St rule store r ty.
  exact (until_fixed_point_sound St grid [] (step_plain2d rule store r ty) zgrid_eqb zgrid_eqb_spec).
Qed.

(* ---- non-vacuity *)
Local Open Scope Z_scope.

(* "t < 3" on rule 150 (sum mod 2), a 2-row history: the hypotheses of C06_dynamic_spec_1d hold with
   k = 2, and the call returns the history plus two rows; the log shows 1, 2, 3 states of this call *)
Example C06_nonvacuous_dynamic :
  let rule := lin1 [1; 1; 1] 2 in
  let hist := [[1; 1; 1; 1; 1]; [0; 0; 1; 0; 0]] in
  let rows := [[0; 1; 1; 1; 0]; [1; 0; 1; 0; 1]] in
  iter_steps (step_plain rule store_id 1) 2 tt (last hist []) 1 = (tt, rows) /\
  (forall j, (j < 2)%nat -> pred_lt 3 tt (last hist [] :: firstn j rows) (S j) = (tt, true)) /\
  pred_lt 3 tt (last hist [] :: rows) 3 = (tt, false) /\
  evolve_plain_dynamic rule store_id (pred_lt 3) 1 64 tt tt hist
  = Some (tt, tt, hist ++ rows,
          [([[0; 0; 1; 0; 0]], 1%nat);
           ([[0; 0; 1; 0; 0]; [0; 1; 1; 1; 0]], 2%nat);
           ([[0; 0; 1; 0; 0]; [0; 1; 1; 1; 0]; [1; 0; 1; 0; 1]], 3%nat)]).
Proof.
  cbv zeta. split; [vm_compute; reflexivity|]. split.
  - intros j Hj. destruct j as [|[|j]]; [reflexivity|reflexivity|lia].
  - split; vm_compute; reflexivity.
Qed.

(* a scripted predicate that declines at once on a 2-row history: the history itself comes back *)
Example C06_nonvacuous_zero_steps :
  evolve_plain_dynamic (lin1 [1; 1; 1] 2) store_id (pred_script [false; true]) 1 64 0%nat tt [[1; 0; 0]; [0; 1; 0]]
  = Some (1%nat, tt, [[1; 0; 0]; [0; 1; 0]], [([[0; 1; 0]], 1%nat)]).
Proof. vm_compute; reflexivity. Qed.

(* until_fixed_point on a 2D automaton whose rule maps every neighbourhood to 0: the first new grid
   differs from the start, the second repeats it, and the evolution stops there *)
Example C06_nonvacuous_until_fixed_point :
  let g := [[1; 0; 0]; [0; 1; 0]; [0; 0; 0]] in
  let z := [[0; 0; 0]; [0; 0; 0]; [0; 0; 0]] in
  evolve2d_plain_dynamic (lin2 [0; 0; 0; 0; 0; 0; 0; 0; 0] 2) store_id (until_fixed_point zgrid_eqb) 1 Moore 64 tt tt [g]
  = Some (tt, tt, [g; z; z], [([g], 1%nat); ([g; z], 2%nat); ([g; z; z], 3%nat)]) /\
  g <> z.
Proof. cbv zeta. split; [vm_compute; reflexivity|discriminate]. Qed.

(* 1D: shift-and-add settles after three steps; no earlier consecutive pair is equal *)
Example C06_nonvacuous_until_fixed_point_1d :
  evolve_plain_dynamic (lin1 [1; 1; 0] 2) store_id (until_fixed_point zlist_eqb) 1 64 tt tt [[1; 0; 0; 0]]
  = Some (tt, tt, [[1; 0; 0; 0]; [1; 1; 0; 0]; [1; 0; 1; 0]; [1; 1; 1; 1]; [0; 0; 0; 0]; [0; 0; 0; 0]],
          [([[1; 0; 0; 0]], 1%nat);
           ([[1; 0; 0; 0]; [1; 1; 0; 0]], 2%nat);
           ([[1; 0; 0; 0]; [1; 1; 0; 0]; [1; 0; 1; 0]], 3%nat);
           ([[1; 0; 0; 0]; [1; 1; 0; 0]; [1; 0; 1; 0]; [1; 1; 1; 1]], 4%nat);
           ([[1; 0; 0; 0]; [1; 1; 0; 0]; [1; 0; 1; 0]; [1; 1; 1; 1]; [0; 0; 0; 0]], 5%nat);
           ([[1; 0; 0; 0]; [1; 1; 0; 0]; [1; 0; 1; 0]; [1; 1; 1; 1]; [0; 0; 0; 0]; [0; 0; 0; 0]], 6%nat)]).
Proof. vm_compute; reflexivity. Qed.

Print Assumptions C06_dynamic_spec.
Print Assumptions C06_dynamic_complete.
Print Assumptions C06_dynamic_spec_1d.
Print Assumptions C06_dynamic_spec_2d.
Print Assumptions C06_dynamic_zero_steps.
Print Assumptions C06_dynamic_zero_steps_1d.
Print Assumptions C06_dynamic_zero_steps_2d.
Print Assumptions C06_until_fixed_point_halts.
Print Assumptions C06_until_fixed_point_sound.
Print Assumptions C06_until_fixed_point_1d.
Print Assumptions C06_until_fixed_point_2d.

(* ================================================================== every memoize mode (pure rules)
   Via the callable-timesteps transparency theorems of C03 / C04 and the plain-engine theorems above.
   1D: `memo` is the value of the memoize option, `dispatch memo = Some m` says it selects a mode;
   `dyn_arr_of` projects (final predicate state, returned array, predicate argument log) of a
   callable-timesteps call and `arr_of` the array of a fixed-count call.  2D: `m` is the mode,
   `dyn_arr2_of` projects (returned array, predicate argument log); memoize=True additionally needs f
   not to read masked cells.  In each theorem the fixed-count run is the run of the SAME mode. *)
From CPL Require Import Model.Memo1D Model.Memo2D Proofs.C0506MemoProofs.
Local Close Scope Z_scope.

(* yes k times, then no: the call returns what the fixed-count call with timesteps = k+1 returns *)
Theorem C06_all_modes_dynamic_spec_1d :
  forall (f : list Z -> Z) (store : Z -> Z) (r : nat) (P : Type) (pred : P -> list (list Z) -> nat -> P * bool)
         (memo : PyVal) (m : mode) k fuel p0 (hist : list (list Z)) (ps : nat -> P) rows pk,
  dispatch memo = Some m -> 1 <= r <= length (last hist []) ->
  arr_of (evolve1d_fixed (pure1 f) store memo r tt hist (S k)) = Ok (hist ++ rows) ->
  ps 0 = p0 ->
  (forall j, j < k -> pred (ps j) (last hist [] :: firstn j rows) (S j) = (ps (S j), true)) ->
  pred (ps k) (last hist [] :: rows) (S k) = (pk, false) ->
  k < fuel ->
  dyn_arr_of (evolve1d_dynamic (pure1 f) store pred memo r fuel p0 tt hist)
  = Some (Ok (pk, hist ++ rows, map (fun j => (last hist [] :: firstn (j - 1) rows, j)) (seq 1 (S k)))).
Proof. intros f store r P pred memo m. exact (memo1d_dynamic_spec f store r P pred memo m). Qed.

Theorem C06_all_modes_zero_steps_1d :
  forall (f : list Z -> Z) (store : Z -> Z) (r : nat) (P : Type) (pred : P -> list (list Z) -> nat -> P * bool)
         (memo : PyVal) (m : mode) fuel p0 (hist : list (list Z)) p1,
  dispatch memo = Some m -> 1 <= r <= length (last hist []) -> 1 <= fuel ->
  pred p0 [last hist []] 1 = (p1, false) ->
  dyn_arr_of (evolve1d_dynamic (pure1 f) store pred memo r fuel p0 tt hist) = Some (Ok (p1, hist, [([last hist []], 1)])).
Proof. intros f store r P pred memo m. exact (memo1d_zero_steps f store r P pred memo m). Qed.

(* until_fixed_point: if the fixed-count run of k+1 rows (same mode) repeats for the first time at its
   last step, the callable run performs exactly those k steps ... *)
Theorem C06_all_modes_until_fixed_point_halts_1d :
  forall (f : list Z -> Z) (store : Z -> Z) (r : nat) (memo : PyVal) (m : mode) k fuel (hist : list (list Z)) rows,
  dispatch memo = Some m -> 1 <= r <= length (last hist []) -> 1 <= k ->
  arr_of (evolve1d_fixed (pure1 f) store memo r tt hist (S k)) = Ok (hist ++ rows) ->
  nth k (last hist [] :: rows) [] = nth (k - 1) (last hist [] :: rows) [] ->
  (forall j, 1 <= j < k -> nth j (last hist [] :: rows) [] <> nth (j - 1) (last hist [] :: rows) []) ->
  k < fuel ->
  dyn_arr_of (evolve1d_dynamic (pure1 f) store (until_fixed_point zlist_eqb) memo r fuel tt tt hist)
  = Some (Ok (tt, hist ++ rows, map (fun j => (last hist [] :: firstn (j - 1) rows, j)) (seq 1 (S k)))).
Proof. intros f store r memo m. exact (memo1d_until_fixed_point_halts f store r memo m). Qed.

(* ... and whatever it returns: k >= 1 new rows, the array of the fixed-count run of k+1 rows, last two
   states equal, no earlier consecutive pair of states of this call equal *)
Theorem C06_all_modes_until_fixed_point_sound_1d :
  forall (f : list Z -> Z) (store : Z -> Z) (r : nat) (memo : PyVal) (m : mode) fuel (hist : list (list Z)) p out plog,
  dispatch memo = Some m -> 1 <= r <= length (last hist []) ->
  dyn_arr_of (evolve1d_dynamic (pure1 f) store (until_fixed_point zlist_eqb) memo r fuel tt tt hist) = Some (Ok (p, out, plog)) ->
  exists k rows, 1 <= k < fuel /\ out = hist ++ rows /\ length rows = k /\
    arr_of (evolve1d_fixed (pure1 f) store memo r tt hist (S k)) = Ok out /\
    nth k (last hist [] :: rows) [] = nth (k - 1) (last hist [] :: rows) [] /\
    (forall j, 1 <= j < k -> nth j (last hist [] :: rows) [] <> nth (j - 1) (last hist [] :: rows) []).
Proof. intros f store r memo m. exact (memo1d_until_fixed_point_sound f store r memo m). Qed.

Theorem C06_all_modes_dynamic_spec_2d :
  forall (f : nbhd2 -> Z) (store : Z -> Z) (r : nat) (ty : nbhd_type) (R C : nat),
  1 <= R -> 1 <= C -> r <= Nat.min R C ->
  forall (P : Type) (pred : P -> list grid -> nat -> P * bool) (m : mode) k fuel p0 (hist : list grid)
         (ps : nat -> P) rows pk,
  (m = Memo -> forall n n', nb_mask n = nb_mask n' -> unmasked n = unmasked n' -> f n = f n') ->
  length (last hist []) = R /\ Forall (fun row => length row = C) (last hist []) ->
  arr2_of (evolve2d_mode_fixed (pure_rule2 f) store m r ty tt hist (S k)) = Ok (hist ++ rows) ->
  ps 0 = p0 ->
  (forall j, j < k -> pred (ps j) (last hist [] :: firstn j rows) (S j) = (ps (S j), true)) ->
  pred (ps k) (last hist [] :: rows) (S k) = (pk, false) ->
  k < fuel ->
  dyn_arr2_of (evolve2d_mode_dynamic (pure_rule2 f) store pred m r ty fuel p0 tt hist)
  = Some (hist ++ rows, map (fun j => (last hist [] :: firstn (j - 1) rows, j)) (seq 1 (S k))).
Proof. exact memo2d_dynamic_spec. Qed.

Theorem C06_all_modes_zero_steps_2d :
  forall (f : nbhd2 -> Z) (store : Z -> Z) (r : nat) (ty : nbhd_type) (R C : nat),
  1 <= R -> 1 <= C -> r <= Nat.min R C ->
  forall (P : Type) (pred : P -> list grid -> nat -> P * bool) (m : mode) fuel p0 (hist : list grid) p1,
  (m = Memo -> forall n n', nb_mask n = nb_mask n' -> unmasked n = unmasked n' -> f n = f n') ->
  length (last hist []) = R /\ Forall (fun row => length row = C) (last hist []) -> 1 <= fuel ->
  pred p0 [last hist []] 1 = (p1, false) ->
  dyn_arr2_of (evolve2d_mode_dynamic (pure_rule2 f) store pred m r ty fuel p0 tt hist) = Some (hist, [([last hist []], 1)]).
Proof. exact memo2d_zero_steps. Qed.

Theorem C06_all_modes_until_fixed_point_halts_2d :
  forall (f : nbhd2 -> Z) (store : Z -> Z) (r : nat) (ty : nbhd_type) (R C : nat),
  1 <= R -> 1 <= C -> r <= Nat.min R C ->
  forall (m : mode) k fuel (hist : list grid) rows,
  (m = Memo -> forall n n', nb_mask n = nb_mask n' -> unmasked n = unmasked n' -> f n = f n') ->
  length (last hist []) = R /\ Forall (fun row => length row = C) (last hist []) -> 1 <= k ->
  arr2_of (evolve2d_mode_fixed (pure_rule2 f) store m r ty tt hist (S k)) = Ok (hist ++ rows) ->
  nth k (last hist [] :: rows) [] = nth (k - 1) (last hist [] :: rows) [] ->
  (forall j, 1 <= j < k -> nth j (last hist [] :: rows) [] <> nth (j - 1) (last hist [] :: rows) []) ->
  k < fuel ->
  dyn_arr2_of (evolve2d_mode_dynamic (pure_rule2 f) store (until_fixed_point zgrid_eqb) m r ty fuel tt tt hist)
  = Some (hist ++ rows, map (fun j => (last hist [] :: firstn (j - 1) rows, j)) (seq 1 (S k))).
Proof. exact memo2d_until_fixed_point_halts. Qed.

Theorem C06_all_modes_until_fixed_point_sound_2d :
  forall (f : nbhd2 -> Z) (store : Z -> Z) (r : nat) (ty : nbhd_type) (R C : nat),
  1 <= R -> 1 <= C -> r <= Nat.min R C ->
  forall (m : mode) fuel (hist : list grid) out plog,
  (m = Memo -> forall n n', nb_mask n = nb_mask n' -> unmasked n = unmasked n' -> f n = f n') ->
  length (last hist []) = R /\ Forall (fun row => length row = C) (last hist []) ->
  dyn_arr2_of (evolve2d_mode_dynamic (pure_rule2 f) store (until_fixed_point zgrid_eqb) m r ty fuel tt tt hist) = Some (out, plog) ->
  exists k rows, 1 <= k < fuel /\ out = hist ++ rows /\ length rows = k /\
    arr2_of (evolve2d_mode_fixed (pure_rule2 f) store m r ty tt hist (S k)) = Ok out /\
    nth k (last hist [] :: rows) [] = nth (k - 1) (last hist [] :: rows) [] /\
    (forall j, 1 <= j < k -> nth j (last hist [] :: rows) [] <> nth (j - 1) (last hist [] :: rows) []).
Proof. exact memo2d_until_fixed_point_sound. Qed.

(* non-vacuity: the recursive 1D engine and the memoize=True 2D engine under until_fixed_point really
   stop after three resp. two steps on non-constant trajectories *)
Example C06_nonvacuous_all_modes :
  let f := fun n : list Z => (lin_dot [1; 1; 0] n mod 2)%Z in
  dyn_arr_of (evolve1d_dynamic (pure1 f) store_id (until_fixed_point zlist_eqb) (PStr StrLit.recursive_lit) 1 64 tt tt
                [[1; 0; 0; 0]]%Z)
  = Some (Ok (tt, [[1; 0; 0; 0]; [1; 1; 0; 0]; [1; 0; 1; 0]; [1; 1; 1; 1]; [0; 0; 0; 0]; [0; 0; 0; 0]]%Z,
              map (fun j => ([1; 0; 0; 0]%Z :: firstn (j - 1) [[1; 1; 0; 0]; [1; 0; 1; 0]; [1; 1; 1; 1]; [0; 0; 0; 0]; [0; 0; 0; 0]]%Z, j))
                  (seq 1 6))) /\
  let g := [[1; 0; 0]; [0; 1; 0]; [0; 0; 0]]%Z in
  let z := [[0; 0; 0]; [0; 0; 0]; [0; 0; 0]]%Z in
  dyn_arr2_of (evolve2d_mode_dynamic (pure_rule2 (fun _ => 0%Z)) store_id (until_fixed_point zgrid_eqb) Memo 1 VonNeumann 64 tt tt [g])
  = Some ([g; z; z], [([g], 1); ([g; z], 2); ([g; z; z], 3)]).
Proof. cbv zeta. split; vm_compute; reflexivity. Qed.

Print Assumptions C06_all_modes_dynamic_spec_1d.
Print Assumptions C06_all_modes_zero_steps_1d.
Print Assumptions C06_all_modes_until_fixed_point_halts_1d.
Print Assumptions C06_all_modes_until_fixed_point_sound_1d.
Print Assumptions C06_all_modes_dynamic_spec_2d.
Print Assumptions C06_all_modes_zero_steps_2d.
Print Assumptions C06_all_modes_until_fixed_point_halts_2d.
Print Assumptions C06_all_modes_until_fixed_point_sound_2d.

(* ================================================================== memo modes, ANY rule state machine (after review)
   `evolve_mode_dynamic` is the generic loop over the memoised step (Memo: step_memo, Recursive:
   step_recursive, Plain: the logging plain step), so for every rule - stateful, reading c and t -
   every mode m and every radius: a predicate that says yes k times and then no makes the callable
   run return exactly what the fixed-count run OF THE SAME MODE with timesteps = k+1 returns (array,
   final rule state and rule-call log), with the argument log [(first j states, j) | j = 1..k+1]. *)
Theorem C06_memo_modes_any_rule_1d :
  forall (St : Type) (rule : rule1 St) (store : Z -> Z) (P : Type) (pred : P -> list (list Z) -> nat -> P * bool)
         (m : mode) r k fuel p0 s0 (hist : list (list Z)) (ps : nat -> P) s' lg rows pk,
  hist <> [] ->
  evolve_mode_fixed rule store m r s0 hist (S k) = Ok (s', lg, hist ++ rows) ->
  ps 0 = p0 ->
  (forall j, j < k -> pred (ps j) (last hist [] :: firstn j rows) (S j) = (ps (S j), true)) ->
  pred (ps k) (last hist [] :: rows) (S k) = (pk, false) ->
  k < fuel ->
  evolve_mode_dynamic rule store pred m r fuel p0 s0 hist
  = Some (pk, (s', lg, hist ++ rows), map (fun j => (last hist [] :: firstn (j - 1) rows, j)) (seq 1 (S k))).
Proof. exact memo_modes_any_rule_1d. Qed.
Print Assumptions C06_memo_modes_any_rule_1d.
From CPL Require Import gen.GenFuns_C06 GenProps.C06Src. (* source tie: gen/GenFuns_C06.v is regenerated from ca_functions.py on every run *)
Theorem C06_source_tie : forall (C : Type) (eqb : C -> C -> bool) (states : list C) (t : nat), src_until_fixed_point_timesteps eqb states = Ok (snd (until_fixed_point eqb tt states t)). Proof. exact C06_source_translation_agrees. Qed. Print Assumptions C06_source_tie.
