(* C15 — CTRBL rule tables and the built-in loops are rotation-closed and total.
   Property theorems only. Table-independent lemmas: Proofs/CTRBLProofs.v. Theorems about the rule tables of
   LangtonsLoop / SDSRLoop / Evoloop: GenProps/C15Tables.v, proved against gen/GenTables.v, which is re-exported
   from the cellpylib working tree on every run (so they are statements about the tables the code has NOW). *)
From Coq Require Import ZArith.
From CPL Require Import Model.Base Model.CTRBL Model.Loops Model.SayamaSpec Proofs.CTRBLProofs.
From CPL Require Import gen.GenTables GenProps.C15Tables Proofs.CTRBLClauses.
Local Open Scope Z_scope.

(* k is k' or one of its three quarter-turns; rot (C,T,R,B,L) = (C,L,T,R,B) is r.insert(1, r.pop(4)) *)
Local Notation turn k k' := (k = k' \/ k = rot k' \/ k = rot (rot k') \/ k = rot (rot (rot k'))).

Theorem C15_rot_is_quarter_turn : forall c t r b l, rot (c, t, r, b, l) = (c, l, t, r, b).
Proof. exact rot_spec. Qed.

(* CTRBLRule.__call__ answers with the table entry of (centre, top, right, bottom, left) of the 3x3 block
   and raises ValueError (nothing else) exactly when there is none *)
Theorem C15_ctrbl_lookup : forall tbl a0 a1 a2 b0 b1 b2 c0 c1 c2,
  let n := [[a0; a1; a2]; [b0; b1; b2]; [c0; c1; c2]] in
  let k := (b1, a1, b2, c1, b0) in
  CTRBLRule_call tbl n = ctrbl_call tbl k /\
  (forall v, ctrbl_call tbl k = Ok v <-> dict_get k tbl = Some v) /\
  (ctrbl_call tbl k = Raise ValueError <-> dict_get k tbl = None) /\
  (forall e, ctrbl_call tbl k = Raise e -> e = ValueError) /\
  (forall v, ctrbl_call tbl k = Ok v -> In (k, v) tbl) /\
  (ctrbl_call tbl k = Raise ValueError <-> forall v, ~ In (k, v) tbl).
Proof. intros. split; [reflexivity | apply ctrbl_lookup]. Qed.

(* add_rotations=True, ALL user tables (any number of entries, any integer states, conflicting images
   allowed): the constructed table answers alike (value or ValueError) on a key and its three turns *)
Theorem C15_rotations_closed : forall rt c t r b l,
  let T := init_rule_table rt true in
  ctrbl_call T (c, l, t, r, b) = ctrbl_call T (c, t, r, b, l) /\
  ctrbl_call T (c, b, l, t, r) = ctrbl_call T (c, t, r, b, l) /\
  ctrbl_call T (c, r, b, l, t) = ctrbl_call T (c, t, r, b, l).
Proof. exact rotations_closed_four. Qed.

(* which image wins when the input lists several entries inside one rotation class: the LAST listed one,
   for the whole class *)
Theorem C15_rotations_last_wins : forall rt1 k' v rt2 k,
  turn k k' ->
  (forall k'' v'', In (k'', v'') rt2 -> ~ turn k k'') ->
  ctrbl_call (init_rule_table (rt1 ++ (k', v) :: rt2) true) k = Ok v.
Proof. exact rotations_last_wins_prop. Qed.

(* under the property's hypothesis (one image per rotation class) every turn of a listed key answers with
   the listed image ... *)
Theorem C15_rotations_image : forall rt,
  (forall k1 v1 k2 v2, In (k1, v1) rt -> In (k2, v2) rt -> turn k1 k2 -> v1 = v2) ->
  forall k' v k, In (k', v) rt -> turn k k' ->
  ctrbl_call (init_rule_table rt true) k = Ok v.
Proof. exact rotations_image_prop. Qed.

(* ... and ValueError is raised exactly on the keys none of whose turns is listed *)
Theorem C15_rotations_absent : forall rt k,
  ctrbl_call (init_rule_table rt true) k = Raise ValueError <->
  (forall k' v, In (k', v) rt -> ~ turn k k').
Proof. exact rotations_absent_prop. Qed.

(* add_rotations=False: the table is the input dict (same entries, same order) *)
Theorem C15_no_rotations_identity : forall rt, NoDup (map fst rt) -> init_rule_table rt false = rt.
Proof. exact init_no_rotations_identity. Qed.

(* ---------------------------------------------------------------- built-in loops, regenerated tables *)

(* the public rule_table of each loop is what the modelled constructor builds from the dict literal in the
   source (closure under the declared add_rotations; SDSR: then the hand-written assignments, in order) *)
Theorem C15_builtin_tables_are_closures : forall k,
  dict_get k (loop_new langton_literal langton_add_rotations) = dict_get k langton_table /\
  dict_get k (sdsr_new sdsr_base_literal sdsr_base_add_rotations sdsr_extra) = dict_get k sdsr_table /\
  dict_get k (loop_new evoloop_literal evoloop_add_rotations) = dict_get k evoloop_table.
Proof.
  intros k. split; [apply langton_table_is_closure | split; [apply sdsr_table_is_closure | apply evoloop_table_is_closure]].
Qed.

(* LangtonsLoop, all 8^5 combinations: same answer or same ValueError on all four turns *)
Theorem C15_langton_orientation_free : forall c t r b l,
  0 <= c < 8 -> 0 <= t < 8 -> 0 <= r < 8 -> 0 <= b < 8 -> 0 <= l < 8 ->
  ctrbl_call langton_table (c, l, t, r, b) = ctrbl_call langton_table (c, t, r, b, l) /\
  ctrbl_call langton_table (c, b, l, t, r) = ctrbl_call langton_table (c, t, r, b, l) /\
  ctrbl_call langton_table (c, r, b, l, t) = ctrbl_call langton_table (c, t, r, b, l).
Proof. exact langton_orientation_free. Qed.

(* SDSRLoop / Evoloop, all 9^5 combinations: never None, result in 0..8 *)
Theorem C15_sdsr_total_range : forall c t r b l,
  0 <= c < 9 -> 0 <= t < 9 -> 0 <= r < 9 -> 0 <= b < 9 -> 0 <= l < 9 ->
  exists v, sdsr_call sdsr_table (c, t, r, b, l) = Some v /\ 0 <= v <= 8.
Proof. exact sdsr_total_range. Qed.

Theorem C15_evoloop_total_range : forall c t r b l,
  0 <= c < 9 -> 0 <= t < 9 -> 0 <= r < 9 -> 0 <= b < 9 -> 0 <= l < 9 ->
  exists v, evoloop_call evoloop_table (c, t, r, b, l) = Some v /\ 0 <= v <= 8.
Proof. exact evoloop_total_range. Qed.

(* all 9^5 x 4: the answer does not depend on the orientation *)
Theorem C15_sdsr_orientation_free : forall c t r b l,
  0 <= c < 9 -> 0 <= t < 9 -> 0 <= r < 9 -> 0 <= b < 9 -> 0 <= l < 9 ->
  sdsr_call sdsr_table (c, l, t, r, b) = sdsr_call sdsr_table (c, t, r, b, l) /\
  sdsr_call sdsr_table (c, b, l, t, r) = sdsr_call sdsr_table (c, t, r, b, l) /\
  sdsr_call sdsr_table (c, r, b, l, t) = sdsr_call sdsr_table (c, t, r, b, l).
Proof. exact sdsr_orientation_free. Qed.

Theorem C15_evoloop_orientation_free : forall c t r b l,
  0 <= c < 9 -> 0 <= t < 9 -> 0 <= r < 9 -> 0 <= b < 9 -> 0 <= l < 9 ->
  evoloop_call evoloop_table (c, l, t, r, b) = evoloop_call evoloop_table (c, t, r, b, l) /\
  evoloop_call evoloop_table (c, b, l, t, r) = evoloop_call evoloop_table (c, t, r, b, l) /\
  evoloop_call evoloop_table (c, r, b, l, t) = evoloop_call evoloop_table (c, t, r, b, l).
Proof. exact evoloop_orientation_free. Qed.

(* "over all states": for every integer key (also outside 0..8, where SDSR/Evoloop may return None) the
   three loops answer alike on a key and its quarter-turn, hence on all four turns *)
Theorem C15_loops_orientation_free_all_states : forall k,
  ctrbl_call langton_table (rot k) = ctrbl_call langton_table k /\
  sdsr_call sdsr_table (rot k) = sdsr_call sdsr_table k /\
  evoloop_call evoloop_table (rot k) = evoloop_call evoloop_table k.
Proof.
  intros k. split; [apply langton_orientation_free_all_states |
    split; [apply sdsr_orientation_free_all_states | apply evoloop_orientation_free_all_states]].
Qed.

(* outside the tables, all 9^5 combinations: the answer is Sayama's default rule (Model/SayamaSpec.v, priorities
   P1 8->0; P2 next to an 8; P3 SDSR tube rules; P4 0->0, 1..7->8) *)
Theorem C15_sdsr_defaults : forall c t r b l,
  0 <= c < 9 -> 0 <= t < 9 -> 0 <= r < 9 -> 0 <= b < 9 -> 0 <= l < 9 ->
  dict_get (c, t, r, b, l) sdsr_table = None ->
  sdsr_call sdsr_table (c, t, r, b, l) = Some (sayama_default SDSR c t r b l).
Proof. exact sdsr_defaults. Qed.

Theorem C15_evoloop_defaults : forall c t r b l,
  0 <= c < 9 -> 0 <= t < 9 -> 0 <= r < 9 -> 0 <= b < 9 -> 0 <= l < 9 ->
  dict_get (c, t, r, b, l) evoloop_table = None ->
  evoloop_call evoloop_table (c, t, r, b, l) = Some (sayama_default EVOLOOP c t r b l).
Proof. exact evoloop_defaults. Qed.

(* ---------------------------------------------------------------- the clauses of the property's parenthesis,
   one named theorem each: "(8 always becomes 0; undefined 0 stays 0; undefined 1-7 become 8; the 8-neighbour and
   tube rules)". "undefined" = outside the regenerated table, no 8 among T,R,B,L and (SDSR) no tube rule applies.
   next_to / in_tube / tube_rule / member are the readable definitions of Model/SayamaSpec.v. *)

(* "8 ALWAYS becomes 0": all 9^4 neighbour combinations, through the table or the default; no hypothesis on the
   table (an entry with centre 8 and another image would break it) *)
Theorem C15_eight_always_zero : forall t r b l,
  0 <= t < 9 -> 0 <= r < 9 -> 0 <= b < 9 -> 0 <= l < 9 ->
  sdsr_call sdsr_table (8, t, r, b, l) = Some 0 /\ evoloop_call evoloop_table (8, t, r, b, l) = Some 0.
Proof. exact eight_always_zero. Qed.

(* "undefined 0 stays 0" (SDSR: unless the tube rule 0->1 applies) *)
Theorem C15_undefined_zero_stays_zero : forall t r b l,
  0 <= t < 9 -> 0 <= r < 9 -> 0 <= b < 9 -> 0 <= l < 9 ->
  next_to 8 [t; r; b; l] = false ->
  (dict_get (0, t, r, b, l) sdsr_table = None -> in_tube [t; r; b; l] && next_to 1 [t; r; b; l] = false ->
   sdsr_call sdsr_table (0, t, r, b, l) = Some 0) /\
  (dict_get (0, t, r, b, l) evoloop_table = None -> evoloop_call evoloop_table (0, t, r, b, l) = Some 0).
Proof. exact undefined_zero_stays_zero. Qed.

(* "undefined 1-7 become 8" *)
Theorem C15_undefined_1_7_become_eight : forall c t r b l,
  1 <= c <= 7 -> 0 <= t < 9 -> 0 <= r < 9 -> 0 <= b < 9 -> 0 <= l < 9 ->
  next_to 8 [t; r; b; l] = false ->
  (dict_get (c, t, r, b, l) sdsr_table = None -> tube_rule c [t; r; b; l] = None ->
   sdsr_call sdsr_table (c, t, r, b, l) = Some 8) /\
  (dict_get (c, t, r, b, l) evoloop_table = None -> evoloop_call evoloop_table (c, t, r, b, l) = Some 8).
Proof. exact undefined_1_7_become_eight. Qed.

(* "the 8-neighbour rules": next to an 8, 0/1 -> 8 if some 2..7 is adjacent else unchanged; 2,3,5 -> 0; 4,6,7 -> 1 *)
Theorem C15_eight_neighbour_rules : forall c t r b l,
  0 <= c < 8 -> 0 <= t < 9 -> 0 <= r < 9 -> 0 <= b < 9 -> 0 <= l < 9 ->
  next_to 8 [t; r; b; l] = true ->
  let image := if member c [0; 1]
               then (if existsb (fun s => next_to s [t; r; b; l]) [2; 3; 4; 5; 6; 7] then 8 else c)
               else if member c [2; 3; 5] then 0 else 1 in
  (dict_get (c, t, r, b, l) sdsr_table = None -> sdsr_call sdsr_table (c, t, r, b, l) = Some image) /\
  (dict_get (c, t, r, b, l) evoloop_table = None -> evoloop_call evoloop_table (c, t, r, b, l) = Some image).
Proof. exact eight_neighbour_rules. Qed.

(* "the tube rules" (SDSR; tube_rule in Model/SayamaSpec.v lists them) *)
Theorem C15_sdsr_tube_rules : forall c t r b l image,
  0 <= c < 8 -> 0 <= t < 9 -> 0 <= r < 9 -> 0 <= b < 9 -> 0 <= l < 9 ->
  next_to 8 [t; r; b; l] = false -> dict_get (c, t, r, b, l) sdsr_table = None ->
  tube_rule c [t; r; b; l] = Some image ->
  sdsr_call sdsr_table (c, t, r, b, l) = Some image.
Proof. exact sdsr_tube_rules. Qed.

(* the same totality at the level of the 3x3 block handed to __call__ (corners arbitrary) *)
Theorem C15_loops_total_range_block : forall a0 a2 c0 c2 c t r b l,
  0 <= c < 9 -> 0 <= t < 9 -> 0 <= r < 9 -> 0 <= b < 9 -> 0 <= l < 9 ->
  let n := [[a0; t; a2]; [l; c; r]; [c0; b; c2]] in
  (exists v, SDSRLoop_call sdsr_table n = Some v /\ 0 <= v <= 8) /\
  (exists v, Evoloop_call evoloop_table n = Some v /\ 0 <= v <= 8).
Proof. intros. split; [apply sdsr_total_range | apply evoloop_total_range]; assumption. Qed.

(* the hypotheses of the clause theorems are met: every clause has keys in 0..8^5 outside the regenerated table
   (clause_inhabited, Proofs/CTRBLClauses.v: found by a sweep, so an edited table does not break the Example unless
   a clause really becomes empty) *)
Example C15_nonvacuous_clauses :
  clause_inhabited sdsr_table (fun k => let '(c, t, r, b, l) := k in
     (c =? 0) && negb (next_to 8 [t; r; b; l]) && negb (in_tube [t; r; b; l] && next_to 1 [t; r; b; l])) = true /\
  clause_inhabited sdsr_table (fun k => let '(c, t, r, b, l) := k in
     (1 <=? c) && (c <=? 7) && negb (next_to 8 [t; r; b; l])
     && match tube_rule c [t; r; b; l] with None => true | Some _ => false end) = true /\
  clause_inhabited evoloop_table (fun k => let '(c, t, r, b, l) := k in
     (1 <=? c) && (c <=? 7) && negb (next_to 8 [t; r; b; l])) = true /\
  clause_inhabited sdsr_table (fun k => let '(c, t, r, b, l) := k in (c <? 8) && next_to 8 [t; r; b; l]) = true /\
  clause_inhabited evoloop_table (fun k => let '(c, t, r, b, l) := k in (c <? 8) && next_to 8 [t; r; b; l]) = true /\
  clause_inhabited sdsr_table (fun k => let '(c, t, r, b, l) := k in
     (c <? 8) && negb (next_to 8 [t; r; b; l])
     && match tube_rule c [t; r; b; l] with Some v => negb (v =? (if c =? 0 then 0 else 8)) | None => false end) = true /\
  tube_rule 1 [7; 1; 0; 0] = Some 7 /\ tube_rule 3 [1; 1; 0; 0] = None /\ next_to 8 [0; 8; 0; 0] = true.
Proof.
  split; [vm_compute; reflexivity|]. split; [vm_compute; reflexivity|]. split; [vm_compute; reflexivity|].
  split; [vm_compute; reflexivity|]. split; [vm_compute; reflexivity|]. split; [vm_compute; reflexivity|].
  split; [vm_compute; reflexivity|]. split; vm_compute; reflexivity.
Qed.

(* ---------------------------------------------------------------- non-vacuity *)

(* a user table with a conflict inside one rotation class ((0,1,0,0,0) and its turn (0,0,1,0,0)) and a second
   class with one image: the last listed image (7) wins for the whole first class; the second class answers 4 on
   every turn; an unlisted class raises ValueError; without rotations only the listed keys answer *)
Example C15_nonvacuous_user_table :
  let rt := [((0, 1, 0, 0, 0), 5); ((2, 1, 2, 3, 4), 4); ((0, 0, 1, 0, 0), 7)] in
  NoDup (map fst rt) /\
  ctrbl_call (init_rule_table rt true) (0, 1, 0, 0, 0) = Ok 7 /\
  ctrbl_call (init_rule_table rt true) (0, 0, 0, 0, 1) = Ok 7 /\
  ctrbl_call (init_rule_table rt true) (2, 4, 1, 2, 3) = Ok 4 /\
  ctrbl_call (init_rule_table rt true) (2, 3, 4, 1, 2) = Ok 4 /\
  ctrbl_call (init_rule_table rt true) (2, 1, 2, 4, 3) = Raise ValueError /\
  length (init_rule_table rt true) = 8%nat /\
  ctrbl_call (init_rule_table rt false) (0, 1, 0, 0, 0) = Ok 5 /\
  ctrbl_call (init_rule_table rt false) (0, 0, 0, 0, 1) = Raise ValueError.
Proof.
  cbv zeta. split.
  - repeat constructor; cbn; intuition discriminate.
  - repeat split; vm_compute; reflexivity.
Qed.

(* the hypothesis of C15_rotations_image is satisfiable by a table with two listed members of one class *)
Example C15_nonvacuous_one_image :
  let rt := [((1, 2, 3, 4, 5), 6); ((1, 5, 2, 3, 4), 6); ((0, 0, 0, 0, 0), 1)] in
  (forall k1 v1 k2 v2, In (k1, v1) rt -> In (k2, v2) rt -> turn k1 k2 -> v1 = v2) /\
  ctrbl_call (init_rule_table rt true) (1, 4, 5, 2, 3) = Ok 6.
Proof.
  cbv zeta. split; [|vm_compute; reflexivity].
  intros k1 v1 k2 v2 H1 H2 Ht. cbn [In] in H1, H2.
  destruct H1 as [H1|[H1|[H1|[]]]]; destruct H2 as [H2|[H2|[H2|[]]]];
    inversion H1; inversion H2; subst; try reflexivity;
    exfalso; cbv in Ht; intuition discriminate.
Qed.

(* the regenerated tables list some but not all of the 9^5 combinations (so the finite theorems exercise both the
   table branch and the default branch; stated without naming entries, so that an edited table does not break it);
   the default branches, which do not depend on the tables, reach every rule of the specification inside 0..8:
   tube 0->1, 1->7, 4->0, 2->1 (SDSR only: Evoloop answers 0 / 8 there); next to an 8: 1->8, 1->1, 5->0, 4->1; 8->0;
   clear-up 0->0, 3->8; and outside 0..8 the answer is None, so the bound in the totality theorems is needed *)
Example C15_nonvacuous_loops :
  ((0 <? Z.of_nat (length langton_table)) && (Z.of_nat (length langton_table) <? 8 ^ 5) = true) /\
  ((0 <? Z.of_nat (length sdsr_table)) && (Z.of_nat (length sdsr_table) <? 9 ^ 5) = true) /\
  ((0 <? Z.of_nat (length evoloop_table)) && (Z.of_nat (length evoloop_table) <? 9 ^ 5) = true) /\
  sdsr_default 0 1 1 0 0 = Some 1 /\ evoloop_default 0 1 1 0 0 = Some 0 /\
  sdsr_default 1 7 1 0 0 = Some 7 /\ evoloop_default 1 7 1 0 0 = Some 8 /\
  sdsr_default 4 0 1 1 3 = Some 0 /\ sdsr_default 2 3 0 0 0 = Some 1 /\
  sdsr_default 1 8 3 0 0 = Some 8 /\ evoloop_default 1 8 1 0 0 = Some 1 /\
  sdsr_default 5 8 0 0 0 = Some 0 /\ evoloop_default 4 8 0 0 0 = Some 1 /\
  sdsr_default 8 8 8 8 8 = Some 0 /\ evoloop_default 0 3 3 3 3 = Some 0 /\ evoloop_default 3 3 3 3 3 = Some 8 /\
  sdsr_default 9 0 0 0 0 = None /\ evoloop_default (-1) 0 0 0 0 = None.
Proof. repeat split; vm_compute; reflexivity. Qed.

Print Assumptions C15_rot_is_quarter_turn.
Print Assumptions C15_ctrbl_lookup.
Print Assumptions C15_rotations_closed.
Print Assumptions C15_rotations_last_wins.
Print Assumptions C15_rotations_image.
Print Assumptions C15_rotations_absent.
Print Assumptions C15_no_rotations_identity.
Print Assumptions C15_builtin_tables_are_closures.
Print Assumptions C15_langton_orientation_free.
Print Assumptions C15_sdsr_total_range.
Print Assumptions C15_evoloop_total_range.
Print Assumptions C15_sdsr_orientation_free.
Print Assumptions C15_evoloop_orientation_free.
Print Assumptions C15_loops_orientation_free_all_states.
Print Assumptions C15_sdsr_defaults.
Print Assumptions C15_evoloop_defaults.
Print Assumptions C15_eight_always_zero.
Print Assumptions C15_undefined_zero_stays_zero.
Print Assumptions C15_undefined_1_7_become_eight.
Print Assumptions C15_eight_neighbour_rules.
Print Assumptions C15_sdsr_tube_rules.
Print Assumptions C15_loops_total_range_block.
From CPL Require Import gen.GenFuns_C15 GenProps.GenFunsEquivC15 GenProps.C15Src. (* source tie: gen/GenFuns_C15.v is regenerated from sdsr_loop.py, evoloop.py, ctrbl_rule.py on every run *)
Theorem C15_source_tie : (forall top right bottom left : Z, src_sdsr_is_in_tube top right bottom left = is_in_tube top right bottom left) /\ (forall c t r b l : Z, src_sdsr_default c t r b l = sdsr_default c t r b l) /\ (forall c t r b l : Z, src_evoloop_default c t r b l = evoloop_default c t r b l) /\ (forall (tbl : table) (n : list (list Z)), src_sdsr_call (lookup tbl) n = SDSRLoop_call tbl n) /\ (forall (tbl : table) (n : list (list Z)), src_evoloop_call (lookup tbl) n = Evoloop_call tbl n) /\ (forall (tbl : table) (n : list (list Z)), src_ctrbl_call (lookup tbl) n = CTRBLRule_call tbl n). Proof. exact C15_source_translation_agrees. Qed. Print Assumptions C15_source_tie.
