(* C02 — 2D evolution (memoize=False) is the synchronous update of a torus, Moore / von Neumann.
   Property theorems only: each is closed by `exact` of a lemma proved in Proofs/Evolve2DProofs.v.
   Vocabulary (Proofs/Evolve2DProofs.v):
     wf_grid R C g   := length g = R /\ Forall (fun row => length row = C) g
     mask_of ty r    := no_mask r (Moore) | manhattan_mask r (von Neumann)
     cells R C       := the row-major list [(0,0); (0,1); ...; (R-1,C-1)]
     run_cells       := one rule call per cell of a list, in order, on the torus neighbourhood
                        {| torus_block g row col r; mask_of ty r |} of the PREVIOUS grid, with (row, col)
                        and t, threading the rule state and storing the results
     unflatten R C vs:= the grid whose entry (row, col) is vs[row * C + col]
     spec_step       := run_cells over cells R C, then unflatten
     call_of g r ty t (row, col) := ({| torus_block g row col r; mask_of ty r |}, (row, col), t) *)
From CPL Require Import Model.Base Model.Rules Model.Engine Model.Evolve2D Model.Evolve2DChecked
     Proofs.Evolve2DProofs.
Local Open Scope nat_scope.

(* the von Neumann mask built by lines 361-366 is the Manhattan diamond, for every radius *)
Theorem C02_vn_mask_spec : forall r,
  vn_mask r = manhattan_mask r /\
  length (vn_mask r) = 2 * r + 1 /\ Forall (fun row => length row = 2 * r + 1) (vn_mask r).
Proof. intros r. split; [apply vn_mask_spec | apply vn_mask_shape]. Qed.

(* entry (i, j) is masked iff |i - r| + |j - r| > r *)
Theorem C02_vn_mask_entry : forall r i j, i <= 2 * r -> j <= 2 * r ->
  (nth j (nth i (vn_mask r) []) false = true
   <-> (Z.abs (Z.of_nat i - Z.of_nat r) + Z.abs (Z.of_nat j - Z.of_nat r) > Z.of_nat r)%Z).
Proof. exact vn_mask_entry. Qed.

(* the k-th entry of a per-cell index list, resolved the way NumPy resolves it (negative = from the end),
   is (x - r + k) mod n; it is always an index NumPy accepts *)
Theorem C02_axis_index_spec : forall (A : Type) (d : A) (l : list A) n x r k,
  length l = n -> x < n -> k <= 2 * r -> r <= n ->
  get_axis d l (nth k (axis_indices n x r) 0%Z) = nth ((x + k + n - r) mod n) l d
  /\ axis_in_range n (nth k (axis_indices n x r) 0%Z) = true
  /\ Z.of_nat ((x + k + n - r) mod n) = ((Z.of_nat x - Z.of_nat r + Z.of_nat k) mod Z.of_nat n)%Z.
Proof. exact axis_index_spec. Qed.

(* _get_neighbourhood returns the torus block, with the mask of the neighbourhood type *)
Theorem C02_get_neighbourhood_spec : forall g R C r row col ty,
  wf_grid R C g -> 1 <= R -> 1 <= C -> r <= Nat.min R C -> row < R -> col < C ->
  nb_vals (get_neighbourhood g R C r row col ty) = torus_block g row col r /\
  nb_mask (get_neighbourhood g R C r row col ty) = mask_of ty r.
Proof. exact get_neighbourhood_spec. Qed.

(* entry (a, b) of the torus block is the state at offset (a - r, b - r), both axes wrapping *)
Theorem C02_torus_block_entry : forall g R C row col r a b,
  wf_grid R C g -> 1 <= R -> a <= 2 * r -> b <= 2 * r ->
  nth b (nth a (torus_block g row col r) []) 0%Z
  = nth ((col + b + C - r) mod C) (nth ((row + a + R - r) mod R) g []) 0%Z.
Proof. exact torus_block_entry. Qed.

(* one step of the double loop = the specification fold over the row-major list of cells, for every
   rule (stateful or not), every store, every rule state *)
Theorem C02_step_plain2d_spec : forall (St : Type) (rule : rule2 St) (store : Z -> Z) g R C r ty t s,
  wf_grid R C g -> 1 <= R -> 1 <= C -> r <= Nat.min R C ->
  step_plain2d rule store r ty s g t =
  (let '(s', vs) := run_cells rule store s g r ty (cells R C) t in (s', unflatten R C vs)).
Proof. exact step_plain2d_spec. Qed.

(* the result of a step is again an R x C grid, and entry (row, col) is result number row * C + col *)
Theorem C02_step_plain2d_wf : forall (St : Type) (rule : rule2 St) (store : Z -> Z) g R C r ty t s,
  wf_grid R C g -> 1 <= R -> 1 <= C -> r <= Nat.min R C ->
  wf_grid R C (snd (step_plain2d rule store r ty s g t)).
Proof. exact step_plain2d_wf. Qed.

Theorem C02_unflatten_entry : forall R C vs row col, row < R -> col < C ->
  nth col (nth row (unflatten R C vs) []) 0%Z = nth (row * C + col) vs 0%Z.
Proof. exact unflatten_entry. Qed.

(* row-major, each cell exactly once: the k-th cell is (k / C, k mod C) *)
Theorem C02_cells_row_major : forall R C,
  length (cells R C) = R * C /\ NoDup (cells R C) /\
  (forall row col, In (row, col) (cells R C) <-> row < R /\ col < C) /\
  (forall k, k < R * C -> nth k (cells R C) (0, 0) = (k / C, k mod C)).
Proof.
  intros R C. split; [apply cells_length|]. split; [apply cells_NoDup|]. split.
  - intros row col. apply cells_In.
  - intros k. apply cells_nth.
Qed.

(* the call log of a step: exactly [(torus block + mask, (row, col), t)] over the row-major cells,
   appended to the log so far; states and values are those of the bare rule *)
Theorem C02_step_plain2d_log : forall (St : Type) (rule : rule2 St) (store : Z -> Z) g R C r ty t s lg,
  wf_grid R C g -> 1 <= R -> 1 <= C -> r <= Nat.min R C ->
  step_plain2d (logged2 rule) store r ty (s, lg) g t =
  (let '(s', g') := step_plain2d rule store r ty s g t in
   ((s', lg ++ map (call_of g r ty t) (cells R C)), g')).
Proof. exact step_plain2d_log. Qed.

(* pure rules (the corollary other properties import): the new grid, cell by cell *)
Theorem C02_step_plain2d_pure : forall (f : nbhd2 -> Z) (store : Z -> Z) g R C r ty t,
  wf_grid R C g -> 1 <= R -> 1 <= C -> r <= Nat.min R C ->
  snd (step_plain2d (fun u n c t => (u, f n)) store r ty tt g t) =
  map (fun row => map (fun col =>
         store (f {| nb_vals := torus_block g row col r; nb_mask := mask_of ty r |}))
       (seq 0 C)) (seq 0 R).
Proof. exact step_plain2d_pure. Qed.

Theorem C02_step_plain2d_pure_ct : forall (f : nbhd2 -> nat * nat -> nat -> Z) (store : Z -> Z) g R C r ty t (u : unit),
  wf_grid R C g -> 1 <= R -> 1 <= C -> r <= Nat.min R C ->
  snd (step_plain2d (fun u n c t => (u, f n c t)) store r ty u g t) =
  map (fun row => map (fun col =>
         store (f {| nb_vals := torus_block g row col r; nb_mask := mask_of ty r |} (row, col) t))
       (seq 0 C)) (seq 0 R).
Proof. exact step_plain2d_pure_ct. Qed.

(* evolve2d with T >= 1 timesteps: the given history followed by the T-1 grids obtained by iterating
   the specification step for t = 1 .. T-1 from the last grid of the history *)
Theorem C02_evolve2d_plain_spec : forall (St : Type) (rule : rule2 St) (store : Z -> Z) R C r ty s0 hist T,
  1 <= R -> 1 <= C -> r <= Nat.min R C -> wf_grid R C (last hist []) -> 1 <= T ->
  evolve2d_plain rule store r ty s0 hist T =
  (let '(s', grids) := iter_steps (spec_step rule store R C r ty) (T - 1) s0 (last hist []) 1 in
   Ok (s', hist ++ grids)).
Proof. exact evolve2d_plain_spec. Qed.

(* shape and exact call log of evolve2d: T-1 new R x C grids; the rule is consulted for t = 1 .. T-1 ascending,
   within a step over the row-major cells (k-th = (k / C, k mod C), C02_cells_row_major), each once, on the torus
   block, with the mask of the type, of the grid of step t-1 (grid 0 = the last grid of the given history) *)
Theorem C02_evolve2d_call_log : forall (St : Type) (rule : rule2 St) (store : Z -> Z) R C r ty s0 lg (hist : list grid) T,
  1 <= R -> 1 <= C -> r <= Nat.min R C -> wf_grid R C (last hist []) -> 1 <= T ->
  exists s' grids,
    evolve2d_plain rule store r ty s0 hist T = Ok (s', hist ++ grids) /\
    length grids = T - 1 /\ Forall (wf_grid R C) grids /\
    evolve2d_plain (logged2 rule) store r ty (s0, lg) hist T =
      Ok ((s', lg ++ flat_map (fun t => map (call_of (nth (t - 1) (last hist [] :: grids) []) r ty t) (cells R C))
                              (seq 1 (T - 1))), hist ++ grids).
Proof. exact evolve2d_plain_logged. Qed.

(* stateless rules that may read n, (row, col), t: every appended grid is the synchronous torus update of the
   grid before it, in closed form (no reference to the model's loop) *)
Theorem C02_evolve2d_pure_ct : forall (f : nbhd2 -> nat * nat -> nat -> Z) (store : Z -> Z) R C r ty (hist : list grid) T,
  1 <= R -> 1 <= C -> r <= Nat.min R C -> wf_grid R C (last hist []) -> 1 <= T ->
  exists grids,
    evolve2d_plain (fun u n c t => (u, f n c t)) store r ty tt hist T = Ok (tt, hist ++ grids) /\
    length grids = T - 1 /\ Forall (wf_grid R C) grids /\
    forall t, 1 <= t < T ->
      nth (t - 1) grids [] =
        map (fun row => map (fun col =>
               store (f {| nb_vals := torus_block (nth (t - 1) (last hist [] :: grids) []) row col r;
                           nb_mask := mask_of ty r |} (row, col) t))
             (seq 0 C)) (seq 0 R).
Proof. exact evolve2d_plain_pure_ct. Qed.

(* ... T-1 grids, each R x C *)
Theorem C02_evolve2d_grids_shape : forall (St : Type) (rule : rule2 St) (store : Z -> Z) R C r ty s cur t n,
  length (snd (iter_steps (spec_step rule store R C r ty) n s cur t)) = n /\
  Forall (wf_grid R C) (snd (iter_steps (spec_step rule store R C r ty) n s cur t)).
Proof. intros. split; [apply iter_steps_length | apply iter_spec_wf]. Qed.

(* the same double loop under a stopping predicate (callable `timesteps`) *)
Theorem C02_evolve2d_plain_dynamic_spec : forall (St P : Type) (rule : rule2 St) (store : Z -> Z)
    (pred : P -> list grid -> nat -> P * bool) R C r ty fuel p0 s0 hist,
  1 <= R -> 1 <= C -> r <= Nat.min R C -> wf_grid R C (last hist []) ->
  evolve2d_plain_dynamic rule store pred r ty fuel p0 s0 hist =
  evolve_dynamic [] (spec_step rule store R C r ty) pred fuel p0 s0 hist.
Proof. exact evolve2d_plain_dynamic_spec. Qed.

(* the guard: the index lists stay inside what NumPy accepts exactly for 0 <= r <= min(R, C);
   inside it the checked model is the plain one, outside it a step raises IndexError *)
Theorem C02_radius_guard : forall R C r, 1 <= R -> 1 <= C ->
  (nbhd_in_range R C r = true <-> r <= Nat.min R C).
Proof. exact nbhd_in_range_iff. Qed.

Theorem C02_checked_accepts : forall (St : Type) (rule : rule2 St) store R C r ty s0 (hist : list grid) T,
  1 <= R -> 1 <= C -> wf_grid R C (last hist []) -> r <= Nat.min R C ->
  evolve2d_checked rule store r ty s0 hist T = evolve2d_plain rule store r ty s0 hist T.
Proof. exact evolve2d_checked_accepts. Qed.

Theorem C02_checked_rejects : forall (St : Type) (rule : rule2 St) store R C r ty s0 (hist : list grid) T,
  1 <= R -> 1 <= C -> wf_grid R C (last hist []) -> Nat.min R C < r -> 2 <= T ->
  evolve2d_checked rule store r ty s0 hist T = Raise IndexError.
Proof. exact evolve2d_checked_rejects. Qed.

(* ---- non-vacuity: concrete instances meeting the hypotheses, evaluated *)
Local Open Scope Z_scope.

(* 2x3 grid with r = 2 = min(R, C): the window is wider than both axes *)
Example C02_nonvacuous_2x3_r2 :
  let g := [[1;2;3];[4;5;6]] in
  (2 <=? Nat.min 2 3)%nat = true /\ length g = 2%nat /\ forallb (fun row => Nat.eqb (length row) 3) g = true /\
  nb_vals (get_neighbourhood g 2 3 2 0 0 Moore)
    = [[2;3;1;2;3];[5;6;4;5;6];[2;3;1;2;3];[5;6;4;5;6];[2;3;1;2;3]] /\
  torus_block g 0 0 2 = [[2;3;1;2;3];[5;6;4;5;6];[2;3;1;2;3];[5;6;4;5;6];[2;3;1;2;3]] /\
  step_plain2d (logged2 (script2 [10;20;30;40;50;60])) store_id 2 Moore (0%nat, []) g 1
  = ((6%nat, map (call_of g 2 Moore 1) [(0,0);(0,1);(0,2);(1,0);(1,1);(1,2)]%nat), [[10;20;30];[40;50;60]]) /\
  evolve2d_plain (linct2 [1;1;1;1;1;1;1;1;1;1;1;1;1;1;1;1;1;1;1;1;1;1;1;1;1] 7) store_id 2 VonNeumann tt [g] 3
  = Ok (tt, [g; [[6;0;1];[5;6;0]]; [[3;4;5];[5;6;0]]]).
Proof. vm_compute. repeat split. Qed.

(* 1x1 grid with r = 1: every entry of the 3x3 block is the single cell *)
Example C02_nonvacuous_1x1_r1 :
  (1 <=? Nat.min 1 1)%nat = true /\
  get_neighbourhood [[7]] 1 1 1 0 0 VonNeumann
  = {| nb_vals := [[7;7;7];[7;7;7];[7;7;7]];
       nb_mask := [[true;false;true];[false;false;false];[true;false;true]] |} /\
  evolve2d_plain (lin2 [1;2;3;4;5] 100) store_id 1 VonNeumann tt [[[7]]] 3 = Ok (tt, [[[7]]; [[5]]; [[75]]]) /\
  evolve2d_plain (lin2 [1] 100) store_id 0 Moore tt [[[7]]] 2 = Ok (tt, [[[7]]; [[7]]]).
Proof. vm_compute. repeat split. Qed.

(* 4x4, von Neumann r = 2: the diamond mask, a wrapped block, and a masked sum *)
Example C02_nonvacuous_4x4_vn_r2 :
  let g := [[1;2;3;4];[5;6;7;8];[9;10;11;12];[13;14;15;16]] in
  (2 <=? Nat.min 4 4)%nat = true /\
  vn_mask 2 = [[true;true;false;true;true];[true;false;false;false;true];[false;false;false;false;false];
               [true;false;false;false;true];[true;true;false;true;true]] /\
  nb_vals (get_neighbourhood g 4 4 2 3 0 VonNeumann)
  = [[7;8;5;6;7];[11;12;9;10;11];[15;16;13;14;15];[3;4;1;2;3];[7;8;5;6;7]] /\
  unmasked (get_neighbourhood g 4 4 2 3 0 VonNeumann) = [5; 12;9;10; 15;16;13;14;15; 4;1;2; 5] /\
  snd (step_plain2d (fun u n c t => (u, zsum (unmasked n))) store_id 2 VonNeumann tt g 1)
  = [[93;94;99;100];[97;98;103;104];[117;118;123;124];[121;122;127;128]] /\
  evolve2d_checked (script2 []) store_id 5 Moore 0%nat [g] 2 = Raise IndexError.
Proof. vm_compute. repeat split. Qed.

Print Assumptions C02_vn_mask_spec.
Print Assumptions C02_vn_mask_entry.
Print Assumptions C02_axis_index_spec.
Print Assumptions C02_get_neighbourhood_spec.
Print Assumptions C02_torus_block_entry.
Print Assumptions C02_step_plain2d_spec.
Print Assumptions C02_step_plain2d_wf.
Print Assumptions C02_unflatten_entry.
Print Assumptions C02_cells_row_major.
Print Assumptions C02_step_plain2d_log.
Print Assumptions C02_step_plain2d_pure.
Print Assumptions C02_step_plain2d_pure_ct.
Print Assumptions C02_evolve2d_plain_spec.
Print Assumptions C02_evolve2d_call_log.
Print Assumptions C02_evolve2d_pure_ct.
Print Assumptions C02_evolve2d_grids_shape.
Print Assumptions C02_evolve2d_plain_dynamic_spec.
Print Assumptions C02_radius_guard.
Print Assumptions C02_checked_accepts.
Print Assumptions C02_checked_rejects.
From CPL Require Import gen.GenFuns_C02 GenProps.GenFunsEquivC02 GenProps.C02Src. (* source tie: gen/GenFuns_C02.v is regenerated from ca_functions2d.py on every run *)
Theorem C02_source_tie : (forall r : nat, src_vn_mask (Z.of_nat r) = Ok (vn_mask r)) /\ (forall R C x y r : nat, src_axis_indices (Z.of_nat x) (Z.of_nat y) (Z.of_nat r) (Z.of_nat R) (Z.of_nat C) = (axis_indices R x r, axis_indices C y r)). Proof. exact C02_source_translation_agrees. Qed. Print Assumptions C02_source_tie.
