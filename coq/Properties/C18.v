(* C18 — BiEntropy family matches Croll's definitions and stays in [0, 1].
   Property theorems only: each is closed by `exact` of a lemma proved in Proofs/BienExactProofs.v
   (discrete layer: closed under the global context) or Proofs/BienProofs.v (real layer: the axioms
   of the standard library's real numbers).  Binary strings are `list bool`; `shannon` is
   shannon_entropy on a binary string, `complement` = map negb, `rotate k s` = s[k:] + s[:k],
   `rot1` = rotate left by one. *)
From Coq Require Import Reals.
From Interval Require Import Xreal Interval.
From Flocq Require Import Core.
From CPL Require Import Model.Base Model.BienExact Model.Bien Proofs.EntropyBounds
  Proofs.BienExactProofs Proofs.BienProofs Model.BienLong Proofs.BienLongProofs Corr.C18 Proofs.BienCorrProofs.

(* ---------------------------------------------------------------- exact layer: the derivatives *)

(* the loops of the code (with the early break) compute the closed forms *)
Theorem C18_derivative_loops_closed_form : forall s,
  binary_derivative s = xor_adjacent s /\ cyclic_binary_derivative s = xor_adjacent_cyclic s.
Proof. intros s; split; [apply binary_derivative_spec|apply cyclic_binary_derivative_spec]. Qed.

Theorem C18_binary_derivative_length : forall s, length (binary_derivative s) = (length s - 1)%nat.
Proof. exact binary_derivative_length. Qed.

Theorem C18_binary_derivative_elements : forall s i, (i + 1 < length s)%nat ->
  nth i (binary_derivative s) false = xorb (nth i s false) (nth (i + 1) s false).
Proof. exact binary_derivative_nth. Qed.

Theorem C18_cyclic_derivative_length : forall s, length (cyclic_binary_derivative s) = length s.
Proof. exact cyclic_binary_derivative_length. Qed.

(* digit i is xored with its successor, the last digit with the first *)
Theorem C18_cyclic_derivative_elements : forall s i, (i < length s)%nat ->
  nth i (cyclic_binary_derivative s) false = xorb (nth i s false) (nth ((i + 1) mod length s) s false).
Proof. exact cyclic_binary_derivative_nth. Qed.

Theorem C18_derivatives_of_short_strings :
  binary_derivative [] = [] /\ cyclic_binary_derivative [] = [] /\
  forall a, binary_derivative [a] = [] /\ cyclic_binary_derivative [a] = [false].
Proof. exact derivatives_short. Qed.

Theorem C18_derivative_complement : forall s,
  binary_derivative (complement s) = binary_derivative s /\
  cyclic_binary_derivative (complement s) = cyclic_binary_derivative s.
Proof. intros s; split; [apply binary_derivative_complement|apply cyclic_binary_derivative_complement]. Qed.

Theorem C18_derivative_reverse : forall s, binary_derivative (rev s) = rev (binary_derivative s).
Proof. exact binary_derivative_rev. Qed.

Theorem C18_cyclic_derivative_rotation : forall k s,
  cyclic_binary_derivative (rotate k s) = rotate k (cyclic_binary_derivative s).
Proof. exact cyclic_binary_derivative_rotate. Qed.

(* the exact law for reversal: the cyclic derivative of the reverse is the reverse of the cyclic
   derivative rotated left by one position *)
Theorem C18_cyclic_derivative_reverse : forall s,
  cyclic_binary_derivative (rev s) = rot1 (rev (cyclic_binary_derivative s)).
Proof. exact cyclic_binary_derivative_rev. Qed.

(* ---------------------------------------------------------------- real layer *)
Local Open Scope R_scope.

(* shannon_entropy of a binary string depends only on its two counts (c ones among n digits),
   whatever duplicate-free order the symbols are enumerated in *)
Theorem C18_shannon_binary : forall s,
  shannon s = H2R (count_true s) (length s) /\
  (forall keys, symbols_of bool s keys -> H bool Bool.bool_dec s keys = shannon s) /\
  0 <= shannon s <= 1.
Proof.
  intros s. split; [apply shannon_H2R|]. split; [intros keys; apply shannon_keys_irrelevant|apply shannon_range].
Qed.

(* Croll's definitions, read off the accumulation loops: weights 2^k, log2 (k+2), and log2 (k+2) on
   cyclic derivatives; k = 0 .. n-2; the k-th term is the entropy of the k-th derivative *)
Theorem C18_bien_is_weighted_mean : forall s,
  bien s = 1 / (2 ^ (length s - 1) - 1)
           * Rsum (fun k => shannon (iter_d binary_derivative k s) * 2 ^ k) (seq 0 (length s - 1)).
Proof. exact bien_formula. Qed.

Theorem C18_tbien_is_weighted_mean : forall s,
  tbien s = 1 / Rsum (fun k => log2 (INR (k + 2))) (seq 0 (length s - 1))
            * Rsum (fun k => shannon (iter_d binary_derivative k s) * log2 (INR (k + 2))) (seq 0 (length s - 1)).
Proof. exact tbien_formula. Qed.

Theorem C18_ktbien_is_weighted_mean : forall s,
  ktbien s = 1 / Rsum (fun k => log2 (INR (k + 2))) (seq 0 (length s - 1))
             * Rsum (fun k => shannon (iter_d cyclic_binary_derivative k s) * log2 (INR (k + 2))) (seq 0 (length s - 1)).
Proof. exact ktbien_formula. Qed.

(* the divisor 2^(n-1) - 1 of bien is the sum of its weights (geometric sum), so bien is a mean *)
Theorem C18_bien_normaliser_is_weight_sum : forall m : nat,
  Rsum (fun k => 2 ^ k) (seq 0 m) = 2 ^ m - 1.
Proof. exact geometric_sum. Qed.

(* values in [0, 1], for every binary string of length >= 2 (the code divides by zero below that) *)
Theorem C18_bien_range : forall s : list bool, (2 <= length s)%nat -> 0 <= bien s <= 1.
Proof. exact bien_range. Qed.
Theorem C18_tbien_range : forall s : list bool, (2 <= length s)%nat -> 0 <= tbien s <= 1.
Proof. exact tbien_range. Qed.
Theorem C18_ktbien_range : forall s : list bool, (2 <= length s)%nat -> 0 <= ktbien s <= 1.
Proof. exact ktbien_range. Qed.

(* unchanged by complementing or reversing the string; ktbien also by rotating it *)
Theorem C18_bien_symmetry : forall s : list bool, (2 <= length s)%nat ->
  bien (complement s) = bien s /\ bien (rev s) = bien s.
Proof. intros s _. split; [apply bien_complement|apply bien_rev]. Qed.
Theorem C18_tbien_symmetry : forall s : list bool, (2 <= length s)%nat ->
  tbien (complement s) = tbien s /\ tbien (rev s) = tbien s.
Proof. intros s _. split; [apply tbien_complement|apply tbien_rev]. Qed.
Theorem C18_ktbien_symmetry : forall s : list bool, (2 <= length s)%nat ->
  ktbien (complement s) = ktbien s /\ ktbien (rev s) = ktbien s /\ forall k, ktbien (rotate k s) = ktbien s.
Proof.
  intros s _. split; [apply ktbien_complement|]. split; [apply ktbien_rev|]. intros k; apply ktbien_rotate.
Qed.

(* the executable interval twins enclose the real values, and the comparison used by the
   correspondence check is sound: an accepted double m * 2^e is within 2^-30 of the real value *)
Theorem C18_enclosures : forall s : list bool, (2 <= length s)%nat ->
  contains (I.convert (bienI s)) (Xreal (bien s)) /\
  contains (I.convert (tbienI s)) (Xreal (tbien s)) /\
  contains (I.convert (ktbienI s)) (Xreal (ktbien s)).
Proof. intros s Hn. split; [apply bienI_ok|split; [apply tbienI_ok|apply ktbienI_ok]]; exact Hn. Qed.

(* the twin used for strings longer than 301 digits (a logarithm table built for the string, any precision) *)
Theorem C18_enclosures_long : forall pr (s : list bool), (2 <= length s)%nat ->
  contains (I.convert (bienIL pr s)) (Xreal (bien s)) /\
  contains (I.convert (tbienIL pr s)) (Xreal (tbien s)) /\
  contains (I.convert (ktbienIL pr s)) (Xreal (ktbien s)).
Proof. intros pr s Hn. split; [apply bienIL_ok|split; [apply tbienIL_ok|apply ktbienIL_ok]]; exact Hn. Qed.

Theorem C18_within_sound : forall enc m e x, contains (I.convert enc) (Xreal x) -> within enc m e = true ->
  Rabs (x - IZR m * bpow radix2 e) <= / 2 ^ 30.
Proof. exact within_ok. Qed.

(* what a passing case of the correspondence check (Corr.C18.check_case itself) means:
   value case: the guard holds and the returned double m * 2^e is within 2^-30 of the model's real value
   (value FBien = bien, FTbien = tbien, FKtbien = ktbien); an exception never passes;
   derivative case: the returned digit strings are exactly the outputs of the model's loops *)
Theorem C18_check_case_sound :
  (forall f s m e, check_case (CValue f s (Ok (m, e))) = true ->
     (2 <= length s)%nat /\
     Rabs (match f with FBien => bien s | FTbien => tbien s | FKtbien => ktbien s end - IZR m * bpow radix2 e) <= / 2 ^ 30) /\
  (forall f s x, check_case (CValue f s (Raise x)) = false) /\
  (forall s op oc, check_case (CDeriv s op oc) = true ->
     op = Ok (digits (binary_derivative s)) /\ oc = Ok (digits (cyclic_binary_derivative s))).
Proof.
  split; [exact check_case_value_sound|]. split; [exact check_case_value_raise|exact check_case_deriv_sound].
Qed.

(* ---------------------------------------------------------------- non-vacuity *)
(* the docstring examples of bien.py: '01010101' -> '1111111' and '11111111'; a rotation; a reversal *)
Example C18_nonvacuous_exact :
  let s := [false; true; false; true; false; true; false; true] in
  let u := [true; true; false; true; false; false] in
  binary_derivative s = [true; true; true; true; true; true; true] /\
  cyclic_binary_derivative s = [true; true; true; true; true; true; true; true] /\
  binary_derivative u = [false; true; true; true; false] /\
  cyclic_binary_derivative u = [false; true; true; true; false; true] /\
  cyclic_binary_derivative (rotate 2 u) = [true; true; false; true; false; true] /\
  cyclic_binary_derivative (rev u) = [false; true; true; true; false; true] /\
  (2 <= length u)%nat.
Proof. vm_compute. repeat (split; [reflexivity|]). apply le_S, le_S, le_S, le_S, le_n. Qed.

(* both ends of the range are attained: constant strings give 0, '01' gives 1 *)
Example C18_nonvacuous_range :
  bien [false; true] = 1 /\ (forall a m, bien (repeat a (S (S m))) = 0) /\ (2 <= length [false; true])%nat.
Proof. split; [exact bien_01_one|]. split; [exact bien_constant_zero|apply le_n]. Qed.

(* the twin computes and discriminates: bien('01') = 1.0 = 1 * 2^0 is accepted, 0.5 is not; the doubles returned by
   /repo for tbien('0110') = 0x1.123342bb50fe7p-1 (0.5355...) and ktbien('0101') = 0x1.bead76898f8cep-3 (0.2181...)
   pass the whole check_case, the neighbouring value 0.387... reported for a broken ktbien does not *)
Example C18_nonvacuous_enclosure :
  within (bienI [false; true]) 1 0 = true /\
  within (bienI [false; true]) 1 (-1) = false /\
  check_case (CValue FTbien [false; true; true; false] (Ok (4823781582639079, -53)%Z)) = true /\
  check_case (CValue FKtbien [false; true; false; true] (Ok (7858035264911566, -55)%Z)) = true /\
  check_case (CValue FKtbien [false; true; false; true] (Ok (6968920634034848, -54)%Z)) = false.
Proof. vm_compute. repeat split; reflexivity. Qed.

Print Assumptions C18_derivative_loops_closed_form.
Print Assumptions C18_binary_derivative_length.
Print Assumptions C18_binary_derivative_elements.
Print Assumptions C18_cyclic_derivative_length.
Print Assumptions C18_cyclic_derivative_elements.
Print Assumptions C18_derivatives_of_short_strings.
Print Assumptions C18_derivative_complement.
Print Assumptions C18_derivative_reverse.
Print Assumptions C18_cyclic_derivative_rotation.
Print Assumptions C18_cyclic_derivative_reverse.
Print Assumptions C18_shannon_binary.
Print Assumptions C18_bien_is_weighted_mean.
Print Assumptions C18_tbien_is_weighted_mean.
Print Assumptions C18_ktbien_is_weighted_mean.
Print Assumptions C18_bien_normaliser_is_weight_sum.
Print Assumptions C18_bien_range.
Print Assumptions C18_tbien_range.
Print Assumptions C18_ktbien_range.
Print Assumptions C18_bien_symmetry.
Print Assumptions C18_tbien_symmetry.
Print Assumptions C18_ktbien_symmetry.
Print Assumptions C18_enclosures.
Print Assumptions C18_enclosures_long.
Print Assumptions C18_within_sound.
Print Assumptions C18_check_case_sound.
From CPL Require Import gen.GenFuns_C18 GenProps.GenFunsEquivC18 GenProps.C18Src. (* source tie: gen/GenFuns_C18.v is regenerated from bien.py on every run *)
Theorem C18_source_tie : (forall s : list bool, src_binary_derivative s = Ok (binary_derivative s)) /\ (forall s : list bool, src_cyclic_binary_derivative s = Ok (cyclic_binary_derivative s)). Proof. exact C18_source_translation_agrees. Qed. Print Assumptions C18_source_tie.
