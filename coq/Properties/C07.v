(* C07 — Wolfram (NKS) binary rule numbering for every radius.
   Property theorems only: each is closed by `exact` of a lemma proved in Proofs/NumberingProofs.v. *)
From CPL Require Import Model.Base Model.Numbering Proofs.NumberingProofs.
Local Open Scope N_scope.

(* bits_to_int is the big-endian value: Sigma bits_i * 2^(L-1-i), for any length *)
Theorem C07_bits_to_int_bigendian : forall bs, bits_to_int bs = be_sum bs.
Proof. exact bits_to_int_be_sum. Qed.

(* int_to_bits then bits_to_int is the identity, for any number of digits d >= 1 that fits *)
Theorem C07_bits_int_roundtrip : forall n d, (1 <= d)%nat -> n < 2 ^ N.of_nat d ->
  exists l, int_to_bits n d = Ok l /\ length l = d /\ bits_to_int l = n.
Proof. exact bits_int_roundtrip. Qed.

(* bits_to_int then int_to_bits is the identity on every non-empty binary list *)
Theorem C07_int_bits_roundtrip : forall bs, binary bs -> (1 <= length bs)%nat ->
  int_to_bits (bits_to_int bs) (length bs) = Ok bs.
Proof. exact int_bits_roundtrip. Qed.

(* scheme='nks': bit v of the rule number, v the neighbourhood read big-endian; any radius.
   (Holds for any neighbourhood: bits_to_int reads cells by truthiness.) *)
Theorem C07_nks_bit : forall nb R, R < 2 ^ N.of_nat (2 ^ length nb) ->
  binary_rule nb (RInt R) SNks None = Ok (b2z (N.testbit R (bits_to_int nb))).
Proof. exact nks_bit. Qed.

Theorem C07_nks_rule_bit : forall nb R, R < 2 ^ N.of_nat (2 ^ length nb) ->
  nks_rule nb R = Ok (b2z (N.testbit R (bits_to_int nb))).
Proof. exact nks_bit. Qed.

(* default scheme: the bit v places from the most significant end of the 2^L-bit rule *)
Theorem C07_default_bit : forall nb R, R < 2 ^ N.of_nat (2 ^ length nb) ->
  binary_rule nb (RInt R) SDefault None
  = Ok (b2z (N.testbit R (2 ^ N.of_nat (length nb) - 1 - bits_to_int nb))).
Proof. exact default_bit. Qed.

(* a rule given as its bit array answers like the rule number *)
Theorem C07_array_form_agrees : forall nb R l sch pows,
  int_to_bits R (2 ^ length nb) = Ok l ->
  binary_rule nb (RBits l) sch pows = binary_rule nb (RInt R) sch pows.
Proof. exact array_form_agrees. Qed.

(* the precomputed powers-of-two vector changes nothing *)
Theorem C07_powers_form_agrees : forall nb rule sch, binary nb ->
  binary_rule nb rule sch (Some (powers_desc (length nb))) = binary_rule nb rule sch None.
Proof. exact powers_form_agrees. Qed.

(* the classes delegate *)
Theorem C07_classes_agree : forall nb R rule sch pows c t,
  NKSRule_call R nb c t = nks_rule nb R /\
  BinaryRule_call rule sch pows nb c t = binary_rule nb rule sch pows.
Proof. intros; split; reflexivity. Qed.

(* complete finite statement: all 256 elementary rules x 8 neighbourhoods, both schemes *)
Theorem C07_elementary_complete : forall R v, (R < 256)%nat -> (v < 8)%nat -> elementary_ok R v = true.
Proof. exact elementary_complete. Qed.

(* non-vacuity: rule 30 on 1,0,0 and a radius-2 neighbourhood with a 32-bit rule *)
Example C07_nonvacuous :
  nks_rule [1;0;0]%Z 30 = Ok 1%Z /\ binary [1;0;0]%Z /\ 30 < 2 ^ N.of_nat (2 ^ 3) /\
  nks_rule [1;0;1;1;1]%Z 2863311530 = Ok 1%Z /\
  int_to_bits 5 4 = Ok [0;1;0;1]%Z /\ bits_to_int [0;1;0;1]%Z = 5.
Proof.
  split; [vm_compute; reflexivity|]. split; [repeat (apply Forall_cons; [solve [left; reflexivity | right; reflexivity]|]); apply Forall_nil|].
  split; [vm_compute; reflexivity|]. split; [vm_compute; reflexivity|].
  split; vm_compute; reflexivity.
Qed.

Print Assumptions C07_bits_to_int_bigendian.
Print Assumptions C07_bits_int_roundtrip.
Print Assumptions C07_int_bits_roundtrip.
Print Assumptions C07_nks_bit.
Print Assumptions C07_nks_rule_bit.
Print Assumptions C07_default_bit.
Print Assumptions C07_array_form_agrees.
Print Assumptions C07_powers_form_agrees.
Print Assumptions C07_classes_agree.
Print Assumptions C07_elementary_complete.
From CPL Require Import gen.GenFuns_C07 GenProps.GenFunsEquivC07 GenProps.C07Src. (* source tie: gen/GenFuns_C07.v is regenerated from ca_functions.py on every run *)
Theorem C07_source_tie : (forall bits : list Z, src_bits_to_int bits = Z.of_N (bits_to_int bits)) /\ (forall (num : N) (num_digits : nat), src_int_to_bits num (Z.of_nat num_digits) = int_to_bits num num_digits) /\ (forall (nb : list Z) (rule : rule_form) (sch : scheme) (pows : option (list Z)), src_binary_rule nb rule sch pows = binary_rule nb rule sch pows). Proof. exact C07_source_translation_agrees. Qed. Print Assumptions C07_source_tie.
