(* C11 — Game of Life rule is Conway's B3/S23; evolve2d with it is the Life update on the torus;
   still lifes stay, the blinker has period two, a glider reappears shifted by (1, 1) after four
   steps wherever it is placed and across the periodic boundary.
   Property theorems only: each is closed by `exact` of a lemma proved in Proofs/LifeProofs.v.
   Model: Model/Life.v (gol_rule = ca_functions2d.py:843-856 literally, incl. the fall-through),
   Model/Evolve2D.v (the memoize=False engine of evolve2d, C02). *)
From Coq Require Import ZArith List Bool Lia.
From CPL Require Import Model.Base Model.Rules Model.Engine Model.Evolve2D Model.Memo2D Model.Life Model.LifePatterns
                        Proofs.Evolve2DProofs Proofs.LifeProofs Proofs.LifeMemoProofs Proofs.LifePatternsProofs.
Import ListNotations.
Local Open Scope Z_scope.

(* ------------------------------------------------------------------ the rule: complete, 512 blocks *)

(* For each of the 2^9 = 512 binary 3x3 neighbourhoods (c the centre, nb the number of live cells
   among the other eight): the code's case analysis does not fall through, returns 0 or 1, returns 1
   exactly when (c = 0 and nb = 3) or (c = 1 and nb in {2, 3}), i.e. it is B3/S23.
   Finite domain: proved by a complete vm_compute sweep (gol_sweep_512), lifted with forallb_forall. *)
Theorem C11_gol_is_b3s23 : forall a0 a1 a2 a3 c a5 a6 a7 a8 : Z,
  (a0 = 0 \/ a0 = 1) -> (a1 = 0 \/ a1 = 1) -> (a2 = 0 \/ a2 = 1) -> (a3 = 0 \/ a3 = 1) -> (c = 0 \/ c = 1) ->
  (a5 = 0 \/ a5 = 1) -> (a6 = 0 \/ a6 = 1) -> (a7 = 0 \/ a7 = 1) -> (a8 = 0 \/ a8 = 1) ->
  let n := [[a0; a1; a2]; [a3; c; a5]; [a6; a7; a8]] in
  let nb := a0 + a1 + a2 + a3 + a5 + a6 + a7 + a8 in
  gol_rule n <> None /\
  (gol_rule n = Some 0 \/ gol_rule n = Some 1) /\
  (gol_rule n = Some 1 <-> (c = 0 /\ nb = 3) \/ (c = 1 /\ (nb = 2 \/ nb = 3))) /\
  gol_rule n = Some (b3s23 c nb).
Proof. exact gol_is_b3s23. Qed.

(* the same over the enumerated domain, with the bound in the statement *)
Theorem C11_gol_blocks512 : length blocks512 = 512%nat /\
  forall n, In n blocks512 -> gol_rule n = Some (b3s23 (gol_centre n) (gol_total n - gol_centre n)).
Proof. exact gol_is_b3s23_blocks. Qed.

(* the implicit `return None` after the three `if`s under `center_cell == 1` is dead for every
   integer neighbourhood, binary or not *)
Theorem C11_gol_never_falls_through : forall n : list (list Z), gol_rule n <> None.
Proof. exact gol_never_none. Qed.

(* ------------------------------------------------------------------ evolve2d with it = torus Life *)

(* One memoize=False step of evolve2d (r = 1, Moore) with game_of_life_rule, on ANY well-shaped R x C
   grid of 0/1 states, R, C >= 1 (the guard r <= min(R, C) of C02): the tabulation of the functional
   torus Life step (plane step of the periodic extension) of the grid. *)
Theorem C11_life_step_torus : forall (R C : nat) (g : grid) (t : nat), (1 <= R)%nat -> (1 <= C)%nat ->
  (length g = R /\ Forall (fun row => length row = C) g) ->
  Forall (Forall (fun x => x = 0 \/ x = 1)) g ->
  step_plain2d gol_as_rule2 store_id 1 Moore tt g t
  = (tt, grid_of_plane R C (tstep (Z.of_nat R) (Z.of_nat C) (plane_of_grid g))).
Proof. exact life_step_torus. Qed.

(* The whole call, any history, any number of steps T: evolve2d(ca, T + 1, game_of_life_rule) returns
   the history followed by the 1st .. T-th iterate of the torus Life step of its last grid. *)
Theorem C11_life_evolve_torus : forall (R C : nat) (hist : list grid) (T : nat), (1 <= R)%nat -> (1 <= C)%nat ->
  (length (last hist []) = R /\ Forall (fun row => length row = C) (last hist [])) ->
  Forall (Forall (fun x => x = 0 \/ x = 1)) (last hist []) ->
  evolve2d_plain gol_as_rule2 store_id 1 Moore tt hist (S T) =
  Ok (tt, hist ++ map (fun k => grid_of_plane R C
                         (iter (S k) (tstep (Z.of_nat R) (Z.of_nat C)) (plane_of_grid (last hist [])))) (seq 0 T)).
Proof. exact life_evolve_torus. Qed.

(* ------------------------------------------------------------------ placement does not matter *)

(* the torus update commutes with cyclic translation by any (da, db), on every torus *)
Theorem C11_life_shift_equivariant : forall (R C da db : Z) (t : plane) (i j : Z),
  tstep R C (emb R C da db t) i j = emb R C da db (tstep R C t) i j.
Proof. exact life_shift_equivariant. Qed.

(* the same on the engine: a step of the rolled grid (np.roll by (da, db)) is the rolled step *)
Theorem C11_life_shift_equivariant_engine : forall (R C : nat) (g : grid) (da db : Z) (t : nat),
  (1 <= R)%nat -> (1 <= C)%nat ->
  (length g = R /\ Forall (fun row => length row = C) g) -> Forall (Forall (fun x => x = 0 \/ x = 1)) g ->
  step_plain2d gol_as_rule2 store_id 1 Moore tt (roll_grid da db g) t
  = (tt, roll_grid da db (snd (step_plain2d gol_as_rule2 store_id 1 Moore tt g t))).
Proof. exact life_shift_equivariant_engine. Qed.

(* LOCALITY: a pattern supported in [0,p) x [0,q), placed anywhere (a, b) on a torus that leaves a
   one-cell halo, evolves for one step exactly as in the infinite plane *)
Theorem C11_torus_local : forall (R C : Z), 0 < R -> 0 < C -> forall (p q : Z) (P : plane) (a b : Z),
  (forall u v, P u v = true -> 0 <= u < p /\ 0 <= v < q) -> 0 <= p -> 0 <= q -> p + 2 <= R -> q + 2 <= C ->
  forall i j, tstep R C (emb R C a b P) i j = emb R C (a - 1) (b - 1) (shift 1 1 (pstep P)) i j.
Proof. exact torus_local. Qed.

(* ------------------------------------------------------------------ the patterns, all sizes, all placements *)

(* functional form: every torus with R, C >= 5, every placement (a, b) in Z x Z *)
Theorem C11_glider_period4 : forall R C a b : Z, 5 <= R -> 5 <= C -> forall i j,
  tstep R C (tstep R C (tstep R C (tstep R C (emb R C a b (of_list G0))))) i j
  = emb R C (a + 1) (b + 1) (of_list G0) i j.
Proof. exact glider_period4. Qed.

(* on the engine: evolve2d for four steps from a glider placed anywhere, torus R, C >= 5: the four
   phases, the last being the glider shifted by (1, 1) *)
Theorem C11_glider_period_4_shift_1_1 : forall (R C : nat) (a b : Z), (5 <= R)%nat -> (5 <= C)%nat ->
  evolve2d_plain gol_as_rule2 store_id 1 Moore tt [pattern_grid R C a b G0] 5 =
  Ok (tt, [pattern_grid R C a b G0; pattern_grid R C (a + 1) b G1; pattern_grid R C (a + 1) b G2;
           pattern_grid R C (a + 1) (b + 1) G3; pattern_grid R C (a + 1) (b + 1) G0]).
Proof. exact glider_engine. Qed.

(* the 2x2 block is a still life: any torus with R, C >= 4, any placement, any number of steps *)
Theorem C11_block_still : forall (R C : nat) (a b : Z) (T : nat), (4 <= R)%nat -> (4 <= C)%nat ->
  evolve2d_plain gol_as_rule2 store_id 1 Moore tt [pattern_grid R C a b BLK] (S T)
  = Ok (tt, repeat (pattern_grid R C a b BLK) (S T)).
Proof. exact block_still_engine. Qed.

Theorem C11_block_still_fun : forall R C a b : Z, 4 <= R -> 4 <= C -> forall i j,
  tstep R C (emb R C a b (of_list BLK)) i j = emb R C a b (of_list BLK) i j.
Proof. exact block_still. Qed.

(* the blinker has period two: any torus with R, C >= 5, any placement *)
Theorem C11_blinker_period_2 : forall (R C : nat) (a b : Z), (5 <= R)%nat -> (5 <= C)%nat ->
  evolve2d_plain gol_as_rule2 store_id 1 Moore tt [pattern_grid R C a b BH] 3 =
  Ok (tt, [pattern_grid R C a b BH; pattern_grid R C (a - 1) (b + 1) BV; pattern_grid R C a b BH]).
Proof. exact blinker_engine. Qed.

Theorem C11_blinker_period_2_fun : forall R C a b : Z, 5 <= R -> 5 <= C -> forall i j,
  tstep R C (tstep R C (emb R C a b (of_list BH))) i j = emb R C a b (of_list BH) i j.
Proof. exact blinker_period_2. Qed.

(* ------------------------------------------------------------------ every memoize mode *)
(* Model/Memo2D.v (C04): evolve2d_mode_fixed rule store m r ty s0 hist T is evolve2d with memoize = False
   (m = Plain), True (m = Memo: the dict keyed by n.tobytes()) or "recursive" (m = Recursive: the quad-tree
   engine with the byte+shape cache); arr2_of projects the returned array (or the exception). *)

(* game_of_life_rule is of the pure form the C04 transparency theorems quantify over: it ignores the
   cell identity, the step number and its state *)
Theorem C11_gol_rule_is_pure : gol_as_rule2 = pure_rule2 gol_f.
Proof. exact gol_as_rule2_pure. Qed.

(* FOR EVERY MODE m, every R x C >= 1 x 1, every history whose last grid is a well-shaped 0/1 grid, every T:
   the array returned by evolve2d(ca, T + 1, game_of_life_rule, memoize = m) is the history followed by
   the 1st .. T-th iterate of the functional torus Life step. *)
Theorem C11_life_evolve_torus_all_modes : forall (m : mode) (R C : nat) (hist : list grid) (T : nat),
  (1 <= R)%nat -> (1 <= C)%nat ->
  (length (last hist []) = R /\ Forall (fun row => length row = C) (last hist [])) ->
  Forall (Forall (fun x => x = 0 \/ x = 1)) (last hist []) ->
  arr2_of (evolve2d_mode_fixed gol_as_rule2 store_id m 1 Moore tt hist (S T)) =
  Ok (hist ++ map (fun k => grid_of_plane R C
                     (iter (S k) (tstep (Z.of_nat R) (Z.of_nat C)) (plane_of_grid (last hist [])))) (seq 0 T)).
Proof. exact life_evolve_torus_all_modes. Qed.

(* callable timesteps: for every mode, any stopping predicate, the array and the predicate's argument log
   are those of memoize=False (None = out of fuel on both sides) *)
Theorem C11_life_all_modes_callable : forall (m : mode) (P : Type) (pred : P -> list grid -> nat -> P * bool)
    (R C : nat) (hist : list grid) (fuel : nat) (p0 : P), (1 <= R)%nat -> (1 <= C)%nat ->
  (length (last hist []) = R /\ Forall (fun row => length row = C) (last hist [])) ->
  dyn_arr2_of (evolve2d_mode_dynamic gol_as_rule2 store_id pred m 1 Moore fuel p0 tt hist)
  = dyn_arr2_of (evolve2d_mode_dynamic gol_as_rule2 store_id pred Plain 1 Moore fuel p0 tt hist).
Proof. intros m P pred R C hist fuel p0. exact (life_all_modes_plain_dynamic m pred R C hist fuel p0). Qed.

(* the pattern corollaries, for every mode, every torus size with the halo, every placement *)
Theorem C11_glider_all_modes : forall (m : mode) (R C : nat) (a b : Z), (5 <= R)%nat -> (5 <= C)%nat ->
  arr2_of (evolve2d_mode_fixed gol_as_rule2 store_id m 1 Moore tt [pattern_grid R C a b G0] 5) =
  Ok [pattern_grid R C a b G0; pattern_grid R C (a + 1) b G1; pattern_grid R C (a + 1) b G2;
      pattern_grid R C (a + 1) (b + 1) G3; pattern_grid R C (a + 1) (b + 1) G0].
Proof. exact glider_all_modes. Qed.

Theorem C11_block_still_all_modes : forall (m : mode) (R C : nat) (a b : Z) (T : nat), (4 <= R)%nat -> (4 <= C)%nat ->
  arr2_of (evolve2d_mode_fixed gol_as_rule2 store_id m 1 Moore tt [pattern_grid R C a b BLK] (S T)) =
  Ok (repeat (pattern_grid R C a b BLK) (S T)).
Proof. exact block_still_all_modes. Qed.

Theorem C11_blinker_all_modes : forall (m : mode) (R C : nat) (a b : Z), (5 <= R)%nat -> (5 <= C)%nat ->
  arr2_of (evolve2d_mode_fixed gol_as_rule2 store_id m 1 Moore tt [pattern_grid R C a b BH] 3) =
  Ok [pattern_grid R C a b BH; pattern_grid R C (a - 1) (b + 1) BV; pattern_grid R C a b BH].
Proof. exact blinker_all_modes. Qed.

(* ------------------------------------------------------------------ still lifes in general; minimal period; all gliders *)

(* ANY still life: a finite pattern (list of live cells in a p x q box) that the plane step, read with its
   one-cell halo, gives back in place (decidable: step_check p q cells cells p q 1 1, = still_check), placed
   anywhere (a, b) on any torus with the halo (p + 2 <= R, q + 2 <= C), is fixed by the torus step *)
Theorem C11_still_life_general : forall (R C p q : Z) (cells : list (Z * Z)) (a b : Z),
  step_check p q cells cells p q 1 1 = true -> 0 <= p -> 0 <= q -> p + 2 <= R -> q + 2 <= C ->
  forall i j, tstep R C (emb R C a b (of_list cells)) i j = emb R C a b (of_list cells) i j.
Proof. exact still_life_general. Qed.

(* ... and under evolve2d, every memoize mode, any number of steps *)
Theorem C11_still_life_all_modes : forall (m : mode) (R C : nat) (p q : Z) (cells : list (Z * Z)) (a b : Z) (T : nat),
  step_check p q cells cells p q 1 1 = true -> 0 <= p -> 0 <= q -> p + 2 <= Z.of_nat R -> q + 2 <= Z.of_nat C ->
  arr2_of (evolve2d_mode_fixed gol_as_rule2 store_id m 1 Moore tt [pattern_grid R C a b cells] (S T))
  = Ok (repeat (pattern_grid R C a b cells) (S T)).
Proof. exact still_life_all_modes. Qed.

(* ANY well-shaped 0/1 grid that the torus Life step maps to itself (no size or shape condition beyond
   R, C >= 1; also still lifes that touch themselves around the torus) stays fixed, every mode, any T *)
Theorem C11_fixed_point_stays : forall (m : mode) (R C : nat) (g : grid) (T : nat), (1 <= R)%nat -> (1 <= C)%nat ->
  (length g = R /\ Forall (fun row => length row = C) g) -> Forall (Forall (fun x => x = 0 \/ x = 1)) g ->
  life_step_grid g = g ->
  arr2_of (evolve2d_mode_fixed gol_as_rule2 store_id m 1 Moore tt [g] (S T)) = Ok (repeat g (S T)).
Proof. exact fixed_point_stays. Qed.

(* the blinker's MINIMAL period is two: after one step the grid differs from the start, after two it is the
   start; from the horizontal and from the vertical orientation; all R, C >= 5, all placements, all modes *)
Theorem C11_blinker_minimal_period : forall (m : mode) (R C : nat) (a b : Z), (5 <= R)%nat -> (5 <= C)%nat ->
  exists g1,
    arr2_of (evolve2d_mode_fixed gol_as_rule2 store_id m 1 Moore tt [pattern_grid R C a b BH] 3)
    = Ok [pattern_grid R C a b BH; g1; pattern_grid R C a b BH]
    /\ g1 <> pattern_grid R C a b BH.
Proof. exact blinker_minimal_period_h. Qed.

Theorem C11_blinker_minimal_period_vertical : forall (m : mode) (R C : nat) (a b : Z), (5 <= R)%nat -> (5 <= C)%nat ->
  exists g1,
    arr2_of (evolve2d_mode_fixed gol_as_rule2 store_id m 1 Moore tt [pattern_grid R C a b BV] 3)
    = Ok [pattern_grid R C a b BV; g1; pattern_grid R C a b BV]
    /\ g1 <> pattern_grid R C a b BV.
Proof. exact blinker_minimal_period_v. Qed.

(* ALL gliders: gl d k is the glider travelling in direction gdir d (d = 0..3: (1,1), (1,-1), (-1,-1), (-1,1))
   in phase k = 0..3 (the quarter turns of G0..G3; these 16 patterns contain all eight images of a glider under
   the symmetries of the square).  Each of the 16 one-step transitions is a decidable plane check
   (glider_checks).  Four steps from ANY of them, ANY torus R, C >= 5, ANY placement: displaced by gdir d. *)
Theorem C11_glider_any_direction_period4 : forall (d k : nat) (R C a b : Z),
  (d < 4)%nat -> (k < 4)%nat -> 5 <= R -> 5 <= C -> forall i j,
  tstep R C (tstep R C (tstep R C (tstep R C (emb R C a b (of_list (gl d k)))))) i j
  = emb R C (a + fst (gdir d)) (b + snd (gdir d)) (of_list (gl d k)) i j.
Proof. exact glider_any_direction_period4. Qed.

Theorem C11_glider_any_direction_all_modes : forall (m : mode) (d k : nat) (R C : nat) (a b : Z),
  (d < 4)%nat -> (k < 4)%nat -> (5 <= R)%nat -> (5 <= C)%nat ->
  exists g1 g2 g3,
    arr2_of (evolve2d_mode_fixed gol_as_rule2 store_id m 1 Moore tt [pattern_grid R C a b (gl d k)] 5)
    = Ok [pattern_grid R C a b (gl d k); g1; g2; g3;
          pattern_grid R C (a + fst (gdir d)) (b + snd (gdir d)) (gl d k)].
Proof. exact glider_any_direction_all_modes. Qed.

(* ------------------------------------------------------------------ non-vacuity *)

(* the rule distinguishes: birth, survival, death by over- and under-population *)
Example nv_birth : gol_rule [[1; 1; 0]; [0; 0; 0]; [0; 0; 1]] = Some 1. Proof. vm_compute. reflexivity. Qed.
Example nv_survive : gol_rule [[1; 1; 0]; [0; 1; 0]; [0; 0; 0]] = Some 1. Proof. vm_compute. reflexivity. Qed.
Example nv_overpop : gol_rule [[1; 1; 1]; [1; 1; 1]; [1; 1; 1]] = Some 0. Proof. vm_compute. reflexivity. Qed.
Example nv_underpop : gol_rule [[0; 0; 0]; [0; 1; 0]; [0; 0; 1]] = Some 0. Proof. vm_compute. reflexivity. Qed.
Example nv_512 : length blocks512 = 512%nat /\ NoDup blocks512.
Proof. exact (conj blocks512_length blocks512_NoDup). Qed.

(* a glider on a 6 x 7 torus placed at (4, 5), so that it straddles both boundaries: the hypotheses of
   the bridge hold, the engine really moves it, and after four steps it is the glider at (5, 6) *)
Example nv_g0_value : pattern_grid 6 7 4 5 G0 =
  [[1;0;0;0;0;1;1]; [0;0;0;0;0;0;0]; [0;0;0;0;0;0;0]; [0;0;0;0;0;0;0];
   [0;0;0;0;0;0;1]; [1;0;0;0;0;0;0]].
Proof. vm_compute. reflexivity. Qed.
Example nv_g0_shape : wf_gridb 6 7 (pattern_grid 6 7 4 5 G0) = true /\ binary_gridb (pattern_grid 6 7 4 5 G0) = true.
Proof. vm_compute. split; reflexivity. Qed.
(* ... so the hypotheses of C11_life_step_torus / C11_life_evolve_torus are met by this grid *)
Example nv_bridge_hyps :
  (length (pattern_grid 6 7 4 5 G0) = 6%nat /\ Forall (fun row => length row = 7%nat) (pattern_grid 6 7 4 5 G0))
  /\ Forall (Forall (fun x => x = 0 \/ x = 1)) (pattern_grid 6 7 4 5 G0).
Proof. split; [apply wf_gridb_true|apply binary_gridb_true]; vm_compute; reflexivity. Qed.
Example nv_glider_run :
  match life_evolve [pattern_grid 6 7 4 5 G0] 5 with
  | Ok (_, [h0; h1; h2; h3; h4]) =>
      zgrid_eqb h0 (pattern_grid 6 7 4 5 G0) && negb (zgrid_eqb h1 h0) && negb (zgrid_eqb h4 h0)
      && zgrid_eqb h4 (pattern_grid 6 7 5 6 G0) && zgrid_eqb h4 (roll_grid 1 1 (pattern_grid 6 7 4 5 G0))
  | _ => false
  end = true.
Proof. vm_compute. reflexivity. Qed.
(* on a torus without the halo (4 x 4) the glider collides with its own image: the size bound of the
   corollary is not an artefact *)
Example nv_glider_too_small :
  match life_evolve [pattern_grid 4 4 0 0 G0] 5 with
  | Ok (_, [_; _; _; _; h4]) => zgrid_eqb h4 (pattern_grid 4 4 1 1 G0)
  | _ => true
  end = false.
Proof. vm_compute. reflexivity. Qed.
(* the blinker is not a still life; the block does not vanish *)
Example nv_blinker_moves :
  zgrid_eqb (pattern_grid 5 5 0 0 BH) (pattern_grid 5 5 (-1) 1 BV) = false.
Proof. vm_compute. reflexivity. Qed.
Example nv_block_alive : pattern_grid 4 4 3 3 BLK = [[1;0;0;1]; [0;0;0;0]; [0;0;0;0]; [1;0;0;1]].
Proof. vm_compute. reflexivity. Qed.
(* the 1 x 1 torus (smallest size the bridge covers): the lone live cell sees itself eight times and dies *)
Example nv_1x1 : life_evolve [[[1]]] 2 = Ok (tt, [[[1]]; [[0]]]).
Proof. vm_compute. reflexivity. Qed.

(* the three engines really run (and really differ inside): same array for the straddling glider, while the
   rule is entered 168 times by memoize=False and far fewer times by the memoized modes *)
Example nv_all_modes :
  map (fun m => arr2_of (evolve2d_mode_fixed gol_as_rule2 store_id m 1 Moore tt [pattern_grid 6 7 4 5 G0] 5))
      [Plain; Memo; Recursive]
  = repeat (Ok [pattern_grid 6 7 4 5 G0; pattern_grid 6 7 5 5 G1; pattern_grid 6 7 5 5 G2;
                pattern_grid 6 7 5 6 G3; pattern_grid 6 7 5 6 G0]) 3
  /\ map (fun m => length (log2_of (evolve2d_mode_fixed (logged2 gol_as_rule2) store_id m 1 Moore (tt, [])
                                     [pattern_grid 6 7 4 5 G0] 5))) [Plain; Memo; Recursive]
     = [168; 46; 46]%nat.
Proof. split; vm_compute; reflexivity. Qed.

(* still lifes: beehive, loaf, boat, tub — each passes the plane check, hence (C11_still_life_general /
   _all_modes) is fixed anywhere on every torus with the halo, in every mode *)
Example ex_beehive_still : forall (m : mode) (R C : nat) (a b : Z) (T : nat), (5 <= R)%nat -> (6 <= C)%nat ->
  arr2_of (evolve2d_mode_fixed gol_as_rule2 store_id m 1 Moore tt [pattern_grid R C a b BEEHIVE] (S T))
  = Ok (repeat (pattern_grid R C a b BEEHIVE) (S T)).
Proof. intros. apply (C11_still_life_all_modes m R C 3 4); [vm_compute; reflexivity|lia..]. Qed.
Example ex_loaf_still : forall (m : mode) (R C : nat) (a b : Z) (T : nat), (6 <= R)%nat -> (6 <= C)%nat ->
  arr2_of (evolve2d_mode_fixed gol_as_rule2 store_id m 1 Moore tt [pattern_grid R C a b LOAF] (S T))
  = Ok (repeat (pattern_grid R C a b LOAF) (S T)).
Proof. intros. apply (C11_still_life_all_modes m R C 4 4); [vm_compute; reflexivity|lia..]. Qed.
Example ex_boat_still : forall (m : mode) (R C : nat) (a b : Z) (T : nat), (5 <= R)%nat -> (5 <= C)%nat ->
  arr2_of (evolve2d_mode_fixed gol_as_rule2 store_id m 1 Moore tt [pattern_grid R C a b BOAT] (S T))
  = Ok (repeat (pattern_grid R C a b BOAT) (S T)).
Proof. intros. apply (C11_still_life_all_modes m R C 3 3); [vm_compute; reflexivity|lia..]. Qed.
Example ex_tub_still : forall (m : mode) (R C : nat) (a b : Z) (T : nat), (5 <= R)%nat -> (5 <= C)%nat ->
  arr2_of (evolve2d_mode_fixed gol_as_rule2 store_id m 1 Moore tt [pattern_grid R C a b TUB] (S T))
  = Ok (repeat (pattern_grid R C a b TUB) (S T)).
Proof. intros. apply (C11_still_life_all_modes m R C 3 3); [vm_compute; reflexivity|lia..]. Qed.
Example ex_beehive_fun : forall R C a b i j, 5 <= R -> 6 <= C ->
  tstep R C (emb R C a b (of_list BEEHIVE)) i j = emb R C a b (of_list BEEHIVE) i j.
Proof. intros. apply (C11_still_life_general R C 3 4); [vm_compute; reflexivity|lia..]. Qed.
(* a beehive straddling the boundary of a 5 x 6 torus is a real, non-empty grid; a non-still pattern fails the check *)
Example nv_beehive_grid : pattern_grid 5 6 4 4 BEEHIVE =
  [[0;1;0;0;1;0]; [1;0;0;0;0;1]; [0;0;0;0;0;0]; [0;0;0;0;0;0]; [1;0;0;0;0;1]]
  /\ still_check 1 3 BH = false /\ still_check 3 3 G0 = false.
Proof. vm_compute. repeat split; reflexivity. Qed.
(* C11_fixed_point_stays applies where the halo theorem does not: a loaf on a 4 x 4 torus (no halo) is not a
   fixed point, two full rows on a 4 x 3 torus ... the hypothesis life_step_grid g = g is decidable per grid *)
Example nv_fixed_point : life_step_grid (pattern_grid 6 6 4 4 LOAF) = pattern_grid 6 6 4 4 LOAF
  /\ life_step_grid (pattern_grid 4 4 0 0 LOAF) <> pattern_grid 4 4 0 0 LOAF
  /\ life_step_grid [[1;1;0];[1;1;0];[0;0;0]] = [[1;1;0];[1;1;0];[0;0;0]].
Proof. vm_compute. repeat split; try reflexivity. discriminate. Qed.
(* the four glider orientations (phase 0), and a rotated glider (direction (-1, 1), phase 2) straddling the
   corner of a 5 x 7 torus: all three engines move it to the displaced position, which is a different grid *)
Example nv_glider_orientations : map (fun d => gl d 0) [0; 1; 2; 3]%nat =
  [[(0,1);(1,2);(2,0);(2,1);(2,2)]; [(1,2);(2,1);(0,0);(1,0);(2,0)];
   [(2,1);(1,0);(0,2);(0,1);(0,0)]; [(1,0);(0,1);(2,2);(1,2);(0,2)]]
  /\ glider_checks = true /\ length dk16 = 16%nat.
Proof. vm_compute. repeat split; reflexivity. Qed.
Example nv_glider_rotated_run :
  forallb (fun m =>
    match arr2_of (evolve2d_mode_fixed gol_as_rule2 store_id m 1 Moore tt [pattern_grid 5 7 4 6 (gl 3 2)] 5) with
    | Ok [h0; _; _; _; h4] => zgrid_eqb h4 (pattern_grid 5 7 3 7 (gl 3 2)) && negb (zgrid_eqb h4 h0)
                              && zgrid_eqb h4 (roll_grid (-1) 1 h0)
    | _ => false
    end) [Plain; Memo; Recursive] = true.
Proof. vm_compute. reflexivity. Qed.

Print Assumptions C11_gol_is_b3s23.
Print Assumptions C11_gol_blocks512.
Print Assumptions C11_gol_never_falls_through.
Print Assumptions C11_life_step_torus.
Print Assumptions C11_life_evolve_torus.
Print Assumptions C11_life_shift_equivariant.
Print Assumptions C11_life_shift_equivariant_engine.
Print Assumptions C11_torus_local.
Print Assumptions C11_glider_period4.
Print Assumptions C11_glider_period_4_shift_1_1.
Print Assumptions C11_block_still.
Print Assumptions C11_block_still_fun.
Print Assumptions C11_blinker_period_2.
Print Assumptions C11_blinker_period_2_fun.
Print Assumptions C11_gol_rule_is_pure.
Print Assumptions C11_life_evolve_torus_all_modes.
Print Assumptions C11_life_all_modes_callable.
Print Assumptions C11_glider_all_modes.
Print Assumptions C11_block_still_all_modes.
Print Assumptions C11_blinker_all_modes.
Print Assumptions C11_still_life_general.
Print Assumptions C11_still_life_all_modes.
Print Assumptions C11_fixed_point_stays.
Print Assumptions C11_blinker_minimal_period.
Print Assumptions C11_blinker_minimal_period_vertical.
Print Assumptions C11_glider_any_direction_period4.
Print Assumptions C11_glider_any_direction_all_modes.
From CPL Require Import gen.GenFuns_C11 GenProps.C11Src. (* source tie: gen/GenFuns_C11.v is regenerated from ca_functions2d.py on every run *)
Theorem C11_source_tie : forall n : list (list Z), src_game_of_life_rule n = gol_rule n. Proof. exact C11_source_translation_agrees. Qed. Print Assumptions C11_source_tie.
