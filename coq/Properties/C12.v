(* C12 — AsynchronousRule updates exactly the scheduled cell each step.
   Property theorems only: each is closed by `exact` of a lemma proved in Proofs/AsyncProofs.v.
   Model: Model/Async.v (the object (order, curr, num_applied, randomize flag, shuffles drawn, state of
   the wrapped rule) and __call__ in the code's order of effects), driven by the engines of
   Model/Evolve1D.v (step_plain) and Model/Evolve2D.v (step_plain2d) through Engine.iter_steps.
   Guards: the order is non-empty (the code raises IndexError otherwise), duplicate-free and lists only
   cells of the automaton; 1 <= r <= N in 1D (the range in which _index_strides yields N windows);
   r <= R and r <= C in 2D (outside it _get_neighbourhood_indices leaves the grid and the real code raises
   IndexError, so Model/Evolve2D is tied to the code only there; the proofs do not use this guard -- the
   centre of a neighbourhood is always in range -- it is stated so that nothing is claimed about radii the
   correspondence cannot support);
   rows/grids hold values of the automaton's dtype (store z = z) and store is idempotent.
   np.random.shuffle is the oracle sh: the i-th shuffle installs `sh i order`; the only hypothesis is
   that it returns a permutation. *)
From Coq Require Import Permutation Lia.
From CPL Require Import Model.Base Model.Rules Model.Engine Model.Evolve1D Model.Evolve2D Model.Async
  Proofs.AsyncProofs.

(* async_step: one engine step over ANY duplicate-free visiting order `cells` (1D index order and 2D
   row-major order are instances) that contains every listed cell.  Entered with num_applied = 0 and
   curr = k: every cell gets the wrapped rule's value if it is order[k] and its centre state otherwise
   (spec_out); the wrapped rule's state advances by exactly one call, on order[k] with its
   neighbourhood, identity and t (spec_state / spec_state_in); the step ends with num_applied = 0,
   curr = (k+1) mod L, and with randomize_each_cycle the next shuffle outcome installed. *)
Theorem C12_async_step :
  forall (cell : Type) (ceq : cell -> cell -> bool), (forall a b, ceq a b = true <-> a = b) ->
  forall (dc : cell) (NB : Type) (centre : NB -> Z) (St : Type) (inner : St -> NB -> cell -> nat -> St * Z)
         (sh : nat -> list cell -> list cell), (forall i l, Permutation l (sh i l)) ->
  forall t o k rd h s (cells : list (cell * NB)),
    1 <= length o -> k < length o -> NoDup o -> NoDup (map fst cells) -> incl o (map fst cells) ->
    run_cells (async_call cell ceq dc NB centre St inner sh) t (mkA o k 0 rd h s) cells =
      (mkA (if rd then sh h o else o) ((k + 1) mod length o) 0 rd (if rd then S h else h)
           (spec_state cell ceq NB St inner t s (nth k o dc) cells),
       map (fun cn => if ceq (fst cn) (nth k o dc) then snd (inner s (snd cn) (fst cn) t) else centre (snd cn)) cells)
    /\ (forall n, In (nth k o dc, n) cells ->
          spec_state cell ceq NB St inner t s (nth k o dc) cells = fst (inner s n (nth k o dc) t)).
Proof.
  intros cell ceq Hceq dc NB centre St inner sh Hsh t o k rd h s cells HL Hk Hnd Hc Hin. split.
  - exact (async_step cell ceq Hceq dc NB centre St inner sh Hsh t o k rd h s cells HL Hk Hnd Hc Hin).
  - intros n Hn. exact (spec_state_in cell ceq Hceq NB St inner t s (nth k o dc) n cells Hc Hn).
Qed.

(* one step of cpl.evolve's engine, read off the arrays *)
Theorem C12_engine_step_1d : forall (St : Type) (inner : rule1 St) sh store N r,
  (forall i l, Permutation l (sh i l)) -> (forall z, store (store z) = store z) -> 1 <= r <= N ->
  forall a cells t,
    (a_napp a = 0 /\ 1 <= length (a_order a) /\ a_curr a < length (a_order a) /\ NoDup (a_order a) /\
     incl (a_order a) (seq 0 N)) ->
    (length cells = N /\ Forall (fun z => store z = z) cells) ->
  let x := nth (a_curr a) (a_order a) 0 in
  let out := step_plain (async_rule1 inner sh) store r a cells t in
  nth x (snd out) 0%Z = store (snd (inner (a_inner a) (nth x (neighbourhoods cells r) []) x t)) /\
  (forall c, c < N -> c <> x -> nth c (snd out) 0%Z = nth c cells 0%Z) /\
  length (snd out) = N /\
  a_inner (fst out) = fst (inner (a_inner a) (nth x (neighbourhoods cells r) []) x t) /\
  a_curr (fst out) = (a_curr a + 1) mod length (a_order a) /\ a_napp (fst out) = 0 /\
  Permutation (a_order a) (a_order (fst out)).
Proof. exact @async_engine_step_1d. Qed.

(* one step of cpl.evolve2d's engine *)
Theorem C12_engine_step_2d : forall (St : Type) (inner : rule2 St) sh store R C r ty,
  (forall i l, Permutation l (sh i l)) -> (forall z, store (store z) = store z) -> 1 <= R -> r <= R -> r <= C ->
  forall a g t,
    (a_napp a = 0 /\ 1 <= length (a_order a) /\ a_curr a < length (a_order a) /\ NoDup (a_order a) /\
     incl (a_order a) (init_order2 R C)) ->
    ((length g = R /\ Forall (fun row => length row = C) g) /\ Forall (Forall (fun z => store z = z)) g) ->
  let x := nth (a_curr a) (a_order a) (0, 0) in
  let nb := get_neighbourhood g R C r (fst x) (snd x) ty in
  let out := step_plain2d (async_rule2 inner sh) store r ty a g t in
  nth (snd x) (nth (fst x) (snd out) []) 0%Z = store (snd (inner (a_inner a) nb x t)) /\
  (forall row col, row < R -> col < C -> (row, col) <> x ->
     nth col (nth row (snd out) []) 0%Z = nth col (nth row g []) 0%Z) /\
  (length (snd out) = R /\ Forall (fun row => length row = C) (snd out)) /\
  a_inner (fst out) = fst (inner (a_inner a) nb x t) /\
  a_curr (fst out) = (a_curr a + 1) mod length (a_order a) /\ a_napp (fst out) = 0 /\
  Permutation (a_order a) (a_order (fst out)).
Proof.
  intros St inner sh store R C r ty Hsh Hst HR _ _. exact (async_engine_step_2d inner sh store R C r ty Hsh Hst HR).
Qed.

(* async_run, 1D: evolving n steps (numbered from 1, as _evolve_fixed does) with a fresh
   AsynchronousRule(Logged f, update_order = o): the run IS the sequential automaton seq_step1; in step
   i+1 only cell o[i mod L] may change; cells absent from the order never change; the wrapped rule's log is
   one call per step: (neighbourhood of o[i mod L] in row i, o[i mod L], i+1). *)
Theorem C12_async_run_1d : forall (St : Type) (f : rule1 St) sh, (forall i l, Permutation l (sh i l)) ->
  forall store, (forall z, store (store z) = store z) -> forall N r, 1 <= r <= N ->
  forall n o s0 cells d,
    1 <= length o -> NoDup o -> (forall c, In c o -> c < N) ->
    (length cells = N /\ Forall (fun z => store z = z) cells) ->
    let res := iter_steps (step_plain (async_rule1 (logged1 f) sh) store r) n (async_init o false (s0, [])) cells 1 in
    let rows := cells :: snd res in
    res = iter_steps (seq_step1 (logged1 f) sh store r) n (async_init o false (s0, [])) cells 1 /\
    (forall i c, i < n -> c < N -> c <> nth (i mod length o) o 0 ->
       nth c (nth (S i) rows d) 0%Z = nth c (nth i rows d) 0%Z) /\
    (forall i c, i < n -> c < N -> ~ In c o -> nth c (nth (S i) rows d) 0%Z = nth c (nth i rows d) 0%Z) /\
    snd (a_inner (fst res)) =
      calls_of nat (list Z) (list Z) (nbof1 r) (map (fun i => nth (i mod length o) o 0) (seq 0 n)) rows 1 /\
    length (snd (a_inner (fst res))) = n.
Proof. exact async_run_1d_stmt. Qed.

(* async_run, 2D (cells are (row, col), visited row-major); the log clause as in 1D *)
Theorem C12_async_run_2d : forall (St : Type) (f : rule2 St) sh, (forall i l, Permutation l (sh i l)) ->
  forall store, (forall z, store (store z) = store z) -> forall R C r ty, 1 <= R -> r <= R -> r <= C ->
  forall n o s0 g d,
    1 <= length o -> NoDup o -> (forall c, In c o -> fst c < R /\ snd c < C) ->
    ((length g = R /\ Forall (fun row => length row = C) g) /\ Forall (Forall (fun z => store z = z)) g) ->
    let res := iter_steps (step_plain2d (async_rule2 (logged2 f) sh) store r ty) n (async_init o false (s0, [])) g 1 in
    let grids := g :: snd res in
    res = iter_steps (seq_step2 (logged2 f) sh store r ty) n (async_init o false (s0, [])) g 1 /\
    (forall i row col, i < n -> row < R -> col < C -> (row, col) <> nth (i mod length o) o (0, 0) ->
       nth col (nth row (nth (S i) grids d) []) 0%Z = nth col (nth row (nth i grids d) []) 0%Z) /\
    (forall i row col, i < n -> row < R -> col < C -> ~ In (row, col) o ->
       nth col (nth row (nth (S i) grids d) []) 0%Z = nth col (nth row (nth i grids d) []) 0%Z) /\
    snd (a_inner (fst res)) =
      calls_of (nat * nat) nbhd2 grid (nbof2 r ty) (map (fun i => nth (i mod length o) o (0, 0)) (seq 0 n)) grids 1 /\
    length (snd (a_inner (fst res))) = n.
Proof.
  intros St f sh Hsh store Hst R C r ty HR _ _. exact (async_run_2d_stmt St f sh Hsh store Hst R C r ty HR).
Qed.

(* async_shuffled: any randomize flag, any position k in the cycle, ANY permutation at every shuffle.
   In every step exactly one cell is scheduled — the one at index curr of the current order
   (sched_trace), always a listed cell — no other cell changes, and the wrapped rule is called once per
   step, on that cell. *)
Theorem C12_async_shuffled_1d : forall (St : Type) (f : rule1 St) sh, (forall i l, Permutation l (sh i l)) ->
  forall store, (forall z, store (store z) = store z) -> forall N r, 1 <= r <= N ->
  forall n o k rd h s0 lg cells t d,
    1 <= length o -> k < length o -> NoDup o -> (forall c, In c o -> c < N) ->
    (length cells = N /\ Forall (fun z => store z = z) cells) ->
    let res := iter_steps (step_plain (async_rule1 (logged1 f) sh) store r) n (mkA o k 0 rd h (s0, lg)) cells t in
    let rows := cells :: snd res in
    let tr := sched_trace nat 0 sh n rd o k h in
    res = iter_steps (seq_step1 (logged1 f) sh store r) n (mkA o k 0 rd h (s0, lg)) cells t /\
    (forall i, i < n -> In (nth i tr 0) o /\
       forall c, c < N -> c <> nth i tr 0 -> nth c (nth (S i) rows d) 0%Z = nth c (nth i rows d) 0%Z) /\
    snd (a_inner (fst res)) = lg ++ calls_of nat (list Z) (list Z) (nbof1 r) tr rows t /\
    length (calls_of nat (list Z) (list Z) (nbof1 r) tr rows t) = n.
Proof. exact async_shuffled_1d_stmt. Qed.

Theorem C12_async_shuffled_2d : forall (St : Type) (f : rule2 St) sh, (forall i l, Permutation l (sh i l)) ->
  forall store, (forall z, store (store z) = store z) -> forall R C r ty, 1 <= R -> r <= R -> r <= C ->
  forall n o k rd h s0 lg g t d,
    1 <= length o -> k < length o -> NoDup o -> (forall c, In c o -> fst c < R /\ snd c < C) ->
    ((length g = R /\ Forall (fun row => length row = C) g) /\ Forall (Forall (fun z => store z = z)) g) ->
    let res := iter_steps (step_plain2d (async_rule2 (logged2 f) sh) store r ty) n (mkA o k 0 rd h (s0, lg)) g t in
    let grids := g :: snd res in
    let tr := sched_trace (nat * nat) (0, 0) sh n rd o k h in
    res = iter_steps (seq_step2 (logged2 f) sh store r ty) n (mkA o k 0 rd h (s0, lg)) g t /\
    (forall i, i < n -> In (nth i tr (0, 0)) o /\
       forall row col, row < R -> col < C -> (row, col) <> nth i tr (0, 0) ->
         nth col (nth row (nth (S i) grids d) []) 0%Z = nth col (nth row (nth i grids d) []) 0%Z) /\
    snd (a_inner (fst res)) = lg ++ calls_of (nat * nat) nbhd2 grid (nbof2 r ty) tr grids t /\
    length (calls_of (nat * nat) nbhd2 grid (nbof2 r ty) tr grids t) = n.
Proof.
  intros St f sh Hsh store Hst R C r ty HR _ _. exact (async_shuffled_2d_stmt St f sh Hsh store Hst R C r ty HR).
Qed.

(* init_order_perm: AsynchronousRule(rule, num_cells = N) / num_cells = (R, C): whatever permutation the
   constructor's shuffle returns, the order lists every cell exactly once (so the run theorems apply). *)
Theorem C12_init_order_perm_1d : forall (St : Type) (sh : nat -> list nat -> list nat) N rd (s0 : St),
  (forall i l, Permutation l (sh i l)) ->
  let a := async_init_cells sh (init_order1 N) rd s0 in
  Permutation (seq 0 N) (a_order a) /\ (forall c, In c (a_order a) <-> c < N) /\ NoDup (a_order a) /\
  length (a_order a) = N /\ a_curr a = 0 /\ a_napp a = 0.
Proof. exact @init_order_perm_1d. Qed.

Theorem C12_init_order_perm_2d : forall (St : Type) (sh : nat -> list (nat * nat) -> list (nat * nat)) R C rd (s0 : St),
  (forall i l, Permutation l (sh i l)) ->
  let a := async_init_cells sh (init_order2 R C) rd s0 in
  Permutation (init_order2 R C) (a_order a) /\ (forall i j, In (i, j) (a_order a) <-> i < R /\ j < C) /\
  NoDup (a_order a) /\ a_curr a = 0 /\ a_napp a = 0.
Proof. exact @init_order_perm_2d. Qed.

(* the public entry points with a number of timesteps: evolve / evolve2d with the object = the sequential
   automaton, from any state of the object between two steps *)
Theorem C12_async_evolve_1d : forall (St : Type) (inner : rule1 St) sh store N r,
  (forall i l, Permutation l (sh i l)) -> (forall z, store (store z) = store z) -> 1 <= r <= N ->
  forall a hist T,
    (a_napp a = 0 /\ 1 <= length (a_order a) /\ a_curr a < length (a_order a) /\ NoDup (a_order a) /\
     incl (a_order a) (seq 0 N)) ->
    (length (last hist []) = N /\ Forall (fun z => store z = z) (last hist [])) ->
  evolve_plain (async_rule1 inner sh) store r a hist T = evolve_fixed [] (seq_step1 inner sh store r) a hist T.
Proof. exact @async_evolve_1d. Qed.

Theorem C12_async_evolve_2d : forall (St : Type) (inner : rule2 St) sh store R C r ty,
  (forall i l, Permutation l (sh i l)) -> (forall z, store (store z) = store z) -> 1 <= R -> r <= R -> r <= C ->
  forall a hist T,
    (a_napp a = 0 /\ 1 <= length (a_order a) /\ a_curr a < length (a_order a) /\ NoDup (a_order a) /\
     incl (a_order a) (init_order2 R C)) ->
    ((length (last hist []) = R /\ Forall (fun row => length row = C) (last hist [])) /\
     Forall (Forall (fun z => store z = z)) (last hist [])) ->
  evolve2d_plain (async_rule2 inner sh) store r ty a hist T = evolve_fixed [] (seq_step2 inner sh store r ty) a hist T.
Proof.
  intros St inner sh store R C r ty Hsh Hst HR _ _. exact (async_evolve_2d inner sh store R C r ty Hsh Hst HR).
Qed.

(* ---- non-vacuity ---- *)
(* the hypotheses are met by a proper-subset order on 5 cells, and cells do change: rule 150
   (sum mod 2) on [0;1;0;0;1] with order [3;0;4]: step 1 rewrites cell 3, step 3 cell 4, step 5 cell 0 *)
Example C12_nonvacuous_1d :
  NoDup [3; 0; 4] /\ (forall c, In c [3; 0; 4] -> c < 5) /\
  (length [0; 1; 0; 0; 1]%Z = 5 /\ Forall (fun z => store_id z = z) [0; 1; 0; 0; 1]%Z) /\
  snd (iter_steps (step_plain (async_rule1 (logged1 (lin1 [1; 1; 1]%Z 2%Z)) (fun (_ : nat) (l : list nat) => l)) store_id 1) 5
        (async_init [3; 0; 4] false (tt, [])) [0; 1; 0; 0; 1]%Z 1) =
  [[0; 1; 0; 1; 1]; [0; 1; 0; 1; 1]; [0; 1; 0; 1; 0]; [0; 1; 0; 1; 0]; [1; 1; 0; 1; 0]]%Z.
Proof.
  split; [repeat constructor; cbn; intuition discriminate|].
  split; [cbn; intuition lia|].
  split; [split; [reflexivity|repeat constructor]|]. vm_compute. reflexivity.
Qed.

(* a shuffle oracle that is a permutation but not the identity (reverse), randomize_each_cycle, num_cells path *)
Example C12_nonvacuous_shuffled :
  (forall (i : nat) (l : list nat), Permutation l ((fun (_ : nat) (l : list nat) => rev l) i l)) /\
  a_order (async_init_cells (fun (_ : nat) (l : list nat) => rev l) (init_order1 4) true tt) = [3; 2; 1; 0] /\
  sched_trace nat 0 (fun (_ : nat) (l : list nat) => rev l) 5 true [3; 2; 1; 0] 0 1 = [3; 1; 1; 3; 3] /\
  snd (iter_steps (step_plain (async_rule1 (lin1 [1; 1; 1]%Z 2%Z) (fun (_ : nat) (l : list nat) => rev l)) store_id 1) 5
        (async_init_cells (fun (_ : nat) (l : list nat) => rev l) (init_order1 4) true tt) [1; 0; 0; 0]%Z 1) =
  [[1; 0; 0; 1]; [1; 1; 0; 1]; [1; 0; 0; 1]; [1; 0; 0; 0]; [1; 0; 0; 1]]%Z.
Proof.
  split; [intros i l; apply Permutation_rev|]. split; [reflexivity|]. split; vm_compute; reflexivity.
Qed.

(* 2D: 2x3 grid, order [(1,1); (0,2)] (coordinates), Moore, parity of the 9 cells *)
Example C12_nonvacuous_2d :
  NoDup [(1, 1); (0, 2)] /\ (forall c, In c [(1, 1); (0, 2)] -> fst c < 2 /\ snd c < 3) /\
  snd (iter_steps (step_plain2d (async_rule2 (lin2 [1; 1; 1; 1; 1; 1; 1; 1; 1]%Z 2%Z) (fun (_ : nat) (l : list (nat * nat)) => l)) store_id 1 Moore) 3
        (async_init [(1, 1); (0, 2)] false tt) [[0; 1; 0]; [0; 0; 0]]%Z 1) =
  [[[0; 1; 0]; [0; 0; 0]]; [[0; 1; 1]; [0; 0; 0]]; [[0; 1; 1]; [0; 0; 0]]]%Z.
Proof.
  split; [repeat constructor; cbn; intuition discriminate|].
  split; [cbn; intros c [<-|[<-|[]]]; cbn; lia|]. vm_compute. reflexivity.
Qed.

Print Assumptions C12_async_step.
Print Assumptions C12_engine_step_1d.
Print Assumptions C12_engine_step_2d.
Print Assumptions C12_async_run_1d.
Print Assumptions C12_async_run_2d.
Print Assumptions C12_async_shuffled_1d.
Print Assumptions C12_async_shuffled_2d.
Print Assumptions C12_init_order_perm_1d.
Print Assumptions C12_init_order_perm_2d.
Print Assumptions C12_async_evolve_1d.
Print Assumptions C12_async_evolve_2d.
From CPL Require Import gen.GenFuns_C12 GenProps.GenFunsEquivC12 GenProps.C12Src. (* source tie: gen/GenFuns_C12.v is regenerated from ca_functions.py on every run *)
Theorem C12_source_tie : (forall (cell NB St : Type) (ceq : cell -> cell -> bool) (dc : cell) (centre : NB -> Z) (inner : St -> NB -> cell -> nat -> St * Z) (sh : nat -> list cell -> list cell) (a : astate cell St) (n : NB) (c : cell) (t : nat), a_curr a < length (a_order a) -> src_async_call cell NB St ceq inner sh centre (a_rand a) (inj cell St a) n c t = Ok (inj cell St (fst (async_call cell ceq dc NB centre St inner sh a n c t)), snd (async_call cell ceq dc NB centre St inner sh a n c t))) /\ (forall n : list Z, src_async_current_cell_value_1d n = centre1 n) /\ (forall n : nbhd2, src_async_current_cell_value_2d (nb_vals n) = centre2 n). Proof. exact C12_source_translation_agrees. Qed. Print Assumptions C12_source_tie.
