(* C19 — Approximate entropy matches Pincus' definition for every input form.
   Property theorems only: each is closed by `exact` of a lemma proved in Proofs/ApenExact.v (exact
   layer, axiom free) or Proofs/ApenProofs.v (real layer, standard-library real-number axioms).
   "Matches Pincus' definition" has two halves: (a) the model IS the definition — C19_apen_value and
   C19_counts_are_pincus state it in full; (b) the code agrees with the model — that is the
   correspondence run (Corr/C19.v), not a theorem. *)
From Coq Require Import String Reals Lia.
From CPL Require Import Model.Base Model.Apen Proofs.ApenExact Proofs.ApenProofs Corr.C19 Proofs.ApenCorrProofs.
From Interval Require Import Xreal Interval.

(* ---------------------------------------------------------------- exact layer (no axioms) *)

(* there are N - m + 1 windows and as many counts *)
Theorem C19_window_count : forall m r U,
  length (xwindows m U) = length U + 1 - m /\ length (Cs m r U) = length U + 1 - m.
Proof. intros; split; [apply xwindows_length | apply Cs_length]. Qed.

(* window i is U[i], ..., U[i+m-1] *)
Theorem C19_window_content : forall m U i k d, i < nwin m U -> k < m ->
  length (window m U i) = m /\ nth k (window m U i) d = nth (i + k) U d.
Proof. intros m U i k d Hi Hk; split; [apply window_length, Hi | apply window_nth, Hk]. Qed.

(* the Chebyshev distance: symmetric, and <= r exactly when every coordinate differs by <= r *)
Theorem C19_distance : forall x y r, (0 <= r)%Z ->
  max_dist x y = max_dist y x /\
  ((max_dist x y <= r)%Z <-> Forall (fun p => Z.abs (fst p - snd p) <= r)%Z (combine x y)).
Proof. intros x y r Hr; split; [apply max_dist_sym | apply max_dist_le_iff, Hr]. Qed.

(* the counts computed by the model are Pincus' counts, written on indices:
   C_i(m) = #{ j < N-m+1 | for all t < m, |u(i+t) - u(j+t)| <= r } *)
Theorem C19_counts_are_pincus : forall m r U i, (0 <= r)%Z -> i < nwin m U ->
  nth i (Cs m r U) 0 =
  length (filter (fun j => forallb (fun t => (Z.abs (nth (i + t) U 0 - nth (j + t) U 0) <=? r)%Z) (seq 0 m))
                 (seq 0 (length U + 1 - m))).
Proof. exact Cs_pincus. Qed.

(* every window matches itself: 1 <= C_i <= N - m + 1 *)
Theorem C19_C_self_match : forall m r U, (0 <= r)%Z ->
  Forall (fun c => 1 <= c <= length U + 1 - m) (Cs m r U).
Proof. exact C_self_match. Qed.

(* a match of the longer windows is a match of their prefixes: C_i(m+1) <= C_i(m) *)
Theorem C19_C_monotone : forall m r U i, i < length U + 1 - S m ->
  nth i (Cs (S m) r U) 0 <= nth i (Cs m r U) 0.
Proof. exact C_monotone. Qed.

(* constant sequence: every count is N - m + 1 *)
Theorem C19_counts_constant : forall v N m r, (0 <= r)%Z ->
  Cs m r (repeat v N) = repeat (N + 1 - m) (N + 1 - m).
Proof. exact Cs_constant. Qed.

(* the three forms of one sequence over 0..9 normalise to the same integers; list and array agree
   for every integer content; anything else is a TypeError *)
Theorem C19_normalise_forms : forall zs,
  (Forall (fun z => 0 <= z <= 9)%Z zs -> normalise (SeqStr (string_of_digits zs)) = Ok zs) /\
  normalise (SeqList zs) = Ok zs /\ normalise (SeqArray zs) = Ok zs /\
  normalise SeqOther = Raise TypeError.
Proof.
  intros zs. split; [apply digits_of_string_of_digits | split; [|split]; reflexivity].
Qed.

(* ---------------------------------------------------------------- real layer *)
Local Open Scope R_scope.

(* in the domain the value is |phi(m+1) - phi(m)|, phi k = (1/(N-k+1)) * sum_i ln (C_i(k) / (N-k+1)) *)
Theorem C19_apen_value : forall zs m r, (1 <= m)%nat -> (m + 1 <= length zs)%nat ->
  let phi k := 1 / IZR (Z.of_nat (length zs + 1 - k))
               * fold_right Rplus 0 (map (fun c => ln (IZR (Z.of_nat c) / IZR (Z.of_nat (length zs + 1 - k))))
                                         (Cs k r zs)) in
  apen (SeqList zs) m r = Ok (Rabs (phi (S m) - phi m)) /\
  apen (SeqArray zs) m r = Ok (Rabs (phi (S m) - phi m)).
Proof. exact apen_value. Qed.

(* every logarithm's argument lies in (0, 1] *)
Theorem C19_log_arguments_in_unit : forall m r U, (0 <= r)%Z ->
  Forall (fun c => 0 < IZR (Z.of_nat c) / IZR (Z.of_nat (length U + 1 - m)) <= 1) (Cs m r U).
Proof. exact log_arguments_in_unit. Qed.

(* phi <= 0, and the result is >= 0 whenever there is one *)
Theorem C19_phi_nonpos : forall m r U, (0 <= r)%Z -> (m <= length U)%nat -> phiR m r U <= 0.
Proof. exact phi_nonpos. Qed.

Theorem C19_apen_nonneg : forall inp m r x, apen inp m r = Ok x -> 0 <= x.
Proof. exact apen_nonneg. Qed.

(* constant sequences give exactly 0, in every form *)
Theorem C19_apen_constant_zero : forall v N m r, (1 <= m)%nat -> (0 <= r)%Z -> (m + 1 <= N)%nat ->
  apen (SeqList (repeat v N)) m r = Ok 0 /\ apen (SeqArray (repeat v N)) m r = Ok 0 /\
  ((0 <= v <= 9)%Z -> apen (SeqStr (string_of_digits (repeat v N))) m r = Ok 0).
Proof. exact apen_constant_zero. Qed.

(* digit string, list and array of the same sequence give the same value (for every m and r) *)
Theorem C19_apen_forms_agree : forall zs m r, Forall (fun z => 0 <= z <= 9)%Z zs ->
  apen (SeqStr (string_of_digits zs)) m r = apen (SeqList zs) m r /\
  apen (SeqArray zs) m r = apen (SeqList zs) m r.
Proof. exact apen_forms_agree. Qed.

Theorem C19_apen_list_array : forall zs m r, apen (SeqArray zs) m r = apen (SeqList zs) m r.
Proof. exact apen_list_array. Qed.

(* an unsupported sequence type raises TypeError, whatever m and r *)
Theorem C19_apen_type_error : forall m r, apen SeqOther m r = Raise TypeError.
Proof. exact apen_type_error. Qed.

(* the executable interval twin used by the correspondence encloses the model's real value and raises
   the same exceptions; a `true` of the comparison means: within 2^-30 of the model's value *)
Theorem C19_twin_encloses : forall inp m r, (0 <= r)%Z ->
  match apen inp m r, apen_twin inp m r with
  | Ok x, Ok xi => contains (I.convert xi) (Xreal x)
  | Raise e, Raise e' => e = e'
  | _, _ => False
  end.
Proof. exact apen_twin_correct. Qed.

Theorem C19_close_to_model_sound : forall m r U mant ex, (0 <= r)%Z -> (m + 1 <= length U)%nat ->
  close_to_model m r U mant ex = true -> Rabs (doubleR mant ex - apenR m r U) <= / IZR (2 ^ 30).
Proof. exact close_to_model_sound. Qed.

(* real-valued tolerances (r = 0.5, 0.2 * std, ...): an integer distance d is within a real r exactly when
   it is within floor r, so the counts for a real tolerance are the integer model's counts for its floor *)
Theorem C19_real_tolerance_floor : forall (d : Z) (rr : R), IZR d <= rr <-> (d <= Raux.Zfloor rr)%Z.
Proof. exact real_tolerance_floor. Qed.

Theorem C19_real_tolerance_counts : forall m (rr : R) U,
  map (fun xi => length (filter (fun xj => if Rle_dec (IZR (max_dist xi xj)) rr then true else false)
                                (xwindows m U))) (xwindows m U)
  = Cs m (Raux.Zfloor rr) U.
Proof. exact CsR_floor. Qed.

(* soundness of the correspondence comparison itself (Corr/C19.check_case): a passing value case means the
   model returns a real value within 2^-30 of the transported double and the observed counts are the
   model's; a passing exception case means the model raises, and a model TypeError only passes on TypeError *)
Theorem C19_check_case_sound : forall inp m r mant ex cnt, (0 <= r)%Z ->
  check_case (CApen inp m r (Ok (Dbl mant ex)) cnt) = true ->
  exists x U, apen inp m r = Ok x /\ normalise inp = Ok U /\
    Rabs (doubleR mant ex - x) <= / IZR (2 ^ 30) /\
    (forall o1 o0, cnt = Some (o1, o0) -> o1 = Cs (S m) r U /\ o0 = Cs m r U).
Proof. exact check_case_sound_value. Qed.

Theorem C19_check_case_sound_exc : forall inp m r e cnt, (0 <= r)%Z ->
  check_case (CApen inp m r (Raise e) cnt) = true ->
  (exists e', apen inp m r = Raise e' /\ (e' = TypeError -> e = TypeError)) /\
  check_case (CApen inp m r (Ok NonFinite) cnt) = false.
Proof. intros inp m r e cnt Hr H; split; [exact (check_case_sound_exc inp m r e cnt Hr H) | apply check_case_nonfinite]. Qed.

(* non-vacuity: a non-constant sequence in the domain in its three forms, its exact counts (with strict
   instances of C monotonicity), an enclosure far from 0 (apen("0120120121", 2, 1) = 0.37955710034251244
   = 1709373215668365 * 2^-52), which the comparison accepts, while it rejects 0 and the next-but-one double *)
Example C19_nonvacuous :
  let zs := [0;1;2;0;1;2;0;1;2;1]%Z in
  Forall (fun z => 0 <= z <= 9)%Z zs /\ (2 + 1 <= length zs)%nat /\
  string_of_digits zs = "0120120121"%string /\
  normalise (SeqStr "0120120121") = Ok zs /\
  Cs 2 0 zs = [3; 3; 2; 3; 3; 2; 3; 3; 1]%nat /\
  Cs 3 0 zs = [3; 2; 2; 3; 2; 2; 3; 1]%nat /\
  Cs 2 1 zs = [6; 7; 3; 6; 7; 3; 6; 7; 6]%nat /\
  Cs 3 1 zs = [4; 3; 2; 4; 3; 2; 4; 6]%nat /\
  (I.subset (apenI 2 1 zs) (I.bnd (F.scale2 (F.fromZ 1) (-2)%Z) (F.scale2 (F.fromZ 1) (-1)%Z))
   && close_to_model 2 1 zs 1709373215668365 (-52)
   && negb (close_to_model 2 1 zs 0 0)
   && negb (close_to_model 2 1 zs (1709373215668365 + 2 ^ 24) (-52)))%bool = true.
Proof.
  cbv zeta. split; [repeat (apply Forall_cons; [lia|]); apply Forall_nil|].
  split; [vm_compute; lia|].
  repeat (split; [vm_compute; reflexivity|]). vm_compute; reflexivity.
Qed.

Print Assumptions C19_window_count.
Print Assumptions C19_window_content.
Print Assumptions C19_distance.
Print Assumptions C19_counts_are_pincus.
Print Assumptions C19_C_self_match.
Print Assumptions C19_C_monotone.
Print Assumptions C19_counts_constant.
Print Assumptions C19_normalise_forms.
Print Assumptions C19_apen_value.
Print Assumptions C19_log_arguments_in_unit.
Print Assumptions C19_phi_nonpos.
Print Assumptions C19_apen_nonneg.
Print Assumptions C19_apen_constant_zero.
Print Assumptions C19_apen_forms_agree.
Print Assumptions C19_apen_list_array.
Print Assumptions C19_apen_type_error.
Print Assumptions C19_twin_encloses.
Print Assumptions C19_close_to_model_sound.
Print Assumptions C19_real_tolerance_floor.
Print Assumptions C19_real_tolerance_counts.
Print Assumptions C19_check_case_sound.
Print Assumptions C19_check_case_sound_exc.
From CPL Require Import gen.GenFuns_C19 GenProps.GenFunsEquivC19 GenProps.C19Src. (* source tie: gen/GenFuns_C19.v is regenerated from apen.py on every run *)
Theorem C19_source_tie : (forall x y : list Z, src_apen_maximum_distance x y = match combine x y with nil => Raise ValueError | _ => Ok (max_dist x y) end) /\ (forall (U : list Z) (m : nat), src_apen_windows U (Z.of_nat (length U)) (Z.of_nat m) = Ok (xwindows m U)) /\ (forall (xs : list (list Z)) (xi : list Z) (r : Z), Forall (fun xj => combine xi xj <> nil) xs -> src_apen_count xs xi r = Ok (Z.of_nat (match_count r xs xi))). Proof. exact C19_source_translation_agrees. Qed. Print Assumptions C19_source_tie.
