(* C13 — ReversibleRule is second-order, time-reversible, and does not alias its input.
   Property theorems only; proofs are in Proofs/ReversibleProofs.v.

   Vocabulary (Model/Reversible.v, Proofs/ReversibleProofs.v):
     heap = list of objects (an object = its rows; a list / 1D array = one row); h_get h id; h_row h (id,row);
     init_arg = ArgList id | ArgArray id | ArgView id row   -- the three ways of passing init_state;
     run_reversible h ca_id arg R T r = ReversibleRule(<arg>, R) built by the COPYING constructor (the code
       as it is), then evolve(<array at ca_id>, T, rule, r); returns the final heap and the result array;
     run_reversible_aliasing = the same with the by-reference constructor (the code before commit bfa38cd);
     elem_cell R [l;c;r] = bit (4l+2c+r) of R; elem_step R s = the elementary rule on the ring;
     xor_rows = element-wise `^`; so_row R prev init t = s_t and so_before .. t = s_{t-1} of the
     recurrence s_{t+1} = f_R(s_t) xor s_{t-1}, s_{-1} = prev, s_0 = init. *)
From Coq Require Import List Arith ZArith NArith Lia.
From CPL Require Import Model.Base Model.Numbering Model.Rules Model.Engine Model.Evolve1D Model.Reversible.
From CPL Require Import Proofs.NumberingProofs Proofs.ReversibleProofs.
Import ListNotations.

(* Second order: for every heap, every way of passing init_state, every ring size N >= 1, rule R < 256,
   prev and init of length N (binary or not: `^` is Z.lxor), every T >= 1 and every history the
   automaton already holds: the call returns the automaton followed by s_1 .. s_{T-1}, where
   s_0 = init, s_1 = f_R(s_0) xor prev, s_{t+2} = f_R(s_{t+1}) xor s_t; and the rule's private
   vector ends up holding s_{T-2}. *)
Theorem C13_reversible_second_order : forall h ca_id arg R T,
  let prev := h_row h (arg_ref arg) in
  let ca := h_get h ca_id in
  let init := last ca [] in
  let s := so_row R prev init in
  (R < 256)%N -> 1 <= length init -> length prev = length init -> 1 <= T ->
  run_reversible h ca_id arg R T 1 =
    Ok (h ++ [[so_before R prev init (T - 1)]], ca ++ map s (seq 1 (T - 1))) /\
  s 0 = init /\
  s 1 = xor_rows (elem_step R init) prev /\
  (forall t, s (S (S t)) = xor_rows (elem_step R (s (S t))) (s t)) /\
  so_before R prev init 0 = prev /\ (forall t, so_before R prev init (S t) = s t).
Proof.
  intros h ca_id arg R T prev ca init s HR HN Hp HT.
  split; [apply reversible_second_order; assumption|]. split; [reflexivity|]. split; [reflexivity|].
  split; [intros t; reflexivity|]. split; [reflexivity|intros t; reflexivity].
Qed.

(* the same sentence cell by cell: cell c of s_{t+1} is bit (4 s_t[c-1] + 2 s_t[c] + s_t[c+1]) of R
   (indices modulo N) xor cell c of s_{t-1} *)
Theorem C13_second_order_cellwise : forall R prev init t c,
  length prev = length init -> c < length init ->
  let N := length init in
  let s := so_row R prev init t in
  nth c (so_row R prev init (S t)) 0%Z =
    Z.lxor (elem_cell R [nth ((c + N - 1) mod N) s 0%Z; nth c s 0%Z; nth ((c + 1) mod N) s 0%Z])
           (nth c (so_before R prev init t) 0%Z).
Proof. exact so_row_cellwise. Qed.

(* binary states stay binary *)
Theorem C13_states_stay_binary : forall R prev init t, binary prev -> binary init ->
  binary (so_before R prev init t) /\ binary (so_row R prev init t).
Proof. exact so_state_binary. Qed.

(* Time reversal: run forward T >= 2 steps; then a NEW rule object with prev' := s_{T-1}, evolved
   from init' := s_{T-2} (in any heap, passed in any way, after any history), returns
   s_{T-3}, ..., s_0, prev: row k of the new run is s_{T-2-k} = so_before (T-1-k). *)
Theorem C13_reversible_retraces : forall h ca_id arg R T h2 ca_id2 arg2,
  let prev := h_row h (arg_ref arg) in
  let init := last (h_get h ca_id) [] in
  (R < 256)%N -> 1 <= length init -> length prev = length init -> 2 <= T ->
  run_reversible h ca_id arg R T 1 =
    Ok (h ++ [[so_before R prev init (T - 1)]], h_get h ca_id ++ map (so_row R prev init) (seq 1 (T - 1))) /\
  (h_row h2 (arg_ref arg2) = so_row R prev init (T - 1) ->
   last (h_get h2 ca_id2) [] = so_row R prev init (T - 2) ->
   run_reversible h2 ca_id2 arg2 R T 1 =
     Ok (h2 ++ [[init]],
         h_get h2 ca_id2 ++ map (fun k => so_before R prev init (T - 1 - k)) (seq 1 (T - 1)))).
Proof. exact reversible_retraces. Qed.

(* the same for one-row automata, in terms of the two returned arrays only: the backward run is
   the forward run read backwards, ending on prev *)
Theorem C13_reversible_retraces_rev : forall h ca_id arg R T h2 ca_id2 arg2 out1 hf,
  let prev := h_row h (arg_ref arg) in
  (R < 256)%N -> 2 <= T ->
  (exists init, h_get h ca_id = [init] /\ 1 <= length init /\ length prev = length init) ->
  run_reversible h ca_id arg R T 1 = Ok (hf, out1) ->
  h_row h2 (arg_ref arg2) = nth (T - 1) out1 [] ->
  h_get h2 ca_id2 = [nth (T - 2) out1 []] ->
  exists hb, run_reversible h2 ca_id2 arg2 R T 1 = Ok (hb, rev (removelast out1) ++ [prev]).
Proof. exact reversible_retraces_rev. Qed.

(* No aliasing, on the property's domain: for every heap and every way init_state is passed (a list
   object, an array, the view of ANY row of ANY array -- the automaton that is then evolved
   included), the call returns, every object the caller had keeps its value, the result starts with
   the automaton as given; in particular row 0 of the result is row 0 of the automaton and row H-1
   is the initial state. *)
Theorem C13_reversible_no_alias : forall h ca_id arg R T,
  (R < 256)%N -> 1 <= length (last (h_get h ca_id) []) ->
  length (h_row h (arg_ref arg)) = length (last (h_get h ca_id) []) -> 1 <= T ->
  exists h' out, run_reversible h ca_id arg R T 1 = Ok (h', out) /\
    (forall id, id < length h -> h_get h' id = h_get h id) /\
    firstn (length (h_get h ca_id)) out = h_get h ca_id /\
    nth 0 out [] = nth 0 (h_get h ca_id) [] /\
    nth (length (h_get h ca_id) - 1) out [] = last (h_get h ca_id) [].
Proof. exact reversible_no_alias. Qed.

(* the documented call pattern, spelled out: rule = ReversibleRule(ca[0], R); evolve(ca, T, rule) *)
Theorem C13_no_alias_view_of_row0 : forall h ca_id init R T,
  h_get h ca_id = [init] -> (R < 256)%N -> 1 <= length init -> 1 <= T ->
  exists h' out, run_reversible h ca_id (ArgView ca_id 0) R T 1 = Ok (h', out) /\
    (forall id, id < length h -> h_get h' id = h_get h id) /\ nth 0 out [] = init.
Proof.
  intros h ca_id init R T Hca HR HN HT.
  assert (Hl : last (h_get h ca_id) [] = init) by (rewrite Hca; reflexivity).
  assert (Hr : h_row h (arg_ref (ArgView ca_id 0)) = init) by (unfold h_row; cbn [arg_ref fst snd]; rewrite Hca; reflexivity).
  destruct (reversible_no_alias h ca_id (ArgView ca_id 0) R T) as [h' [out [E [Hfr [_ [H0 _]]]]]];
    [exact HR|rewrite Hl; exact HN|rewrite Hl, Hr; reflexivity|exact HT|].
  exists h', out. split; [exact E|]. split; [exact Hfr|]. rewrite H0, Hca. reflexivity.
Qed.

(* No aliasing, unconditionally: ANY radius, rule number, shapes and step count; whenever the call
   returns at all, the caller's objects are untouched and the result extends the automaton. *)
Theorem C13_reversible_frame : forall h ca_id arg R T r h' out,
  ca_id < length h ->
  run_reversible h ca_id arg R T r = Ok (h', out) ->
  (forall id, id < length h -> h_get h' id = h_get h id) /\
  length h' = S (length h) /\
  exists rows, out = h_get h ca_id ++ rows /\ length rows = T - 1.
Proof. exact reversible_frame. Qed.

(* The two constructors are different models: with the by-reference constructor (the code before
   the fix) there is an input in the property's domain on which the call returns, row 0 of the
   result is not the initial state and the caller's array has changed. *)
Theorem C13_reversible_aliasing_refuted :
  exists h ca_id arg R T h' out,
    (R < 256)%N /\ 1 <= length (last (h_get h ca_id) []) /\
    length (h_row h (arg_ref arg)) = length (last (h_get h ca_id) []) /\ 1 <= T /\
    run_reversible_aliasing h ca_id arg R T 1 = Ok (h', out) /\
    nth 0 out [] <> nth 0 (h_get h ca_id) [] /\
    h_get h' ca_id <> h_get h ca_id.
Proof. exact reversible_aliasing_refuted. Qed.

Theorem C13_aliasing_mutates_list :
  exists h ca_id id R T h' out,
    run_reversible_aliasing h ca_id (ArgList id) R T 1 = Ok (h', out) /\ id <> ca_id /\
    h_get h' id <> h_get h id /\
    exists h'', run_reversible h ca_id (ArgList id) R T 1 = Ok (h'', out) /\ h_get h'' id = h_get h id.
Proof. exact reversible_aliasing_list_mutated. Qed.

(* the heap model with the copying constructor refines the pure state machine of Model/Evolve1D.v *)
Theorem C13_heap_refines_pure : forall h ca_id arg R T,
  (R < 256)%N -> 1 <= length (last (h_get h ca_id) []) ->
  length (h_row h (arg_ref arg)) = length (last (h_get h ca_id) []) ->
  run_reversible h ca_id arg R T 1 =
    match evolve_plain (reversible_rule1 R) (fun z => z) 1 (h_row h (arg_ref arg)) (h_get h ca_id) T with
    | Ok (st', out) => Ok (h ++ [[st']], out)
    | Raise e => Raise e
    end.
Proof. exact reversible_heap_refines_pure. Qed.

(* f_R is the textbook table: on binary cells elem_cell R [l; c; r] is bit (4l + 2c + r) of the rule
   number (ties the spec to Wolfram's numbering directly, not only through the model's bits_to_int) *)
Theorem C13_elem_cell_closed_form : forall R l c r,
  (l = 0 \/ l = 1)%Z -> (c = 0 \/ c = 1)%Z -> (r = 0 \/ r = 1)%Z ->
  elem_cell R [l; c; r] = b2z (N.testbit R (Z.to_N (4 * l + 2 * c + r))).
Proof. exact elem_cell_closed_form. Qed.

(* The rule object's own state: evolve T1 steps, then evolve the RESULT (a new array, allocated
   behind the rule's private vector) T2 more steps with the SAME rule object.  The two calls are one
   run of T1 + T2 - 1 steps, and after each call the object's vector holds the row before the last
   one (s_{T1-2}, then s_{T1+T2-3}); the caller's heap h is a prefix of both final heaps. *)
Theorem C13_reversible_continues : forall h ca_id arg R T1 T2,
  let prev := h_row h (arg_ref arg) in
  let ca := h_get h ca_id in
  let init := last ca [] in
  let o := snd (mk_reversible h arg R) in
  let out1 := ca ++ map (so_row R prev init) (seq 1 (T1 - 1)) in
  let h2 := h ++ [[so_before R prev init (T1 - 1)]] in
  (R < 256)%N -> 1 <= length init -> length prev = length init -> 1 <= T1 -> 1 <= T2 ->
  evolve_heap (fst (mk_reversible h arg R)) ca_id T1 o 1 = Ok (h2, out1) /\
  evolve_heap (h2 ++ [out1]) (length h2) T2 o 1 =
    Ok (h ++ [[so_before R prev init (T1 + T2 - 2)]] ++ [out1],
        ca ++ map (so_row R prev init) (seq 1 (T1 + T2 - 2))).
Proof. exact reversible_continues. Qed.

(* ------------------------------------------------------------------ non-vacuity *)
Local Open Scope Z_scope.
(* the input of the finding fixed by commit bfa38cd (known_findings.json) *)
Definition row11 : list Z := [0; 1; 0; 0; 1; 1; 0; 1; 0; 0; 0].

(* rule 90R on a ring of 11, the documented pattern ReversibleRule(ca[0], 90) then evolve(ca, 6):
   the hypotheses of the theorems hold, the run is non-trivial, row 0 is intact and the caller's
   array is unchanged; the by-reference constructor on the same input overwrites both *)
Example C13_nonvacuous_rule90 :
  let h := [[row11]] in
  (90 < 256)%N /\ (1 <= length (last (h_get h 0) []))%nat /\
  length (h_row h (arg_ref (ArgView 0 0))) = length (last (h_get h 0) []) /\
  run_reversible h 0 (ArgView 0 0) 90 6 1 =
    Ok ([[row11];
         [[1; 1; 1; 0; 0; 0; 1; 1; 0; 1; 0]]],
        [[0; 1; 0; 0; 1; 1; 0; 1; 0; 0; 0];
         [1; 1; 1; 1; 0; 0; 0; 1; 1; 0; 0];
         [1; 1; 0; 1; 0; 1; 1; 0; 1; 1; 1];
         [1; 0; 1; 1; 0; 1; 1; 1; 0; 0; 0];
         [1; 1; 1; 0; 0; 0; 1; 1; 0; 1; 0];
         [0; 0; 0; 0; 0; 0; 0; 0; 0; 0; 0]]) /\
  run_reversible_aliasing h 0 (ArgView 0 0) 90 6 1 =
    Ok ([[[1; 1; 1; 0; 0; 0; 1; 1; 0; 1; 0]]],
        [[1; 1; 1; 0; 0; 0; 1; 1; 0; 1; 0];
         [1; 1; 1; 1; 0; 0; 0; 1; 1; 0; 0];
         [1; 1; 0; 1; 0; 1; 1; 0; 1; 1; 1];
         [1; 0; 1; 1; 0; 1; 1; 1; 0; 0; 0];
         [1; 1; 1; 0; 0; 0; 1; 1; 0; 1; 0];
         [0; 0; 0; 0; 0; 0; 0; 0; 0; 0; 0]]).
Proof. cbv zeta. repeat (split; [vm_compute; try reflexivity; try lia|]). vm_compute. reflexivity. Qed.

(* rule 150R, prev given as a detached list that differs from init; forward 7 steps, then backward
   from the last two rows: the backward run is the forward run reversed followed by prev *)
Example C13_nonvacuous_rule150_retrace :
  let prev := [1; 0; 0; 1; 0; 1; 1] in
  let init := [0; 1; 1; 0; 0; 0; 1] in
  let h := [[init]; [prev]] in
  exists hf out1 hb,
    run_reversible h 0 (ArgList 1) 150 7 1 = Ok (hf, out1) /\
    out1 = map (so_row 150 prev init) (seq 0 7) /\
    nth 1 out1 [] <> nth 0 out1 [] /\ nth 3 out1 [] <> nth 1 out1 [] /\
    run_reversible [[nth 5 out1 []]; [nth 6 out1 []]] 0 (ArgArray 1) 150 7 1
      = Ok (hb, rev (removelast out1) ++ [prev]).
Proof.
  cbv zeta. eexists. eexists. eexists.
  split; [vm_compute; reflexivity|]. split; [vm_compute; reflexivity|].
  split; [vm_compute; intros E; discriminate E|]. split; [vm_compute; intros E; discriminate E|].
  vm_compute. reflexivity.
Qed.

(* rule 30 = 0b00011110: neighbourhood 1,0,0 is bit 4; continuing 4 + 3 steps with one object = 6 steps *)
Example C13_nonvacuous_closed_form_and_continue :
  elem_cell 30 [1; 0; 0] = 1 /\ elem_cell 30 [1; 1; 0] = 0 /\
  let h := [[[0; 1; 0; 0; 1]]] in
  let mk := mk_reversible h (ArgView 0 0) 90 in
  exists h2 out1 h4,
    evolve_heap (fst mk) 0 4 (snd mk) 1 = Ok (h2, out1) /\
    evolve_heap (h2 ++ [out1]) (length h2) 3 (snd mk) 1 = Ok (h4, snd (match run_reversible h 0 (ArgView 0 0) 90 6 1 with Ok r => r | Raise _ => ([], []) end)) /\
    nth 3 out1 [] <> nth 0 out1 [].
Proof.
  split; [reflexivity|]. split; [reflexivity|]. cbv zeta. eexists. eexists. eexists.
  split; [vm_compute; reflexivity|]. split; [vm_compute; reflexivity|]. vm_compute. intros E; discriminate E.
Qed.

Print Assumptions C13_reversible_second_order.
Print Assumptions C13_second_order_cellwise.
Print Assumptions C13_states_stay_binary.
Print Assumptions C13_reversible_retraces.
Print Assumptions C13_reversible_retraces_rev.
Print Assumptions C13_reversible_no_alias.
Print Assumptions C13_no_alias_view_of_row0.
Print Assumptions C13_reversible_frame.
Print Assumptions C13_reversible_aliasing_refuted.
Print Assumptions C13_aliasing_mutates_list.
Print Assumptions C13_heap_refines_pure.
Print Assumptions C13_elem_cell_closed_form.
Print Assumptions C13_reversible_continues.
From CPL Require Import gen.GenFuns_C13 GenProps.GenFunsEquivC13 GenProps.C13Src. (* source tie: gen/GenFuns_C13.v is regenerated from ca_functions.py on every run *)
Theorem C13_source_tie : (forall (o : rev_obj) (h : heap) (n : list Z) (c t : nat), reversible_call o (h, None) n c t = match src_reversible_call (heap_read o) (heap_write o) (rule_no o) h n c with Ok (h', v) => ((h', None), v) | Raise e => ((h, Some e), 0%Z) end) /\ (forall (R : N) (prev n : list Z) (c t : nat), reversible_rule1 R prev n c t = match src_reversible_call (@nth_error Z) (fun s k v => set_nth k v s) R prev n c with Ok (prev', v) => (prev', v) | Raise _ => (prev, 0%Z) end). Proof. exact C13_source_translation_agrees. Qed. Print Assumptions C13_source_tie.
