(* C14 — Sandpile is the BTW toppling rule; grains are conserved.
   Property theorems only: each is closed by `exact` of a lemma proved in Proofs/SandpileProofs.v.

   Vocabulary (Proofs/SandpileProofs.v):
     cell g row col      entry (row, col) of the grid (list of rows)
     tp x                [x >= 4]  (1 or 0)
     up n x, dn n x      (x - 1) mod n, (x + 1) mod n on naturals
     gsum g              total number of grains
     wf_grid R C g       g has R rows of length C                      (Proofs/Evolve2DProofs.v)
     stable R C g        every cell < 4
     boundary_zero rows cols R C g   every cell that Sandpile(rows, cols)._is_in_boundary accepts holds 0
     no_addition_at adds t           no add_grain(_, t) was scheduled
     no_addition_in adds t n         none at steps t .. t+n-1
   The engine step is Model/Evolve2D.step_plain2d (the memoize=False double loop of evolve2d) with
   r = 1; `ty` is the neighbourhood type (the theorems hold for 'von Neumann' and for 'Moore': the
   rule reads the same five entries).  rows, cols are the constructor arguments of Sandpile; the
   documented use is rows = R, cols = C (open mode never reads them). *)
From Coq Require Import ZArith Lia.
From CPL Require Import Model.Base Model.Rules Model.Engine Model.Evolve2D Model.Sandpile.
From CPL Require Import Model.Memo2D.
From CPL Require Import Proofs.Evolve2DProofs Proofs.SandpileProofs Proofs.SandpileMemoProofs Proofs.SandpileClosedProofs.
Local Open Scope Z_scope.

(* the rule object on the torus block of a cell: closed boundary first, then the schedule, then toppling *)
Theorem C14_rule_on_block : forall rows cols closed adds g R C m row col t,
  wf_grid R C g -> (1 <= R)%nat -> (1 <= C)%nat -> (row < R)%nat -> (col < C)%nat ->
  sandpile_call rows cols closed adds {| nb_vals := torus_block g row col 1; nb_mask := m |} (row, col) t
  = if closed && in_boundary rows cols (row, col) then 0
    else if scheduled adds (row, col) t then cell g row col + 1
    else cell g row col - 4 * tp (cell g row col)
         + tp (cell g (up R row) col) + tp (cell g row (up C col))
         + tp (cell g row (dn C col)) + tp (cell g (dn R row) col).
Proof. exact sandpile_call_block. Qed.

(* the five entries read are unmasked in the neighbourhood evolve2d builds for r = 1 *)
Theorem C14_read_entries_unmasked : forall ty,
  let m := match ty with Moore => no_mask 1 | VonNeumann => vn_mask 1 end in
  nth 1 (nth 0 m []) true = false /\ nth 0 (nth 1 m []) true = false /\ nth 1 (nth 1 m []) true = false /\
  nth 2 (nth 1 m []) true = false /\ nth 1 (nth 2 m []) true = false.
Proof. exact read_entries_unmasked. Qed.

(* open boundary, no addition at this step: one engine step is the BTW parallel toppling map on the
   R x C torus.  On 1xN / 2xN / Nx1 / Nx2 grids up and dn coincide (or are the cell itself) and the
   term is counted once per POSITION. *)
Theorem C14_sandpile_is_btw : forall rows cols adds ty g R C t u,
  wf_grid R C g -> (1 <= R)%nat -> (1 <= C)%nat -> no_addition_at adds t ->
  let g' := snd (step_plain2d (sandpile_rule rows cols false adds) store_id 1 ty u g t) in
  wf_grid R C g' /\
  forall row col, (row < R)%nat -> (col < C)%nat ->
    cell g' row col =
      cell g row col - 4 * tp (cell g row col)
      + tp (cell g (up R row) col) + tp (cell g row (up C col))
      + tp (cell g row (dn C col)) + tp (cell g (dn R row) col).
Proof. exact sandpile_is_btw. Qed.

(* the sum over a cyclic rotation is the sum (the engine of conservation; every n >= 1, every shift) *)
Theorem C14_rotation_sum : forall f n k, (1 <= n)%nat ->
  sumn (fun i => f ((i + k) mod n)%nat) n = sumn f n.
Proof. exact sumn_rot. Qed.

Theorem C14_sandpile_conserves : forall rows cols adds ty g R C t u,
  wf_grid R C g -> (1 <= R)%nat -> (1 <= C)%nat -> no_addition_at adds t ->
  gsum (snd (step_plain2d (sandpile_rule rows cols false adds) store_id 1 ty u g t)) = gsum g.
Proof. exact sandpile_conserves. Qed.

(* closed boundary, boundary cells 0 on entry (as documented): they stay 0 and the total does not grow *)
Theorem C14_sandpile_closed : forall rows cols adds ty g R C t u,
  wf_grid R C g -> (1 <= R)%nat -> (1 <= C)%nat -> no_addition_at adds t ->
  boundary_zero rows cols R C g ->
  let g' := snd (step_plain2d (sandpile_rule rows cols true adds) store_id 1 ty u g t) in
  wf_grid R C g' /\ boundary_zero rows cols R C g' /\ gsum g' <= gsum g.
Proof. exact sandpile_closed. Qed.

(* beyond the property's premise: with non-negative counts the same holds whatever the boundary cells held *)
Theorem C14_sandpile_closed_nonneg : forall rows cols adds ty g R C t u,
  wf_grid R C g -> (1 <= R)%nat -> (1 <= C)%nat -> no_addition_at adds t ->
  (forall i j, 0 <= cell g i j) ->
  let g' := snd (step_plain2d (sandpile_rule rows cols true adds) store_id 1 ty u g t) in
  boundary_zero rows cols R C g' /\ gsum g' <= gsum g /\ (forall i j, 0 <= cell g' i j).
Proof. exact sandpile_closed_nonneg. Qed.

Theorem C14_sandpile_stable_fixed : forall rows cols closed adds ty g R C t u,
  wf_grid R C g -> (1 <= R)%nat -> (1 <= C)%nat -> no_addition_at adds t ->
  stable R C g -> (closed = true -> boundary_zero rows cols R C g) ->
  snd (step_plain2d (sandpile_rule rows cols closed adds) store_id 1 ty u g t) = g.
Proof. exact sandpile_stable_fixed. Qed.

(* on a stable configuration, with ANY schedule: exactly the cells scheduled at this step that are not
   on a closed boundary gain one grain; every other cell keeps its value *)
Theorem C14_sandpile_add_grain : forall rows cols closed adds ty g R C t u,
  wf_grid R C g -> (1 <= R)%nat -> (1 <= C)%nat ->
  stable R C g -> (closed = true -> boundary_zero rows cols R C g) ->
  let g' := snd (step_plain2d (sandpile_rule rows cols closed adds) store_id 1 ty u g t) in
  wf_grid R C g' /\
  forall row col, (row < R)%nat -> (col < C)%nat ->
    cell g' row col =
      if closed && in_boundary rows cols (row, col) then cell g row col
      else if scheduled adds (row, col) t then cell g row col + 1
      else cell g row col.
Proof. exact sandpile_add_grain. Qed.

Theorem C14_sandpile_add_grain_at : forall rows cols closed adds ty g R C t u row col,
  wf_grid R C g -> (1 <= R)%nat -> (1 <= C)%nat ->
  stable R C g -> (closed = true -> boundary_zero rows cols R C g) ->
  (row < R)%nat -> (col < C)%nat -> In ((row, col), t) adds ->
  closed && in_boundary rows cols (row, col) = false ->
  cell (snd (step_plain2d (sandpile_rule rows cols closed adds) store_id 1 ty u g t)) row col = cell g row col + 1.
Proof. exact sandpile_add_grain_at. Qed.

Theorem C14_sandpile_add_grain_elsewhere : forall rows cols closed adds ty g R C t u row col,
  wf_grid R C g -> (1 <= R)%nat -> (1 <= C)%nat ->
  stable R C g -> (closed = true -> boundary_zero rows cols R C g) ->
  (row < R)%nat -> (col < C)%nat -> ~ In ((row, col), t) adds ->
  cell (snd (step_plain2d (sandpile_rule rows cols closed adds) store_id 1 ty u g t)) row col = cell g row col.
Proof. exact sandpile_add_grain_elsewhere. Qed.

(* whole evolutions, by induction over the steps of Engine.iter_steps (n steps numbered t, t+1, ...) *)
Theorem C14_total_constant : forall rows cols adds ty R C n g t u,
  (1 <= R)%nat -> (1 <= C)%nat -> wf_grid R C g -> no_addition_in adds t n ->
  let grids := snd (iter_steps (step_plain2d (sandpile_rule rows cols false adds) store_id 1 ty) n u g t) in
  length grids = n /\ Forall (fun g' => wf_grid R C g' /\ gsum g' = gsum g) grids.
Proof. exact sandpile_total_constant. Qed.

(* chain_le x [y1; y2; ...] := y1 <= x /\ y2 <= y1 /\ ... *)
Theorem C14_total_nonincreasing : forall rows cols adds ty R C n g t u,
  (1 <= R)%nat -> (1 <= C)%nat -> wf_grid R C g -> no_addition_in adds t n ->
  boundary_zero rows cols R C g ->
  let grids := snd (iter_steps (step_plain2d (sandpile_rule rows cols true adds) store_id 1 ty) n u g t) in
  length grids = n /\ chain_le (gsum g) (map gsum grids) /\
  Forall (fun g' => wf_grid R C g' /\ boundary_zero rows cols R C g' /\ gsum g' <= gsum g) grids.
Proof. exact sandpile_total_nonincreasing. Qed.

Theorem C14_stable_forever : forall rows cols closed adds ty R C n g t u,
  (1 <= R)%nat -> (1 <= C)%nat -> wf_grid R C g -> no_addition_in adds t n ->
  stable R C g -> (closed = true -> boundary_zero rows cols R C g) ->
  snd (iter_steps (step_plain2d (sandpile_rule rows cols closed adds) store_id 1 ty) n u g t) = repeat g n.
Proof. exact sandpile_stable_forever. Qed.

(* evolve2d(hist, T, Sandpile(rows, cols, False), r=1, neighbourhood=ty), T >= 1: every grid appended
   to the history holds as many grains as the initial one *)
Theorem C14_evolution_conserves : forall rows cols adds ty R C hist T,
  (1 <= R)%nat -> (1 <= C)%nat -> wf_grid R C (last hist []) -> (1 <= T)%nat ->
  no_addition_in adds 1 (T - 1) ->
  exists u' grids,
    evolve2d_plain (sandpile_rule rows cols false adds) store_id 1 ty tt hist T = Ok (u', hist ++ grids) /\
    length grids = (T - 1)%nat /\
    Forall (fun g' => gsum g' = gsum (last hist [])) grids.
Proof. exact sandpile_evolution_conserves. Qed.

Theorem C14_evolution_closed : forall rows cols adds ty R C hist T,
  (1 <= R)%nat -> (1 <= C)%nat -> wf_grid R C (last hist []) -> (1 <= T)%nat ->
  no_addition_in adds 1 (T - 1) -> boundary_zero rows cols R C (last hist []) ->
  exists u' grids,
    evolve2d_plain (sandpile_rule rows cols true adds) store_id 1 ty tt hist T = Ok (u', hist ++ grids) /\
    length grids = (T - 1)%nat /\
    chain_le (gsum (last hist [])) (map gsum grids) /\
    Forall (boundary_zero rows cols R C) grids.
Proof. exact sandpile_evolution_closed. Qed.

(* ------------------------------------------------------------------ non-vacuity *)
Ltac wf := split; [reflexivity | repeat constructor].
Ltac noadd := let a := fresh in let H := fresh in
  intros a H; cbn [In] in H; repeat (destruct H as [H|H]; [subst a; cbn [snd]; lia|]); contradiction.
Ltac by_cells4 Hb :=
  let row := fresh "row" in let col := fresh "col" in let Hr := fresh in let Hc := fresh in
  intros row col Hr Hc;
  do 4 (destruct row as [|row];
        [do 4 (destruct col as [|col]; [first [reflexivity | (intros Hb; vm_compute in Hb; discriminate Hb) | (intros _; reflexivity)]|]); lia|]);
  lia.

(* 1x3 torus: top and bottom of every cell are the cell itself and are counted twice:
   [4 0 5] -> [3 2 4]  (cell 0: 4 - 4 + 2 (itself, twice) + 1 (left = cell 2); 9 grains before and after) *)
Example C14_nonvacuous_1x3 :
  let g := [[4; 0; 5]] in let adds := [((0, 1), 2)]%nat in
  wf_grid 1 3 g /\ no_addition_at adds 1 /\
  snd (step_plain2d (sandpile_rule 1 3 false adds) store_id 1 VonNeumann tt g 1) = [[3; 2; 4]] /\
  gsum g = 9 /\ gsum [[3; 2; 4]] = 9 /\
  evolve2d_plain (sandpile_rule 1 3 false []) store_id 1 VonNeumann tt [g] 3
  = Ok (tt, [[[4; 0; 5]]; [[3; 2; 4]]; [[4; 3; 2]]]).
Proof.
  cbv zeta. split; [wf|]. split; [noadd|]. repeat split; vm_compute; reflexivity.
Qed.

(* 2x2 torus: up = dn for rows and for columns; each neighbour is counted twice *)
Example C14_nonvacuous_2x2 :
  let g := [[4; 0]; [1; 9]] in
  wf_grid 2 2 g /\ no_addition_at [] 1 /\
  snd (step_plain2d (sandpile_rule 2 2 false []) store_id 1 VonNeumann tt g 1) = [[0; 4]; [5; 5]] /\
  gsum g = 14 /\ gsum [[0; 4]; [5; 5]] = 14 /\
  (up 2 0 = dn 2 0)%nat /\ (up 1 0 = 0)%nat.
Proof.
  cbv zeta. split; [wf|]. split; [noadd|]. repeat split; vm_compute; reflexivity.
Qed.

(* closed 4x4 pile with a zero boundary: grains fall off the interior, the total strictly drops *)
Example C14_nonvacuous_closed :
  let g := [[0; 0; 0; 0]; [0; 5; 4; 0]; [0; 1; 7; 0]; [0; 0; 0; 0]] in
  wf_grid 4 4 g /\ boundary_zero 4 4 4 4 g /\ no_addition_at [] 1 /\
  snd (step_plain2d (sandpile_rule 4 4 true []) store_id 1 VonNeumann tt g 1)
  = [[0; 0; 0; 0]; [0; 2; 2; 0]; [0; 3; 4; 0]; [0; 0; 0; 0]] /\
  gsum g = 17 /\ gsum [[0; 0; 0; 0]; [0; 2; 2; 0]; [0; 3; 4; 0]; [0; 0; 0; 0]] = 11.
Proof.
  cbv zeta. split; [wf|]. split; [by_cells4 Hb|]. split; [noadd|]. repeat split; vm_compute; reflexivity.
Qed.

(* a stable closed 4x4 pile is fixed; add_grain((1, 2), 1) raises exactly that cell at step 1;
   an addition scheduled on the closed boundary cell (0, 1) is ignored *)
Example C14_nonvacuous_add_grain :
  let g := [[0; 0; 0; 0]; [0; 3; 2; 0]; [0; 1; 3; 0]; [0; 0; 0; 0]] in
  let adds := [((1, 2), 1); ((0, 1), 1); ((2, 2), 2)]%nat in
  wf_grid 4 4 g /\ boundary_zero 4 4 4 4 g /\ stable 4 4 g /\
  In ((1, 2), 1)%nat adds /\ true && in_boundary 4 4 (1, 2)%nat = false /\
  snd (step_plain2d (sandpile_rule 4 4 true []) store_id 1 VonNeumann tt g 1) = g /\
  snd (step_plain2d (sandpile_rule 4 4 true adds) store_id 1 VonNeumann tt g 1)
  = [[0; 0; 0; 0]; [0; 3; 3; 0]; [0; 1; 3; 0]; [0; 0; 0; 0]].
Proof.
  cbv zeta. split; [wf|]. split; [by_cells4 Hb|]. split; [by_cells4 Hb|].
  split; [left; reflexivity|]. repeat split; vm_compute; reflexivity.
Qed.

(* OUTSIDE the premise (recorded, not claimed): an addition scheduled on a cell of a NON-stable
   configuration returns centre + 1 without toppling.  A grain arriving from a toppling neighbour at that
   step is lost (total 4 -> 4 although one grain was added), and a scheduled cell holding >= 4 keeps its
   grains while its neighbours still receive from it (total 4 -> 9).  /repo behaves the same way. *)
Example C14_add_grain_outside_premise :
  snd (step_plain2d (sandpile_rule 3 3 false [((1, 1), 1)]%nat) store_id 1 VonNeumann tt
         [[0; 4; 0]; [0; 0; 0]; [0; 0; 0]] 1) = [[1; 0; 1]; [0; 1; 0]; [0; 1; 0]] /\
  snd (step_plain2d (sandpile_rule 3 3 false [((1, 1), 1)]%nat) store_id 1 VonNeumann tt
         [[0; 0; 0]; [0; 4; 0]; [0; 0; 0]] 1) = [[0; 1; 0]; [1; 5; 1]; [0; 1; 0]].
Proof. split; vm_compute; reflexivity. Qed.

(* ------------------------------------------------------------------ every memoize mode (with C04) *)
(* evolve2d(hist, T, Sandpile(rows, cols, False), r=1, neighbourhood=ty, memoize=m) with NO scheduled
   additions, m in {False (Plain), True (Memo), "recursive" (Recursive)}; engines of Model/Memo2D.v.
   The rule object is then a pure function of the five unmasked entries it reads, so (C04 transparency)
   every mode returns the array of the plain loop; that array is the history followed by the iterated BTW
   map  btw_map R C g = grid_of R C (btw_cell g R C)  (btw_iter R C n g = [btw_map g; btw_map (btw_map g); ...]),
   and every grid of it holds as many grains as the initial one. *)
Theorem C14_sandpile_conserves_all_modes : forall rows cols (m : mode) ty R C hist T,
  (1 <= R)%nat -> (1 <= C)%nat -> wf_grid R C (last hist []) -> (1 <= T)%nat ->
  arr2_of (evolve2d_mode_fixed (sandpile_rule rows cols false []) store_id m 1 ty tt hist T)
  = arr2_of (evolve2d_plain (sandpile_rule rows cols false []) store_id 1 ty tt hist T) /\
  arr2_of (evolve2d_mode_fixed (sandpile_rule rows cols false []) store_id m 1 ty tt hist T)
  = Ok (hist ++ btw_iter R C (T - 1) (last hist [])) /\
  length (btw_iter R C (T - 1) (last hist [])) = (T - 1)%nat /\
  Forall (fun g' => gsum g' = gsum (last hist [])) (btw_iter R C (T - 1) (last hist [])).
Proof. exact sandpile_conserves_all_modes. Qed.

(* non-vacuity: the 2x2 torus (neighbours coincide) through all three engines *)
Example C14_nonvacuous_all_modes :
  let g := [[4; 0]; [1; 9]] in
  wf_grid 2 2 (last [g] []) /\
  map (fun m => arr2_of (evolve2d_mode_fixed (sandpile_rule 2 2 false []) store_id m 1 VonNeumann tt [g] 3))
      [Plain; Memo; Recursive]
  = repeat (Ok [[[4; 0]; [1; 9]]; [[0; 4]; [5; 5]]; [[4; 2]; [3; 5]]]) 3 /\
  btw_iter 2 2 2 g = [[[0; 4]; [5; 5]]; [[4; 2]; [3; 5]]].
Proof. cbv zeta. split; [wf|]. split; vm_compute; reflexivity. Qed.

(* OUTSIDE the contract of `memoize` (its docstring excludes rules that depend on the cell index): with
   the CLOSED boundary the rule reads c, the memo key is the block only, and the memoised engines differ
   from the plain loop.  6x6 zeros with 4 grains at (1,2) and (4,2): cell (3,2) is served the cached 0 of
   the boundary cell (0,2), and the boundary cell (5,2) is served the cached 1 of the interior cell (2,2).
   /repo returns exactly these arrays for memoize=True and memoize="recursive". *)
Example C14_closed_memo_outside_contract :
  let g := [[0;0;0;0;0;0]; [0;0;4;0;0;0]; [0;0;0;0;0;0]; [0;0;0;0;0;0]; [0;0;4;0;0;0]; [0;0;0;0;0;0]] in
  let plain := [[0;0;0;0;0;0]; [0;1;0;1;0;0]; [0;0;1;0;0;0]; [0;0;1;0;0;0]; [0;1;0;1;0;0]; [0;0;0;0;0;0]] in
  let memo  := [[0;0;0;0;0;0]; [0;1;0;1;0;0]; [0;0;1;0;0;0]; [0;0;0;0;0;0]; [0;1;0;1;0;0]; [0;0;1;0;0;0]] in
  arr2_of (evolve2d_mode_fixed (sandpile_rule 6 6 true []) store_id Plain 1 VonNeumann tt [g] 2) = Ok [g; plain] /\
  arr2_of (evolve2d_mode_fixed (sandpile_rule 6 6 true []) store_id Memo 1 VonNeumann tt [g] 2) = Ok [g; memo] /\
  arr2_of (evolve2d_mode_fixed (sandpile_rule 6 6 true []) store_id Recursive 1 VonNeumann tt [g] 2) = Ok [g; memo] /\
  plain <> memo.
Proof. cbv zeta. split; [|split; [|split]]; try (vm_compute; reflexivity). discriminate. Qed.

(* ------------------------------------------------------------------ closed boundary: the cell formula *)
(* closed boundary, no addition at this step, ANY entry grid: every cell that _is_in_boundary accepts is 0
   after the step, every other cell gets the BTW toppling value (neighbours as torus positions) *)
Theorem C14_sandpile_is_btw_closed : forall rows cols adds ty g R C t u,
  wf_grid R C g -> (1 <= R)%nat -> (1 <= C)%nat -> no_addition_at adds t ->
  let g' := snd (step_plain2d (sandpile_rule rows cols true adds) store_id 1 ty u g t) in
  wf_grid R C g' /\
  forall row col, (row < R)%nat -> (col < C)%nat ->
    cell g' row col =
      if in_boundary rows cols (row, col) then 0
      else cell g row col - 4 * tp (cell g row col)
           + tp (cell g (up R row) col) + tp (cell g row (up C col))
           + tp (cell g row (dn C col)) + tp (cell g (dn R row) col).
Proof. exact sandpile_is_btw_closed. Qed.

(* the documented use Sandpile(R, C, True): for an interior cell the four positions are its grid neighbours *)
Theorem C14_sandpile_is_btw_closed_interior : forall adds ty g R C t u,
  wf_grid R C g -> (1 <= R)%nat -> (1 <= C)%nat -> no_addition_at adds t ->
  let g' := snd (step_plain2d (sandpile_rule R C true adds) store_id 1 ty u g t) in
  forall row col, (row < R)%nat -> (col < C)%nat ->
    (in_boundary R C (row, col) = true -> cell g' row col = 0) /\
    (in_boundary R C (row, col) = false ->
       cell g' row col = cell g row col - 4 * tp (cell g row col)
         + tp (cell g (row - 1) col) + tp (cell g row (col - 1))
         + tp (cell g row (col + 1)) + tp (cell g (row + 1) col)).
Proof. exact sandpile_is_btw_closed_interior. Qed.

(* non-vacuity of the closed evolution over several steps (Moore neighbourhood: same five entries read):
   totals 17 -> 11 -> 9 -> 7 *)
Example C14_nonvacuous_closed_steps :
  let g := [[0; 0; 0; 0]; [0; 5; 4; 0]; [0; 1; 7; 0]; [0; 0; 0; 0]] in
  wf_grid 4 4 (last [g] []) /\ boundary_zero 4 4 4 4 (last [g] []) /\ no_addition_in [] 1 (4 - 1) /\
  evolve2d_plain (sandpile_rule 4 4 true []) store_id 1 Moore tt [g] 4
  = Ok (tt, [g; [[0; 0; 0; 0]; [0; 2; 2; 0]; [0; 3; 4; 0]; [0; 0; 0; 0]];
                [[0; 0; 0; 0]; [0; 2; 3; 0]; [0; 4; 0; 0]; [0; 0; 0; 0]];
                [[0; 0; 0; 0]; [0; 3; 3; 0]; [0; 0; 1; 0]; [0; 0; 0; 0]]]) /\
  in_boundary 4 4 (1, 2)%nat = false /\ in_boundary 4 4 (3, 2)%nat = true.
Proof.
  cbv zeta. split; [wf|]. split; [by_cells4 Hb|]. split; [intros a []|]. repeat split; vm_compute; reflexivity.
Qed.

Print Assumptions C14_rule_on_block.
Print Assumptions C14_read_entries_unmasked.
Print Assumptions C14_sandpile_is_btw.
Print Assumptions C14_rotation_sum.
Print Assumptions C14_sandpile_conserves.
Print Assumptions C14_sandpile_closed.
Print Assumptions C14_sandpile_closed_nonneg.
Print Assumptions C14_sandpile_stable_fixed.
Print Assumptions C14_sandpile_add_grain.
Print Assumptions C14_sandpile_add_grain_at.
Print Assumptions C14_sandpile_add_grain_elsewhere.
Print Assumptions C14_total_constant.
Print Assumptions C14_total_nonincreasing.
Print Assumptions C14_stable_forever.
Print Assumptions C14_evolution_conserves.
Print Assumptions C14_evolution_closed.
Print Assumptions C14_sandpile_conserves_all_modes.
Print Assumptions C14_sandpile_is_btw_closed.
Print Assumptions C14_sandpile_is_btw_closed_interior.
From CPL Require Import gen.GenFuns_C14 GenProps.GenFunsEquivC14 GenProps.C14Src. (* source tie: gen/GenFuns_C14.v is regenerated from sandpile.py on every run *)
Theorem C14_source_tie : (forall (rows cols : nat) (c : nat * nat), src_sandpile_is_in_boundary (Z.of_nat rows) (Z.of_nat cols) (zcell c) = in_boundary rows cols c) /\ (forall (rows cols : nat) (closed : bool) (adds : list addition) (n : nbhd2) (c : nat * nat) (t : nat), src_sandpile_call (Z.of_nat rows) (Z.of_nat cols) closed (map zaddition adds) (nb_vals n) (zcell c) (Z.of_nat t) = sandpile_call rows cols closed adds n c t). Proof. exact C14_source_translation_agrees. Qed. Print Assumptions C14_source_tie.
