(* C08 — Totalistic rule numbering.
   Property theorems only: each is closed by `exact` of a lemma proved in Proofs/TotalisticProofs.v.
   Model (Model/Totalistic.v): totalistic_ns u n s k rule is the body of totalistic_rule on
   n = neighbourhood.size (full size, masked entries included), s = np.sum(neighbourhood) (unmasked
   entries only), u = the array dtype is unsigned.  Digit characters are modelled by their values. *)
From CPL Require Import Model.Base Model.Totalistic Proofs.TotalisticProofs.
Local Open Scope N_scope.

(* in range: the base-k digit of the rule number with place value k^s; it is a colour 0..k-1;
   the all-zero neighbourhood (s = 0) selects the least significant digit.  Holds for every size n
   (n >= 1 is not needed). *)
Theorem C08_totalistic_digit : forall (u : bool) (n : nat) (s : Z) (k rule : N),
  2 <= k <= 36 -> (0 <= s <= Z.of_nat n * (Z.of_N k - 1))%Z ->
  rule < k ^ (N.of_nat n * (k - 1) + 1) ->
  totalistic_ns u n s k rule = Ok ((rule / k ^ Z.to_N s) mod k) /\
  (rule / k ^ Z.to_N s) mod k < k /\
  (s = 0%Z -> totalistic_ns u n s k rule = Ok (rule mod k)).
Proof. exact totalistic_digit. Qed.

(* ValueError exactly for the rule numbers that need more than n(k-1)+1 base-k digits
   (whatever the sum: no other path of the function raises ValueError for 2 <= k <= 36) *)
Theorem C08_totalistic_range : forall (u : bool) (n : nat) (s : Z) (k rule : N),
  2 <= k <= 36 ->
  (totalistic_ns u n s k rule = Raise ValueError <-> k ^ (N.of_nat n * (k - 1) + 1) <= rule).
Proof. exact totalistic_range. Qed.

(* bases np.base_repr does not handle are rejected with ValueError before anything else *)
Theorem C08_totalistic_base_guard : forall u n s k rule, k < 2 \/ 36 < k ->
  totalistic_ns u n s k rule = Raise ValueError.
Proof. exact totalistic_base_guard. Qed.

(* on arrays: any plain array (1D of any radius, 2D Moore block) with cells in 0..k-1 ... *)
Theorem C08_totalistic_cells : forall u cells k rule, 2 <= k <= 36 ->
  Forall (fun x => 0 <= x <= Z.of_N k - 1)%Z cells ->
  rule < k ^ (N.of_nat (length cells) * (k - 1) + 1) ->
  totalistic_rule u cells k rule = Ok ((rule / k ^ Z.to_N (zsum cells)) mod k).
Proof. exact totalistic_cells. Qed.

(* ... and any masked array (von Neumann block, any mask): the sum of the unmasked cells selects
   the digit, the full size bounds the rule number *)
Theorem C08_totalistic_cells_masked : forall u cells mask k rule, 2 <= k <= 36 ->
  Forall (fun x => 0 <= x <= Z.of_N k - 1)%Z cells ->
  rule < k ^ (N.of_nat (length cells) * (k - 1) + 1) ->
  totalistic_rule_masked u cells mask k rule
  = Ok ((rule / k ^ Z.to_N (zsum (unmasked cells mask))) mod k).
Proof. exact totalistic_cells_masked. Qed.

Theorem C08_totalistic_cells_range : forall u cells mask k rule, 2 <= k <= 36 ->
  (totalistic_rule u cells k rule = Raise ValueError
     <-> k ^ (N.of_nat (length cells) * (k - 1) + 1) <= rule) /\
  (totalistic_rule_masked u cells mask k rule = Raise ValueError
     <-> k ^ (N.of_nat (length cells) * (k - 1) + 1) <= rule).
Proof. exact totalistic_cells_range. Qed.

(* the all-zero neighbourhood of any size selects the least significant digit, stated on arrays *)
Theorem C08_all_zero : forall u n k rule, 2 <= k <= 36 ->
  rule < k ^ (N.of_nat n * (k - 1) + 1) ->
  totalistic_rule u (repeat 0%Z n) k rule = Ok (rule mod k).
Proof. exact totalistic_all_zero. Qed.

(* the result range on the function itself: ANY value returned (for any contents, also outside 0..k-1, where
   Python counts a negative index from the end of the string) is a colour 0..k-1 *)
Theorem C08_result_in_range : forall u cells mask k rule d, 2 <= k <= 36 ->
  (totalistic_rule u cells k rule = Ok d -> d < k) /\
  (totalistic_rule_masked u cells mask k rule = Ok d -> d < k).
Proof. exact totalistic_cells_result_lt. Qed.

(* ---- The class.  The three theorems below are TRUE BY CONSTRUCTION OF THE MODEL: TotalisticRule_call is
   defined as totalistic_rule and TotalisticRule_seq as a map of independent calls, because that is what the code
   of the class reads like (__init__ stores k and rule, __call__ delegates, nothing is cached).  They cannot
   fail whatever /repo does; they only record that reading.  The clause "TotalisticRule gives the same answers"
   is therefore carried by the CORRESPONDENCE alone (harness/props/c08.py): class calls with random (c, t),
   one object reused over neighbourhoods of different sizes and forms (class_sequence), and the class driven by
   cpl.evolve / cpl.evolve2d (r = 1, 2, Moore and von Neumann) against the plain-engine model with the
   totalistic model as the rule. *)
(* the class delegates: TotalisticRule(k, rule)(n, c, t) = totalistic_rule(n, k, rule) *)
Theorem C08_totalistic_class_agrees : forall k rule u cells mask c t,
  TotalisticRule_call k rule u cells c t = totalistic_rule u cells k rule /\
  TotalisticRule_call_masked k rule u cells mask c t = totalistic_rule_masked u cells mask k rule.
Proof. exact totalistic_class_agrees. Qed.

(* the rule object is stateless: ONE TotalisticRule(k, rule) called on any sequence of neighbourhoods (different
   sizes, plain or masked, any c and t) answers each call like totalistic_rule on that neighbourhood alone *)
Theorem C08_totalistic_class_sequence : forall k rule calls,
  TotalisticRule_seq k rule calls = map (fun a => totalistic_nb k rule (fst (fst a))) calls.
Proof. exact totalistic_class_sequence. Qed.

Theorem C08_totalistic_class_sequence_nth : forall k rule calls i nb c t,
  nth_error calls i = Some (nb, c, t) ->
  nth_error (TotalisticRule_seq k rule calls) i = Some (totalistic_nb k rule nb).
Proof. exact totalistic_class_sequence_nth. Qed.

(* supporting: the string of np.base_repr consists of base-k digits whose value is the number *)
Theorem C08_base_repr_value : forall k num, 2 <= k <= 36 ->
  base_repr num k = Ok (repr_digits k num) /\
  dval k (repr_digits k num) = num /\ Forall (fun d => d < k) (repr_digits k num).
Proof.
  intros k num Hk. split; [apply base_repr_ok; exact Hk|apply repr_digits_value; apply Hk].
Qed.

(* supporting: its length is the number of base-k digits ("0" for 0) *)
Theorem C08_base_repr_length : forall k num, 2 <= k ->
  (1 <= length (repr_digits k num))%nat /\
  num < k ^ N.of_nat (length (repr_digits k num)) /\
  (0 < num -> k ^ (N.of_nat (length (repr_digits k num)) - 1) <= num) /\
  (num = 0 -> repr_digits k num = [0]).
Proof. exact repr_digits_length. Qed.

(* supporting: n cells in 0..k-1 sum to 0..n(k-1); with a mask the sum stays within the full size *)
Theorem C08_sum_bounds : forall (k : Z) cells mask, (1 <= k)%Z ->
  Forall (fun x => 0 <= x <= k - 1)%Z cells ->
  (0 <= zsum cells <= Z.of_nat (length cells) * (k - 1))%Z /\
  (0 <= zsum (unmasked cells mask) <= Z.of_nat (length cells) * (k - 1))%Z.
Proof.
  intros k cells mask Hk H. split; [apply zsum_bounds; exact H|].
  destruct (zsum_unmasked_bounds k cells mask Hk H) as ((H0 & _) & H1). split; assumption.
Qed.

(* non-vacuity: the two rules of the library's tests, evaluated by the model, with the hypotheses
   of C08_totalistic_digit met; a rejected rule number; a masked von Neumann block *)
Example C08_nonvacuous :
  (* rule 777, k = 3, radius 1: '1001210' *)
  totalistic_rule false [1;0;2]%Z 3 777 = Ok 1 /\ (777 / 3 ^ 3) mod 3 = 1 /\
  777 < 3 ^ (N.of_nat 3 * (3 - 1) + 1) /\
  totalistic_rule false [0;0;0]%Z 3 777 = Ok (777 mod 3) /\
  totalistic_rule false [2;2;2]%Z 3 777 = Ok 1 /\
  (* rule 107396, k = 4, radius 1: '0122032010' *)
  totalistic_rule true [3;2;1]%Z 4 107396 = Ok 2 /\ (107396 / 4 ^ 6) mod 4 = 2 /\
  107396 < 4 ^ (N.of_nat 3 * (4 - 1) + 1) /\
  (* the smallest rejected rule number for k = 3, n = 3, and the largest accepted one *)
  totalistic_rule false [1;0;2]%Z 3 (3 ^ 7) = Raise ValueError /\
  totalistic_rule false [1;0;2]%Z 3 (3 ^ 7 - 1) = Ok 2 /\
  (* masked von Neumann block r = 1: size 9, sum over the 5 unmasked cells *)
  totalistic_rule_masked false [2;1;2; 0;0;1; 2;1;2]%Z (von_neumann_mask 1) 3 777 = Ok 1 /\
  zsum (unmasked [2;1;2; 0;0;1; 2;1;2]%Z (von_neumann_mask 1)) = 3%Z /\ (777 / 3 ^ 3) mod 3 = 1 /\
  (* a digit above 9 (k = 16) *)
  totalistic_rule false [0;1;0]%Z 16 (11 * 16 + 3) = Ok 11 /\
  base_repr 777 3 = Ok [1;0;0;1;2;1;0] /\ base_repr 0 7 = Ok [0] /\
  (* one object on radius 1, radius 2, radius 1: 3^7 is rejected for 3 cells, accepted for 5 *)
  TotalisticRule_seq 3 (3 ^ 7) [(Plain false [0;0;0]%Z, 0%Z, 1%nat); (Plain false [2;2;2;1;0]%Z, 1%Z, 1%nat);
                                 (Plain true [0;0;0]%Z, 2%Z, 2%nat)]
  = [Raise ValueError; Ok 1; Raise ValueError].
Proof. vm_compute. repeat (split; [reflexivity|]). reflexivity. Qed.

Print Assumptions C08_totalistic_digit.
Print Assumptions C08_totalistic_range.
Print Assumptions C08_totalistic_base_guard.
Print Assumptions C08_totalistic_cells.
Print Assumptions C08_totalistic_cells_masked.
Print Assumptions C08_totalistic_cells_range.
Print Assumptions C08_totalistic_class_agrees.
Print Assumptions C08_base_repr_value.
Print Assumptions C08_base_repr_length.
Print Assumptions C08_sum_bounds.
Print Assumptions C08_totalistic_class_sequence.
Print Assumptions C08_totalistic_class_sequence_nth.
Print Assumptions C08_all_zero.
Print Assumptions C08_result_in_range.
From CPL Require Import gen.GenFuns_C08 GenProps.GenFunsEquivC08 GenProps.C08Src. (* source tie: gen/GenFuns_C08.v is regenerated from ca_functions.py on every run *)
Theorem C08_source_tie : (forall (n : nat) (s : Z) (k rule : N), src_totalistic_rule (Z.of_nat n) s k rule = totalistic_ns false n s k rule) /\ (forall (k rule : N) (cells : list Z) (c : Z) (t : nat), src_totalistic_rule_call k rule (Z.of_nat (length cells)) (zsum cells) = TotalisticRule_call k rule false cells c t) /\ (forall (k rule : N) (cells : list Z) (mask : list bool) (c : Z) (t : nat), src_totalistic_rule_call k rule (Z.of_nat (length cells)) (zsum (unmasked cells mask)) = TotalisticRule_call_masked k rule false cells mask c t). Proof. exact C08_source_translation_agrees. Qed. Print Assumptions C08_source_tie.
