(* C11 lifted to every memoize mode: evolve2d with game_of_life_rule in the modes False, True and
   "recursive" (Model/Memo2D.v, the C04 engines) returns the torus Life evolution of
   LifeProofs.life_evolve_torus, and so do the pattern corollaries.

   memoize="recursive": direct instance of C04 (memo2d_recursive_fixed needs only a pure rule).
   memoize=True: C04's theorem asks that the rule read ONLY the unmasked entries of ANY neighbourhood
   object (reads_unmasked_only).  The model of game_of_life_rule reads the centre as neighbourhood[1][1]
   from the data, as the code does; on an (ill-formed) object whose centre is masked that is not a
   function of the unmasked entries, so the hypothesis fails as stated.  It holds on the neighbourhoods
   that one call produces (nb_good: the mask of the call's neighbourhood type on a (2r+1)^2 block).
   Section MemoTrueGood re-derives C04's memoize=True theorem under that weaker hypothesis, from C04's
   own exported lemmas (memo_key_unmasked, step_plain2d_inv, plain_step_spec, evolve_fixed_sim_arr);
   the argument is C04's, only the hypothesis is restricted to where it is used. *)
From Coq Require Import ZArith List Arith Lia Bool ZifyBool ZifyNat.
From CPL Require Import Model.Base Model.Rules Model.Engine Model.Evolve2D Model.Memo2D Model.Life.
From CPL Require Import Proofs.Memo2DProofs Proofs.LifeProofs.
Import ListNotations.
Local Open Scope nat_scope.

(* ================================================================== memoize=True, hypothesis on good neighbourhoods *)
Section MemoTrueGood.
  Variable St : Type.
  Variable rule : rule2 St.
  Variable store : Z -> Z.
  Variable f : nbhd2 -> Z.
  Variables (r : nat) (ty : nbhd_type).
  Hypothesis Hf : answers rule f.
  Hypothesis Hum : forall n n', nb_good r ty n -> nb_good r ty n' ->
    nb_mask n = nb_mask n' -> unmasked n = unmasked n' -> f n = f n'.

  Definition MInvG (m : memo_table) : Prop :=
    forall k v, In (k, v) m -> forall n, nb_good r ty n -> memo_key n = k -> v = f n.

  Lemma memo_lookup_in_g k m v : memo_lookup k m = Some v -> In (k, v) m.
  Proof.
    induction m as [|[k' v'] m IH]; cbn [memo_lookup]; [discriminate|].
    destruct (zlist_eqb k k') eqn:E.
    - intros [= <-]. apply zlist_eqb_spec in E. subst k'. left. reflexivity.
    - intros H. right. apply IH. exact H.
  Qed.

  Lemma get_memoized2_ok_g s m n c t : MInvG m -> nb_good r ty n ->
    MInvG (snd (fst (get_memoized2 rule (s, m) n c t))) /\ snd (get_memoized2 rule (s, m) n c t) = f n.
  Proof.
    intros HI Hn. unfold get_memoized2.
    destruct (memo_lookup (memo_key n) m) as [v|] eqn:E.
    - cbn [fst snd]. split; [exact HI|]. apply memo_lookup_in_g in E. exact (HI _ _ E n Hn eq_refl).
    - pose proof (Hf s n c t) as Hv. destruct (rule s n c t) as [s1 v]. cbn [fst snd] in *. subst v.
      split; [|reflexivity].
      intros k v [Hin|Hin] n' Hn' Hk; [|exact (HI _ _ Hin n' Hn' Hk)].
      injection Hin as <- <-.
      destruct (memo_key_unmasked r ty n' n Hn' Hn Hk) as [Hm Hu]. symmetry. apply Hum; assumption.
  Qed.

  Lemma memo_step_spec_g R C g t s m : MInvG m -> 1 <= R -> wf_grid2 R C g ->
    MInvG (snd (fst (step_memo2d rule store r ty (s, m) g t))) /\
    snd (step_memo2d rule store r ty (s, m) g t) = tabulate R C (spec_cell f store g R C r ty).
  Proof.
    intros HI HR Hwf. unfold step_memo2d.
    apply (step_plain2d_inv (St * memo_table) (get_memoized2 rule) store f (fun x => MInvG (snd x)) g R C r ty t).
    - intros [s0 m0] row col H0. cbn [snd] in H0.
      apply get_memoized2_ok_g; [exact H0|apply get_neighbourhood_good].
    - apply (wf_grid2_rows R C g Hwf).
    - apply (wf_grid2_cols R C g HR Hwf).
    - exact HI.
  Qed.

  Lemma memo_sim_step_g R C : 1 <= R -> forall (x1 : St * memo_table) (x2 : St) c t,
    MInvG (snd x1) -> wf_grid2 R C c ->
    MInvG (snd (fst (step_memo2d rule store r ty x1 c t))) /\
    snd (step_memo2d rule store r ty x1 c t) = snd (step_plain2d rule store r ty x2 c t) /\
    wf_grid2 R C (snd (step_plain2d rule store r ty x2 c t)).
  Proof.
    intros HR [s m] x2 c t HI Hwf. cbn [snd] in HI.
    destruct (memo_step_spec_g R C c t s m HI HR Hwf) as [H1 H2].
    rewrite (plain_step_spec rule store f R C r ty c t x2 Hf HR Hwf).
    split; [exact H1|]. split; [exact H2|apply tabulate_wf].
  Qed.

  Lemma MInvG_nil : MInvG [].
  Proof. intros k v []. Qed.

  Theorem memo2d_true_fixed_good R C hist T s0 : 1 <= R -> wf_grid2 R C (last hist []) ->
    arr2_of (evolve2d_mode_fixed rule store Memo r ty s0 hist T)
    = arr2_of (evolve2d_mode_fixed rule store Plain r ty s0 hist T).
  Proof.
    intros HR Hwf. cbn [evolve2d_mode_fixed]. unfold evolve2d_plain.
    rewrite (arr2_of_bind _ (@fst St memo_table)), arr2_of_res_snd.
    exact (evolve_fixed_sim_arr (St * memo_table) St grid [] (step_memo2d rule store r ty)
             (step_plain2d rule store r ty) (fun x1 _ => MInvG (snd x1)) (wf_grid2 R C)
             (memo_sim_step_g R C HR) (s0, []) s0 hist T MInvG_nil Hwf).
  Qed.

  Theorem memo2d_true_dynamic_good {P} (pred : P -> list grid -> nat -> P * bool) R C hist fuel p0 s0 :
    1 <= R -> wf_grid2 R C (last hist []) ->
    dyn_arr2_of (evolve2d_mode_dynamic rule store pred Memo r ty fuel p0 s0 hist)
    = dyn_arr2_of (evolve2d_mode_dynamic rule store pred Plain r ty fuel p0 s0 hist).
  Proof.
    intros HR Hwf. cbn [evolve2d_mode_dynamic]. unfold evolve2d_plain_dynamic.
    rewrite (dyn_arr2_of_map _ (@fst St memo_table)), dyn_arr2_of_proj.
    exact (evolve_dynamic_sim_arr (St * memo_table) St P grid [] (step_memo2d rule store r ty)
             (step_plain2d rule store r ty) pred (fun x1 _ => MInvG (snd x1)) (wf_grid2 R C)
             (memo_sim_step_g R C HR) fuel p0 (s0, []) s0 hist MInvG_nil Hwf).
  Qed.
End MemoTrueGood.

(* ================================================================== the Life rule is of the pure form *)
Definition gol_f (n : nbhd2) : Z := match gol_rule_nb n with Some v => v | None => gol_sentinel end.

(* it ignores the cell identity, the step number and the state *)
Lemma gol_as_rule2_pure : gol_as_rule2 = pure_rule2 gol_f.
Proof. reflexivity. Qed.

Lemma len3 {A} (l : list A) : length l = 3 -> exists a b c, l = [a; b; c].
Proof. destruct l as [|a [|b [|c [|d l]]]]; try discriminate. intros _. exists a, b, c. reflexivity. Qed.

Lemma rect33 {A} (V : list (list A)) : rect 3 3 V ->
  exists a0 a1 a2 a3 a4 a5 a6 a7 a8, V = [[a0; a1; a2]; [a3; a4; a5]; [a6; a7; a8]].
Proof.
  intros [Hl Hf]. destruct (len3 V Hl) as (r0 & r1 & r2 & ->).
  inversion Hf as [|x l H0 Hf1]; subst. inversion Hf1 as [|x l H1 Hf2]; subst. inversion Hf2 as [|x l H2 _]; subst.
  destruct (len3 r0 H0) as (a0 & a1 & a2 & ->). destruct (len3 r1 H1) as (a3 & a4 & a5 & ->).
  destruct (len3 r2 H2) as (a6 & a7 & a8 & ->). exists a0, a1, a2, a3, a4, a5, a6, a7, a8. reflexivity.
Qed.

(* on the neighbourhoods of one call (r = 1; Moore: nothing masked; von Neumann: the corners masked, the
   centre not) the rule reads the unmasked entries only *)
Lemma gol_f_reads_unmasked_good ty : forall n n', nb_good 1 ty n -> nb_good 1 ty n' ->
  nb_mask n = nb_mask n' -> unmasked n = unmasked n' -> gol_f n = gol_f n'.
Proof.
  intros [V M] [V' M'] [Hm Hr] [Hm' Hr'] _ Hu. cbn [nb_mask nb_vals] in *. subst M M'.
  change (2 * 1 + 1) with 3 in Hr, Hr'.
  destruct (rect33 V Hr) as (a0 & a1 & a2 & a3 & a4 & a5 & a6 & a7 & a8 & ->).
  destruct (rect33 V' Hr') as (b0 & b1 & b2 & b3 & b4 & b5 & b6 & b7 & b8 & ->).
  unfold gol_f, gol_rule_nb. rewrite <- Hu. cbn [nb_vals]. unfold gol_centre. cbn [nth].
  replace b4 with a4; [reflexivity|].
  destruct ty; vm_compute in Hu; congruence.
Qed.

(* ================================================================== every mode = the plain engine = torus Life *)
Lemma life_all_modes_plain (m : mode) R C hist T : 1 <= R -> 1 <= C -> wf_grid2 R C (last hist []) ->
  arr2_of (evolve2d_mode_fixed gol_as_rule2 store_id m 1 Moore tt hist T) = arr2_of (life_evolve hist T).
Proof.
  intros HR HC Hwf. rewrite gol_as_rule2_pure. destruct m.
  - reflexivity.
  - exact (memo2d_true_fixed_good unit (pure_rule2 gol_f) store_id gol_f 1 Moore (answers_pure gol_f)
             (gol_f_reads_unmasked_good Moore) R C hist T tt HR Hwf).
  - exact (memo2d_recursive_fixed unit (pure_rule2 gol_f) store_id gol_f (answers_pure gol_f) 1 Moore R C hist T tt
             HR HC ltac:(lia) Hwf).
Qed.

(* the same for callable timesteps (any stopping predicate): array and predicate log *)
Lemma life_all_modes_plain_dynamic (m : mode) {P} (pred : P -> list grid -> nat -> P * bool) R C hist fuel p0 :
  1 <= R -> 1 <= C -> wf_grid2 R C (last hist []) ->
  dyn_arr2_of (evolve2d_mode_dynamic gol_as_rule2 store_id pred m 1 Moore fuel p0 tt hist)
  = dyn_arr2_of (evolve2d_mode_dynamic gol_as_rule2 store_id pred Plain 1 Moore fuel p0 tt hist).
Proof.
  intros HR HC Hwf. rewrite gol_as_rule2_pure. destruct m.
  - reflexivity.
  - exact (memo2d_true_dynamic_good unit (pure_rule2 gol_f) store_id gol_f 1 Moore (answers_pure gol_f)
             (gol_f_reads_unmasked_good Moore) pred R C hist fuel p0 tt HR Hwf).
  - exact (memo2d_recursive_dynamic unit (pure_rule2 gol_f) store_id gol_f (answers_pure gol_f) 1 Moore pred R C hist
             fuel p0 tt HR HC ltac:(lia) Hwf).
Qed.

Theorem life_evolve_torus_all_modes : forall (m : mode) (R C : nat) (hist : list grid) (T : nat),
  1 <= R -> 1 <= C -> wf_grid2 R C (last hist []) -> binary_grid (last hist []) ->
  arr2_of (evolve2d_mode_fixed gol_as_rule2 store_id m 1 Moore tt hist (S T)) =
  Ok (hist ++ map (fun k => grid_of_plane R C
                     (iter (S k) (tstep (Z.of_nat R) (Z.of_nat C)) (plane_of_grid (last hist [])))) (seq 0 T)).
Proof.
  intros m R C hist T HR HC Hwf Hb. rewrite (life_all_modes_plain m R C hist (S T) HR HC Hwf).
  rewrite (life_evolve_torus R C hist T HR HC Hwf Hb). reflexivity.
Qed.

Lemma pattern_grid_wf2 R C a b cells : wf_grid2 R C (last [pattern_grid R C a b cells] []).
Proof. cbn [last]. unfold pattern_grid. apply grid_of_plane_wf. Qed.

Theorem glider_all_modes : forall (m : mode) (R C : nat) (a b : Z), 5 <= R -> 5 <= C ->
  arr2_of (evolve2d_mode_fixed gol_as_rule2 store_id m 1 Moore tt [pattern_grid R C a b G0] 5) =
  Ok [pattern_grid R C a b G0; pattern_grid R C (a + 1) b G1; pattern_grid R C (a + 1) b G2;
      pattern_grid R C (a + 1) (b + 1) G3; pattern_grid R C (a + 1) (b + 1) G0].
Proof.
  intros m R C a b HR HC.
  rewrite (life_all_modes_plain m R C _ 5 ltac:(lia) ltac:(lia) (pattern_grid_wf2 R C a b G0)).
  rewrite (glider_engine R C a b HR HC). reflexivity.
Qed.

Theorem block_still_all_modes : forall (m : mode) (R C : nat) (a b : Z) (T : nat), 4 <= R -> 4 <= C ->
  arr2_of (evolve2d_mode_fixed gol_as_rule2 store_id m 1 Moore tt [pattern_grid R C a b BLK] (S T)) =
  Ok (repeat (pattern_grid R C a b BLK) (S T)).
Proof.
  intros m R C a b T HR HC.
  rewrite (life_all_modes_plain m R C _ (S T) ltac:(lia) ltac:(lia) (pattern_grid_wf2 R C a b BLK)).
  rewrite (block_still_engine R C a b T HR HC). reflexivity.
Qed.

Theorem blinker_all_modes : forall (m : mode) (R C : nat) (a b : Z), 5 <= R -> 5 <= C ->
  arr2_of (evolve2d_mode_fixed gol_as_rule2 store_id m 1 Moore tt [pattern_grid R C a b BH] 3) =
  Ok [pattern_grid R C a b BH; pattern_grid R C (a - 1) (b + 1) BV; pattern_grid R C a b BH].
Proof.
  intros m R C a b HR HC.
  rewrite (life_all_modes_plain m R C _ 3 ltac:(lia) ltac:(lia) (pattern_grid_wf2 R C a b BH)).
  rewrite (blinker_engine R C a b HR HC). reflexivity.
Qed.
