(* Proofs for C01: 1D evolution (memoize=False) is the synchronous update of a ring.
   Lifts notes/spikes/ring_strides.v onto Model/Evolve1D.v and proves that the model of
   _index_strides / _evolve_fixed / _evolve_dynamic equals an independently written specification:
   a fold over the explicit call list [(ring_nbhd cells c r, c) | c <- 0..N-1], iterated for
   t = 1 .. T-1.  Helper list lemmas that would belong in a shared Proofs/BaseLemmas.v are kept here. *)
From Coq Require Import List Arith ZArith Lia Bool.
From CPL Require Import Model.Base Model.Rules Model.Engine Model.Evolve1D.
Import ListNotations.

(* ------------------------------------------------------------------ list helpers *)
Lemma skipn_seq n s len : skipn n (seq s len) = seq (s + n) (len - n).
Proof.
  revert s len; induction n as [|n IH]; intros s len.
  - rewrite Nat.add_0_r, Nat.sub_0_r. reflexivity.
  - destruct len as [|len]; [reflexivity|]. cbn [seq skipn]. rewrite IH. f_equal; lia.
Qed.

Lemma firstn_seq n s len : n <= len -> firstn n (seq s len) = seq s n.
Proof.
  revert s len; induction n as [|n IH]; intros s len H; [reflexivity|].
  destruct len as [|len]; [lia|]. cbn [seq firstn]. f_equal. apply IH. lia.
Qed.

Lemma nth_firstn_lt {A} (m : list A) k w d : k < w -> nth k (firstn w m) d = nth k m d.
Proof.
  revert m w; induction k as [|k IH]; intros m w Hk; destruct w as [|w]; try lia;
    destruct m as [|y m]; cbn; auto. apply IH. lia.
Qed.

Lemma nth_skipn {A} (l : list A) c k d : nth k (skipn c l) d = nth (c + k) l d.
Proof.
  revert l; induction c as [|c IH]; intros l; [reflexivity|].
  destruct l as [|x l]; cbn [skipn plus nth]; [destruct k; reflexivity|apply IH].
Qed.

Lemma nth_firstn_skipn {A} (l : list A) c k w d : k < w ->
  nth k (firstn w (skipn c l)) d = nth (c + k) l d.
Proof. intros Hk. rewrite nth_firstn_lt by exact Hk. apply nth_skipn. Qed.

Lemma nth_map_seq {A} (f : nat -> A) n c d : c < n -> nth c (map f (seq 0 n)) d = f c.
Proof.
  intros H. rewrite (nth_indep _ d (f 0)) by (rewrite map_length, seq_length; exact H).
  rewrite map_nth, seq_nth by exact H. reflexivity.
Qed.

Lemma combine_map_seq {A} (f : nat -> A) a n :
  combine (map f (seq a n)) (seq a n) = map (fun c => (f c, c)) (seq a n).
Proof.
  revert a; induction n as [|n IH]; intros a; [reflexivity|].
  cbn [seq map combine]. f_equal. apply IH.
Qed.

Lemma flat_map_seq_shift {A} (f : nat -> list A) a n :
  flat_map f (seq (S a) n) = flat_map (fun i => f (S i)) (seq a n).
Proof.
  revert a; induction n as [|n IH]; intros a; [reflexivity|].
  cbn [seq flat_map]. f_equal. apply IH.
Qed.

Lemma flat_map_ext_in {A B} (f g : A -> list B) l :
  (forall x, In x l -> f x = g x) -> flat_map f l = flat_map g l.
Proof.
  induction l as [|x l IH]; intros H; [reflexivity|].
  cbn [flat_map]. rewrite (H x) by (left; reflexivity). f_equal. apply IH.
  intros y Hy. apply H. right. exact Hy.
Qed.

(* ------------------------------------------------------------------ _index_strides *)
Lemma ext_idx_eq N r : 1 <= r <= N ->
  ext_idx N r = seq (N - r) r ++ seq 0 N ++ seq 0 r.
Proof.
  intros H. unfold ext_idx, py_last. rewrite seq_length.
  destruct (r =? 0) eqn:E0; [apply Nat.eqb_eq in E0; lia|].
  destruct (N <? r) eqn:E1; [apply Nat.ltb_lt in E1; lia|]. cbn [orb].
  rewrite skipn_seq, firstn_seq by lia. repeat f_equal; lia.
Qed.

Lemma ext_idx_length N r : 1 <= r <= N -> length (ext_idx N r) = N + 2 * r.
Proof. intros H. rewrite ext_idx_eq by exact H. rewrite !app_length, !seq_length. lia. Qed.

(* window c of the index table holds the ring indices (c - r + k) mod N, written over nat *)
Theorem strides_spec N r c k : 1 <= r <= N -> c < N -> k < 2 * r + 1 ->
  nth k (nth c (index_strides N r) []) 0 = (c + k + N - r) mod N.
Proof.
  intros Hr Hc Hk. unfold index_strides, windows.
  rewrite ext_idx_length by lia. rewrite ext_idx_eq by lia.
  set (ext := seq (N - r) r ++ seq 0 N ++ seq 0 r).
  replace (N + 2 * r - (2 * r + 1) + 1) with N by lia.
  rewrite nth_map_seq by lia.
  rewrite nth_firstn_skipn by lia.
  unfold ext.
  destruct (Nat.lt_ge_cases (c + k) r) as [H1|H1].
  - rewrite app_nth1 by (rewrite seq_length; lia). rewrite seq_nth by lia.
    apply Nat.mod_unique with (q := 0); lia.
  - rewrite app_nth2 by (rewrite seq_length; lia). rewrite seq_length.
    destruct (Nat.lt_ge_cases (c + k - r) N) as [H2|H2].
    + rewrite app_nth1 by (rewrite seq_length; lia). rewrite seq_nth by lia.
      apply Nat.mod_unique with (q := 1); lia.
    + rewrite app_nth2 by (rewrite seq_length; lia). rewrite seq_length, seq_nth by lia.
      apply Nat.mod_unique with (q := 2); lia.
Qed.

Lemma strides_length N r : 1 <= r <= N -> length (index_strides N r) = N.
Proof.
  intros H. unfold index_strides, windows. rewrite map_length, seq_length, ext_idx_length by lia. lia.
Qed.

Lemma strides_row_length N r c : 1 <= r <= N -> c < N ->
  length (nth c (index_strides N r) []) = 2 * r + 1.
Proof.
  intros H Hc. unfold index_strides, windows. rewrite ext_idx_length by lia.
  replace (N + 2 * r - (2 * r + 1) + 1) with N by lia.
  rewrite nth_map_seq by lia. rewrite firstn_length, skipn_length, ext_idx_length by lia. lia.
Qed.

(* the whole table in closed form *)
Lemma index_strides_eq N r : 1 <= r <= N ->
  index_strides N r = map (fun c => map (fun k => (c + k + N - r) mod N) (seq 0 (2 * r + 1))) (seq 0 N).
Proof.
  intros H. apply (nth_ext _ _ [] []).
  - rewrite strides_length, map_length, seq_length by lia. reflexivity.
  - intros c Hc. rewrite strides_length in Hc by lia.
    rewrite nth_map_seq by lia.
    apply (nth_ext _ _ 0 0).
    + rewrite strides_row_length, map_length, seq_length by lia. reflexivity.
    + intros k Hk. rewrite strides_row_length in Hk by lia.
      rewrite nth_map_seq by lia. apply strides_spec; lia.
Qed.

(* the nat formula is the property's "(c - r + k) modulo N" over the integers *)
Lemma ring_index_Z N r c k : 1 <= N -> r <= N ->
  Z.of_nat ((c + k + N - r) mod N) = ((Z.of_nat c - Z.of_nat r + Z.of_nat k) mod Z.of_nat N)%Z.
Proof.
  intros HN Hr.
  rewrite Nat2Z.inj_mod.
  replace (Z.of_nat (c + k + N - r)) with ((Z.of_nat c - Z.of_nat r + Z.of_nat k) + 1 * Z.of_nat N)%Z by lia.
  apply Z_mod_plus_full.
Qed.

(* ------------------------------------------------------------------ neighbourhoods = cells[strides] *)
Lemma neighbourhoods_eq cells r : 1 <= r <= length cells ->
  neighbourhoods cells r = map (fun c => ring_nbhd cells c r) (seq 0 (length cells)).
Proof.
  intros H. unfold neighbourhoods. rewrite index_strides_eq by exact H.
  rewrite map_map. apply map_ext. intros c. unfold ring_nbhd. rewrite map_map. reflexivity.
Qed.

Theorem neighbourhoods_spec cells r : 1 <= r <= length cells ->
  length (neighbourhoods cells r) = length cells /\
  forall c, c < length cells -> nth c (neighbourhoods cells r) [] = ring_nbhd cells c r.
Proof.
  intros H. rewrite neighbourhoods_eq by exact H. split.
  - rewrite map_length, seq_length. reflexivity.
  - intros c Hc. apply (nth_map_seq (fun c0 => ring_nbhd cells c0 r)). exact Hc.
Qed.

Lemma ring_nbhd_length cells c r : length (ring_nbhd cells c r) = 2 * r + 1.
Proof. unfold ring_nbhd. rewrite map_length, seq_length. reflexivity. Qed.

Lemma ring_nbhd_nth cells c r k : k < 2 * r + 1 ->
  nth k (ring_nbhd cells c r) 0%Z = nth ((c + k + length cells - r) mod length cells) cells 0%Z.
Proof. intros Hk. unfold ring_nbhd. rewrite nth_map_seq by exact Hk. reflexivity. Qed.

(* the cell's own state sits in the middle of its neighbourhood *)
Lemma ring_nbhd_centre cells c r : r <= length cells -> c < length cells ->
  nth r (ring_nbhd cells c r) 0%Z = nth c cells 0%Z.
Proof.
  intros Hr Hc. rewrite ring_nbhd_nth by lia. f_equal.
  symmetry. apply Nat.mod_unique with (q := 1); lia.
Qed.

(* ------------------------------------------------------------------ the specification of one step *)
Section Spec1D.
  Variable St : Type.
  Variable rule : rule1 St.
  Variable store : Z -> Z.

  (* consult the rule on an explicit list of (neighbourhood, cell) calls, in list order, threading
     the rule's state, storing each returned value *)
  Fixpoint spec_fold (s : St) (calls : list (list Z * nat)) (t : nat) : St * list Z :=
    match calls with
    | [] => (s, [])
    | (n, c) :: rest =>
        let '(s1, v) := rule s n c t in
        let '(s2, vs) := spec_fold s1 rest t in
        (s2, store v :: vs)
    end.

  (* the calls of one synchronous step of a ring: every cell once, ascending *)
  Definition ring_calls (cells : list Z) (r : nat) : list (list Z * nat) :=
    map (fun c => (ring_nbhd cells c r, c)) (seq 0 (length cells)).

  Definition spec_step (r : nat) (s : St) (cells : list Z) (t : nat) : St * list Z :=
    spec_fold s (ring_calls cells r) t.

  (* T-1 steps numbered t0, t0+1, ...: each reads the row the previous one wrote *)
  Fixpoint spec_run (r n : nat) (s : St) (cur : list Z) (t : nat) : St * list (list Z) :=
    match n with
    | 0 => (s, [])
    | S n' =>
        let '(s1, nxt) := spec_step r s cur t in
        let '(s2, rest) := spec_run r n' s1 nxt (S t) in
        (s2, nxt :: rest)
    end.

  (* the rule's state just before cell c is consulted in step t *)
  Definition state_before (r : nat) (s : St) (cells : list Z) (t c : nat) : St :=
    fst (spec_fold s (map (fun c' => (ring_nbhd cells c' r, c')) (seq 0 c)) t).

  Lemma spec_fold_cons s n c rest t :
    spec_fold s ((n, c) :: rest) t =
      (fst (spec_fold (fst (rule s n c t)) rest t),
       store (snd (rule s n c t)) :: snd (spec_fold (fst (rule s n c t)) rest t)).
  Proof.
    cbn [spec_fold]. destruct (rule s n c t) as [s1 v]. cbn [fst snd].
    destruct (spec_fold s1 rest t) as [s2 vs]. reflexivity.
  Qed.

  Lemma spec_fold_app s l1 l2 t :
    spec_fold s (l1 ++ l2) t =
      (fst (spec_fold (fst (spec_fold s l1 t)) l2 t),
       snd (spec_fold s l1 t) ++ snd (spec_fold (fst (spec_fold s l1 t)) l2 t)).
  Proof.
    revert s; induction l1 as [|[n c] l1 IH]; intros s.
    - cbn [app spec_fold fst snd]. destruct (spec_fold s l2 t); reflexivity.
    - cbn [app]. rewrite !spec_fold_cons. cbn [fst snd]. rewrite IH. cbn [fst snd]. reflexivity.
  Qed.

  Lemma spec_fold_length s calls t : length (snd (spec_fold s calls t)) = length calls.
  Proof.
    revert s; induction calls as [|[n c] rest IH]; intros s; [reflexivity|].
    rewrite spec_fold_cons. cbn [snd length]. rewrite IH. reflexivity.
  Qed.

  Lemma spec_fold_nth calls : forall s t i d, i < length calls ->
    nth i (snd (spec_fold s calls t)) d =
    store (snd (rule (fst (spec_fold s (firstn i calls) t))
                     (fst (nth i calls ([], 0))) (snd (nth i calls ([], 0))) t)).
  Proof.
    induction calls as [|[n c] rest IH]; intros s t i d Hi; [cbn in Hi; lia|].
    rewrite spec_fold_cons. destruct i as [|i].
    - reflexivity.
    - cbn [snd nth firstn]. rewrite spec_fold_cons. cbn [fst]. apply IH. cbn in Hi. lia.
  Qed.

  (* apply_all is the fold over the enumerate()d neighbourhood list *)
  Lemma apply_all_spec nbs : forall s c t,
    apply_all rule store s c nbs t = spec_fold s (combine nbs (seq c (length nbs))) t.
  Proof.
    induction nbs as [|n nbs IH]; intros s c t; [reflexivity|].
    cbn [apply_all length seq combine spec_fold].
    destruct (rule s n c t) as [s1 v]. rewrite IH. reflexivity.
  Qed.

  (* MODEL = SPEC for one step *)
  Theorem step_plain_spec r s cells t : 1 <= r <= length cells ->
    step_plain rule store r s cells t = spec_step r s cells t.
  Proof.
    intros H. unfold step_plain, spec_step, ring_calls.
    rewrite apply_all_spec, neighbourhoods_eq by exact H.
    rewrite map_length, seq_length, combine_map_seq. reflexivity.
  Qed.

  Lemma spec_step_length r s cells t : length (snd (spec_step r s cells t)) = length cells.
  Proof. unfold spec_step, ring_calls. rewrite spec_fold_length, map_length, seq_length. reflexivity. Qed.

  Lemma firstn_ring_calls cells r c : c <= length cells ->
    firstn c (ring_calls cells r) = map (fun c' => (ring_nbhd cells c' r, c')) (seq 0 c).
  Proof. intros H. unfold ring_calls. rewrite firstn_map, firstn_seq by exact H. reflexivity. Qed.

  (* entry c of the new row is the stored value of the rule's c-th consultation *)
  Lemma spec_step_nth r s cells t c d : c < length cells ->
    nth c (snd (spec_step r s cells t)) d =
    store (snd (rule (state_before r s cells t c) (ring_nbhd cells c r) c t)).
  Proof.
    intros Hc. unfold spec_step.
    rewrite spec_fold_nth by (unfold ring_calls; rewrite map_length, seq_length; exact Hc).
    rewrite firstn_ring_calls by lia. unfold ring_calls.
    rewrite (nth_map_seq (fun c0 => (ring_nbhd cells c0 r, c0))) by exact Hc. reflexivity.
  Qed.

  Lemma state_before_0 r s cells t : state_before r s cells t 0 = s.
  Proof. reflexivity. Qed.

  Lemma state_before_S r s cells t c :
    state_before r s cells t (S c) = fst (rule (state_before r s cells t c) (ring_nbhd cells c r) c t).
  Proof.
    unfold state_before. rewrite seq_S, map_app, spec_fold_app. cbn [fst plus map].
    rewrite spec_fold_cons. reflexivity.
  Qed.

  Lemma spec_step_final_state r s cells t :
    fst (spec_step r s cells t) = state_before r s cells t (length cells).
  Proof. reflexivity. Qed.

  Theorem step_plain_row r s cells t : 1 <= r <= length cells ->
    length (snd (step_plain rule store r s cells t)) = length cells /\
    fst (step_plain rule store r s cells t) = state_before r s cells t (length cells) /\
    forall c d, c < length cells ->
      nth c (snd (step_plain rule store r s cells t)) d =
      store (snd (rule (state_before r s cells t c) (ring_nbhd cells c r) c t)).
  Proof.
    intros H. rewrite step_plain_spec by exact H. split; [apply spec_step_length|].
    split; [apply spec_step_final_state|]. intros c d Hc. apply spec_step_nth. exact Hc.
  Qed.

  (* ---------------------------------------------------------------- T-1 steps *)
  Lemma spec_run_S r n s cur t :
    spec_run r (S n) s cur t =
      (fst (spec_run r n (fst (spec_step r s cur t)) (snd (spec_step r s cur t)) (S t)),
       snd (spec_step r s cur t) :: snd (spec_run r n (fst (spec_step r s cur t)) (snd (spec_step r s cur t)) (S t))).
  Proof.
    cbn [spec_run]. destruct (spec_step r s cur t) as [s1 nxt]. cbn [fst snd].
    destruct (spec_run r n s1 nxt (S t)) as [s2 rest]. reflexivity.
  Qed.

  Lemma iter_steps_S {X C} (step : X -> C -> nat -> X * C) n x cur t :
    iter_steps step (S n) x cur t =
      (fst (iter_steps step n (fst (step x cur t)) (snd (step x cur t)) (S t)),
       snd (step x cur t) :: snd (iter_steps step n (fst (step x cur t)) (snd (step x cur t)) (S t))).
  Proof.
    cbn [iter_steps]. destruct (step x cur t) as [x1 nxt]. cbn [fst snd].
    destruct (iter_steps step n x1 nxt (S t)) as [x2 rest]. reflexivity.
  Qed.

  Lemma spec_run_length r n : forall s cur t, length (snd (spec_run r n s cur t)) = n.
  Proof.
    induction n as [|n IH]; intros s cur t; [reflexivity|].
    rewrite spec_run_S. cbn [snd length]. rewrite IH. reflexivity.
  Qed.

  Lemma spec_run_row_length r n : forall s cur t row,
    In row (snd (spec_run r n s cur t)) -> length row = length cur.
  Proof.
    induction n as [|n IH]; intros s cur t row Hin; [destruct Hin|].
    rewrite spec_run_S in Hin. cbn [snd] in Hin. destruct Hin as [<-|Hin].
    - apply spec_step_length.
    - rewrite (IH _ _ _ _ Hin). apply spec_step_length.
  Qed.

  (* row i (0-based) of the run is one spec_step of the row before it, with the state reached then *)
  Lemma iter_steps_spec r n : forall s cur t, 1 <= r <= length cur ->
    iter_steps (step_plain rule store r) n s cur t = spec_run r n s cur t.
  Proof.
    induction n as [|n IH]; intros s cur t H; [reflexivity|].
    rewrite iter_steps_S, spec_run_S, step_plain_spec by exact H.
    rewrite IH by (rewrite spec_step_length; exact H). reflexivity.
  Qed.

  (* MODEL = SPEC for evolve(ca, T, rule, r, memoize=False) *)
  Theorem evolve_plain_spec r s0 hist T : 1 <= r <= length (last hist []) -> 1 <= T ->
    evolve_plain rule store r s0 hist T =
      Ok (fst (spec_run r (T - 1) s0 (last hist []) 1), hist ++ snd (spec_run r (T - 1) s0 (last hist []) 1)).
  Proof.
    intros H HT. destruct T as [|k]; [lia|].
    unfold evolve_plain, evolve_fixed. rewrite iter_steps_spec by exact H.
    replace (S k - 1) with k by lia.
    destruct (spec_run r k s0 (last hist []) 1) as [x rows]. reflexivity.
  Qed.

  Theorem evolve_plain_zero r s0 hist : evolve_plain rule store r s0 hist 0 = Raise IndexError.
  Proof. reflexivity. Qed.
End Spec1D.

Arguments spec_fold {St} rule store s calls t.
Arguments spec_step {St} rule store r s cells t.
Arguments spec_run {St} rule store r n s cur t.
Arguments state_before {St} rule store r s cells t c.

(* ------------------------------------------------------------------ the call log *)
Section Log1D.
  Variable St : Type.
  Variable rule : rule1 St.
  Variable store : Z -> Z.

  Lemma logged1_eq s lg n c t :
    logged1 rule (s, lg) n c t = ((fst (rule s n c t), lg ++ [(n, c, t)]), snd (rule s n c t)).
  Proof. unfold logged1. destruct (rule s n c t); reflexivity. Qed.

  Lemma spec_fold_logged calls : forall s lg t,
    spec_fold (logged1 rule) store (s, lg) calls t =
      ((fst (spec_fold rule store s calls t), lg ++ map (fun nc => (fst nc, snd nc, t)) calls),
       snd (spec_fold rule store s calls t)).
  Proof.
    induction calls as [|[n c] rest IH]; intros s lg t.
    - cbn [spec_fold map fst snd]. rewrite app_nil_r. reflexivity.
    - rewrite !spec_fold_cons. rewrite logged1_eq. cbn [fst snd].
      rewrite IH. cbn [fst snd map]. rewrite <- app_assoc. reflexivity.
  Qed.

  (* one step: the rule is consulted once per cell, cells ascending, with the ring neighbourhood,
     the cell index and t; the computed row and rule state are those of the unlogged run *)
  Theorem spec_step_logged r s lg cells t :
    spec_step (logged1 rule) store r (s, lg) cells t =
      ((fst (spec_step rule store r s cells t),
        lg ++ map (fun c => (ring_nbhd cells c r, c, t)) (seq 0 (length cells))),
       snd (spec_step rule store r s cells t)).
  Proof.
    unfold spec_step. rewrite spec_fold_logged. unfold ring_calls. rewrite map_map. reflexivity.
  Qed.

  Theorem step_plain_logged r s lg cells t : 1 <= r <= length cells ->
    step_plain (logged1 rule) store r (s, lg) cells t =
      ((fst (step_plain rule store r s cells t),
        lg ++ map (fun c => (ring_nbhd cells c r, c, t)) (seq 0 (length cells))),
       snd (step_plain rule store r s cells t)).
  Proof. intros H. rewrite !step_plain_spec by exact H. apply spec_step_logged. Qed.

  (* the calls of steps t0 .. t0+n-1: step t0+i reads row i of (cur :: rows) *)
  Definition run_calls (r N : nat) (cur : list Z) (rows : list (list Z)) (t0 n : nat) : list call1 :=
    flat_map (fun i => map (fun c => (ring_nbhd (nth i (cur :: rows) []) c r, c, t0 + i)) (seq 0 N)) (seq 0 n).

  Lemma spec_run_logged r n : forall s lg cur t0,
    spec_run (logged1 rule) store r n (s, lg) cur t0 =
      ((fst (spec_run rule store r n s cur t0),
        lg ++ run_calls r (length cur) cur (snd (spec_run rule store r n s cur t0)) t0 n),
       snd (spec_run rule store r n s cur t0)).
  Proof.
    induction n as [|n IH]; intros s lg cur t0.
    - cbn [spec_run fst snd]. unfold run_calls. cbn [seq flat_map]. rewrite app_nil_r. reflexivity.
    - rewrite !spec_run_S. rewrite spec_step_logged. cbn [fst snd]. rewrite IH. cbn [fst snd].
      f_equal. f_equal. rewrite <- app_assoc. f_equal.
      unfold run_calls. cbn [seq flat_map]. rewrite flat_map_seq_shift.
      cbn [nth]. rewrite Nat.add_0_r. f_equal.
      rewrite spec_step_length.
      apply flat_map_ext_in. intros i _. apply map_ext. intros c. apply f_equal. lia.
  Qed.

  (* the log of evolve: 1-based t ascending, within a step cells ascending, each once, step t reads row t-1 *)
  Definition evolve_calls (r N : nat) (start : list Z) (rows : list (list Z)) (T : nat) : list call1 :=
    flat_map (fun t => map (fun c => (ring_nbhd (nth (t - 1) (start :: rows) []) c r, c, t)) (seq 0 N)) (seq 1 (T - 1)).

  Lemma run_calls_evolve_calls r N start rows T :
    run_calls r N start rows 1 (T - 1) = evolve_calls r N start rows T.
  Proof.
    unfold run_calls, evolve_calls. rewrite flat_map_seq_shift.
    apply flat_map_ext_in. intros i _. apply map_ext. intros c.
    replace (S i - 1) with i by lia. reflexivity.
  Qed.

  Theorem evolve_plain_logged r s0 lg hist T : 1 <= r <= length (last hist []) -> 1 <= T ->
    exists s' rows,
      evolve_plain rule store r s0 hist T = Ok (s', hist ++ rows) /\
      length rows = T - 1 /\
      (forall row, In row rows -> length row = length (last hist [])) /\
      evolve_plain (logged1 rule) store r (s0, lg) hist T =
        Ok ((s', lg ++ evolve_calls r (length (last hist [])) (last hist []) rows T), hist ++ rows).
  Proof.
    intros H HT.
    exists (fst (spec_run rule store r (T - 1) s0 (last hist []) 1)),
           (snd (spec_run rule store r (T - 1) s0 (last hist []) 1)).
    split; [apply evolve_plain_spec; assumption|].
    split; [apply spec_run_length|].
    split; [intros row Hin; eapply spec_run_row_length; exact Hin|].
    rewrite evolve_plain_spec by assumption. rewrite spec_run_logged. cbn [fst snd].
    rewrite run_calls_evolve_calls. reflexivity.
  Qed.
End Log1D.

(* ------------------------------------------------------------------ pure rules *)
Section Pure1D.
  Variable store : Z -> Z.

  (* a rule without state that may look at n, c and t *)
  Definition pure_ct (f : list Z -> nat -> nat -> Z) : rule1 unit := fun u n c t => (u, f n c t).

  Lemma spec_fold_pure f calls : forall t,
    spec_fold (pure_ct f) store tt calls t = (tt, map (fun nc => store (f (fst nc) (snd nc) t)) calls).
  Proof.
    induction calls as [|[n c] rest IH]; intros t; [reflexivity|].
    rewrite spec_fold_cons. change (pure_ct f tt n c t) with (tt, f n c t). cbn [fst snd]. rewrite IH. reflexivity.
  Qed.

  Lemma spec_step_pure f r cells t :
    spec_step (pure_ct f) store r tt cells t =
      (tt, map (fun c => store (f (ring_nbhd cells c r) c t)) (seq 0 (length cells))).
  Proof. unfold spec_step. rewrite spec_fold_pure. unfold ring_calls. rewrite map_map. reflexivity. Qed.

  Theorem step_plain_pure_ct f r cells t : 1 <= r <= length cells ->
    snd (step_plain (pure_ct f) store r tt cells t) =
      map (fun c => store (f (ring_nbhd cells c r) c t)) (seq 0 (length cells)).
  Proof. intros H. rewrite step_plain_spec by exact H. rewrite spec_step_pure. reflexivity. Qed.

  (* the lemma other builders import *)
  Theorem step_plain_pure : forall (f : list Z -> Z) r cells t, 1 <= r <= length cells ->
    snd (step_plain (fun u n c t => (u, f n)) store r tt cells t) =
      map (fun c => store (f (ring_nbhd cells c r))) (seq 0 (length cells)).
  Proof. intros f r cells t H. exact (step_plain_pure_ct (fun n _ _ => f n) r cells t H). Qed.

  Lemma spec_run_pure_nth f r n : forall cur t0 i, i < n ->
    nth i (snd (spec_run (pure_ct f) store r n tt cur t0)) [] =
      map (fun c => store (f (ring_nbhd (nth i (cur :: snd (spec_run (pure_ct f) store r n tt cur t0)) []) c r) c (t0 + i)))
          (seq 0 (length cur)).
  Proof.
    induction n as [|n IH]; intros cur t0 i Hi; [lia|].
    rewrite spec_run_S. rewrite spec_step_pure. cbn [fst snd].
    set (nxt := map (fun c => store (f (ring_nbhd cur c r) c t0)) (seq 0 (length cur))).
    destruct i as [|i].
    - cbn [nth]. rewrite Nat.add_0_r. reflexivity.
    - cbn [nth]. rewrite IH by lia.
      replace (length nxt) with (length cur) by (unfold nxt; rewrite map_length, seq_length; reflexivity).
      apply map_ext. intros c. do 2 f_equal. lia.
  Qed.

  (* every appended row is the synchronous ring update of the row before it *)
  Theorem evolve_plain_pure f r hist T : 1 <= r <= length (last hist []) -> 1 <= T ->
    exists rows,
      evolve_plain (pure_ct f) store r tt hist T = Ok (tt, hist ++ rows) /\
      length rows = T - 1 /\
      forall t, 1 <= t < T ->
        nth (t - 1) rows [] =
          map (fun c => store (f (ring_nbhd (nth (t - 1) (last hist [] :: rows) []) c r) c t))
              (seq 0 (length (last hist []))).
  Proof.
    intros H HT.
    exists (snd (spec_run (pure_ct f) store r (T - 1) tt (last hist []) 1)).
    split.
    - rewrite evolve_plain_spec by assumption.
      destruct (fst (spec_run (pure_ct f) store r (T - 1) tt (last hist []) 1)). reflexivity.
    - split; [apply spec_run_length|].
      intros t Ht. rewrite spec_run_pure_nth by lia.
      apply map_ext. intros c. do 2 f_equal. lia.
  Qed.
End Pure1D.

(* ------------------------------------------------------------------ callable timesteps *)
Section Dynamic.
  Variables (X P C : Type).
  Variable dflt : C.
  Variable step : X -> C -> nat -> X * C.
  Variable pred : P -> list C -> nat -> P * bool.

  Lemma last_snoc (l : list C) x : last (l ++ [x]) dflt = x.
  Proof. apply last_last. Qed.

  (* the while loop performs k steps numbered t, t+1, ..., each from the last state, where k+1 is
     the number of times the predicate was consulted *)
  Lemma dynamic_loop_iter fuel : forall p x states t plog p' x' states' plog',
    dynamic_loop dflt step pred fuel p x states t plog = Some (p', x', states', plog') ->
    exists k, length plog' = length plog + k + 1 /\
              x' = fst (iter_steps step k x (last states dflt) t) /\
              states' = states ++ snd (iter_steps step k x (last states dflt) t).
  Proof.
    induction fuel as [|fuel IH]; intros p x states t plog p' x' states' plog' Hrun; [discriminate|].
    cbn [dynamic_loop] in Hrun.
    destruct (pred p states t) as [p1 go]. destruct go.
    - destruct (step x (last states dflt) t) as [x1 nxt] eqn:Es.
      apply IH in Hrun. destruct Hrun as (k & Hl & Hx & Hs).
      rewrite last_snoc in Hx, Hs. rewrite app_length in Hl. cbn [length] in Hl.
      exists (S k). rewrite iter_steps_S, Es. cbn [fst snd].
      split; [lia|]. split; [exact Hx|]. rewrite Hs, <- app_assoc. reflexivity.
    - injection Hrun as <- <- <- <-. exists 0. cbn [iter_steps fst snd].
      rewrite app_length, app_nil_r. cbn [length]. split; [lia|]. split; reflexivity.
  Qed.
End Dynamic.

Section Dynamic1D.
  Variable St : Type.
  Variable rule : rule1 St.
  Variable store : Z -> Z.
  Variable P : Type.
  Variable pred : P -> list (list Z) -> nat -> P * bool.

  (* evolve(ca, pred, rule, r, memoize=False) that stops after consulting the predicate k+1 times
     returns what evolve(ca, k+1, ...) returns, with the same final rule state *)
  Theorem evolve_plain_dynamic_spec r fuel p0 s0 hist p s out plog :
    1 <= r <= length (last hist []) -> hist <> [] ->
    evolve_plain_dynamic rule store pred r fuel p0 s0 hist = Some (p, s, out, plog) ->
    1 <= length plog /\ evolve_plain rule store r s0 hist (length plog) = Ok (s, out).
  Proof.
    intros H Hne Hrun. unfold evolve_plain_dynamic, evolve_dynamic in Hrun.
    destruct (dynamic_loop [] (step_plain rule store r) pred fuel p0 s0 [last hist []] 1 [])
      as [[[[p1 x1] states1] plog1]|] eqn:E; [|discriminate].
    injection Hrun as <- <- <- <-.
    apply dynamic_loop_iter in E. destruct E as (k & Hl & Hx & Hs).
    cbn [length last plus] in Hl, Hx, Hs.
    rewrite iter_steps_spec in Hx, Hs by exact H.
    split; [lia|]. rewrite evolve_plain_spec by (try exact H; lia).
    replace (length plog1 - 1) with k by lia.
    rewrite <- Hx. rewrite Hs. do 2 f_equal.
    rewrite app_assoc. f_equal. apply app_removelast_last. exact Hne.
  Qed.
End Dynamic1D.
