(* C05 / C06 for every memoize mode (pure rules), 1D and 2D.
   Each memoised call equals the plain call on the returned array (C03 / C04 transparency, fixed and
   callable timesteps); the cache of the model of a call starts empty, exactly as `memo_table = {}`
   at the top of every call, so the second call of a split is an ordinary call.  The plain-engine
   theorems of Proofs/EngineProofs.v and Proofs/C05Proofs.v then carry over to every mode. *)
From Coq Require String.
From Coq Require Import Lia.
From CPL Require Import Model.Base Model.Rules Model.Engine Model.Evolve1D Model.Evolve2D Model.Memo1D Model.Memo2D
     Proofs.EngineProofs Proofs.C05Proofs Proofs.Memo1DProofs Proofs.Memo2DProofs.

Lemma Forall_last {A} (Q : A -> Prop) (l : list A) (d : A) : Forall Q l -> l <> [] -> Q (last l d).
Proof.
  induction l as [|a l IH]; intros HF Hne; [congruence|].
  inversion HF as [|? ? Ha Hl]; subst. destruct l as [|b l]; [exact Ha|].
  change (last (a :: b :: l) d) with (last (b :: l) d). apply IH; [exact Hl|discriminate].
Qed.

Lemma last_app_Q {A} (Q : A -> Prop) (l m : list A) (d : A) : Q (last l d) -> Forall Q m -> Q (last (l ++ m) d).
Proof.
  intros Hl Hm. destruct m as [|a m]; [now rewrite app_nil_r|].
  rewrite last_app_nonnil by discriminate. apply Forall_last; [exact Hm|discriminate].
Qed.

(* ================================================================== 1D *)
Section Modes1D.
  Variable f : list Z -> Z.
  Variable store : Z -> Z.
  Variable r : nat.

  Local Notation rule := (pure1 f).

  Lemma evolve1d_fixed_mode : forall memo m (hist : list (list Z)) T, dispatch memo = Some m ->
    evolve1d_fixed rule store memo r tt hist T = evolve_mode_fixed rule store m r tt hist T.
  Proof. intros memo m hist T H. unfold evolve1d_fixed. now rewrite H. Qed.

  Lemma evolve1d_dynamic_mode : forall P (pred : P -> list (list Z) -> nat -> P * bool) memo m fuel p0 (hist : list (list Z)),
    dispatch memo = Some m ->
    evolve1d_dynamic rule store pred memo r fuel p0 tt hist =
    match evolve_mode_dynamic rule store pred m r fuel p0 tt hist with Some o => Some (Ok o) | None => None end.
  Proof. intros P pred memo m fuel p0 hist H. unfold evolve1d_dynamic. now rewrite H. Qed.

  Lemma disp_true : dispatch (PBool true) = Some Memo. Proof. reflexivity. Qed.
  Lemma disp_false : dispatch (PBool false) = Some Plain. Proof. reflexivity. Qed.
  Lemma disp_rec : dispatch (PStr StrLit.recursive_lit) = Some Recursive.
  Proof. exact (proj1 dispatch_by_value). Qed.

  (* every mode returns the array of memoize=False ... *)
  Lemma all_modes_fixed_1d : forall memo m hist T, dispatch memo = Some m ->
    1 <= r <= length (last hist []) ->
    arr_of (evolve1d_fixed rule store memo r tt hist T) = arr_of (evolve1d_fixed rule store (PBool false) r tt hist T).
  Proof.
    intros memo m hist T H Hr. rewrite (evolve1d_fixed_mode memo m hist T H). destruct m.
    - now rewrite <- (evolve1d_fixed_mode (PBool false) Plain hist T disp_false).
    - rewrite <- (evolve1d_fixed_mode (PBool true) Memo hist T disp_true).
      exact (proj1 (memo_true_fixed f store r hist Hr T)).
    - rewrite <- (evolve1d_fixed_mode (PStr StrLit.recursive_lit) Recursive hist T disp_rec).
      exact (proj1 (memo_recursive_fixed f store r hist Hr T)).
  Qed.

  (* ... which is the array of the plain engine of C01 / C05 *)
  Lemma all_modes_plain_1d : forall memo m hist T, dispatch memo = Some m ->
    1 <= r <= length (last hist []) ->
    arr_of (evolve1d_fixed rule store memo r tt hist T) =
    match evolve_plain rule store r tt hist T with Ok (_, a) => Ok a | Raise e => Raise e end.
  Proof.
    intros memo m hist T H Hr. rewrite (all_modes_fixed_1d memo m hist T H Hr).
    now apply plain_mode_is_evolve_plain.
  Qed.

  Lemma all_modes_dynamic_1d : forall P (pred : P -> list (list Z) -> nat -> P * bool) memo m fuel p0 hist,
    dispatch memo = Some m -> 1 <= r <= length (last hist []) ->
    dyn_arr_of (evolve1d_dynamic rule store pred memo r fuel p0 tt hist) =
    dyn_arr_of (evolve1d_dynamic rule store pred (PBool false) r fuel p0 tt hist).
  Proof.
    intros P pred memo m fuel p0 hist H Hr. rewrite (evolve1d_dynamic_mode P pred memo m fuel p0 hist H). destruct m.
    - now rewrite <- (evolve1d_dynamic_mode P pred (PBool false) Plain fuel p0 hist disp_false).
    - rewrite <- (evolve1d_dynamic_mode P pred (PBool true) Memo fuel p0 hist disp_true).
      exact (proj1 (memo_true_dynamic f store r hist Hr P pred fuel p0)).
    - rewrite <- (evolve1d_dynamic_mode P pred (PStr StrLit.recursive_lit) Recursive fuel p0 hist disp_rec).
      exact (proj1 (memo_recursive_dynamic f store r hist Hr P pred fuel p0)).
  Qed.

  (* ---------------------------------------------------------------- C05 *)
  Lemma memo1d_extends : forall memo m hist T out, dispatch memo = Some m ->
    1 <= r <= length (last hist []) ->
    arr_of (evolve1d_fixed rule store memo r tt hist T) = Ok out ->
    exists rows, out = hist ++ rows /\ length rows = T - 1 /\ firstn (length hist) out = hist /\
      Forall (fun row => length row = length (last hist [])) rows /\
      (forall hist', last hist' [] = last hist [] ->
         arr_of (evolve1d_fixed rule store memo r tt hist' T) = Ok (hist' ++ rows)).
  Proof.
    intros memo m hist T out H Hr E. rewrite (all_modes_plain_1d memo m hist T H Hr) in E.
    destruct (evolve_plain rule store r tt hist T) as [[s a]|e] eqn:Ep; [|discriminate E].
    injection E as ->. destruct (evolve_plain_extends _ _ _ _ _ _ _ _ _ Ep) as [rows [E1 [L [U [I D]]]]].
    exists rows. split; [exact E1|]. split; [exact L|]. split; [exact U|]. split; [exact (I Hr)|].
    intros hist' HL. rewrite (all_modes_plain_1d memo m hist' T H) by (rewrite HL; exact Hr).
    now rewrite (D hist' HL).
  Qed.

  Lemma memo1d_split : forall memo m hist T1 T2 out1 out2, dispatch memo = Some m ->
    1 <= r <= length (last hist []) -> 1 <= T1 -> 1 <= T2 ->
    arr_of (evolve1d_fixed rule store memo r tt hist T1) = Ok out1 ->
    arr_of (evolve1d_fixed rule store memo r tt out1 T2) = Ok out2 ->
    arr_of (evolve1d_fixed rule store memo r tt hist (T1 + T2 - 1)) = Ok out2.
  Proof.
    intros memo m hist T1 T2 out1 out2 H Hr HT1 HT2 E1 E2.
    destruct (memo1d_extends memo m hist T1 out1 H Hr E1) as [rows [Eo [_ [_ [Hw _]]]]].
    assert (Hr1 : 1 <= r <= length (last out1 [])).
    { subst out1. rewrite (last_app_Q (fun row => length row = length (last hist [])) hist rows [] eq_refl Hw). exact Hr. }
    assert (Hne : hist <> []).
    { intro Z0. subst hist. cbn [last length] in Hr. lia. }
    rewrite (all_modes_plain_1d memo m hist T1 H Hr) in E1.
    rewrite (all_modes_plain_1d memo m out1 T2 H Hr1) in E2.
    rewrite (all_modes_plain_1d memo m hist (T1 + T2 - 1) H Hr).
    destruct (evolve_plain rule store r tt hist T1) as [[[] a1]|e1] eqn:P1; [|discriminate E1].
    injection E1 as ->.
    destruct (evolve_plain rule store r tt out1 T2) as [[[] a2]|e2] eqn:P2; [|discriminate E2].
    injection E2 as ->.
    rewrite (evolve_plain_split unit rule store (fun s n c t t' => eq_refl) r tt hist T1 T2 tt out1 tt out2
               Hne HT1 HT2 P1 P2). reflexivity.
  Qed.

  (* ---------------------------------------------------------------- C06 *)
  Local Notation stepL := (step_plain (logged1 rule) store r).

  (* the Plain mode, unfolded: fixed and callable runs over the logging step *)
  Lemma plain_fixed_unfold : forall hist k,
    arr_of (evolve1d_fixed rule store (PBool false) r tt hist (S k)) =
    Ok (hist ++ snd (iter_steps stepL k (tt, []) (last hist []) 1)).
  Proof.
    intros hist k. unfold evolve1d_fixed. change (dispatch (PBool false)) with (Some Plain).
    unfold evolve_mode_fixed, evolve_plain. rewrite evolve_fixed_unfold.
    destruct (iter_steps stepL k (tt, []) (last hist []) 1) as [[s lg] rows]. reflexivity.
  Qed.

  Lemma plain_dynamic_unfold : forall P (pred : P -> list (list Z) -> nat -> P * bool) fuel p0 hist,
    dyn_arr_of (evolve1d_dynamic rule store pred (PBool false) r fuel p0 tt hist) =
    match evolve_dynamic [] stepL pred fuel p0 (tt, []) hist with
    | Some (p, _, out, plog) => Some (Ok (p, out, plog))
    | None => None
    end.
  Proof.
    intros P pred fuel p0 hist. unfold evolve1d_dynamic. change (dispatch (PBool false)) with (Some Plain).
    unfold evolve_mode_dynamic, evolve_plain_dynamic.
    destruct (evolve_dynamic [] stepL pred fuel p0 (tt, []) hist) as [[[[p [s lg]] out] plog]|]; reflexivity.
  Qed.

  Lemma memo1d_dynamic_spec : forall P (pred : P -> list (list Z) -> nat -> P * bool) memo m k fuel p0 hist
      (ps : nat -> P) rows pk,
    dispatch memo = Some m -> 1 <= r <= length (last hist []) ->
    arr_of (evolve1d_fixed rule store memo r tt hist (S k)) = Ok (hist ++ rows) ->
    ps 0 = p0 ->
    (forall j, j < k -> pred (ps j) (last hist [] :: firstn j rows) (S j) = (ps (S j), true)) ->
    pred (ps k) (last hist [] :: rows) (S k) = (pk, false) ->
    k < fuel ->
    dyn_arr_of (evolve1d_dynamic rule store pred memo r fuel p0 tt hist)
    = Some (Ok (pk, hist ++ rows, map (fun j => (last hist [] :: firstn (j - 1) rows, j)) (seq 1 (S k)))).
  Proof.
    intros P pred memo m k fuel p0 hist ps rows pk H Hr E H0 Hyes Hno Hf.
    assert (Hne : hist <> []).
    { intro Z0. subst hist. cbn [last length] in Hr. lia. }
    rewrite (all_modes_fixed_1d memo m hist (S k) H Hr), plain_fixed_unfold in E.
    injection E as E. apply app_inv_head in E.
    rewrite (all_modes_dynamic_1d P pred memo m fuel p0 hist H Hr), plain_dynamic_unfold.
    destruct (iter_steps stepL k (tt, []) (last hist []) 1) as [xk rows'] eqn:Ei. cbn [snd] in E. subst rows'.
    destruct (dynamic_spec _ _ _ [] stepL pred k fuel p0 (tt, []) hist ps xk rows pk Hne Ei H0 Hyes Hno Hf) as [D [A _]].
    rewrite D, A. reflexivity.
  Qed.

  Lemma memo1d_zero_steps : forall P (pred : P -> list (list Z) -> nat -> P * bool) memo m fuel p0 hist p1,
    dispatch memo = Some m -> 1 <= r <= length (last hist []) -> 1 <= fuel ->
    pred p0 [last hist []] 1 = (p1, false) ->
    dyn_arr_of (evolve1d_dynamic rule store pred memo r fuel p0 tt hist) = Some (Ok (p1, hist, [([last hist []], 1)])).
  Proof.
    intros P pred memo m fuel p0 hist p1 H Hr Hf Hp.
    assert (Hne : hist <> []).
    { intro Z0. subst hist. cbn [last length] in Hr. lia. }
    rewrite (all_modes_dynamic_1d P pred memo m fuel p0 hist H Hr), plain_dynamic_unfold.
    now rewrite (dynamic_zero_steps _ _ _ [] stepL pred fuel p0 (tt, []) hist p1 Hne Hf Hp).
  Qed.

  Lemma memo1d_until_fixed_point_halts : forall memo m k fuel hist rows,
    dispatch memo = Some m -> 1 <= r <= length (last hist []) -> 1 <= k ->
    arr_of (evolve1d_fixed rule store memo r tt hist (S k)) = Ok (hist ++ rows) ->
    nth k (last hist [] :: rows) [] = nth (k - 1) (last hist [] :: rows) [] ->
    (forall j, 1 <= j < k -> nth j (last hist [] :: rows) [] <> nth (j - 1) (last hist [] :: rows) []) ->
    k < fuel ->
    dyn_arr_of (evolve1d_dynamic rule store (until_fixed_point zlist_eqb) memo r fuel tt tt hist)
    = Some (Ok (tt, hist ++ rows, map (fun j => (last hist [] :: firstn (j - 1) rows, j)) (seq 1 (S k)))).
  Proof.
    intros memo m k fuel hist rows H Hr Hk E Hrep Hfirst Hf.
    assert (Hne : hist <> []).
    { intro Z0. subst hist. cbn [last length] in Hr. lia. }
    rewrite (all_modes_fixed_1d memo m hist (S k) H Hr), plain_fixed_unfold in E.
    injection E as E. apply app_inv_head in E.
    rewrite (all_modes_dynamic_1d _ _ memo m fuel tt hist H Hr), plain_dynamic_unfold.
    destruct (iter_steps stepL k (tt, []) (last hist []) 1) as [xk rows'] eqn:Ei. cbn [snd] in E. subst rows'.
    now rewrite (until_fixed_point_halts _ _ [] stepL zlist_eqb zlist_eqb_spec k fuel (tt, []) hist xk rows
                   Hne Hk Ei Hrep Hfirst Hf).
  Qed.

  Lemma memo1d_until_fixed_point_sound : forall memo m fuel hist p out plog,
    dispatch memo = Some m -> 1 <= r <= length (last hist []) ->
    dyn_arr_of (evolve1d_dynamic rule store (until_fixed_point zlist_eqb) memo r fuel tt tt hist) = Some (Ok (p, out, plog)) ->
    exists k rows, 1 <= k < fuel /\ out = hist ++ rows /\ length rows = k /\
      arr_of (evolve1d_fixed rule store memo r tt hist (S k)) = Ok out /\
      nth k (last hist [] :: rows) [] = nth (k - 1) (last hist [] :: rows) [] /\
      (forall j, 1 <= j < k -> nth j (last hist [] :: rows) [] <> nth (j - 1) (last hist [] :: rows) []).
  Proof.
    intros memo m fuel hist p out plog H Hr E.
    assert (Hne : hist <> []).
    { intro Z0. subst hist. cbn [last length] in Hr. lia. }
    rewrite (all_modes_dynamic_1d _ _ memo m fuel tt hist H Hr), plain_dynamic_unfold in E.
    destruct (evolve_dynamic [] stepL (until_fixed_point zlist_eqb) fuel tt (tt, []) hist)
      as [[[[p' x'] out'] plog']|] eqn:Ed; [|discriminate E].
    injection E as -> -> ->.
    destruct (until_fixed_point_sound _ _ [] stepL zlist_eqb zlist_eqb_spec fuel (tt, []) hist p x' out plog Hne Ed)
      as [k [rows [Hk [Hit [Ho [Hrep Hfirst]]]]]].
    exists k, rows. split; [exact Hk|]. split; [exact Ho|].
    split; [exact (iter_steps_length' _ _ _ _ _ _ _ _ _ Hit)|]. split; [|split; [exact Hrep|exact Hfirst]].
    rewrite (all_modes_fixed_1d memo m hist (S k) H Hr), plain_fixed_unfold, Hit, Ho. reflexivity.
  Qed.
End Modes1D.

(* ================================================================== 2D *)
Section Modes2D.
  Variable f : nbhd2 -> Z.
  Variable store : Z -> Z.
  Variable r : nat.
  Variable ty : nbhd_type.
  Variables R C : nat.
  Hypothesis HR : 1 <= R.
  Hypothesis HC : 1 <= C.
  Hypothesis Hrad : r <= Nat.min R C.

  Local Notation rule := (pure_rule2 f).
  Local Notation shape := (fun g : grid => length g = R /\ Forall (fun row => length row = C) g).
  (* memoize=True keys the cache by the neighbourhood with masked cells filled in: the rule must not
     read masked cells *)
  Local Notation reads_unmasked := (forall n n', nb_mask n = nb_mask n' -> unmasked n = unmasked n' -> f n = f n').

  Lemma all_modes_fixed_2d : forall m hist T, (m = Memo -> reads_unmasked) -> shape (last hist []) ->
    arr2_of (evolve2d_mode_fixed rule store m r ty tt hist T) =
    match evolve2d_plain rule store r ty tt hist T with Ok (_, a) => Ok a | Raise e => Raise e end.
  Proof.
    intros m hist T Hum Hs. destruct m.
    - reflexivity.
    - exact (memo2d_true_fixed unit rule store f (answers_pure f) (Hum eq_refl) r ty R C hist T tt HR HC Hrad Hs).
    - exact (memo2d_recursive_fixed unit rule store f (answers_pure f) r ty R C hist T tt HR HC Hrad Hs).
  Qed.

  Lemma all_modes_dynamic_2d : forall P (pred : P -> list grid -> nat -> P * bool) m fuel p0 hist,
    (m = Memo -> reads_unmasked) -> shape (last hist []) ->
    dyn_arr2_of (evolve2d_mode_dynamic rule store pred m r ty fuel p0 tt hist) =
    dyn_arr2_of (evolve2d_plain_dynamic rule store pred r ty fuel p0 tt hist).
  Proof.
    intros P pred m fuel p0 hist Hum Hs. destruct m.
    - reflexivity.
    - exact (memo2d_true_dynamic unit rule store f (answers_pure f) (Hum eq_refl) r ty pred R C hist fuel p0 tt HR HC Hrad Hs).
    - exact (memo2d_recursive_dynamic unit rule store f (answers_pure f) r ty pred R C hist fuel p0 tt HR HC Hrad Hs).
  Qed.

  Lemma shape_nonempty : forall hist : list grid, shape (last hist []) -> hist <> [].
  Proof. intros hist [Hl _] Z0. subst hist. cbn [last length] in Hl. lia. Qed.

  (* ---------------------------------------------------------------- C05 *)
  Lemma memo2d_extends : forall m hist T out, (m = Memo -> reads_unmasked) -> shape (last hist []) ->
    arr2_of (evolve2d_mode_fixed rule store m r ty tt hist T) = Ok out ->
    exists rows, out = hist ++ rows /\ length rows = T - 1 /\ firstn (length hist) out = hist /\
      Forall (fun g => length g = R /\ Forall (fun row => length row = C) g) rows /\
      (forall hist', last hist' [] = last hist [] ->
         arr2_of (evolve2d_mode_fixed rule store m r ty tt hist' T) = Ok (hist' ++ rows)).
  Proof.
    intros m hist T out Hum Hs E. rewrite (all_modes_fixed_2d m hist T Hum Hs) in E.
    destruct (evolve2d_plain rule store r ty tt hist T) as [[s a]|e] eqn:Ep; [|discriminate E].
    injection E as ->.
    destruct (evolve2d_plain_extends _ _ _ _ _ _ _ _ _ _ R C Ep ltac:(lia)) as [rows [E1 [L [U [I D]]]]].
    exists rows. split; [exact E1|]. split; [exact L|]. split; [exact U|]. split; [exact (I Hs)|].
    intros hist' HL. rewrite (all_modes_fixed_2d m hist' T Hum) by (rewrite HL; exact Hs).
    now rewrite (D hist' HL).
  Qed.

  Lemma memo2d_split : forall m hist T1 T2 out1 out2, (m = Memo -> reads_unmasked) -> shape (last hist []) ->
    1 <= T1 -> 1 <= T2 ->
    arr2_of (evolve2d_mode_fixed rule store m r ty tt hist T1) = Ok out1 ->
    arr2_of (evolve2d_mode_fixed rule store m r ty tt out1 T2) = Ok out2 ->
    arr2_of (evolve2d_mode_fixed rule store m r ty tt hist (T1 + T2 - 1)) = Ok out2.
  Proof.
    intros m hist T1 T2 out1 out2 Hum Hs HT1 HT2 E1 E2.
    destruct (memo2d_extends m hist T1 out1 Hum Hs E1) as [rows [Eo [_ [_ [Hw _]]]]].
    assert (Hs1 : shape (last out1 [])).
    { subst out1. exact (last_app_Q shape hist rows [] Hs Hw). }
    pose proof (shape_nonempty hist Hs) as Hne.
    rewrite (all_modes_fixed_2d m hist T1 Hum Hs) in E1.
    rewrite (all_modes_fixed_2d m out1 T2 Hum Hs1) in E2.
    rewrite (all_modes_fixed_2d m hist (T1 + T2 - 1) Hum Hs).
    destruct (evolve2d_plain rule store r ty tt hist T1) as [[[] a1]|e1] eqn:P1; [|discriminate E1].
    injection E1 as ->.
    destruct (evolve2d_plain rule store r ty tt out1 T2) as [[[] a2]|e2] eqn:P2; [|discriminate E2].
    injection E2 as ->.
    rewrite (evolve2d_plain_split unit rule store (fun s n c t t' => eq_refl) r ty tt hist T1 T2 tt out1 tt out2
               Hne HT1 HT2 P1 P2). reflexivity.
  Qed.

  (* ---------------------------------------------------------------- C06 *)
  Local Notation stepP := (step_plain2d rule store r ty).

  Lemma plain2d_fixed_unfold : forall hist k,
    match evolve2d_plain rule store r ty tt hist (S k) with Ok (_, a) => Ok a | Raise e => Raise e end =
    Ok (hist ++ snd (iter_steps stepP k tt (last hist []) 1)).
  Proof.
    intros hist k. unfold evolve2d_plain. rewrite evolve_fixed_unfold. reflexivity.
  Qed.

  Lemma memo2d_dynamic_spec : forall P (pred : P -> list grid -> nat -> P * bool) m k fuel p0 hist
      (ps : nat -> P) rows pk,
    (m = Memo -> reads_unmasked) -> shape (last hist []) ->
    arr2_of (evolve2d_mode_fixed rule store m r ty tt hist (S k)) = Ok (hist ++ rows) ->
    ps 0 = p0 ->
    (forall j, j < k -> pred (ps j) (last hist [] :: firstn j rows) (S j) = (ps (S j), true)) ->
    pred (ps k) (last hist [] :: rows) (S k) = (pk, false) ->
    k < fuel ->
    dyn_arr2_of (evolve2d_mode_dynamic rule store pred m r ty fuel p0 tt hist)
    = Some (hist ++ rows, map (fun j => (last hist [] :: firstn (j - 1) rows, j)) (seq 1 (S k))).
  Proof.
    intros P pred m k fuel p0 hist ps rows pk Hum Hs E H0 Hyes Hno Hf.
    pose proof (shape_nonempty hist Hs) as Hne.
    rewrite (all_modes_fixed_2d m hist (S k) Hum Hs), plain2d_fixed_unfold in E.
    injection E as E. apply app_inv_head in E.
    rewrite (all_modes_dynamic_2d P pred m fuel p0 hist Hum Hs). unfold evolve2d_plain_dynamic.
    subst rows. pose proof (surjective_pairing (iter_steps stepP k tt (last hist []) 1)) as Ei.
    destruct (dynamic_spec _ _ _ [] stepP pred k fuel p0 tt hist ps _ _ pk Hne Ei H0 Hyes Hno Hf) as [D [A _]].
    rewrite D, A. reflexivity.
  Qed.

  Lemma memo2d_zero_steps : forall P (pred : P -> list grid -> nat -> P * bool) m fuel p0 hist p1,
    (m = Memo -> reads_unmasked) -> shape (last hist []) -> 1 <= fuel ->
    pred p0 [last hist []] 1 = (p1, false) ->
    dyn_arr2_of (evolve2d_mode_dynamic rule store pred m r ty fuel p0 tt hist) = Some (hist, [([last hist []], 1)]).
  Proof.
    intros P pred m fuel p0 hist p1 Hum Hs Hf Hp.
    pose proof (shape_nonempty hist Hs) as Hne.
    rewrite (all_modes_dynamic_2d P pred m fuel p0 hist Hum Hs). unfold evolve2d_plain_dynamic.
    now rewrite (dynamic_zero_steps _ _ _ [] stepP pred fuel p0 tt hist p1 Hne Hf Hp).
  Qed.

  Lemma memo2d_until_fixed_point_halts : forall m k fuel hist rows,
    (m = Memo -> reads_unmasked) -> shape (last hist []) -> 1 <= k ->
    arr2_of (evolve2d_mode_fixed rule store m r ty tt hist (S k)) = Ok (hist ++ rows) ->
    nth k (last hist [] :: rows) [] = nth (k - 1) (last hist [] :: rows) [] ->
    (forall j, 1 <= j < k -> nth j (last hist [] :: rows) [] <> nth (j - 1) (last hist [] :: rows) []) ->
    k < fuel ->
    dyn_arr2_of (evolve2d_mode_dynamic rule store (until_fixed_point zgrid_eqb) m r ty fuel tt tt hist)
    = Some (hist ++ rows, map (fun j => (last hist [] :: firstn (j - 1) rows, j)) (seq 1 (S k))).
  Proof.
    intros m k fuel hist rows Hum Hs Hk E Hrep Hfirst Hf.
    pose proof (shape_nonempty hist Hs) as Hne.
    rewrite (all_modes_fixed_2d m hist (S k) Hum Hs), plain2d_fixed_unfold in E.
    injection E as E. apply app_inv_head in E.
    rewrite (all_modes_dynamic_2d _ _ m fuel tt hist Hum Hs). unfold evolve2d_plain_dynamic.
    subst rows. pose proof (surjective_pairing (iter_steps stepP k tt (last hist []) 1)) as Ei.
    now rewrite (until_fixed_point_halts _ _ [] stepP zgrid_eqb zgrid_eqb_spec k fuel tt hist _ _
                   Hne Hk Ei Hrep Hfirst Hf).
  Qed.

  Lemma memo2d_until_fixed_point_sound : forall m fuel hist out plog,
    (m = Memo -> reads_unmasked) -> shape (last hist []) ->
    dyn_arr2_of (evolve2d_mode_dynamic rule store (until_fixed_point zgrid_eqb) m r ty fuel tt tt hist) = Some (out, plog) ->
    exists k rows, 1 <= k < fuel /\ out = hist ++ rows /\ length rows = k /\
      arr2_of (evolve2d_mode_fixed rule store m r ty tt hist (S k)) = Ok out /\
      nth k (last hist [] :: rows) [] = nth (k - 1) (last hist [] :: rows) [] /\
      (forall j, 1 <= j < k -> nth j (last hist [] :: rows) [] <> nth (j - 1) (last hist [] :: rows) []).
  Proof.
    intros m fuel hist out plog Hum Hs E.
    pose proof (shape_nonempty hist Hs) as Hne.
    rewrite (all_modes_dynamic_2d _ _ m fuel tt hist Hum Hs) in E. unfold evolve2d_plain_dynamic in E.
    destruct (evolve_dynamic [] stepP (until_fixed_point zgrid_eqb) fuel tt tt hist)
      as [[[[p' x'] out'] plog']|] eqn:Ed; [|discriminate E].
    injection E as -> ->.
    destruct (until_fixed_point_sound _ _ [] stepP zgrid_eqb zgrid_eqb_spec fuel tt hist p' x' out plog Hne Ed)
      as [k [rows [Hk [Hit [Ho [Hrep Hfirst]]]]]].
    exists k, rows. split; [exact Hk|]. split; [exact Ho|].
    split; [exact (iter_steps_length' _ _ _ _ _ _ _ _ _ Hit)|]. split; [|split; [exact Hrep|exact Hfirst]].
    rewrite (all_modes_fixed_2d m hist (S k) Hum Hs), plain2d_fixed_unfold, Ho. f_equal. f_equal. exact (f_equal snd Hit).
  Qed.
End Modes2D.

(* ================================================================== memo modes, ANY rule state machine
   evolve_mode_dynamic IS evolve_dynamic over step_memo / step_recursive (and over the logging plain
   step), so gating, argument log and "equals the fixed-count run of the same mode" need nothing about
   the rule: the cache contents, the rule's final state and its call log coincide too. *)
Section AnyRule1D.
  Variable St : Type.
  Variable rule : rule1 St.
  Variable store : Z -> Z.

  Lemma memo_modes_any_rule_1d : forall (P : Type) (pred : P -> list (list Z) -> nat -> P * bool) (m : mode) r k fuel p0 s0
      (hist : list (list Z)) (ps : nat -> P) s' lg rows pk,
    hist <> [] ->
    evolve_mode_fixed rule store m r s0 hist (S k) = Ok (s', lg, hist ++ rows) ->
    ps 0 = p0 ->
    (forall j, j < k -> pred (ps j) (last hist [] :: firstn j rows) (S j) = (ps (S j), true)) ->
    pred (ps k) (last hist [] :: rows) (S k) = (pk, false) ->
    k < fuel ->
    evolve_mode_dynamic rule store pred m r fuel p0 s0 hist
    = Some (pk, (s', lg, hist ++ rows), map (fun j => (last hist [] :: firstn (j - 1) rows, j)) (seq 1 (S k))).
  Proof.
    intros P pred m r k fuel p0 s0 hist ps s' lg rows pk Hne E H0 Hyes Hno Hf.
    destruct m; unfold evolve_mode_fixed, evolve_mode_dynamic, evolve_plain, evolve_plain_dynamic in *;
      rewrite evolve_fixed_unfold in E.
    - destruct (iter_steps (step_plain (logged1 rule) store r) k (s0, []) (last hist []) 1) as [[sx lx] rx] eqn:Ei.
      cbn [fst snd bind] in E. injection E as -> -> Eo. apply app_inv_head in Eo. subst rx.
      destruct (dynamic_spec _ _ _ [] _ pred k fuel p0 (s0, []) hist ps _ rows pk Hne Ei H0 Hyes Hno Hf) as [D [A _]].
      rewrite D, A. reflexivity.
    - destruct (iter_steps (step_memo rule store r) k (s0, [], []) (last hist []) 1) as [[[sx cx] lx] rx] eqn:Ei.
      cbn [fst snd bind] in E. injection E as -> -> Eo. apply app_inv_head in Eo. subst rx.
      destruct (dynamic_spec _ _ _ [] _ pred k fuel p0 _ hist ps _ rows pk Hne Ei H0 Hyes Hno Hf) as [D [A _]].
      rewrite D, A. reflexivity.
    - destruct (iter_steps (step_recursive rule store r) k (s0, [], []) (last hist []) 1) as [[[sx cx] lx] rx] eqn:Ei.
      cbn [fst snd bind] in E. injection E as -> -> Eo. apply app_inv_head in Eo. subst rx.
      destruct (dynamic_spec _ _ _ [] _ pred k fuel p0 _ hist ps _ rows pk Hne Ei H0 Hyes Hno Hf) as [D [A _]].
      rewrite D, A. reflexivity.
  Qed.
End AnyRule1D.
