(* Proofs about the outer loops of Model/Engine.v, once for every step function, every threaded
   state type X, every configuration type C and every stopping predicate:
     C05: evolve_fixed extends the given history (evolve_extends, evolve_rows_depend_on_last,
          evolve_input_unchanged, evolve_rows_invariant) and the split law (evolve_split_periodic
          and its two readings evolve_split, evolve_split_parity; split_even_counterexample);
     C06: evolve_dynamic consults the predicate before every step with the states of this call
          (dynamic_spec, dynamic_complete, dynamic_zero_steps, dynamic_equals_fixed) and
          until_fixed_point stops exactly at the first repeat (until_fixed_point_halts,
          until_fixed_point_sound). *)
From CPL Require Import Model.Base Model.Engine.
From Coq Require Import Lia.

(* ------------------------------------------------------------------ list helpers *)
Lemma last_app_cons {A} (l : list A) (a : A) (m : list A) (d : A) :
  last (l ++ a :: m) d = last (a :: m) d.
Proof.
  induction l as [|x l IH]; [reflexivity|].
  rewrite <- IH. cbn [app]. destruct (l ++ a :: m) eqn:E; [|reflexivity].
  destruct l; discriminate E.
Qed.

Lemma last_app_nonnil {A} (l m : list A) (d : A) : m <> [] -> last (l ++ m) d = last m d.
Proof. destruct m as [|a m]; [congruence|]. intros _. apply last_app_cons. Qed.

Lemma last_cons_default {A} (a : A) (l : list A) (d : A) : last (a :: l) d = last l a.
Proof.
  revert a d. induction l as [|b l IH]; intros a d; [reflexivity|].
  change (last (a :: b :: l) d) with (last (b :: l) d). now rewrite (IH b d), (IH b a).
Qed.

Lemma firstn_succ_snoc {A} (l : list A) (n : nat) (d : A) :
  n < length l -> firstn (S n) l = firstn n l ++ [nth n l d].
Proof.
  revert n. induction l as [|a l IH]; intros n Hn; [simpl in Hn; lia|].
  destruct n as [|n]; [reflexivity|].
  change (firstn (S (S n)) (a :: l)) with (a :: firstn (S n) l).
  rewrite (IH n) by (simpl in Hn; lia). reflexivity.
Qed.

Lemma seq_S_shift_map (n : nat) : seq 0 (S n) = 0 :: map S (seq 0 n).
Proof. cbn [seq]. now rewrite seq_shift. Qed.

Section EngineProofs.
  Variables (X P C : Type).
  Variable dflt : C.
  Variable step : X -> C -> nat -> X * C.
  Variable pred : P -> list C -> nat -> P * bool.

  Local Notation iter := (iter_steps step).
  Local Notation fixedrun := (evolve_fixed dflt step).
  Local Notation dynloop := (dynamic_loop dflt step pred).
  Local Notation dynrun := (evolve_dynamic dflt step pred).

  (* ---------------------------------------------------------------- iter_steps *)
  Lemma iter_steps_length : forall n x cur t, length (snd (iter n x cur t)) = n.
  Proof.
    induction n as [|n IH]; intros x cur t; [reflexivity|].
    cbn [iter_steps]. destruct (step x cur t) as [x1 nxt].
    specialize (IH x1 nxt (S t)). destruct (iter n x1 nxt (S t)) as [x2 rest].
    cbn [snd length] in *. now rewrite IH.
  Qed.

  Lemma iter_steps_length' : forall n x cur t x' rows, iter n x cur t = (x', rows) -> length rows = n.
  Proof. intros n x cur t x' rows H. pose proof (iter_steps_length n x cur t) as L. rewrite H in L. exact L. Qed.

  (* n + m steps = n steps, then m steps from where they ended, numbered on *)
  Lemma iter_steps_app : forall n m x cur t x1 r1 x2 r2,
    iter n x cur t = (x1, r1) ->
    iter m x1 (last r1 cur) (t + n) = (x2, r2) ->
    iter (n + m) x cur t = (x2, r1 ++ r2).
  Proof.
    induction n as [|n IH]; intros m x cur t x1 r1 x2 r2 H1 H2.
    - cbn [iter_steps] in H1. injection H1 as <- <-. cbn [last] in H2.
      rewrite Nat.add_0_r in H2. exact H2.
    - cbn [iter_steps Nat.add] in *. destruct (step x cur t) as [xa nxt].
      destruct (iter n xa nxt (S t)) as [xb rest] eqn:E. injection H1 as <- <-.
      rewrite last_cons_default in H2. replace (t + S n) with (S t + n) in H2 by lia.
      rewrite (IH m xa nxt (S t) xb rest x2 r2 E H2). reflexivity.
  Qed.

  (* a step whose dependence on t has period p may be renumbered by any multiple of p *)
  Lemma iter_steps_shift : forall p, (forall x c t, step x c (t + p) = step x c t) ->
    forall k n x cur t, iter n x cur (t + k * p) = iter n x cur t.
  Proof.
    intros p Hp k. induction k as [|k IHk]; intros n x cur t.
    - now rewrite Nat.mul_0_l, Nat.add_0_r.
    - replace (t + S k * p) with ((t + k * p) + p) by lia.
      rewrite <- (IHk n x cur t). generalize (t + k * p) as u. clear IHk.
      revert x cur. induction n as [|n IHn]; intros x cur u; [reflexivity|].
      cbn [iter_steps]. rewrite Hp. destruct (step x cur u) as [x1 nxt].
      change (S (u + p)) with (S u + p). now rewrite IHn.
  Qed.

  Lemma iter_steps_invariant : forall (Inv : C -> Prop),
    (forall x c t, Inv c -> Inv (snd (step x c t))) ->
    forall n x cur t, Inv cur -> Forall Inv (snd (iter n x cur t)).
  Proof.
    intros Inv HI. induction n as [|n IH]; intros x cur t Hc; [constructor|].
    cbn [iter_steps]. pose proof (HI x cur t Hc) as H1. destruct (step x cur t) as [x1 nxt].
    specialize (IH x1 nxt (S t) H1). destruct (iter n x1 nxt (S t)) as [x2 rest].
    cbn [snd] in *. constructor; assumption.
  Qed.

  (* ---------------------------------------------------------------- C05: evolve_fixed *)
  Lemma evolve_fixed_zero : forall x hist, fixedrun x hist 0 = Raise IndexError.
  Proof. reflexivity. Qed.

  Lemma evolve_fixed_unfold : forall x hist k,
    fixedrun x hist (S k) = Ok (fst (iter k x (last hist dflt) 1), hist ++ snd (iter k x (last hist dflt) 1)).
  Proof. intros. unfold evolve_fixed. destruct (iter k x (last hist dflt) 1); reflexivity. Qed.

  (* the result is the given rows followed by T-1 new ones *)
  Lemma evolve_extends : forall x hist T x' out,
    fixedrun x hist T = Ok (x', out) ->
    exists rows, out = hist ++ rows /\ length rows = T - 1.
  Proof.
    intros x hist T x' out H. destruct T as [|k]; [discriminate H|].
    rewrite evolve_fixed_unfold in H. injection H as _ <-.
    eexists; split; [reflexivity|]. rewrite iter_steps_length. lia.
  Qed.

  (* every T >= 1 succeeds *)
  Lemma evolve_fixed_ok : forall x hist T, 1 <= T -> exists x' rows,
    fixedrun x hist T = Ok (x', hist ++ rows) /\ length rows = T - 1.
  Proof.
    intros x hist T HT. destruct T as [|k]; [lia|]. rewrite evolve_fixed_unfold.
    do 2 eexists; split; [reflexivity|]. rewrite iter_steps_length. lia.
  Qed.

  (* the new rows (and the final threaded state) depend on the history only through its last row *)
  Lemma evolve_rows_depend_on_last : forall x h1 h2 T x1 o1 x2 o2,
    last h1 dflt = last h2 dflt ->
    fixedrun x h1 T = Ok (x1, o1) -> fixedrun x h2 T = Ok (x2, o2) ->
    x1 = x2 /\ exists rows, o1 = h1 ++ rows /\ o2 = h2 ++ rows /\ length rows = T - 1.
  Proof.
    intros x h1 h2 T x1 o1 x2 o2 HL H1 H2. destruct T as [|k]; [discriminate H1|].
    rewrite evolve_fixed_unfold in H1, H2. rewrite HL in H1.
    injection H1 as <- <-. injection H2 as <- <-.
    split; [reflexivity|]. eexists; split; [reflexivity|]. split; [reflexivity|].
    rewrite iter_steps_length. lia.
  Qed.

  (* the caller's rows come back unchanged and in order at the front *)
  Lemma evolve_input_unchanged : forall x hist T x' out,
    fixedrun x hist T = Ok (x', out) -> firstn (length hist) out = hist.
  Proof.
    intros x hist T x' out H. destruct (evolve_extends _ _ _ _ _ H) as [rows [-> _]].
    rewrite firstn_app, firstn_all, Nat.sub_diag. cbn [firstn]. apply app_nil_r.
  Qed.

  (* whatever one step preserves (the cell shape, for the instances) holds for every new row *)
  Lemma evolve_rows_invariant : forall (Inv : C -> Prop),
    (forall x c t, Inv c -> Inv (snd (step x c t))) ->
    forall x hist T x' out, Inv (last hist dflt) -> fixedrun x hist T = Ok (x', out) ->
    Forall Inv (skipn (length hist) out).
  Proof.
    intros Inv HI x hist T x' out Hl H. destruct T as [|k]; [discriminate H|].
    rewrite evolve_fixed_unfold in H. injection H as _ <-.
    rewrite skipn_app, skipn_all, Nat.sub_diag. cbn [skipn app].
    now apply iter_steps_invariant.
  Qed.

  (* split law, general form: the step's dependence on t has period p and the first call performs a
     multiple of p steps *)
  Lemma evolve_split_periodic : forall p, (forall x c t, step x c (t + p) = step x c t) ->
    forall k x0 hist T1 T2 x1 out1 x2 out2,
    T1 = k * p + 1 -> 1 <= T2 ->
    fixedrun x0 hist T1 = Ok (x1, out1) ->
    fixedrun x1 out1 T2 = Ok (x2, out2) ->
    fixedrun x0 hist (T1 + T2 - 1) = Ok (x2, out2).
  Proof.
    intros p Hp k x0 hist T1 T2 x1 out1 x2 out2 HT1 HT2 H1 H2.
    destruct T2 as [|m]; [lia|]. subst T1.
    replace (k * p + 1) with (S (k * p)) in * by lia.
    replace (S (k * p) + S m - 1) with (S (k * p + m)) by lia.
    rewrite evolve_fixed_unfold in H1. injection H1 as <- <-.
    rewrite evolve_fixed_unfold in H2. rewrite evolve_fixed_unfold.
    destruct (iter (k * p) x0 (last hist dflt) 1) as [xa r1] eqn:E1. cbn [fst snd] in *.
    assert (HL : last (hist ++ r1) dflt = last r1 (last hist dflt)).
    { destruct r1 as [|a r1]; [now rewrite app_nil_r|].
      rewrite last_app_cons. now rewrite !last_cons_default. }
    rewrite HL in H2.
    rewrite <- (iter_steps_shift p Hp k m xa (last r1 (last hist dflt)) 1) in H2.
    destruct (iter m xa (last r1 (last hist dflt)) (1 + k * p)) as [xb r2] eqn:E2. cbn [fst snd] in *.
    rewrite (iter_steps_app _ _ _ _ _ _ _ _ _ E1 E2). cbn [fst snd].
    rewrite <- H2. now rewrite app_assoc.
  Qed.

  (* reading 1: the step ignores t; every split point *)
  Lemma evolve_split : (forall x c t t', step x c t = step x c t') ->
    forall x0 hist T1 T2 x1 out1 x2 out2,
    hist <> [] -> 1 <= T1 -> 1 <= T2 ->
    fixedrun x0 hist T1 = Ok (x1, out1) ->
    fixedrun x1 out1 T2 = Ok (x2, out2) ->
    fixedrun x0 hist (T1 + T2 - 1) = Ok (x2, out2).
  Proof.
    intros Ht x0 hist T1 T2 x1 out1 x2 out2 _ HT1 HT2 H1 H2.
    apply (evolve_split_periodic 1 (fun x c t => Ht x c (t + 1) t) (T1 - 1) x0 hist T1 T2 x1 out1 x2 out2);
      try assumption. lia.
  Qed.

  (* reading 2: the step depends on t only through its parity (block engines); T1 odd *)
  Lemma evolve_split_parity : (forall x c t, step x c (S (S t)) = step x c t) ->
    forall x0 hist T1 T2 x1 out1 x2 out2,
    hist <> [] -> Nat.odd T1 = true -> 1 <= T2 ->
    fixedrun x0 hist T1 = Ok (x1, out1) ->
    fixedrun x1 out1 T2 = Ok (x2, out2) ->
    fixedrun x0 hist (T1 + T2 - 1) = Ok (x2, out2).
  Proof.
    intros Ht x0 hist T1 T2 x1 out1 x2 out2 _ HT1 HT2 H1 H2.
    assert (Hp : forall x c t, step x c (t + 2) = step x c t).
    { intros x c t. replace (t + 2) with (S (S t)) by lia. apply Ht. }
    apply (evolve_split_periodic 2 Hp (T1 / 2) x0 hist T1 T2 x1 out1 x2 out2); try assumption.
    pose proof (Nat.div_mod T1 2 ltac:(lia)) as D.
    assert (T1 mod 2 = 1).
    { rewrite <- Nat.bit0_mod, Nat.bit0_odd. now rewrite HT1. }
    lia.
  Qed.

  (* ---------------------------------------------------------------- C06: evolve_dynamic *)

  (* The loop, from any point of a run: if the predicate (walking through its own states ps) says
     yes to the next k consultations and no to the one after, exactly k more steps are performed. *)
  Lemma dynamic_loop_spec : forall k fuel p x states t plog (ps : nat -> P) xk rows pk,
    iter k x (last states dflt) t = (xk, rows) ->
    ps 0 = p ->
    (forall j, j < k -> pred (ps j) (states ++ firstn j rows) (t + j) = (ps (S j), true)) ->
    pred (ps k) (states ++ rows) (t + k) = (pk, false) ->
    k < fuel ->
    dynloop fuel p x states t plog
    = Some (pk, xk, states ++ rows,
            plog ++ map (fun j => (states ++ firstn j rows, t + j)) (seq 0 (S k))).
  Proof.
    induction k as [|k IH]; intros fuel p x states t plog ps xk rows pk Hit H0 Hyes Hno Hf;
      (destruct fuel as [|f]; [lia|]).
    - cbn [iter_steps] in Hit. injection Hit as <- <-.
      rewrite app_nil_r, Nat.add_0_r, H0 in Hno.
      cbn [dynamic_loop]. rewrite Hno. cbn [seq map firstn]. now rewrite app_nil_r, Nat.add_0_r.
    - cbn [iter_steps] in Hit. destruct (step x (last states dflt) t) as [x1 nxt] eqn:Es.
      destruct (iter k x1 nxt (S t)) as [x2 rest] eqn:Ei. injection Hit as <- <-.
      pose proof (Hyes 0 ltac:(lia)) as Hy0. cbn [firstn] in Hy0.
      rewrite app_nil_r, Nat.add_0_r, H0 in Hy0.
      cbn [dynamic_loop]. rewrite Hy0, Es.
      rewrite (IH f (ps 1) x1 (states ++ [nxt]) (S t) (plog ++ [(states, t)]) (fun j => ps (S j)) x2 rest pk).
      + rewrite <- !app_assoc. cbn [app]. f_equal. f_equal. f_equal.
        rewrite (seq_S_shift_map (S k)). cbn [map firstn]. rewrite app_nil_r, Nat.add_0_r.
        f_equal. rewrite map_map. apply map_ext. intros j. cbn [firstn].
        rewrite <- app_assoc. cbn [app]. f_equal. lia.
      + now rewrite last_last.
      + reflexivity.
      + intros j Hj. specialize (Hyes (S j) ltac:(lia)). cbn [firstn] in Hyes.
        rewrite <- app_assoc. cbn [app]. replace (S t + j) with (t + S j) by lia. exact Hyes.
      + rewrite <- app_assoc. cbn [app]. replace (S t + k) with (t + S k) by lia. exact Hno.
      + lia.
  Qed.

  (* every terminating run has that shape: the hypothesis of dynamic_loop_spec is not restrictive *)
  Lemma dynamic_loop_complete : forall fuel p x states t plog p' x' out plog',
    dynloop fuel p x states t plog = Some (p', x', out, plog') ->
    exists k (ps : nat -> P) rows,
      k < fuel /\ iter k x (last states dflt) t = (x', rows) /\ ps 0 = p /\
      (forall j, j < k -> pred (ps j) (states ++ firstn j rows) (t + j) = (ps (S j), true)) /\
      pred (ps k) (states ++ rows) (t + k) = (p', false).
  Proof.
    induction fuel as [|f IH]; intros p x states t plog p' x' out plog' H; [discriminate H|].
    cbn [dynamic_loop] in H. destruct (pred p states t) as [p1 go] eqn:Ep. destruct go.
    - destruct (step x (last states dflt) t) as [x1 nxt] eqn:Es.
      destruct (IH _ _ _ _ _ _ _ _ _ H) as [k [ps [rows [Hk [Hit [H0 [Hyes Hno]]]]]]].
      rewrite last_last in Hit.
      exists (S k), (fun j => match j with 0 => p | S j' => ps j' end), (nxt :: rows).
      split; [lia|]. split; [cbn [iter_steps]; now rewrite Es, Hit|]. split; [reflexivity|]. split.
      + intros [|j] Hj.
        * cbn [firstn]. now rewrite app_nil_r, Nat.add_0_r, H0.
        * specialize (Hyes j ltac:(lia)). cbn [firstn]. rewrite <- app_assoc in Hyes. cbn [app] in Hyes.
          replace (t + S j) with (S t + j) by lia. exact Hyes.
      + rewrite <- app_assoc in Hno. cbn [app] in Hno. replace (t + S k) with (S t + k) by lia. exact Hno.
    - injection H as <- <- _ _. exists 0, (fun _ => p), [].
      split; [lia|]. split; [reflexivity|]. split; [reflexivity|]. split; [intros j Hj; lia|].
      now rewrite app_nil_r, Nat.add_0_r.
  Qed.

  Lemma plog_reindex : forall cur (rows : list C) n,
    map (fun j => ([cur] ++ firstn j rows, 1 + j)) (seq 0 n)
    = map (fun j => (cur :: firstn (j - 1) rows, j)) (seq 1 n).
  Proof.
    intros cur rows n. rewrite <- seq_shift, map_map. apply map_ext. intros j.
    cbn [app Nat.add]. now rewrite Nat.sub_succ, Nat.sub_0_r.
  Qed.

  Lemma removelast_last_app : forall (hist rows : list C),
    hist <> [] -> removelast hist ++ last hist dflt :: rows = hist ++ rows.
  Proof.
    intros hist rows Hh. rewrite (app_removelast_last dflt Hh) at 3.
    now rewrite <- app_assoc.
  Qed.

  (* C06, callable timesteps.  The predicate walks through its states ps 0, ps 1, ...; it is asked
     for the (j+1)-th time with the starting state followed by the first j new rows, and t = j+1.
     If it says yes k times and then no, the call performs exactly k steps (numbered 1..k), returns
     the history followed by those k rows - the same array, and the same threaded state, as the
     fixed-count evolution with timesteps = k+1 - and its argument log is as stated. *)
  Lemma dynamic_spec : forall k fuel p0 x0 hist (ps : nat -> P) xk rows pk,
    hist <> [] ->
    iter k x0 (last hist dflt) 1 = (xk, rows) ->
    ps 0 = p0 ->
    (forall j, j < k -> pred (ps j) (last hist dflt :: firstn j rows) (S j) = (ps (S j), true)) ->
    pred (ps k) (last hist dflt :: rows) (S k) = (pk, false) ->
    k < fuel ->
    dynrun fuel p0 x0 hist
    = Some (pk, xk, removelast hist ++ last hist dflt :: rows,
            map (fun j => (last hist dflt :: firstn (j - 1) rows, j)) (seq 1 (S k)))
    /\ removelast hist ++ last hist dflt :: rows = hist ++ rows
    /\ fixedrun x0 hist (S k) = Ok (xk, hist ++ rows).
  Proof.
    intros k fuel p0 x0 hist ps xk rows pk Hh Hit H0 Hyes Hno Hf. split; [|split].
    - unfold evolve_dynamic.
      rewrite (dynamic_loop_spec k fuel p0 x0 [last hist dflt] 1 [] ps xk rows pk); try assumption.
      rewrite plog_reindex. reflexivity.
    - now apply removelast_last_app.
    - rewrite evolve_fixed_unfold, Hit. reflexivity.
  Qed.

  (* the converse: whatever a terminating call returns, it is of that form *)
  Lemma dynamic_complete : forall fuel p0 x0 hist p' x' out plog,
    dynrun fuel p0 x0 hist = Some (p', x', out, plog) ->
    exists k (ps : nat -> P) rows,
      k < fuel /\ iter k x0 (last hist dflt) 1 = (x', rows) /\ ps 0 = p0 /\
      (forall j, j < k -> pred (ps j) (last hist dflt :: firstn j rows) (S j) = (ps (S j), true)) /\
      pred (ps k) (last hist dflt :: rows) (S k) = (p', false) /\
      out = removelast hist ++ last hist dflt :: rows /\
      plog = map (fun j => (last hist dflt :: firstn (j - 1) rows, j)) (seq 1 (S k)).
  Proof.
    intros fuel p0 x0 hist p' x' out plog H. unfold evolve_dynamic in H.
    destruct (dynloop fuel p0 x0 [last hist dflt] 1 []) as [[[[p1 x1] st] pl]|] eqn:E; [|discriminate H].
    injection H as <- <- <- <-.
    destruct (dynamic_loop_complete _ _ _ _ _ _ _ _ _ _ E) as [k [ps [rows [Hk [Hit [H0 [Hyes Hno]]]]]]].
    cbn [last] in Hit. exists k, ps, rows.
    pose proof (dynamic_loop_spec k fuel p0 x0 [last hist dflt] 1 [] ps x1 rows p1 Hit H0 Hyes Hno Hk) as S.
    rewrite E in S. injection S as -> ->.
    split; [exact Hk|]. split; [exact Hit|]. split; [exact H0|]. split; [exact Hyes|]. split; [exact Hno|].
    split; [reflexivity|]. exact (plog_reindex (last hist dflt) rows (S k)).
  Qed.

  (* the predicate declines at once: no step, the given history comes back *)
  Lemma dynamic_zero_steps : forall fuel p0 x0 hist p1,
    hist <> [] -> 1 <= fuel ->
    pred p0 [last hist dflt] 1 = (p1, false) ->
    dynrun fuel p0 x0 hist = Some (p1, x0, hist, [([last hist dflt], 1)]).
  Proof.
    intros fuel p0 x0 hist p1 Hh Hf Hp.
    destruct (dynamic_spec 0 fuel p0 x0 hist (fun _ => p0) x0 [] p1 Hh eq_refl eq_refl
                ltac:(intros j Hj; lia) Hp ltac:(lia)) as [H [E _]].
    rewrite H, E, app_nil_r. reflexivity.
  Qed.

  (* fuel exhaustion: as long as the predicate keeps saying yes the model has no value *)
  Lemma dynamic_out_of_fuel : forall fuel p x states t plog,
    (forall p s t, snd (pred p s t) = true) -> dynloop fuel p x states t plog = None.
  Proof.
    induction fuel as [|f IH]; intros p x states t plog Hy; [reflexivity|].
    cbn [dynamic_loop]. pose proof (Hy p states t) as Hp. destruct (pred p states t) as [p1 go].
    cbn [snd] in Hp. subst go. destruct (step x (last states dflt) t) as [x1 nxt]. now apply IH.
  Qed.
End EngineProofs.

(* ------------------------------------------------------------------ until_fixed_point *)
Lemma nth_firstn_lt {A} (l : list A) (n i : nat) (d : A) : i < n -> nth i (firstn n l) d = nth i l d.
Proof.
  revert n i. induction l as [|a l IH]; intros n i Hi; [now rewrite firstn_nil|].
  destruct n as [|n]; [lia|]. destruct i as [|i]; [reflexivity|].
  cbn [firstn nth]. apply IH. lia.
Qed.

Section UntilFixedPoint.
  Variables (X C : Type).
  Variable dflt : C.
  Variable step : X -> C -> nat -> X * C.
  Variable eqb : C -> C -> bool.
  Hypothesis eqb_spec : forall a b, eqb a b = true <-> a = b.

  Local Notation ufp := (until_fixed_point eqb).

  Lemma ufp_short : forall u (l : list C) t, length l <= 1 -> ufp u l t = (u, true).
  Proof.
    intros u l t Hl. unfold until_fixed_point.
    destruct (rev l) as [|a [|b r]] eqn:E; try reflexivity.
    apply (f_equal (@length C)) in E. rewrite rev_length in E. cbn [length] in E. lia.
  Qed.

  Lemma ufp_long : forall u (l : list C) t d, 2 <= length l ->
    ufp u l t = (u, negb (eqb (nth (length l - 2) l d) (nth (length l - 1) l d))).
  Proof.
    intros u l t d Hl. unfold until_fixed_point.
    destruct (rev l) as [|a [|b r]] eqn:E.
    - apply (f_equal (@length C)) in E. rewrite rev_length in E. cbn [length] in E. lia.
    - apply (f_equal (@length C)) in E. rewrite rev_length in E. cbn [length] in E. lia.
    - assert (L : l = (rev r ++ [b]) ++ [a]).
      { rewrite <- (rev_involutive l), E. reflexivity. }
      rewrite L. rewrite !app_length, rev_length. cbn [length].
      replace (length r + 1 + 1 - 2) with (length r) by lia.
      replace (length r + 1 + 1 - 1) with (length r + 1) by lia.
      rewrite (app_nth1 (rev r ++ [b]) [a]) by (rewrite app_length, rev_length; cbn [length]; lia).
      rewrite (app_nth2 (rev r) [b]) by (rewrite rev_length; lia).
      rewrite rev_length, Nat.sub_diag.
      rewrite (app_nth2 (rev r ++ [b]) [a]) by (rewrite app_length, rev_length; cbn [length]; lia).
      rewrite app_length, rev_length. cbn [length]. rewrite Nat.sub_diag. reflexivity.
  Qed.

  Lemma eqb_false : forall a b, a <> b -> eqb a b = false.
  Proof. intros a b H. destruct (eqb a b) eqn:E; [|reflexivity]. apply eqb_spec in E. contradiction. Qed.

  (* the trajectory cur, row_1, ..., row_k of this call repeats for the first time at step k:
     the evolution performs exactly k steps *)
  Lemma until_fixed_point_halts : forall k fuel x0 hist xk rows,
    hist <> [] -> 1 <= k ->
    iter_steps step k x0 (last hist dflt) 1 = (xk, rows) ->
    nth k (last hist dflt :: rows) dflt = nth (k - 1) (last hist dflt :: rows) dflt ->
    (forall j, 1 <= j < k -> nth j (last hist dflt :: rows) dflt <> nth (j - 1) (last hist dflt :: rows) dflt) ->
    k < fuel ->
    evolve_dynamic dflt step ufp fuel tt x0 hist
    = Some (tt, xk, hist ++ rows,
            map (fun j => (last hist dflt :: firstn (j - 1) rows, j)) (seq 1 (S k))).
  Proof.
    intros k fuel x0 hist xk rows Hh Hk Hit Hrep Hfirst Hf.
    pose proof (iter_steps_length' _ _ _ _ _ _ _ _ _ Hit) as Hlen.
    destruct (dynamic_spec X unit C dflt step ufp k fuel tt x0 hist (fun _ => tt) xk rows tt Hh Hit eq_refl) as [H [E _]].
    - intros j Hj. destruct j as [|j].
      + apply ufp_short. cbn [firstn length]. lia.
      + rewrite (ufp_long tt _ _ dflt) by (cbn [length]; rewrite firstn_length; lia).
        cbn [length]. rewrite firstn_length, Nat.min_l by lia.
        replace (S (S j) - 2) with j by lia. replace (S (S j) - 1) with (S j) by lia.
        assert (N1 : nth (S j) (last hist dflt :: firstn (S j) rows) dflt = nth (S j) (last hist dflt :: rows) dflt).
        { cbn [nth]. apply nth_firstn_lt. lia. }
        assert (N0 : nth j (last hist dflt :: firstn (S j) rows) dflt = nth j (last hist dflt :: rows) dflt).
        { destruct j as [|j]; [reflexivity|]. cbn [nth]. apply nth_firstn_lt. lia. }
        rewrite N1, N0. rewrite eqb_false; [reflexivity|].
        intro Heq. apply (Hfirst (S j) ltac:(lia)). replace (S j - 1) with j by lia. now symmetry.
    - rewrite (ufp_long tt _ _ dflt) by (cbn [length]; lia).
      cbn [length]. rewrite Hlen. replace (S k - 2) with (k - 1) by lia. replace (S k - 1) with k by lia.
      assert (Et : eqb (nth (k - 1) (last hist dflt :: rows) dflt) (nth k (last hist dflt :: rows) dflt) = true).
      { apply eqb_spec. now symmetry. }
      now rewrite Et.
    - exact Hf.
    - rewrite H, E. reflexivity.
  Qed.

  (* conversely, whatever a terminating call with until_fixed_point returns: at least one step was
     taken, the last two states are equal and no earlier consecutive pair is *)
  Lemma until_fixed_point_sound : forall fuel x0 hist p x out plog,
    hist <> [] ->
    evolve_dynamic dflt step ufp fuel tt x0 hist = Some (p, x, out, plog) ->
    exists k rows, 1 <= k < fuel /\ iter_steps step k x0 (last hist dflt) 1 = (x, rows) /\
      out = hist ++ rows /\
      nth k (last hist dflt :: rows) dflt = nth (k - 1) (last hist dflt :: rows) dflt /\
      (forall j, 1 <= j < k -> nth j (last hist dflt :: rows) dflt <> nth (j - 1) (last hist dflt :: rows) dflt).
  Proof.
    intros fuel x0 hist p x out plog Hh H.
    destruct (dynamic_complete X unit C dflt step ufp _ _ _ _ _ _ _ _ H)
      as [k [ps [rows [Hk [Hit [H0 [Hyes [Hno [Hout _]]]]]]]]].
    pose proof (iter_steps_length' _ _ _ _ _ _ _ _ _ Hit) as Hlen.
    assert (K1 : 1 <= k).
    { destruct k as [|k]; [|lia]. rewrite ufp_short in Hno by (cbn [length]; lia). discriminate Hno. }
    exists k, rows. split; [lia|]. split; [exact Hit|]. split; [now rewrite Hout, removelast_last_app|]. split.
    - rewrite (ufp_long _ _ _ dflt) in Hno by (cbn [length]; lia). cbn [length] in Hno. rewrite Hlen in Hno.
      replace (S k - 2) with (k - 1) in Hno by lia. replace (S k - 1) with k in Hno by lia.
      injection Hno as _ Hb. apply Bool.negb_false_iff, eqb_spec in Hb. now symmetry.
    - intros j Hj Heq. destruct j as [|j]; [lia|]. specialize (Hyes (S j) ltac:(lia)).
      rewrite (ufp_long _ _ _ dflt) in Hyes by (cbn [length]; rewrite firstn_length; lia).
      cbn [length] in Hyes. rewrite firstn_length, Nat.min_l in Hyes by lia.
      replace (S (S j) - 2) with j in Hyes by lia. replace (S (S j) - 1) with (S j) in Hyes by lia.
      assert (N1 : nth (S j) (last hist dflt :: firstn (S j) rows) dflt = nth (S j) (last hist dflt :: rows) dflt).
      { cbn [nth]. apply nth_firstn_lt. lia. }
      assert (N0 : nth j (last hist dflt :: firstn (S j) rows) dflt = nth j (last hist dflt :: rows) dflt).
      { destruct j as [|j']; [reflexivity|]. cbn [nth]. apply nth_firstn_lt. lia. }
      rewrite N1, N0 in Hyes. replace (S j - 1) with j in Heq by lia.
      apply (f_equal snd) in Hyes. cbn [snd] in Hyes.
      assert (Et : eqb (nth j (last hist dflt :: rows) dflt) (nth (S j) (last hist dflt :: rows) dflt) = true).
      { apply eqb_spec. now symmetry. }
      rewrite Et in Hyes. discriminate Hyes.
  Qed.
End UntilFixedPoint.

(* ------------------------------------------------------------------ scope of the split law *)
(* a step that alternates with the parity of t, the way the block engines alternate partitions *)
Definition alt_step (x : unit) (c : nat) (t : nat) : unit * nat :=
  (x, if Nat.even t then c + 1 else 2 * c).

Lemma alt_step_parity : forall x c t, alt_step x c (S (S t)) = alt_step x c t.
Proof. intros x c t. unfold alt_step. now rewrite Nat.even_succ_succ. Qed.

(* T1 = 2 (even): continuing the result of a 2-row evolution is NOT the 3-row evolution *)
Example split_even_counterexample :
  evolve_fixed 0 alt_step tt [1] 2 = Ok (tt, [1; 2]) /\
  evolve_fixed 0 alt_step tt [1; 2] 2 = Ok (tt, [1; 2; 4]) /\
  evolve_fixed 0 alt_step tt [1] 3 = Ok (tt, [1; 2; 3]).
Proof. repeat split. Qed.

(* T1 = 3 (odd) on the same step: the law holds, as evolve_split_parity says *)
Example split_odd_instance :
  evolve_fixed 0 alt_step tt [1] 3 = Ok (tt, [1; 2; 3]) /\
  evolve_fixed 0 alt_step tt [1; 2; 3] 2 = Ok (tt, [1; 2; 3; 6]) /\
  evolve_fixed 0 alt_step tt [1] 4 = Ok (tt, [1; 2; 3; 6]).
Proof. repeat split. Qed.

(* ------------------------------------------------------------------ the equality tests used by the instances *)
Lemma list_eqb_spec {A} (eq : A -> A -> bool) :
  (forall a b, eq a b = true <-> a = b) -> forall l m, list_eqb eq l m = true <-> l = m.
Proof.
  intros Heq. induction l as [|x l IH]; intros [|y m]; cbn [list_eqb]; try (split; [discriminate|discriminate]).
  - split; reflexivity.
  - rewrite Bool.andb_true_iff, Heq, IH. split.
    + intros [-> ->]. reflexivity.
    + intros H. injection H as -> ->. split; reflexivity.
Qed.

Lemma zlist_eqb_spec : forall a b, zlist_eqb a b = true <-> a = b.
Proof. apply list_eqb_spec. intros a b. apply Z.eqb_eq. Qed.

Lemma zgrid_eqb_spec : forall a b, zgrid_eqb a b = true <-> a = b.
Proof. apply list_eqb_spec. exact zlist_eqb_spec. Qed.
