(* C19 — exact layer of the apen model: normalisation, windows, Chebyshev distance, match counts.
   No real numbers here; every theorem is closed under the global context. *)
From Coq Require Import String Ascii.
From CPL Require Import Model.Base Model.Apen.
From Coq Require Import ZArith Lia ZifyBool ZifyNat.

(* ------------------------------------------------------------------ normalisation *)

Lemma digit_roundtrip z : (0 <= z <= 9)%Z -> digit_of_ascii (ascii_of_digit z) = Some z.
Proof.
  intros Hz.
  assert (H : (z = 0 \/ z = 1 \/ z = 2 \/ z = 3 \/ z = 4 \/ z = 5 \/ z = 6 \/ z = 7 \/ z = 8 \/ z = 9)%Z) by lia.
  repeat (destruct H as [H | H]; [subst z; reflexivity|]). subst z; reflexivity.
Qed.

Lemma digits_of_string_of_digits zs :
  Forall (fun z => 0 <= z <= 9)%Z zs -> digits_of_string (string_of_digits zs) = Ok zs.
Proof.
  induction 1 as [|z zs Hz _ IH]; [reflexivity|].
  cbn [string_of_digits digits_of_string]. rewrite (digit_roundtrip z Hz), IH. reflexivity.
Qed.

(* the three input forms of the same sequence over 0..9 normalise to the same integer sequence *)
Lemma normalise_forms_agree zs :
  Forall (fun z => 0 <= z <= 9)%Z zs ->
  normalise (SeqStr (string_of_digits zs)) = Ok zs /\
  normalise (SeqList zs) = Ok zs /\ normalise (SeqArray zs) = Ok zs.
Proof. intros H. split; [apply digits_of_string_of_digits, H | split; reflexivity]. Qed.

(* list and array agree for every integer content (negative values, values beyond 9) *)
Lemma normalise_list_array zs : normalise (SeqList zs) = normalise (SeqArray zs).
Proof. reflexivity. Qed.

Lemma normalise_other : normalise SeqOther = Raise TypeError.
Proof. reflexivity. Qed.

(* a non-digit character is rejected (ValueError from int(x)) *)
Lemma digits_of_string_bad c s : digit_of_ascii c = None -> digits_of_string (String c s) = Raise ValueError.
Proof. intros H. cbn [digits_of_string]. rewrite H. reflexivity. Qed.

(* ------------------------------------------------------------------ windows *)

Lemma xwindows_length m U : length (xwindows m U) = length U + 1 - m.
Proof. unfold xwindows, nwin. rewrite map_length, seq_length. reflexivity. Qed.

Lemma Cs_length m r U : length (Cs m r U) = length U + 1 - m.
Proof. unfold Cs. rewrite map_length. apply xwindows_length. Qed.

Lemma window_length m U i : i < nwin m U -> length (window m U i) = m.
Proof.
  unfold nwin, window. intros Hi. rewrite firstn_length, skipn_length. lia.
Qed.

Lemma xwindows_nth m U i : i < nwin m U -> nth i (xwindows m U) [] = window m U i.
Proof.
  intros Hi. unfold xwindows.
  rewrite (nth_indep _ [] (window m U 0)) by (rewrite map_length, seq_length; exact Hi).
  rewrite map_nth, seq_nth by exact Hi. reflexivity.
Qed.

(* window i really is U[i], ..., U[i+m-1] *)
Lemma nth_firstn_lt {A} k m (l : list A) d : k < m -> nth k (firstn m l) d = nth k l d.
Proof.
  revert m l. induction k as [|k IH]; intros [|m] [|a l] Hk; try reflexivity; try lia.
  cbn [firstn nth]. apply IH. lia.
Qed.

Lemma nth_skipn_add {A} i k (l : list A) d : nth k (skipn i l) d = nth (i + k) l d.
Proof.
  revert l. induction i as [|i IH]; intros l; [reflexivity|].
  destruct l as [|a l]; [destruct k; reflexivity|]. cbn [skipn Nat.add nth]. apply IH.
Qed.

Lemma window_nth m U i k d : k < m -> nth k (window m U i) d = nth (i + k) U d.
Proof.
  intros Hk. unfold window. rewrite nth_firstn_lt by exact Hk. apply nth_skipn_add.
Qed.

(* the length-m window is the prefix of the length-(m+1) window at the same position *)
Lemma window_prefix m U i : window m U i = firstn m (window (S m) U i).
Proof. unfold window. rewrite firstn_firstn. f_equal. lia. Qed.

(* ------------------------------------------------------------------ Chebyshev distance *)

Definition absdiffs (x y : list Z) : list Z := map (fun p => Z.abs (fst p - snd p)) (combine x y).

Lemma zmax_fold_nonneg l : (0 <= fold_right Z.max 0 l)%Z.
Proof. induction l as [|a l IH]; cbn [fold_right]; lia. Qed.

Lemma max_dist_nonneg x y : (0 <= max_dist x y)%Z.
Proof. apply zmax_fold_nonneg. Qed.

Lemma max_dist_sym x y : max_dist x y = max_dist y x.
Proof.
  unfold max_dist. revert y. induction x as [|a x IH]; intros [|b y]; try reflexivity.
  cbn [combine map fold_right fst snd]. rewrite IH. f_equal. lia.
Qed.

Lemma max_dist_self x : max_dist x x = 0%Z.
Proof.
  unfold max_dist. induction x as [|a x IH]; [reflexivity|].
  cbn [combine map fold_right fst snd]. rewrite IH. lia.
Qed.

(* the distance is the largest coordinate difference: an upper bound that is attained *)
Lemma max_dist_le_iff x y r : (0 <= r)%Z ->
  (max_dist x y <= r)%Z <-> Forall (fun p => Z.abs (fst p - snd p) <= r)%Z (combine x y).
Proof.
  intros Hr. unfold max_dist. induction (combine x y) as [|p l IH].
  - cbn. split; [constructor | lia].
  - cbn [map fold_right]. split.
    + intros H. constructor; [lia | apply IH; lia].
    + intros H. inversion H as [|? ? Hp Hl]; subst. apply IH in Hl. lia.
Qed.

Lemma max_dist_const v k j : max_dist (repeat v k) (repeat v j) = 0%Z.
Proof.
  unfold max_dist. revert j. induction k as [|k IH]; intros [|j]; try reflexivity.
  cbn [repeat combine map fold_right fst snd]. rewrite IH. lia.
Qed.

Lemma fold_max_firstn k l : (fold_right Z.max 0 (firstn k l) <= fold_right Z.max 0 l)%Z.
Proof.
  revert l. induction k as [|k IH]; intros l.
  - cbn. apply zmax_fold_nonneg.
  - destruct l as [|a l]; [reflexivity|]. cbn [firstn fold_right]. specialize (IH l). lia.
Qed.

(* dropping trailing coordinates cannot increase the distance *)
Lemma max_dist_firstn k x y : (max_dist (firstn k x) (firstn k y) <= max_dist x y)%Z.
Proof.
  unfold max_dist. rewrite <- combine_firstn, <- firstn_map. apply fold_max_firstn.
Qed.

(* ------------------------------------------------------------------ match counts *)

Lemma filter_length_le {A} (p : A -> bool) l : length (filter p l) <= length l.
Proof. induction l as [|a l IH]; cbn [filter]; [lia|]. destruct (p a); cbn [length]; lia. Qed.

Lemma filter_In_pos {A} (p : A -> bool) l a : In a l -> p a = true -> 1 <= length (filter p l).
Proof.
  intros Hin Hp. assert (H : In a (filter p l)) by (apply filter_In; split; assumption).
  destruct (filter p l); [contradiction | cbn [length]; lia].
Qed.

Lemma filter_all {A} (p : A -> bool) l : (forall a, In a l -> p a = true) -> filter p l = l.
Proof.
  induction l as [|a l IH]; intros H; [reflexivity|]. cbn [filter].
  rewrite (H a (or_introl eq_refl)). f_equal. apply IH. intros b Hb. apply H. right; exact Hb.
Qed.

(* every window matches itself, and cannot match more windows than there are *)
Theorem C_self_match m r U : (0 <= r)%Z ->
  Forall (fun c => 1 <= c <= nwin m U) (Cs m r U).
Proof.
  intros Hr. unfold Cs. apply Forall_forall. intros c Hc.
  apply in_map_iff in Hc. destruct Hc as [xi [Hc Hin]]. subst c. unfold match_count. split.
  - apply (filter_In_pos _ _ xi Hin). rewrite max_dist_self. lia.
  - etransitivity; [apply filter_length_le|]. rewrite xwindows_length. unfold nwin. lia.
Qed.

Corollary C_self_match_nth m r U i : (0 <= r)%Z -> i < nwin m U ->
  1 <= nth i (Cs m r U) 0 <= nwin m U.
Proof.
  intros Hr Hi. pose proof (C_self_match m r U Hr) as H. rewrite Forall_forall in H.
  apply H. apply nth_In. rewrite Cs_length. exact Hi.
Qed.

(* a constant sequence: every window matches every window *)
Lemma window_repeat v N m i : i < N + 1 - m -> window m (repeat v N) i = repeat v m.
Proof.
  intros Hi. unfold window.
  assert (Hs : forall k n, skipn k (repeat v n) = repeat v (n - k)).
  { induction k as [|k IH]; intros [|n]; try reflexivity. cbn [repeat skipn]. rewrite IH. reflexivity. }
  assert (Hf : forall k n, k <= n -> firstn k (repeat v n) = repeat v k).
  { induction k as [|k IH]; intros n Hk; [reflexivity|]. destruct n as [|n]; [lia|].
    cbn [repeat firstn]. rewrite IH by lia. reflexivity. }
  rewrite Hs, Hf by lia. reflexivity.
Qed.

Lemma xwindows_repeat v N m : xwindows m (repeat v N) = repeat (repeat v m) (N + 1 - m).
Proof.
  unfold xwindows, nwin. rewrite repeat_length.
  assert (H : forall n s, (forall i, s <= i < s + n -> window m (repeat v N) i = repeat v m) ->
              map (window m (repeat v N)) (seq s n) = repeat (repeat v m) n).
  { induction n as [|n IH]; intros s Hs; [reflexivity|]. cbn [seq map repeat].
    rewrite Hs by lia. f_equal. apply IH. intros i Hi. apply Hs. lia. }
  apply H. intros i Hi. apply window_repeat. lia.
Qed.

Theorem Cs_constant v N m r : (0 <= r)%Z ->
  Cs m r (repeat v N) = repeat (N + 1 - m) (N + 1 - m).
Proof.
  intros Hr. unfold Cs. rewrite xwindows_repeat. set (n := N + 1 - m). set (w := repeat v m).
  assert (Hc : match_count r (repeat w n) w = n).
  { unfold match_count. rewrite filter_all; [apply repeat_length|].
    intros a Ha. apply repeat_spec in Ha. subst a. unfold w. rewrite max_dist_const. lia. }
  assert (H : forall k, map (match_count r (repeat w n)) (repeat w k) = repeat n k).
  { induction k as [|k IH]; [reflexivity|]. cbn [repeat map]. rewrite Hc, IH. reflexivity. }
  apply H.
Qed.

(* a match of two length-(m+1) windows is a match of their length-m prefixes, and there is one more
   window of length m: the count can only grow when the window gets shorter *)
Lemma filter_map_length {A B} (f : A -> B) (p : B -> bool) l :
  length (filter p (map f l)) = length (filter (fun a => p (f a)) l).
Proof.
  induction l as [|a l IH]; [reflexivity|]. cbn [map filter].
  destruct (p (f a)); cbn [length]; rewrite IH; reflexivity.
Qed.

Lemma filter_length_mono {A} (p q : A -> bool) l l' :
  (forall a, In a l -> p a = true -> q a = true) ->
  length (filter p l) <= length (filter q (l ++ l')).
Proof.
  intros H. rewrite filter_app, app_length.
  enough (length (filter p l) <= length (filter q l)) by lia.
  induction l as [|a l IH]; [reflexivity|]. cbn [filter].
  assert (IH' : length (filter p l) <= length (filter q l)).
  { apply IH. intros b Hb. apply H. right; exact Hb. }
  destruct (p a) eqn:Ep.
  - rewrite (H a (or_introl eq_refl) Ep). cbn [length]. lia.
  - destruct (q a); cbn [length]; lia.
Qed.

Theorem C_monotone m r U i : i < nwin (S m) U ->
  nth i (Cs (S m) r U) 0 <= nth i (Cs m r U) 0.
Proof.
  intros Hi. assert (Hi' : i < nwin m U) by (unfold nwin in *; lia).
  unfold Cs.
  rewrite (nth_indep _ 0 (match_count r (xwindows (S m) U) [])) by (rewrite map_length, xwindows_length; exact Hi).
  rewrite (nth_indep _ 0 (match_count r (xwindows m U) [])) by (rewrite map_length, xwindows_length; exact Hi').
  rewrite !map_nth, !xwindows_nth by assumption.
  unfold match_count, xwindows. rewrite !filter_map_length.
  assert (Hn : nwin m U = nwin (S m) U + (nwin m U - nwin (S m) U)) by (unfold nwin in *; lia).
  rewrite Hn at 1. rewrite seq_app.
  apply filter_length_mono. intros j _ Hj.
  rewrite (window_prefix m U i), (window_prefix m U j).
  pose proof (max_dist_firstn m (window (S m) U i) (window (S m) U j)). lia.
Qed.

(* ------------------------------------------------------------------ the counts are Pincus' counts *)

Lemma Forall_combine_nth (P : Z * Z -> Prop) x y m : length x = m -> length y = m ->
  Forall P (combine x y) <-> (forall t, t < m -> P (nth t x 0%Z, nth t y 0%Z)).
Proof.
  intros Hx Hy. rewrite Forall_nth. rewrite combine_length, Hx, Hy, Nat.min_id. split.
  - intros H t Ht. rewrite <- combine_nth by lia. apply H, Ht.
  - intros H t d Ht. rewrite (nth_indep _ d (0%Z, 0%Z)) by (rewrite combine_length; lia).
    rewrite combine_nth by lia. apply H, Ht.
Qed.

Lemma window_match_pincus m r U i j : (0 <= r)%Z -> i < nwin m U -> j < nwin m U ->
  (max_dist (window m U i) (window m U j) <=? r)%Z = pincus_match U m r i j.
Proof.
  intros Hr Hi Hj. apply Bool.eq_iff_eq_true.
  rewrite Z.leb_le, (max_dist_le_iff _ _ _ Hr).
  rewrite (Forall_combine_nth _ _ _ m) by (apply window_length; assumption).
  unfold pincus_match. rewrite forallb_forall. cbn [fst snd]. split.
  - intros H t Ht. apply in_seq in Ht. apply Z.leb_le.
    rewrite <- !(window_nth m U) by lia. apply H. lia.
  - intros H t Ht. rewrite !window_nth by exact Ht. apply Z.leb_le, H, in_seq. lia.
Qed.

Lemma filter_ext_in_length {A} (p q : A -> bool) l :
  (forall a, In a l -> p a = q a) -> length (filter p l) = length (filter q l).
Proof.
  induction l as [|a l IH]; intros H; [reflexivity|]. cbn [filter].
  rewrite (H a (or_introl eq_refl)).
  assert (IH' : length (filter p l) = length (filter q l)) by (apply IH; intros b Hb; apply H; right; exact Hb).
  destruct (q a); cbn [length]; lia.
Qed.

Theorem Cs_pincus m r U i : (0 <= r)%Z -> i < nwin m U -> nth i (Cs m r U) 0 = pincus_C U m r i.
Proof.
  intros Hr Hi. unfold Cs.
  rewrite (nth_indep _ 0 (match_count r (xwindows m U) [])) by (rewrite map_length, xwindows_length; exact Hi).
  rewrite map_nth, xwindows_nth by exact Hi.
  unfold match_count, xwindows, pincus_C. rewrite filter_map_length.
  apply filter_ext_in_length. intros j Hj. apply in_seq in Hj.
  apply window_match_pincus; [exact Hr | exact Hi | unfold nwin in *; lia].
Qed.
