(* Lemmas for C07: big-endian value of a bit list, round trips, rule bit selection. *)
From CPL Require Import Model.Base Model.Numbering.
From Coq Require Import Lia.
Local Open Scope N_scope.

Definition t2n (j : Z) : N := if truthy j then 1 else 0.

(* Sigma bits_i * 2^(L-1-i): the big-endian value, written as a closed formula *)
Fixpoint be_sum (bs : list Z) : N :=
  match bs with
  | [] => 0
  | j :: bs' => t2n j * 2 ^ N.of_nat (length bs') + be_sum bs'
  end.

Fixpoint le_sum (l : list Z) (s : N) : N :=
  match l with
  | [] => 0
  | j :: l' => t2n j * 2 ^ s + le_sum l' (N.succ s)
  end.

Definition binary (l : list Z) : Prop := Forall (fun z => z = 0%Z \/ z = 1%Z) l.

Lemma b2i_loop_spec l : forall s t, b2i_loop l s t = t + le_sum l s.
Proof.
  induction l as [|j l IH]; intros s t; cbn [b2i_loop le_sum]; [lia|].
  rewrite IH. unfold t2n. rewrite N.shiftl_1_l. destruct (truthy j); cbv iota; lia.
Qed.

Lemma le_sum_snoc l j : forall s, le_sum (l ++ [j]) s = le_sum l s + t2n j * 2 ^ (s + N.of_nat (length l)).
Proof.
  induction l as [|x l IH]; intros s; cbn [app le_sum length].
  - cbn [N.of_nat]. rewrite !N.add_0_r. lia.
  - rewrite IH. rewrite Nat2N.inj_succ. replace (N.succ s + N.of_nat (length l)) with (s + N.succ (N.of_nat (length l))) by lia. lia.
Qed.

Lemma le_sum_rev bs : le_sum (rev bs) 0 = be_sum bs.
Proof.
  induction bs as [|j bs IH]; [reflexivity|].
  cbn [rev be_sum]. rewrite le_sum_snoc, IH, rev_length. cbn. lia.
Qed.

Lemma bits_to_int_be_sum bs : bits_to_int bs = be_sum bs.
Proof. unfold bits_to_int. rewrite b2i_loop_spec, le_sum_rev. lia. Qed.

Lemma be_sum_app a b : be_sum (a ++ b) = be_sum a * 2 ^ N.of_nat (length b) + be_sum b.
Proof.
  induction a as [|j a IH]; cbn [app be_sum]; [lia|].
  rewrite IH, app_length, Nat2N.inj_add, N.pow_add_r. lia.
Qed.

Lemma be_sum_snoc l j : be_sum (l ++ [j]) = 2 * be_sum l + t2n j.
Proof.
  rewrite be_sum_app. change (N.of_nat (length [j])) with 1.
  change (be_sum [j]) with (t2n j * 2 ^ 0 + 0). rewrite N.pow_1_r, N.pow_0_r. lia.
Qed.

Lemma be_sum_repeat0 k : be_sum (repeat 0%Z k) = 0.
Proof. induction k as [|k IH]; cbn; [reflexivity|]. rewrite IH. reflexivity. Qed.

Lemma be_sum_pos_bits p : be_sum (pos_bits p) = Npos p.
Proof.
  induction p as [q IH|q IH|]; cbn [pos_bits]; [rewrite be_sum_snoc, IH|rewrite be_sum_snoc, IH|]; cbn; lia.
Qed.

Lemma be_sum_bin_digits n : be_sum (bin_digits n) = n.
Proof. destruct n as [|p]; [reflexivity|apply be_sum_pos_bits]. Qed.

Lemma binary_app a b : binary a -> binary b -> binary (a ++ b).
Proof. apply Forall_app_2 || (intros; apply Forall_app; split; assumption). Qed.

Lemma binary_pos_bits p : binary (pos_bits p).
Proof.
  induction p as [q IH|q IH|]; cbn [pos_bits].
  - apply binary_app; [exact IH|]. constructor; [right; reflexivity|constructor].
  - apply binary_app; [exact IH|]. constructor; [left; reflexivity|constructor].
  - constructor; [right; reflexivity|constructor].
Qed.

Lemma binary_bin_digits n : binary (bin_digits n).
Proof. destruct n; [constructor; [left; reflexivity|constructor]|apply binary_pos_bits]. Qed.

Lemma binary_repeat0 k : binary (repeat 0%Z k).
Proof. induction k; cbn [repeat]; constructor; auto. Qed.

Lemma pos_bits_length_bound p : 2 ^ N.of_nat (length (pos_bits p)) <= 2 * Npos p.
Proof.
  induction p as [q IH|q IH|]; cbn [pos_bits].
  - rewrite app_length. cbn [length]. rewrite Nat.add_1_r, Nat2N.inj_succ, N.pow_succ_r'. lia.
  - rewrite app_length. cbn [length]. rewrite Nat.add_1_r, Nat2N.inj_succ, N.pow_succ_r'. lia.
  - vm_compute. discriminate.
Qed.

Lemma bin_digits_fits n d : (1 <= d)%nat -> n < 2 ^ N.of_nat d -> (length (bin_digits n) <= d)%nat.
Proof.
  intros Hd H. destruct n as [|p]; cbn [bin_digits].
  - cbn [length]. lia.
  - pose proof (pos_bits_length_bound p) as B.
    destruct (Nat.le_gt_cases (length (pos_bits p)) d) as [L|L]; [exact L|exfalso].
    assert (E : 2 ^ N.of_nat (S d) <= 2 ^ N.of_nat (length (pos_bits p))) by (apply N.pow_le_mono_r; lia).
    rewrite Nat2N.inj_succ, N.pow_succ_r' in E. lia.
Qed.

Lemma int_to_bits_ok n d : (1 <= d)%nat -> n < 2 ^ N.of_nat d ->
  int_to_bits n d = Ok (repeat 0%Z (d - length (bin_digits n)) ++ bin_digits n).
Proof.
  intros Hd H. unfold int_to_bits. pose proof (bin_digits_fits n d Hd H) as L.
  destruct (Nat.ltb_spec d (length (bin_digits n))); [lia|reflexivity].
Qed.

Lemma int_to_bits_inv n d l : int_to_bits n d = Ok l ->
  l = repeat 0%Z (d - length (bin_digits n)) ++ bin_digits n /\ (length (bin_digits n) <= d)%nat.
Proof.
  unfold int_to_bits. destruct (Nat.ltb_spec d (length (bin_digits n))); [discriminate|].
  intros E; inversion E; auto.
Qed.

Lemma int_to_bits_length n d l : int_to_bits n d = Ok l -> length l = d.
Proof. intros H; apply int_to_bits_inv in H as [-> L]. rewrite app_length, repeat_length. lia. Qed.

Lemma int_to_bits_value n d l : int_to_bits n d = Ok l -> be_sum l = n /\ binary l.
Proof.
  intros H; apply int_to_bits_inv in H as [-> L]. split.
  - rewrite be_sum_app, be_sum_repeat0, be_sum_bin_digits. lia.
  - apply binary_app; [apply binary_repeat0|apply binary_bin_digits].
Qed.

Lemma be_sum_lt bs : be_sum bs < 2 ^ N.of_nat (length bs).
Proof.
  induction bs as [|j bs IH]; cbn [be_sum length]; [cbn; lia|].
  rewrite Nat2N.inj_succ, N.pow_succ_r'. unfold t2n. destruct (truthy j); lia.
Qed.

Lemma t2n_binary z : z = 0%Z \/ z = 1%Z -> t2n z = Z.to_N z.
Proof. intros [->| ->]; reflexivity. Qed.

Lemma be_sum_inj l : forall m, binary l -> binary m -> length l = length m -> be_sum l = be_sum m -> l = m.
Proof.
  induction l as [|x l IH]; intros [|y m] Bl Bm HL HS; try discriminate; [reflexivity|].
  inversion Bl as [|? ? Hx Bl']; inversion Bm as [|? ? Hy Bm']; subst.
  cbn [length] in HL. injection HL as HL. cbn [be_sum] in HS. rewrite <- HL in HS.
  pose proof (be_sum_lt l) as L1. pose proof (be_sum_lt m) as L2. rewrite <- HL in L2.
  rewrite !t2n_binary in HS by assumption.
  assert (x = y) by (destruct Hx as [->| ->], Hy as [->| ->]; cbn [Z.to_N] in HS; lia). subst y.
  f_equal. apply IH; auto. lia.
Qed.

(* round trips *)
Lemma bits_int_roundtrip n d : (1 <= d)%nat -> n < 2 ^ N.of_nat d ->
  exists l, int_to_bits n d = Ok l /\ length l = d /\ bits_to_int l = n.
Proof.
  intros Hd H. eexists; split; [apply int_to_bits_ok; assumption|].
  pose proof (int_to_bits_ok n d Hd H) as E. split; [eapply int_to_bits_length; exact E|].
  rewrite bits_to_int_be_sum. apply (int_to_bits_value _ _ _ E).
Qed.

Lemma int_bits_roundtrip bs : binary bs -> (1 <= length bs)%nat ->
  int_to_bits (bits_to_int bs) (length bs) = Ok bs.
Proof.
  intros B L. rewrite bits_to_int_be_sum.
  pose proof (int_to_bits_ok (be_sum bs) (length bs) L (be_sum_lt bs)) as E. rewrite E. f_equal.
  destruct (int_to_bits_value _ _ _ E) as [V Bn]. apply be_sum_inj; auto.
  eapply int_to_bits_length; exact E.
Qed.

(* element (len-1-i) of a binary list is bit i of its value *)
Lemma nth_from_end_testbit l : binary l -> forall i, (i < length l)%nat ->
  nth (length l - 1 - i) l 0%Z = b2z (N.testbit (be_sum l) (N.of_nat i)).
Proof.
  induction l as [|j l IH] using rev_ind; intros B i Hi; [cbn in Hi; lia|].
  apply Forall_app in B as [Bl Bj]. inversion Bj as [|? ? Hj _]; subst.
  rewrite app_length in *. cbn [length] in *. rewrite be_sum_snoc.
  assert (T : t2n j = N.b2n (truthy j)) by (unfold t2n; destruct (truthy j); reflexivity).
  rewrite T. destruct i as [|i].
  - rewrite N.testbit_0_r. replace (length l + 1 - 1 - 0)%nat with (length l) by lia.
    rewrite nth_middle. destruct Hj as [->| ->]; reflexivity.
  - rewrite Nat2N.inj_succ, N.testbit_succ_r.
    rewrite app_nth1 by lia. replace (length l + 1 - 1 - S i)%nat with (length l - 1 - i)%nat by lia.
    apply IH; [exact Bl|lia].
Qed.

Lemma py_get_nat {A} (l : list A) (k : nat) d : (k < length l)%nat -> py_get l (Z.of_nat k) = Ok (nth k l d).
Proof.
  intros H. unfold py_get, py_index.
  destruct (Z.leb_spec 0 (Z.of_nat k)); [|lia]. destruct (Z.ltb_spec (Z.of_nat k) (Z.of_nat (length l))); [|lia].
  cbn [andb]. rewrite Nat2Z.id. destruct (nth_error l k) eqn:E.
  - f_equal. symmetry. apply nth_error_nth. exact E.
  - apply nth_error_None in E. lia.
Qed.

Lemma pow2_nat_N L : N.of_nat (2 ^ L) = 2 ^ N.of_nat L.
Proof.
  induction L as [|L IH]; [reflexivity|].
  change (2 ^ S L)%nat with (2 * 2 ^ L)%nat. rewrite Nat2N.inj_mul, IH, (Nat2N.inj_succ L), N.pow_succ_r'. reflexivity.
Qed.

Section RuleBits.
  Variable nb : list Z.
  Variable R : N.
  Local Notation L := (length nb).
  Hypothesis HR : R < 2 ^ N.of_nat (2 ^ L).

  Let v := bits_to_int nb.

  Lemma pow2_ge1 : (1 <= 2 ^ L)%nat.
  Proof. pose proof (Nat.pow_nonzero 2 L). lia. Qed.

  Lemma v_lt : (N.to_nat v < 2 ^ L)%nat.
  Proof.
    unfold v. rewrite bits_to_int_be_sum. pose proof (be_sum_lt nb) as H.
    rewrite <- pow2_nat_N in H. lia.
  Qed.

  Lemma nks_bit : binary_rule nb (RInt R) SNks None = Ok (b2z (N.testbit R v)).
  Proof.
    unfold binary_rule. cbn [bind]. fold v.
    pose proof (int_to_bits_ok R (2 ^ L) pow2_ge1 HR) as E. rewrite E. cbn [bind].
    destruct (int_to_bits_value _ _ _ E) as [V B]. pose proof (int_to_bits_length _ _ _ E) as Len.
    set (arr := repeat 0%Z (2 ^ L - length (bin_digits R)) ++ bin_digits R) in *.
    pose proof v_lt as Hv.
    replace (Z.of_nat (2 ^ L) - 1 - Z.of_N v)%Z with (Z.of_nat (length arr - 1 - N.to_nat v)) by lia.
    rewrite (py_get_nat arr _ 0%Z) by lia.
    rewrite nth_from_end_testbit by (auto; lia). rewrite V, N2Nat.id. reflexivity.
  Qed.

  Lemma default_bit :
    binary_rule nb (RInt R) SDefault None = Ok (b2z (N.testbit R (2 ^ N.of_nat L - 1 - v))).
  Proof.
    unfold binary_rule. cbn [bind]. fold v.
    pose proof (int_to_bits_ok R (2 ^ L) pow2_ge1 HR) as E. rewrite E. cbn [bind].
    destruct (int_to_bits_value _ _ _ E) as [V B]. pose proof (int_to_bits_length _ _ _ E) as Len.
    set (arr := repeat 0%Z (2 ^ L - length (bin_digits R)) ++ bin_digits R) in *.
    pose proof v_lt as Hv.
    replace (Z.of_N v) with (Z.of_nat (length arr - 1 - (2 ^ L - 1 - N.to_nat v))) by lia.
    rewrite (py_get_nat arr _ 0%Z) by lia.
    rewrite nth_from_end_testbit by (auto; lia). rewrite V. do 3 f_equal.
    rewrite <- pow2_nat_N. lia.
  Qed.
End RuleBits.

Lemma array_form_agrees nb R l sch pows :
  int_to_bits R (2 ^ length nb) = Ok l ->
  binary_rule nb (RBits l) sch pows = binary_rule nb (RInt R) sch pows.
Proof.
  intros E. unfold binary_rule. destruct (match pows with None => _ | Some p => _ end); cbn [bind]; [|reflexivity].
  rewrite E, (int_to_bits_length _ _ _ E), Nat.eqb_refl. reflexivity.
Qed.

Lemma dot_powers nb : binary nb -> dot nb (powers_desc (length nb)) = Z.of_N (be_sum nb).
Proof.
  induction 1 as [|x l Hx B IH]; [reflexivity|].
  cbn [length powers_desc dot be_sum]. rewrite IH, t2n_binary by exact Hx.
  rewrite N2Z.inj_add, N2Z.inj_mul, N2Z.inj_pow, nat_N_Z. destruct Hx as [->| ->]; cbn [Z.to_N]; lia.
Qed.

Lemma powers_desc_length L : length (powers_desc L) = L.
Proof. induction L; cbn; congruence. Qed.

Lemma powers_form_agrees nb rule sch : binary nb ->
  binary_rule nb rule sch (Some (powers_desc (length nb))) = binary_rule nb rule sch None.
Proof.
  intros B. unfold binary_rule. rewrite powers_desc_length, Nat.eqb_refl, dot_powers by exact B.
  rewrite bits_to_int_be_sum. reflexivity.
Qed.

(* the complete finite statement: 256 rules x 8 neighbourhoods against the textbook table *)
Definition nb3 (v : nat) : list Z :=
  [Z.of_nat (v / 4); Z.of_nat ((v / 2) mod 2); Z.of_nat (v mod 2)].
Definition elementary_ok (R v : nat) : bool :=
  res_eqb Z.eqb (nks_rule (nb3 v) (N.of_nat R)) (Ok (b2z (N.testbit (N.of_nat R) (N.of_nat v))))
  && res_eqb Z.eqb (binary_rule (nb3 v) (RInt (N.of_nat R)) SDefault None)
                   (Ok (b2z (N.testbit (N.of_nat R) (N.of_nat (7 - v))))).
Definition elementary_all : bool :=
  forallb (fun R => forallb (fun v => elementary_ok R v) (seq 0 8)) (seq 0 256).
Lemma elementary_complete_true : elementary_all = true.
Proof. vm_compute. reflexivity. Qed.
Lemma elementary_complete R v : (R < 256)%nat -> (v < 8)%nat -> elementary_ok R v = true.
Proof.
  intros HR Hv. pose proof elementary_complete_true as H. unfold elementary_all in H.
  rewrite forallb_forall in H. specialize (H R). rewrite forallb_forall in H.
  apply H; apply in_seq; lia.
Qed.
