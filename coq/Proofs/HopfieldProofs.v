(* C20 — Hopfield network: Hebbian weights, the index arithmetic of _rule, energy descent,
   stored patterns as fixed points, and the composition with a one-cell-per-step evolution.
   The energy identity is lifted from notes/spikes/hopfield_energy.v. Integers only. *)
From Coq Require Import ZArith Lia ZifyBool ZifyNat List Arith.
From CPL Require Import Model.Base Model.Rules Model.Engine Model.Evolve1D Model.Hopfield.
Import ListNotations.
Local Open Scope Z_scope.

(* ------------------------------------------------------------------ predicates of the statements *)
(* W is an N x N matrix *)
Definition shape (N : nat) (W : list (list Z)) : Prop :=
  length W = N /\ forall i, (i < N)%nat -> length (nth i W []) = N.
Definition wsym (N : nat) (W : list (list Z)) : Prop :=
  forall i j, (i < N)%nat -> (j < N)%nat -> mget W i j = mget W j i.
Definition wdiag (N : nat) (W : list (list Z)) : Prop :=
  forall i, (i < N)%nat -> mget W i i = 0.
Definition bipolar (s : list Z) : Prop := Forall (fun x => x = 1 \/ x = -1) s.
(* sum over the patterns of p_i * p_j *)
Definition hebb (P : list (list Z)) (i j : nat) : Z :=
  zsum (map (fun p => nth i p 0 * nth j p 0) P).

(* ------------------------------------------------------------------ lists *)
Lemma length_upd_nth {A} (l : list A) k f : length (upd_nth l k f) = length l.
Proof. revert k; induction l as [|x l IH]; intros [|k]; cbn; try reflexivity. now rewrite IH. Qed.

Lemma nth_upd_nth {A} (l : list A) k f i d :
  nth i (upd_nth l k f) d = if ((i =? k)%nat && (k <? length l)%nat)%bool then f (nth k l d) else nth i l d.
Proof.
  revert k i; induction l as [|x l IH]; intros k i.
  - cbn. destruct k, i; cbn; try reflexivity; rewrite Bool.andb_false_r; reflexivity.
  - destruct k as [|k], i as [|i]; cbn [upd_nth nth length]; try reflexivity.
    rewrite IH. change (S i =? S k)%nat with (i =? k)%nat. change (S k <? S (length l))%nat with (k <? length l)%nat.
    reflexivity.
Qed.

Lemma nth_upd_same {A} (l : list A) k f d : (k < length l)%nat -> nth k (upd_nth l k f) d = f (nth k l d).
Proof. intros H. rewrite nth_upd_nth, Nat.eqb_refl. apply Nat.ltb_lt in H. now rewrite H. Qed.
Lemma nth_upd_other {A} (l : list A) k f i d : i <> k -> nth i (upd_nth l k f) d = nth i l d.
Proof. intros H. rewrite nth_upd_nth. apply Nat.eqb_neq in H. now rewrite H. Qed.

Lemma upd_nth_id {A} (l : list A) k f d : f (nth k l d) = nth k l d -> upd_nth l k f = l.
Proof.
  revert k; induction l as [|x l IH]; intros [|k] H; cbn in *; try reflexivity.
  - now rewrite H.
  - now rewrite IH.
Qed.

Lemma nth_repeat_lt {A} (a d : A) n i : (i < n)%nat -> nth i (repeat a n) d = a.
Proof. revert i; induction n as [|n IH]; intros [|i] H; cbn; try lia; try reflexivity. apply IH. lia. Qed.

Lemma nth_firstn_lt {A} (l : list A) k j d : (j < k)%nat -> nth j (firstn k l) d = nth j l d.
Proof.
  revert k j; induction l as [|x l IH]; intros [|k] [|j] H; cbn; try lia; try reflexivity.
  apply IH. lia.
Qed.
Lemma nth_skipn_add {A} (l : list A) k j d : nth j (skipn k l) d = nth (k + j) l d.
Proof.
  revert l; induction k as [|k IH]; intros l; [reflexivity|].
  destruct l as [|x l]; cbn [skipn Nat.add nth]; [destruct j; reflexivity|]. apply IH.
Qed.
Lemma nth_map_seq {A} (f : nat -> A) m k d : (k < m)%nat -> nth k (map f (seq 0 m)) d = f k.
Proof.
  intros H. rewrite (nth_indep _ d (f 0%nat)) by (rewrite map_length, seq_length; exact H).
  rewrite map_nth. rewrite seq_nth by exact H. reflexivity.
Qed.

(* ------------------------------------------------------------------ matrices *)
Lemma shape_mupd N W i j f : shape N W -> shape N (mupd W i j f).
Proof.
  intros [HL HR]. unfold mupd. split; [rewrite length_upd_nth; exact HL|].
  intros i' Hi'. rewrite nth_upd_nth. destruct ((i' =? i)%nat && (i <? length W)%nat)%bool eqn:E.
  - rewrite length_upd_nth. apply HR. lia.
  - apply HR. exact Hi'.
Qed.

Lemma mget_mupd N W i j f i' j' : shape N W -> (i < N)%nat -> (j < N)%nat ->
  mget (mupd W i j f) i' j' = if ((i' =? i)%nat && (j' =? j)%nat)%bool then f (mget W i j) else mget W i' j'.
Proof.
  intros [HL HR] Hi Hj. unfold mget, mupd. rewrite nth_upd_nth.
  assert (E1 : (i <? length W)%nat = true) by (apply Nat.ltb_lt; lia). rewrite E1, Bool.andb_true_r.
  destruct (i' =? i)%nat eqn:E; cbn [andb]; [|reflexivity].
  apply Nat.eqb_eq in E. subst i'. rewrite nth_upd_nth.
  assert (E2 : (j <? length (nth i W []))%nat = true) by (apply Nat.ltb_lt; rewrite HR; lia).
  rewrite E2, Bool.andb_true_r. reflexivity.
Qed.

Lemma shape_zeros N : shape N (zeros N N).
Proof.
  unfold zeros. split; [apply repeat_length|]. intros i Hi. rewrite nth_repeat_lt by exact Hi. apply repeat_length.
Qed.
Lemma mget_zeros R C i j : mget (zeros R C) i j = 0.
Proof.
  unfold mget, zeros. destruct (Nat.lt_ge_cases i R) as [H|H].
  - rewrite nth_repeat_lt by exact H. apply nth_repeat.
  - rewrite (nth_overflow (repeat (repeat 0 C) R) []) by (rewrite repeat_length; exact H). destruct j; reflexivity.
Qed.

(* ------------------------------------------------------------------ train *)
Definition cellval (p : list Z) (w : Z) (i j : nat) : Z :=
  if (i =? j)%nat then 0 else w + nth i p 0 * nth j p 0.

Lemma train_cell_spec N p W i j : shape N W -> (i < N)%nat -> (j < N)%nat ->
  shape N (train_cell p W i j) /\
  forall i' j', mget (train_cell p W i j) i' j' =
                if ((i' =? i)%nat && (j' =? j)%nat)%bool then cellval p (mget W i j) i j else mget W i' j'.
Proof.
  intros HS Hi Hj. unfold train_cell, cellval. destruct (i =? j)%nat eqn:E.
  - split; [apply shape_mupd; exact HS|]. intros i' j'. apply (mget_mupd N); assumption.
  - split; [apply shape_mupd; exact HS|]. intros i' j'. apply (mget_mupd N); assumption.
Qed.

Lemma train_row_spec N p i : (i < N)%nat -> forall k, (k <= N)%nat -> forall W, shape N W ->
  let W' := fold_left (fun W2 j => train_cell p W2 i j) (seq 0 k) W in
  shape N W' /\
  forall i' j', mget W' i' j' =
                if ((i' =? i)%nat && (j' <? k)%nat)%bool then cellval p (mget W i' j') i' j' else mget W i' j'.
Proof.
  intros Hi. induction k as [|k IH]; intros Hk W HS.
  - cbn. split; [exact HS|]. intros i' j'. rewrite Bool.andb_false_r. reflexivity.
  - cbn zeta. rewrite seq_S, fold_left_app. cbn [fold_left Nat.add].
    destruct (IH ltac:(lia) W HS) as [HS1 HG1]. cbn zeta in HS1, HG1.
    set (W1 := fold_left (fun W2 j => train_cell p W2 i j) (seq 0 k) W) in *.
    destruct (train_cell_spec N p W1 i k HS1 Hi ltac:(lia)) as [HS2 HG2].
    split; [exact HS2|]. intros i' j'. rewrite HG2, !HG1.
    destruct (i' =? i)%nat eqn:Ei; cbn [andb].
    + apply Nat.eqb_eq in Ei. subst i'. rewrite Nat.eqb_refl. cbn [andb].
      destruct (j' =? k)%nat eqn:Ej.
      * apply Nat.eqb_eq in Ej. subst j'.
        replace (k <? k)%nat with false by (symmetry; apply Nat.ltb_ge; lia).
        replace (k <? S k)%nat with true by (symmetry; apply Nat.ltb_lt; lia). reflexivity.
      * apply Nat.eqb_neq in Ej.
        destruct (j' <? k)%nat eqn:Elt.
        -- replace (j' <? S k)%nat with true by (symmetry; apply Nat.ltb_lt; apply Nat.ltb_lt in Elt; lia). reflexivity.
        -- replace (j' <? S k)%nat with false by (symmetry; apply Nat.ltb_ge; apply Nat.ltb_ge in Elt; lia). reflexivity.
    + reflexivity.
Qed.

Lemma train_rows_spec N p : forall k, (k <= N)%nat -> forall W, shape N W ->
  let W' := fold_left (fun W1 i => fold_left (fun W2 j => train_cell p W2 i j) (seq 0 N) W1) (seq 0 k) W in
  shape N W' /\
  forall i' j', mget W' i' j' =
                if ((i' <? k)%nat && (j' <? N)%nat)%bool then cellval p (mget W i' j') i' j' else mget W i' j'.
Proof.
  induction k as [|k IH]; intros Hk W HS.
  - cbn. split; [exact HS|]. reflexivity.
  - cbn zeta. rewrite seq_S, fold_left_app. cbn [fold_left Nat.add].
    destruct (IH ltac:(lia) W HS) as [HS1 HG1]. cbn zeta in HS1, HG1.
    set (W1 := fold_left (fun W1 i => fold_left (fun W2 j => train_cell p W2 i j) (seq 0 N) W1) (seq 0 k) W) in *.
    destruct (train_row_spec N p k ltac:(lia) N (le_n N) W1 HS1) as [HS2 HG2]. cbn zeta in HS2, HG2.
    split; [exact HS2|]. intros i' j'. rewrite HG2, !HG1.
    destruct (i' =? k)%nat eqn:Ei; cbn [andb].
    + apply Nat.eqb_eq in Ei. subst i'.
      replace (k <? k)%nat with false by (symmetry; apply Nat.ltb_ge; lia).
      replace (k <? S k)%nat with true by (symmetry; apply Nat.ltb_lt; lia). cbn [andb]. reflexivity.
    + apply Nat.eqb_neq in Ei. destruct (i' <? k)%nat eqn:Elt.
      * replace (i' <? S k)%nat with true by (symmetry; apply Nat.ltb_lt; apply Nat.ltb_lt in Elt; lia). reflexivity.
      * replace (i' <? S k)%nat with false by (symmetry; apply Nat.ltb_ge; apply Nat.ltb_ge in Elt; lia). reflexivity.
Qed.

Lemma train_pattern_spec N W p : shape N W -> length p = N ->
  shape N (train_pattern W p) /\
  forall i j, (i < N)%nat -> (j < N)%nat -> mget (train_pattern W p) i j = cellval p (mget W i j) i j.
Proof.
  intros HS HL. unfold train_pattern. rewrite HL.
  destruct (train_rows_spec N p N (le_n N) W HS) as [HS1 HG1]. cbn zeta in HS1, HG1.
  split; [exact HS1|]. intros i j Hi Hj. rewrite HG1.
  apply Nat.ltb_lt in Hi, Hj. rewrite Hi, Hj. reflexivity.
Qed.

Lemma train_fold_spec N P : Forall (fun p => length p = N) P -> forall W, shape N W -> wdiag N W ->
  let W' := fold_left train_pattern P W in
  shape N W' /\ wdiag N W' /\
  forall i j, (i < N)%nat -> (j < N)%nat -> i <> j -> mget W' i j = mget W i j + hebb P i j.
Proof.
  induction P as [|p P IH]; intros HP W HS HD; cbn zeta.
  - cbn [fold_left]. split; [exact HS|]. split; [exact HD|]. intros i j _ _ _. unfold hebb. cbn [map zsum fold_right fold_left]. lia.
  - pose proof (Forall_inv HP) as Hp. pose proof (Forall_inv_tail HP) as HP'. cbn beta in Hp. cbn [fold_left].
    destruct (train_pattern_spec N W p HS Hp) as [HS1 HG1].
    assert (HD1 : wdiag N (train_pattern W p)).
    { intros i Hi. rewrite HG1 by assumption. unfold cellval. now rewrite Nat.eqb_refl. }
    destruct (IH HP' (train_pattern W p) HS1 HD1) as [HS2 [HD2 HG2]]. cbn zeta in HS2, HD2, HG2.
    split; [exact HS2|]. split; [exact HD2|]. intros i j Hi Hj Hij.
    rewrite HG2 by assumption. rewrite HG1 by assumption. unfold cellval.
    apply Nat.eqb_neq in Hij. rewrite Hij. unfold hebb. cbn [map zsum fold_right]. fold (zsum (map (fun p0 => nth i p0 0 * nth j p0 0) P)). lia.
Qed.

Lemma hebb_sym P i j : hebb P i j = hebb P j i.
Proof. unfold hebb. f_equal. apply map_ext. intros p. apply Z.mul_comm. Qed.

(* train_hebbian: for a non-empty set of patterns of one length N, train succeeds, W is N x N,
   W[i][j] = sum_p p_i p_j off the diagonal, 0 on it; hence symmetric. *)
Theorem train_hebbian : forall N p0 P, Forall (fun p => length p = N) (p0 :: P) ->
  exists W, train (p0 :: P) = Ok W /\ shape N W /\
    (forall i j, (i < N)%nat -> (j < N)%nat ->
       mget W i j = if (i =? j)%nat then 0 else hebb (p0 :: P) i j) /\
    wsym N W /\ wdiag N W.
Proof.
  intros N p0 P HP. assert (Hp0 : length p0 = N) by (exact (Forall_inv HP)).
  unfold train. rewrite Hp0.
  assert (G : forallb (fun p => (length p <=? N)%nat) (p0 :: P) = true).
  { apply forallb_forall. intros p Hin. rewrite Forall_forall in HP. apply Nat.leb_le. rewrite (HP p Hin). lia. }
  rewrite G. eexists. split; [reflexivity|].
  assert (HD0 : wdiag N (zeros N N)) by (intros i _; apply mget_zeros).
  destruct (train_fold_spec N (p0 :: P) HP (zeros N N) (shape_zeros N) HD0) as [HS [HD HG]]. cbn zeta in HS, HD, HG.
  assert (HV : forall i j, (i < N)%nat -> (j < N)%nat ->
       mget (fold_left train_pattern (p0 :: P) (zeros N N)) i j = if (i =? j)%nat then 0 else hebb (p0 :: P) i j).
  { intros i j Hi Hj. destruct (i =? j)%nat eqn:E.
    - apply Nat.eqb_eq in E. subst j. apply HD. exact Hi.
    - apply Nat.eqb_neq in E. rewrite HG by assumption. rewrite mget_zeros. lia. }
  split; [exact HS|]. split; [exact HV|]. split; [|exact HD].
  intros i j Hi Hj. rewrite !HV by assumption. rewrite (Nat.eqb_sym j i). destruct (i =? j)%nat; [reflexivity|apply hebb_sym].
Qed.

(* the error branches of train, as the code has them *)
Lemma train_empty : train [] = Raise IndexError.
Proof. reflexivity. Qed.
Lemma train_too_long p0 P : Exists (fun p => (length p0 < length p)%nat) (p0 :: P) -> train (p0 :: P) = Raise IndexError.
Proof.
  intros H. unfold train.
  destruct (forallb (fun p => (length p <=? length p0)%nat) (p0 :: P)) eqn:E; [|reflexivity].
  exfalso. rewrite forallb_forall in E. apply Exists_exists in H. destruct H as (p & Hin & Hlt).
  specialize (E p Hin). apply Nat.leb_le in E. lia.
Qed.

(* ------------------------------------------------------------------ train_loop = train *)
Lemma py_index_nonneg_nat n i : (i < n)%nat -> py_index n (Z.of_nat i) = Some i.
Proof.
  intros H. unfold py_index.
  replace ((0 <=? Z.of_nat i) && (Z.of_nat i <? Z.of_nat n))%bool with true
    by (symmetry; apply Bool.andb_true_iff; split; [apply Z.leb_le|apply Z.ltb_lt]; lia).
  rewrite Nat2Z.id. reflexivity.
Qed.

Lemma for_res_app {A B} (f : A -> B -> res A) l1 l2 a :
  for_res f (l1 ++ l2) a = bind (for_res f l1 a) (for_res f l2).
Proof.
  revert a; induction l1 as [|x l1 IH]; intros a; [reflexivity|].
  cbn [app for_res]. destruct (f a x) as [a1|e]; cbn [bind]; [apply IH|reflexivity].
Qed.

(* a loop whose every step succeeds under an invariant is the fold of the pure step *)
Lemma for_res_ok {A B} (Inv : A -> Prop) (f : A -> B -> res A) (g : A -> B -> A) l :
  (forall a x, Inv a -> In x l -> f a x = Ok (g a x) /\ Inv (g a x)) ->
  forall a, Inv a -> for_res f l a = Ok (fold_left g l a) /\ Inv (fold_left g l a).
Proof.
  induction l as [|x l IH]; intros H a Ha; [split; [reflexivity|exact Ha]|].
  cbn [for_res fold_left]. destruct (H a x Ha (or_introl eq_refl)) as [E Hi]. rewrite E. cbn [bind].
  apply IH; [|exact Hi]. intros a' x' Ha' Hin. apply H; [exact Ha'|right; exact Hin].
Qed.

Lemma py_get_nat {A} (l : list A) i d : (i < length l)%nat -> py_get l (Z.of_nat i) = Ok (nth i l d).
Proof.
  intros H. unfold py_get. rewrite py_index_nonneg_nat by exact H.
  rewrite (nth_error_nth' l d H). reflexivity.
Qed.

Lemma mset_py_ok N W i j f : shape N W -> (i < N)%nat -> (j < N)%nat -> mset_py W i j f = Ok (mupd W i j f).
Proof.
  intros [HL HR] Hi Hj. unfold mset_py.
  rewrite (nth_error_nth' W []) by lia. rewrite (nth_error_nth' (nth i W []) 0) by (rewrite HR; lia). reflexivity.
Qed.
(* row 0, column N of an N x N matrix does not exist (N = 0: there is no row 0) *)
Lemma mset_py_fail N W f : shape N W -> mset_py W 0 N f = Raise IndexError.
Proof.
  intros [HL HR]. unfold mset_py. destruct N as [|N].
  - destruct W; [reflexivity|discriminate].
  - rewrite (nth_error_nth' W []) by lia.
    assert (E : nth_error (nth 0 W []) (S N) = None) by (apply nth_error_None; rewrite HR; lia).
    rewrite E. reflexivity.
Qed.

Lemma train_cell_m_ok N p W i j : shape N W -> (i < N)%nat -> (j < N)%nat ->
  (i < length p)%nat -> (j < length p)%nat ->
  train_cell_m p W i j = Ok (train_cell p W i j) /\ shape N (train_cell p W i j).
Proof.
  intros HS Hi Hj Hip Hjp. split; [|apply (train_cell_spec N p W i j HS Hi Hj)].
  unfold train_cell_m, train_cell. destruct (i =? j)%nat.
  - apply (mset_py_ok N); assumption.
  - rewrite (py_get_nat p i 0 Hip), (py_get_nat p j 0 Hjp). cbn [bind]. apply (mset_py_ok N); assumption.
Qed.
Lemma train_cell_m_fail N p W : shape N W -> (N < length p)%nat -> train_cell_m p W 0 N = Raise IndexError.
Proof.
  intros HS HL. unfold train_cell_m. destruct (0 =? N)%nat.
  - apply (mset_py_fail N); exact HS.
  - rewrite (py_get_nat p 0 0) by lia. rewrite (py_get_nat p N 0 HL). cbn [bind]. apply (mset_py_fail N); exact HS.
Qed.

Lemma train_pattern_m_ok N W p : shape N W -> (length p <= N)%nat ->
  train_pattern_m W p = Ok (train_pattern W p) /\ shape N (train_pattern W p).
Proof.
  intros HS HL. unfold train_pattern_m, train_pattern.
  apply (for_res_ok (shape N)); [|exact HS]. intros W1 i HS1 Hi. apply in_seq in Hi.
  apply (for_res_ok (shape N)); [|exact HS1]. intros W2 j HS2 Hj. apply in_seq in Hj.
  apply (train_cell_m_ok N); try assumption; lia.
Qed.
Lemma train_pattern_m_fail N W p : shape N W -> (N < length p)%nat -> train_pattern_m W p = Raise IndexError.
Proof.
  intros HS HL. unfold train_pattern_m.
  (* row i = 0: columns 0 .. N-1 succeed, column N raises *)
  assert (Hrow : for_res (fun W2 j => train_cell_m p W2 0 j) (seq 0 (length p)) W = Raise IndexError).
  { replace (length p) with (N + S (length p - N - 1))%nat at 1 by lia.
    rewrite seq_app, for_res_app. cbn [seq for_res Nat.add].
    destruct (for_res_ok (shape N) (fun W2 j => train_cell_m p W2 0 j) (fun W2 j => train_cell p W2 0%nat j) (seq 0 N)) with (a := W) as [E HS1].
    { intros W2 j HS2 Hj. apply in_seq in Hj. apply (train_cell_m_ok N); try assumption; lia. }
    { exact HS. }
    rewrite E. cbn [bind]. rewrite (train_cell_m_fail N p _ HS1) by lia. reflexivity. }
  set (F := fun W1 i => for_res (fun W2 j => train_cell_m p W2 i j) (seq 0 (length p)) W1) in *.
  replace (seq 0 (length p)) with (0%nat :: seq 1 (length p - 1)).
  2:{ destruct (length p) as [|L]; [lia|]. cbn [seq]. rewrite Nat.sub_succ, Nat.sub_0_r. reflexivity. }
  cbn [for_res]. unfold F at 1. rewrite Hrow. reflexivity.
Qed.

Lemma train_patterns_m N P : forall W, shape N W ->
  for_res train_pattern_m P W =
  if forallb (fun p => (length p <=? N)%nat) P then Ok (fold_left train_pattern P W) else Raise IndexError.
Proof.
  induction P as [|p P IH]; intros W HS; [reflexivity|].
  cbn [for_res forallb fold_left]. destruct (length p <=? N)%nat eqn:E.
  - apply Nat.leb_le in E. destruct (train_pattern_m_ok N W p HS E) as [E1 HS1]. rewrite E1. cbn [bind andb].
    apply IH. exact HS1.
  - apply Nat.leb_gt in E. rewrite (train_pattern_m_fail N W p HS E). reflexivity.
Qed.

(* the statement-by-statement loops and the pre-checked fold are the same function: same W or same exception *)
Theorem train_loop_eq : forall P, train_loop P = train P.
Proof.
  intros [|p0 P]; [reflexivity|]. unfold train_loop, train.
  change (py_get (p0 :: P) 0) with (Ok p0 : res (list Z)). cbn [bind].
  apply train_patterns_m. apply shape_zeros.
Qed.

(* ------------------------------------------------------------------ finite sums *)
Lemma Zsum_ext f g n : (forall i, (i < n)%nat -> f i = g i) -> Zsum f n = Zsum g n.
Proof. induction n as [|n IH]; intros H; cbn; [reflexivity|]. rewrite IH, H by (intros; try apply H; lia). reflexivity. Qed.
Lemma Zsum_plus f g n : Zsum (fun i => f i + g i) n = Zsum f n + Zsum g n.
Proof. induction n as [|n IH]; cbn; [reflexivity|]. rewrite IH. lia. Qed.
Lemma Zsum_scal a f n : Zsum (fun i => a * f i) n = a * Zsum f n.
Proof. induction n as [|n IH]; cbn; [lia|]. rewrite IH. lia. Qed.
Lemma Zsum_zero n : Zsum (fun _ => 0) n = 0.
Proof. induction n; cbn; lia. Qed.
Lemma Zsum_one n : Zsum (fun _ => 1) n = Z.of_nat n.
Proof. induction n as [|n IH]; [reflexivity|]. cbn [Zsum]. rewrite IH. lia. Qed.
Definition ind (c i : nat) : Z := if Nat.eqb i c then 1 else 0.
Lemma Zsum_ind g c n : (c < n)%nat -> Zsum (fun i => ind c i * g i) n = g c.
Proof.
  induction n as [|n IH]; intros Hc; [lia|]. cbn [Zsum]. unfold ind at 2.
  destruct (Nat.eqb n c) eqn:E.
  - apply Nat.eqb_eq in E. subst n.
    rewrite (Zsum_ext _ (fun _ => 0)); [rewrite Zsum_zero; lia|].
    intros i Hi. unfold ind. replace (Nat.eqb i c) with false by (symmetry; apply Nat.eqb_neq; lia). lia.
  - apply Nat.eqb_neq in E. rewrite IH by lia. lia.
Qed.
Lemma Zsum_split f m n : Zsum f (m + n) = Zsum f m + Zsum (fun i => f (m + i)%nat) n.
Proof.
  induction n as [|n IH]; [rewrite Nat.add_0_r; cbn; lia|].
  rewrite Nat.add_succ_r. cbn [Zsum]. rewrite IH. lia.
Qed.
Lemma Zsum_shift f n : Zsum f (S n) = f 0%nat + Zsum (fun i => f (S i)) n.
Proof. change (S n) with (1 + n)%nat. rewrite Zsum_split. cbn. lia. Qed.
(* leaving one index out *)
Lemma Zsum_excl g c n : (c < n)%nat ->
  Zsum (fun i => if Nat.eqb i c then 0 else g i) n = Zsum g n - g c.
Proof.
  intros Hc.
  assert (E : Zsum g n = Zsum (fun i => (if Nat.eqb i c then 0 else g i) + ind c i * g i) n).
  { apply Zsum_ext. intros i _. unfold ind. destruct (Nat.eqb i c); lia. }
  rewrite E, Zsum_plus, (Zsum_ind g c n Hc). lia.
Qed.

Lemma Zsum_mid h r : Zsum h (2 * r + 1) = Zsum h r + h r + Zsum (fun k => h (r + 1 + k)%nat) r.
Proof.
  replace (2 * r + 1)%nat with (r + (1 + r))%nat by lia.
  rewrite Zsum_split, (Zsum_split _ 1 r). cbn [Zsum]. rewrite Nat.add_0_r.
  rewrite (Zsum_ext (fun i => h (r + (1 + i))%nat) (fun k => h (r + 1 + k)%nat) r).
  2:{ intros k _. f_equal. lia. }
  lia.
Qed.

(* a sum over a whole ring does not depend on where the walk starts *)
Lemma mod_wrap x N : (N <= x < 2 * N)%nat -> (x mod N = x - N)%nat.
Proof.
  intros H. replace x with ((x - N) + 1 * N)%nat at 1 by lia.
  rewrite Nat.mod_add by lia. apply Nat.mod_small. lia.
Qed.
Lemma Zsum_rot_aux g a b : (0 < b)%nat ->
  Zsum (fun k => g ((a + k) mod (a + b))%nat) (a + b) = Zsum g (a + b).
Proof.
  intros Hb.
  transitivity (Zsum (fun k => g ((a + k) mod (a + b))%nat) (b + a)); [f_equal; lia|].
  rewrite Zsum_split. rewrite (Zsum_split g a b).
  rewrite (Zsum_ext (fun k => g ((a + k) mod (a + b))%nat) (fun k => g (a + k)%nat) b).
  2:{ intros k Hk. rewrite Nat.mod_small by lia. reflexivity. }
  rewrite (Zsum_ext (fun i => g ((a + (b + i)) mod (a + b))%nat) g a).
  2:{ intros k Hk. rewrite mod_wrap by lia. f_equal. lia. }
  lia.
Qed.
Lemma Zsum_rot g a N : (0 < N)%nat ->
  Zsum (fun k => g ((a + k) mod N)%nat) N = Zsum g N.
Proof.
  intros HN. set (a' := (a mod N)%nat).
  assert (Ha' : (a' < N)%nat) by (apply Nat.mod_upper_bound; lia).
  rewrite (Zsum_ext _ (fun k => g ((a' + k) mod N)%nat)).
  2:{ intros k _. unfold a'. rewrite Nat.add_mod_idemp_l by lia. reflexivity. }
  assert (EN : N = (a' + (N - a'))%nat) by lia.
  clearbody a'. revert EN. generalize (N - a')%nat. intros b EN. subst N.
  apply Zsum_rot_aux. lia.
Qed.

(* ------------------------------------------------------------------ _rule: the weight look-ups *)
Lemma py_index_nonneg n a : 0 <= a < Z.of_nat n -> py_index n a = Some (Z.to_nat a).
Proof.
  intros H. unfold py_index.
  replace ((0 <=? a) && (a <? Z.of_nat n))%bool with true by (symmetry; apply Bool.andb_true_iff; split; [apply Z.leb_le|apply Z.ltb_lt]; lia).
  reflexivity.
Qed.
Lemma py_index_neg n a : - Z.of_nat n <= a < 0 -> py_index n a = Some (Z.to_nat (a + Z.of_nat n)).
Proof.
  intros H. unfold py_index.
  replace (0 <=? a) with false by (symmetry; apply Z.leb_gt; lia). cbn [andb].
  replace ((- Z.of_nat n <=? a) && (a <? 0))%bool with true by (symmetry; apply Bool.andb_true_iff; split; [apply Z.leb_le|apply Z.ltb_lt]; lia).
  reflexivity.
Qed.

Lemma mget_py_ok N W a c k : shape N W -> (c < N)%nat -> (k < N)%nat ->
  py_index N a = Some k -> mget_py W a c = Ok (mget W k c).
Proof.
  intros [HL HR] Hc Hk Hpy. unfold mget_py. rewrite HL, Hpy.
  rewrite (nth_error_nth' W []) by lia.
  rewrite (nth_error_nth' (nth k W []) 0) by (rewrite HR; lia).
  reflexivity.
Qed.

Lemma hop_acc_ok N W rowidx ridx c : shape N W -> (c < N)%nat ->
  forall vs j V,
  (forall j', (j' < length vs)%nat ->
     py_index N (rowidx (j + j')%nat) = Some (ridx (j + j')%nat) /\ (ridx (j + j')%nat < N)%nat) ->
  hop_acc W rowidx c j vs V =
  Ok (V + Zsum (fun j' => mget W (ridx (j + j')%nat) c * nth j' vs 0) (length vs)).
Proof.
  intros HS Hc. induction vs as [|x vs IH]; intros j V H.
  - cbn. f_equal. lia.
  - cbn [hop_acc length]. destruct (H 0%nat ltac:(cbn; lia)) as [Hpy Hlt]. rewrite Nat.add_0_r in Hpy, Hlt.
    rewrite (mget_py_ok N W _ c _ HS Hc Hlt Hpy). cbn [bind].
    rewrite IH.
    2:{ intros j' Hj'. replace (S j + j')%nat with (j + S j')%nat by lia. apply H. cbn. lia. }
    f_equal. rewrite Zsum_shift. cbn [nth]. rewrite Nat.add_0_r.
    rewrite (Zsum_ext (fun j' => mget W (ridx (S j + j')%nat) c * nth j' vs 0)
                      (fun i => mget W (ridx (j + S i)%nat) c * nth i vs 0)).
    2:{ intros i _. replace (S j + i)%nat with (j + S i)%nat by lia. reflexivity. }
    lia.
Qed.

(* ------------------------------------------------------------------ hopfield_field *)
Lemma length_ring_nbhd s c r : length (ring_nbhd s c r) = (2 * r + 1)%nat.
Proof. unfold ring_nbhd. rewrite map_length, seq_length. reflexivity. Qed.
Lemma nth_ring_nbhd s c r k : (k < 2 * r + 1)%nat ->
  nth k (ring_nbhd s c r) 0 = nth ((c + k + length s - r) mod length s) s 0.
Proof. intros H. unfold ring_nbhd. rewrite nth_map_seq by exact H. reflexivity. Qed.

(* hopfield_field: on the ring neighbourhood of radius r = N/2 of an odd ring N = 2r+1, the V that
   _rule accumulates is the weighted input of cell c from every OTHER cell, each exactly once. *)
Theorem hopfield_field : forall r W s c, let N := (2 * r + 1)%nat in
  shape N W -> length s = N -> (c < N)%nat ->
  hopfield_V W r (ring_nbhd s c r) c = Ok (field_excl W s c).
Proof.
  intros r W s c N HS HL Hc. unfold hopfield_V.
  rewrite length_ring_nbhd. fold N.
  assert (Hhalf : (N / 2 = r)%nat) by (unfold N; lia). rewrite Hhalf.
  set (n := ring_nbhd s c r).
  assert (Hn : length n = N) by (unfold n; apply length_ring_nbhd).
  set (idx := fun k => ((c + k + N - r) mod N)%nat).
  assert (Hnth : forall k, (k < N)%nat -> nth k n 0 = nth (idx k) s 0).
  { intros k Hk. unfold n. rewrite nth_ring_nbhd by exact Hk. rewrite HL. reflexivity. }
  assert (Hidx : forall k, (idx k < N)%nat) by (intros k; apply Nat.mod_upper_bound; unfold N; lia).
  (* left half *)
  rewrite (hop_acc_ok N W _ idx c HS Hc).
  2:{ intros j' Hj'. rewrite firstn_length, Hn in Hj'. cbn [Nat.add]. split; [|apply Hidx].
      unfold idx. destruct (Z_lt_ge_dec (Z.of_nat c - Z.of_nat r + Z.of_nat j') 0) as [Hneg|Hpos].
      - rewrite py_index_neg by (unfold N; lia). f_equal. rewrite Nat.mod_small by (unfold N in *; lia). unfold N. lia.
      - rewrite py_index_nonneg by (unfold N in *; lia). f_equal. rewrite mod_wrap by (unfold N in *; lia). unfold N. lia. }
  cbn [bind]. rewrite firstn_length, Hn. replace (Nat.min r N) with r by (unfold N; lia).
  (* right half *)
  rewrite (hop_acc_ok N W _ (fun j => ((c + j + 1) mod N)%nat) c HS Hc).
  2:{ intros j' Hj'. cbn [Nat.add]. split; [|apply Nat.mod_upper_bound; unfold N; lia].
      rewrite py_index_nonneg; [f_equal; apply Nat2Z.id|].
      pose proof (Nat.mod_upper_bound (c + j' + 1) N ltac:(unfold N; lia)). lia. }
  f_equal. rewrite skipn_length, Hn. replace (N - (r + 1))%nat with r by (unfold N; lia).
  cbn [Nat.add].
  set (g := fun i => mget W i c * nth i s 0).
  (* both halves as sums over the walk idx *)
  rewrite (Zsum_ext (fun j' => mget W (idx j') c * nth j' (firstn r n) 0) (fun k => g (idx k)) r).
  2:{ intros k Hk. rewrite nth_firstn_lt by exact Hk. rewrite Hnth by (unfold N; lia). reflexivity. }
  rewrite (Zsum_ext (fun j' => mget W ((c + j' + 1) mod N)%nat c * nth j' (skipn (r + 1) n) 0)
                    (fun k => g (idx (r + 1 + k)%nat)) r).
  2:{ intros k Hk. rewrite nth_skipn_add. rewrite Hnth by (unfold N; lia).
      assert (E : idx (r + 1 + k)%nat = ((c + k + 1) mod N)%nat).
      { unfold idx. replace (c + (r + 1 + k) + N - r)%nat with ((c + k + 1) + 1 * N)%nat by (unfold N; lia).
        apply Nat.mod_add. unfold N; lia. }
      rewrite E. reflexivity. }
  (* the whole walk covers the ring once; its middle step is c itself *)
  unfold field_excl. rewrite HL.
  change (fun i => if Nat.eqb i c then 0 else mget W i c * nth i s 0) with (fun i => if Nat.eqb i c then 0 else g i).
  rewrite (Zsum_excl g c N Hc).
  rewrite <- (Zsum_rot g (c + N - r) N) by (unfold N; lia).
  rewrite (Zsum_ext (fun k => g ((c + N - r + k) mod N)%nat) (fun k => g (idx k)) N).
  2:{ intros k _. unfold idx. f_equal. f_equal. unfold N. lia. }
  pose proof (Zsum_mid (fun k => g (idx k)) r) as Hmid. fold N in Hmid. rewrite Hmid.
  assert (Emid : idx r = c).
  { unfold idx. replace (c + r + N - r)%nat with (c + 1 * N)%nat by (unfold N; lia).
    rewrite Nat.mod_add by (unfold N; lia). apply Nat.mod_small. exact Hc. }
  rewrite Emid. lia.
Qed.

(* under the guard _rule does not raise, and its value is +1 iff V >= 0, else -1 *)
Theorem hopfield_update : forall r W s c, let N := (2 * r + 1)%nat in
  shape N W -> length s = N -> (c < N)%nat ->
  hopfield_rule W r (ring_nbhd s c r) c = Ok (hop (field_excl W s c)) /\
  (0 <= field_excl W s c -> hop (field_excl W s c) = 1) /\
  (field_excl W s c < 0 -> hop (field_excl W s c) = -1).
Proof.
  intros r W s c N HS HL Hc. unfold hopfield_rule.
  rewrite (hopfield_field r W s c HS HL Hc). cbn [bind]. split; [reflexivity|].
  unfold hop. split; intros H.
  - replace (0 <=? field_excl W s c) with true by (symmetry; apply Z.leb_le; lia). reflexivity.
  - replace (0 <=? field_excl W s c) with false by (symmetry; apply Z.leb_gt; lia). reflexivity.
Qed.

Corollary hopfield_rule1_value : forall r W s c t, let N := (2 * r + 1)%nat in
  shape N W -> length s = N -> (c < N)%nat ->
  hopfield_rule1 W r tt (ring_nbhd s c r) c t = (tt, hop (field_excl W s c)).
Proof.
  intros r W s c t N HS HL Hc. unfold hopfield_rule1.
  destruct (hopfield_update r W s c HS HL Hc) as [E _]. rewrite E. reflexivity.
Qed.

(* r = num_cells // 2 gives N = 2r+1 exactly for odd N *)
Lemma hopfield_r_odd N : Nat.odd N = true -> (N = 2 * hopfield_r N + 1)%nat.
Proof.
  intros H. unfold hopfield_r. apply Nat.odd_spec in H. destruct H as [m Hm]. subst N.
  replace (2 * m + 1)%nat with (1 + m * 2)%nat by lia. rewrite Nat.div_add by lia. cbn. lia.
Qed.

(* ------------------------------------------------------------------ energy (lifted spike) *)
Section Energy.
Variable N : nat.
Variable W : nat -> nat -> Z.
Hypothesis W_sym : forall i j, (i < N)%nat -> (j < N)%nat -> W i j = W j i.
Hypothesis W_diag : forall i, (i < N)%nat -> W i i = 0.

Definition E2 (s : nat -> Z) : Z := - Zsum (fun i => Zsum (fun j => W i j * s i * s j) N) N.
Definition field (s : nat -> Z) (c : nat) : Z := Zsum (fun i => W i c * s i) N.
Definition upd (s : nat -> Z) (c : nat) (v : Z) : nat -> Z := fun i => if Nat.eqb i c then v else s i.

Lemma upd_delta s c v i : upd s c v i = s i + ind c i * (v - s c).
Proof. unfold upd, ind. destruct (Nat.eqb i c) eqn:E; [apply Nat.eqb_eq in E; subst; lia|lia]. Qed.

Theorem energy_step s c v : (c < N)%nat ->
  E2 (upd s c v) - E2 s = - 2 * (v - s c) * field s c.
Proof.
  intros Hc. unfold E2. set (d := v - s c).
  assert (Hexp : forall i j, W i j * upd s c v i * upd s c v j =
     W i j * s i * s j + d * (ind c j * (W i j * s i)) + d * (ind c i * (W i j * s j)) + d * d * (ind c i * (ind c j * W i j))).
  { intros i j. rewrite !upd_delta. fold d. ring. }
  rewrite (Zsum_ext (fun i => Zsum (fun j => W i j * upd s c v i * upd s c v j) N)
                    (fun i => Zsum (fun j => W i j * s i * s j) N + d * (W i c * s i)
                              + d * (ind c i * Zsum (fun j => W i j * s j) N) + d * d * (ind c i * W i c))).
  2:{ intros i Hi. rewrite (Zsum_ext _ _ N (fun j _ => Hexp i j)).
      rewrite !Zsum_plus, !Zsum_scal. rewrite (Zsum_ind (fun j => W i j * s i) c N Hc).
      rewrite (Zsum_ind (fun j => W i j) c N Hc). reflexivity. }
  rewrite !Zsum_plus, !Zsum_scal.
  rewrite (Zsum_ind (fun i => Zsum (fun j => W i j * s j) N) c N Hc).
  rewrite (Zsum_ind (fun i => W i c) c N Hc). rewrite (W_diag c Hc).
  unfold field.
  rewrite (Zsum_ext (fun j => W c j * s j) (fun i => W i c * s i)) by (intros i Hi; rewrite (W_sym c i Hc Hi); reflexivity).
  ring.
Qed.

Corollary energy_descent_fn s c : (c < N)%nat -> (s c = 1 \/ s c = -1) ->
  E2 (upd s c (hop (field s c))) <= E2 s.
Proof.
  intros Hc Hs. pose proof (energy_step s c (hop (field s c)) Hc) as H.
  unfold hop in *. destruct (0 <=? field s c) eqn:E.
  - apply Z.leb_le in E. destruct Hs as [Hs|Hs]; rewrite Hs in H; nia.
  - apply Z.leb_gt in E. destruct Hs as [Hs|Hs]; rewrite Hs in H; nia.
Qed.
End Energy.

(* ---- the same on lists ---- *)
Lemma nth_upd_list s c v i : (c < length s)%nat ->
  nth i (upd_list s c v) 0 = upd (fun k => nth k s 0) c v i.
Proof.
  intros Hc. unfold upd_list, upd. rewrite nth_upd_nth.
  apply Nat.ltb_lt in Hc. rewrite Hc, Bool.andb_true_r. reflexivity.
Qed.
Lemma length_upd_list s c v : length (upd_list s c v) = length s.
Proof. apply length_upd_nth. Qed.

Lemma energy2_fn W s : energy2 W s = E2 (length s) (mget W) (fun k => nth k s 0).
Proof. reflexivity. Qed.
Lemma field_excl_fn N W s c : length s = N -> (c < N)%nat -> wdiag N W ->
  field_excl W s c = field N (mget W) (fun k => nth k s 0) c.
Proof.
  intros HL Hc HD. unfold field_excl, field. rewrite HL.
  rewrite (Zsum_excl (fun i => mget W i c * nth i s 0) c N Hc). rewrite (HD c Hc). lia.
Qed.

Lemma energy2_upd_list W s c v : (c < length s)%nat ->
  energy2 W (upd_list s c v) = E2 (length s) (mget W) (upd (fun k => nth k s 0) c v).
Proof.
  intros Hc. unfold energy2, E2. rewrite length_upd_list. f_equal.
  apply Zsum_ext. intros i _. apply Zsum_ext. intros j _. rewrite !nth_upd_list by exact Hc. reflexivity.
Qed.

(* the one-cell identity: 2E(s') - 2E(s) = -2 (s'_c - s_c) V *)
Theorem energy_identity : forall N W s c v, wsym N W -> wdiag N W -> length s = N -> (c < N)%nat ->
  energy2 W (upd_list s c v) - energy2 W s = - 2 * (v - nth c s 0) * field_excl W s c.
Proof.
  intros N W s c v HSy HD HL Hc.
  rewrite energy2_upd_list by lia. rewrite energy2_fn, HL.
  rewrite (field_excl_fn N W s c HL Hc HD).
  apply (energy_step N (mget W) HSy HD). exact Hc.
Qed.

(* ... and it is <= 0 for the Hopfield update of a bipolar cell *)
Theorem energy_descent : forall N W s c, wsym N W -> wdiag N W -> length s = N -> (c < N)%nat ->
  (nth c s 0 = 1 \/ nth c s 0 = -1) ->
  energy2 W (hop_update W s c) - energy2 W s
    = - 2 * (hop (field_excl W s c) - nth c s 0) * field_excl W s c /\
  energy2 W (hop_update W s c) <= energy2 W s.
Proof.
  intros N W s c HSy HD HL Hc Hb. unfold hop_update.
  pose proof (energy_identity N W s c (hop (field_excl W s c)) HSy HD HL Hc) as H.
  split; [exact H|]. unfold hop in *. destruct (0 <=? field_excl W s c) eqn:E.
  - apply Z.leb_le in E. destruct Hb as [Hb|Hb]; rewrite Hb in H; nia.
  - apply Z.leb_gt in E. destruct Hb as [Hb|Hb]; rewrite Hb in H; nia.
Qed.

(* ---- bipolar states stay bipolar ---- *)
Lemma bipolar_nth s i : bipolar s -> (i < length s)%nat -> nth i s 0 = 1 \/ nth i s 0 = -1.
Proof. intros H Hi. unfold bipolar in H. rewrite Forall_forall in H. apply H. apply nth_In. exact Hi. Qed.
Lemma hop_bipolar V : hop V = 1 \/ hop V = -1.
Proof. unfold hop. destruct (0 <=? V); [left|right]; reflexivity. Qed.
Lemma Forall_upd_nth {A} (Q : A -> Prop) l k f : Forall Q l -> (forall x, Q x -> Q (f x)) -> Forall Q (upd_nth l k f).
Proof.
  intros H Hf. revert k. induction H as [|x l Hx Hl IH]; intros [|k]; cbn; constructor; auto.
Qed.
Lemma bipolar_hop_update W s c : bipolar s -> bipolar (hop_update W s c).
Proof. intros H. unfold hop_update, upd_list. apply Forall_upd_nth; [exact H|]. intros x _. apply hop_bipolar. Qed.
Lemma length_hop_update W s c : length (hop_update W s c) = length s.
Proof. apply length_upd_list. Qed.

(* ---- any sequence of single-cell updates (any update order, repetitions allowed) ---- *)
(* a list of integers never increases from one entry to the next *)
Fixpoint nonincreasing (l : list Z) : Prop :=
  match l with
  | a :: (b :: _) as t => b <= a /\ nonincreasing t
  | _ => True
  end.

Lemma nonincreasing_nth l : nonincreasing l -> forall i j, (i <= j < length l)%nat -> nth j l 0 <= nth i l 0.
Proof.
  induction l as [|a l IH]; intros H i j Hij; [cbn in Hij; lia|].
  destruct l as [|b l'].
  - cbn in Hij. assert (i = 0%nat) by lia. assert (j = 0%nat) by lia. subst. lia.
  - destruct H as [Hba Hn]. destruct i as [|i], j as [|j]; try lia.
    + cbn [nth]. specialize (IH Hn 0%nat j ltac:(cbn in *; lia)). cbn [nth] in IH. change (nth j (b :: l') 0) with (nth j (b :: l') 0) in *. lia.
    + apply (IH Hn i j). cbn in *. lia.
Qed.

Lemma last_trajectory W cs : forall s, last (trajectory W s cs) [] = run_updates W s cs.
Proof.
  induction cs as [|c cs IH]; intros s; [reflexivity|].
  cbn [trajectory]. change (run_updates W s (c :: cs)) with (run_updates W (hop_update W s c) cs).
  rewrite <- (IH (hop_update W s c)).
  destruct (trajectory W (hop_update W s c) cs) eqn:E; [destruct cs; discriminate|]. reflexivity.
Qed.

Theorem energy_descent_seq : forall N W cs s, wsym N W -> wdiag N W -> length s = N -> bipolar s ->
  Forall (fun c => (c < N)%nat) cs ->
  nonincreasing (map (energy2 W) (trajectory W s cs)) /\
  Forall (fun row => length row = N /\ bipolar row) (trajectory W s cs) /\
  last (trajectory W s cs) [] = run_updates W s cs /\
  energy2 W (run_updates W s cs) <= energy2 W s.
Proof.
  intros N W cs. induction cs as [|c cs IH]; intros s HSy HD HL Hb Hcs.
  - cbn. split; [exact I|]. split; [constructor; [split; assumption|constructor]|]. split; [reflexivity|lia].
  - pose proof (Forall_inv Hcs) as Hc. pose proof (Forall_inv_tail Hcs) as Hcs'. cbn beta in Hc.
    assert (HL1 : length (hop_update W s c) = N) by (rewrite length_hop_update; exact HL).
    pose proof (bipolar_hop_update W s c Hb) as Hb1.
    destruct (IH (hop_update W s c) HSy HD HL1 Hb1 Hcs') as [Hn [Hall [Hlast Hle]]].
    destruct (energy_descent N W s c HSy HD HL Hc (bipolar_nth s c Hb ltac:(lia))) as [_ Hstep].
    cbn [trajectory run_updates fold_left map].
    split.
    { destruct cs as [|c' cs']; cbn [trajectory map] in *; split; try exact Hstep; exact Hn. }
    split; [constructor; [split; assumption|exact Hall]|].
    split.
    { exact (last_trajectory W (c :: cs) s). }
    unfold run_updates in Hle. lia.
Qed.

(* ------------------------------------------------------------------ stored patterns *)
Lemma bipolar_sq x : (x = 1 \/ x = -1) -> x * x = 1.
Proof. intros [H|H]; subst; reflexivity. Qed.
Lemma bipolar_opp s : bipolar s -> bipolar (map Z.opp s).
Proof. intros H. unfold bipolar in *. rewrite Forall_map. eapply Forall_impl; [|exact H]. cbn. intros x [Hx|Hx]; subst; [right|left]; reflexivity. Qed.
Lemma nth_map_opp s i : nth i (map Z.opp s) 0 = - nth i s 0.
Proof. change 0 with (- 0) at 1. apply map_nth. Qed.

Lemma stored_field N p W c : (forall i j, (i < N)%nat -> (j < N)%nat ->
      mget W i j = if (i =? j)%nat then 0 else hebb [p] i j) ->
  length p = N -> bipolar p -> (c < N)%nat ->
  field_excl W p c = nth c p 0 * (Z.of_nat N - 1) /\
  field_excl W (map Z.opp p) c = - nth c p 0 * (Z.of_nat N - 1).
Proof.
  intros HW HL Hb Hc. unfold field_excl. rewrite map_length, HL.
  assert (Hone : Zsum (fun i => if Nat.eqb i c then 0 else 1) N = Z.of_nat N - 1).
  { rewrite (Zsum_excl (fun _ => 1) c N Hc), Zsum_one. reflexivity. }
  split.
  - rewrite (Zsum_ext _ (fun i => nth c p 0 * (if Nat.eqb i c then 0 else 1)) N).
    + rewrite Zsum_scal, Hone. reflexivity.
    + intros i Hi. destruct (Nat.eqb i c) eqn:E; [lia|]. rewrite HW by assumption. rewrite E.
      unfold hebb. cbn [map zsum fold_right].
      pose proof (bipolar_sq _ (bipolar_nth p i Hb ltac:(lia))) as Hsq.
      transitivity (nth c p 0 * (nth i p 0 * nth i p 0)); [ring|rewrite Hsq; ring].
  - rewrite (Zsum_ext _ (fun i => (- nth c p 0) * (if Nat.eqb i c then 0 else 1)) N).
    + rewrite Zsum_scal, Hone. reflexivity.
    + intros i Hi. destruct (Nat.eqb i c) eqn:E; [lia|]. rewrite HW by assumption. rewrite E.
      unfold hebb. cbn [map zsum fold_right]. rewrite nth_map_opp.
      pose proof (bipolar_sq _ (bipolar_nth p i Hb ltac:(lia))) as Hsq.
      transitivity (- nth c p 0 * (nth i p 0 * nth i p 0)); [ring|rewrite Hsq; ring].
Qed.

(* stored_fixed: one stored bipolar pattern p (N >= 2): p and -p are fixed points of every
   single-cell update *)
Theorem stored_fixed : forall N p W c, (2 <= N)%nat -> length p = N -> bipolar p -> train [p] = Ok W ->
  (c < N)%nat ->
  hop_update W p c = p /\ hop_update W (map Z.opp p) c = map Z.opp p.
Proof.
  intros N p W c HN HL Hb HT Hc.
  destruct (train_hebbian N p [] ltac:(constructor; [exact HL|constructor])) as (W' & HT' & HS & HW & _).
  rewrite HT in HT'. injection HT' as <-.
  destruct (stored_field N p W c HW HL Hb Hc) as [F1 F2].
  pose proof (bipolar_nth p c Hb ltac:(lia)) as Hpc.
  unfold hop_update, upd_list. split.
  - apply (upd_nth_id p c _ 0). rewrite F1. unfold hop.
    destruct Hpc as [E|E]; rewrite E.
    + replace (0 <=? 1 * (Z.of_nat N - 1)) with true by (symmetry; apply Z.leb_le; lia). reflexivity.
    + replace (0 <=? -1 * (Z.of_nat N - 1)) with false by (symmetry; apply Z.leb_gt; lia). reflexivity.
  - apply (upd_nth_id (map Z.opp p) c _ 0). rewrite F2, nth_map_opp. unfold hop.
    destruct Hpc as [E|E]; rewrite E.
    + replace (0 <=? - (1) * (Z.of_nat N - 1)) with false by (symmetry; apply Z.leb_gt; lia). reflexivity.
    + replace (0 <=? - (-1) * (Z.of_nat N - 1)) with true by (symmetry; apply Z.leb_le; lia). reflexivity.
Qed.

Corollary stored_fixed_seq : forall N p W cs, (2 <= N)%nat -> length p = N -> bipolar p -> train [p] = Ok W ->
  Forall (fun c => (c < N)%nat) cs ->
  run_updates W p cs = p /\ run_updates W (map Z.opp p) cs = map Z.opp p.
Proof.
  intros N p W cs HN HL Hb HT Hcs. unfold run_updates. induction Hcs as [|c cs Hc Hcs IH]; [split; reflexivity|].
  cbn [fold_left]. destruct (stored_fixed N p W c HN HL Hb HT Hc) as [E1 E2]. rewrite E1, E2. exact IH.
Qed.

(* ------------------------------------------------------------------ composition with an evolution
   that rewrites one scheduled cell per step (what evolve + AsynchronousRule do: C12 / C01).
   The evolution step is abstract: any engine state X, any invariant, any schedule; the only
   hypothesis is "one step updates exactly the scheduled cell, to the value of _rule on that cell's
   current ring neighbourhood of radius r".  Instances: the direct schedule model below, and
   evolve_plain with async_rule1 in Proofs/HopfieldAsync.v. *)
Lemma iter_steps_length {X C} (stp : X -> C -> nat -> X * C) : forall n x cur t,
  length (snd (iter_steps stp n x cur t)) = n.
Proof.
  induction n as [|n IH]; intros x cur t; [reflexivity|]. cbn [iter_steps].
  destruct (stp x cur t) as [x1 nxt]. specialize (IH x1 nxt (S t)).
  destruct (iter_steps stp n x1 nxt (S t)) as [x2 rest]. cbn [snd length] in *. now rewrite IH.
Qed.

(* ---- facts about trajectories that need no symmetry / bipolarity ---- *)
Lemma length_trajectory W cs : forall s, length (trajectory W s cs) = S (length cs).
Proof. induction cs as [|c cs IH]; intros s; [reflexivity|]. cbn [trajectory length]. now rewrite IH. Qed.
Lemma trajectory_head W cs s d : nth 0 (trajectory W s cs) d = s.
Proof. destruct cs; reflexivity. Qed.
Lemma trajectory_lengths N W cs : forall s, length s = N -> Forall (fun row => length row = N) (trajectory W s cs).
Proof.
  induction cs as [|c cs IH]; intros s HL; cbn [trajectory]; constructor; try assumption; [constructor|].
  apply IH. rewrite length_hop_update. exact HL.
Qed.
(* row i+1 is row i with the i-th scheduled cell updated *)
Lemma trajectory_succ W cs : forall s i, (i < length cs)%nat ->
  nth (S i) (trajectory W s cs) [] = hop_update W (nth i (trajectory W s cs) []) (nth i cs 0%nat).
Proof.
  induction cs as [|c cs IH]; intros s i Hi; [cbn in Hi; lia|].
  cbn [trajectory]. destruct i as [|i].
  - cbn [nth]. apply trajectory_head.
  - cbn [nth]. apply IH. cbn in Hi. lia.
Qed.
(* no call of _rule along a trajectory raises, and its value is what the next row holds *)
Lemma trajectory_rule_ok r W cs s : let N := (2 * r + 1)%nat in
  shape N W -> length s = N -> Forall (fun c => (c < N)%nat) cs ->
  forall i, (i < length cs)%nat ->
    let c := nth i cs 0%nat in
    let row := nth i (trajectory W s cs) [] in
    hopfield_rule W r (ring_nbhd row c r) c = Ok (nth c (nth (S i) (trajectory W s cs) []) 0).
Proof.
  intros N HS HL Hcs i Hi c row.
  assert (Hc : (c < N)%nat) by (rewrite Forall_forall in Hcs; apply Hcs; apply nth_In; exact Hi).
  assert (Hrow : length row = N).
  { pose proof (trajectory_lengths N W cs s HL) as H. rewrite Forall_forall in H. apply H. apply nth_In.
    rewrite length_trajectory. lia. }
  rewrite trajectory_succ by exact Hi. fold c row.
  destruct (hopfield_update r W row c HS Hrow Hc) as [E _]. rewrite E. f_equal.
  unfold hop_update, upd_list. rewrite nth_upd_same by lia. reflexivity.
Qed.
(* a fixed point of every single-cell update stays put *)
Lemma trajectory_fixed N W q cs : (forall c, (c < N)%nat -> hop_update W q c = q) ->
  Forall (fun c => (c < N)%nat) cs -> trajectory W q cs = repeat q (S (length cs)).
Proof.
  intros Hfix Hcs. induction Hcs as [|c cs Hc Hcs IH]; [reflexivity|].
  cbn [trajectory length]. rewrite (Hfix c Hc), IH. reflexivity.
Qed.

Section Compose.
  Variable r : nat.
  Variable W : list (list Z).
  Local Notation N := (2 * r + 1)%nat.
  Hypothesis HS : shape N W.
  Variable X : Type.
  Variable step : X -> list Z -> nat -> X * list Z.
  Variable Inv : X -> Prop.
  Variable sched : X -> nat.
  Hypothesis step_one_cell : forall x s t, Inv x -> length s = N ->
    (sched x < N)%nat /\ Inv (fst (step x s t)) /\
    snd (step x s t) =
      upd_list s (sched x) (snd (hopfield_rule1 W r tt (ring_nbhd s (sched x) r) (sched x) t)).

  (* the cells scheduled in n consecutive steps *)
  Fixpoint sched_cells (n : nat) (x : X) (s : list Z) (t : nat) : list nat :=
    match n with
    | 0%nat => []
    | S n' => sched x :: sched_cells n' (fst (step x s t)) (snd (step x s t)) (S t)
    end.
  Lemma length_sched_cells : forall n x s t, length (sched_cells n x s t) = n.
  Proof. induction n as [|n IH]; intros x s t; [reflexivity|]. cbn [sched_cells length]. now rewrite IH. Qed.

  (* hopfield_step: one evolution step changes only the scheduled cell, to +1 iff V >= 0 *)
  Theorem hopfield_step : forall x s t, Inv x -> length s = N ->
    snd (step x s t) = hop_update W s (sched x) /\ (sched x < N)%nat /\ Inv (fst (step x s t)).
  Proof.
    intros x s t Hx HL. destruct (step_one_cell x s t Hx HL) as [Hc [Hi E]].
    split; [|split; assumption]. rewrite E.
    rewrite (hopfield_rule1_value r W s (sched x) t HS HL Hc). reflexivity.
  Qed.

  Lemma iter_trajectory : forall n x s t, Inv x -> length s = N ->
    s :: snd (iter_steps step n x s t) = trajectory W s (sched_cells n x s t) /\
    Forall (fun c => (c < N)%nat) (sched_cells n x s t).
  Proof.
    induction n as [|n IH]; intros x s t Hx HL; [split; [reflexivity|constructor]|].
    cbn [iter_steps sched_cells trajectory].
    destruct (hopfield_step x s t Hx HL) as [E [Hc Hi]].
    destruct (step x s t) as [x1 nxt] eqn:Est. cbn [fst snd] in *.
    assert (HL1 : length nxt = N) by (rewrite E, length_hop_update; exact HL).
    destruct (IH x1 nxt (S t) Hi HL1) as [IH1 IH2].
    destruct (iter_steps step n x1 nxt (S t)) as [x2 rest]. cbn [snd] in *.
    split; [|constructor; assumption]. f_equal. rewrite <- E. exact IH1.
  Qed.

  (* TOTALITY and the schedule by name: for every T >= 1 the evolution returns, its rows are the trajectory
     of the Hopfield updates of exactly the scheduled cells cs = sched_cells (T-1) x0 s 1 (in this order), and
     no call of _rule raises.  No symmetry of W and no bipolarity needed. *)
  Theorem evolve_total : forall T x0 s, (1 <= T)%nat -> Inv x0 -> length s = N ->
    let cs := sched_cells (T - 1) x0 s 1 in
    let rows := trajectory W s cs in
    (exists x, evolve_fixed [] step x0 [s] T = Ok (x, rows)) /\
    length cs = (T - 1)%nat /\ Forall (fun c => (c < N)%nat) cs /\ length rows = T /\
    Forall (fun row => length row = N) rows /\
    forall i, (i < T - 1)%nat ->
      hopfield_rule W r (ring_nbhd (nth i rows []) (nth i cs 0%nat) r) (nth i cs 0%nat)
      = Ok (nth (nth i cs 0%nat) (nth (S i) rows []) 0).
  Proof.
    intros T x0 s HT Hx HL. destruct T as [|k]; [lia|].
    replace (S k - 1)%nat with k by lia. intros cs rows.
    destruct (iter_trajectory k x0 s 1%nat Hx HL) as [Etr Hcs]. fold cs in Etr, Hcs. fold rows in Etr.
    assert (Hlc : length cs = k) by apply length_sched_cells.
    split.
    { unfold evolve_fixed. cbn [last]. destruct (iter_steps step k x0 s 1%nat) as [x' rs]. cbn [snd] in Etr.
      exists x'. cbn [app]. rewrite Etr. reflexivity. }
    split; [exact Hlc|]. split; [exact Hcs|].
    split; [unfold rows; rewrite length_trajectory, Hlc; reflexivity|].
    split; [apply trajectory_lengths; exact HL|].
    intros i Hi. apply (trajectory_rule_ok r W cs s HS HL Hcs). lia.
  Qed.

  (* energy never increases along the evolution, whatever the schedule *)
  Theorem evolve_energy : forall T x0 s, (1 <= T)%nat -> wsym N W -> wdiag N W ->
    Inv x0 -> length s = N -> bipolar s ->
    let cs := sched_cells (T - 1) x0 s 1 in
    let rows := trajectory W s cs in
    (exists x, evolve_fixed [] step x0 [s] T = Ok (x, rows)) /\
    length rows = T /\ Forall (fun c => (c < N)%nat) cs /\
    nonincreasing (map (energy2 W) rows) /\
    Forall (fun row => length row = N /\ bipolar row) rows.
  Proof.
    intros T x0 s HT HSy HD Hx HL Hb cs rows.
    destruct (evolve_total T x0 s HT Hx HL) as (Hev & _ & Hcs & Hlen & _). fold cs in Hev, Hcs, Hlen. fold rows in Hev, Hlen.
    destruct (energy_descent_seq N W cs s HSy HD HL Hb Hcs) as [Hn [Hall _]].
    split; [exact Hev|]. split; [exact Hlen|]. split; [exact Hcs|]. split; [exact Hn|exact Hall].
  Qed.

  (* a single stored pattern and its negation are fixed points of the evolution *)
  Theorem evolve_stored_fixed : forall T x0 p, (1 <= T)%nat -> (1 <= r)%nat ->
    train [p] = Ok W -> length p = N -> bipolar p -> Inv x0 ->
    (exists x, evolve_fixed [] step x0 [p] T = Ok (x, repeat p T)) /\
    (exists x, evolve_fixed [] step x0 [map Z.opp p] T = Ok (x, repeat (map Z.opp p) T)).
  Proof.
    intros T x0 p HT Hr HTr HL Hb Hx.
    assert (HLo : length (map Z.opp p) = N) by (rewrite map_length; exact HL).
    destruct (evolve_total T x0 p HT Hx HL) as ([x1 E1] & Hl1 & Hc1 & _).
    destruct (evolve_total T x0 (map Z.opp p) HT Hx HLo) as ([x2 E2] & Hl2 & Hc2 & _).
    split.
    - exists x1. rewrite E1. f_equal. f_equal.
      rewrite (trajectory_fixed N W p _ (fun c Hc => proj1 (stored_fixed N p W c ltac:(lia) HL Hb HTr Hc)) Hc1).
      rewrite Hl1. f_equal. lia.
    - exists x2. rewrite E2. f_equal. f_equal.
      rewrite (trajectory_fixed N W (map Z.opp p) _ (fun c Hc => proj2 (stored_fixed N p W c ltac:(lia) HL Hb HTr Hc)) Hc2).
      rewrite Hl2. f_equal. lia.
  Qed.
End Compose.

(* ---- instance 1: the direct schedule model (Model/Hopfield.v: sched_step, hop_evolve) ---- *)
Lemma sched_step_one_cell r W order : order <> [] -> Forall (fun c => (c < 2 * r + 1)%nat) order ->
  forall k s t, (k < length order)%nat -> length s = (2 * r + 1)%nat ->
    (nth k order 0%nat < 2 * r + 1)%nat /\ (fst (sched_step W r order k s t) < length order)%nat /\
    snd (sched_step W r order k s t) =
      upd_list s (nth k order 0%nat)
        (snd (hopfield_rule1 W r tt (ring_nbhd s (nth k order 0%nat) r) (nth k order 0%nat) t)).
Proof.
  intros Hne Hall k s t Hk HL. split; [|split].
  - rewrite Forall_forall in Hall. apply Hall. apply nth_In. exact Hk.
  - unfold sched_step. cbn [fst]. apply Nat.mod_upper_bound. lia.
  - reflexivity.
Qed.

(* the schedule of the direct model is the order itself, cyclically *)
Lemma sched_cells_direct r W order : order <> [] -> forall n k s t, (k < length order)%nat ->
  sched_cells nat (sched_step W r order) (fun k => nth k order 0%nat) n k s t
  = map (fun i => nth ((k + i) mod length order) order 0%nat) (seq 0 n).
Proof.
  intros Hne. assert (HL : (0 < length order)%nat) by (destruct order; [congruence|cbn; lia]).
  induction n as [|n IH]; intros k s t Hk; [reflexivity|].
  cbn [sched_cells]. rewrite <- cons_seq, <- seq_shift, map_cons, map_map.
  f_equal; [rewrite Nat.add_0_r, Nat.mod_small by exact Hk; reflexivity|].
  unfold sched_step at 1 2. cbn [fst snd]. rewrite IH by (apply Nat.mod_upper_bound; lia).
  apply map_ext. intros i. f_equal. rewrite Nat.add_mod_idemp_l by lia. f_equal. lia.
Qed.

Theorem hop_evolve_energy : forall r W order T s, let N := (2 * r + 1)%nat in
  (1 <= T)%nat -> shape N W -> wsym N W -> wdiag N W ->
  order <> [] -> Forall (fun c => (c < N)%nat) order ->
  length s = N -> bipolar s ->
  let cs := map (fun i => nth (i mod length order) order 0%nat) (seq 0 (T - 1)) in
  let rows := trajectory W s cs in
  (exists k, hop_evolve W r order s T = Ok (k, rows)) /\
  length rows = T /\ Forall (fun c => (c < N)%nat) cs /\
  nonincreasing (map (energy2 W) rows) /\
  Forall (fun row => length row = N /\ bipolar row) rows.
Proof.
  intros r W order T s N HT HS HSy HD Hne Hall HL Hb.
  assert (H0 : (0 < length order)%nat) by (destruct order; [congruence|cbn; lia]).
  pose proof (evolve_energy r W HS nat (sched_step W r order) (fun k => (k < length order)%nat) (fun k => nth k order 0%nat)
           (sched_step_one_cell r W order Hne Hall) T 0%nat s HT HSy HD H0 HL Hb) as H.
  rewrite (sched_cells_direct r W order Hne (T - 1) 0 s 1 H0) in H. exact H.
Qed.
