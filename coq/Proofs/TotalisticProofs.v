(* Proofs for C08: totalistic rule numbering (model in Model/Totalistic.v). *)
From Coq Require Import ZArith NArith Lia List ZifyBool ZifyNat.
From CPL Require Import Model.Base Model.Totalistic.
Import ListNotations.
Local Open Scope N_scope.

(* value of a digit list, most significant digit first *)
Fixpoint dval (k : N) (l : list N) : N :=
  match l with
  | [] => 0
  | d :: l' => d * k ^ N.of_nat (length l') + dval k l'
  end.

Definition digits_lt (k : N) (l : list N) : Prop := Forall (fun d => d < k) l.

(* ------------------------------------------------------------------ digit lists *)

Lemma dval_app_single : forall k l r, dval k (l ++ [r]) = dval k l * k + r.
Proof.
  intros k l r. induction l as [|d l IH].
  - cbn [app dval length]. change (N.of_nat 0) with 0. rewrite N.pow_0_r. lia.
  - cbn [app dval]. rewrite IH. rewrite app_length. cbn [length].
    replace (N.of_nat (length l + 1)) with (N.succ (N.of_nat (length l))) by lia.
    rewrite N.pow_succ_r'. ring.
Qed.

Lemma dval_lt : forall k l, digits_lt k l -> dval k l < k ^ N.of_nat (length l).
Proof.
  intros k l H. induction H as [|d l Hd Hl IH].
  - cbn [dval length]. change (N.of_nat 0) with 0. rewrite N.pow_0_r. lia.
  - cbn [dval length].
    replace (N.of_nat (S (length l))) with (N.succ (N.of_nat (length l))) by lia.
    rewrite N.pow_succ_r'.
    assert (Hm : (d + 1) * k ^ N.of_nat (length l) <= k * k ^ N.of_nat (length l))
      by (apply N.mul_le_mono_r; lia).
    lia.
Qed.

Lemma dval_repeat0 : forall k m l, dval k (repeat 0 m ++ l) = dval k l.
Proof.
  intros k m l. induction m as [|m IH].
  - reflexivity.
  - cbn [repeat app dval]. rewrite IH. lia.
Qed.

Lemma digits_lt_repeat0 : forall k m l, 0 < k -> digits_lt k l -> digits_lt k (repeat 0 m ++ l).
Proof.
  intros k m l Hk H. induction m as [|m IH]; [exact H|]. cbn [repeat app]. constructor; assumption.
Qed.

(* the digit at position i (from the most significant end) of a digit list of length L is
   (value / k^(L-1-i)) mod k *)
Lemma nth_digit : forall k l i d, 0 < k -> digits_lt k l ->
  nth_error l i = Some d ->
  d = (dval k l / k ^ (N.of_nat (length l) - 1 - N.of_nat i)) mod k.
Proof.
  intros k l i d Hk Hl. revert i d.
  induction Hl as [|x l Hx Hl IH]; intros i d Hn.
  - destruct i; discriminate.
  - pose proof (dval_lt k l Hl) as Hv.
    assert (Hp : forall e, k ^ e <> 0) by (intros e; apply N.pow_nonzero; lia).
    destruct i as [|j].
    + cbn [nth_error] in Hn. injection Hn as <-.
      cbn [dval length].
      replace (N.of_nat (S (length l)) - 1 - N.of_nat 0) with (N.of_nat (length l)) by lia.
      rewrite N.div_add_l by apply Hp.
      rewrite (N.div_small _ _ Hv). rewrite N.add_0_r. symmetry. apply N.mod_small. exact Hx.
    + cbn [nth_error] in Hn.
      assert (Hj : (j < length l)%nat) by (apply nth_error_Some; congruence).
      rewrite (IH j d Hn).
      cbn [dval length].
      set (e := N.of_nat (length l) - 1 - N.of_nat j).
      replace (N.of_nat (S (length l)) - 1 - N.of_nat (S j)) with e by (unfold e; lia).
      replace (N.of_nat (length l)) with (N.succ (N.of_nat j) + e) by (unfold e; lia).
      rewrite N.pow_add_r, N.pow_succ_r'.
      replace (x * (k * k ^ N.of_nat j * k ^ e) + dval k l)
        with (dval k l + (x * k ^ N.of_nat j * k) * k ^ e) by ring.
      rewrite N.div_add by apply Hp.
      replace (dval k l / k ^ e + x * k ^ N.of_nat j * k)
        with (dval k l / k ^ e + (x * k ^ N.of_nat j) * k) by ring.
      rewrite N.mod_add by lia. reflexivity.
Qed.

(* ------------------------------------------------------------------ np.base_repr *)

Lemma base_fuel_step : forall f k num acc,
  base_digits_fuel (S f) k num acc
  = if num =? 0 then acc else base_digits_fuel f k (num / k) (num mod k :: acc).
Proof.
  intros. cbn [base_digits_fuel]. unfold N.div, N.modulo.
  destruct (N.div_eucl num k) as [q r]. reflexivity.
Qed.

Lemma base_fuel_app : forall f k num acc,
  base_digits_fuel f k num acc = base_digits_fuel f k num [] ++ acc.
Proof.
  induction f as [|f IH]; intros k num acc.
  - reflexivity.
  - rewrite !base_fuel_step. destruct (num =? 0); [reflexivity|].
    rewrite (IH k (num / k) (num mod k :: acc)), (IH k (num / k) [num mod k]).
    rewrite <- app_assoc. reflexivity.
Qed.

Lemma pos_size_nat_gt : forall p, N.pos p < 2 ^ N.of_nat (Pos.size_nat p).
Proof.
  induction p as [p IH|p IH|]; cbn [Pos.size_nat].
  - replace (N.of_nat (S (Pos.size_nat p))) with (N.succ (N.of_nat (Pos.size_nat p))) by lia.
    rewrite N.pow_succ_r'. lia.
  - replace (N.of_nat (S (Pos.size_nat p))) with (N.succ (N.of_nat (Pos.size_nat p))) by lia.
    rewrite N.pow_succ_r'. lia.
  - vm_compute. reflexivity.
Qed.

Lemma size_nat_gt : forall n, n < 2 ^ N.of_nat (N.size_nat n).
Proof.
  intros [|p]; [vm_compute; reflexivity | apply pos_size_nat_gt].
Qed.

(* what the while loop computes, for any sufficient fuel *)
Lemma base_fuel_spec : forall k, 2 <= k -> forall f num, num < 2 ^ N.of_nat f ->
  let D := base_digits_fuel f k num [] in
  dval k D = num /\ digits_lt k D /\ num < k ^ N.of_nat (length D) /\
  (num = 0 -> D = []) /\
  (forall L, length D = S L -> k ^ N.of_nat L <= num).
Proof.
  intros k Hk. induction f as [|f IH]; intros num Hf.
  - change (N.of_nat 0) with 0 in Hf. rewrite N.pow_0_r in Hf.
    cbn zeta. cbn [base_digits_fuel dval length].
    split; [lia|]. split; [constructor|]. split; [cbn; lia|]. split; [reflexivity|discriminate].
  - cbn zeta. rewrite base_fuel_step.
    destruct (num =? 0) eqn:E.
    + assert (num = 0) by lia. subst num. cbn [dval length].
      split; [lia|]. split; [constructor|]. split; [cbn; lia|]. split; [reflexivity|discriminate].
    + assert (Hn : num <> 0) by lia.
      rewrite base_fuel_app.
      assert (Hq : num / k < 2 ^ N.of_nat f).
      { replace (N.of_nat (S f)) with (N.succ (N.of_nat f)) in Hf by lia.
        rewrite N.pow_succ_r' in Hf.
        assert (num / k <= num / 2) by (apply N.div_le_compat_l; lia).
        assert (num / 2 < 2 ^ N.of_nat f) by (apply N.div_lt_upper_bound; lia).
        lia. }
      specialize (IH (num / k) Hq). cbn zeta in IH.
      set (D' := base_digits_fuel f k (num / k) []) in *.
      destruct IH as (Hv & Hd & Hu & Hz & Hl).
      assert (Hr : num mod k < k) by (apply N.mod_lt; lia).
      assert (Hdm : num = k * (num / k) + num mod k) by (apply N.div_mod; lia).
      split; [|split; [|split; [|split]]].
      * rewrite dval_app_single, Hv. lia.
      * apply Forall_app. split; [exact Hd|]. constructor; [exact Hr|constructor].
      * rewrite app_length. cbn [length].
        replace (N.of_nat (length D' + 1)) with (N.succ (N.of_nat (length D'))) by lia.
        rewrite N.pow_succ_r'.
        assert ((num / k + 1) * k <= k ^ N.of_nat (length D') * k) by (apply N.mul_le_mono_r; lia).
        lia.
      * intros H0. contradiction.
      * intros L HL. rewrite app_length in HL. cbn [length] in HL.
        destruct (length D') as [|L'] eqn:EL.
        -- assert (L = 0%nat) by lia. subst L. change (N.of_nat 0) with 0. rewrite N.pow_0_r. lia.
        -- assert (L = S L') by lia. subst L.
           specialize (Hl L' eq_refl).
           replace (N.of_nat (S L')) with (N.succ (N.of_nat L')) by lia.
           rewrite N.pow_succ_r'.
           assert (k ^ N.of_nat L' * k <= (num / k) * k) by (apply N.mul_le_mono_r; exact Hl).
           lia.
Qed.

Lemma base_digits_spec : forall k num, 2 <= k ->
  let D := base_digits k num in
  dval k D = num /\ digits_lt k D /\ num < k ^ N.of_nat (length D) /\
  (num = 0 -> D = []) /\
  (forall L, length D = S L -> k ^ N.of_nat L <= num).
Proof.
  intros k num Hk. unfold base_digits. apply base_fuel_spec; [exact Hk|apply size_nat_gt].
Qed.

(* the digit string of np.base_repr, for a base that np.base_repr accepts *)
Definition repr_digits (k num : N) : list N :=
  match base_digits k num with [] => [0] | l => l end.

Lemma base_repr_ok : forall k num, 2 <= k <= 36 -> base_repr num k = Ok (repr_digits k num).
Proof.
  intros k num Hk. unfold base_repr, repr_digits.
  destruct (36 <? k) eqn:E1; [lia|]. destruct (k <? 2) eqn:E2; [lia|]. reflexivity.
Qed.

Lemma base_repr_guard : forall k num, k < 2 \/ 36 < k -> base_repr num k = Raise ValueError.
Proof.
  intros k num Hk. unfold base_repr.
  destruct (36 <? k) eqn:E1; [reflexivity|]. destruct (k <? 2) eqn:E2; [reflexivity|]. lia.
Qed.

(* supporting (1): the digits of base_repr are base-k digits and their value is the number *)
Lemma repr_digits_value : forall k num, 2 <= k ->
  dval k (repr_digits k num) = num /\ digits_lt k (repr_digits k num).
Proof.
  intros k num Hk. destruct (base_digits_spec k num Hk) as (Hv & Hd & _ & _ & _).
  unfold repr_digits. destruct (base_digits k num) as [|d l] eqn:E.
  - cbn [dval] in Hv. subst num. split; [cbn; lia|]. constructor; [lia|constructor].
  - split; assumption.
Qed.

(* supporting (2): the length of base_repr is the number of base-k digits:
   1 for 0, otherwise the L with k^(L-1) <= num < k^L *)
Lemma repr_digits_length : forall k num, 2 <= k ->
  (1 <= length (repr_digits k num))%nat /\
  num < k ^ N.of_nat (length (repr_digits k num)) /\
  (0 < num -> k ^ (N.of_nat (length (repr_digits k num)) - 1) <= num) /\
  (num = 0 -> repr_digits k num = [0]).
Proof.
  intros k num Hk. destruct (base_digits_spec k num Hk) as (Hv & Hd & Hu & Hz & Hl).
  unfold repr_digits. destruct (base_digits k num) as [|d l] eqn:E.
  - cbn [dval] in Hv. subst num. cbn [length].
    split; [lia|]. split; [change (N.of_nat 1) with 1; rewrite N.pow_1_r; lia|].
    split; [lia|reflexivity].
  - split; [|split; [|split]].
    + cbn [length]. lia.
    + exact Hu.
    + intros _. cbn [length]. specialize (Hl (length l) eq_refl).
      replace (N.of_nat (S (length l)) - 1) with (N.of_nat (length l)) by lia. exact Hl.
    + intros H0. specialize (Hz H0). discriminate.
Qed.

(* the number of digits is at most w (w >= 1) exactly when num < k^w *)
Lemma repr_length_le_iff : forall k num w, 2 <= k -> (1 <= w)%nat ->
  ((length (repr_digits k num) <= w)%nat <-> num < k ^ N.of_nat w).
Proof.
  intros k num w Hk Hw.
  destruct (repr_digits_length k num Hk) as (H1 & Hu & Hlo & Hz).
  set (L := length (repr_digits k num)) in *.
  split.
  - intros HL. apply N.lt_le_trans with (k ^ N.of_nat L); [exact Hu|].
    apply N.pow_le_mono_r; lia.
  - intros Hlt. destruct (N.eq_dec num 0) as [E0|E0].
    + unfold L. rewrite (Hz E0). cbn [length]. lia.
    + assert (Hp : k ^ (N.of_nat L - 1) < k ^ N.of_nat w) by (specialize (Hlo ltac:(lia)); lia).
      apply N.pow_lt_mono_r_iff in Hp; lia.
Qed.

(* ------------------------------------------------------------------ zfill *)

Lemma zfill_length : forall w l, length (zfill w l) = Z.to_nat (Z.max w (Z.of_nat (length l))).
Proof.
  intros w l. unfold zfill. rewrite app_length, repeat_length. lia.
Qed.

Lemma zfill_dval : forall k w l, dval k (zfill w l) = dval k l.
Proof. intros. unfold zfill. apply dval_repeat0. Qed.

Lemma zfill_digits_lt : forall k w l, 0 < k -> digits_lt k l -> digits_lt k (zfill w l).
Proof. intros. unfold zfill. apply digits_lt_repeat0; assumption. Qed.

(* ------------------------------------------------------------------ sums of cells *)

(* supporting (3): n cells with values in 0..k-1 sum to a value in 0..n(k-1) *)
Lemma zsum_bounds : forall (k : Z) cells, Forall (fun x => 0 <= x <= k - 1)%Z cells ->
  (0 <= zsum cells <= Z.of_nat (length cells) * (k - 1))%Z.
Proof.
  intros k cells H. induction H as [|x l Hx Hl IH].
  - cbn. lia.
  - cbn [zsum fold_right length]. fold (zsum l). lia.
Qed.

Lemma unmasked_Forall : forall (P : Z -> Prop) cells mask, Forall P cells -> Forall P (unmasked cells mask).
Proof.
  intros P cells mask H. revert mask. induction H as [|x l Hx Hl IH]; intros mask.
  - destruct mask; constructor.
  - destruct mask as [|m ms]; cbn [unmasked].
    + constructor; assumption.
    + destruct m; [apply IH|constructor; [assumption|apply IH]].
Qed.

Lemma unmasked_length : forall cells mask, (length (unmasked cells mask) <= length cells)%nat.
Proof.
  induction cells as [|x l IH]; intros mask.
  - destruct mask; cbn; lia.
  - destruct mask as [|m ms]; cbn [unmasked length]; [lia|].
    destruct m; cbn [length]; specialize (IH ms); lia.
Qed.

(* the masked sum is bounded by the number of UNMASKED cells times (k-1), hence by the full size *)
Lemma zsum_unmasked_bounds : forall (k : Z) cells mask, (1 <= k)%Z ->
  Forall (fun x => 0 <= x <= k - 1)%Z cells ->
  (0 <= zsum (unmasked cells mask) <= Z.of_nat (length (unmasked cells mask)) * (k - 1))%Z /\
  (zsum (unmasked cells mask) <= Z.of_nat (length cells) * (k - 1))%Z.
Proof.
  intros k cells mask Hk H.
  pose proof (zsum_bounds k _ (unmasked_Forall _ cells mask H)) as Hb.
  pose proof (unmasked_length cells mask) as Hl.
  split; [exact Hb|]. nia.
Qed.

(* ------------------------------------------------------------------ totalistic_rule *)

Section Main.
Variables (u : bool) (n : nat) (s : Z) (k rule : N).
Hypothesis Hk : 2 <= k <= 36.

Local Notation top := (Z.of_nat n * (Z.of_N k - 1))%Z.
Local Notation W := (N.of_nat n * (k - 1) + 1).

Lemma width_nat : (top + 1)%Z = Z.of_nat (N.to_nat W).
Proof. lia. Qed.

(* the length check fires exactly on rule numbers with more than n(k-1)+1 digits *)
Lemma length_check_iff :
  ((top + 1 <? Z.of_nat (length (zfill (top + 1) (repr_digits k rule))))%Z = true) <-> k ^ W <= rule.
Proof.
  rewrite zfill_length.
  pose proof (repr_length_le_iff k rule (N.to_nat W) ltac:(lia) ltac:(nia)) as Hiff.
  rewrite N2Nat.id in Hiff.
  split.
  - intros H. destruct (N.lt_ge_cases rule (k ^ W)) as [Hlt|Hge]; [|exact Hge].
    apply Hiff in Hlt. lia.
  - intros H. destruct (Nat.le_gt_cases (length (repr_digits k rule)) (N.to_nat W)) as [Hle|Hgt].
    + apply Hiff in Hle. lia.
    + lia.
Qed.

Theorem totalistic_range_ns :
  totalistic_ns u n s k rule = Raise ValueError <-> k ^ W <= rule.
Proof.
  unfold totalistic_ns. rewrite (base_repr_ok k rule Hk). cbn [bind].
  destruct (top + 1 <? Z.of_nat (length (zfill (top + 1) (repr_digits k rule))))%Z eqn:E.
  - split; [intros _; apply length_check_iff; exact E|reflexivity].
  - split.
    + intros H. exfalso.
      destruct (u && (top - s <? 0)%Z); [discriminate|].
      unfold py_get in H.
      destruct (py_index _ _) as [i|]; [|discriminate].
      destruct (nth_error _ i) as [d|] eqn:En; [|discriminate].
      cbn [bind] in H. unfold int_base in H.
      destruct (repr_digits_value k rule ltac:(lia)) as (_ & Hd).
      pose proof (zfill_digits_lt k (top + 1) _ ltac:(lia) Hd) as Hz.
      apply nth_error_In in En.
      pose proof (proj1 (Forall_forall _ _) Hz d En) as Hlt. cbn beta in Hlt.
      destruct (d <? k) eqn:Ed; [discriminate|lia].
    + intros H. apply length_check_iff in H. congruence.
Qed.

Hypothesis Hs : (0 <= s <= top)%Z.

Theorem totalistic_digit_ns : rule < k ^ W ->
  totalistic_ns u n s k rule = Ok ((rule / k ^ Z.to_N s) mod k).
Proof.
  intros Hr. unfold totalistic_ns. rewrite (base_repr_ok k rule Hk). cbn [bind].
  destruct (top + 1 <? Z.of_nat (length (zfill (top + 1) (repr_digits k rule))))%Z eqn:E.
  - apply length_check_iff in E. lia.
  - replace (u && (top - s <? 0)%Z) with false by (destruct u; lia).
    set (rs := zfill (top + 1) (repr_digits k rule)) in *.
    assert (Hlen : length rs = N.to_nat W).
    { unfold rs. rewrite zfill_length. unfold rs in E. rewrite zfill_length in E. lia. }
    destruct (repr_digits_value k rule ltac:(lia)) as (Hv & Hd).
    assert (Hrd : digits_lt k rs) by (apply zfill_digits_lt; [lia|exact Hd]).
    assert (Hrv : dval k rs = rule) by (unfold rs; rewrite zfill_dval; exact Hv).
    unfold py_get, py_index. rewrite Hlen.
    replace ((0 <=? top - s)%Z && (top - s <? Z.of_nat (N.to_nat W))%Z) with true by lia.
    destruct (nth_error rs (Z.to_nat (top - s))) as [d|] eqn:En.
    + cbn [bind].
      pose proof (nth_digit k rs _ d ltac:(lia) Hrd En) as Hdig.
      rewrite Hrv, Hlen in Hdig.
      replace (N.of_nat (N.to_nat W) - 1 - N.of_nat (Z.to_nat (top - s))) with (Z.to_N s) in Hdig by lia.
      unfold int_base.
      assert (d < k) by (rewrite Hdig; apply N.mod_lt; lia).
      destruct (d <? k) eqn:Ed; [|lia]. rewrite Hdig. reflexivity.
    + exfalso. apply nth_error_None in En. lia.
Qed.

End Main.

(* the selected digit is a colour, and the zero sum selects the last digit *)
Lemma digit_lt : forall rule k e, 2 <= k -> (rule / k ^ e) mod k < k.
Proof. intros. apply N.mod_lt. lia. Qed.

Lemma digit_zero_sum : forall rule k, (rule / k ^ Z.to_N 0) mod k = rule mod k.
Proof. intros. change (Z.to_N 0) with 0. rewrite N.pow_0_r, N.div_1_r. reflexivity. Qed.

(* ---- the statements of C08 on the (size, sum) interface *)
Theorem totalistic_digit : forall (u : bool) (n : nat) (s : Z) (k rule : N),
  2 <= k <= 36 -> (0 <= s <= Z.of_nat n * (Z.of_N k - 1))%Z ->
  rule < k ^ (N.of_nat n * (k - 1) + 1) ->
  totalistic_ns u n s k rule = Ok ((rule / k ^ Z.to_N s) mod k) /\
  (rule / k ^ Z.to_N s) mod k < k /\
  (s = 0%Z -> totalistic_ns u n s k rule = Ok (rule mod k)).
Proof.
  intros u n s k rule Hk Hs Hr.
  pose proof (totalistic_digit_ns u n s k rule Hk Hs Hr) as H.
  split; [exact H|]. split; [apply digit_lt; lia|].
  intros ->. rewrite H. rewrite digit_zero_sum. reflexivity.
Qed.

Theorem totalistic_range : forall (u : bool) (n : nat) (s : Z) (k rule : N),
  2 <= k <= 36 ->
  (totalistic_ns u n s k rule = Raise ValueError <-> k ^ (N.of_nat n * (k - 1) + 1) <= rule).
Proof. intros. apply totalistic_range_ns. assumption. Qed.

(* outside the bases np.base_repr handles, every call raises ValueError *)
Theorem totalistic_base_guard : forall u n s k rule, k < 2 \/ 36 < k ->
  totalistic_ns u n s k rule = Raise ValueError.
Proof.
  intros. unfold totalistic_ns. rewrite base_repr_guard by assumption. reflexivity.
Qed.

(* ---- on arrays: plain (1D of any radius, Moore blocks flattened) and masked (von Neumann) *)
Definition colours (k : N) (cells : list Z) : Prop := Forall (fun x => 0 <= x <= Z.of_N k - 1)%Z cells.

Theorem totalistic_cells : forall u cells k rule, 2 <= k <= 36 -> colours k cells ->
  rule < k ^ (N.of_nat (length cells) * (k - 1) + 1) ->
  totalistic_rule u cells k rule = Ok ((rule / k ^ Z.to_N (zsum cells)) mod k).
Proof.
  intros u cells k rule Hk Hc Hr. unfold totalistic_rule.
  apply totalistic_digit_ns; try assumption.
  apply zsum_bounds. exact Hc.
Qed.

Theorem totalistic_cells_masked : forall u cells mask k rule, 2 <= k <= 36 -> colours k cells ->
  rule < k ^ (N.of_nat (length cells) * (k - 1) + 1) ->
  totalistic_rule_masked u cells mask k rule
  = Ok ((rule / k ^ Z.to_N (zsum (unmasked cells mask))) mod k).
Proof.
  intros u cells mask k rule Hk Hc Hr. unfold totalistic_rule_masked.
  apply totalistic_digit_ns; try assumption.
  destruct (zsum_unmasked_bounds (Z.of_N k) cells mask ltac:(lia) Hc) as ((H0 & _) & H1). lia.
Qed.

Theorem totalistic_cells_range : forall u cells mask k rule, 2 <= k <= 36 ->
  (totalistic_rule u cells k rule = Raise ValueError
     <-> k ^ (N.of_nat (length cells) * (k - 1) + 1) <= rule) /\
  (totalistic_rule_masked u cells mask k rule = Raise ValueError
     <-> k ^ (N.of_nat (length cells) * (k - 1) + 1) <= rule).
Proof.
  intros. split; apply totalistic_range_ns; assumption.
Qed.

Theorem totalistic_class_agrees : forall k rule u cells mask c t,
  TotalisticRule_call k rule u cells c t = totalistic_rule u cells k rule /\
  TotalisticRule_call_masked k rule u cells mask c t = totalistic_rule_masked u cells mask k rule.
Proof. intros. split; reflexivity. Qed.

(* one object reused on any sequence of neighbourhoods: every answer is that of the plain function on that
   neighbourhood alone (no dependence on earlier calls, on c or on t) *)
Theorem totalistic_class_sequence : forall k rule calls,
  TotalisticRule_seq k rule calls = map (fun a => totalistic_nb k rule (fst (fst a))) calls.
Proof.
  intros k rule calls. unfold TotalisticRule_seq. apply map_ext.
  intros [[nb c] t]. destruct nb; reflexivity.
Qed.

Corollary totalistic_class_sequence_nth : forall k rule calls i nb c t,
  nth_error calls i = Some (nb, c, t) ->
  nth_error (TotalisticRule_seq k rule calls) i = Some (totalistic_nb k rule nb).
Proof.
  intros k rule calls i nb c t H. rewrite totalistic_class_sequence.
  rewrite nth_error_map, H. reflexivity.
Qed.

(* ---- the clauses of the property restated on arrays *)

(* whatever the contents (also outside 0..k-1, where Python indexes from the end of the string): a value
   returned by the function is a colour *)
Theorem totalistic_result_lt : forall u n s k rule d, 2 <= k <= 36 ->
  totalistic_ns u n s k rule = Ok d -> d < k.
Proof.
  intros u n s k rule d Hk. unfold totalistic_ns. rewrite (base_repr_ok k rule Hk). cbn [bind].
  set (top := (Z.of_nat n * (Z.of_N k - 1))%Z).
  destruct (top + 1 <? Z.of_nat (length (zfill (top + 1) (repr_digits k rule))))%Z; [discriminate|].
  destruct (u && (top - s <? 0)%Z); [discriminate|].
  unfold py_get. destruct (py_index _ _) as [i|]; [|discriminate].
  destruct (nth_error _ i) as [x|] eqn:En; [|discriminate].
  cbn [bind]. unfold int_base. destruct (x <? k) eqn:Ex; [|discriminate].
  intros H. injection H as <-. lia.
Qed.

Theorem totalistic_cells_result_lt : forall u cells mask k rule d, 2 <= k <= 36 ->
  (totalistic_rule u cells k rule = Ok d -> d < k) /\
  (totalistic_rule_masked u cells mask k rule = Ok d -> d < k).
Proof. intros. split; apply totalistic_result_lt; assumption. Qed.

Lemma zsum_repeat0 : forall n, zsum (repeat 0%Z n) = 0%Z.
Proof. induction n as [|n IH]; [reflexivity|]. cbn [repeat zsum fold_right]. fold (zsum (repeat 0%Z n)). lia. Qed.

(* the all-zero neighbourhood of any size selects the least significant digit *)
Theorem totalistic_all_zero : forall u n k rule, 2 <= k <= 36 ->
  rule < k ^ (N.of_nat n * (k - 1) + 1) ->
  totalistic_rule u (repeat 0%Z n) k rule = Ok (rule mod k).
Proof.
  intros u n k rule Hk Hr. unfold totalistic_rule. rewrite repeat_length, zsum_repeat0.
  apply (totalistic_digit u n 0%Z k rule Hk); [nia|exact Hr|reflexivity].
Qed.
