(* C19 — what a passing correspondence case means for the real-valued model: soundness of
   Corr/C19.check_case itself (not of a sibling comparison function). *)
From Coq Require Import String Ascii Reals.
From CPL Require Import Model.Base Model.Apen Proofs.ApenExact Proofs.ApenProofs Corr.C19.
From Coq Require Import ZArith Lra Lia.
From Interval Require Import Xreal Interval Basic.
Local Open Scope R_scope.

Lemma nlist_eqb_eq l l' : nlist_eqb l l' = true -> l = l'.
Proof.
  unfold nlist_eqb. revert l'. induction l as [|a l IH]; intros [|b l'] H; try discriminate; [reflexivity|].
  cbn [list_eqb] in H. apply andb_prop in H. destruct H as [H1 H2].
  apply Nat.eqb_eq in H1. subst b. f_equal. apply IH, H2.
Qed.

(* a passing value case: the model returns a real value, the transported double is within 2^-30 of it,
   and observed counts (if any) are the model's counts *)
Theorem check_case_sound_value inp m r mant ex cnt : (0 <= r)%Z ->
  check_case (CApen inp m r (Ok (Dbl mant ex)) cnt) = true ->
  exists x U, apen inp m r = Ok x /\ normalise inp = Ok U /\
    Rabs (doubleR mant ex - x) <= / IZR (2 ^ 30) /\
    (forall o1 o0, cnt = Some (o1, o0) -> o1 = Cs (S m) r U /\ o0 = Cs m r U).
Proof.
  intros Hr H. unfold check_case, model_out in H.
  pose proof (apen_twin_correct inp m r Hr) as Ht.
  destruct (apen_twin inp m r) as [xi|e] eqn:Et; cbn [bind] in H.
  2:{ destruct e; discriminate. }
  destruct (normalise inp) as [U|e] eqn:En; cbn [bind] in H.
  2:{ destruct e; discriminate. }
  destruct (apen inp m r) as [x|e] eqn:Ea; [|contradiction].
  apply andb_prop in H. destruct H as [Hs Hc].
  exists x, U. split; [reflexivity|]. split; [reflexivity|]. split.
  - apply tolI_correct. eapply I.subset_correct; [|exact Hs].
    change (Xreal (doubleR mant ex - x)) with (Xsub (Xreal (doubleR mant ex)) (Xreal x)).
    apply I.sub_correct; [apply doubleI_correct | exact Ht].
  - intros o1 o0 Hcnt. subst cnt. apply andb_prop in Hc. destruct Hc as [H1 H0].
    split; apply nlist_eqb_eq; assumption.
Qed.

(* a passing exception case: the model raises too, and a model TypeError is matched by a TypeError *)
Theorem check_case_sound_exc inp m r e cnt : (0 <= r)%Z ->
  check_case (CApen inp m r (Raise e) cnt) = true ->
  exists e', apen inp m r = Raise e' /\ (e' = TypeError -> e = TypeError).
Proof.
  intros Hr H. unfold check_case, model_out in H.
  pose proof (apen_twin_correct inp m r Hr) as Ht.
  destruct (apen_twin inp m r) as [xi|e0] eqn:Et; cbn [bind] in H.
  - destruct (normalise inp) as [U|e1] eqn:En; cbn [bind] in H; [discriminate|].
    unfold apen_twin in Et. rewrite En in Et. discriminate.
  - destruct (apen inp m r) as [x|e'] eqn:Ea; [contradiction|]. subst e0.
    exists e'. split; [reflexivity|]. intros He. subst e'. destruct e; try discriminate. reflexivity.
Qed.

(* a non-finite result never passes *)
Theorem check_case_nonfinite inp m r cnt : check_case (CApen inp m r (Ok NonFinite) cnt) = false.
Proof.
  unfold check_case. destruct (model_out _) as [[xi [c1 c0]]|e]; [reflexivity | destruct e; reflexivity].
Qed.
