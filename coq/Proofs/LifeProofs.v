(* C11 — proofs.  (1) the complete sweep of the 512 binary neighbourhoods; (2) locality of the torus
   Life step and the pattern corollaries for every torus size and placement (lifted from
   notes/spikes/life_locality.v); (3) shift equivariance; (4) the bridge from the list-of-lists
   engine of Model/Evolve2D.v to the functional torus step; (5) the corollaries on the engine. *)
From Coq Require Import ZArith List Lia Bool ZifyBool ZifyNat FinFun.
From CPL Require Import Model.Base Model.Rules Model.Engine Model.Evolve2D Model.Life.
Import ListNotations.
Local Open Scope Z_scope.

(* ================================================================ 1. the rule is B3/S23 *)

Definition bit (x : Z) : Prop := x = 0 \/ x = 1.

Lemma bit_in x : bit x -> In x bits01.
Proof. intros [->| ->]; cbn; auto. Qed.

(* the complete finite sweep: 2^9 = 512 blocks *)
Lemma gol_sweep_512 : gol_sweep9 gol_block_ok = true.
Proof. vm_compute. reflexivity. Qed.

Lemma blocks512_length : length blocks512 = 512%nat.
Proof. vm_compute. reflexivity. Qed.

Lemma gol_sweep_blocks512 : forallb gol_block_ok blocks512 = true.
Proof. vm_compute. reflexivity. Qed.

Lemma gol_sweep9_lift chk : gol_sweep9 chk = true ->
  forall a0 a1 a2 a3 a4 a5 a6 a7 a8, bit a0 -> bit a1 -> bit a2 -> bit a3 -> bit a4 -> bit a5 -> bit a6 -> bit a7 -> bit a8 ->
  chk [[a0; a1; a2]; [a3; a4; a5]; [a6; a7; a8]] = true.
Proof.
  unfold gol_sweep9. intros H a0 a1 a2 a3 a4 a5 a6 a7 a8 H0 H1 H2 H3 H4 H5 H6 H7 H8.
  rewrite forallb_forall in H. specialize (H a0 (bit_in _ H0)).
  rewrite forallb_forall in H. specialize (H a1 (bit_in _ H1)).
  rewrite forallb_forall in H. specialize (H a2 (bit_in _ H2)).
  rewrite forallb_forall in H. specialize (H a3 (bit_in _ H3)).
  rewrite forallb_forall in H. specialize (H a4 (bit_in _ H4)).
  rewrite forallb_forall in H. specialize (H a5 (bit_in _ H5)).
  rewrite forallb_forall in H. specialize (H a6 (bit_in _ H6)).
  rewrite forallb_forall in H. specialize (H a7 (bit_in _ H7)).
  rewrite forallb_forall in H. exact (H a8 (bit_in _ H8)).
Qed.

(* every binary 3x3 block is one of the 512 enumerated ones *)
Lemma blocks512_complete a0 a1 a2 a3 a4 a5 a6 a7 a8 :
  bit a0 -> bit a1 -> bit a2 -> bit a3 -> bit a4 -> bit a5 -> bit a6 -> bit a7 -> bit a8 ->
  In [[a0; a1; a2]; [a3; a4; a5]; [a6; a7; a8]] blocks512.
Proof.
  intros H0 H1 H2 H3 H4 H5 H6 H7 H8. unfold blocks512.
  apply in_flat_map. exists a0. split; [apply bit_in; assumption|].
  apply in_flat_map. exists a1. split; [apply bit_in; assumption|].
  apply in_flat_map. exists a2. split; [apply bit_in; assumption|].
  apply in_flat_map. exists a3. split; [apply bit_in; assumption|].
  apply in_flat_map. exists a4. split; [apply bit_in; assumption|].
  apply in_flat_map. exists a5. split; [apply bit_in; assumption|].
  apply in_flat_map. exists a6. split; [apply bit_in; assumption|].
  apply in_flat_map. exists a7. split; [apply bit_in; assumption|].
  apply in_map_iff. exists a8. split; [reflexivity|apply bit_in; assumption].
Qed.

(* the 512 enumerated blocks are pairwise distinct (read row-major as a 9-bit number: 0 .. 511) *)
Lemma blocks512_NoDup : NoDup blocks512.
Proof.
  apply (NoDup_map_inv (fun n => zsum (map (fun p => fst p * snd p)
           (combine (concat n) [256; 128; 64; 32; 16; 8; 4; 2; 1])))).
  assert (E : map (fun n => zsum (map (fun p => fst p * snd p)
           (combine (concat n) [256; 128; 64; 32; 16; 8; 4; 2; 1]))) blocks512 = map Z.of_nat (seq 0 512))
    by (vm_compute; reflexivity).
  rewrite E. apply FinFun.Injective_map_NoDup; [intros x y; apply Nat2Z.inj|apply seq_NoDup].
Qed.

Lemma b3s23_one c nb : b3s23 c nb = 1 <-> (c = 0 /\ nb = 3) \/ (c = 1 /\ (nb = 2 \/ nb = 3)).
Proof.
  unfold b3s23.
  destruct (((c =? 0) && (nb =? 3)) || ((c =? 1) && ((nb =? 2) || (nb =? 3)))) eqn:E; split; intros H; try lia.
Qed.

Lemma b3s23_range c nb : b3s23 c nb = 0 \/ b3s23 c nb = 1.
Proof. unfold b3s23. destruct (_ || _); auto. Qed.

(* THE STATEMENT: for each of the 512 binary 3x3 neighbourhoods (nine entries in {0,1}; c the centre,
   nb the number of live cells among the eight others) the code's case analysis never falls
   through, returns 0 or 1, and returns 1 exactly for birth on 3 / survival on 2 or 3. *)
Theorem gol_is_b3s23 : forall a0 a1 a2 a3 c a5 a6 a7 a8 : Z,
  bit a0 -> bit a1 -> bit a2 -> bit a3 -> bit c -> bit a5 -> bit a6 -> bit a7 -> bit a8 ->
  let n := [[a0; a1; a2]; [a3; c; a5]; [a6; a7; a8]] in
  let nb := a0 + a1 + a2 + a3 + a5 + a6 + a7 + a8 in
  gol_rule n <> None /\
  (gol_rule n = Some 0 \/ gol_rule n = Some 1) /\
  (gol_rule n = Some 1 <-> (c = 0 /\ nb = 3) \/ (c = 1 /\ (nb = 2 \/ nb = 3))) /\
  gol_rule n = Some (b3s23 c nb).
Proof.
  intros a0 a1 a2 a3 c a5 a6 a7 a8 H0 H1 H2 H3 H4 H5 H6 H7 H8 n nb.
  pose proof (gol_sweep9_lift _ gol_sweep_512 a0 a1 a2 a3 c a5 a6 a7 a8 H0 H1 H2 H3 H4 H5 H6 H7 H8) as Hok.
  fold n in Hok. unfold gol_block_ok in Hok.
  assert (Ec : gol_centre n = c) by reflexivity.
  assert (Et : gol_total n - gol_centre n = nb).
  { rewrite Ec. unfold n, nb. cbv [gol_total concat app zsum fold_right]. ring. }
  rewrite Ec in Hok. rewrite Ec in Et. rewrite Et in Hok.
  destruct (gol_rule n) as [v|] eqn:Er; [|discriminate].
  apply Z.eqb_eq in Hok. subst v.
  split; [discriminate|]. split.
  - destruct (b3s23_range c nb) as [-> | ->]; auto.
  - split; [|reflexivity]. rewrite <- b3s23_one. split; intros H; [injection H; auto|f_equal; exact H].
Qed.

(* the same over the enumerated list, with the bound: 512 blocks, all of them *)
Theorem gol_is_b3s23_blocks : length blocks512 = 512%nat /\
  forall n, In n blocks512 ->
    gol_rule n = Some (b3s23 (gol_centre n) (gol_total n - gol_centre n)).
Proof.
  split; [exact blocks512_length|]. intros n Hn.
  pose proof gol_sweep_blocks512 as H. rewrite forallb_forall in H. specialize (H n Hn).
  unfold gol_block_ok in H. destruct (gol_rule n) as [v|]; [|discriminate].
  apply Z.eqb_eq in H. congruence.
Qed.

(* beyond the 512: over the integers the three `if`s under `centre == 1` are exhaustive, so the
   fall-through is dead for EVERY integer neighbourhood (it is reachable only with NaN) *)
Lemma gol_case_never_none c total : gol_case c total <> None.
Proof.
  unfold gol_case. destruct (c =? 1); [|destruct (total =? 3); discriminate].
  destruct (total - 1 <? 2) eqn:E1; [discriminate|].
  destruct ((total - 1 =? 2) || (total - 1 =? 3)) eqn:E2; [discriminate|].
  destruct (3 <? total - 1) eqn:E3; [discriminate|]. lia.
Qed.

Theorem gol_never_none n : gol_rule n <> None.
Proof. apply gol_case_never_none. Qed.

(* hence the sentinel of gol_as_rule2 is never produced: its value is always the code's return value *)
Lemma gol_as_rule2_spec u n c t : gol_rule_nb n = Some (snd (gol_as_rule2 u n c t)) /\ fst (gol_as_rule2 u n c t) = u.
Proof.
  unfold gol_as_rule2, gol_rule_nb. cbn [snd fst]. split; [|reflexivity].
  destruct (gol_case _ _) as [v|] eqn:E; [reflexivity|exfalso; exact (gol_case_never_none _ _ E)].
Qed.

(* the case analysis, for a 0/1 centre and ANY neighbour count, is `life` *)
Lemma gol_case_life c nb : gol_case (b2z c) (b2z c + nb) = Some (b2z (life c nb)).
Proof.
  unfold gol_case, life. destruct c; cbn [b2z].
  - replace (1 + nb - 1) with nb by ring. change (1 =? 1) with true. cbv iota.
    destruct (nb <? 2) eqn:E1; destruct (nb =? 2) eqn:E2; destruct (nb =? 3) eqn:E3; destruct (3 <? nb) eqn:E4;
      cbn [orb b2z]; try reflexivity; lia.
  - change (0 =? 1) with false. cbv iota. replace (0 + nb) with nb by ring.
    destruct (nb =? 3); reflexivity.
Qed.

(* ================================================================ 2. locality on the torus *)

Definition peq (f g : plane) : Prop := forall i j, f i j = g i j.
Infix "==" := peq (at level 70).

Lemma peq_refl f : f == f. Proof. intros i j; reflexivity. Qed.
Lemma peq_sym f g : f == g -> g == f. Proof. intros H i j; symmetry; apply H. Qed.
Lemma peq_trans f g h : f == g -> g == h -> f == h. Proof. intros H1 H2 i j; rewrite H1; apply H2. Qed.

Lemma pstep_ext f g : f == g -> pstep f == pstep g.
Proof. intros H i j. unfold pstep, cnt8. rewrite !H. reflexivity. Qed.

(* P is supported in the box [0,p) x [0,q) *)
Definition supp (p q : Z) (P : plane) : Prop := forall u v, P u v = true -> 0 <= u < p /\ 0 <= v < q.

Lemma tstep_ext R C f g : f == g -> tstep R C f == tstep R C g.
Proof. intros H. apply pstep_ext. intros i j. unfold ext. apply H. Qed.

Lemma emb_ext R C a b P Q : P == Q -> emb R C a b P == emb R C a b Q.
Proof. intros H i j. unfold emb. apply H. Qed.

Lemma ext_emb R C a b P i j : ext R C (emb R C a b P) i j = P ((i - a) mod R) ((j - b) mod C).
Proof. unfold ext, emb. rewrite !Zminus_mod_idemp_l. reflexivity. Qed.

Section Torus.
Variables R C : Z.
Hypothesis R_pos : 0 < R.
Hypothesis C_pos : 0 < C.

(* one coordinate: the residue of a neighbour is the neighbour of the (offset) residue, or both
   fall outside the support *)
Lemma wrap_cases n k m s : 0 < n -> s = 1 -> -2 <= m <= 0 -> - m <= n ->
  let u := (k + s) mod n in
  (k + s + m) mod n = u + m \/ (u + m < 0 /\ (k + s + m) mod n = u + m + n).
Proof.
  intros Hn Hs Hm Hmn u.
  assert (Hu : 0 <= u < n) by (apply Z.mod_pos_bound; lia).
  assert (E : (k + s + m) mod n = (u + m) mod n) by (unfold u; rewrite Zplus_mod_idemp_l; reflexivity).
  destruct (Z_lt_le_dec (u + m) 0) as [Hneg|Hpos].
  - right. split; [exact Hneg|]. rewrite E.
    rewrite <- (Z_mod_plus_full (u + m) 1 n). replace (u + m + 1 * n) with (u + m + n) by ring.
    apply Z.mod_small. lia.
  - left. rewrite E. apply Z.mod_small. lia.
Qed.

(* the embedded pattern read at a neighbour = the plane pattern read at the plane neighbour *)
Lemma emb_read p q P a b i j di dj :
  supp p q P -> 0 <= p -> 0 <= q -> p + 2 <= R -> q + 2 <= C -> -1 <= di <= 1 -> -1 <= dj <= 1 ->
  P ((i + di - a) mod R) ((j + dj - b) mod C) =
  P ((i - a + 1) mod R - 1 + di) ((j - b + 1) mod C - 1 + dj).
Proof.
  intros HS Hp Hq HR HC Hdi Hdj.
  pose proof (wrap_cases R (i - a) (di - 1) 1 R_pos eq_refl ltac:(lia) ltac:(lia)) as Hr.
  pose proof (wrap_cases C (j - b) (dj - 1) 1 C_pos eq_refl ltac:(lia) ltac:(lia)) as Hc.
  cbn zeta in Hr, Hc.
  replace (i - a + 1 + (di - 1)) with (i + di - a) in Hr by ring.
  replace (j - b + 1 + (dj - 1)) with (j + dj - b) in Hc by ring.
  set (u := (i - a + 1) mod R) in *. set (v := (j - b + 1) mod C) in *.
  assert (Hu : 0 <= u < R) by (apply Z.mod_pos_bound; lia).
  assert (Hv : 0 <= v < C) by (apply Z.mod_pos_bound; lia).
  replace (u - 1 + di) with (u + (di - 1)) by ring. replace (v - 1 + dj) with (v + (dj - 1)) by ring.
  destruct Hr as [-> | [Hrn ->]]; destruct Hc as [-> | [Hcn ->]]; try reflexivity.
  - (* column wrapped: both reads are outside the support *)
    destruct (P (u + (di - 1)) (v + (dj - 1) + C)) eqn:E1; destruct (P (u + (di - 1)) (v + (dj - 1))) eqn:E2;
      try reflexivity; try (apply HS in E1; lia); try (apply HS in E2; lia).
  - destruct (P (u + (di - 1) + R) (v + (dj - 1))) eqn:E1; destruct (P (u + (di - 1)) (v + (dj - 1))) eqn:E2;
      try reflexivity; try (apply HS in E1; lia); try (apply HS in E2; lia).
  - destruct (P (u + (di - 1) + R) (v + (dj - 1) + C)) eqn:E1; destruct (P (u + (di - 1)) (v + (dj - 1))) eqn:E2;
      try reflexivity; try (apply HS in E1; lia); try (apply HS in E2; lia).
Qed.

(* LOCALITY: a pattern supported in a p x q box, placed anywhere (a, b) on a torus that leaves a
   one-cell halo (p + 2 <= R, q + 2 <= C), evolves for one step exactly as in the plane. *)
Theorem torus_local p q P a b : supp p q P -> 0 <= p -> 0 <= q -> p + 2 <= R -> q + 2 <= C ->
  tstep R C (emb R C a b P) == emb R C (a - 1) (b - 1) (shift 1 1 (pstep P)).
Proof.
  intros HS Hp Hq HR HC i j. unfold tstep, pstep at 1, cnt8. rewrite !ext_emb.
  unfold emb at 1, shift, pstep, cnt8.
  replace (i - (a - 1)) with (i - a + 1) by ring. replace (j - (b - 1)) with (j - b + 1) by ring.
  set (u := (i - a + 1) mod R). set (v := (j - b + 1) mod C).
  pose proof (fun di dj Hdi Hdj => emb_read p q P a b i j di dj HS Hp Hq HR HC Hdi Hdj) as Hrd. fold u v in Hrd.
  replace (i - a) with (i + 0 - a) by ring. replace (j - b) with (j + 0 - b) by ring.
  replace (i - 1 - a) with (i + -1 - a) by ring. replace (j - 1 - b) with (j + -1 - b) by ring.
  replace (i + 1 + 0 - a) with (i + 1 - a) by ring.
  rewrite !Hrd by lia.
  replace (u - 1 + 0) with (u - 1) by ring. replace (v - 1 + 0) with (v - 1) by ring.
  replace (u - 1 + -1) with (u - 1 - 1) by ring. replace (v - 1 + -1) with (v - 1 - 1) by ring.
  reflexivity.
Qed.

(* RE-ANCHORING: a shifted sub-pattern that still fits in the torus is the sub-pattern embedded
   at the shifted origin *)
Lemma emb_shift p2 q2 P2 a b du dv : supp p2 q2 P2 -> 0 <= p2 -> 0 <= q2 ->
  0 <= du -> du + p2 <= R -> 0 <= dv -> dv + q2 <= C ->
  emb R C a b (shift du dv P2) == emb R C (a + du) (b + dv) P2.
Proof.
  intros HS Hp2 Hq2 Hdu HR Hdv HC i j. unfold emb, shift.
  replace (i - (a + du)) with ((i - a) - du) by ring. replace (j - (b + dv)) with ((j - b) - dv) by ring.
  rewrite <- (Zminus_mod_idemp_l (i - a) du R), <- (Zminus_mod_idemp_l (j - b) dv C).
  set (x := (i - a) mod R). set (y := (j - b) mod C).
  assert (Hx : 0 <= x < R) by (apply Z.mod_pos_bound; lia).
  assert (Hy : 0 <= y < C) by (apply Z.mod_pos_bound; lia).
  assert (Ex : (x - du) mod R = x - du \/ (x - du < 0 /\ (x - du) mod R = x - du + R)).
  { destruct (Z_lt_le_dec (x - du) 0); [right; split; [assumption|]|left; apply Z.mod_small; lia].
    rewrite <- (Z_mod_plus_full (x - du) 1 R). replace (x - du + 1 * R) with (x - du + R) by ring. apply Z.mod_small; lia. }
  assert (Ey : (y - dv) mod C = y - dv \/ (y - dv < 0 /\ (y - dv) mod C = y - dv + C)).
  { destruct (Z_lt_le_dec (y - dv) 0); [right; split; [assumption|]|left; apply Z.mod_small; lia].
    rewrite <- (Z_mod_plus_full (y - dv) 1 C). replace (y - dv + 1 * C) with (y - dv + C) by ring. apply Z.mod_small; lia. }
  destruct Ex as [-> | [Hxn ->]]; destruct Ey as [-> | [Hyn ->]]; try reflexivity.
  - destruct (P2 (x - du) (y - dv)) eqn:E1; destruct (P2 (x - du) (y - dv + C)) eqn:E2;
      try reflexivity; try (apply HS in E1; lia); try (apply HS in E2; lia).
  - destruct (P2 (x - du) (y - dv)) eqn:E1; destruct (P2 (x - du + R) (y - dv)) eqn:E2;
      try reflexivity; try (apply HS in E1; lia); try (apply HS in E2; lia).
  - destruct (P2 (x - du) (y - dv)) eqn:E1; destruct (P2 (x - du + R) (y - dv + C)) eqn:E2;
      try reflexivity; try (apply HS in E1; lia); try (apply HS in E2; lia).
Qed.
End Torus.

(* ---------- finite patterns ---------- *)
Lemma of_list_supp p q cells : forallb (in_box p q) cells = true -> supp p q (of_list cells).
Proof.
  intros Hall u v H. unfold of_list in H. apply existsb_exists in H as ([cu cv] & Hin & E).
  rewrite forallb_forall in Hall. specialize (Hall _ Hin). unfold in_box in Hall. cbn [fst snd] in *. lia.
Qed.

Lemma pstep_supp p q P : supp p q P -> supp (p + 2) (q + 2) (shift 1 1 (pstep P)).
Proof.
  intros HS u v H. unfold shift, pstep in H.
  destruct (P (u - 1) (v - 1)) eqn:E0; [apply HS in E0; lia|].
  unfold life in H. apply Z.eqb_eq in H. unfold cnt8 in H.
  destruct (P (u-1-1) (v-1-1)) eqn:E1; [apply HS in E1; lia|].
  destruct (P (u-1-1) (v-1)) eqn:E2; [apply HS in E2; lia|].
  destruct (P (u-1-1) (v-1+1)) eqn:E3; [apply HS in E3; lia|].
  destruct (P (u-1) (v-1-1)) eqn:E4; [apply HS in E4; lia|].
  destruct (P (u-1) (v-1+1)) eqn:E5; [apply HS in E5; lia|].
  destruct (P (u-1+1) (v-1-1)) eqn:E6; [apply HS in E6; lia|].
  destruct (P (u-1+1) (v-1)) eqn:E7; [apply HS in E7; lia|].
  destruct (P (u-1+1) (v-1+1)) eqn:E8; [apply HS in E8; lia|].
  cbn in H. discriminate.
Qed.

Lemma in_zrange n u : 0 <= u < n -> In u (zrange n).
Proof. intros H. unfold zrange. apply in_map_iff. exists (Z.to_nat u). split; [lia|]. apply in_seq. lia. Qed.

Lemma step_check_inv p q cells cells' p' q' du dv : step_check p q cells cells' p' q' du dv = true ->
  forallb (in_box p q) cells = true /\ forallb (in_box p' q') cells' = true /\
  0 <= p' /\ 0 <= q' /\ 0 <= du /\ du + p' <= p + 2 /\ 0 <= dv /\ dv + q' <= q + 2 /\
  (forall u v, 0 <= u < p + 2 -> 0 <= v < q + 2 ->
     shift 1 1 (pstep (of_list cells)) u v = shift du dv (of_list cells') u v).
Proof.
  unfold step_check. intros H.
  apply andb_true_iff in H as [H1 H]. apply andb_true_iff in H as [H2 H].
  apply andb_true_iff in H as [H3 H]. apply andb_true_iff in H as [H4 H].
  apply andb_true_iff in H as [H5 H]. apply andb_true_iff in H as [H6 H].
  apply andb_true_iff in H as [H7 H]. apply andb_true_iff in H as [H8 H9].
  repeat (split; [first [assumption | lia]|]).
  intros u v Hu Hv. rewrite forallb_forall in H9. specialize (H9 u (in_zrange _ _ Hu)).
  rewrite forallb_forall in H9. specialize (H9 v (in_zrange _ _ Hv)). apply eqb_prop in H9. exact H9.
Qed.

Lemma step_check_sound p q cells cells' p' q' du dv : step_check p q cells cells' p' q' du dv = true ->
  shift 1 1 (pstep (of_list cells)) == shift du dv (of_list cells').
Proof.
  intros H. apply step_check_inv in H as (Hc & Hc' & Hp' & Hq' & Hdu & Hdu2 & Hdv & Hdv2 & Hbox).
  intros u v.
  pose proof (pstep_supp p q _ (of_list_supp p q cells Hc)) as S1.
  pose proof (of_list_supp p' q' cells' Hc') as S2.
  destruct (Z_lt_le_dec u 0) as [Hu|Hu]; [|destruct (Z_lt_le_dec u (p + 2)) as [Hu2|Hu2]];
  [ | destruct (Z_lt_le_dec v 0) as [Hv|Hv]; [|destruct (Z_lt_le_dec v (q + 2)) as [Hv2|Hv2]] | ];
  try (apply Hbox; lia);
  (destruct (shift 1 1 (pstep (of_list cells)) u v) eqn:E1; destruct (shift du dv (of_list cells') u v) eqn:E2;
    try reflexivity; try (apply S1 in E1; lia); unfold shift in E2; apply S2 in E2; lia).
Qed.

(* one torus step of an embedded finite pattern, for every torus it fits in with a one-cell halo *)
Lemma torus_pattern_step R C p q cells cells' p' q' du dv a b :
  step_check p q cells cells' p' q' du dv = true -> 0 <= p -> 0 <= q -> p + 2 <= R -> q + 2 <= C ->
  tstep R C (emb R C a b (of_list cells)) == emb R C (a - 1 + du) (b - 1 + dv) (of_list cells').
Proof.
  intros Hchk Hp Hq HR HC i j.
  assert (R_pos : 0 < R) by lia. assert (C_pos : 0 < C) by lia.
  pose proof (step_check_inv _ _ _ _ _ _ _ _ Hchk) as (Hc & Hc' & Hp' & Hq' & Hdu & Hdu2 & Hdv & Hdv2 & _).
  rewrite (torus_local R C R_pos C_pos p q _ a b (of_list_supp p q cells Hc) Hp Hq HR HC i j).
  rewrite (emb_ext R C _ _ _ _ (step_check_sound _ _ _ _ _ _ _ _ Hchk) i j).
  replace (a - 1 + du) with ((a - 1) + du) by ring. replace (b - 1 + dv) with ((b - 1) + dv) by ring.
  apply (emb_shift R C R_pos C_pos p' q'); [apply of_list_supp; assumption|lia..].
Qed.

(* ---------- the glider ---------- *)
Lemma chk01 : step_check 3 3 G0 G1 3 3 2 1 = true. Proof. vm_compute. reflexivity. Qed.
Lemma chk12 : step_check 3 3 G1 G2 3 3 1 1 = true. Proof. vm_compute. reflexivity. Qed.
Lemma chk23 : step_check 3 3 G2 G3 3 3 1 2 = true. Proof. vm_compute. reflexivity. Qed.
Lemma chk30 : step_check 3 3 G3 G0 3 3 1 1 = true. Proof. vm_compute. reflexivity. Qed.

(* the four phases, each for every torus with R, C >= 5 and every placement (a, b) in Z x Z (so also
   placements that straddle the periodic boundary) *)
Lemma glider_phase1 R C a b : 5 <= R -> 5 <= C ->
  tstep R C (emb R C a b (of_list G0)) == emb R C (a + 1) b (of_list G1).
Proof.
  intros HR HC i j.
  rewrite (torus_pattern_step R C 3 3 G0 G1 3 3 2 1 a b chk01 ltac:(lia) ltac:(lia) ltac:(lia) ltac:(lia) i j).
  replace (a - 1 + 2) with (a + 1) by ring. replace (b - 1 + 1) with b by ring. reflexivity.
Qed.
Lemma glider_phase2 R C a b : 5 <= R -> 5 <= C ->
  tstep R C (emb R C a b (of_list G1)) == emb R C a b (of_list G2).
Proof.
  intros HR HC i j.
  rewrite (torus_pattern_step R C 3 3 G1 G2 3 3 1 1 a b chk12 ltac:(lia) ltac:(lia) ltac:(lia) ltac:(lia) i j).
  replace (a - 1 + 1) with a by ring. replace (b - 1 + 1) with b by ring. reflexivity.
Qed.
Lemma glider_phase3 R C a b : 5 <= R -> 5 <= C ->
  tstep R C (emb R C a b (of_list G2)) == emb R C a (b + 1) (of_list G3).
Proof.
  intros HR HC i j.
  rewrite (torus_pattern_step R C 3 3 G2 G3 3 3 1 2 a b chk23 ltac:(lia) ltac:(lia) ltac:(lia) ltac:(lia) i j).
  replace (a - 1 + 1) with a by ring. replace (b - 1 + 2) with (b + 1) by ring. reflexivity.
Qed.
Lemma glider_phase4 R C a b : 5 <= R -> 5 <= C ->
  tstep R C (emb R C a b (of_list G3)) == emb R C a b (of_list G0).
Proof.
  intros HR HC i j.
  rewrite (torus_pattern_step R C 3 3 G3 G0 3 3 1 1 a b chk30 ltac:(lia) ltac:(lia) ltac:(lia) ltac:(lia) i j).
  replace (a - 1 + 1) with a by ring. replace (b - 1 + 1) with b by ring. reflexivity.
Qed.

Theorem glider_period4 R C a b : 5 <= R -> 5 <= C ->
  tstep R C (tstep R C (tstep R C (tstep R C (emb R C a b (of_list G0)))))
  == emb R C (a + 1) (b + 1) (of_list G0).
Proof.
  intros HR HC.
  eapply peq_trans. { apply tstep_ext, tstep_ext, tstep_ext. apply glider_phase1; assumption. }
  eapply peq_trans. { apply tstep_ext, tstep_ext. apply glider_phase2; assumption. }
  eapply peq_trans. { apply tstep_ext. apply glider_phase3; assumption. }
  apply glider_phase4; assumption.
Qed.

(* ---------- the block (still life) and the blinker (period 2) ---------- *)
Lemma chk_blk : step_check 2 2 BLK BLK 2 2 1 1 = true. Proof. vm_compute. reflexivity. Qed.
Lemma chk_hv : step_check 1 3 BH BV 3 1 0 2 = true. Proof. vm_compute. reflexivity. Qed.
Lemma chk_vh : step_check 3 1 BV BH 1 3 2 0 = true. Proof. vm_compute. reflexivity. Qed.

Theorem block_still R C a b : 4 <= R -> 4 <= C ->
  tstep R C (emb R C a b (of_list BLK)) == emb R C a b (of_list BLK).
Proof.
  intros HR HC i j.
  rewrite (torus_pattern_step R C 2 2 BLK BLK 2 2 1 1 a b chk_blk ltac:(lia) ltac:(lia) ltac:(lia) ltac:(lia) i j).
  replace (a - 1 + 1) with a by ring. replace (b - 1 + 1) with b by ring. reflexivity.
Qed.

Lemma blinker_phase1 R C a b : 3 <= R -> 5 <= C ->
  tstep R C (emb R C a b (of_list BH)) == emb R C (a - 1) (b + 1) (of_list BV).
Proof.
  intros HR HC i j.
  rewrite (torus_pattern_step R C 1 3 BH BV 3 1 0 2 a b chk_hv ltac:(lia) ltac:(lia) ltac:(lia) ltac:(lia) i j).
  replace (a - 1 + 0) with (a - 1) by ring. replace (b - 1 + 2) with (b + 1) by ring. reflexivity.
Qed.
Lemma blinker_phase2 R C a b : 5 <= R -> 3 <= C ->
  tstep R C (emb R C a b (of_list BV)) == emb R C (a + 1) (b - 1) (of_list BH).
Proof.
  intros HR HC i j.
  rewrite (torus_pattern_step R C 3 1 BV BH 1 3 2 0 a b chk_vh ltac:(lia) ltac:(lia) ltac:(lia) ltac:(lia) i j).
  replace (a - 1 + 2) with (a + 1) by ring. replace (b - 1 + 0) with (b - 1) by ring. reflexivity.
Qed.

Theorem blinker_period_2 R C a b : 5 <= R -> 5 <= C ->
  tstep R C (tstep R C (emb R C a b (of_list BH))) == emb R C a b (of_list BH).
Proof.
  intros HR HC.
  eapply peq_trans. { apply tstep_ext. apply blinker_phase1; lia. }
  intros i j. rewrite (blinker_phase2 R C (a - 1) (b + 1) ltac:(lia) ltac:(lia) i j).
  replace (a - 1 + 1) with a by ring. replace (b + 1 - 1) with b by ring. reflexivity.
Qed.

(* and it does move in between: the blinker is not a still life *)
Lemma blinker_not_still : exists i j, emb 5 5 0 0 (of_list BH) i j <> tstep 5 5 (emb 5 5 0 0 (of_list BH)) i j.
Proof. exists 0, 0. vm_compute. discriminate. Qed.

(* ================================================================ 3. shift equivariance *)

(* if g read around (x, y) is f read around (i, j), the plane step agrees there *)
Lemma pstep_transport f g i j x y : (forall di dj, f (i + di) (j + dj) = g (x + di) (y + dj)) ->
  pstep f i j = pstep g x y.
Proof.
  intros H. unfold pstep, cnt8.
  pose proof (H (-1) (-1)) as A1. pose proof (H (-1) 0) as A2. pose proof (H (-1) 1) as A3.
  pose proof (H 0 (-1)) as A4. pose proof (H 0 0) as A5. pose proof (H 0 1) as A6.
  pose proof (H 1 (-1)) as A7. pose proof (H 1 0) as A8. pose proof (H 1 1) as A9.
  rewrite !Z.add_0_r in A2. rewrite !Z.add_0_r in A4. rewrite !Z.add_0_r in A5.
  rewrite !Z.add_0_r in A6. rewrite !Z.add_0_r in A8.
  change (i + -1) with (i - 1) in *. change (j + -1) with (j - 1) in *.
  change (x + -1) with (x - 1) in *. change (y + -1) with (y - 1) in *.
  rewrite A1, A2, A3, A4, A5, A6, A7, A8, A9. reflexivity.
Qed.

(* The torus Life update commutes with cyclic translation by ANY (da, db), on EVERY torus:
   no size hypothesis is needed.  (emb R C da db t is np.roll(t, (da, db), axis=(0, 1)).) *)
Theorem life_shift_equivariant R C da db t :
  tstep R C (emb R C da db t) == emb R C da db (tstep R C t).
Proof.
  intros i j. unfold tstep at 1. unfold emb at 2. unfold tstep.
  apply pstep_transport. intros di dj. rewrite ext_emb. unfold ext.
  rewrite (Zplus_mod_idemp_l (i - da) di R), (Zplus_mod_idemp_l (j - db) dj C).
  replace (i + di - da) with (i - da + di) by ring. replace (j + dj - db) with (j - db + dj) by ring.
  reflexivity.
Qed.

Lemma iter_ext {A} (Req : A -> A -> Prop) (f : A -> A) :
  (forall x y, Req x y -> Req (f x) (f y)) -> forall n x y, Req x y -> Req (iter n f x) (iter n f y).
Proof. intros Hf n. induction n as [|n IH]; intros x y H; cbn [iter]; auto. Qed.

Lemma iter_tstep_ext R C n f g : f == g -> iter n (tstep R C) f == iter n (tstep R C) g.
Proof. apply (iter_ext peq). intros x y. apply tstep_ext. Qed.

Lemma iter_shift {A} (f : A -> A) n x : iter n f (f x) = f (iter n f x).
Proof. induction n as [|n IH]; cbn [iter]; [reflexivity|]. rewrite IH. reflexivity. Qed.

Corollary life_shift_equivariant_iter R C da db n t :
  iter n (tstep R C) (emb R C da db t) == emb R C da db (iter n (tstep R C) t).
Proof.
  induction n as [|n IH]; cbn [iter]; [apply peq_refl|].
  eapply peq_trans; [apply tstep_ext; exact IH|]. apply life_shift_equivariant.
Qed.

(* ================================================================ 4. the bridge to the engine *)
(* Model/Evolve2D.v's memoize=False engine, run with the rule above at r = 1 / Moore, computes the
   functional torus step.  The neighbourhood part is C02 (Proofs/Evolve2DProofs.v:
   get_neighbourhood_spec, packaged as step_plain2d_pure); what is added here is that the torus
   block of a binary grid, fed to the code's case analysis, is `life` of the periodic extension. *)
From CPL Require Import Proofs.Evolve2DProofs.

Definition binary_grid (g : grid) : Prop := Forall (Forall bit) g.

Lemma b2z_bit b : bit (b2z b).
Proof. destruct b; [right|left]; reflexivity. Qed.

Lemma bit_b2z x : bit x -> x = b2z (x =? 1).
Proof. intros [->| ->]; reflexivity. Qed.

Lemma binary_nth g i j : binary_grid g -> bit (nth j (nth i g []) 0).
Proof.
  intros Hb. destruct (nth_in_or_default i g []) as [Hin|E].
  - unfold binary_grid in Hb. rewrite Forall_forall in Hb. specialize (Hb _ Hin).
    destruct (nth_in_or_default j (nth i g []) 0) as [Hin2|E2]; [|rewrite E2; left; reflexivity].
    rewrite Forall_forall in Hb. apply Hb. exact Hin2.
  - rewrite E. destruct j; left; reflexivity.
Qed.

(* entry (a, b) of the radius-1 torus block, as Model/Evolve2D.torus_block has it *)
Definition tb_entry (g : grid) (R C row col a b : nat) : Z :=
  nth ((col + b + C - 1) mod C) (nth ((row + a + R - 1) mod R) g []) 0.

Lemma torus_block_r1 g R C row col : wf_grid R C g -> (1 <= R)%nat ->
  torus_block g row col 1 =
  [[tb_entry g R C row col 0 0; tb_entry g R C row col 0 1; tb_entry g R C row col 0 2];
   [tb_entry g R C row col 1 0; tb_entry g R C row col 1 1; tb_entry g R C row col 1 2];
   [tb_entry g R C row col 2 0; tb_entry g R C row col 2 1; tb_entry g R C row col 2 2]].
Proof.
  intros Hwf HR. unfold torus_block. cbv zeta.
  rewrite (wf_grid_rows R C g Hwf), (wf_grid_cols R C g HR Hwf). reflexivity.
Qed.

Lemma unmasked_nomask3 a0 a1 a2 a3 a4 a5 a6 a7 a8 :
  unmasked {| nb_vals := [[a0; a1; a2]; [a3; a4; a5]; [a6; a7; a8]]; nb_mask := mask_of Moore 1 |}
  = [a0; a1; a2; a3; a4; a5; a6; a7; a8].
Proof. reflexivity. Qed.

(* with an all-False 3x3 mask the neighbourhood object and the bare block give the same answer *)
Lemma gol_rule_nb_plain a0 a1 a2 a3 a4 a5 a6 a7 a8 :
  gol_rule_nb {| nb_vals := [[a0; a1; a2]; [a3; a4; a5]; [a6; a7; a8]]; nb_mask := no_mask 1 |}
  = gol_rule [[a0; a1; a2]; [a3; a4; a5]; [a6; a7; a8]].
Proof. reflexivity. Qed.

Lemma wrap_nat_Z n x a : (1 <= n)%nat -> (a <= 2)%nat ->
  Z.to_nat ((Z.of_nat x + (Z.of_nat a - 1)) mod Z.of_nat n) = ((x + a + n - 1) mod n)%nat.
Proof.
  intros Hn Ha. apply Nat2Z.inj. rewrite Z2Nat.id by (apply Z.mod_pos_bound; lia).
  rewrite Nat2Z.inj_mod.
  replace (Z.of_nat (x + a + n - 1)) with ((Z.of_nat x + (Z.of_nat a - 1)) + 1 * Z.of_nat n) by lia.
  symmetry. apply Z_mod_plus_full.
Qed.

Lemma cell_read g R C row col a b : binary_grid g -> (1 <= R)%nat -> (1 <= C)%nat -> (a <= 2)%nat -> (b <= 2)%nat ->
  tb_entry g R C row col a b
  = b2z (ext (Z.of_nat R) (Z.of_nat C) (plane_of_grid g)
             (Z.of_nat row + (Z.of_nat a - 1)) (Z.of_nat col + (Z.of_nat b - 1))).
Proof.
  intros Hb HR HC Ha Hbb. unfold ext, plane_of_grid, tb_entry.
  rewrite (wrap_nat_Z R row a HR Ha), (wrap_nat_Z C col b HC Hbb).
  apply bit_b2z, binary_nth. exact Hb.
Qed.

Lemma gol_cell g R C row col : wf_grid R C g -> binary_grid g -> (1 <= R)%nat -> (1 <= C)%nat ->
  match gol_rule_nb {| nb_vals := torus_block g row col 1; nb_mask := mask_of Moore 1 |} with
  | Some v => v | None => gol_sentinel end
  = b2z (tstep (Z.of_nat R) (Z.of_nat C) (plane_of_grid g) (Z.of_nat row) (Z.of_nat col)).
Proof.
  intros Hwf Hb HR HC.
  rewrite (torus_block_r1 g R C row col Hwf HR).
  unfold gol_rule_nb. rewrite unmasked_nomask3. cbn [nb_vals]. unfold gol_centre. cbn [nth].
  rewrite (cell_read g R C row col 0 0 Hb HR HC) by lia. rewrite (cell_read g R C row col 0 1 Hb HR HC) by lia.
  rewrite (cell_read g R C row col 0 2 Hb HR HC) by lia. rewrite (cell_read g R C row col 1 0 Hb HR HC) by lia.
  rewrite (cell_read g R C row col 1 1 Hb HR HC) by lia. rewrite (cell_read g R C row col 1 2 Hb HR HC) by lia.
  rewrite (cell_read g R C row col 2 0 Hb HR HC) by lia. rewrite (cell_read g R C row col 2 1 Hb HR HC) by lia.
  rewrite (cell_read g R C row col 2 2 Hb HR HC) by lia.
  change (Z.of_nat 0 - 1) with (-1). change (Z.of_nat 1 - 1) with 0. change (Z.of_nat 2 - 1) with 1.
  rewrite !Z.add_0_r.
  set (i := Z.of_nat row). set (j := Z.of_nat col).
  change (i + -1) with (i - 1). change (j + -1) with (j - 1).
  unfold tstep, pstep. set (P := ext (Z.of_nat R) (Z.of_nat C) (plane_of_grid g)).
  replace (zsum [b2z (P (i - 1) (j - 1)); b2z (P (i - 1) j); b2z (P (i - 1) (j + 1));
                 b2z (P i (j - 1)); b2z (P i j); b2z (P i (j + 1));
                 b2z (P (i + 1) (j - 1)); b2z (P (i + 1) j); b2z (P (i + 1) (j + 1))])
    with (b2z (P i j) + cnt8 P i j) by (unfold cnt8; cbv [zsum fold_right]; ring).
  rewrite gol_case_life. reflexivity.
Qed.

(* THE BRIDGE.  Guard: r = 1 <= min(R, C), i.e. at least one row and one column (on smaller arrays
   the index lists of _get_neighbourhood_indices leave the array).  For a well-shaped R x C grid of
   0/1 states, one memoize=False step of evolve2d with game_of_life_rule, r = 1, Moore, is the
   tabulation of the functional torus Life step of the grid read as a periodic plane; the rule state
   is unit and t is irrelevant. *)
Theorem life_step_torus : forall R C g t, (1 <= R)%nat -> (1 <= C)%nat -> wf_grid R C g -> binary_grid g ->
  step_plain2d gol_as_rule2 store_id 1 Moore tt g t
  = (tt, grid_of_plane R C (tstep (Z.of_nat R) (Z.of_nat C) (plane_of_grid g))).
Proof.
  intros R C g t HR HC Hwf Hb.
  assert (E : snd (step_plain2d gol_as_rule2 store_id 1 Moore tt g t)
              = grid_of_plane R C (tstep (Z.of_nat R) (Z.of_nat C) (plane_of_grid g))).
  { change gol_as_rule2 with
      (fun (u : unit) (n : nbhd2) (c : nat * nat) (t : nat) =>
         (u, (fun n => match gol_rule_nb n with Some v => v | None => gol_sentinel end) n)).
    rewrite (step_plain2d_pure _ store_id g R C 1 Moore t Hwf HR HC) by lia.
    unfold grid_of_plane. apply map_ext_in. intros row _. apply map_ext_in. intros col _.
    unfold store_id. apply gol_cell; assumption. }
  destruct (step_plain2d gol_as_rule2 store_id 1 Moore tt g t) as [[] g']. cbn [snd] in E. rewrite E. reflexivity.
Qed.

(* ---------- tabulation round trips ---------- *)
Lemma grid_of_plane_wf R C f : wf_grid R C (grid_of_plane R C f).
Proof.
  unfold grid_of_plane. split; [rewrite map_length, seq_length; reflexivity|].
  apply Forall_forall. intros x Hin. apply in_map_iff in Hin as (i & <- & _).
  rewrite map_length, seq_length. reflexivity.
Qed.

Lemma grid_of_plane_binary R C f : binary_grid (grid_of_plane R C f).
Proof.
  unfold grid_of_plane, binary_grid. apply Forall_forall. intros x Hin. apply in_map_iff in Hin as (i & <- & _).
  apply Forall_forall. intros y Hin. apply in_map_iff in Hin as (j & <- & _). apply b2z_bit.
Qed.

Lemma grid_of_plane_rows R C f : grid_rows (grid_of_plane R C f) = R.
Proof. apply (wf_grid_rows R C), grid_of_plane_wf. Qed.
Lemma grid_of_plane_cols R C f : (1 <= R)%nat -> grid_cols (grid_of_plane R C f) = C.
Proof. intros HR. apply (wf_grid_cols R C _ HR), grid_of_plane_wf. Qed.

Lemma grid_of_plane_ext R C f g : f == g -> grid_of_plane R C f = grid_of_plane R C g.
Proof.
  intros H. unfold grid_of_plane. apply map_ext. intros i. apply map_ext. intros j. rewrite H. reflexivity.
Qed.

Lemma plane_of_grid_of_plane R C f i j : 0 <= i < Z.of_nat R -> 0 <= j < Z.of_nat C ->
  plane_of_grid (grid_of_plane R C f) i j = f i j.
Proof.
  intros Hi Hj. unfold plane_of_grid, grid_of_plane.
  rewrite (nth_map_seq _ R (Z.to_nat i) []) by lia. rewrite (nth_map_seq _ C (Z.to_nat j) 0) by lia.
  rewrite !Z2Nat.id by lia. destruct (f i j); reflexivity.
Qed.

Lemma ext_roundtrip R C f : (1 <= R)%nat -> (1 <= C)%nat ->
  ext (Z.of_nat R) (Z.of_nat C) (plane_of_grid (grid_of_plane R C f)) == ext (Z.of_nat R) (Z.of_nat C) f.
Proof. intros HR HC i j. unfold ext. apply plane_of_grid_of_plane; apply Z.mod_pos_bound; lia. Qed.

Lemma tstep_roundtrip R C f : (1 <= R)%nat -> (1 <= C)%nat ->
  tstep (Z.of_nat R) (Z.of_nat C) (plane_of_grid (grid_of_plane R C f)) == tstep (Z.of_nat R) (Z.of_nat C) f.
Proof. intros HR HC. unfold tstep. apply pstep_ext, ext_roundtrip; assumption. Qed.

Lemma emb_roundtrip R C a b f : (1 <= R)%nat -> (1 <= C)%nat ->
  emb (Z.of_nat R) (Z.of_nat C) a b (plane_of_grid (grid_of_plane R C f)) == emb (Z.of_nat R) (Z.of_nat C) a b f.
Proof. intros HR HC i j. unfold emb. apply plane_of_grid_of_plane; apply Z.mod_pos_bound; lia. Qed.

(* the bridge, stated on the grid alone *)
Corollary life_step_torus_grid : forall g t, (1 <= grid_rows g)%nat -> (1 <= grid_cols g)%nat ->
  wf_grid (grid_rows g) (grid_cols g) g -> binary_grid g ->
  step_plain2d gol_as_rule2 store_id 1 Moore tt g t = (tt, life_step_grid g).
Proof. intros g t HR HC Hwf Hb. apply life_step_torus; assumption. Qed.

(* one engine step from a tabulated plane *)
Lemma life_step_plane R C Q t : (1 <= R)%nat -> (1 <= C)%nat ->
  step_plain2d gol_as_rule2 store_id 1 Moore tt (grid_of_plane R C Q) t
  = (tt, grid_of_plane R C (tstep (Z.of_nat R) (Z.of_nat C) Q)).
Proof.
  intros HR HC.
  rewrite (life_step_torus R C _ t HR HC (grid_of_plane_wf R C Q) (grid_of_plane_binary R C Q)).
  f_equal. apply grid_of_plane_ext, tstep_roundtrip; assumption.
Qed.

(* ================================================================ 5. evolve2d is iterated torus Life *)

Lemma life_iter_steps_plane R C : (1 <= R)%nat -> (1 <= C)%nat -> forall n Q t,
  iter_steps (step_plain2d gol_as_rule2 store_id 1 Moore) n tt (grid_of_plane R C Q) t
  = (tt, map (fun k => grid_of_plane R C (iter (S k) (tstep (Z.of_nat R) (Z.of_nat C)) Q)) (seq 0 n)).
Proof.
  intros HR HC n. induction n as [|n IH]; intros Q t; [reflexivity|].
  cbn [iter_steps]. rewrite (life_step_plane R C Q t HR HC). rewrite IH.
  cbn [seq map]. f_equal. f_equal. rewrite <- seq_shift, map_map. apply map_ext. intros k.
  cbn [iter]. rewrite iter_shift. reflexivity.
Qed.

Lemma life_iter_steps_grid R C g : (1 <= R)%nat -> (1 <= C)%nat -> wf_grid R C g -> binary_grid g -> forall n t,
  iter_steps (step_plain2d gol_as_rule2 store_id 1 Moore) n tt g t
  = (tt, map (fun k => grid_of_plane R C (iter (S k) (tstep (Z.of_nat R) (Z.of_nat C)) (plane_of_grid g))) (seq 0 n)).
Proof.
  intros HR HC Hwf Hb n t. destruct n as [|n]; [reflexivity|].
  cbn [iter_steps]. rewrite (life_step_torus R C g t HR HC Hwf Hb).
  rewrite (life_iter_steps_plane R C HR HC).
  cbn [seq map]. f_equal. f_equal. rewrite <- seq_shift, map_map. apply map_ext. intros k.
  cbn [iter]. rewrite iter_shift. reflexivity.
Qed.

(* evolve2d(ca, timesteps = T + 1, game_of_life_rule) (r = 1, Moore, memoize=False), for ANY R x C >= 1 x 1,
   ANY history whose last grid is a well-shaped 0/1 grid, ANY T: the history followed by the
   tabulations of the 1st .. T-th iterate of the functional torus Life step. *)
Theorem life_evolve_torus : forall R C hist T, (1 <= R)%nat -> (1 <= C)%nat ->
  wf_grid R C (last hist []) -> binary_grid (last hist []) ->
  life_evolve hist (S T) =
  Ok (tt, hist ++ map (fun k => grid_of_plane R C
                         (iter (S k) (tstep (Z.of_nat R) (Z.of_nat C)) (plane_of_grid (last hist [])))) (seq 0 T)).
Proof.
  intros R C hist T HR HC Hwf Hb. unfold life_evolve, evolve2d_plain, evolve_fixed.
  rewrite (life_iter_steps_grid R C _ HR HC Hwf Hb). reflexivity.
Qed.

(* the same when the last grid of the history is the tabulation of a plane Q *)
Lemma life_evolve_plane R C hist Q T : (1 <= R)%nat -> (1 <= C)%nat -> last hist [] = grid_of_plane R C Q ->
  life_evolve hist (S T) =
  Ok (tt, hist ++ map (fun k => grid_of_plane R C (iter (S k) (tstep (Z.of_nat R) (Z.of_nat C)) Q)) (seq 0 T)).
Proof.
  intros HR HC E. unfold life_evolve, evolve2d_plain, evolve_fixed. rewrite E.
  rewrite (life_iter_steps_plane R C HR HC). reflexivity.
Qed.

(* translation of the engine: one step of the rolled grid is the rolled step *)
Theorem life_shift_equivariant_engine : forall R C g da db t, (1 <= R)%nat -> (1 <= C)%nat ->
  wf_grid R C g -> binary_grid g ->
  step_plain2d gol_as_rule2 store_id 1 Moore tt (roll_grid da db g) t
  = (tt, roll_grid da db (snd (step_plain2d gol_as_rule2 store_id 1 Moore tt g t))).
Proof.
  intros R C g da db t HR HC Hwf Hb.
  rewrite (life_step_torus R C g t HR HC Hwf Hb). cbn [snd]. unfold roll_grid.
  rewrite (wf_grid_rows R C g Hwf), (wf_grid_cols R C g HR Hwf).
  rewrite grid_of_plane_rows, (grid_of_plane_cols R C _ HR).
  rewrite (life_step_plane R C _ t HR HC). f_equal. apply grid_of_plane_ext.
  eapply peq_trans; [apply life_shift_equivariant|].
  apply peq_sym, emb_roundtrip; assumption.
Qed.

(* ---------- the pattern corollaries, on the engine ---------- *)
Lemma map_const_repeat {A B} (x : B) (l : list A) : map (fun _ => x) l = repeat x (length l).
Proof. induction l as [|y l IH]; [reflexivity|]. cbn [map length repeat]. rewrite IH. reflexivity. Qed.

(* A glider placed ANYWHERE (a, b in Z: every placement, also across the periodic boundary) on ANY
   torus with R, C >= 5, evolved with evolve2d for 4 steps (timesteps = 5): the four phases, ending in
   the same glider shifted by (1, 1). *)
Theorem glider_engine : forall (R C : nat) (a b : Z), (5 <= R)%nat -> (5 <= C)%nat ->
  life_evolve [pattern_grid R C a b G0] 5 =
  Ok (tt, [pattern_grid R C a b G0; pattern_grid R C (a + 1) b G1; pattern_grid R C (a + 1) b G2;
           pattern_grid R C (a + 1) (b + 1) G3; pattern_grid R C (a + 1) (b + 1) G0]).
Proof.
  intros R C a b HR HC.
  assert (HRz : 5 <= Z.of_nat R) by lia. assert (HCz : 5 <= Z.of_nat C) by lia.
  rewrite (life_evolve_plane R C [pattern_grid R C a b G0] (emb (Z.of_nat R) (Z.of_nat C) a b (of_list G0)) 4 ltac:(lia) ltac:(lia) eq_refl).
  cbn [seq map app iter]. unfold pattern_grid.
  pose proof (glider_phase1 _ _ a b HRz HCz) as P1.
  pose proof (peq_trans _ _ _ (tstep_ext _ _ _ _ P1) (glider_phase2 _ _ (a + 1) b HRz HCz)) as P2.
  pose proof (peq_trans _ _ _ (tstep_ext _ _ _ _ P2) (glider_phase3 _ _ (a + 1) b HRz HCz)) as P3.
  pose proof (peq_trans _ _ _ (tstep_ext _ _ _ _ P3) (glider_phase4 _ _ (a + 1) (b + 1) HRz HCz)) as P4.
  rewrite (grid_of_plane_ext R C _ _ P4), (grid_of_plane_ext R C _ _ P3),
          (grid_of_plane_ext R C _ _ P2), (grid_of_plane_ext R C _ _ P1).
  reflexivity.
Qed.

(* in the words of the property: after four steps the glider reappears shifted by one cell diagonally *)
Corollary glider_period_4_shift_1_1 : forall (R C : nat) (a b : Z), (5 <= R)%nat -> (5 <= C)%nat ->
  exists g1 g2 g3, life_evolve [pattern_grid R C a b G0] 5 =
    Ok (tt, [pattern_grid R C a b G0; g1; g2; g3; pattern_grid R C (a + 1) (b + 1) G0]).
Proof. intros R C a b HR HC. do 3 eexists. apply glider_engine; assumption. Qed.

Lemma iter_block_still R C a b n : 4 <= R -> 4 <= C ->
  iter n (tstep R C) (emb R C a b (of_list BLK)) == emb R C a b (of_list BLK).
Proof.
  intros HR HC. induction n as [|n IH]; cbn [iter]; [apply peq_refl|].
  eapply peq_trans; [apply tstep_ext; exact IH|]. apply block_still; assumption.
Qed.

(* the 2x2 block, anywhere on any torus with R, C >= 4, for any number of steps: nothing changes *)
Theorem block_still_engine : forall (R C : nat) (a b : Z) (T : nat), (4 <= R)%nat -> (4 <= C)%nat ->
  life_evolve [pattern_grid R C a b BLK] (S T) = Ok (tt, repeat (pattern_grid R C a b BLK) (S T)).
Proof.
  intros R C a b T HR HC.
  rewrite (life_evolve_plane R C [pattern_grid R C a b BLK] (emb (Z.of_nat R) (Z.of_nat C) a b (of_list BLK)) T ltac:(lia) ltac:(lia) eq_refl).
  f_equal. f_equal. cbn [app repeat]. f_equal.
  rewrite (map_ext _ (fun _ => pattern_grid R C a b BLK)).
  - rewrite map_const_repeat, seq_length. reflexivity.
  - intros k. apply grid_of_plane_ext. apply (iter_block_still _ _ a b (S k)); lia.
Qed.

(* the blinker, anywhere on any torus with R, C >= 5: vertical after one step, back after two *)
Theorem blinker_engine : forall (R C : nat) (a b : Z), (5 <= R)%nat -> (5 <= C)%nat ->
  life_evolve [pattern_grid R C a b BH] 3 =
  Ok (tt, [pattern_grid R C a b BH; pattern_grid R C (a - 1) (b + 1) BV; pattern_grid R C a b BH]).
Proof.
  intros R C a b HR HC.
  assert (HRz : 5 <= Z.of_nat R) by lia. assert (HCz : 5 <= Z.of_nat C) by lia.
  rewrite (life_evolve_plane R C [pattern_grid R C a b BH] (emb (Z.of_nat R) (Z.of_nat C) a b (of_list BH)) 2 ltac:(lia) ltac:(lia) eq_refl).
  cbn [seq map app iter]. unfold pattern_grid.
  pose proof (blinker_phase1 (Z.of_nat R) (Z.of_nat C) a b ltac:(lia) HCz) as P1.
  pose proof (blinker_period_2 _ _ a b HRz HCz) as P2.
  rewrite (grid_of_plane_ext R C _ _ P2), (grid_of_plane_ext R C _ _ P1). reflexivity.
Qed.

(* the placed pattern is the rolled pattern: placement (a, b) = np.roll of placement (0, 0) *)
Lemma pattern_grid_roll R C a b cells : (1 <= R)%nat -> (1 <= C)%nat ->
  pattern_grid R C a b cells = roll_grid a b (pattern_grid R C 0 0 cells).
Proof.
  intros HR HC. unfold pattern_grid, roll_grid.
  rewrite grid_of_plane_rows, (grid_of_plane_cols R C _ HR).
  apply grid_of_plane_ext. apply peq_sym.
  eapply peq_trans; [apply emb_roundtrip; assumption|].
  intros i j. unfold emb. rewrite !Z.sub_0_r, !Z.mod_mod by lia. reflexivity.
Qed.

(* the boolean shape tests used by the correspondence and the examples reflect the hypotheses above *)
Lemma wf_gridb_true R C g : wf_gridb R C g = true -> wf_grid R C g.
Proof.
  unfold wf_gridb. intros H. apply andb_true_iff in H as [H1 H2]. split; [apply Nat.eqb_eq; exact H1|].
  apply Forall_forall. intros row Hin. rewrite forallb_forall in H2. apply Nat.eqb_eq, H2, Hin.
Qed.

Lemma binary_gridb_true g : binary_gridb g = true -> binary_grid g.
Proof.
  unfold binary_gridb, binary_grid. intros H. apply Forall_forall. intros row Hin.
  rewrite forallb_forall in H. specialize (H row Hin). apply Forall_forall. intros x Hx.
  rewrite forallb_forall in H. specialize (H x Hx). unfold bit. lia.
Qed.
