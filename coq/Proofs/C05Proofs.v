(* Step-level facts needed to read the Engine-level C05 theorems (Proofs/EngineProofs.v) for the four
   engines: the plain 1D / 2D steps and the block steps preserve the cell shape; with a rule that
   ignores t the plain steps ignore t and the block steps depend on t only through its parity. *)
From CPL Require Import Model.Base Model.Rules Model.Engine Model.Evolve1D Model.Evolve2D Model.Block
     Proofs.EngineProofs.
From Coq Require Import Lia.

(* ------------------------------------------------------------------ 1D plain step *)
Section Plain1D.
  Variable St : Type.
  Variable rule : rule1 St.
  Variable store : Z -> Z.

  Lemma apply_all_length : forall nbs s c t, length (snd (apply_all rule store s c nbs t)) = length nbs.
  Proof.
    induction nbs as [|n nbs IH]; intros s c t; [reflexivity|].
    cbn [apply_all]. destruct (rule s n c t) as [s1 v]. specialize (IH s1 (S c) t).
    destruct (apply_all rule store s1 (S c) nbs t) as [s2 vs]. cbn [snd length] in *. now rewrite IH.
  Qed.

  Lemma apply_all_t_indep : (forall s n c t t', rule s n c t = rule s n c t') ->
    forall nbs s c t t', apply_all rule store s c nbs t = apply_all rule store s c nbs t'.
  Proof.
    intros Ht. induction nbs as [|n nbs IH]; intros s c t t'; [reflexivity|].
    cbn [apply_all]. rewrite (Ht s n c t t'). destruct (rule s n c t') as [s1 v].
    now rewrite (IH s1 (S c) t t').
  Qed.

  Lemma step_plain_t_indep : (forall s n c t t', rule s n c t = rule s n c t') ->
    forall r s cells t t', step_plain rule store r s cells t = step_plain rule store r s cells t'.
  Proof. intros Ht r s cells t t'. unfold step_plain. now apply apply_all_t_indep. Qed.

  Lemma index_strides_length : forall N r, 1 <= r <= N -> length (index_strides N r) = N.
  Proof.
    intros N r Hr. unfold index_strides, windows, ext_idx, py_last.
    rewrite map_length, seq_length, !app_length, seq_length.
    destruct (r =? 0) eqn:E0; [apply Nat.eqb_eq in E0; lia|].
    destruct (N <? r) eqn:E1; [apply Nat.ltb_lt in E1; lia|].
    cbn [orb]. rewrite skipn_length, firstn_length, !seq_length. lia.
  Qed.

  Lemma step_plain_length : forall r s cells t, 1 <= r <= length cells ->
    length (snd (step_plain rule store r s cells t)) = length cells.
  Proof.
    intros r s cells t Hr. unfold step_plain. rewrite apply_all_length.
    unfold neighbourhoods. rewrite map_length. now apply index_strides_length.
  Qed.
End Plain1D.

(* ------------------------------------------------------------------ 2D plain step *)
Definition grid_shape (R C : nat) (g : grid) : Prop := length g = R /\ Forall (fun row => length row = C) g.

Section Plain2D.
  Variable St : Type.
  Variable rule : rule2 St.
  Variable store : Z -> Z.

  Lemma apply_cols_length : forall g R C r ty row cols s t,
    length (snd (apply_cols rule store s g R C r ty row cols t)) = length cols.
  Proof.
    intros g R C r ty row. induction cols as [|col cols IH]; intros s t; [reflexivity|].
    cbn [apply_cols]. destruct (rule s _ (row, col) t) as [s1 v]. specialize (IH s1 t).
    destruct (apply_cols rule store s1 g R C r ty row cols t) as [s2 vs]. cbn [snd length] in *. now rewrite IH.
  Qed.

  Lemma apply_rows_shape : forall g R C r ty rows s t,
    grid_shape (length rows) C (snd (apply_rows rule store s g R C r ty rows t)).
  Proof.
    intros g R C r ty. induction rows as [|row rows IH]; intros s t; [split; [reflexivity|constructor]|].
    cbn [apply_rows]. pose proof (apply_cols_length g R C r ty row (seq 0 C) s t) as L.
    destruct (apply_cols rule store s g R C r ty row (seq 0 C) t) as [s1 vs]. specialize (IH s1 t).
    destruct (apply_rows rule store s1 g R C r ty rows t) as [s2 rest]. cbn [snd] in *.
    destruct IH as [IH1 IH2]. split; [cbn [length]; now rewrite IH1|].
    constructor; [now rewrite L, seq_length|exact IH2].
  Qed.

  (* a grid of shape R x C (R >= 1, or the empty grid) is followed by a grid of the same shape *)
  Lemma step_plain2d_shape : forall R C r ty s g t, (R = 0 -> C = 0) -> grid_shape R C g ->
    grid_shape R C (snd (step_plain2d rule store r ty s g t)).
  Proof.
    intros R C r ty s g t H0 [HR HC]. subst R. unfold step_plain2d, grid_rows, grid_cols.
    pose proof (apply_rows_shape g (length g) (length (hd [] g)) r ty (seq 0 (length g)) s t) as S.
    rewrite seq_length in S.
    assert (E : length (hd [] g) = C).
    { destruct g as [|row g]; [cbn [hd length]; symmetry; now apply H0|]. cbn [hd]. now inversion HC. }
    rewrite E in S. rewrite E. exact S.
  Qed.

  Lemma apply_cols_t_indep : (forall s n c t t', rule s n c t = rule s n c t') ->
    forall g R C r ty row cols s t t',
    apply_cols rule store s g R C r ty row cols t = apply_cols rule store s g R C r ty row cols t'.
  Proof.
    intros Ht g R C r ty row. induction cols as [|col cols IH]; intros s t t'; [reflexivity|].
    cbn [apply_cols]. rewrite (Ht s _ (row, col) t t'). destruct (rule s _ (row, col) t') as [s1 v].
    now rewrite (IH s1 t t').
  Qed.

  Lemma apply_rows_t_indep : (forall s n c t t', rule s n c t = rule s n c t') ->
    forall g R C r ty rows s t t',
    apply_rows rule store s g R C r ty rows t = apply_rows rule store s g R C r ty rows t'.
  Proof.
    intros Ht g R C r ty. induction rows as [|row rows IH]; intros s t t'; [reflexivity|].
    cbn [apply_rows]. rewrite (apply_cols_t_indep Ht g R C r ty row (seq 0 C) s t t').
    destruct (apply_cols rule store s g R C r ty row (seq 0 C) t') as [s1 vs]. now rewrite (IH s1 t t').
  Qed.

  Lemma step_plain2d_t_indep : (forall s n c t t', rule s n c t = rule s n c t') ->
    forall r ty s g t t', step_plain2d rule store r ty s g t = step_plain2d rule store r ty s g t'.
  Proof. intros Ht r ty s g t t'. unfold step_plain2d. now apply apply_rows_t_indep. Qed.
End Plain2D.

(* ------------------------------------------------------------------ block steps: parity of t only *)
Lemma mod2_SS : forall t, S (S t) mod 2 = t mod 2.
Proof.
  intros t. replace (S (S t)) with (t + 1 * 2) by lia. apply Nat.mod_add. lia.
Qed.

Section Block1D.
  Variable St : Type.
  Variable rule : block_rule St.
  Variable store : Z -> Z.

  Lemma apply_blocks_t_indep : (forall s blk t t', rule s blk t = rule s blk t') ->
    forall strides s cells arr t t',
    apply_blocks rule store s cells arr strides t = apply_blocks rule store s cells arr strides t'.
  Proof.
    intros Ht. induction strides as [|st strides IH]; intros s cells arr t t'; [reflexivity|].
    cbn [apply_blocks]. rewrite (Ht s _ t t'). destruct (rule s (gather cells st) t') as [s1 res].
    apply IH.
  Qed.

  Lemma step_block_parity : (forall s blk t t', rule s blk t = rule s blk t') ->
    forall b s cells t, step_block rule store b s cells (S (S t)) = step_block rule store b s cells t.
  Proof.
    intros Ht b s cells t. unfold step_block, blocks_at. rewrite mod2_SS. now apply apply_blocks_t_indep.
  Qed.

  (* the guards of evolve_block are a function of b and the last row only *)
  Lemma evolve_block_ok_inv : forall b s0 hist T s' out,
    evolve_block rule store b s0 hist T = Ok (s', out) ->
    hist <> [] /\ evolve_fixed [] (step_block rule store b) s0 hist T = Ok (s', out).
  Proof.
    intros b s0 hist T s' out H. unfold evolve_block in H.
    destruct hist as [|h hist]; [discriminate H|]. split; [discriminate|].
    destruct (b =? 0); [discriminate H|].
    destruct (negb (length (last (h :: hist) []) mod b =? 0)); [discriminate H|].
    destruct (length (last (h :: hist) []) =? 0); [discriminate H|]. exact H.
  Qed.

  Lemma evolve_block_extends : forall b s0 hist T s' out,
    evolve_block rule store b s0 hist T = Ok (s', out) ->
    exists rows, out = hist ++ rows /\ length rows = T - 1 /\
      forall hist', hist' <> [] -> last hist' [] = last hist [] ->
        evolve_block rule store b s0 hist' T = Ok (s', hist' ++ rows).
  Proof.
    intros b s0 hist T s' out H. pose proof H as H'. apply evolve_block_ok_inv in H'. destruct H' as [Hne Hf].
    destruct (evolve_extends _ _ _ _ _ _ _ _ _ Hf) as [rows [-> Hl]].
    exists rows. split; [reflexivity|]. split; [exact Hl|].
    intros hist' Hne' HL.
    assert (F' : evolve_fixed [] (step_block rule store b) s0 hist' T = Ok (s', hist' ++ rows)).
    { destruct T as [|k]; [discriminate Hf|]. rewrite evolve_fixed_unfold in Hf |- *. rewrite HL.
      injection Hf as <- E. apply app_inv_head in E. now rewrite E. }
    unfold evolve_block in H |- *.
    destruct hist as [|h hist]; [congruence|]. destruct hist' as [|h' hist']; [congruence|].
    rewrite HL. remember (last (h :: hist) []) as lst.
    destruct (b =? 0); [discriminate H|].
    destruct (negb (length lst mod b =? 0)); [discriminate H|].
    destruct (length lst =? 0); [discriminate H|]. exact F'.
  Qed.

  Lemma evolve_block_split : (forall s blk t t', rule s blk t = rule s blk t') ->
    forall b s0 hist T1 T2 s1 out1 s2 out2,
    Nat.odd T1 = true -> 1 <= T2 ->
    evolve_block rule store b s0 hist T1 = Ok (s1, out1) ->
    evolve_block rule store b s1 out1 T2 = Ok (s2, out2) ->
    evolve_block rule store b s0 hist (T1 + T2 - 1) = Ok (s2, out2).
  Proof.
    intros Ht b s0 hist T1 T2 s1 out1 s2 out2 Hodd HT2 H1 H2.
    pose proof (evolve_block_ok_inv _ _ _ _ _ _ H1) as [Hne F1].
    pose proof (evolve_block_ok_inv _ _ _ _ _ _ H2) as [_ F2].
    pose proof (evolve_split_parity _ _ [] (step_block rule store b) (step_block_parity Ht b)
                  s0 hist T1 T2 s1 out1 s2 out2 Hne Hodd HT2 F1 F2) as F.
    unfold evolve_block in H1 |- *. destruct hist as [|h hist]; [congruence|].
    destruct (b =? 0); [discriminate H1|].
    destruct (negb (length (last (h :: hist) []) mod b =? 0)); [discriminate H1|].
    destruct (length (last (h :: hist) []) =? 0); [discriminate H1|]. exact F.
  Qed.
End Block1D.

Section Block2D.
  Variable St : Type.
  Variable rule : block_rule2 St.
  Variable store : Z -> Z.

  Lemma apply_blocks2_t_indep : (forall s blk t t', rule s blk t = rule s blk t') ->
    forall blocks s g arr t t',
    apply_blocks2 rule store s g arr blocks t = apply_blocks2 rule store s g arr blocks t'.
  Proof.
    intros Ht. induction blocks as [|rc blocks IH]; intros s g arr t t'; [reflexivity|].
    cbn [apply_blocks2]. rewrite (Ht s _ t t'). destruct (rule s (gather2 g rc) t') as [s1 v].
    destruct (bcast (length (fst rc)) (length (snd rc)) v); [apply IH|reflexivity].
  Qed.

  Lemma step_block2d_parity : (forall s blk t t', rule s blk t = rule s blk t') ->
    forall b1 b2 sb g t, step_block2d rule store b1 b2 sb g (S (S t)) = step_block2d rule store b1 b2 sb g t.
  Proof.
    intros Ht b1 b2 sb g t. unfold step_block2d, blocks2_at. rewrite mod2_SS.
    destruct (snd sb); [reflexivity|].
    now rewrite (apply_blocks2_t_indep Ht _ (fst sb) g _ (S (S t)) t).
  Qed.

  Lemma evolve2d_block_ok_inv : forall b1 b2 s0 hist T s' out,
    evolve2d_block rule store b1 b2 s0 hist T = Ok (s', out) ->
    hist <> [] /\ evolve_fixed [] (step_block2d rule store b1 b2) (s0, false) hist T = Ok ((s', false), out).
  Proof.
    intros b1 b2 s0 hist T s' out H. unfold evolve2d_block in H.
    destruct hist as [|h hist]; [discriminate H|]. split; [discriminate|].
    destruct (T =? 0); [discriminate H|].
    destruct ((b1 =? 0) || (b2 =? 0)); [discriminate H|].
    destruct (negb (rows_of (last (h :: hist) []) mod b1 =? 0) || negb (cols_of (last (h :: hist) []) mod b2 =? 0));
      [discriminate H|].
    destruct (evolve_fixed [] (step_block2d rule store b1 b2) (s0, false) (h :: hist) T) as [[[s bad] gs]|e];
      [|discriminate H].
    destruct bad; [discriminate H|]. injection H as <- <-. reflexivity.
  Qed.

  Lemma evolve2d_block_extends : forall b1 b2 s0 hist T s' out,
    evolve2d_block rule store b1 b2 s0 hist T = Ok (s', out) ->
    exists rows, out = hist ++ rows /\ length rows = T - 1.
  Proof.
    intros b1 b2 s0 hist T s' out H. apply evolve2d_block_ok_inv in H. destruct H as [_ Hf].
    exact (evolve_extends _ _ _ _ _ _ _ _ _ Hf).
  Qed.

  Lemma evolve2d_block_split : (forall s blk t t', rule s blk t = rule s blk t') ->
    forall b1 b2 s0 hist T1 T2 s1 out1 s2 out2,
    Nat.odd T1 = true -> 1 <= T2 ->
    evolve2d_block rule store b1 b2 s0 hist T1 = Ok (s1, out1) ->
    evolve2d_block rule store b1 b2 s1 out1 T2 = Ok (s2, out2) ->
    evolve2d_block rule store b1 b2 s0 hist (T1 + T2 - 1) = Ok (s2, out2).
  Proof.
    intros Ht b1 b2 s0 hist T1 T2 s1 out1 s2 out2 Hodd HT2 H1 H2.
    pose proof (evolve2d_block_ok_inv _ _ _ _ _ _ _ H1) as [Hne F1].
    pose proof (evolve2d_block_ok_inv _ _ _ _ _ _ _ H2) as [_ F2].
    pose proof (evolve_split_parity _ _ [] (step_block2d rule store b1 b2) (step_block2d_parity Ht b1 b2)
                  (s0, false) hist T1 T2 (s1, false) out1 (s2, false) out2 Hne Hodd HT2 F1 F2) as F.
    unfold evolve2d_block in H1 |- *. destruct hist as [|h hist]; [congruence|].
    assert (HT1 : T1 <> 0) by (intro Z0; subst T1; discriminate Hodd).
    assert (HT : (T1 + T2 - 1 =? 0) = false) by (apply Nat.eqb_neq; lia). rewrite HT.
    destruct (T1 =? 0); [discriminate H1|].
    destruct ((b1 =? 0) || (b2 =? 0)); [discriminate H1|].
    destruct (negb (rows_of (last (h :: hist) []) mod b1 =? 0) || negb (cols_of (last (h :: hist) []) mod b2 =? 0));
      [discriminate H1|].
    rewrite F. reflexivity.
  Qed.
End Block2D.

(* ------------------------------------------------------------------ the first sentence of C05, in one statement *)
Lemma evolve_extends_full : forall (X C : Type) (dflt : C) (step : X -> C -> nat -> X * C) (Inv : C -> Prop),
  (forall x c t, Inv c -> Inv (snd (step x c t))) ->
  forall x hist T x' out, evolve_fixed dflt step x hist T = Ok (x', out) ->
  exists rows, out = hist ++ rows /\ length rows = T - 1 /\ firstn (length hist) out = hist /\
    (Inv (last hist dflt) -> Forall Inv rows) /\
    (forall hist', last hist' dflt = last hist dflt -> evolve_fixed dflt step x hist' T = Ok (x', hist' ++ rows)).
Proof.
  intros X C dflt step Inv HI x hist T x' out H.
  pose proof (evolve_input_unchanged _ _ _ _ _ _ _ _ _ H) as Hun.
  destruct T as [|k]; [discriminate H|]. rewrite evolve_fixed_unfold in H. injection H as <- <-.
  eexists. split; [reflexivity|]. split; [rewrite iter_steps_length; lia|]. split; [exact Hun|]. split.
  - intros Hl. now apply iter_steps_invariant.
  - intros hist' HL. rewrite evolve_fixed_unfold, HL. reflexivity.
Qed.

Lemma evolve_plain_extends : forall (St : Type) (rule : rule1 St) (store : Z -> Z) r s0 (hist : list (list Z)) T s' out,
  evolve_plain rule store r s0 hist T = Ok (s', out) ->
  exists rows, out = hist ++ rows /\ length rows = T - 1 /\ firstn (length hist) out = hist /\
    (1 <= r <= length (last hist []) -> Forall (fun row => length row = length (last hist [])) rows) /\
    (forall hist', last hist' [] = last hist [] -> evolve_plain rule store r s0 hist' T = Ok (s', hist' ++ rows)).
Proof.
  intros St rule store r s0 hist T s' out H. unfold evolve_plain in *.
  destruct (Nat.le_gt_cases 1 r) as [Hr1|Hr1].
  - destruct (Nat.le_gt_cases r (length (last hist []))) as [Hr2|Hr2].
    + assert (HI : forall x c t, length c = length (last hist []) ->
                     length (snd (step_plain rule store r x c t)) = length (last hist [])).
      { intros x c t Hc. rewrite step_plain_length by lia. exact Hc. }
      destruct (evolve_extends_full St (list Z) [] (step_plain rule store r)
                  (fun row => length row = length (last hist [])) HI _ _ _ _ _ H)
        as [rows [E [L [U [I D]]]]].
      exists rows. split; [exact E|]. split; [exact L|]. split; [exact U|]. split; [|exact D].
      intros _. now apply I.
    + destruct (evolve_extends_full St (list Z) [] (step_plain rule store r) (fun _ => True)
                  ltac:(intros; exact Logic.I) _ _ _ _ _ H) as [rows [E [L [U [_ D]]]]].
      exists rows. split; [exact E|]. split; [exact L|]. split; [exact U|]. split; [|exact D]. intros Hr; lia.
  - destruct (evolve_extends_full St (list Z) [] (step_plain rule store r) (fun _ => True)
                ltac:(intros; exact Logic.I) _ _ _ _ _ H) as [rows [E [L [U [_ D]]]]].
    exists rows. split; [exact E|]. split; [exact L|]. split; [exact U|]. split; [|exact D]. intros Hr; lia.
Qed.

Lemma evolve2d_plain_extends : forall (St : Type) (rule : rule2 St) (store : Z -> Z) r ty s0 (hist : list grid) T s' out R C,
  evolve2d_plain rule store r ty s0 hist T = Ok (s', out) ->
  (R = 0 -> C = 0) ->
  exists rows, out = hist ++ rows /\ length rows = T - 1 /\ firstn (length hist) out = hist /\
    (length (last hist []) = R /\ Forall (fun row => length row = C) (last hist []) ->
     Forall (fun g => length g = R /\ Forall (fun row => length row = C) g) rows) /\
    (forall hist', last hist' [] = last hist [] -> evolve2d_plain rule store r ty s0 hist' T = Ok (s', hist' ++ rows)).
Proof.
  intros St rule store r ty s0 hist T s' out R C H H0. unfold evolve2d_plain in *.
  exact (evolve_extends_full St grid [] (step_plain2d rule store r ty) (grid_shape R C)
           (fun x c t Hc => step_plain2d_shape St rule store R C r ty x c t H0 Hc) _ _ _ _ _ H).
Qed.

Lemma evolve_plain_split : forall (St : Type) (rule : rule1 St) (store : Z -> Z),
  (forall s n c t t', rule s n c t = rule s n c t') ->
  forall r s0 (hist : list (list Z)) T1 T2 s1 out1 s2 out2,
  hist <> [] -> 1 <= T1 -> 1 <= T2 ->
  evolve_plain rule store r s0 hist T1 = Ok (s1, out1) ->
  evolve_plain rule store r s1 out1 T2 = Ok (s2, out2) ->
  evolve_plain rule store r s0 hist (T1 + T2 - 1) = Ok (s2, out2).
Proof.
  intros St rule store Ht r. unfold evolve_plain.
  apply (evolve_split St (list Z) [] (step_plain rule store r)).
  intros x c t t'. now apply step_plain_t_indep.
Qed.

Lemma evolve2d_plain_split : forall (St : Type) (rule : rule2 St) (store : Z -> Z),
  (forall s n c t t', rule s n c t = rule s n c t') ->
  forall r ty s0 (hist : list grid) T1 T2 s1 out1 s2 out2,
  hist <> [] -> 1 <= T1 -> 1 <= T2 ->
  evolve2d_plain rule store r ty s0 hist T1 = Ok (s1, out1) ->
  evolve2d_plain rule store r ty s1 out1 T2 = Ok (s2, out2) ->
  evolve2d_plain rule store r ty s0 hist (T1 + T2 - 1) = Ok (s2, out2).
Proof.
  intros St rule store Ht r ty. unfold evolve2d_plain.
  apply (evolve_split St grid [] (step_plain2d rule store r ty)).
  intros x c t t'. now apply step_plain2d_t_indep.
Qed.

(* ------------------------------------------------------------------ block engines keep the cell shape
   (no hypothesis on the block rule: a step starts from zeros of the input's shape and only updates cells) *)
Lemma upd_length {A} (l : list A) i v : length (upd l i v) = length l.
Proof. revert i. induction l as [|x l IH]; intros [|i]; cbn [upd length]; try reflexivity. now rewrite IH. Qed.

Lemma upd_Forall {A} (Q : A -> Prop) (l : list A) i v :
  Forall Q l -> (i < length l -> Q v) -> Forall Q (upd l i v).
Proof.
  revert i. induction l as [|x l IH]; intros [|i] HF Hv; cbn [upd]; try exact HF.
  - inversion HF; subst. constructor; [apply Hv; cbn [length]; lia|assumption].
  - inversion HF; subst. constructor; [assumption|]. apply IH; [assumption|]. intros Hi. apply Hv. cbn [length]. lia.
Qed.

Section BlockShape1D.
  Variable St : Type.
  Variable rule : block_rule St.
  Variable store : Z -> Z.

  Lemma scatter_length : forall stride res arr, length (scatter store arr stride res) = length arr.
  Proof.
    intros stride res arr. unfold scatter. generalize (combine stride res) as l. intros l. revert arr.
    induction l as [|ir l IH]; intros arr; [reflexivity|]. cbn [fold_left]. now rewrite IH, upd_length.
  Qed.

  Lemma apply_blocks_length : forall strides s cells arr t,
    length (snd (apply_blocks rule store s cells arr strides t)) = length arr.
  Proof.
    induction strides as [|st strides IH]; intros s cells arr t; [reflexivity|].
    cbn [apply_blocks]. destruct (rule s (gather cells st) t) as [s1 res]. now rewrite IH, scatter_length.
  Qed.

  Lemma step_block_length : forall b s cells t, length (snd (step_block rule store b s cells t)) = length cells.
  Proof. intros b s cells t. unfold step_block. now rewrite apply_blocks_length, repeat_length. Qed.

  Lemma evolve_block_shape : forall b s0 (hist : list (list Z)) T s' out,
    evolve_block rule store b s0 hist T = Ok (s', out) ->
    exists rows, out = hist ++ rows /\ length rows = T - 1 /\
      Forall (fun row => length row = length (last hist [])) rows.
  Proof.
    intros b s0 hist T s' out H. apply evolve_block_ok_inv in H. destruct H as [_ Hf].
    destruct (evolve_extends _ _ _ _ _ _ _ _ _ Hf) as [rows [E L]]. exists rows. split; [exact E|]. split; [exact L|].
    pose proof (evolve_rows_invariant _ _ [] (step_block rule store b) (fun row => length row = length (last hist []))
                  (fun x c t Hc => eq_trans (step_block_length b x c t) Hc) s0 hist T s' out eq_refl Hf) as I.
    subst out. rewrite skipn_app, skipn_all, Nat.sub_diag in I. exact I.
  Qed.
End BlockShape1D.

Section BlockShape2D.
  Variable St : Type.
  Variable rule : block_rule2 St.
  Variable store : Z -> Z.

  Lemma upd2_shape : forall R C g ij v, grid_shape R C g -> grid_shape R C (upd2 g ij v).
  Proof.
    intros R C g [i j] v [HR HC]. unfold upd2. cbn [fst snd]. split; [now rewrite upd_length|].
    apply upd_Forall; [exact HC|]. intros Hi. rewrite upd_length.
    rewrite Forall_forall in HC. apply HC. now apply nth_In.
  Qed.

  Lemma scatter2_shape : forall R C rc v arr, grid_shape R C arr -> grid_shape R C (scatter2 store arr rc v).
  Proof.
    intros R C rc v arr. unfold scatter2. generalize (combine (block_cells rc) (concat v)) as l. intros l. revert arr.
    induction l as [|kv l IH]; intros arr H; [exact H|]. cbn [fold_left]. apply IH. now apply upd2_shape.
  Qed.

  Lemma apply_blocks2_shape : forall R C blocks s g arr t, grid_shape R C arr ->
    grid_shape R C (snd (apply_blocks2 rule store s g arr blocks t)).
  Proof.
    intros R C. induction blocks as [|rc blocks IH]; intros s g arr t H; [exact H|].
    cbn [apply_blocks2]. destruct (rule s (gather2 g rc) t) as [s1 v].
    destruct (bcast (length (fst rc)) (length (snd rc)) v); [apply IH; now apply scatter2_shape|exact H].
  Qed.

  Lemma repeat_shape : forall R C, grid_shape R C (repeat (repeat 0%Z C) R).
  Proof.
    intros R C. split; [apply repeat_length|]. apply Forall_forall. intros row Hin.
    apply repeat_spec in Hin. subst row. apply repeat_length.
  Qed.

  Lemma step_block2d_shape : forall R C b1 b2 sb g t, grid_shape R C g ->
    grid_shape R C (snd (step_block2d rule store b1 b2 sb g t)).
  Proof.
    intros R C b1 b2 sb g t Hg. unfold step_block2d. destruct (snd sb); [exact Hg|].
    pose proof (apply_blocks2_shape (rows_of g) (cols_of g) (blocks2_at (rows_of g) (cols_of g) b1 b2 t) (fst sb) g
                  (repeat (repeat 0%Z (cols_of g)) (rows_of g)) t (repeat_shape _ _)) as S.
    destruct (apply_blocks2 rule store (fst sb) g (repeat (repeat 0%Z (cols_of g)) (rows_of g))
                (blocks2_at (rows_of g) (cols_of g) b1 b2 t) t) as [[s' bad] arr]. cbn [snd] in *.
    destruct Hg as [HR HC]. destruct S as [SR SC]. unfold rows_of, cols_of in *. split; [congruence|].
    destruct g as [|row g].
    - cbn [length] in *. destruct arr; [constructor|cbn [length] in SR; discriminate].
    - cbn [hd] in SC. inversion HC; subst. congruence.
  Qed.

  Lemma evolve2d_block_shape : forall b1 b2 s0 (hist : list grid2) T s' out R C,
    evolve2d_block rule store b1 b2 s0 hist T = Ok (s', out) ->
    length (last hist []) = R /\ Forall (fun row => length row = C) (last hist []) ->
    exists rows, out = hist ++ rows /\ length rows = T - 1 /\
      Forall (fun g => length g = R /\ Forall (fun row => length row = C) g) rows /\
      (forall hist' : list grid2, hist' <> [] -> @last grid2 hist' [] = last hist [] ->
         evolve2d_block rule store b1 b2 s0 hist' T = Ok (s', hist' ++ rows)).
  Proof.
    intros b1 b2 s0 hist T s' out R C H Hs. pose proof H as H'. apply evolve2d_block_ok_inv in H'. destruct H' as [Hne Hf].
    destruct (evolve_extends _ _ _ _ _ _ _ _ _ Hf) as [rows [E L]]. exists rows. split; [exact E|]. split; [exact L|]. split.
    - pose proof (evolve_rows_invariant _ _ [] (step_block2d rule store b1 b2) (grid_shape R C)
                    (fun x c t Hc => step_block2d_shape R C b1 b2 x c t Hc) (s0, false) hist T (s', false) out Hs Hf) as I.
      subst out. rewrite skipn_app, skipn_all, Nat.sub_diag in I. exact I.
    - intros hist' Hne' HL.
      assert (F' : evolve_fixed [] (step_block2d rule store b1 b2) (s0, false) hist' T = Ok ((s', false), hist' ++ rows)).
      { subst out. destruct T as [|k]; [discriminate Hf|].
        destruct (evolve_fixed_ok _ _ [] (step_block2d rule store b1 b2) (s0, false) hist' (S k) ltac:(lia)) as [x2 [rows2 [F2 _]]].
        destruct (evolve_rows_depend_on_last _ _ [] (step_block2d rule store b1 b2) (s0, false) hist hist' (S k)
                    _ _ _ _ (eq_sym HL) Hf F2) as [Ex [rows0 [E1 [E2 _]]]].
        apply app_inv_head in E1. apply app_inv_head in E2. subst rows0 rows2. rewrite F2, <- Ex. reflexivity. }
      unfold evolve2d_block in H |- *.
      destruct hist as [|h hist]; [congruence|]. destruct hist' as [|h' hist']; [congruence|].
      rewrite HL. remember (last (h :: hist) []) as lst.
      destruct (T =? 0); [discriminate H|].
      destruct ((b1 =? 0) || (b2 =? 0)); [discriminate H|].
      destruct (negb (rows_of lst mod b1 =? 0) || negb (cols_of lst mod b2 =? 0)); [discriminate H|].
      rewrite F'. reflexivity.
  Qed.
End BlockShape2D.

(* the witness of the refutation of the split law for even T1 on the block engines *)
Lemma block_split_even_refuted :
  exists (b : nat) (hist : list (list Z)) (T1 T2 : nat) s1 out1 s2 out2 s3 out3,
    Nat.even T1 = true /\ 1 <= T2 /\
    (forall s blk t t', spec_brule BRev s blk t = spec_brule BRev s blk t') /\
    evolve_block (spec_brule BRev) id_store b 0 hist T1 = Ok (s1, out1) /\
    evolve_block (spec_brule BRev) id_store b s1 out1 T2 = Ok (s2, out2) /\
    evolve_block (spec_brule BRev) id_store b 0 hist (T1 + T2 - 1) = Ok (s3, out3) /\
    out2 <> out3.
Proof.
  exists 2, [[1; 2; 3; 4]%Z], 2, 2. do 6 eexists.
  split; [reflexivity|]. split; [lia|]. split; [intros; reflexivity|].
  split; [vm_compute; reflexivity|]. split; [vm_compute; reflexivity|]. split; [vm_compute; reflexivity|].
  discriminate.
Qed.

(* ------------------------------------------------------------------ the callable-timesteps form also extends the history *)
Lemma evolve_dynamic_extends : forall (X P C : Type) (dflt : C) (step : X -> C -> nat -> X * C)
    (pred : P -> list C -> nat -> P * bool) fuel p0 x0 hist p x out plog,
  hist <> [] ->
  evolve_dynamic dflt step pred fuel p0 x0 hist = Some (p, x, out, plog) ->
  exists rows, out = hist ++ rows /\ length rows = length plog - 1 /\ firstn (length hist) out = hist /\
    (forall hist', hist' <> [] -> last hist' dflt = last hist dflt ->
       evolve_dynamic dflt step pred fuel p0 x0 hist' = Some (p, x, hist' ++ rows, plog)).
Proof.
  intros X P C dflt step pred fuel p0 x0 hist p x out plog Hne H.
  destruct (dynamic_complete _ _ _ _ _ _ _ _ _ _ _ _ _ _ H) as [k [ps [rows [Hk [Hit [H0 [Hyes [Hno [Ho Hp]]]]]]]]].
  exists rows. rewrite (removelast_last_app _ dflt hist rows Hne) in Ho. subst out.
  split; [reflexivity|]. split.
  - rewrite Hp, map_length, seq_length, (iter_steps_length' _ _ _ _ _ _ _ _ _ Hit). lia.
  - split; [rewrite firstn_app, firstn_all, Nat.sub_diag; cbn [firstn]; apply app_nil_r|].
    intros hist' Hne' HL. rewrite <- HL in Hit, Hyes, Hno, Hp.
    destruct (dynamic_spec _ _ _ dflt step pred k fuel p0 x0 hist' ps x rows p Hne' Hit H0 Hyes Hno Hk) as [D [A _]].
    rewrite D, A, Hp. reflexivity.
Qed.
