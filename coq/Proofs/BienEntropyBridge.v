(* C18: the entropy used by the BiEntropy model (`Model.Bien.shannon`, on binary strings) is the shared
   model of shannon_entropy of C16 (`Model.EntropyR.shannonR`) instantiated at bool.
   Kept in a file of its own so that the C18 development does not depend on the C16 files. *)
From Coq Require Import Reals List Bool.
From CPL Require Import Model.Base Model.EntropyExact Proofs.EntropyBounds Model.EntropyR.
From CPL Require Import Model.BienExact Model.Bien Proofs.BienProofs.

Theorem shannon_is_shannonR (s : list bool) : shannon s = shannonR Bool.bool_dec s.
Proof.
  rewrite shannonR_H. symmetry. apply shannon_keys_irrelevant. apply keys_symbols_of.
Qed.
Print Assumptions shannon_is_shannonR.
