(* C18, exact layer: the loops of binary_derivative / cyclic_binary_derivative equal their closed forms;
   lengths, element-wise characterisation, and the symmetry laws (complement, reversal, rotation).
   Everything here is discrete: closed under the global context. *)
From Coq Require Import List ZArith Lia Bool Arith.
From CPL Require Import Model.Base Model.BienExact.
Import ListNotations.

(* ------------------------------------------------------------------ closed form: xor_adjacent *)
Lemma xa_length s : length (xor_adjacent s) = length s - 1.
Proof.
  induction s as [|a t IH]; [reflexivity|]. destruct t as [|b t']; [reflexivity|].
  change (xor_adjacent (a :: b :: t')) with (xorb a b :: xor_adjacent (b :: t')).
  cbn [length] in *. lia.
Qed.

Lemma xa_nth s : forall i, i + 1 < length s ->
  nth i (xor_adjacent s) false = xorb (nth i s false) (nth (i + 1) s false).
Proof.
  induction s as [|a t IH]; intros i Hi; [cbn in Hi; lia|]. destruct t as [|b t']; [cbn in Hi; lia|].
  change (xor_adjacent (a :: b :: t')) with (xorb a b :: xor_adjacent (b :: t')).
  destruct i as [|i]; [reflexivity|].
  change (nth i (xor_adjacent (b :: t')) false = xorb (nth i (b :: t') false) (nth (i + 1) (b :: t') false)).
  apply IH. cbn [length] in *. lia.
Qed.

Lemma skipn_nth_cons {A} (d : A) : forall (l : list A) i, i < length l -> skipn i l = nth i l d :: skipn (S i) l.
Proof.
  induction l as [|x l IH]; intros i Hi; [cbn in Hi; lia|]. destruct i as [|i]; [reflexivity|].
  cbn [skipn nth]. apply IH. cbn in Hi. lia.
Qed.

(* the loop, started at index i with `acc` accumulated, appends the rest of the closed form *)
Lemma bd_loop_spec s : forall m i acc, i + m = length s ->
  bd_loop s (seq i m) acc = acc ++ skipn i (xor_adjacent s).
Proof.
  induction m as [|m IH]; intros i acc Him.
  - cbn. rewrite skipn_all2 by (rewrite xa_length; lia). rewrite app_nil_r. reflexivity.
  - cbn [seq bd_loop]. destruct (Z.of_nat i - 1 =? Z.of_nat (length s) - 2)%Z eqn:E.
    + apply Z.eqb_eq in E. rewrite skipn_all2 by (rewrite xa_length; lia). rewrite app_nil_r. reflexivity.
    + apply Z.eqb_neq in E. rewrite IH by lia.
      rewrite (skipn_nth_cons false (xor_adjacent s) i) by (rewrite xa_length; lia).
      rewrite xa_nth by lia. rewrite <- app_assoc. reflexivity.
Qed.

Theorem binary_derivative_spec s : binary_derivative s = xor_adjacent s.
Proof. unfold binary_derivative. rewrite bd_loop_spec by lia. reflexivity. Qed.

(* ------------------------------------------------------------------ closed form: cyclic *)
Lemma xac_length s : length (xor_adjacent_cyclic s) = length s.
Proof.
  destruct s as [|a t]; [reflexivity|]. unfold xor_adjacent_cyclic.
  rewrite xa_length, app_length. cbn [length]. lia.
Qed.

Theorem cyclic_binary_derivative_spec s : cyclic_binary_derivative s = xor_adjacent_cyclic s.
Proof.
  apply (nth_ext _ _ false false).
  - unfold cyclic_binary_derivative. rewrite map_length, seq_length, xac_length. reflexivity.
  - intros i Hi. unfold cyclic_binary_derivative in *. rewrite map_length, seq_length in Hi.
    set (f := fun i : nat => xorb _ _).
    rewrite (nth_indep _ false (f 0)) by (rewrite map_length, seq_length; exact Hi).
    rewrite map_nth, seq_nth by exact Hi. cbn [plus]. unfold f.
    destruct s as [|a t]; [cbn in Hi; lia|]. unfold xor_adjacent_cyclic.
    rewrite xa_nth by (rewrite app_length; cbn [length] in *; lia).
    rewrite (app_nth1 (a :: t) [a]) by exact Hi. f_equal.
    destruct (Z.of_nat i =? Z.of_nat (length (a :: t)) - 1)%Z eqn:E.
    + apply Z.eqb_eq in E. rewrite app_nth2 by lia.
      replace (i + 1 - length (a :: t)) with 0 by lia. reflexivity.
    + apply Z.eqb_neq in E. rewrite app_nth1 by lia. reflexivity.
Qed.

(* ------------------------------------------------------------------ lengths and elements, on the model *)
Theorem binary_derivative_length s : length (binary_derivative s) = length s - 1.
Proof. rewrite binary_derivative_spec. apply xa_length. Qed.

Theorem binary_derivative_nth s i : i + 1 < length s ->
  nth i (binary_derivative s) false = xorb (nth i s false) (nth (i + 1) s false).
Proof. rewrite binary_derivative_spec. apply xa_nth. Qed.

Theorem cyclic_binary_derivative_length s : length (cyclic_binary_derivative s) = length s.
Proof. rewrite cyclic_binary_derivative_spec. apply xac_length. Qed.

Theorem cyclic_binary_derivative_nth s i : i < length s ->
  nth i (cyclic_binary_derivative s) false = xorb (nth i s false) (nth ((i + 1) mod length s) s false).
Proof.
  intros Hi. unfold cyclic_binary_derivative.
  set (f := fun i : nat => xorb _ _).
  rewrite (nth_indep _ false (f 0)) by (rewrite map_length, seq_length; exact Hi).
  rewrite map_nth, seq_nth by exact Hi. cbn [plus]. unfold f. f_equal.
  destruct (Z.of_nat i =? Z.of_nat (length s) - 1)%Z eqn:E.
  - apply Z.eqb_eq in E. replace (i + 1) with (length s) by lia. rewrite Nat.mod_same by lia. reflexivity.
  - apply Z.eqb_neq in E. rewrite Nat.mod_small by lia. reflexivity.
Qed.

(* strings of length 0 and 1 *)
Theorem derivatives_short :
  binary_derivative [] = [] /\ cyclic_binary_derivative [] = [] /\
  forall a, binary_derivative [a] = [] /\ cyclic_binary_derivative [a] = [false].
Proof. split; [reflexivity|]. split; [reflexivity|]. intros a. split; [reflexivity|]. destruct a; reflexivity. Qed.

(* ------------------------------------------------------------------ snoc forms *)
Lemma xa_snoc : forall l y x, xor_adjacent (l ++ [y; x]) = xor_adjacent (l ++ [y]) ++ [xorb y x].
Proof.
  induction l as [|a l IH]; intros y x; [reflexivity|].
  destruct l as [|b l']; [reflexivity|].
  change (xor_adjacent ((a :: b :: l') ++ [y; x])) with (xorb a b :: xor_adjacent ((b :: l') ++ [y; x])).
  rewrite IH. reflexivity.
Qed.

Lemma xac_form s : s <> [] ->
  xor_adjacent_cyclic s = xor_adjacent s ++ [xorb (last s false) (hd false s)].
Proof.
  intros Hne. destruct s as [|a t]; [congruence|]. unfold xor_adjacent_cyclic. cbn [hd].
  rewrite (app_removelast_last false Hne) at 1 2. rewrite <- app_assoc. cbn [app]. apply xa_snoc.
Qed.

(* ------------------------------------------------------------------ complement *)
Lemma xorb_negb_negb a b : xorb (negb a) (negb b) = xorb a b.
Proof. destruct a, b; reflexivity. Qed.

Lemma xa_complement s : xor_adjacent (complement s) = xor_adjacent s.
Proof.
  unfold complement. induction s as [|a t IH]; [reflexivity|]. destruct t as [|b t']; [reflexivity|].
  change (xorb (negb a) (negb b) :: xor_adjacent (map negb (b :: t')) = xorb a b :: xor_adjacent (b :: t')).
  rewrite IH, xorb_negb_negb. reflexivity.
Qed.

Lemma xac_complement s : xor_adjacent_cyclic (complement s) = xor_adjacent_cyclic s.
Proof.
  destruct s as [|a t]; [reflexivity|]. unfold xor_adjacent_cyclic, complement. cbn [map].
  change (negb a :: map negb t) with (map negb (a :: t)). change [negb a] with (map negb [a]).
  rewrite <- map_app. apply xa_complement.
Qed.

Theorem binary_derivative_complement s : binary_derivative (complement s) = binary_derivative s.
Proof. rewrite !binary_derivative_spec. apply xa_complement. Qed.
Theorem cyclic_binary_derivative_complement s :
  cyclic_binary_derivative (complement s) = cyclic_binary_derivative s.
Proof. rewrite !cyclic_binary_derivative_spec. apply xac_complement. Qed.

(* ------------------------------------------------------------------ reversal *)
Lemma xa_rev s : xor_adjacent (rev s) = rev (xor_adjacent s).
Proof.
  induction s as [|a t IH]; [reflexivity|]. destruct t as [|b t']; [reflexivity|].
  change (xor_adjacent (a :: b :: t')) with (xorb a b :: xor_adjacent (b :: t')).
  cbn [rev] in *. rewrite <- app_assoc. cbn [app]. rewrite xa_snoc, IH, xorb_comm. reflexivity.
Qed.

Theorem binary_derivative_rev s : binary_derivative (rev s) = rev (binary_derivative s).
Proof. rewrite !binary_derivative_spec. apply xa_rev. Qed.

Lemma last_rev (s : list bool) : last (rev s) false = hd false s.
Proof. destruct s as [|a t]; [reflexivity|]. cbn [rev hd]. apply last_last. Qed.
Lemma hd_rev (s : list bool) : hd false (rev s) = last s false.
Proof.
  destruct s as [|a t]; [reflexivity|].
  assert (Hne : a :: t <> []) by discriminate.
  rewrite (app_removelast_last false Hne) at 1. rewrite rev_app_distr. reflexivity.
Qed.

(* the exact law for the cyclic derivative of a reversed string: reverse, then rotate left by one *)
Lemma xac_rev s : xor_adjacent_cyclic (rev s) = rot1 (rev (xor_adjacent_cyclic s)).
Proof.
  destruct s as [|a t]; [reflexivity|].
  assert (Hne : a :: t <> []) by discriminate.
  assert (Hne' : rev (a :: t) <> []).
  { intros E. apply (f_equal (@length bool)) in E. rewrite rev_length in E. discriminate. }
  rewrite (xac_form _ Hne'), (xac_form _ Hne), xa_rev, last_rev, hd_rev, rev_app_distr.
  cbn [rev app rot1]. rewrite xorb_comm. reflexivity.
Qed.

Theorem cyclic_binary_derivative_rev s :
  cyclic_binary_derivative (rev s) = rot1 (rev (cyclic_binary_derivative s)).
Proof. rewrite !cyclic_binary_derivative_spec. apply xac_rev. Qed.

(* ------------------------------------------------------------------ rotation *)
Lemma xac_rot1 s : xor_adjacent_cyclic (rot1 s) = rot1 (xor_adjacent_cyclic s).
Proof.
  destruct s as [|a t]; [reflexivity|]. destruct t as [|b t']; [destruct a; reflexivity|].
  cbn [rot1 app xor_adjacent_cyclic].
  rewrite <- app_assoc. cbn [app]. change (b :: t' ++ [a; b]) with ((b :: t') ++ [a; b]).
  change (xor_adjacent (a :: b :: t' ++ [a])) with (xorb a b :: xor_adjacent ((b :: t') ++ [a])).
  cbn [rot1].
  rewrite xa_snoc. reflexivity.
Qed.

Lemma rotate_S k s : k < length s -> rotate (S k) s = rot1 (rotate k s).
Proof.
  intros Hk. unfold rotate.
  rewrite (skipn_nth_cons false s k Hk). cbn [rot1 app].
  rewrite <- app_assoc. f_equal.
  clear - Hk. revert s Hk. induction k as [|k IH]; intros s Hk.
  - destruct s; [cbn in Hk; lia|reflexivity].
  - destruct s as [|x s]; [cbn in Hk; lia|]. cbn [firstn nth app]. f_equal. apply IH. cbn in Hk. lia.
Qed.

Lemma iter_succ {A} k (f : A -> A) x : Nat.iter (S k) f x = f (Nat.iter k f x).
Proof. reflexivity. Qed.

Lemma rotate_iter : forall k s, k <= length s -> rotate k s = Nat.iter k rot1 s.
Proof.
  induction k as [|k IH]; intros s Hk.
  - unfold rotate. cbn. apply app_nil_r.
  - rewrite rotate_S by lia. rewrite iter_succ, IH by lia. reflexivity.
Qed.

Lemma rotate_big k s : length s <= k -> rotate k s = s.
Proof. intros Hk. unfold rotate. rewrite skipn_all2, firstn_all2 by exact Hk. reflexivity. Qed.

Lemma xac_rotate k s : xor_adjacent_cyclic (rotate k s) = rotate k (xor_adjacent_cyclic s).
Proof.
  destruct (Nat.le_gt_cases k (length s)) as [Hk|Hk].
  - rewrite !rotate_iter by (rewrite ?xac_length; exact Hk).
    clear Hk. induction k as [|k IH]; [reflexivity|]. rewrite !iter_succ, xac_rot1, IH. reflexivity.
  - rewrite !rotate_big by (rewrite ?xac_length; lia). reflexivity.
Qed.

Theorem cyclic_binary_derivative_rot1 s :
  cyclic_binary_derivative (rot1 s) = rot1 (cyclic_binary_derivative s).
Proof. rewrite !cyclic_binary_derivative_spec. apply xac_rot1. Qed.

Theorem cyclic_binary_derivative_rotate k s :
  cyclic_binary_derivative (rotate k s) = rotate k (cyclic_binary_derivative s).
Proof. rewrite !cyclic_binary_derivative_spec. apply xac_rotate. Qed.

(* ------------------------------------------------------------------ lengths and counts under the string operations *)
Lemma complement_length s : length (complement s) = length s.
Proof. apply map_length. Qed.
Lemma rot1_length s : length (rot1 s) = length s.
Proof. destruct s as [|a t]; [reflexivity|]. cbn [rot1]. rewrite app_length. cbn. lia. Qed.
Lemma rotate_length k s : length (rotate k s) = length s.
Proof. unfold rotate. rewrite app_length, Nat.add_comm, <- app_length, firstn_skipn. reflexivity. Qed.

Lemma count_true_app a b : count_true (a ++ b) = count_true a + count_true b.
Proof. apply count_occ_app. Qed.
Lemma count_true_rev s : count_true (rev s) = count_true s.
Proof.
  induction s as [|a t IH]; [reflexivity|]. cbn [rev]. rewrite count_true_app, IH.
  unfold count_true. cbn [count_occ]. destruct (bool_dec a true); lia.
Qed.
Lemma count_true_rotate k s : count_true (rotate k s) = count_true s.
Proof. unfold rotate. rewrite count_true_app, Nat.add_comm, <- count_true_app, firstn_skipn. reflexivity. Qed.
Lemma count_true_rot1 s : count_true (rot1 s) = count_true s.
Proof.
  destruct s as [|a t]; [reflexivity|]. cbn [rot1]. rewrite count_true_app.
  unfold count_true. cbn [count_occ]. destruct (bool_dec a true); lia.
Qed.
Lemma count_true_complement s : count_true (complement s) + count_true s = length s.
Proof.
  unfold complement, count_true. induction s as [|a t IH]; [reflexivity|]. cbn [map count_occ length].
  destruct a; cbn [negb]; destruct (bool_dec false true), (bool_dec true true); try congruence; lia.
Qed.
Lemma count_true_le s : count_true s <= length s.
Proof. apply count_occ_bound. Qed.

(* rot1 iterated: commutes with the cyclic derivative; keeps length and counts *)
Lemma iter_succ_r {A} k (f : A -> A) x : Nat.iter k f (f x) = Nat.iter (S k) f x.
Proof. induction k as [|k IH]; [reflexivity|]. rewrite iter_succ, IH. reflexivity. Qed.
Lemma cyclic_binary_derivative_iter_rot1 m y :
  cyclic_binary_derivative (Nat.iter m rot1 y) = Nat.iter m rot1 (cyclic_binary_derivative y).
Proof. induction m as [|m IHm]; [reflexivity|]. rewrite !iter_succ, cyclic_binary_derivative_rot1, IHm. reflexivity. Qed.
Lemma iter_rot1_length m y : length (Nat.iter m rot1 y) = length y.
Proof. induction m as [|m IHm]; [reflexivity|]. rewrite iter_succ, rot1_length. exact IHm. Qed.
Lemma count_true_iter_rot1 m y : count_true (Nat.iter m rot1 y) = count_true y.
Proof. induction m as [|m IHm]; [reflexivity|]. rewrite iter_succ, count_true_rot1. exact IHm. Qed.

(* ------------------------------------------------------------------ iterated derivatives *)
Lemma iter_d_S d j s : iter_d d (S j) s = d (iter_d d j s).
Proof. revert s. induction j as [|j IH]; intros s; [reflexivity|]. cbn [iter_d] in *. rewrite IH. reflexivity. Qed.

Theorem iter_binary_derivative_length j s : length (iter_d binary_derivative j s) = length s - j.
Proof.
  revert s. induction j as [|j IH]; intros s; [cbn; lia|]. cbn [iter_d].
  rewrite IH, binary_derivative_length. lia.
Qed.
Theorem iter_cyclic_binary_derivative_length j s : length (iter_d cyclic_binary_derivative j s) = length s.
Proof.
  revert s. induction j as [|j IH]; intros s; [reflexivity|]. cbn [iter_d].
  rewrite IH, cyclic_binary_derivative_length. reflexivity.
Qed.
Theorem iter_binary_derivative_rev j s :
  iter_d binary_derivative j (rev s) = rev (iter_d binary_derivative j s).
Proof. revert s. induction j as [|j IH]; intros s; [reflexivity|]. cbn [iter_d]. rewrite binary_derivative_rev. apply IH. Qed.
Theorem iter_cyclic_binary_derivative_rotate j k s :
  iter_d cyclic_binary_derivative j (rotate k s) = rotate k (iter_d cyclic_binary_derivative j s).
Proof.
  revert s. induction j as [|j IH]; intros s; [reflexivity|]. cbn [iter_d].
  rewrite cyclic_binary_derivative_rotate. apply IH.
Qed.
(* j cyclic derivatives of the reverse = the reverse of j cyclic derivatives, rotated left j times *)
Theorem iter_cyclic_binary_derivative_rev j s :
  iter_d cyclic_binary_derivative j (rev s) = Nat.iter j rot1 (rev (iter_d cyclic_binary_derivative j s)).
Proof.
  induction j as [|j IH]; [reflexivity|].
  rewrite !iter_d_S, IH, iter_succ.
  set (x := iter_d cyclic_binary_derivative j s).
  assert (C : forall m y, cyclic_binary_derivative (Nat.iter m rot1 y) = Nat.iter m rot1 (cyclic_binary_derivative y)).
  { induction m as [|m IHm]; intros y; [reflexivity|]. rewrite !iter_succ, cyclic_binary_derivative_rot1, IHm. reflexivity. }
  rewrite C, cyclic_binary_derivative_rev.
  generalize (rev (cyclic_binary_derivative x)). intros z. clear.
  induction j as [|j IH]; [reflexivity|]. rewrite !iter_succ, IH. reflexivity.
Qed.
