(* C18: the long-string interval twin of Model/BienLong.v encloses the real values, for every precision and
   every table built by mk_tab (in fact every table whose entries enclose the logarithms). *)
From Coq Require Import Reals Lra Lia List Arith Bool ZArith.
From Interval Require Import Specific_stdz Specific_ops Float_full Interval Xreal Basic.
From CPL Require Import Model.Base Model.BienExact Proofs.EntropyBounds Proofs.BienExactProofs.
From CPL Require Import Model.Bien Proofs.BienProofs Model.BienLong.
Import ListNotations.
Local Open Scope R_scope.

Section Long.
Variable pr : F.precision.

Lemma p_add a b x y : contains (I.convert a) (Xreal x) -> contains (I.convert b) (Xreal y) ->
  contains (I.convert (I.add pr a b)) (Xreal (x + y)).
Proof. intros Ha Hb. apply (I.add_correct pr a b (Xreal x) (Xreal y) Ha Hb). Qed.
Lemma p_sub a b x y : contains (I.convert a) (Xreal x) -> contains (I.convert b) (Xreal y) ->
  contains (I.convert (I.sub pr a b)) (Xreal (x - y)).
Proof. intros Ha Hb. apply (I.sub_correct pr a b (Xreal x) (Xreal y) Ha Hb). Qed.
Lemma p_mul a b x y : contains (I.convert a) (Xreal x) -> contains (I.convert b) (Xreal y) ->
  contains (I.convert (I.mul pr a b)) (Xreal (x * y)).
Proof. intros Ha Hb. apply (I.mul_correct pr a b (Xreal x) (Xreal y) Ha Hb). Qed.
Lemma p_div a b x y : contains (I.convert a) (Xreal x) -> contains (I.convert b) (Xreal y) -> y <> 0 ->
  contains (I.convert (I.div pr a b)) (Xreal (x / y)).
Proof.
  intros Ha Hb Hy. replace (Xreal (x / y)) with (Xdiv (Xreal x) (Xreal y)).
  - apply I.div_correct; assumption.
  - unfold Xdiv, Xdiv'. rewrite is_zero_false by exact Hy. reflexivity.
Qed.
Lemma p_Z z : contains (I.convert (I.fromZ pr z)) (Xreal (IZR z)).
Proof. apply I.fromZ_correct. Qed.
Lemma p_N k : contains (I.convert (natIp pr k)) (Xreal (INR k)).
Proof. rewrite INR_IZR_INZ. apply p_Z. Qed.

Lemma ln_directp_ok k : (1 <= k)%nat -> contains (I.convert (ln_directp pr k)) (Xreal (ln (INR k))).
Proof.
  intros Hk. unfold ln_directp.
  replace (Xreal (ln (INR k))) with (Xln (Xreal (INR k))).
  - apply I.ln_correct. apply p_N.
  - unfold Xln, Xln'. rewrite is_positive_true; [reflexivity|]. apply lt_0_INR. lia.
Qed.

Definition tab_ok (tab : list I.type) : Prop :=
  forall j x, nth_error tab j = Some x -> contains (I.convert x) (Xreal (ln (INR (S j)))).

Lemma mk_tab_ok N : tab_ok (mk_tab pr N).
Proof.
  intros j x Hj. unfold mk_tab in Hj.
  assert (Hlt : (j < N)%nat).
  { rewrite <- (seq_length N 1), <- (map_length (ln_directp pr)).
    apply nth_error_Some. congruence. }
  rewrite (nth_error_nth' _ (ln_directp pr 0)) in Hj by (rewrite map_length, seq_length; exact Hlt).
  injection Hj as <-. rewrite map_nth, seq_nth by exact Hlt. apply ln_directp_ok. lia.
Qed.

Variable tab : list I.type.
Hypothesis Htab : tab_ok tab.

Lemma lnL_ok k : (1 <= k)%nat -> contains (I.convert (lnL pr tab k)) (Xreal (ln (INR k))).
Proof.
  intros Hk. destruct k as [|j]; [lia|]. unfold lnL.
  destruct (nth_error tab j) as [x|] eqn:E; [apply (Htab j x E)|apply ln_directp_ok; lia].
Qed.

Lemma H2IL_ok c n : (c <= n)%nat -> contains (I.convert (H2IL pr tab c n)) (Xreal (H2R c n)).
Proof.
  intros Hcn. destruct ((c =? 0)%nat || (c =? n)%nat) eqn:E.
  - unfold H2IL, H2R. rewrite E. apply (p_Z 0).
  - apply orb_false_iff in E as [E0 En]. apply Nat.eqb_neq in E0, En.
    rewrite H2R_formula by lia. unfold H2IL.
    replace ((c =? 0)%nat || (c =? n)%nat) with false
      by (symmetry; apply orb_false_iff; split; apply Nat.eqb_neq; assumption).
    pose proof ln2_pos as L2.
    assert (HN : 0 < INR n) by (apply lt_0_INR; lia).
    apply p_div.
    + apply p_sub; [apply p_mul; [apply p_N|apply lnL_ok; lia]|].
      apply p_add; (apply p_mul; [apply p_N|apply lnL_ok; lia]).
    + apply p_mul; [apply p_N|]. replace 2 with (INR 2) at 2 by (cbn; lra). apply lnL_ok. lia.
    + nra.
Qed.

Lemma shannonIL_ok s : contains (I.convert (shannonIL pr tab s)) (Xreal (shannon s)).
Proof. rewrite shannon_H2R. apply H2IL_ok. apply count_true_le. Qed.

Lemma w_pow2IL_ok k : contains (I.convert (w_pow2IL pr k)) (Xreal (w_pow2 k)).
Proof. unfold w_pow2IL, w_pow2. rewrite pow_IZR. apply p_Z. Qed.
Lemma w_logIL_ok k : contains (I.convert (w_logIL pr tab k)) (Xreal (w_log k)).
Proof.
  unfold w_logIL, w_log, log2. pose proof ln2_pos as L2. apply p_div.
  - apply lnL_ok. lia.
  - replace 2 with (INR 2) at 2 by (cbn; lra). apply lnL_ok. lia.
  - lra.
Qed.

Lemma acc_loopIL_ok d dI wI w :
  (forall s, dI s = d s) -> (forall k, contains (I.convert (wI k)) (Xreal (w k))) ->
  forall fuel k s totI totwI tot totw,
  contains (I.convert totI) (Xreal tot) -> contains (I.convert totwI) (Xreal totw) ->
  contains (I.convert (fst (acc_loopIL pr tab dI wI fuel k s totI totwI))) (Xreal (fst (acc_loop d w fuel k s tot totw))) /\
  contains (I.convert (snd (acc_loopIL pr tab dI wI fuel k s totI totwI))) (Xreal (snd (acc_loop d w fuel k s tot totw))).
Proof.
  intros Hd Hw. induction fuel as [|f IH]; intros k s totI totwI tot totw Ht Htw.
  - cbn. split; assumption.
  - cbn [acc_loopIL acc_loop]. cbv zeta. rewrite Hd. apply IH.
    + apply p_add; [exact Ht|]. apply p_mul; [apply shannonIL_ok|apply Hw].
    + apply p_add; [exact Htw|apply Hw].
Qed.

Lemma bienIL_tab_ok s : bien_guard s -> contains (I.convert (bienIL_tab pr tab s)) (Xreal (bien s)).
Proof.
  unfold bien_guard. intros Hn. unfold bienIL_tab, bien. cbv zeta.
  pose proof (pow2_ge_2 (length s - 1) ltac:(lia)) as Hp.
  apply p_mul.
  - apply p_div; [apply (p_Z 1)| |lra].
    replace (2 ^ (length s - 1) - 1) with (IZR (2 ^ Z.of_nat (length s - 1) - 1)); [apply p_Z|].
    rewrite minus_IZR, <- pow_IZR. reflexivity.
  - apply (acc_loopIL_ok binary_derivative xor_adjacent (w_pow2IL pr) w_pow2);
      [intros x; symmetry; apply binary_derivative_spec|apply w_pow2IL_ok|apply (p_Z 0)|apply (p_Z 0)].
Qed.

Lemma log_loopIL_tab_ok d dI s : (forall x, dI x = d x) -> (2 <= length s)%nat ->
  let r := acc_loop d w_log (length s - 1) 0 s 0 0 in
  contains (I.convert (log_loopIL_tab pr tab dI s)) (Xreal (1 / snd r * fst r)).
Proof.
  intros Hd Hn r. unfold log_loopIL_tab. cbv zeta.
  destruct (acc_loopIL_ok d dI (w_logIL pr tab) w_log Hd w_logIL_ok (length s - 1) 0 s _ _ 0 0 (p_Z 0) (p_Z 0)) as [Hf Hs].
  apply p_mul; [|exact Hf]. apply p_div; [apply (p_Z 1)|exact Hs|].
  unfold r. rewrite acc_loop_snd. assert (0 < wsum w_log (length s - 1) 0); [|lra].
  apply wsum_pos; [apply w_log_pos|lia].
Qed.
End Long.

Theorem bienIL_ok pr s : bien_guard s -> contains (I.convert (bienIL pr s)) (Xreal (bien s)).
Proof. intros Hn. unfold bienIL. cbv zeta. apply bienIL_tab_ok; [apply mk_tab_ok|exact Hn]. Qed.
Theorem tbienIL_ok pr s : bien_guard s -> contains (I.convert (tbienIL pr s)) (Xreal (tbien s)).
Proof.
  intros Hn. unfold tbienIL. cbv zeta.
  apply (log_loopIL_tab_ok pr _ (mk_tab_ok pr _) binary_derivative xor_adjacent s); [|exact Hn].
  intros x; symmetry; apply binary_derivative_spec.
Qed.
Theorem ktbienIL_ok pr s : bien_guard s -> contains (I.convert (ktbienIL pr s)) (Xreal (ktbien s)).
Proof.
  intros Hn. unfold ktbienIL. cbv zeta.
  apply (log_loopIL_tab_ok pr _ (mk_tab_ok pr _) cyclic_binary_derivative xor_adjacent_cyclic s); [|exact Hn].
  intros x; symmetry; apply cyclic_binary_derivative_spec.
Qed.
