(* Design-phase spike (not framework code): verified enclosure of one Shannon term p*log2 p,
   p = c/n, with the Interval library's functional API over pure-Z floats.
   Axioms reported: ClassicalDedekindReals.sig_not_dec, sig_forall_dec,
   FunctionalExtensionality.functional_extensionality_dep, Classical_Prop.classic. *)
From Coq Require Import ZArith Reals Lra Lia.
From Interval Require Import Specific_stdz Specific_ops Float_full Interval Xreal Basic.
Module F := SpecificFloat StdZRadix2.
Module I := FloatIntervalFull F.
Local Open Scope R_scope.
Definition prec : F.precision := F.PtoP 80%positive.
Definition termR (c n : Z) : R := (IZR c / IZR n) * (ln (IZR c / IZR n) / ln 2).
Definition termI (c n : Z) : I.type :=
  let p := I.div prec (I.fromZ prec c) (I.fromZ prec n) in
  I.mul prec p (I.div prec (I.ln prec p) (I.ln prec (I.fromZ prec 2))).
Lemma termI_ok c n : (0 < c)%Z -> (0 < n)%Z ->
  contains (I.convert (termI c n)) (Xreal (termR c n)).
Proof.
  intros Hc Hn. unfold termI, termR.
  assert (Hp : contains (I.convert (I.div prec (I.fromZ prec c) (I.fromZ prec n))) (Xreal (IZR c / IZR n))).
  { replace (Xreal (IZR c / IZR n)) with (Xdiv (Xreal (IZR c)) (Xreal (IZR n))).
    - apply I.div_correct; apply I.fromZ_correct.
    - unfold Xdiv, Xdiv'. rewrite is_zero_false. reflexivity. apply not_0_IZR. lia. }
  assert (Hpos : 0 < IZR c / IZR n).
  { apply Rdiv_lt_0_compat; apply IZR_lt; assumption. }
  assert (Hl : contains (I.convert (I.ln prec (I.div prec (I.fromZ prec c) (I.fromZ prec n)))) (Xreal (ln (IZR c / IZR n)))).
  { replace (Xreal (ln (IZR c / IZR n))) with (Xln (Xreal (IZR c / IZR n))).
    - apply I.ln_correct. exact Hp.
    - unfold Xln, Xln'. rewrite is_positive_true by exact Hpos. reflexivity. }
  assert (Hl2 : contains (I.convert (I.ln prec (I.fromZ prec 2))) (Xreal (ln 2))).
  { replace (Xreal (ln 2)) with (Xln (Xreal (IZR 2))).
    - apply I.ln_correct. apply I.fromZ_correct.
    - unfold Xln, Xln'. rewrite is_positive_true by lra. reflexivity. }
  replace (Xreal (IZR c / IZR n * (ln (IZR c / IZR n) / ln 2)))
    with (Xmul (Xreal (IZR c / IZR n)) (Xdiv (Xreal (ln (IZR c / IZR n))) (Xreal (ln 2)))).
  - apply I.mul_correct. exact Hp. apply I.div_correct; assumption.
  - unfold Xdiv, Xdiv'. rewrite is_zero_false. reflexivity.
    assert (0 < ln 2) by (rewrite <- ln_1; apply ln_increasing; lra). lra.
Qed.
Print Assumptions termI_ok.
Eval vm_compute in termI 3 7.
