(* C18: what a passing correspondence case means.  `Corr.C18.check_case` itself (not a re-statement):
   a passing value case puts the returned double within 2^-30 of the model's real value;
   a passing derivative case means the returned digit strings ARE the outputs of the model's loops. *)
From Coq Require Import Reals List ZArith Bool Lia.
From Flocq Require Import Core.
From Interval Require Import Xreal Interval.
From CPL Require Import Model.Base Model.BienExact Model.Bien Proofs.BienProofs Model.BienLong Proofs.BienLongProofs Corr.C18.
Import ListNotations.
Local Open Scope R_scope.

Definition value (f : fn) (s : list bool) : R :=
  match f with FBien => bien s | FTbien => tbien s | FKtbien => ktbien s end.

Lemma enclosure_ok f s : bien_guard s -> contains (I.convert (enclosure f s)) (Xreal (value f s)).
Proof.
  intros Hn. unfold enclosure. destruct (length s <=? 301)%nat.
  - destruct f; cbn [value]; [apply bienI_ok|apply tbienI_ok|apply ktbienI_ok]; exact Hn.
  - destruct f; cbn [value]; [apply bienIL_ok|apply tbienIL_ok|apply ktbienIL_ok]; exact Hn.
Qed.

Theorem check_case_value_sound f s m e : check_case (CValue f s (Ok (m, e))) = true ->
  (2 <= length s)%nat /\ Rabs (value f s - IZR m * bpow radix2 e) <= / 2 ^ 30.
Proof.
  cbn [check_case]. intros Hc. apply andb_true_iff in Hc as [Hg Hw]. apply Nat.leb_le in Hg.
  split; [exact Hg|]. apply (within_ok (enclosure f s)); [apply enclosure_ok; exact Hg|exact Hw].
Qed.

(* an exception never passes a value case *)
Theorem check_case_value_raise f s x : check_case (CValue f s (Raise x)) = false.
Proof. reflexivity. Qed.

Lemma zlist_eqb_eq : forall l m : list Z, zlist_eqb l m = true -> l = m.
Proof.
  unfold zlist_eqb. induction l as [|x l IH]; intros [|y m] E; cbn in E; try discriminate; [reflexivity|].
  apply andb_true_iff in E as [E1 E2]. apply Z.eqb_eq in E1. rewrite E1, (IH m E2). reflexivity.
Qed.

Theorem check_case_deriv_sound s op oc : check_case (CDeriv s op oc) = true ->
  op = Ok (digits (binary_derivative s)) /\ oc = Ok (digits (cyclic_binary_derivative s)).
Proof.
  cbn [check_case]. intros Hc. apply andb_true_iff in Hc as [H1 H2].
  destruct op as [l1|x1]; [|discriminate]. destruct oc as [l2|x2]; [|discriminate]. cbn [res_eqb] in H1, H2.
  apply zlist_eqb_eq in H1, H2. rewrite H1, H2. split; reflexivity.
Qed.
