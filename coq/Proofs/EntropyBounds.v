(* Design-phase spike (not framework code): the real-analysis core of C16 / C18.
   Shannon entropy over symbol counts as a real number; H >= 0; H <= log2 K when at most K
   distinct symbols occur (so H <= 1 for binary strings: the BiEntropy range); and
   mutual information H(X) + H(Y) - H(X,Y) >= 0 (Gibbs' inequality from ln z <= z - 1). *)
From Coq Require Import Reals Lra Lia List Arith Psatz.
Import ListNotations.
Open Scope R_scope.

Fixpoint Rsum {B} (g : B -> R) (l : list B) : R :=
  match l with [] => 0 | x :: t => g x + Rsum g t end.

Lemma Rsum_ext {B} (g h : B -> R) l : (forall x, In x l -> g x = h x) -> Rsum g l = Rsum h l.
Proof. induction l as [|x l IH]; intros H; cbn; [reflexivity|]. rewrite H by (left; reflexivity). rewrite IH; [reflexivity|]. intros; apply H; right; assumption. Qed.
Lemma Rsum_le {B} (g h : B -> R) l : (forall x, In x l -> g x <= h x) -> Rsum g l <= Rsum h l.
Proof. induction l as [|x l IH]; intros H; cbn; [lra|]. specialize (H x (or_introl eq_refl)) as Hx. assert (Rsum g l <= Rsum h l) by (apply IH; intros; apply H; right; assumption). lra. Qed.
Lemma Rsum_plus {B} (g h : B -> R) l : Rsum (fun x => g x + h x) l = Rsum g l + Rsum h l.
Proof. induction l; cbn; [lra|]. rewrite IHl. lra. Qed.
Lemma Rsum_scal {B} (a : R) (g : B -> R) l : Rsum (fun x => a * g x) l = a * Rsum g l.
Proof. induction l; cbn; [lra|]. rewrite IHl. lra. Qed.
Lemma Rsum_const {B} (a : R) (l : list B) : Rsum (fun _ => a) l = INR (length l) * a.
Proof. induction l; [cbn; lra|]. cbn [Rsum]. rewrite IHl. change (length (a0 :: l)) with (S (length l)). rewrite S_INR. lra. Qed.
Lemma Rsum_nonneg {B} (g : B -> R) l : (forall x, In x l -> 0 <= g x) -> 0 <= Rsum g l.
Proof. induction l as [|x l IH]; intros H; cbn; [lra|]. specialize (H x (or_introl eq_refl)) as Hx. assert (0 <= Rsum g l) by (apply IH; intros; apply H; right; assumption). lra. Qed.

Section Group.
Variable A : Type.
Variable eq_dec : forall a b : A, {a = b} + {a <> b}.
Definition cnt (x : A) (l : list A) : nat := count_occ eq_dec l x.

Lemma sum_indicator (g : A -> R) y keys : NoDup keys -> In y keys ->
  Rsum (fun x => if eq_dec y x then g x else 0) keys = g y.
Proof.
  induction keys as [|k keys IH]; intros Hnd Hin; [contradiction|].
  inversion Hnd as [|? ? Hk Hnd']; subst. cbn [Rsum].
  destruct (eq_dec y k) as [->|Hne].
  - rewrite (Rsum_ext _ (fun _ => 0)).
    + rewrite Rsum_const. lra.
    + intros x Hx. destruct (eq_dec k x) as [->|]; [contradiction|reflexivity].
  - destruct Hin as [->|Hin]; [contradiction|]. rewrite IH by assumption. lra.
Qed.

(* grouping: a sum over positions is a sum over any duplicate-free key list that covers them *)
Lemma grouping (g : A -> R) l keys : NoDup keys -> incl l keys ->
  Rsum g l = Rsum (fun x => INR (cnt x l) * g x) keys.
Proof.
  intros Hnd. induction l as [|y l IH]; intros Hincl.
  - cbn. rewrite (Rsum_ext _ (fun _ => 0)); [rewrite Rsum_const; lra|]. intros; cbn; lra.
  - cbn [Rsum]. rewrite IH by (intros z Hz; apply Hincl; right; exact Hz).
    rewrite <- (sum_indicator g y keys Hnd) by (apply Hincl; left; reflexivity).
    rewrite <- Rsum_plus. apply Rsum_ext. intros x Hx. unfold cnt. cbn [count_occ].
    destruct (eq_dec y x); [rewrite S_INR|]; lra.
Qed.

Lemma cnt_total l keys : NoDup keys -> incl l keys -> Rsum (fun x => INR (cnt x l)) keys = INR (length l).
Proof.
  intros Hnd Hincl. pose proof (grouping (fun _ => 1) l keys Hnd Hincl) as H.
  rewrite Rsum_const in H. rewrite (Rsum_ext _ (fun x => INR (cnt x l) * 1)) by (intros; lra). lra.
Qed.
End Group.

Definition log2 (x : R) := ln x / ln 2.
Lemma ln2_pos : 0 < ln 2. Proof. rewrite <- ln_1. apply ln_increasing; lra. Qed.
Lemma ln_le_sub1 z : 0 < z -> ln z <= z - 1.
Proof. intros Hz. pose proof (exp_ineq1_le (ln z)) as H. rewrite exp_ln in H by exact Hz. lra. Qed.

Section Entropy.
Variable A : Type.
Variable eq_dec : forall a b : A, {a = b} + {a <> b}.
Notation cnt := (cnt A eq_dec).

(* the symbols that occur, each once (any duplicate-free list with the same elements will do:
   the code's dict.fromkeys order is one such list) *)
Definition symbols_of (l keys : list A) : Prop := NoDup keys /\ (forall x, In x keys <-> In x l).

Definition p (l : list A) (x : A) : R := INR (cnt x l) / INR (length l).
Definition H (l keys : list A) : R := - Rsum (fun x => p l x * log2 (p l x)) keys.

Lemma cnt_pos l x : In x l -> (0 < cnt x l)%nat.
Proof. intros Hx. apply (count_occ_In eq_dec) in Hx. exact Hx. Qed.
Lemma cnt_le_len l x : (cnt x l <= length l)%nat.
Proof. apply count_occ_bound. Qed.

Lemma p_range l keys x : symbols_of l keys -> In x keys -> 0 < p l x <= 1.
Proof.
  intros [_ Hk] Hx. apply Hk in Hx. pose proof (cnt_pos l x Hx) as Hc. pose proof (cnt_le_len l x) as Hl.
  unfold p. assert (0 < INR (length l)) by (apply lt_0_INR; lia).
  assert (0 < INR (cnt x l)) by (apply lt_0_INR; lia).
  assert (INR (cnt x l) <= INR (length l)) by (apply le_INR; lia).
  split; [apply Rdiv_lt_0_compat; assumption|]. apply Rmult_le_reg_r with (INR (length l)); [assumption|].
  unfold Rdiv. rewrite Rmult_assoc, Rinv_l by lra. lra.
Qed.

Lemma p_sum l keys : l <> [] -> symbols_of l keys -> Rsum (p l) keys = 1.
Proof.
  intros Hne [Hnd Hk]. unfold p.
  rewrite (Rsum_ext _ (fun x => / INR (length l) * INR (cnt x l))) by (intros; unfold Rdiv; lra).
  rewrite Rsum_scal, (cnt_total A eq_dec l keys Hnd) by (intros x Hx; apply Hk; exact Hx).
  apply Rinv_l. apply not_0_INR. destruct l; [congruence|cbn; lia].
Qed.

Lemma plogp_nonpos x : 0 < x <= 1 -> x * log2 x <= 0.
Proof.
  intros [H0 H1]. unfold log2.
  assert (ln x <= 0).
  { rewrite <- ln_1. destruct (Req_dec x 1) as [->|Hne]; [lra|]. apply Rlt_le, ln_increasing; lra. }
  pose proof ln2_pos as L2. assert (0 < / ln 2) by (apply Rinv_0_lt_compat; exact L2).
  unfold Rdiv. assert (ln x * / ln 2 <= 0) by nra. nra.
Qed.

Theorem H_nonneg l keys : symbols_of l keys -> 0 <= H l keys.
Proof.
  intros Hs. unfold H.
  assert (Rsum (fun x => p l x * log2 (p l x)) keys <= Rsum (fun _ => 0) keys).
  { apply Rsum_le. intros x Hx. apply plogp_nonpos. apply (p_range l keys x Hs Hx). }
  rewrite Rsum_const in H0. lra.
Qed.

(* Gibbs with the uniform distribution: H <= log2 K whenever at most K symbols occur *)
Theorem H_le_log2_card l keys (K : nat) : l <> [] -> symbols_of l keys -> (length keys <= K)%nat ->
  H l keys <= log2 (INR K).
Proof.
  intros Hne Hs HK. pose proof ln2_pos as L2.
  assert (HKpos : 0 < INR K).
  { apply lt_0_INR. destruct keys as [|k keys]; [|cbn in HK; lia].
    exfalso. destruct Hs as [_ Hk]. destruct l as [|y l]; [congruence|]. apply (Hk y). left; reflexivity. }
  (* ln2 * (H - log2 K) = sum p (ln (1/(K p))) <= sum (1/K - p) = m/K - 1 <= 0 *)
  assert (Hkey : Rsum (fun x => p l x * (- ln (p l x) - ln (INR K))) keys <= 0).
  { apply Rle_trans with (Rsum (fun x => / INR K - p l x) keys).
    - apply Rsum_le. intros x Hx. destruct (p_range l keys x Hs Hx) as [H0 H1].
      assert (Hz : 0 < / (INR K * p l x)) by (apply Rinv_0_lt_compat; nra).
      pose proof (ln_le_sub1 _ Hz) as Hl. rewrite ln_Rinv in Hl by nra. rewrite ln_mult in Hl by assumption.
      assert (p l x * / (INR K * p l x) = / INR K) by (field; lra).
      nra.
    - rewrite (Rsum_ext _ (fun x => / INR K + -1 * p l x)) by (intros; lra).
      rewrite Rsum_plus, Rsum_scal, Rsum_const, (p_sum l keys Hne Hs).
      assert (INR (length keys) <= INR K) by (apply le_INR; exact HK).
      assert (INR (length keys) * / INR K <= 1).
      { apply Rmult_le_reg_r with (INR K); [exact HKpos|]. rewrite Rmult_assoc, Rinv_l by lra. lra. }
      lra. }
  unfold H, log2.
  assert (E : Rsum (fun x => p l x * (- ln (p l x) - ln (INR K))) keys
              = - Rsum (fun x => p l x * ln (p l x)) keys - ln (INR K)).
  { rewrite (Rsum_ext _ (fun x => -1 * (p l x * ln (p l x)) + - ln (INR K) * p l x)) by (intros; lra).
    rewrite Rsum_plus, !Rsum_scal, (p_sum l keys Hne Hs). lra. }
  rewrite E in Hkey.
  rewrite (Rsum_ext _ (fun x => / ln 2 * (p l x * ln (p l x)))) by (intros; unfold Rdiv; lra).
  rewrite Rsum_scal. unfold Rdiv.
  assert (0 < / ln 2) by (apply Rinv_0_lt_compat; exact L2). nra.
Qed.

Corollary H_binary_le_1 l keys : l <> [] -> symbols_of l keys -> (length keys <= 2)%nat -> H l keys <= 1.
Proof.
  intros. replace 1 with (log2 (INR 2)); [apply H_le_log2_card; assumption|].
  unfold log2. cbn. replace (1 + 1) with 2 by lra. field. pose proof ln2_pos; lra.
Qed.
End Entropy.

Print Assumptions H_le_log2_card.

(* ---------- mutual information ---------- *)
Lemma Rsum_map {B C} (f : B -> C) (g : C -> R) l : Rsum g (map f l) = Rsum (fun x => g (f x)) l.
Proof. induction l; cbn; [reflexivity|]. rewrite IHl. reflexivity. Qed.
Lemma Rsum_app {B} (g : B -> R) l1 l2 : Rsum g (l1 ++ l2) = Rsum g l1 + Rsum g l2.
Proof. induction l1; cbn; [lra|]. rewrite IHl1. lra. Qed.
Lemma Rsum_prod {B C} (f : B -> R) (h : C -> R) k1 k2 :
  Rsum (fun q => f (fst q) * h (snd q)) (list_prod k1 k2) = Rsum f k1 * Rsum h k2.
Proof.
  induction k1 as [|x k1 IH]; cbn [list_prod Rsum]; [lra|].
  rewrite Rsum_app, IH, Rsum_map. cbn [fst snd]. rewrite Rsum_scal. lra.
Qed.

Lemma NoDup_app_disj {B} (l1 l2 : list B) : NoDup l1 -> NoDup l2 ->
  (forall a, In a l1 -> ~ In a l2) -> NoDup (l1 ++ l2).
Proof.
  intros H1 H2 Hd. induction l1 as [|a l1 IH]; [exact H2|].
  inversion H1 as [|? ? Ha H1']; subst. cbn. constructor.
  - intros Hin. apply in_app_or in Hin as [Hin|Hin]; [contradiction|]. apply (Hd a); [left; reflexivity|exact Hin].
  - apply IH; [exact H1'|]. intros b Hb. apply Hd. right; exact Hb.
Qed.

Lemma NoDup_list_prod {B C} (k1 : list B) (k2 : list C) : NoDup k1 -> NoDup k2 -> NoDup (list_prod k1 k2).
Proof.
  intros H1 H2. induction k1 as [|x k1 IH]; [constructor|]. inversion H1 as [|? ? Hx H1']; subst.
  cbn [list_prod]. apply NoDup_app_disj.
  - clear - H2. induction k2 as [|y k2 IHk]; [constructor|]. inversion H2; subst. cbn. constructor; [|apply IHk; assumption].
    intros Hin. apply in_map_iff in Hin as (y' & E & Hy). injection E as ->. contradiction.
  - apply IH. exact H1'.
  - intros [a b] Ha Hb. apply in_map_iff in Ha as (y & E & _). injection E as <- _.
    apply in_prod_iff in Hb as [Hb _]. contradiction.
Qed.

Section SubSum.
Variable B : Type.
Variable eqB : forall a b : B, {a = b} + {a <> b}.
Lemma Rsum_remove (g : B -> R) a l : NoDup l -> In a l -> Rsum g l = g a + Rsum g (remove eqB a l).
Proof.
  induction l as [|x l IH]; intros Hnd Hin; [contradiction|].
  inversion Hnd as [|? ? Hx Hnd']; subst. cbn [remove Rsum].
  destruct (eqB a x) as [->|Hne].
  - rewrite notin_remove by exact Hx. reflexivity.
  - destruct Hin as [->|Hin]; [congruence|]. cbn [Rsum]. rewrite (IH Hnd' Hin). lra.
Qed.
Lemma Rsum_incl_le (g : B -> R) l1 : forall l2, NoDup l1 -> NoDup l2 -> incl l1 l2 ->
  (forall x, In x l2 -> 0 <= g x) -> Rsum g l1 <= Rsum g l2.
Proof.
  induction l1 as [|a l1 IH]; intros l2 H1 H2 Hi Hg.
  - cbn. apply Rsum_nonneg. exact Hg.
  - inversion H1 as [|? ? Ha H1']; subst. cbn [Rsum].
    rewrite (Rsum_remove g a l2 H2) by (apply Hi; left; reflexivity).
    assert (Rsum g l1 <= Rsum g (remove eqB a l2)); [|lra].
    apply IH; [exact H1'|apply NoDup_remove_1 with (l := []) || idtac| |].
    + clear - H2. induction l2 as [|x l2 IHl]; [constructor|]. inversion H2; subst. cbn.
      destruct (eqB a x); [apply IHl; assumption|]. constructor; [|apply IHl; assumption].
      intros Hin. apply in_remove in Hin as [Hin _]. contradiction.
    + intros x Hx. apply in_in_remove; [intros ->; contradiction|]. apply Hi. right; exact Hx.
    + intros x Hx. apply in_remove in Hx as [Hx _]. apply Hg; exact Hx.
Qed.
End SubSum.

Section MI.
Variables A B : Type.
Variable eqA : forall a b : A, {a = b} + {a <> b}.
Variable eqB : forall a b : B, {a = b} + {a <> b}.
Definition eqAB : forall a b : A * B, {a = b} + {a <> b}.
Proof. decide equality. Defined.

Variable l : list (A * B).
Hypothesis l_ne : l <> [].
Local Notation X := (map fst l).
Local Notation Y := (map snd l).
Variables (kX : list A) (kY : list B) (kXY : list (A * B)).
Hypothesis HkX : symbols_of A X kX.
Hypothesis HkY : symbols_of B Y kY.
Hypothesis HkXY : symbols_of (A * B) l kXY.

Local Notation pX := (p A eqA X).
Local Notation pY := (p B eqB Y).
Local Notation pXY := (p (A * B) eqAB l).
Definition MI : R := H A eqA X kX + H B eqB Y kY - H (A * B) eqAB l kXY.

Local Notation n := (INR (length l)).
Lemma n_pos : 0 < n.
Proof. apply lt_0_INR. destruct l; [congruence|cbn; lia]. Qed.
Lemma lenX : length X = length l. Proof. apply map_length. Qed.
Lemma lenY : length Y = length l. Proof. apply map_length. Qed.
Lemma X_ne : X <> []. Proof. destruct l; [congruence|discriminate]. Qed.
Lemma Y_ne : Y <> []. Proof. destruct l; [congruence|discriminate]. Qed.

(* symbol sums as position sums *)
Lemma pos_sum {C} (eqC : forall a b : C, {a = b} + {a <> b}) (m keys : list C) (g : C -> R) :
  m <> [] -> symbols_of C m keys ->
  Rsum (fun x => p C eqC m x * g x) keys = / INR (length m) * Rsum g m.
Proof.
  intros Hne [Hnd Hk].
  rewrite (grouping C eqC g m keys Hnd) by (intros x Hx; apply Hk; exact Hx).
  rewrite <- Rsum_scal. apply Rsum_ext. intros x _. unfold p, Rdiv. lra.
Qed.

Lemma HX_pos : H A eqA X kX = - (/ n * Rsum (fun q => log2 (pX (fst q))) l).
Proof.
  unfold H. rewrite (pos_sum eqA X kX (fun x => log2 (pX x)) X_ne HkX).
  rewrite Rsum_map, lenX. reflexivity.
Qed.
Lemma HY_pos : H B eqB Y kY = - (/ n * Rsum (fun q => log2 (pY (snd q))) l).
Proof.
  unfold H. rewrite (pos_sum eqB Y kY (fun y => log2 (pY y)) Y_ne HkY).
  rewrite Rsum_map, lenY. reflexivity.
Qed.
Lemma HXY_pos : H (A * B) eqAB l kXY = - (/ n * Rsum (fun q => log2 (pXY q)) l).
Proof. unfold H. rewrite (pos_sum eqAB l kXY (fun q => log2 (pXY q)) l_ne HkXY). reflexivity. Qed.

Lemma in_l_ranges q : In q l -> 0 < pX (fst q) <= 1 /\ 0 < pY (snd q) <= 1 /\ 0 < pXY q <= 1.
Proof.
  intros Hq. repeat split.
  1,2: apply (p_range A eqA X kX (fst q) HkX); apply HkX; apply in_map; exact Hq.
  1,2: apply (p_range B eqB Y kY (snd q) HkY); apply HkY; apply in_map; exact Hq.
  1,2: apply (p_range (A * B) eqAB l kXY q HkXY); apply HkXY; exact Hq.
Qed.

Theorem MI_nonneg : 0 <= MI.
Proof.
  pose proof ln2_pos as L2. pose proof n_pos as Hn.
  unfold MI. rewrite HX_pos, HY_pos, HXY_pos.
  (* MI = 1/(n ln2) * sum_l ( ln pXY - ln pX - ln pY ) *)
  assert (E : - (/ n * Rsum (fun q => log2 (pX (fst q))) l) + - (/ n * Rsum (fun q => log2 (pY (snd q))) l)
              - - (/ n * Rsum (fun q => log2 (pXY q)) l)
            = / n * / ln 2 * Rsum (fun q => ln (pXY q) - ln (pX (fst q)) - ln (pY (snd q))) l).
  { rewrite (Rsum_ext (fun q => ln (pXY q) - ln (pX (fst q)) - ln (pY (snd q)))
                      (fun q => ln 2 * log2 (pXY q) + (-1 * (ln 2 * log2 (pX (fst q))) + -1 * (ln 2 * log2 (pY (snd q)))))).
    - rewrite !Rsum_plus, !Rsum_scal. field. split; lra.
    - intros q _. unfold log2. field. lra. }
  rewrite E. clear E.
  assert (0 <= Rsum (fun q => ln (pXY q) - ln (pX (fst q)) - ln (pY (snd q))) l).
  { (* termwise: ln z >= 1 - 1/z *)
    apply Rle_trans with (Rsum (fun q => 1 - pX (fst q) * pY (snd q) / pXY q) l).
    - (* sum of the lower bounds is n - n * sum_{kXY} pX pY >= 0 *)
      rewrite (Rsum_ext _ (fun q => 1 + -1 * (pX (fst q) * pY (snd q) / pXY q))) by (intros; lra).
      rewrite Rsum_plus, Rsum_scal, Rsum_const.
      destruct HkXY as [Hnd Hk].
      rewrite (grouping (A * B) eqAB (fun q => pX (fst q) * pY (snd q) / pXY q) l kXY Hnd)
        by (intros x Hx; apply Hk; exact Hx).
      rewrite (Rsum_ext _ (fun q => n * (pX (fst q) * pY (snd q)))).
      2:{ intros q Hq. apply Hk in Hq. destruct (in_l_ranges q Hq) as (_ & _ & [H0 _]).
          generalize (pX (fst q)) (pY (snd q)). intros a b. unfold p in *.
          set (c := INR (cnt (A * B) eqAB q l)) in *.
          assert (Hc : c <> 0) by (intros Hz; rewrite Hz in H0; unfold Rdiv in H0; lra).
          field. split; [lra|exact Hc]. }
      rewrite Rsum_scal.
      assert (Rsum (fun q => pX (fst q) * pY (snd q)) kXY <= 1); [|nra].
      apply Rle_trans with (Rsum (fun q => pX (fst q) * pY (snd q)) (list_prod kX kY)).
      + apply (Rsum_incl_le (A * B) eqAB); [exact Hnd| | |].
        * apply NoDup_list_prod; [apply HkX|apply HkY].
        * intros [x y] Hq. apply Hk in Hq. apply in_prod.
          -- apply HkX. change x with (fst (x, y)). apply in_map. exact Hq.
          -- apply HkY. change y with (snd (x, y)). apply in_map. exact Hq.
        * intros [x y] Hq. apply in_prod_iff in Hq as [Hx Hy].
          destruct (p_range A eqA X kX x HkX Hx), (p_range B eqB Y kY y HkY Hy). cbn [fst snd]. nra.
      + rewrite Rsum_prod. rewrite (p_sum A eqA X kX X_ne HkX), (p_sum B eqB Y kY Y_ne HkY). lra.
    - apply Rsum_le. intros q Hq. destruct (in_l_ranges q Hq) as ([Hx _] & [Hy _] & [Hxy _]).
      assert (Hz : 0 < pX (fst q) * pY (snd q) / pXY q) by (apply Rdiv_lt_0_compat; nra).
      pose proof (ln_le_sub1 _ Hz) as Hl. unfold Rdiv in Hl.
      assert (Hi : 0 < / pXY q) by (apply Rinv_0_lt_compat; exact Hxy).
      assert (El : ln (pX (fst q) * pY (snd q) * / pXY q) = ln (pX (fst q)) + ln (pY (snd q)) - ln (pXY q)).
      { rewrite ln_mult by nra. rewrite ln_mult by assumption. rewrite ln_Rinv by assumption. lra. }
      rewrite El in Hl. unfold Rdiv. lra. }
  assert (0 < / n) by (apply Rinv_0_lt_compat; exact Hn).
  assert (0 < / ln 2) by (apply Rinv_0_lt_compat; exact L2).
  apply Rmult_le_pos; [apply Rmult_le_pos; lra|assumption].
Qed.
End MI.

Print Assumptions MI_nonneg.
