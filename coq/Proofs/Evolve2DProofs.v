(* Proofs for C02: the memoize=False path of evolve2d is the synchronous update of a torus.
   - the von Neumann mask is the Manhattan diamond;
   - the index lists of _get_neighbourhood_indices resolve (NumPy negative indexing) to (x - r + k) mod n;
   - _get_neighbourhood returns the torus block (and the mask of the neighbourhood type);
   - one step is the fold over the row-major list of cells, threading the rule state; the call log;
   - the whole evolution is the iteration of that step. *)
From Coq Require Import ZArith Lia ZifyBool ZifyNat.
From CPL Require Import Model.Base Model.Rules Model.Engine Model.Evolve2D Model.Evolve2DChecked.
Local Open Scope nat_scope.

(* ------------------------------------------------------------------ shapes *)
Definition wf_grid (R C : nat) (g : grid) : Prop :=
  length g = R /\ Forall (fun row => length row = C) g.

(* the mask the property states, per neighbourhood type *)
Definition mask_of (ty : nbhd_type) (r : nat) : list (list bool) :=
  match ty with Moore => no_mask r | VonNeumann => manhattan_mask r end.

(* the neighbourhood the property states: torus block + mask *)
Definition nb_spec (g : grid) (r : nat) (ty : nbhd_type) (row col : nat) : nbhd2 :=
  {| nb_vals := torus_block g row col r; nb_mask := mask_of ty r |}.

(* ------------------------------------------------------------------ list helpers *)
Lemma nth_map_seq {A} (f : nat -> A) n k d : k < n -> nth k (map f (seq 0 n)) d = f k.
Proof.
  intros H. rewrite nth_indep with (d' := f 0) by (rewrite map_length, seq_length; exact H).
  rewrite map_nth, seq_nth by exact H. reflexivity.
Qed.

Lemma list_as_map_nth {A} (l : list A) d : l = map (fun i => nth i l d) (seq 0 (length l)).
Proof.
  induction l as [|x l IH]; [reflexivity|].
  cbn [length seq map nth]. f_equal. rewrite <- seq_shift, map_map. exact IH.
Qed.

Lemma wf_grid_rows R C g : wf_grid R C g -> grid_rows g = R.
Proof. intros [H _]. exact H. Qed.

Lemma wf_grid_cols R C g : 1 <= R -> wf_grid R C g -> grid_cols g = C.
Proof.
  intros HR [Hl Hf]. unfold grid_cols. destruct g as [|x g]; cbn in *; [lia|].
  inversion Hf; assumption.
Qed.

Lemma wf_grid_nth R C g k : wf_grid R C g -> k < R -> length (nth k g []) = C.
Proof.
  intros [Hl Hf] Hk. rewrite Forall_forall in Hf. apply Hf. apply nth_In. lia.
Qed.

(* ------------------------------------------------------------------ the mask *)
Theorem vn_mask_spec : forall r, vn_mask r = manhattan_mask r.
Proof.
  intros r. unfold vn_mask, manhattan_mask, vn_mask_row.
  apply map_ext_in. intros i Hi. apply in_seq in Hi.
  apply map_ext_in. intros j Hj. apply in_seq in Hj.
  destruct (i <=? r) eqn:Ei; destruct (j <=? r) eqn:Ej; lia.
Qed.

Lemma manhattan_mask_shape r :
  length (manhattan_mask r) = 2 * r + 1 /\ Forall (fun row => length row = 2 * r + 1) (manhattan_mask r).
Proof.
  unfold manhattan_mask. split.
  - rewrite map_length, seq_length. reflexivity.
  - apply Forall_forall. intros row Hin. apply in_map_iff in Hin. destruct Hin as [i [Hi _]].
    subst row. rewrite map_length, seq_length. reflexivity.
Qed.

Theorem vn_mask_shape : forall r,
  length (vn_mask r) = 2 * r + 1 /\ Forall (fun row => length row = 2 * r + 1) (vn_mask r).
Proof. intros r. rewrite vn_mask_spec. apply manhattan_mask_shape. Qed.

Lemma no_mask_shape r :
  length (no_mask r) = 2 * r + 1 /\ Forall (fun row => length row = 2 * r + 1) (no_mask r).
Proof.
  unfold no_mask. split.
  - apply repeat_length.
  - apply Forall_forall. intros row Hin. apply repeat_spec in Hin. subst row. apply repeat_length.
Qed.

(* entry (i, j) is masked iff |i - r| + |j - r| > r *)
Theorem manhattan_mask_entry : forall r i j, i <= 2 * r -> j <= 2 * r ->
  (nth j (nth i (manhattan_mask r) []) false = true
   <-> (Z.abs (Z.of_nat i - Z.of_nat r) + Z.abs (Z.of_nat j - Z.of_nat r) > Z.of_nat r)%Z).
Proof.
  intros r i j Hi Hj. unfold manhattan_mask.
  rewrite nth_map_seq by lia. rewrite nth_map_seq by lia.
  destruct (i <=? r) eqn:Ei; destruct (j <=? r) eqn:Ej; lia.
Qed.

Theorem vn_mask_entry : forall r i j, i <= 2 * r -> j <= 2 * r ->
  (nth j (nth i (vn_mask r) []) false = true
   <-> (Z.abs (Z.of_nat i - Z.of_nat r) + Z.abs (Z.of_nat j - Z.of_nat r) > Z.of_nat r)%Z).
Proof. intros r i j. rewrite vn_mask_spec. apply manhattan_mask_entry. Qed.

Lemma nth_repeat_lt {A} (x d : A) : forall n i, i < n -> nth i (repeat x n) d = x.
Proof.
  induction n as [|n IH]; intros i Hi; [lia|]. destruct i as [|i]; [reflexivity|].
  cbn [repeat nth]. apply IH. lia.
Qed.

Lemma no_mask_entry r i j : i <= 2 * r -> j <= 2 * r -> nth j (nth i (no_mask r) []) false = false.
Proof.
  intros Hi Hj. unfold no_mask. rewrite nth_repeat_lt by lia. apply nth_repeat_lt. lia.
Qed.

(* ------------------------------------------------------------------ one axis *)
(* the k-th entry of axis_indices, as a function *)
Definition axis_entry (n x r k : nat) : Z :=
  let i := (Z.of_nat x - Z.of_nat r + Z.of_nat k)%Z in
  if (Z.of_nat n - 1 <? i)%Z then (i - Z.of_nat n)%Z else i.

Lemma axis_indices_map n x r : axis_indices n x r = map (axis_entry n x r) (seq 0 (2 * r + 1)).
Proof. reflexivity. Qed.

Lemma axis_indices_nth n x r k : k <= 2 * r -> nth k (axis_indices n x r) 0%Z = axis_entry n x r k.
Proof. intros H. rewrite axis_indices_map. apply nth_map_seq. lia. Qed.

Lemma py_index_axis_entry n x r k : x < n -> k <= 2 * r -> r <= n ->
  py_index n (axis_entry n x r k) = Some ((x + k + n - r) mod n).
Proof.
  intros Hx Hk Hr. unfold axis_entry, py_index. cbv zeta.
  destruct (Z.of_nat n - 1 <? Z.of_nat x - Z.of_nat r + Z.of_nat k)%Z eqn:E1.
  - (* wrapped on the high side by the subtraction *)
    destruct ((0 <=? Z.of_nat x - Z.of_nat r + Z.of_nat k - Z.of_nat n)%Z &&
              (Z.of_nat x - Z.of_nat r + Z.of_nat k - Z.of_nat n <? Z.of_nat n)%Z) eqn:E2; [|lia].
    f_equal. apply Nat.mod_unique with (q := 2); lia.
  - destruct ((0 <=? Z.of_nat x - Z.of_nat r + Z.of_nat k)%Z &&
              (Z.of_nat x - Z.of_nat r + Z.of_nat k <? Z.of_nat n)%Z) eqn:E2.
    + (* in range *)
      f_equal. apply Nat.mod_unique with (q := 1); lia.
    + (* negative: NumPy counts from the end *)
      destruct ((- Z.of_nat n <=? Z.of_nat x - Z.of_nat r + Z.of_nat k)%Z &&
                (Z.of_nat x - Z.of_nat r + Z.of_nat k <? 0)%Z) eqn:E3; [|lia].
      f_equal. apply Nat.mod_unique with (q := 0); lia.
Qed.

Lemma get_axis_entry {A} (d : A) (l : list A) n x r k : length l = n -> x < n -> k <= 2 * r -> r <= n ->
  get_axis d l (axis_entry n x r k) = nth ((x + k + n - r) mod n) l d.
Proof.
  intros Hl Hx Hk Hr. unfold get_axis. rewrite Hl, py_index_axis_entry by assumption. reflexivity.
Qed.

(* the resolved index at offset k is (x - r + k) mod n, written on naturals as (x + k + n - r) mod n *)
Theorem axis_index_spec : forall (A : Type) (d : A) (l : list A) n x r k,
  length l = n -> x < n -> k <= 2 * r -> r <= n ->
  get_axis d l (nth k (axis_indices n x r) 0%Z) = nth ((x + k + n - r) mod n) l d
  /\ axis_in_range n (nth k (axis_indices n x r) 0%Z) = true
  /\ Z.of_nat ((x + k + n - r) mod n) = ((Z.of_nat x - Z.of_nat r + Z.of_nat k) mod Z.of_nat n)%Z.
Proof.
  intros A d l n x r k Hl Hx Hk Hr. rewrite axis_indices_nth by exact Hk. split; [|split].
  - apply get_axis_entry; assumption.
  - unfold axis_in_range. rewrite py_index_axis_entry by assumption. reflexivity.
  - rewrite Nat2Z.inj_mod.
    replace (Z.of_nat (x + k + n - r)) with ((Z.of_nat x - Z.of_nat r + Z.of_nat k) + 1 * Z.of_nat n)%Z by lia.
    apply Z_mod_plus_full.
Qed.

Lemma axis_indices_length n x r : length (axis_indices n x r) = 2 * r + 1.
Proof. unfold axis_indices. rewrite map_length, seq_length. reflexivity. Qed.

(* r <= n is exactly the guard: one more and the first cell's lowest index is out of range *)
Lemma axis_out_of_range n r : n < r -> axis_in_range n (nth 0 (axis_indices n 0 r) 0%Z) = false.
Proof.
  intros H. rewrite axis_indices_nth by lia. unfold axis_in_range, axis_entry, py_index. cbv zeta.
  destruct (Z.of_nat n - 1 <? Z.of_nat 0 - Z.of_nat r + Z.of_nat 0)%Z eqn:E1; [lia|].
  destruct ((0 <=? Z.of_nat 0 - Z.of_nat r + Z.of_nat 0)%Z &&
            (Z.of_nat 0 - Z.of_nat r + Z.of_nat 0 <? Z.of_nat n)%Z) eqn:E2; [lia|].
  destruct ((- Z.of_nat n <=? Z.of_nat 0 - Z.of_nat r + Z.of_nat 0)%Z &&
            (Z.of_nat 0 - Z.of_nat r + Z.of_nat 0 <? 0)%Z) eqn:E3; [lia|]. reflexivity.
Qed.

(* ------------------------------------------------------------------ the neighbourhood *)
Lemma ix_gather_torus g R C r row col :
  wf_grid R C g -> 1 <= R -> 1 <= C -> r <= R -> r <= C -> row < R -> col < C ->
  ix_gather g (axis_indices R row r) (axis_indices C col r) = torus_block g row col r.
Proof.
  intros Hwf HR HC HrR HrC Hrow Hcol.
  unfold ix_gather, torus_block. cbv zeta.
  rewrite (wf_grid_rows R C g Hwf), (wf_grid_cols R C g HR Hwf).
  rewrite (axis_indices_map R), map_map.
  apply map_ext_in. intros a Ha. apply in_seq in Ha.
  rewrite (axis_indices_map C), map_map.
  apply map_ext_in. intros b Hb. apply in_seq in Hb.
  rewrite (get_axis_entry [] g R row r a) by (try lia; apply Hwf).
  apply get_axis_entry; try lia.
  apply (wf_grid_nth R C g); [exact Hwf|]. apply Nat.mod_upper_bound. lia.
Qed.

Theorem get_neighbourhood_spec : forall g R C r row col ty,
  wf_grid R C g -> 1 <= R -> 1 <= C -> r <= Nat.min R C -> row < R -> col < C ->
  nb_vals (get_neighbourhood g R C r row col ty) = torus_block g row col r /\
  nb_mask (get_neighbourhood g R C r row col ty) = mask_of ty r.
Proof.
  intros g R C r row col ty Hwf HR HC Hr Hrow Hcol. split.
  - cbn [get_neighbourhood nb_vals]. apply ix_gather_torus; try assumption; lia.
  - cbn [get_neighbourhood nb_mask]. destruct ty; [reflexivity|]. apply vn_mask_spec.
Qed.

Lemma get_neighbourhood_eq g R C r row col ty :
  wf_grid R C g -> 1 <= R -> 1 <= C -> r <= Nat.min R C -> row < R -> col < C ->
  get_neighbourhood g R C r row col ty = nb_spec g r ty row col.
Proof.
  intros Hwf HR HC Hr Hrow Hcol.
  destruct (get_neighbourhood_spec g R C r row col ty Hwf HR HC Hr Hrow Hcol) as [Hv Hm].
  unfold nb_spec. rewrite <- Hv, <- Hm. destruct (get_neighbourhood g R C r row col ty). reflexivity.
Qed.

Lemma torus_block_shape g row col r :
  length (torus_block g row col r) = 2 * r + 1 /\
  Forall (fun x => length x = 2 * r + 1) (torus_block g row col r).
Proof.
  unfold torus_block. cbv zeta. split.
  - rewrite map_length, seq_length. reflexivity.
  - apply Forall_forall. intros x Hin. apply in_map_iff in Hin. destruct Hin as [a [Ha _]]. subst x.
    rewrite map_length, seq_length. reflexivity.
Qed.

(* entry (a, b) of the block: the state of the cell at offset (a - r, b - r) on the torus *)
Lemma torus_block_entry g R C row col r a b : wf_grid R C g -> 1 <= R -> a <= 2 * r -> b <= 2 * r ->
  nth b (nth a (torus_block g row col r) []) 0%Z
  = nth ((col + b + C - r) mod C) (nth ((row + a + R - r) mod R) g []) 0%Z.
Proof.
  intros Hwf HR Ha Hb. unfold torus_block. cbv zeta.
  rewrite (wf_grid_rows R C g Hwf), (wf_grid_cols R C g HR Hwf).
  rewrite nth_map_seq by lia. rewrite nth_map_seq by lia. reflexivity.
Qed.

(* ------------------------------------------------------------------ one step: the specification *)
(* row-major list of the cells of an R x C grid *)
Definition cells (R C : nat) : list (nat * nat) :=
  flat_map (fun row => map (pair row) (seq 0 C)) (seq 0 R).

(* the rule is called once per cell of the list, in order, on the torus neighbourhood of the
   PREVIOUS grid g, with the cell identity and t; the rule state is threaded; results are stored *)
Fixpoint run_cells {St} (rule : rule2 St) (store : Z -> Z) (s : St) (g : grid) (r : nat) (ty : nbhd_type)
         (cs : list (nat * nat)) (t : nat) : St * list Z :=
  match cs with
  | [] => (s, [])
  | c :: cs' =>
      let '(s1, v) := rule s (nb_spec g r ty (fst c) (snd c)) c t in
      let '(s2, vs) := run_cells rule store s1 g r ty cs' t in
      (s2, store v :: vs)
  end.

(* the flat list of results, read as an R x C grid: entry (row, col) is result number row * C + col *)
Definition unflatten (R C : nat) (vs : list Z) : grid :=
  map (fun row => map (fun col => nth (row * C + col) vs 0%Z) (seq 0 C)) (seq 0 R).

Definition spec_step {St} (rule : rule2 St) (store : Z -> Z) (R C r : nat) (ty : nbhd_type)
  : St -> grid -> nat -> St * grid :=
  fun s g t => let '(s', vs) := run_cells rule store s g r ty (cells R C) t in (s', unflatten R C vs).

(* the call the property prescribes for a cell *)
Definition call_of (g : grid) (r : nat) (ty : nbhd_type) (t : nat) (c : nat * nat) : call2 :=
  (nb_spec g r ty (fst c) (snd c), c, t).

Lemma unflatten_wf R C vs : wf_grid R C (unflatten R C vs).
Proof.
  unfold unflatten. split.
  - rewrite map_length, seq_length. reflexivity.
  - apply Forall_forall. intros x Hin. apply in_map_iff in Hin. destruct Hin as [a [Ha _]]. subst x.
    rewrite map_length, seq_length. reflexivity.
Qed.

Lemma unflatten_entry R C vs row col : row < R -> col < C ->
  nth col (nth row (unflatten R C vs) []) 0%Z = nth (row * C + col) vs 0%Z.
Proof.
  intros Hr Hc. unfold unflatten. rewrite nth_map_seq by exact Hr. rewrite nth_map_seq by exact Hc. reflexivity.
Qed.

Lemma unflatten_concat C : forall gg R, wf_grid R C gg -> unflatten R C (concat gg) = gg.
Proof.
  induction gg as [|x gg IH]; intros R [Hl Hf].
  - cbn in Hl. subst R. reflexivity.
  - cbn [length] in Hl. subst R. inversion Hf as [|x' gg' Hx Hgg]; subst x' gg'.
    unfold unflatten. cbn [seq map concat]. f_equal.
    + transitivity (map (fun col => nth col x 0%Z) (seq 0 C)).
      * apply map_ext_in. intros col Hc. apply in_seq in Hc. cbn [Nat.mul Nat.add].
        apply app_nth1. lia.
      * rewrite <- Hx. symmetry. apply list_as_map_nth.
    + rewrite <- seq_shift, map_map.
      transitivity (unflatten (length gg) C (concat gg)); [|apply IH; split; [reflexivity|exact Hgg]].
      unfold unflatten. apply map_ext_in. intros row _. apply map_ext_in. intros col _.
      replace (S row * C + col) with (length x + (row * C + col)) by lia.
      apply app_nth2_plus.
Qed.

Lemma run_cells_length {St} (rule : rule2 St) store g r ty t : forall cs s,
  length (snd (run_cells rule store s g r ty cs t)) = length cs.
Proof.
  induction cs as [|c cs IH]; intros s; [reflexivity|].
  cbn [run_cells]. destruct (rule s (nb_spec g r ty (fst c) (snd c)) c t) as [s1 v].
  specialize (IH s1). destruct (run_cells rule store s1 g r ty cs t) as [s2 vs].
  cbn [snd length] in *. rewrite IH. reflexivity.
Qed.

Lemma run_cells_app {St} (rule : rule2 St) store g r ty t : forall a b s,
  run_cells rule store s g r ty (a ++ b) t =
  let '(s1, va) := run_cells rule store s g r ty a t in
  let '(s2, vb) := run_cells rule store s1 g r ty b t in (s2, va ++ vb).
Proof.
  induction a as [|c a IH]; intros b s.
  - cbn [app run_cells]. destruct (run_cells rule store s g r ty b t). reflexivity.
  - cbn [app run_cells]. destruct (rule s (nb_spec g r ty (fst c) (snd c)) c t) as [s1 v].
    rewrite IH. destruct (run_cells rule store s1 g r ty a t) as [s2 va].
    destruct (run_cells rule store s2 g r ty b t) as [s3 vb]. reflexivity.
Qed.

(* ------------------------------------------------------------------ one step: model = specification *)
Section Step.
  Variable St : Type.
  Variable rule : rule2 St.
  Variable store : Z -> Z.
  Variables (g : grid) (R C r : nat) (ty : nbhd_type) (t : nat).
  Hypothesis Hwf : wf_grid R C g.
  Hypothesis HR : 1 <= R.
  Hypothesis HC : 1 <= C.
  Hypothesis Hr : r <= Nat.min R C.

  Lemma apply_cols_run row : row < R -> forall cols, Forall (fun c => c < C) cols -> forall s,
    apply_cols rule store s g R C r ty row cols t = run_cells rule store s g r ty (map (pair row) cols) t.
  Proof.
    intros Hrow. induction cols as [|col cols IH]; intros Hf s; [reflexivity|].
    inversion Hf as [|c' l' Hcol Hf']; subst c' l'.
    cbn [apply_cols map run_cells fst snd].
    rewrite (get_neighbourhood_eq g R C r row col ty Hwf HR HC Hr Hrow Hcol).
    destruct (rule s (nb_spec g r ty row col) (row, col) t) as [s1 v].
    rewrite (IH Hf' s1). reflexivity.
  Qed.

  Lemma seq_lt n : Forall (fun c => c < n) (seq 0 n).
  Proof. apply Forall_forall. intros x Hx. apply in_seq in Hx. lia. Qed.

  Lemma apply_rows_run : forall rows, Forall (fun x => x < R) rows -> forall s,
    let '(s', gg) := apply_rows rule store s g R C r ty rows t in
    run_cells rule store s g r ty (flat_map (fun row => map (pair row) (seq 0 C)) rows) t = (s', concat gg)
    /\ wf_grid (length rows) C gg.
  Proof.
    induction rows as [|row rows IH]; intros Hf s.
    - cbn. split; [reflexivity|]. split; [reflexivity|constructor].
    - inversion Hf as [|c' l' Hrow Hf']; subst c' l'.
      cbn [apply_rows flat_map].
      rewrite (apply_cols_run row Hrow (seq 0 C) (seq_lt C) s).
      pose proof (run_cells_length rule store g r ty t (map (pair row) (seq 0 C)) s) as Hlen.
      destruct (run_cells rule store s g r ty (map (pair row) (seq 0 C)) t) as [s1 vs] eqn:E1.
      specialize (IH Hf' s1).
      destruct (apply_rows rule store s1 g R C r ty rows t) as [s2 rest].
      destruct IH as [IH1 [IH2 IH3]].
      rewrite run_cells_app, E1, IH1. split; [reflexivity|].
      cbn [snd] in Hlen. rewrite map_length, seq_length in Hlen.
      split; [cbn [length]; rewrite IH2; reflexivity|]. constructor; assumption.
  Qed.

  Theorem step_plain2d_spec_local : forall s,
    step_plain2d rule store r ty s g t = spec_step rule store R C r ty s g t.
  Proof.
    intros s. unfold step_plain2d, spec_step, cells.
    rewrite (wf_grid_rows R C g Hwf), (wf_grid_cols R C g HR Hwf).
    pose proof (apply_rows_run (seq 0 R) (seq_lt R) s) as H.
    destruct (apply_rows rule store s g R C r ty (seq 0 R) t) as [s' gg].
    destruct H as [H1 H2]. rewrite H1. rewrite seq_length in H2.
    rewrite (unflatten_concat C gg R H2). reflexivity.
  Qed.
End Step.

Theorem step_plain2d_spec : forall (St : Type) (rule : rule2 St) (store : Z -> Z) g R C r ty t s,
  wf_grid R C g -> 1 <= R -> 1 <= C -> r <= Nat.min R C ->
  step_plain2d rule store r ty s g t = spec_step rule store R C r ty s g t.
Proof. intros. apply step_plain2d_spec_local; assumption. Qed.

Theorem step_plain2d_wf : forall (St : Type) (rule : rule2 St) (store : Z -> Z) g R C r ty t s,
  wf_grid R C g -> 1 <= R -> 1 <= C -> r <= Nat.min R C ->
  wf_grid R C (snd (step_plain2d rule store r ty s g t)).
Proof.
  intros St rule store g R C r ty t s Hwf HR HC Hr.
  rewrite (step_plain2d_spec St rule store g R C r ty t s Hwf HR HC Hr). unfold spec_step.
  destruct (run_cells rule store s g r ty (cells R C) t) as [s' vs]. apply unflatten_wf.
Qed.

(* ------------------------------------------------------------------ the row-major list of cells *)
Lemma cells_succ R C : cells (S R) C = cells R C ++ map (pair R) (seq 0 C).
Proof.
  unfold cells. rewrite seq_S, flat_map_app. cbn [flat_map Nat.add]. rewrite app_nil_r. reflexivity.
Qed.

Lemma cells_length R C : length (cells R C) = R * C.
Proof.
  induction R as [|R IH]; [reflexivity|].
  rewrite cells_succ, app_length, IH, map_length, seq_length. lia.
Qed.

(* the k-th cell visited is (k / C, k mod C): row-major, each cell exactly once *)
Theorem cells_nth : forall R C k, k < R * C -> nth k (cells R C) (0, 0) = (k / C, k mod C).
Proof.
  induction R as [|R IH]; intros C k Hk; [lia|].
  assert (HC : C <> 0) by (intro; subst C; lia).
  rewrite cells_succ.
  destruct (Nat.lt_ge_cases k (R * C)) as [Hlt|Hge].
  - rewrite app_nth1 by (rewrite cells_length; exact Hlt). apply IH. exact Hlt.
  - rewrite app_nth2 by (rewrite cells_length; exact Hge). rewrite cells_length.
    rewrite nth_indep with (d' := (R, 0)) by (rewrite map_length, seq_length; lia).
    rewrite (map_nth (pair R) (seq 0 C) 0), seq_nth by lia. cbn [Nat.add].
    f_equal.
    + apply Nat.div_unique with (r := k - R * C); lia.
    + apply Nat.mod_unique with (q := R); lia.
Qed.

Lemma cells_In R C row col : In (row, col) (cells R C) <-> row < R /\ col < C.
Proof.
  unfold cells. rewrite in_flat_map. split.
  - intros [x [Hx Hin]]. apply in_seq in Hx. apply in_map_iff in Hin. destruct Hin as [y [Hy Hin]].
    apply in_seq in Hin. inversion Hy; subst. lia.
  - intros [H1 H2]. exists row. split; [apply in_seq; lia|]. apply in_map. apply in_seq. lia.
Qed.

Lemma NoDup_app_disjoint {A} (l m : list A) :
  NoDup l -> NoDup m -> (forall x, In x l -> In x m -> False) -> NoDup (l ++ m).
Proof.
  induction l as [|a l IH]; intros Hl Hm Hd; [exact Hm|].
  inversion Hl as [|a' l' Ha Hl']; subst a' l'. cbn [app]. constructor.
  - intro Hin. apply in_app_or in Hin. destruct Hin as [Hin|Hin]; [exact (Ha Hin)|].
    apply (Hd a); [left; reflexivity|exact Hin].
  - apply IH; [exact Hl'|exact Hm|]. intros x Hx1 Hx2. apply (Hd x); [right; exact Hx1|exact Hx2].
Qed.

Lemma NoDup_map_pair (a : nat) (l : list nat) : NoDup l -> NoDup (map (pair a) l).
Proof.
  induction 1 as [|x l Hx Hl IH]; cbn [map]; constructor; [|exact IH].
  intro Hin. apply in_map_iff in Hin. destruct Hin as [y [Hy Hin]]. inversion Hy; subst. exact (Hx Hin).
Qed.

Theorem cells_NoDup : forall R C, NoDup (cells R C).
Proof.
  induction R as [|R IH]; intros C; [constructor|].
  rewrite cells_succ. apply NoDup_app_disjoint.
  - apply IH.
  - apply NoDup_map_pair. apply seq_NoDup.
  - intros [row col] H1 H2. apply cells_In in H1. apply in_map_iff in H2. destruct H2 as [y [Hy _]].
    inversion Hy; subst. lia.
Qed.

(* ------------------------------------------------------------------ the call log *)
Lemma run_cells_logged {St} (rule : rule2 St) store g r ty t : forall cs s lg,
  run_cells (logged2 rule) store (s, lg) g r ty cs t =
  let '(s', vs) := run_cells rule store s g r ty cs t in ((s', lg ++ map (call_of g r ty t) cs), vs).
Proof.
  induction cs as [|c cs IH]; intros s lg.
  - cbn [run_cells map]. rewrite app_nil_r. reflexivity.
  - cbn [run_cells map]. unfold logged2 at 1.
    destruct (rule s (nb_spec g r ty (fst c) (snd c)) c t) as [s1 v].
    rewrite IH. destruct (run_cells rule store s1 g r ty cs t) as [s2 vs].
    rewrite <- app_assoc. reflexivity.
Qed.

(* with the logging wrapper: same states and values as the bare rule, and the log of the step is
   exactly one call per cell, row-major, with the torus block, the mask, (row, col) and t *)
Theorem step_plain2d_log : forall (St : Type) (rule : rule2 St) (store : Z -> Z) g R C r ty t s lg,
  wf_grid R C g -> 1 <= R -> 1 <= C -> r <= Nat.min R C ->
  step_plain2d (logged2 rule) store r ty (s, lg) g t =
  let '(s', g') := step_plain2d rule store r ty s g t in
  ((s', lg ++ map (call_of g r ty t) (cells R C)), g').
Proof.
  intros St rule store g R C r ty t s lg Hwf HR HC Hr.
  rewrite (step_plain2d_spec _ (logged2 rule) store g R C r ty t (s, lg) Hwf HR HC Hr).
  rewrite (step_plain2d_spec _ rule store g R C r ty t s Hwf HR HC Hr).
  unfold spec_step. rewrite run_cells_logged.
  destruct (run_cells rule store s g r ty (cells R C) t) as [s' vs]. reflexivity.
Qed.

(* ------------------------------------------------------------------ pure rules *)
Lemma run_cells_pure (f : nbhd2 -> nat * nat -> nat -> Z) store g r ty t : forall cs (u : unit),
  run_cells (fun u n c t => (u, f n c t)) store u g r ty cs t =
  (u, map (fun c => store (f (nb_spec g r ty (fst c) (snd c)) c t)) cs).
Proof.
  induction cs as [|c cs IH]; intros u; [reflexivity|].
  cbn [run_cells map]. rewrite IH. reflexivity.
Qed.

Lemma map_cells {A} (h : nat * nat -> A) R C :
  map h (cells R C) = concat (map (fun row => map (fun col => h (row, col)) (seq 0 C)) (seq 0 R)).
Proof.
  unfold cells. rewrite flat_map_concat_map, concat_map, map_map. f_equal.
  apply map_ext. intros row. rewrite map_map. reflexivity.
Qed.

(* rules that may read the cell identity and t but keep no state *)
Theorem step_plain2d_pure_ct : forall (f : nbhd2 -> nat * nat -> nat -> Z) (store : Z -> Z) g R C r ty t (u : unit),
  wf_grid R C g -> 1 <= R -> 1 <= C -> r <= Nat.min R C ->
  snd (step_plain2d (fun u n c t => (u, f n c t)) store r ty u g t) =
  map (fun row => map (fun col =>
         store (f {| nb_vals := torus_block g row col r; nb_mask := mask_of ty r |} (row, col) t))
       (seq 0 C)) (seq 0 R).
Proof.
  intros f store g R C r ty t u Hwf HR HC Hr.
  rewrite (step_plain2d_spec _ _ store g R C r ty t u Hwf HR HC Hr). unfold spec_step.
  rewrite run_cells_pure. cbn [snd].
  rewrite (map_cells (fun c => store (f (nb_spec g r ty (fst c) (snd c)) c t))).
  apply unflatten_concat. split.
  - rewrite map_length, seq_length. reflexivity.
  - apply Forall_forall. intros x Hin. apply in_map_iff in Hin. destruct Hin as [a [Ha _]]. subst x.
    rewrite map_length, seq_length. reflexivity.
Qed.

(* THE COROLLARY OTHER BUILDERS IMPORT: a pure rule f : nbhd2 -> Z *)
Theorem step_plain2d_pure : forall (f : nbhd2 -> Z) (store : Z -> Z) g R C r ty t,
  wf_grid R C g -> 1 <= R -> 1 <= C -> r <= Nat.min R C ->
  snd (step_plain2d (fun u n c t => (u, f n)) store r ty tt g t) =
  map (fun row => map (fun col =>
         store (f {| nb_vals := torus_block g row col r; nb_mask := mask_of ty r |}))
       (seq 0 C)) (seq 0 R).
Proof.
  intros f store g R C r ty t Hwf HR HC Hr.
  exact (step_plain2d_pure_ct (fun n _ _ => f n) store g R C r ty t tt Hwf HR HC Hr).
Qed.

Lemma step_plain2d_pure_state : forall (f : nbhd2 -> nat * nat -> nat -> Z) (store : Z -> Z) g r ty t (u : unit),
  fst (step_plain2d (fun u n c t => (u, f n c t)) store r ty u g t) = tt.
Proof. intros. destruct (fst _). reflexivity. Qed.

(* ------------------------------------------------------------------ the whole evolution *)
Lemma iter_steps_ext {X} (R C : nat) (step1 step2 : X -> grid -> nat -> X * grid) :
  (forall s g t, wf_grid R C g -> step1 s g t = step2 s g t) ->
  (forall s g t, wf_grid R C g -> wf_grid R C (snd (step2 s g t))) ->
  forall n s cur t, wf_grid R C cur -> iter_steps step1 n s cur t = iter_steps step2 n s cur t.
Proof.
  intros Heq Hpres. induction n as [|n IH]; intros s cur t Hwf; [reflexivity|].
  cbn [iter_steps]. rewrite (Heq s cur t Hwf).
  pose proof (Hpres s cur t Hwf) as Hw. destruct (step2 s cur t) as [s1 nxt]. cbn [snd] in Hw.
  rewrite (IH s1 nxt (S t) Hw). reflexivity.
Qed.

Lemma iter_steps_length {X C} (step : X -> C -> nat -> X * C) : forall n s cur t,
  length (snd (iter_steps step n s cur t)) = n.
Proof.
  induction n as [|n IH]; intros s cur t; [reflexivity|].
  cbn [iter_steps]. destruct (step s cur t) as [s1 nxt]. specialize (IH s1 nxt (S t)).
  destruct (iter_steps step n s1 nxt (S t)) as [s2 rest]. cbn [snd length] in *. rewrite IH. reflexivity.
Qed.

Lemma spec_step_wf {St} (rule : rule2 St) store R C r ty s g t :
  wf_grid R C (snd (spec_step rule store R C r ty s g t)).
Proof.
  unfold spec_step. destruct (run_cells rule store s g r ty (cells R C) t) as [s' vs]. apply unflatten_wf.
Qed.

Lemma iter_spec_wf {St} (rule : rule2 St) store R C r ty : forall n s cur t,
  Forall (wf_grid R C) (snd (iter_steps (spec_step rule store R C r ty) n s cur t)).
Proof.
  induction n as [|n IH]; intros s cur t; [constructor|].
  cbn [iter_steps]. pose proof (spec_step_wf rule store R C r ty s cur t) as Hw.
  destruct (spec_step rule store R C r ty s cur t) as [s1 nxt].
  specialize (IH s1 nxt (S t)). destruct (iter_steps _ n s1 nxt (S t)) as [s2 rest].
  cbn [snd] in *. constructor; assumption.
Qed.

(* evolve2d with a number of timesteps T >= 1, memoize=False: the history followed by the T-1 grids
   obtained by iterating the specification step for t = 1 .. T-1 from the last grid of the history *)
Theorem evolve2d_plain_spec : forall (St : Type) (rule : rule2 St) (store : Z -> Z) R C r ty s0 hist T,
  1 <= R -> 1 <= C -> r <= Nat.min R C -> wf_grid R C (last hist []) -> 1 <= T ->
  evolve2d_plain rule store r ty s0 hist T =
  let '(s', grids) := iter_steps (spec_step rule store R C r ty) (T - 1) s0 (last hist []) 1 in
  Ok (s', hist ++ grids).
Proof.
  intros St rule store R C r ty s0 hist T HR HC Hr Hwf HT.
  unfold evolve2d_plain, evolve_fixed. destruct T as [|k]; [lia|].
  replace (S k - 1) with k by lia.
  rewrite (iter_steps_ext R C (step_plain2d rule store r ty) (spec_step rule store R C r ty)).
  - reflexivity.
  - intros s g t Hg. apply step_plain2d_spec; assumption.
  - intros s g t Hg. apply spec_step_wf.
  - exact Hwf.
Qed.

(* the same for a stopping predicate (evolve2d with a callable `timesteps`) *)
Lemma dynamic_loop_ext {X P} (R C : nat) (step1 step2 : X -> grid -> nat -> X * grid)
      (pred : P -> list grid -> nat -> P * bool) :
  (forall s g t, wf_grid R C g -> step1 s g t = step2 s g t) ->
  (forall s g t, wf_grid R C g -> wf_grid R C (snd (step2 s g t))) ->
  forall fuel p x states t plog, wf_grid R C (last states []) ->
  dynamic_loop [] step1 pred fuel p x states t plog = dynamic_loop [] step2 pred fuel p x states t plog.
Proof.
  intros Heq Hpres. induction fuel as [|f IH]; intros p x states t plog Hwf; [reflexivity|].
  cbn [dynamic_loop]. destruct (pred p states t) as [p1 go]. destruct go; [|reflexivity].
  rewrite (Heq x (last states []) t Hwf).
  pose proof (Hpres x (last states []) t Hwf) as Hw. destruct (step2 x (last states []) t) as [x1 nxt].
  cbn [snd] in Hw. apply IH. rewrite last_last. exact Hw.
Qed.

Theorem evolve2d_plain_dynamic_spec : forall (St P : Type) (rule : rule2 St) (store : Z -> Z)
    (pred : P -> list grid -> nat -> P * bool) R C r ty fuel p0 s0 hist,
  1 <= R -> 1 <= C -> r <= Nat.min R C -> wf_grid R C (last hist []) ->
  evolve2d_plain_dynamic rule store pred r ty fuel p0 s0 hist =
  evolve_dynamic [] (spec_step rule store R C r ty) pred fuel p0 s0 hist.
Proof.
  intros St P rule store pred R C r ty fuel p0 s0 hist HR HC Hr Hwf.
  unfold evolve2d_plain_dynamic, evolve_dynamic.
  rewrite (dynamic_loop_ext R C (step_plain2d rule store r ty) (spec_step rule store R C r ty)).
  - reflexivity.
  - intros s g t Hg. apply step_plain2d_spec; assumption.
  - intros s g t Hg. apply spec_step_wf.
  - exact Hwf.
Qed.

(* ------------------------------------------------------------------ the guard r <= min(R, C) *)

Lemma axis_all_in_range n x r : x < n -> r <= n -> forallb (axis_in_range n) (axis_indices n x r) = true.
Proof.
  intros Hx Hr. apply forallb_forall. intros z Hz.
  apply (In_nth _ _ 0%Z) in Hz. destruct Hz as [k [Hk Hz]]. rewrite axis_indices_length in Hk.
  subst z. rewrite axis_indices_nth by lia. unfold axis_in_range.
  rewrite py_index_axis_entry by lia. reflexivity.
Qed.

Lemma axis_some_out_of_range n r : 1 <= n -> n < r ->
  forallb (fun x => forallb (axis_in_range n) (axis_indices n x r)) (seq 0 n) = false.
Proof.
  intros Hn Hr.
  destruct (forallb (fun x => forallb (axis_in_range n) (axis_indices n x r)) (seq 0 n)) eqn:E; [|reflexivity].
  rewrite forallb_forall in E. assert (H0 : In 0 (seq 0 n)) by (apply in_seq; lia).
  specialize (E 0 H0). rewrite forallb_forall in E.
  specialize (E (nth 0 (axis_indices n 0 r) 0%Z)).
  rewrite (axis_out_of_range n r Hr) in E. symmetry. apply E.
  apply nth_In. rewrite axis_indices_length. lia.
Qed.

(* the real code accepts exactly the radii 0 <= r <= min(R, C) *)
Theorem nbhd_in_range_iff : forall R C r, 1 <= R -> 1 <= C ->
  (nbhd_in_range R C r = true <-> r <= Nat.min R C).
Proof.
  intros R C r HR HC. unfold nbhd_in_range. split.
  - intros H. apply andb_prop in H. destruct H as [H1 H2].
    destruct (Nat.le_gt_cases r R) as [HrR|HrR]; [|rewrite (axis_some_out_of_range R r HR HrR) in H1; discriminate].
    destruct (Nat.le_gt_cases r C) as [HrC|HrC]; [|rewrite (axis_some_out_of_range C r HC HrC) in H2; discriminate].
    lia.
  - intros Hr. apply andb_true_intro. split; apply forallb_forall; intros x Hx; apply in_seq in Hx;
      apply axis_all_in_range; lia.
Qed.

Theorem evolve2d_checked_accepts : forall (St : Type) (rule : rule2 St) store R C r ty s0 (hist : list grid) T,
  1 <= R -> 1 <= C -> wf_grid R C (last hist []) -> r <= Nat.min R C ->
  evolve2d_checked rule store r ty s0 hist T = evolve2d_plain rule store r ty s0 hist T.
Proof.
  intros St rule store R C r ty s0 hist T HR HC Hwf Hr. unfold evolve2d_checked. cbv zeta.
  rewrite (wf_grid_rows R C _ Hwf), (wf_grid_cols R C _ HR Hwf).
  destruct (nbhd_in_range_iff R C r HR HC) as [_ H]. rewrite (H Hr), orb_true_r. reflexivity.
Qed.

Theorem evolve2d_checked_rejects : forall (St : Type) (rule : rule2 St) store R C r ty s0 (hist : list grid) T,
  1 <= R -> 1 <= C -> wf_grid R C (last hist []) -> Nat.min R C < r -> 2 <= T ->
  evolve2d_checked rule store r ty s0 hist T = Raise IndexError.
Proof.
  intros St rule store R C r ty s0 hist T HR HC Hwf Hr HT. unfold evolve2d_checked. cbv zeta.
  rewrite (wf_grid_rows R C _ Hwf), (wf_grid_cols R C _ HR Hwf).
  destruct (nbhd_in_range R C r) eqn:E.
  - apply (nbhd_in_range_iff R C r HR HC) in E. lia.
  - destruct (T <=? 1) eqn:E1; [lia|]. reflexivity.
Qed.

(* ------------------------------------------------------------------ evolve-level call log and closed form *)
(* the grid a pure rule produces from g at step t, cell by cell *)
Definition pure_update (f : nbhd2 -> nat * nat -> nat -> Z) (store : Z -> Z) (R C r : nat) (ty : nbhd_type)
           (g : grid) (t : nat) : grid :=
  map (fun row => map (fun col =>
         store (f {| nb_vals := torus_block g row col r; nb_mask := mask_of ty r |} (row, col) t))
       (seq 0 C)) (seq 0 R).

Lemma flat_map_ext_in {A B} (f g : A -> list B) l : (forall a, In a l -> f a = g a) -> flat_map f l = flat_map g l.
Proof. intros H. rewrite !flat_map_concat_map. f_equal. apply map_ext_in. exact H. Qed.

Lemma iter_steps_logged {St} (rule : rule2 St) store R C r ty :
  1 <= R -> 1 <= C -> r <= Nat.min R C ->
  forall n s lg cur t0, wf_grid R C cur ->
  exists s' grids,
    iter_steps (step_plain2d rule store r ty) n s cur t0 = (s', grids) /\
    length grids = n /\ Forall (wf_grid R C) grids /\
    iter_steps (step_plain2d (logged2 rule) store r ty) n (s, lg) cur t0 =
      ((s', lg ++ flat_map (fun t => map (call_of (nth (t - t0) (cur :: grids) []) r ty t) (cells R C)) (seq t0 n)),
       grids).
Proof.
  intros HR HC Hr. induction n as [|n IH]; intros s lg cur t0 Hwf.
  - exists s, []. cbn [iter_steps seq flat_map]. rewrite app_nil_r. repeat (split; [reflexivity || constructor|]). reflexivity.
  - cbn [iter_steps].
    rewrite (step_plain2d_log St rule store cur R C r ty t0 s lg Hwf HR HC Hr).
    pose proof (step_plain2d_wf St rule store cur R C r ty t0 s Hwf HR HC Hr) as Hw1.
    destruct (step_plain2d rule store r ty s cur t0) as [s1 g1]. cbn [snd] in Hw1.
    destruct (IH s1 (lg ++ map (call_of cur r ty t0) (cells R C)) g1 (S t0) Hw1) as [s' [grids [E1 [E2 [E3 E4]]]]].
    exists s', (g1 :: grids). rewrite E1, E4. split; [reflexivity|]. split; [cbn [length]; rewrite E2; reflexivity|].
    split; [constructor; assumption|].
    f_equal. f_equal. rewrite <- app_assoc. f_equal.
    cbn [seq flat_map]. rewrite Nat.sub_diag. cbn [nth]. f_equal.
    apply flat_map_ext_in. intros t Ht. apply in_seq in Ht.
    replace (t - t0) with (S (t - S t0)) by lia. reflexivity.
Qed.

(* shape and exact call log of evolve2d: T-1 new R x C grids; the rule is consulted for t = 1 .. T-1 ascending,
   within a step over the row-major cells, each once, on the torus block (with the mask of the type) of the grid
   of step t-1 (grid 0 = the last grid of the given history) *)
Theorem evolve2d_plain_logged : forall (St : Type) (rule : rule2 St) (store : Z -> Z) R C r ty s0 lg (hist : list grid) T,
  1 <= R -> 1 <= C -> r <= Nat.min R C -> wf_grid R C (last hist []) -> 1 <= T ->
  exists s' grids,
    evolve2d_plain rule store r ty s0 hist T = Ok (s', hist ++ grids) /\
    length grids = T - 1 /\ Forall (wf_grid R C) grids /\
    evolve2d_plain (logged2 rule) store r ty (s0, lg) hist T =
      Ok ((s', lg ++ flat_map (fun t => map (call_of (nth (t - 1) (last hist [] :: grids) []) r ty t) (cells R C))
                              (seq 1 (T - 1))), hist ++ grids).
Proof.
  intros St rule store R C r ty s0 lg hist T HR HC Hr Hwf HT.
  destruct T as [|k]; [lia|]. replace (S k - 1) with k by lia.
  destruct (iter_steps_logged rule store R C r ty HR HC Hr k s0 lg (last hist []) 1 Hwf)
    as [s' [grids [E1 [E2 [E3 E4]]]]].
  exists s', grids. unfold evolve2d_plain, evolve_fixed. unfold grid in *. rewrite E1, E4.
  split; [reflexivity|]. split; [exact E2|]. split; [exact E3|]. reflexivity.
Qed.

Lemma iter_steps_pure (f : nbhd2 -> nat * nat -> nat -> Z) store R C r ty :
  1 <= R -> 1 <= C -> r <= Nat.min R C ->
  forall n (u : unit) cur t0, wf_grid R C cur ->
  exists grids,
    iter_steps (step_plain2d (fun u n c t => (u, f n c t)) store r ty) n u cur t0 = (tt, grids) /\
    length grids = n /\ Forall (wf_grid R C) grids /\
    forall t, t0 <= t < t0 + n ->
      nth (t - t0) grids [] = pure_update f store R C r ty (nth (t - t0) (cur :: grids) []) t.
Proof.
  intros HR HC Hr. induction n as [|n IH]; intros u cur t0 Hwf.
  - exists []. destruct u. cbn [iter_steps]. split; [reflexivity|]. split; [reflexivity|]. split; [constructor|].
    intros t Ht. lia.
  - cbn [iter_steps].
    pose proof (step_plain2d_pure_ct f store cur R C r ty t0 u Hwf HR HC Hr) as Hg.
    pose proof (step_plain2d_wf unit (fun u n c t => (u, f n c t)) store cur R C r ty t0 u Hwf HR HC Hr) as Hw1.
    destruct (step_plain2d (fun u n c t => (u, f n c t)) store r ty u cur t0) as [u1 g1]. cbn [snd] in Hg, Hw1.
    destruct (IH u1 g1 (S t0) Hw1) as [grids [E1 [E2 [E3 E4]]]].
    exists (g1 :: grids). rewrite E1. split; [reflexivity|]. split; [cbn [length]; rewrite E2; reflexivity|].
    split; [constructor; assumption|].
    intros t Ht. destruct (Nat.eq_dec t t0) as [Heq|Hne].
    + subst t. rewrite Nat.sub_diag. cbn [nth]. exact Hg.
    + replace (t - t0) with (S (t - S t0)) by lia. cbn [nth]. apply E4. lia.
Qed.

(* stateless rules that may read n, (row, col), t: every appended grid is the synchronous torus update of the
   grid before it *)
Theorem evolve2d_plain_pure_ct : forall (f : nbhd2 -> nat * nat -> nat -> Z) (store : Z -> Z) R C r ty (hist : list grid) T,
  1 <= R -> 1 <= C -> r <= Nat.min R C -> wf_grid R C (last hist []) -> 1 <= T ->
  exists grids,
    evolve2d_plain (fun u n c t => (u, f n c t)) store r ty tt hist T = Ok (tt, hist ++ grids) /\
    length grids = T - 1 /\ Forall (wf_grid R C) grids /\
    forall t, 1 <= t < T ->
      nth (t - 1) grids [] =
        map (fun row => map (fun col =>
               store (f {| nb_vals := torus_block (nth (t - 1) (last hist [] :: grids) []) row col r;
                           nb_mask := mask_of ty r |} (row, col) t))
             (seq 0 C)) (seq 0 R).
Proof.
  intros f store R C r ty hist T HR HC Hr Hwf HT.
  destruct T as [|k]; [lia|].
  destruct (iter_steps_pure f store R C r ty HR HC Hr k tt (last hist []) 1 Hwf) as [grids [E1 [E2 [E3 E4]]]].
  exists grids. unfold evolve2d_plain, evolve_fixed. unfold grid in *. rewrite E1.
  split; [reflexivity|]. split; [lia|]. split; [exact E3|].
  intros t Ht. apply (E4 t). lia.
Qed.
